import GraafVerif.Proof.DijkstraMain
/-!
# The literal iterator (`next` + `collect`) yields the same sequence as the flattened `run`
-/
namespace GraafVerif.Dijkstra
open GraafVerif

variable {g : WGraph} {S : List Nat} {tag : Nat → Option Nat}

theorem popMax_len {h h' : List Entry} {e : Entry} (hp : popMax h = some (e, h')) :
    h'.length + 1 = h.length := by
  obtain ⟨hmem, hh', _⟩ := popMax_some hp
  rw [hh', List.length_erase_of_mem hmem]
  have : 0 < h.length := List.length_pos_of_mem hmem
  omega

/-- One call of `next` is a block of rounds of `run`: `j` superseded entries, then the item. -/
theorem next_run (g : WGraph) (tag : Nat → Option Nat) :
    ∀ (k : Nat) (st : State), st.heap.length < k →
      (next g tag k st = none → ∀ F, run g tag F st = []) ∧
      (∀ e st', next g tag k st = some (e, st') →
        ∃ j, ∀ F, run g tag (F + j + 1) st = e :: run g tag F st') := by
  intro k
  induction k with
  | zero => intro st h; omega
  | succ k ih =>
    intro st hk
    cases hp : popMax st.heap with
    | none =>
      refine ⟨?_, ?_⟩
      · intro _ F
        cases F with
        | zero => rfl
        | succ F => simp [run, hp]
      · intro e st' h; simp [next, hp] at h
    | some p =>
      obtain ⟨e0, h'⟩ := p
      have hlen := popMax_len hp
      by_cases hf : dOf st.dist e0.v = some e0.d
      · refine ⟨?_, ?_⟩
        · intro h; simp [next, hp, hf] at h
        · intro e st' h
          simp only [next, hp, hf, if_true, Option.some.injEq, Prod.mk.injEq] at h
          obtain ⟨rfl, rfl⟩ := h
          exact ⟨0, fun F => by simp [run, hp, hf]⟩
      · obtain ⟨ih1, ih2⟩ := ih ⟨st.dist, h'⟩ (by simp only; omega)
        have hnext : next g tag (k+1) st = next g tag k ⟨st.dist, h'⟩ := by simp [next, hp, hf]
        have hrun : ∀ F, run g tag (F+1) st = run g tag F ⟨st.dist, h'⟩ := by
          intro F; simp [run, hp, hf]
        refine ⟨?_, ?_⟩
        · intro h F
          cases F with
          | zero => rfl
          | succ F => rw [hrun]; exact ih1 (hnext ▸ h) F
        · intro e st' h
          obtain ⟨j, hj⟩ := ih2 e st' (hnext ▸ h)
          refine ⟨j+1, fun F => ?_⟩
          have : F + (j + 1) + 1 = (F + j + 1) + 1 := by omega
          rw [this, hrun]; exact hj F

/-- `next` preserves the invariant and decreases the termination measure. -/
theorem next_inv (hwf : g.WF) (hnn : g.NonNeg) (htag : TagOK tag) :
    ∀ (k : Nat) (out : List Entry) (st : State), Inv g S tag out [] st → OutOK g S out →
      ∀ e st', next g tag k st = some (e, st') →
        Inv g S tag (out ++ [e]) [] st' ∧ OutOK g S (out ++ [e]) ∧
        st'.heap.length + pending g (out ++ [e]) < st.heap.length + pending g out := by
  intro k
  induction k with
  | zero => intro out st _ _ e st' h; simp [next] at h
  | succ k ih =>
    intro out st inv ok e st' h
    cases hp : popMax st.heap with
    | none => simp [next, hp] at h
    | some p =>
      obtain ⟨e0, h'⟩ := p
      have hlen := popMax_len hp
      by_cases hf : dOf st.dist e0.v = some e0.d
      · simp only [next, hp, hf, if_true, Option.some.injEq, Prod.mk.injEq] at h
        obtain ⟨rfl, rfl⟩ := h
        obtain ⟨inv1, ok1, hmax, hnot, hvn⟩ := emit_inv hnn inv ok hp hf
        have inv2 := foldl_relax_inv hwf hnn htag ok1 (List.mem_append_right _ (List.mem_singleton.mpr rfl))
          hmax (g.out e0.v) (fun _ h => h) [] _ inv1
        have hl := foldl_relax_heap_len tag e0.v e0.d (g.out e0.v) ⟨st.dist, h'⟩
        have hpe := pending_emit g out e0 hvn hnot
        refine ⟨inv2, ok1, ?_⟩
        simp only at hl; omega
      · have hnext : next g tag (k+1) st = next g tag k ⟨st.dist, h'⟩ := by simp [next, hp, hf]
        rw [hnext] at h
        obtain ⟨a, b, c⟩ := ih out ⟨st.dist, h'⟩ (stale_inv inv hp hf) ok e st' h
        refine ⟨a, b, ?_⟩
        simp only at c; omega

theorem collect_eq_run (hwf : g.WF) (hnn : g.NonNeg) (htag : TagOK tag) :
    ∀ (C : Nat) (out : List Entry) (st : State), Inv g S tag out [] st → OutOK g S out →
      st.heap.length + pending g out < C → collect g tag C st = run g tag C st := by
  intro C
  induction C with
  | zero => intro out st _ _ h; omega
  | succ C ih =>
    intro out st inv ok hm
    obtain ⟨_, _, hfu⟩ := run_inv hwf hnn htag (C+1) out st inv ok hm
    obtain ⟨hn1, hn2⟩ := next_run g tag (st.heap.length + 1) st (by omega)
    cases hn : next g tag (st.heap.length + 1) st with
    | none => simp only [collect, hn]; exact (hn1 hn (C+1)).symm
    | some p =>
      obtain ⟨e, st'⟩ := p
      obtain ⟨j, hj⟩ := hn2 e st' hn
      obtain ⟨inv', ok', hmeas⟩ := next_inv hwf hnn htag _ out st inv ok e st' hn
      simp only [collect, hn]
      rw [ih (out ++ [e]) st' inv' ok' (by omega), ← hfu (C + j + 1) (by omega), hj C]

/-- The literal iterator yields exactly the entry sequence the theorems speak about. -/
theorem collect_eq_entries (h : Hyp g S) (htag : TagOK tag) :
    collect g tag (fuel g S) (init g.n S) = entries g tag S := by
  obtain ⟨inv0, ok0⟩ := init_inv (g := g) (S := S) (tag := tag) h.srcRange h.srcNodup
  exact collect_eq_run h.wf h.nonneg htag (fuel g S) [] (init g.n S) inv0 ok0 (init_measure h.srcRange)

end GraafVerif.Dijkstra
