import GraafVerif.Model.AlgoGen
import GraafVerif.Proof.AlgoGenRt
import GraafVerif.Proof.AlgoGenPredTree
import GraafVerif.Model.Bfs
/-!
# Generated `Bfs`, `BfsDist`, `BfsPred` (`Model/AlgoGen.lean`) = hand-written `Model/Bfs.lean`

The hand-written model is one definition over a labelling `Lab L` with queue items
`(vertex, label)`; the generated structures carry the Rust queue items (`usize`, `(usize, usize)`,
`(Option<usize>, usize)`).  `toH`/`ofH` are the (proved mutually inverse) conversions.  All
equalities hold for EVERY state and argument: the `assert!(v < order)` in front of each
`*visited_ptr.add(v)` makes the `ub` outcome unreachable, so the generated function is the lifted
hand-written one.  Only `distances` / `predecessors` (which write through a pointer into a vector
of length `digraph.order()`) need the hypothesis that ties `visited.len()` to the order
(`Inv`), established by `new`.
-/
namespace GraafVerif.AlgoGenThm
open GraafVerif GraafVerif.AlgoGen

/-- Lift an outcome of the hand-written BFS model. -/
def liftB {α β ρ σ : Type} (f : α → σ) : Bfs.Res α → Blk β ρ σ
  | .panic => .error (.err (.fault .panic))
  | .ok a => .ok (f a)

/-- The same for a whole call. -/
def liftBR {α σ : Type} (f : α → σ) : Bfs.Res α → Res σ
  | .panic => .error (.fault .panic)
  | .ok a => .ok (f a)

/-- `Iterator::next` of the hand-written model as a call result (`self0`: the state before). -/
def liftStep {L ι S : Type} (item : Nat × L → ι) (ofH : Bfs.St L → S) (self0 : S) : Bfs.Step L → Res (Option ι × S)
  | .done => .ok (none, self0)
  | .panic => .error (.fault .panic)
  | .yield x st => .ok (some (item x), ofH st)

section generic
variable {L S ρ : Type} (toH : S → Bfs.St L) (ofH : Bfs.St L → S)

/-- The neighbour loop of `next`, for any structure isomorphic to the hand-written state whose loop
body is `discover` behind the `assert!`. -/
theorem scan_generic (h1 : ∀ s, ofH (toH s) = s) (h2 : ∀ st, toH (ofH st) = st)
    (body : S → Nat → Blk S ρ S) (lab : L) (order : Nat)
    (hbody : ∀ s v, (toH s).visited.length = order →
      body s v = if v < order then .ok (ofH (Bfs.discover lab (toH s) v)) else .error (.err (.fault .panic))) :
    ∀ (vs : List Nat) (s : S), (toH s).visited.length = order →
      (forLoop body vs s : Blk Empty ρ S) = liftB ofH (Bfs.scan lab vs (toH s)) := by
  intro vs
  induction vs with
  | nil => intro s _; simp [Bfs.scan, liftB, h1]
  | cons v vs ih =>
    intro s hlen
    unfold Bfs.scan
    by_cases hv : v < order
    · rw [if_pos (by omega)]
      rw [forLoop_cons_ok (s' := ofH (Bfs.discover lab (toH s) v)) (h := by rw [hbody s v hlen, if_pos hv])]
      have hlen' : (toH (ofH (Bfs.discover lab (toH s) v))).visited.length = order := by
        rw [h2]; unfold Bfs.discover; split
        · exact hlen
        · simp [hlen]
      rw [ih _ hlen', h2]
    · rw [if_neg (by omega)]
      rw [forLoop_cons_err (e := .fault .panic) (h := by rw [hbody s v hlen, if_neg hv])]
      rfl

end generic

/-- The source loop of `new` on the pair `(queue, visited)`. -/
theorem newFrom_generic {L ι ρ : Type} (enc : Nat × L → ι) (lab0 : L) (order : Nat)
    (body : List ι × List Bool → Nat → Blk (List ι × List Bool) ρ (List ι × List Bool))
    (hbody : ∀ q vis u, vis.length = order →
      body (q, vis) u = if u < order then .ok (q ++ [enc (u, lab0)], vis.set u true) else .error (.err (.fault .panic))) :
    ∀ (us : List Nat) (q : List (Nat × L)) (vis : List Bool), vis.length = order →
      (forLoop body us (q.map enc, vis) : Blk Empty ρ (List ι × List Bool)) =
        liftB (fun st => (st.queue.map enc, st.visited)) (Bfs.newFrom lab0 us ⟨q, vis⟩) := by
  intro us
  induction us with
  | nil => intro q vis _; simp [Bfs.newFrom, liftB]
  | cons u us ih =>
    intro q vis hlen
    unfold Bfs.newFrom
    by_cases hu : u < order
    · rw [if_pos (by simpa [hlen] using hu)]
      rw [forLoop_cons_ok (s' := ((q ++ [(u, lab0)]).map enc, vis.set u true))
        (h := by rw [hbody _ _ u hlen, if_pos hu]; simp)]
      exact ih _ _ (by simp [hlen])
    · rw [if_neg (by simpa [hlen] using hu)]
      rw [forLoop_cons_err (e := .fault .panic) (h := by rw [hbody _ _ u hlen, if_neg hu])]
      rfl


/-! ### The invariant that ties `visited.len()` to the order and bounds the queued vertices
(what `new` establishes; under it the pointer writes of `distances` / `predecessors` are in range) -/

def QInv {L : Type} (n : Nat) (st : GraafVerif.Bfs.St L) : Prop :=
  st.visited.length = n ∧ ∀ x ∈ st.queue, x.1 < n

theorem discover_qinv {L : Type} (lab : L) (n v : Nat) (st : GraafVerif.Bfs.St L) (hv : v < n) (h : QInv n st) :
    QInv n (GraafVerif.Bfs.discover lab st v) := by
  unfold GraafVerif.Bfs.discover
  split
  · exact h
  · refine ⟨by simp [h.1], ?_⟩
    intro x hx
    simp only [List.mem_append, List.mem_singleton] at hx
    rcases hx with hx | hx
    · exact h.2 x hx
    · subst hx; exact hv

theorem scan_qinv {L : Type} (lab : L) (n : Nat) (vs : List Nat) :
    ∀ (st st' : GraafVerif.Bfs.St L), QInv n st → GraafVerif.Bfs.scan lab vs st = .ok st' → QInv n st' := by
  induction vs with
  | nil => intro st st' h e; simp only [GraafVerif.Bfs.scan] at e; cases e; exact h
  | cons v vs ih =>
    intro st st' h e
    unfold GraafVerif.Bfs.scan at e
    split at e
    · rename_i hv
      exact ih _ _ (discover_qinv lab n v st (by rw [← h.1]; exact hv) h) e
    · cases e

theorem next_qinv {L : Type} (g : Graph) (lab : GraafVerif.Bfs.Lab L) (n : Nat) (st st' : GraafVerif.Bfs.St L)
    (x : Nat × L) (h : QInv n st) (e : GraafVerif.Bfs.next g lab st = .yield x st') : QInv n st' ∧ x.1 < n := by
  obtain ⟨q, vis⟩ := st
  unfold GraafVerif.Bfs.next at e
  cases q with
  | nil => cases e
  | cons it q =>
    obtain ⟨u, l⟩ := it
    simp only at e
    have h0 : QInv n (⟨q, vis⟩ : GraafVerif.Bfs.St L) :=
      ⟨h.1, fun y hy => h.2 y (List.mem_cons_of_mem _ hy)⟩
    cases hs : GraafVerif.Bfs.scan (lab.child u l) (g.out u) ⟨q, vis⟩ with
    | panic => rw [hs] at e; cases e
    | ok st1 =>
      rw [hs] at e
      cases e
      exact ⟨scan_qinv _ n _ _ _ h0 hs, h.2 (u, l) List.mem_cons_self⟩

theorem newFrom_qinv {L : Type} (lab0 : L) (n : Nat) (us : List Nat) :
    ∀ (st st' : GraafVerif.Bfs.St L), QInv n st → GraafVerif.Bfs.newFrom lab0 us st = .ok st' → QInv n st' := by
  induction us with
  | nil => intro st st' h e; simp only [GraafVerif.Bfs.newFrom] at e; cases e; exact h
  | cons u us ih =>
    intro st st' h e
    unfold GraafVerif.Bfs.newFrom at e
    split at e
    · rename_i hu
      refine ih _ _ ⟨by simp [h.1], ?_⟩ e
      intro x hx
      simp only [List.mem_append, List.mem_singleton] at hx
      rcases hx with hx | hx
      · exact h.2 x hx
      · subst hx; rw [← h.1]; exact hu
    · cases e

theorem new_qinv {L : Type} (g : Graph) (lab : GraafVerif.Bfs.Lab L) (S : List Nat) (st : GraafVerif.Bfs.St L)
    (e : GraafVerif.Bfs.new g lab S = .ok st) : QInv g.n st :=
  newFrom_qinv lab.init g.n S _ _ ⟨by simp, fun x hx => by cases hx⟩ e

/-- The items of the generated iterator are the items of the hand-written `run`. -/
theorem collect_generic {L ι S : Type} (item : Nat × L → ι) (toH : S → GraafVerif.Bfs.St L) (ofH : GraafVerif.Bfs.St L → S)
    (h2 : ∀ st, toH (ofH st) = st) (next : S → Res (Option ι × S)) (g : Graph) (lab : GraafVerif.Bfs.Lab L)
    (hnext : ∀ s, next s = liftStep item ofH s (GraafVerif.Bfs.next g lab (toH s))) :
    ∀ (fuel : Nat) (s : S), Except.map Prod.fst (collect next fuel s) =
      liftBR (List.map item) (GraafVerif.Bfs.run g lab fuel (toH s)) := by
  intro fuel
  induction fuel with
  | zero => intro s; rfl
  | succ fuel ih =>
    intro s
    unfold collect GraafVerif.Bfs.run
    rw [hnext s]
    cases GraafVerif.Bfs.next g lab (toH s) with
    | done => rfl
    | panic => rfl
    | yield x st =>
      simp only [liftStep]
      have := ih (ofH st)
      rw [h2] at this
      cases hc : collect next fuel (ofH st) with
      | error e =>
        rw [hc] at this
        cases hr : GraafVerif.Bfs.run g lab fuel st with
        | panic => rw [hr] at this; simp only [Except.map, liftBR] at this ⊢; cases this; rfl
        | ok xs => rw [hr] at this; cases this
      | ok r =>
        rw [hc] at this
        cases hr : GraafVerif.Bfs.run g lab fuel st with
        | panic => rw [hr] at this; cases this
        | ok xs =>
          rw [hr] at this
          obtain ⟨r1, r2⟩ := r
          simp only [Except.map, liftBR, Except.ok.injEq] at this ⊢
          rw [this]
          rfl

/-- The invariant along the generated iterator. -/
theorem next_inv_generic {L ι S : Type} (item : Nat × L → ι) (toH : S → GraafVerif.Bfs.St L) (ofH : GraafVerif.Bfs.St L → S)
    (h2 : ∀ st, toH (ofH st) = st) (next : S → Res (Option ι × S)) (g : Graph) (lab : GraafVerif.Bfs.Lab L)
    (hnext : ∀ s, next s = liftStep item ofH s (GraafVerif.Bfs.next g lab (toH s)))
    (n : Nat) (s s' : S) (y : ι) (h : QInv n (toH s)) (e : next s = .ok (some y, s')) :
    QInv n (toH s') ∧ ∃ x : Nat × L, y = item x ∧ x.1 < n := by
  rw [hnext s] at e
  cases hn : GraafVerif.Bfs.next g lab (toH s) with
  | done => rw [hn] at e; cases e
  | panic => rw [hn] at e; cases e
  | yield x st =>
    rw [hn] at e
    simp only [liftStep] at e
    cases e
    obtain ⟨h3, h4⟩ := next_qinv g lab n _ _ _ h hn
    rw [h2]
    exact ⟨h3, x, rfl, h4⟩

/-! ## `Bfs` -/
namespace Bfs

def toH (s : AlgoGen.Bfs) : GraafVerif.Bfs.St Unit := ⟨s.queue.map (fun u => (u, ())), s.visited⟩
def ofH (st : GraafVerif.Bfs.St Unit) : AlgoGen.Bfs := ⟨st.queue.map (·.1), st.visited⟩

theorem ofH_toH (s : AlgoGen.Bfs) : ofH (toH s) = s := by
  cases s; simp [ofH, toH, Function.comp_def]
theorem toH_ofH (st : GraafVerif.Bfs.St Unit) : toH (ofH st) = st := by
  cases st; simp [ofH, toH, Function.comp_def]

theorem new_for0_step (order : Nat) (q : List Nat) (vis : List Bool) (u : Nat) (hlen : vis.length = order) :
    (AlgoGen.Bfs.new_for0 order (q, vis) u : Blk _ AlgoGen.Bfs _) =
      if u < order then .ok (q ++ [u], vis.set u true) else .error (.err (.fault .panic)) := by
  unfold AlgoGen.Bfs.new_for0
  by_cases hu : u < order
  · simp [wr_lt _ _ _ _ (show u < vis.length by omega), hu]
  · simp [hu]

/-- `for u in sources { assert!(u < order); queue.push_back(u); visited[u] = true }` -/
theorem new_for0_eq (order : Nat) (us : List Nat) (q : List (Nat × Unit)) (vis : List Bool) (hlen : vis.length = order) :
    (forLoop (AlgoGen.Bfs.new_for0 order) us (q.map (·.1), vis) : Blk Empty AlgoGen.Bfs _) =
      liftB (fun st => (st.queue.map (·.1), st.visited)) (GraafVerif.Bfs.newFrom () us ⟨q, vis⟩) :=
  newFrom_generic (·.1) () order _ (fun q vis u h => new_for0_step order q vis u h) us q vis hlen

/-- `Bfs::new` = the hand-written `Bfs.new` (labelling `labUnit`), for all digraphs and source lists. -/
theorem new_eq (g : Graph) (S : List Nat) :
    AlgoGen.Bfs.new g S = liftBR ofH (GraafVerif.Bfs.new g GraafVerif.Bfs.labUnit S) := by
  unfold AlgoGen.Bfs.new GraafVerif.Bfs.new
  have h := new_for0_eq g.n S [] (List.replicate g.n false) (by simp)
  simp only [List.map_nil] at h
  simp only [h, GraafVerif.Bfs.labUnit]
  cases GraafVerif.Bfs.newFrom () S ⟨[], List.replicate g.n false⟩ with
  | panic => rfl
  | ok st => rfl

theorem next_for0_step (order : Nat) (s : AlgoGen.Bfs) (v : Nat) (hlen : (toH s).visited.length = order) :
    (AlgoGen.Bfs.next_for0 order s v : Blk _ (Option Nat × AlgoGen.Bfs) _) =
      if v < order then .ok (ofH (GraafVerif.Bfs.discover () (toH s) v)) else .error (.err (.fault .panic)) := by
  have hlen' : s.visited.length = order := hlen
  unfold AlgoGen.Bfs.next_for0
  by_cases hv : v < order
  · have hv' : v < s.visited.length := by omega
    obtain ⟨b, hb⟩ : ∃ b, s.visited[v]? = some b := ⟨_, List.getElem?_eq_getElem hv'⟩
    cases b <;>
      simp [rd_some _ _ _ _ hb, wr_lt _ _ _ _ hv', hv,
        GraafVerif.Bfs.discover, GraafVerif.Bfs.isVis, toH, ofH, hb, Function.comp_def]
  · simp [hv]

/-- `for v in out_neighbors(u) { assert!(v < order); if !visited[v] { visited[v] = true; queue.push_back(v) } }` -/
theorem next_for0_eq (order : Nat) (vs : List Nat) (s : AlgoGen.Bfs) (hlen : s.visited.length = order) :
    (forLoop (AlgoGen.Bfs.next_for0 order) vs s : Blk Empty (Option Nat × AlgoGen.Bfs) _) =
      liftB ofH (GraafVerif.Bfs.scan () vs (toH s)) :=
  scan_generic toH ofH ofH_toH toH_ofH _ () order (next_for0_step order) vs s hlen

/-- `Iterator::next` of `Bfs` = the hand-written `Bfs.next`, for all states. -/
theorem next_eq (g : Graph) (s : AlgoGen.Bfs) :
    AlgoGen.Bfs.next g s = liftStep (·.1) ofH s (GraafVerif.Bfs.next g GraafVerif.Bfs.labUnit (toH s)) := by
  obtain ⟨q, vis⟩ := s
  unfold AlgoGen.Bfs.next GraafVerif.Bfs.next
  cases q with
  | nil => rfl
  | cons u q =>
    have h := next_for0_eq vis.length (g.out u) ⟨q, vis⟩ rfl
    simp only [toH, List.map_cons, popFront_cons, h, GraafVerif.Bfs.labUnit]
    cases GraafVerif.Bfs.scan () (g.out u) ⟨q.map (fun u => (u, ())), vis⟩ with
    | panic => rfl
    | ok st => rfl

end Bfs

/-! ## `BfsDist` -/
namespace BfsDist

def toH (s : AlgoGen.BfsDist) : GraafVerif.Bfs.St Nat := ⟨s.queue, s.visited⟩
def ofH (st : GraafVerif.Bfs.St Nat) : AlgoGen.BfsDist := ⟨st.queue, st.visited⟩

theorem ofH_toH (s : AlgoGen.BfsDist) : ofH (toH s) = s := rfl
theorem toH_ofH (st : GraafVerif.Bfs.St Nat) : toH (ofH st) = st := rfl

theorem new_for0_step (order : Nat) (q : List (Nat × Nat)) (vis : List Bool) (u : Nat) (hlen : vis.length = order) :
    (AlgoGen.BfsDist.new_for0 order (q, vis) u : Blk _ AlgoGen.BfsDist _) =
      if u < order then .ok (q ++ [(u, 0)], vis.set u true) else .error (.err (.fault .panic)) := by
  unfold AlgoGen.BfsDist.new_for0
  by_cases hu : u < order
  · simp [wr_lt _ _ _ _ (show u < vis.length by omega), hu]
  · simp [hu]

/-- `for u in sources { assert!(u < order); queue.push_back((u, 0)); visited[u] = true }` -/
theorem new_for0_eq (order : Nat) (us : List Nat) (q : List (Nat × Nat)) (vis : List Bool) (hlen : vis.length = order) :
    (forLoop (AlgoGen.BfsDist.new_for0 order) us (q, vis) : Blk Empty AlgoGen.BfsDist _) =
      liftB (fun st => (st.queue, st.visited)) (GraafVerif.Bfs.newFrom 0 us ⟨q, vis⟩) := by
  have h := newFrom_generic (ι := Nat × Nat) id 0 order _ (fun q vis u h => new_for0_step order q vis u h) us q vis hlen
  simpa using h

/-- `BfsDist::new` = the hand-written `Bfs.new` (labelling `labDist`). -/
theorem new_eq (g : Graph) (S : List Nat) :
    AlgoGen.BfsDist.new g S = liftBR ofH (GraafVerif.Bfs.new g GraafVerif.Bfs.labDist S) := by
  unfold AlgoGen.BfsDist.new GraafVerif.Bfs.new
  have h := new_for0_eq g.n S [] (List.replicate g.n false) (by simp)
  simp only [h, GraafVerif.Bfs.labDist]
  cases GraafVerif.Bfs.newFrom 0 S ⟨[], List.replicate g.n false⟩ with
  | panic => rfl
  | ok st => rfl

theorem next_for0_step (w_next order : Nat) (s : AlgoGen.BfsDist) (v : Nat) (hlen : (toH s).visited.length = order) :
    (AlgoGen.BfsDist.next_for0 w_next order s v : Blk _ (Option (Nat × Nat) × AlgoGen.BfsDist) _) =
      if v < order then .ok (ofH (GraafVerif.Bfs.discover w_next (toH s) v)) else .error (.err (.fault .panic)) := by
  have hlen' : s.visited.length = order := hlen
  unfold AlgoGen.BfsDist.next_for0
  by_cases hv : v < order
  · have hv' : v < s.visited.length := by omega
    obtain ⟨b, hb⟩ : ∃ b, s.visited[v]? = some b := ⟨_, List.getElem?_eq_getElem hv'⟩
    cases b <;>
      simp [rd_some _ _ _ _ hb, wr_lt _ _ _ _ hv', hv,
        GraafVerif.Bfs.discover, GraafVerif.Bfs.isVis, toH, ofH, hb]
  · simp [hv]

/-- the neighbour loop of `BfsDist::next` -/
theorem next_for0_eq (w_next order : Nat) (vs : List Nat) (s : AlgoGen.BfsDist) (hlen : s.visited.length = order) :
    (forLoop (AlgoGen.BfsDist.next_for0 w_next order) vs s : Blk Empty (Option (Nat × Nat) × AlgoGen.BfsDist) _) =
      liftB ofH (GraafVerif.Bfs.scan w_next vs (toH s)) :=
  scan_generic toH ofH ofH_toH toH_ofH _ w_next order (next_for0_step w_next order) vs s hlen

/-- `Iterator::next` of `BfsDist` = the hand-written `Bfs.next` (labelling `labDist`), for all states. -/
theorem next_eq (g : Graph) (s : AlgoGen.BfsDist) :
    AlgoGen.BfsDist.next g s = liftStep id ofH s (GraafVerif.Bfs.next g GraafVerif.Bfs.labDist (toH s)) := by
  obtain ⟨q, vis⟩ := s
  unfold AlgoGen.BfsDist.next GraafVerif.Bfs.next
  cases q with
  | nil => rfl
  | cons it q =>
    obtain ⟨u, w⟩ := it
    have h := next_for0_eq (w + 1) vis.length (g.out u) ⟨q, vis⟩ rfl
    simp only [toH, popFront_cons, h, GraafVerif.Bfs.labDist]
    cases GraafVerif.Bfs.scan (w + 1) (g.out u) ⟨q, vis⟩ with
    | panic => rfl
    | ok st => rfl

/-- `unsafe { *ptr.add(u) = w }` in `distances` -/
theorem distances_for0_eq (d : List Nat) (x : Nat × Nat) (h : x.1 < d.length) :
    (AlgoGen.BfsDist.distances_for0 d x : Blk _ (List Nat × AlgoGen.BfsDist) _) = .ok (d.set x.1 x.2) := by
  unfold AlgoGen.BfsDist.distances_for0
  simp [wr_lt _ _ _ _ h]

/-- `BfsDist::distances` on a state whose `visited` has length `order` and whose queued vertices
are in range: the fold of `distances[u] = w` over the items of the hand-written `run`. -/
theorem distances_eq (g : Graph) (inf fuel : Nat) (s : AlgoGen.BfsDist) (h : QInv g.n (toH s)) :
    Except.map Prod.fst (AlgoGen.BfsDist.distances g inf fuel s) =
      liftBR (fun xs => xs.foldl (fun d (p : Nat × Nat) => d.set p.1 p.2) (List.replicate g.n inf))
        (GraafVerif.Bfs.run g GraafVerif.Bfs.labDist fuel (toH s)) := by
  unfold AlgoGen.BfsDist.distances
  have hc := collect_generic id toH ofH toH_ofH (AlgoGen.BfsDist.next g) g GraafVerif.Bfs.labDist (next_eq g) fuel s
  have hi := iterLoop_eq_collect (β := Empty) (ρ := List Nat × AlgoGen.BfsDist) (AlgoGen.BfsDist.next g)
    AlgoGen.BfsDist.distances_for0 (fun d (p : Nat × Nat) => d.set p.1 p.2)
    (fun s => QInv g.n (toH s)) (fun d => d.length = g.n)
    (by
      intro s y s' hP e
      obtain ⟨h1, x, hx, hlt⟩ := next_inv_generic id toH ofH toH_ofH _ g _ (next_eq g) g.n s s' y hP e
      refine ⟨h1, ?_⟩
      intro acc hacc
      rw [hx]
      exact ⟨distances_for0_eq acc x (by simpa [hacc] using hlt), by simp [hacc]⟩)
    fuel s (List.replicate g.n inf) h (by simp)
  simp only [hi]
  cases hcol : collect (AlgoGen.BfsDist.next g) fuel s with
  | error e =>
    rw [hcol] at hc
    cases hr : GraafVerif.Bfs.run g GraafVerif.Bfs.labDist fuel (toH s) with
    | panic => rw [hr] at hc; simp only [Except.map, liftBR] at hc ⊢; cases hc; rfl
    | ok xs => rw [hr] at hc; cases hc
  | ok r =>
    obtain ⟨xs, s'⟩ := r
    rw [hcol] at hc
    cases hr : GraafVerif.Bfs.run g GraafVerif.Bfs.labDist fuel (toH s) with
    | panic => rw [hr] at hc; cases hc
    | ok ys =>
      rw [hr] at hc
      simp only [Except.map, liftBR, Except.ok.injEq, List.map_id_fun, id_eq] at hc
      subst hc
      rfl

/-- `BfsDist::new(&digraph, sources).distances()` = the hand-written `Bfs.distances`, for all
digraphs, source lists and sentinels. -/
theorem new_distances_eq (g : Graph) (S : List Nat) (inf : Nat) :
    (AlgoGen.BfsDist.new g S >>= fun s =>
        Except.map Prod.fst (AlgoGen.BfsDist.distances g inf (GraafVerif.Bfs.fuelFor g S) s)) =
      liftBR id (GraafVerif.Bfs.distances g S inf) := by
  rw [new_eq]
  unfold GraafVerif.Bfs.distances GraafVerif.Bfs.bfsDist GraafVerif.Bfs.iter
  cases hn : GraafVerif.Bfs.new g GraafVerif.Bfs.labDist S with
  | panic => rfl
  | ok st =>
    have hq : QInv g.n (toH (ofH st)) := new_qinv g _ S st hn
    show Except.map Prod.fst (AlgoGen.BfsDist.distances g inf (GraafVerif.Bfs.fuelFor g S) (ofH st)) = _
    rw [distances_eq g inf _ _ hq]
    show liftBR _ (GraafVerif.Bfs.run g GraafVerif.Bfs.labDist (GraafVerif.Bfs.fuelFor g S) st) = _
    dsimp only
    cases GraafVerif.Bfs.run g GraafVerif.Bfs.labDist (GraafVerif.Bfs.fuelFor g S) st with
    | panic => rfl
    | ok xs => rfl

end BfsDist

/-! ## `BfsPred` -/
namespace BfsPred

/-- Rust item `(pred, v)` ↔ hand-written item `(v, pred)`. -/
def sw (x : Nat × Option Nat) : Option Nat × Nat := (x.2, x.1)
def ws (y : Option Nat × Nat) : Nat × Option Nat := (y.2, y.1)

def toH (s : AlgoGen.BfsPred) : GraafVerif.Bfs.St (Option Nat) := ⟨s.queue.map ws, s.visited⟩
def ofH (st : GraafVerif.Bfs.St (Option Nat)) : AlgoGen.BfsPred := ⟨st.queue.map sw, st.visited⟩

theorem ofH_toH (s : AlgoGen.BfsPred) : ofH (toH s) = s := by
  cases s; simp [ofH, toH, Function.comp_def, sw, ws]
theorem toH_ofH (st : GraafVerif.Bfs.St (Option Nat)) : toH (ofH st) = st := by
  cases st; simp [ofH, toH, Function.comp_def, sw, ws]

theorem new_for0_step (order : Nat) (q : List (Option Nat × Nat)) (vis : List Bool) (u : Nat) (hlen : vis.length = order) :
    (AlgoGen.BfsPred.new_for0 order (q, vis) u : Blk _ AlgoGen.BfsPred _) =
      if u < order then .ok (q ++ [(none, u)], vis.set u true) else .error (.err (.fault .panic)) := by
  unfold AlgoGen.BfsPred.new_for0
  by_cases hu : u < order
  · simp [wr_lt _ _ _ _ (show u < vis.length by omega), hu]
  · simp [hu]

/-- `for u in sources { assert!(u < order); queue.push_back((None, u)); visited[u] = true }` -/
theorem new_for0_eq (order : Nat) (us : List Nat) (q : List (Nat × Option Nat)) (vis : List Bool) (hlen : vis.length = order) :
    (forLoop (AlgoGen.BfsPred.new_for0 order) us (q.map sw, vis) : Blk Empty AlgoGen.BfsPred _) =
      liftB (fun st => (st.queue.map sw, st.visited)) (GraafVerif.Bfs.newFrom none us ⟨q, vis⟩) :=
  newFrom_generic sw none order _ (fun q vis u h => new_for0_step order q vis u h) us q vis hlen

/-- `BfsPred::new` = the hand-written `Bfs.new` (labelling `labPred`). -/
theorem new_eq (g : Graph) (S : List Nat) :
    AlgoGen.BfsPred.new g S = liftBR ofH (GraafVerif.Bfs.new g GraafVerif.Bfs.labPred S) := by
  unfold AlgoGen.BfsPred.new GraafVerif.Bfs.new
  have h := new_for0_eq g.n S [] (List.replicate g.n false) (by simp)
  simp only [List.map_nil] at h
  simp only [h, GraafVerif.Bfs.labPred]
  cases GraafVerif.Bfs.newFrom none S ⟨[], List.replicate g.n false⟩ with
  | panic => rfl
  | ok st => rfl

theorem next_for0_step (v order : Nat) (s : AlgoGen.BfsPred) (u : Nat) (hlen : (toH s).visited.length = order) :
    (AlgoGen.BfsPred.next_for0 v order s u : Blk _ (Option (Option Nat × Nat) × AlgoGen.BfsPred) _) =
      if u < order then .ok (ofH (GraafVerif.Bfs.discover (some v) (toH s) u)) else .error (.err (.fault .panic)) := by
  have hlen' : s.visited.length = order := hlen
  unfold AlgoGen.BfsPred.next_for0
  by_cases hu : u < order
  · have hu' : u < s.visited.length := by omega
    obtain ⟨b, hb⟩ : ∃ b, s.visited[u]? = some b := ⟨_, List.getElem?_eq_getElem hu'⟩
    cases b <;>
      simp [rd_some _ _ _ _ hb, wr_lt _ _ _ _ hu', hu,
        GraafVerif.Bfs.discover, GraafVerif.Bfs.isVis, toH, ofH, hb, Function.comp_def, sw, ws]
  · simp [hu]

/-- the neighbour loop of `BfsPred::next` -/
theorem next_for0_eq (v order : Nat) (us : List Nat) (s : AlgoGen.BfsPred) (hlen : s.visited.length = order) :
    (forLoop (AlgoGen.BfsPred.next_for0 v order) us s : Blk Empty (Option (Option Nat × Nat) × AlgoGen.BfsPred) _) =
      liftB ofH (GraafVerif.Bfs.scan (some v) us (toH s)) :=
  scan_generic toH ofH ofH_toH toH_ofH _ (some v) order (next_for0_step v order) us s hlen

/-- `Iterator::next` of `BfsPred` = the hand-written `Bfs.next` (labelling `labPred`), for all states. -/
theorem next_eq (g : Graph) (s : AlgoGen.BfsPred) :
    AlgoGen.BfsPred.next g s = liftStep sw ofH s (GraafVerif.Bfs.next g GraafVerif.Bfs.labPred (toH s)) := by
  obtain ⟨q, vis⟩ := s
  unfold AlgoGen.BfsPred.next GraafVerif.Bfs.next
  cases q with
  | nil => rfl
  | cons it q =>
    obtain ⟨p, v⟩ := it
    have h := next_for0_eq v vis.length (g.out v) ⟨q, vis⟩ rfl
    simp only [toH, List.map_cons, ws, popFront_cons, h, GraafVerif.Bfs.labPred]
    cases GraafVerif.Bfs.scan (some v) (g.out v) ⟨q.map ws, vis⟩ with
    | panic => rfl
    | ok st => rfl

/-- `unsafe { *pred_ptr.add(v) = u }` in `predecessors` -/
theorem predecessors_for0_eq (t : AlgoGen.PredecessorTree) (y : Option Nat × Nat) (h : y.2 < t.pred.length) :
    (AlgoGen.BfsPred.predecessors_for0 t y : Blk _ (AlgoGen.PredecessorTree × AlgoGen.BfsPred) _) =
      .ok ⟨t.pred.set y.2 y.1⟩ := by
  unfold AlgoGen.BfsPred.predecessors_for0
  simp [wr_lt _ _ _ _ h]

theorem foldl_pred (xs : List (Nat × Option Nat)) : ∀ (t : AlgoGen.PredecessorTree),
    ((xs.map sw).foldl (fun (t : AlgoGen.PredecessorTree) (y : Option Nat × Nat) => (⟨t.pred.set y.2 y.1⟩ : AlgoGen.PredecessorTree)) t).pred =
      xs.foldl (fun pr (p : Nat × Option Nat) => pr.set p.1 p.2) t.pred := by
  induction xs with
  | nil => intro t; rfl
  | cons x xs ih => intro t; simp only [List.map_cons, List.foldl_cons]; rw [ih]; rfl

/-- `BfsPred::predecessors` on a state satisfying the invariant of `new`: `PredecessorTree::new`
panics for order 0, otherwise the tree is the fold of `pred[v] = u` over the items of `run`. -/
theorem predecessors_eq (g : Graph) (fuel : Nat) (s : AlgoGen.BfsPred) (h : QInv g.n (toH s)) :
    Except.map (fun r => r.1.pred) (AlgoGen.BfsPred.predecessors g fuel s) =
      if g.n = 0 then .error (.fault .panic)
      else liftBR (GraafVerif.Bfs.predOf g.n) (GraafVerif.Bfs.run g GraafVerif.Bfs.labPred fuel (toH s)) := by
  unfold AlgoGen.BfsPred.predecessors
  simp only [PredecessorTree.new_eq]
  by_cases hn : g.n = 0
  · simp [hn, Except.map]
  · rw [if_pos (by omega), if_neg hn]
    have hc := collect_generic sw toH ofH toH_ofH (AlgoGen.BfsPred.next g) g GraafVerif.Bfs.labPred (next_eq g) fuel s
    have hi := iterLoop_eq_collect (β := Empty) (ρ := AlgoGen.PredecessorTree × AlgoGen.BfsPred) (AlgoGen.BfsPred.next g)
      AlgoGen.BfsPred.predecessors_for0 (fun t (y : Option Nat × Nat) => (⟨t.pred.set y.2 y.1⟩ : AlgoGen.PredecessorTree))
      (fun s => QInv g.n (toH s)) (fun t => t.pred.length = g.n)
      (by
        intro s y s' hP e
        obtain ⟨h1, x, hx, hlt⟩ := next_inv_generic sw toH ofH toH_ofH _ g _ (next_eq g) g.n s s' y hP e
        refine ⟨h1, ?_⟩
        intro acc hacc
        rw [hx]
        exact ⟨predecessors_for0_eq acc (sw x) (by simpa [hacc, sw] using hlt), by simp [hacc]⟩)
      fuel s ⟨List.replicate g.n none⟩ h (by simp)
    simp only [call_ok, ok_bind, hi]
    cases hcol : collect (AlgoGen.BfsPred.next g) fuel s with
    | error e =>
      rw [hcol] at hc
      cases hr : GraafVerif.Bfs.run g GraafVerif.Bfs.labPred fuel (toH s) with
      | panic => rw [hr] at hc; simp only [Except.map, liftBR] at hc ⊢; cases hc; rfl
      | ok xs => rw [hr] at hc; cases hc
    | ok r =>
      obtain ⟨xs, s'⟩ := r
      rw [hcol] at hc
      cases hr : GraafVerif.Bfs.run g GraafVerif.Bfs.labPred fuel (toH s) with
      | panic => rw [hr] at hc; cases hc
      | ok ys =>
        rw [hr] at hc
        simp only [Except.map, liftBR, Except.ok.injEq] at hc
        subst hc
        simp only [ok_bind, pure_eq_ok, fnBody_ok, Except.map, liftBR, GraafVerif.Bfs.predOf, Except.ok.injEq]
        exact foldl_pred ys _

/-- `BfsPred::new(&digraph, sources).predecessors()` = the hand-written `Bfs.predecessors`. -/
theorem new_predecessors_eq (g : Graph) (S : List Nat) :
    (AlgoGen.BfsPred.new g S >>= fun s =>
        Except.map (fun r => r.1.pred) (AlgoGen.BfsPred.predecessors g (GraafVerif.Bfs.fuelFor g S) s)) =
      liftBR id (GraafVerif.Bfs.predecessors g S) := by
  rw [new_eq]
  unfold GraafVerif.Bfs.predecessors
  cases hn : GraafVerif.Bfs.new g GraafVerif.Bfs.labPred S with
  | panic => rfl
  | ok st =>
    have hq : QInv g.n (toH (ofH st)) := by rw [toH_ofH]; exact new_qinv g _ S st hn
    show Except.map _ (AlgoGen.BfsPred.predecessors g (GraafVerif.Bfs.fuelFor g S) (ofH st)) = _
    rw [predecessors_eq g _ _ hq, toH_ofH]
    dsimp only
    by_cases h0 : g.n = 0
    · rw [if_pos h0, if_pos h0]; rfl
    · rw [if_neg h0, if_neg h0]
      cases GraafVerif.Bfs.run g GraafVerif.Bfs.labPred (GraafVerif.Bfs.fuelFor g S) st with
      | panic => rfl
      | ok xs => rfl

end BfsPred

end GraafVerif.AlgoGenThm
