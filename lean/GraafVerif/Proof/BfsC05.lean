import GraafVerif.Proof.BfsTree
/-!
# Assembly of the C05 (BFS half) theorems

`predecessors_spec` (the tree), `shortestPath_spec` (None iff no reachable target, else a shortest
walk from a source to a nearest target), `cycles_spec` (every returned list is an elementary cycle).
The loops of `shortest_path` / `cycles` (written over `next` in the model) are first shown equal
to their list versions over the item list of the whole run (`spLoop_eq`, `cyLoop_eq`).
-/
namespace GraafVerif.Bfs
open GraafVerif GraafVerif.PredTree

/-! ### prefixes of a run -/

/-- What a prefix `P` of the full item list of a run inherits. -/
structure PrefOK (g : Graph) (S : List Nat) (P : List FItem) : Prop where
  nodup : (P.map (·.1)).Nodup
  lt : ∀ x ∈ P, x.1 < g.n ∧ x.2.1 < g.n
  tree : TreeList g S P

theorem FullSpec.pref {g : Graph} {S : List Nat} {P rest : List FItem} (h : FullSpec g S (P ++ rest)) :
    PrefOK g S P := by
  refine ⟨?_, fun x hx => h.lt x (by simp [hx]), h.tree.prefix⟩
  have := h.nodup
  rw [List.map_append] at this
  exact (List.nodup_append.mp this).1

theorem predOf_snoc (n : Nat) (xs : List (Nat × Option Nat)) (v : Nat) (u : Option Nat) :
    (predOf n xs).set v u = predOf n (xs ++ [(v, u)]) := by
  unfold predOf; simp [List.foldl_append]

/-- From an item of a prefix, `search_by(v, |_, b| b.is_none())` on the vector written by the
prefix returns the ancestor chain: duplicate-free, `level + 1` vertices, a reversed walk ending at
a source. -/
theorem anc_search {g : Graph} {S : List Nat} {P : List FItem} (hP : PrefOK g S P) (x : FItem) (hx : x ∈ P) :
    ∃ cs, searchBy (predOf g.n (P.map proj)) x.1 (fun _ b => b.isNone) = .ret (some cs) ∧
      cs.head? = some x.1 ∧ cs.length = x.2.1 + 1 ∧ cs.Nodup ∧ RevWalk g cs ∧
      (∀ z, cs.getLast? = some z → z ∈ S) := by
  obtain ⟨hlen, hpr, _⟩ := predOf_spec g.n P hP.nodup (fun y hy => (hP.lt y hy).1)
  obtain ⟨r, hsub, hc⟩ := anc_exists g S P hP.tree x.2.1 x hx rfl
  have hnd := AncChain.nodup hP.nodup hc hsub
  have htc := AncChain.tchain hpr hc hsub
  have hl := AncChain.length hc
  refine ⟨(x :: r).map (·.1), ?_, rfl, by simpa using hl, hnd, AncChain.revWalk hc, ?_⟩
  · rw [List.map_cons] at htc hnd ⊢
    refine searchBy_of_tchain _ _ x.1 _ htc hnd ?_
    have := (hP.lt x hx).2
    simp at hl ⊢
    omega
  · intro z hz
    exact (AncChain.last_none hpr hc hsub z hz).2

/-! ### predecessors() -/

structure PredSpec (g : Graph) (S : List Nat) (pred : Pred) : Prop where
  len : pred.length = g.n
  src : ∀ s ∈ S, pred[s]? = some none
  unreach : ∀ v, v < g.n → ¬ ReachFrom g S v → pred[v]? = some none
  tree : ∀ v, ReachFrom g S v → v ∉ S →
    ∃ u d, pred[v]? = some (some u) ∧ g.A u v ∧ IsHopDist g S u d ∧ IsHopDist g S v (d + 1)
  /-- following the predecessors from a reachable vertex reaches a source along a shortest path -/
  chain : ∀ v d, IsHopDist g S v d →
    ∃ cs, searchBy pred v (fun _ b => b.isNone) = .ret (some cs) ∧ cs.length = d + 1 ∧
      IsWalk g cs.reverse ∧ (∃ s ∈ S, cs.getLast? = some s) ∧ cs.head? = some v

theorem isHopDist_src {g : Graph} {S : List Nat} {s : Nat} (hs : s ∈ S) : IsHopDist g S s 0 :=
  ⟨⟨s, hs, ReachIn.zero s⟩, fun k hk => by omega⟩

theorem predecessors_spec (g : Graph) (hg : g.WF) (hn : 0 < g.n) (S : List Nat) (hS : ∀ s ∈ S, s < g.n)
    (hnd : S.Nodup) : ∃ pred, predecessors g S = .ok pred ∧ PredSpec g S pred := by
  obtain ⟨out, _, hsp, hproj⟩ := full_run g hg S hS hnd
  have hrun : predecessors g S = .ok (predOf g.n (out.map proj)) := by
    unfold predecessors
    rw [new_eq g labPred S hS]
    have : ¬ g.n = 0 := by omega
    simp only [this, if_false]
    rw [run_eq g hg labPred _ _ (newP_spec g labPred S hS).2.1, hproj]
    rfl
  have hP : PrefOK g S out := FullSpec.pref (rest := []) (by simpa using hsp)
  obtain ⟨hlen, hpr, hnone⟩ := predOf_spec g.n out hsp.nodup (fun y hy => (hsp.lt y hy).1)
  refine ⟨_, hrun, hlen, ?_, ?_, ?_, ?_⟩
  · intro s hs
    have hmem := (hsp.mem_iff s).mpr ⟨s, hs, Reach.refl s⟩
    obtain ⟨x, hx, rfl⟩ := List.mem_map.mp hmem
    rw [hpr x hx]
    rcases hsp.tree.mem x hx with h | ⟨y, _, _, _, hl⟩
    · rw [h.1]
    · have := isHopDist_unique (hsp.exact x hx) (isHopDist_src hs)
      omega
  · intro v hv hr
    exact hnone v hv (fun h => hr ((hsp.mem_iff v).mp h))
  · intro v hr hvS
    have hmem := (hsp.mem_iff v).mpr hr
    obtain ⟨x, hx, rfl⟩ := List.mem_map.mp hmem
    rcases hsp.tree.mem x hx with h | ⟨y, hy, hp, ha, hl⟩
    · exact absurd h.2.1 hvS
    · refine ⟨y.1, y.2.1, by rw [hpr x hx, hp], ha, hsp.exact y hy, ?_⟩
      rw [← hl]; exact hsp.exact x hx
  · intro v d hd
    have hmem := (hsp.mem_iff v).mpr (isHopDist_reach hd)
    obtain ⟨x, hx, rfl⟩ := List.mem_map.mp hmem
    obtain ⟨cs, hs, hhd, hl, _, hw, hlast⟩ := anc_search hP x hx
    have hdx := isHopDist_unique hd (hsp.exact x hx)
    refine ⟨cs, hs, by rw [hl, hdx], hw.isWalk_reverse, ?_, hhd⟩
    cases hgl : cs.getLast? with
    | none =>
      have : cs = [] := by simpa using hgl
      simp [this] at hl
    | some z => exact ⟨z, hlast z hgl, rfl⟩

/-! ### shortest_path -/

/-- `shortest_path`'s loop over an item list instead of over `next`. -/
def spList (isT : Nat → Bool) : List (Nat × Option Nat) → Pred → Res (Option (List Nat))
  | [], _ => .ok none
  | (v, u) :: xs, pred =>
    if isT v then
      match searchBy (pred.set v u) v (fun _ b => b.isNone) with
      | .panic => .panic
      | .ret r => .ok (r.map List.reverse)
    else spList isT xs (pred.set v u)

theorem spLoop_eq (g : Graph) (hg : g.WF) (isT : Nat → Bool) :
    ∀ (fuel : Nat) (st : St (Option Nat)) (pred : Pred), st.visited.length = g.n →
      spLoop g isT fuel st pred = spList isT (runP g labPred fuel st).1 pred := by
  intro fuel
  induction fuel with
  | zero => intro st pred _; rfl
  | succ f ih =>
    intro st pred hlen
    simp only [spLoop, runP, next_eq g hg labPred st hlen]
    cases hn : nextP g labPred st with
    | none => rfl
    | some p =>
      obtain ⟨⟨v, u⟩, st'⟩ := p
      simp only [spList]
      by_cases ht : isT v = true
      · rw [if_pos ht, if_pos ht]
        cases searchBy (pred.set v u) v (fun _ b => b.isNone) <;> rfl
      · rw [if_neg ht, if_neg ht]
        exact ih st' _ (by rw [nextP_len g labPred st st' _ hn, hlen])

theorem spList_none (isT : Nat → Bool) : ∀ (xs : List (Nat × Option Nat)) (pred : Pred),
    (∀ x ∈ xs, isT x.1 = false) → spList isT xs pred = .ok none
  | [], _, _ => rfl
  | (v, u) :: xs, pred, h => by
    have hv : isT v = false := h (v, u) (by simp)
    simp only [spList, hv]
    exact spList_none isT xs _ (fun x hx => h x (by simp [hx]))

theorem spList_split (isT : Nat → Bool) (n : Nat) (v : Nat) (u : Option Nat) (post : List (Nat × Option Nat)) :
    ∀ (pre done : List (Nat × Option Nat)), (∀ x ∈ pre, isT x.1 = false) → isT v = true →
      spList isT (pre ++ (v, u) :: post) (predOf n done) =
        match searchBy (predOf n (done ++ pre ++ [(v, u)])) v (fun _ b => b.isNone) with
        | .panic => .panic
        | .ret r => .ok (r.map List.reverse)
  | [], done, _, hv => by
    simp only [List.nil_append, spList, hv, if_true, predOf_snoc, List.append_nil]
  | (a, b) :: pre, done, h, hv => by
    have ha : isT a = false := h (a, b) (by simp)
    simp only [List.cons_append, spList, ha, predOf_snoc]
    have := spList_split isT n v u post pre (done ++ [(a, b)]) (fun x hx => h x (by simp [hx])) hv
    simpa [List.append_assoc] using this

theorem first_target (isT : Nat → Bool) : ∀ (l : List FItem), (∃ x ∈ l, isT x.1 = true) →
    ∃ pre x post, l = pre ++ x :: post ∧ (∀ y ∈ pre, isT y.1 = false) ∧ isT x.1 = true
  | [], h => by obtain ⟨x, hx, _⟩ := h; simp at hx
  | a :: l, h => by
    by_cases ha : isT a.1 = true
    · exact ⟨[], a, l, rfl, by simp, ha⟩
    · have : ∃ x ∈ l, isT x.1 = true := by
        obtain ⟨x, hx, ht⟩ := h
        rcases List.mem_cons.mp hx with rfl | hx
        · exact absurd ht ha
        · exact ⟨x, hx, ht⟩
      obtain ⟨pre, x, post, hl, hpre, hx⟩ := first_target isT l this
      refine ⟨a :: pre, x, post, by rw [hl]; rfl, ?_, hx⟩
      intro y hy
      rcases List.mem_cons.mp hy with rfl | hy
      · simpa using ha
      · exact hpre y hy

structure SPSpec (g : Graph) (S : List Nat) (isT : Nat → Bool) (r : Option (List Nat)) : Prop where
  /-- `None` exactly when no reachable vertex satisfies the predicate -/
  none_iff : r = none ↔ ¬ ∃ v, ReachFrom g S v ∧ isT v = true
  /-- otherwise a walk from a source to a target, with as many arcs as the hop distance of the
  target, which is minimal among all reachable targets -/
  path : ∀ p, r = some p → ∃ s t, p.head? = some s ∧ p.getLast? = some t ∧ s ∈ S ∧ isT t = true ∧
    IsWalk g p ∧ IsHopDist g S t (p.length - 1) ∧
    ∀ t' d', isT t' = true → IsHopDist g S t' d' → p.length - 1 ≤ d'

theorem shortestPath_spec (g : Graph) (hg : g.WF) (hn : 0 < g.n) (S : List Nat) (hS : ∀ s ∈ S, s < g.n)
    (hnd : S.Nodup) (isT : Nat → Bool) :
    ∃ r, shortestPath g S isT = .ok r ∧ SPSpec g S isT r := by
  obtain ⟨out, _, hsp, hproj⟩ := full_run g hg S hS hnd
  have hrun : shortestPath g S isT = spList isT (out.map proj) (predOf g.n []) := by
    unfold shortestPath
    rw [new_eq g labPred S hS]
    have : ¬ g.n = 0 := by omega
    simp only [this, if_false]
    rw [spLoop_eq g hg isT _ _ _ (newP_spec g labPred S hS).2.1, hproj]
    rfl
  by_cases hex : ∃ x ∈ out, isT x.1 = true
  · obtain ⟨pre, x, post, hl, hpre, hx⟩ := first_target isT out hex
    have hsplit := spList_split isT g.n x.1 x.2.2 (post.map proj) (pre.map proj) []
      (by intro y hy; obtain ⟨z, hz, rfl⟩ := List.mem_map.mp hy; exact hpre z hz) hx
    have hout : out.map proj = pre.map proj ++ (x.1, x.2.2) :: post.map proj := by rw [hl]; simp [proj]
    have hP : PrefOK g S (pre ++ [x]) := FullSpec.pref (rest := post) (by simpa [hl] using hsp)
    obtain ⟨cs, hs, hhd, hlen, hcnd, hw, hlast⟩ := anc_search hP x (by simp)
    have hpm : (pre ++ [x]).map proj = [] ++ pre.map proj ++ [(x.1, x.2.2)] := by simp [proj]
    rw [hpm] at hs
    rw [← hout, ← hrun, hs] at hsplit
    have hxout : x ∈ out := by rw [hl]; simp
    refine ⟨_, hsplit, ?_, ?_⟩
    · constructor
      · intro h; simp at h
      · intro h
        exact absurd ⟨x.1, (hsp.mem_iff x.1).mp (List.mem_map.mpr ⟨x, hxout, rfl⟩), hx⟩ h
    · intro p hp
      simp only [Option.map_some, Option.some.injEq] at hp
      subst hp
      cases hgl : cs.getLast? with
      | none =>
        have : cs = [] := by simpa using hgl
        simp [this] at hlen
      | some z =>
        refine ⟨z, x.1, by rw [List.head?_reverse, hgl], by rw [List.getLast?_reverse, hhd],
          hlast z hgl, hx, hw.isWalk_reverse, ?_, ?_⟩
        · rw [List.length_reverse, hlen]; exact hsp.exact x hxout
        · intro t' d' ht' hd'
          rw [List.length_reverse, hlen]
          have hmem := (hsp.mem_iff t').mpr (isHopDist_reach hd')
          obtain ⟨y, hy, rfl⟩ := List.mem_map.mp hmem
          have hdy := isHopDist_unique hd' (hsp.exact y hy)
          have hsorted := hsp.sorted
          rw [hl, List.map_append, List.map_cons, List.pairwise_append] at hsorted
          have hxs := List.pairwise_cons.mp hsorted.2.1
          rw [hl] at hy
          rcases List.mem_append.mp hy with hy | hy
          · have := hpre y hy; rw [ht'] at this; exact absurd this (by simp)
          · rcases List.mem_cons.mp hy with rfl | hy
            · omega
            · have := hxs.1 y.2.1 (List.mem_map.mpr ⟨y, hy, rfl⟩)
              omega
  · have hnone : ∀ y ∈ out.map proj, isT y.1 = false := by
      intro y hy
      obtain ⟨z, hz, rfl⟩ := List.mem_map.mp hy
      show isT z.1 = false
      cases h : isT z.1 with
      | false => rfl
      | true => exact absurd ⟨z, hz, h⟩ hex
    refine ⟨none, by rw [hrun]; exact spList_none isT _ _ hnone, ?_, ?_⟩
    · simp only [true_iff]
      rintro ⟨v, hr, hv⟩
      obtain ⟨x, hx, rfl⟩ := List.mem_map.mp ((hsp.mem_iff v).mpr hr)
      exact hex ⟨x, hx, hv⟩
    · intro p hp; simp at hp

/-! ### cycles -/

/-- A vertex list that is an elementary cycle: non-empty, distinct vertices, consecutive
vertices joined by arcs, and an arc from the last back to the first. -/
def IsElemCycle (g : Graph) (c : List Nat) : Prop :=
  c ≠ [] ∧ c.Nodup ∧ IsWalk g c ∧ ∃ a z, c.head? = some a ∧ c.getLast? = some z ∧ g.A z a

/-- `cycles`' loop over an item list instead of over `next`. -/
def cyList (g : Graph) : List (Nat × Option Nat) → Pred → List (List Nat) → Res (List (List Nat))
  | [], _, acc => .ok acc
  | (v, u) :: xs, pred, acc =>
    match cyclesAt (pred.set v u) v (g.out v) acc with
    | .panic => .panic
    | .ok acc' => cyList g xs (pred.set v u) acc'

theorem cyLoop_eq (g : Graph) (hg : g.WF) :
    ∀ (fuel : Nat) (st : St (Option Nat)) (pred : Pred) (acc : List (List Nat)), st.visited.length = g.n →
      cyLoop g fuel st pred acc = cyList g (runP g labPred fuel st).1 pred acc := by
  intro fuel
  induction fuel with
  | zero => intro st pred acc _; rfl
  | succ f ih =>
    intro st pred acc hlen
    simp only [cyLoop, runP, next_eq g hg labPred st hlen]
    cases hn : nextP g labPred st with
    | none => rfl
    | some p =>
      obtain ⟨⟨v, u⟩, st'⟩ := p
      simp only [cyList]
      cases cyclesAt (pred.set v u) v (g.out v) acc with
      | panic => rfl
      | ok acc' => exact ih st' _ _ (by rw [nextP_len g labPred st st' _ hn, hlen])

/-- The inner loop: with `cs` the ancestor chain of `v` in `pr`, every `search(v, x)` that
succeeds returns the part of `cs` up to `x`; reversed and closed by the arc `v → x` it is an
elementary cycle. -/
theorem cyclesAt_elem (g : Graph) (pr : Pred) (v : Nat) (r : List Nat)
    (hlinks : Links pr (v :: r)) (hlast : ∀ z, (v :: r).getLast? = some z → pr[z]? = some none)
    (hnd : (v :: r).Nodup) (hw : RevWalk g (v :: r)) (hlen : r.length < pr.length + 2) :
    ∀ (nbrs : List Nat) (acc : List (List Nat)), (∀ x ∈ nbrs, g.A v x) → (∀ c ∈ acc, IsElemCycle g c) →
      ∃ acc', cyclesAt pr v nbrs acc = .ok acc' ∧ ∀ c ∈ acc', IsElemCycle g c := by
  intro nbrs
  induction nbrs with
  | nil => intro acc _ hacc; exact ⟨acc, rfl, hacc⟩
  | cons x nbrs ih =>
    intro acc hn hacc
    have hn' : ∀ y ∈ nbrs, g.A v y := fun y hy => hn y (by simp [hy])
    by_cases hx : x ∈ v :: r
    · obtain ⟨c1, c2, hdec⟩ := List.append_of_mem hx
      have hxc1 : x ∉ c1 := by
        intro h
        rw [hdec] at hnd
        have := (List.nodup_append.mp hnd).2.2 x h x (by simp)
        exact this rfl
      have htc := tchain_eq_of_links pr x c1 c2 (by rw [← hdec]; exact hlinks) hxc1
      have hnd1 : (c1 ++ [x]).Nodup := by
        have : (v :: r) = (c1 ++ [x]) ++ c2 := by rw [hdec]; simp
        rw [this] at hnd
        exact (List.nodup_append.mp hnd).1
      have hw1 : RevWalk g (c1 ++ [x]) := by
        have : (v :: r) = (c1 ++ [x]) ++ c2 := by rw [hdec]; simp
        rw [this] at hw
        exact hw.prefix
      have hle : (c1 ++ [x]).length ≤ (v :: r).length := by rw [hdec]; simp
      -- the chain starts at `v`
      obtain ⟨rest, hrest⟩ : ∃ rest, c1 ++ [x] = v :: rest := by
        cases c1 with
        | nil => simp at hdec; exact ⟨[], by simp [hdec.1]⟩
        | cons a c1' => simp at hdec; exact ⟨c1' ++ [x], by simp [hdec.1]⟩
      have hnd1' := hnd1
      rw [hrest] at htc hnd1 hle
      have hs : search pr v x = .ret (some (v :: rest)) :=
        searchBy_of_tchain pr _ v rest htc hnd1 (by simp at hle; omega)
      simp only [cyclesAt, hs]
      refine ih _ hn' ?_
      intro c hc
      rcases List.mem_append.mp hc with hc | hc
      · exact hacc c hc
      · simp only [List.mem_singleton] at hc
        subst hc
        rw [← hrest]
        refine ⟨by simp, (List.reverse_perm _).nodup_iff.mpr hnd1', hw1.isWalk_reverse, x, v, ?_, ?_, hn x (by simp)⟩
        · simp
        · rw [List.getLast?_reverse, hrest]; rfl
    · have hnc := nchain_eq_of_links pr x (v :: r) (by simp) hlinks hlast hx
      have hs : search pr v x = .ret none := searchBy_none_of_nchain pr _ v r hnc
      simp only [cyclesAt, hs]
      exact ih acc hn' hacc

theorem cyList_elem (g : Graph) (S : List Nat) (out : List FItem) (hsp : FullSpec g S out) :
    ∀ (rest done : List FItem) (acc : List (List Nat)), out = done ++ rest → (∀ c ∈ acc, IsElemCycle g c) →
      ∃ acc', cyList g (rest.map proj) (predOf g.n (done.map proj)) acc = .ok acc' ∧
        ∀ c ∈ acc', IsElemCycle g c := by
  intro rest
  induction rest with
  | nil => intro done acc _ hacc; exact ⟨acc, rfl, hacc⟩
  | cons x rest ih =>
    intro done acc hout hacc
    have hout' : out = (done ++ [x]) ++ rest := by rw [hout]; simp
    have hP : PrefOK g S (done ++ [x]) := FullSpec.pref (rest := rest) (by rw [← hout']; exact hsp)
    have hset : (predOf g.n (done.map proj)).set x.1 x.2.2 = predOf g.n ((done ++ [x]).map proj) := by
      rw [predOf_snoc]; simp [proj]
    obtain ⟨hplen, hpr, _⟩ := predOf_spec g.n (done ++ [x]) hP.nodup (fun y hy => (hP.lt y hy).1)
    obtain ⟨r, hsub, hc⟩ := anc_exists g S (done ++ [x]) hP.tree x.2.1 x (by simp) rfl
    have hnd := AncChain.nodup hP.nodup hc hsub
    have hl := AncChain.length hc
    have hlinks := AncChain.links hpr hc hsub
    have hlast := fun z hz => (AncChain.last_none hpr hc hsub z hz).1
    rw [List.map_cons] at hnd hlinks hlast
    have hwalk : RevWalk g (x.1 :: r.map (·.1)) := AncChain.revWalk hc
    obtain ⟨acc1, h1, hacc1⟩ := cyclesAt_elem g _ x.1 (r.map (·.1)) hlinks hlast hnd hwalk
      (by rw [hplen]; have := (hP.lt x (by simp)).2; simp at hl ⊢; omega) (g.out x.1) acc (fun y hy => hy) hacc
    obtain ⟨acc2, h2, hacc2⟩ := ih (done ++ [x]) acc1 hout' hacc1
    refine ⟨acc2, ?_, hacc2⟩
    simp only [List.map_cons, cyList, proj]
    rw [show (predOf g.n (List.map proj done)).set x.1 x.2.2 = predOf g.n ((done ++ [x]).map proj) from hset]
    simp only [h1]
    exact h2

theorem cycles_spec (g : Graph) (hg : g.WF) (hn : 0 < g.n) (S : List Nat) (hS : ∀ s ∈ S, s < g.n)
    (hnd : S.Nodup) : ∃ cs, cycles g S = .ok cs ∧ ∀ c ∈ cs, IsElemCycle g c := by
  obtain ⟨out, _, hsp, hproj⟩ := full_run g hg S hS hnd
  have hrun : cycles g S = cyList g (out.map proj) (predOf g.n ([].map proj)) [] := by
    unfold cycles
    rw [new_eq g labPred S hS]
    have : ¬ g.n = 0 := by omega
    simp only [this, if_false]
    rw [cyLoop_eq g hg _ _ _ _ (newP_spec g labPred S hS).2.1, hproj]
    rfl
  rw [hrun]
  exact cyList_elem g S out hsp out [] [] (by simp) (by simp)

end GraafVerif.Bfs
