import GraafVerif.Model.PredTree
/-!
# `PredecessorTree::search_by` along a duplicate-free link chain

Self-contained facts about the C19 model (`Model/PredTree.lean`) in the form the BFS proofs
need: a *link chain* is a vertex list `[c₀, c₁, …, c_k]` in which every `c_{i+1}` is the recorded
predecessor of `c_i`.

* `searchBy_of_tchain`: if no vertex before `c_k` is a target, `c_k` is one and the vertices are
  distinct, the search from `c₀` returns exactly the chain (completeness of the loop);
* `searchBy_none_of_nchain`: if the chain ends at a vertex without predecessor and no vertex on
  it is a target, the search returns `None`.
-/
namespace GraafVerif.PredTree

/-- `[c₀, …, c_k]`: consecutive predecessor links, no target before `c_k`, `c_k` is a target. -/
def TChain (pred : Pred) (isT : Nat → Option Nat → Bool) : List Nat → Prop
  | [] => False
  | [z] => ∃ e, pred[z]? = some e ∧ isT z e = true
  | a :: b :: r => pred[a]? = some (some b) ∧ isT a (some b) = false ∧ TChain pred isT (b :: r)

/-- `[c₀, …, c_k]`: consecutive predecessor links, no target at all, `c_k` has no predecessor. -/
def NChain (pred : Pred) (isT : Nat → Option Nat → Bool) : List Nat → Prop
  | [] => False
  | [z] => pred[z]? = some none ∧ isT z none = false
  | a :: b :: r => pred[a]? = some (some b) ∧ isT a (some b) = false ∧ NChain pred isT (b :: r)

theorem TChain.mem_lt {pred : Pred} {isT} : ∀ {cs : List Nat}, TChain pred isT cs → ∀ x ∈ cs, x < pred.length
  | [], h, _, _ => h.elim
  | [z], h, x, hx => by
    obtain ⟨e, he, _⟩ := h
    simp at hx; subst hx
    exact (List.getElem?_eq_some_iff.mp he).1
  | a :: b :: r, h, x, hx => by
    rcases List.mem_cons.mp hx with rfl | hx
    · exact (List.getElem?_eq_some_iff.mp h.1).1
    · exact TChain.mem_lt h.2.2 x hx

theorem loop_of_tchain (pred : Pred) (isT) :
    ∀ (rest : List Nat) (a fuel : Nat) (vis : List Bool) (path : List Nat),
      TChain pred isT (a :: rest) → (a :: rest).Nodup → (∀ x ∈ rest, vis[x]? = some false) →
      rest.length < fuel → loop pred isT fuel a vis path = some (path ++ rest) := by
  intro rest
  induction rest with
  | nil =>
    intro a fuel vis path h _ _ hf
    obtain ⟨e, he, ht⟩ := h
    cases fuel with
    | zero => simp at hf
    | succ f => simp [loop, he, ht]
  | cons b r ih =>
    intro a fuel vis path h hnd hvis hf
    obtain ⟨hlink, hnt, hrest⟩ := h
    cases fuel with
    | zero => simp at hf
    | succ f =>
      have hb : vis[b]? = some false := hvis b (by simp)
      have hba : b ≠ a := by
        intro e; subst e
        simp at hnd
      have hnd' : (b :: r).Nodup := (List.nodup_cons.mp hnd).2
      have hbr : b ∉ r := (List.nodup_cons.mp hnd').1
      unfold loop
      simp only [hlink, hnt, hb]
      rw [if_pos hba]
      have := ih b f (vis.set b true) (path ++ [b]) hrest hnd'
        (fun x hx => by
          have hxb : b ≠ x := fun e => hbr (e ▸ hx)
          rw [List.getElem?_set_ne hxb]; exact hvis x (by simp [hx]))
        (by simp at hf; omega)
      simpa using this

/-- Completeness of `search_by` along a duplicate-free chain. -/
theorem searchBy_of_tchain (pred : Pred) (isT) (s : Nat) (rest : List Nat)
    (h : TChain pred isT (s :: rest)) (hnd : (s :: rest).Nodup) (hlen : rest.length < pred.length + 2) :
    searchBy pred s isT = .ret (some (s :: rest)) := by
  unfold searchBy searchByFuel
  cases rest with
  | nil =>
    obtain ⟨e, he, ht⟩ := h
    simp [he, ht]
  | cons b r =>
    have hall := TChain.mem_lt h
    obtain ⟨hlink, hnt, _⟩ := h
    simp only [hlink, hnt]
    have := loop_of_tchain pred isT (b :: r) s (pred.length + 2) (List.replicate pred.length false) [s]
      ⟨hlink, hnt, by assumption⟩ hnd
      (fun x hx => by
        have := hall x (by simp at hx ⊢; exact Or.inr hx)
        simp [this])
      hlen
    simpa using this

theorem loop_none_of_nchain (pred : Pred) (isT) :
    ∀ (rest : List Nat) (a fuel : Nat) (vis : List Bool) (path : List Nat),
      NChain pred isT (a :: rest) → loop pred isT fuel a vis path = none := by
  intro rest
  induction rest with
  | nil =>
    intro a fuel vis path h
    obtain ⟨he, ht⟩ := h
    cases fuel with
    | zero => rfl
    | succ f => simp [loop, he, ht]
  | cons b r ih =>
    intro a fuel vis path h
    obtain ⟨hlink, hnt, hrest⟩ := h
    cases fuel with
    | zero => rfl
    | succ f =>
      unfold loop
      simp only [hlink, hnt]
      rcases hv : vis[b]? with _ | (_ | _)
      · rfl
      · simp only [Bool.false_eq_true, if_false]
        exact ih b f _ _ hrest
      · rfl

/-- A chain that ends without predecessor and carries no target: `None`. -/
theorem searchBy_none_of_nchain (pred : Pred) (isT) (s : Nat) (rest : List Nat)
    (h : NChain pred isT (s :: rest)) : searchBy pred s isT = .ret none := by
  unfold searchBy searchByFuel
  cases rest with
  | nil =>
    obtain ⟨he, ht⟩ := h
    simp only [he, ht]
    rw [loop_none_of_nchain pred isT [] s _ _ _ ⟨he, ht⟩]
    rfl
  | cons b r =>
    obtain ⟨hlink, hnt, hrest⟩ := h
    simp only [hlink, hnt]
    rw [loop_none_of_nchain pred isT (b :: r) s _ _ _ ⟨hlink, hnt, hrest⟩]
    rfl

/-! ### chains for the equality predicate of `search` -/

/-- Consecutive predecessor links; every member has an entry. -/
def Links (pred : Pred) : List Nat → Prop
  | [] => True
  | [z] => ∃ e, pred[z]? = some e
  | a :: b :: r => pred[a]? = some (some b) ∧ Links pred (b :: r)

/-- The part of a link chain up to the first occurrence of `x` is a target chain for `· == x`. -/
theorem tchain_eq_of_links (pred : Pred) (x : Nat) :
    ∀ (c1 c2 : List Nat), Links pred (c1 ++ x :: c2) → x ∉ c1 →
      TChain pred (fun v _ => v == x) (c1 ++ [x]) := by
  intro c1
  induction c1 with
  | nil =>
    intro c2 h _
    cases c2 with
    | nil => obtain ⟨e, he⟩ := h; exact ⟨e, he, by simp⟩
    | cons b r => exact ⟨_, h.1, by simp⟩
  | cons a c1 ih =>
    intro c2 h hx
    have hax : a ≠ x := fun e => hx (by simp [e])
    have hx1 : x ∉ c1 := fun e => hx (by simp [e])
    cases c1 with
    | nil =>
      simp only [List.cons_append, List.nil_append] at h ⊢
      exact ⟨h.1, by simp [hax], ih c2 h.2 hx1⟩
    | cons b r =>
      simp only [List.cons_append] at h ⊢
      exact ⟨h.1, by simp [hax], ih c2 h.2 hx1⟩

/-- A link chain that ends without predecessor and does not contain `x`. -/
theorem nchain_eq_of_links (pred : Pred) (x : Nat) :
    ∀ (cs : List Nat), cs ≠ [] → Links pred cs → (∀ z, cs.getLast? = some z → pred[z]? = some none) →
      x ∉ cs → NChain pred (fun v _ => v == x) cs := by
  intro cs
  induction cs with
  | nil => intro h; exact absurd rfl h
  | cons a cs ih =>
    intro _ h hlast hx
    have hax : a ≠ x := fun e => hx (by simp [e])
    cases cs with
    | nil => exact ⟨hlast a (by simp), by simp [hax]⟩
    | cons b r =>
      refine ⟨h.1, by simp [hax], ih (by simp) h.2 ?_ (fun e => hx (by simp at e ⊢; exact Or.inr e))⟩
      intro z hz
      exact hlast z (by simpa [List.getLast?_cons_cons] using hz)

end GraafVerif.PredTree
