import GraafVerif.Proof.Bfm
/-!
# Repeated `distances()` calls on the same `BellmanFordMoore` object (C07)

The second call starts from the vector the first call left behind.  Every call returns what the
first call returned: a `Some(d)` is a fixpoint (the first pass of the next call updates nothing),
and after a `None` the vector still consists of walk weights, so by the tightness argument the
scan fires again.
-/
namespace GraafVerif.Bfm

/-- One call is `distancesFrom` on the initial vector. -/
theorem distances_eq_from (g : WGraph) (s : Nat) (hs : s < g.n) :
    distances g s = .ret (distancesFrom g.n (arcsOf g) (init g.n s)).1 := by
  unfold distances distancesArcs distancesFrom
  simp only [hs, if_true]
  split <;> rfl

/-- A vector of walk weights under which every arc is tight excludes a reachable negative circuit. -/
theorem no_neg_of_tight {g : WGraph} {s : Nat} {d : Dist} (hinv : Inv g s d) (ht : Tight g d) :
    NoNegReach g s := by
  intro x hreach hneg
  obtain ⟨x0, hx0, _⟩ := hinv.src
  obtain ⟨s', hs', k, wt, hw⟩ := hreach
  rw [List.mem_singleton.mp hs'] at hw
  obtain ⟨dx, hdx, _⟩ := tight_walk ht hw hx0
  obtain ⟨kc, wc, _, hcyc, hwc⟩ := hneg
  obtain ⟨dx', hdx', hle⟩ := tight_walk ht hcyc hdx
  rw [hdx] at hdx'
  have : dx = dx' := by simpa using hdx'
  omega

theorem scan_of_all {d : Dist} {arcs : List Arc} (hall : ∀ a ∈ arcs, stillRelaxable d a = false) :
    finalScan d arcs = false := by
  cases hf : finalScan d arcs with
  | false => rfl
  | true =>
    obtain ⟨a, ha, hr⟩ := finalScan_true hf
    rw [hall a ha] at hr; cases hr

/-- From ANY vector of walk weights (not only the initial one) `order - 1` rounds reach a vector
the scan accepts, when no negative circuit is reachable. -/
theorem scan_false_of_noNeg {g : WGraph} (hwf : g.WF) {s : Nat} (hs : s < g.n) {d : Dist}
    (hinv : Inv g s d) (hnn : NoNegReach g s) :
    finalScan (rounds (arcsOf g) (g.n - 1) d) (arcsOf g) = false := by
  have hinv' : Inv g s (rounds (arcsOf g) (g.n - 1) d) :=
    inv_rounds (arcsOf g) (fun _ ha => (mem_arcsOf.mp ha).2) _ _ hinv
  have hc0 : Cov g s d 0 := by
    intro v k wt hk hw
    rcases wwalk_inv hw with ⟨_, rfl, rfl⟩ | ⟨_, k', _, _, rfl, _, _, _⟩
    · exact hinv.src
    · omega
  apply scan_of_all
  rcases rounds_result hwf (g.n - 1) d 0 hinv.len hc0 with h | hcov
  · exact h
  · intro a ha
    apply bnd_not_relaxable
    intro du hdu
    obtain ⟨k, hk⟩ := hinv'.walk _ _ hdu
    have hw := WWalk.snoc hk (mem_arcsOf.mp ha).2
    obtain ⟨k', wt', hk', hle, hw'⟩ := short_walk hwf hs hnn hw
    exact (hcov _ k' wt' (by omega) hw').mono hle

/-- A vector the scan accepts is a fixpoint of a pass and of the whole round loop. -/
theorem foldl_fix (d : Dist) : ∀ (arcs : List Arc), (∀ a ∈ arcs, stillRelaxable d a = false) →
    arcs.foldl relax (d, false) = (d, false) := by
  intro arcs
  induction arcs with
  | nil => intro _; rfl
  | cons b rest ih =>
    intro h
    have hb : relax (d, false) b = (d, false) := by
      have := h b List.mem_cons_self
      unfold stillRelaxable at this
      unfold relax
      split
      · rfl
      · rename_i du hdu
        simp only [hdu] at this
        simp [this]
    rw [List.foldl_cons, hb]
    exact ih (fun a ha => h a (List.mem_cons_of_mem _ ha))

theorem rounds_fix (arcs : List Arc) (d : Dist) (h : ∀ a ∈ arcs, stillRelaxable d a = false) :
    ∀ k, rounds arcs k d = d := by
  intro k
  cases k with
  | zero => rfl
  | succ k => rw [rounds, round_eq_foldl, foldl_fix d arcs h]; rfl

/-- The next call returns what this call returned. -/
theorem distancesFrom_idem {g : WGraph} (hwf : g.WF) {s : Nat} (hs : s < g.n) {d : Dist}
    (hinv : Inv g s d) :
    (distancesFrom g.n (arcsOf g) (distancesFrom g.n (arcsOf g) d).2).1
      = (distancesFrom g.n (arcsOf g) d).1 := by
  have hinv' : Inv g s (rounds (arcsOf g) (g.n - 1) d) :=
    inv_rounds (arcsOf g) (fun _ ha => (mem_arcsOf.mp ha).2) _ _ hinv
  unfold distancesFrom
  simp only []
  cases hf : finalScan (rounds (arcsOf g) (g.n - 1) d) (arcsOf g) with
  | false =>
    rw [rounds_fix (arcsOf g) _ (finalScan_false hf) (g.n - 1), hf]
  | true =>
    cases hf2 : finalScan (rounds (arcsOf g) (g.n - 1) (rounds (arcsOf g) (g.n - 1) d)) (arcsOf g) with
    | true => rfl
    | false =>
      exfalso
      have hinv2 := inv_rounds (arcsOf g) (fun _ ha => (mem_arcsOf.mp ha).2) (g.n - 1) _ hinv'
      have hnn := no_neg_of_tight hinv2 (tight_of_scan hwf hf2)
      rw [scan_false_of_noNeg hwf hs hinv hnn] at hf
      cases hf

theorem repeatFrom_const {g : WGraph} (hwf : g.WF) {s : Nat} (hs : s < g.n) :
    ∀ (k : Nat) (d : Dist), Inv g s d →
      repeatFrom g.n (arcsOf g) k d = List.replicate k (distancesFrom g.n (arcsOf g) d).1 := by
  intro k
  induction k with
  | zero => intro d _; rfl
  | succ k ih =>
    intro d hinv
    have hinv' : Inv g s (distancesFrom g.n (arcsOf g) d).2 :=
      inv_rounds (arcsOf g) (fun _ ha => (mem_arcsOf.mp ha).2) _ _ hinv
    rw [repeatFrom, List.replicate_succ]
    rw [ih _ hinv', distancesFrom_idem hwf hs hinv]

/-- **Every one of `k` calls on the same object returns what a single call returns.** -/
theorem distancesRepeat_const {g : WGraph} (hwf : g.WF) {s : Nat} (hs : s < g.n) (k : Nat) (r : Option Dist)
    (h : distances g s = .ret r) : distancesRepeat g s k = some (List.replicate k r) := by
  rw [distances_eq_from g s hs] at h
  have hr : (distancesFrom g.n (arcsOf g) (init g.n s)).1 = r := by
    injection h
  unfold distancesRepeat
  rw [if_pos hs, repeatFrom_const hwf hs k _ (inv_init g s hs), hr]

end GraafVerif.Bfm
