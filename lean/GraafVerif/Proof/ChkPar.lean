import GraafVerif.Model.ChkPar
/-!
# The worker ranges tile `0..n` for EVERY thread count (re-homed from design-prototypes/Par.lean)

`expandRanges (threadRanges n t) = List.range n` and `expandRanges (stepRanges n chunk) = List.range n`:
the workers touch every index exactly once, in ascending order, none twice, none outside.
-/
namespace GraafVerif.Chk

theorem threadRangesGo_spec (n chunk : Nat) (hc : 0 < chunk) :
    ∀ fuel id, id * chunk ≤ n → n ≤ (id + fuel) * chunk →
      expandRanges (threadRangesGo n chunk fuel id) = List.range' (id * chunk) (n - id * chunk) := by
  intro fuel
  induction fuel with
  | zero =>
    intro id h1 h2
    have : n = id * chunk := by simp at h2; omega
    simp [threadRangesGo, expandRanges, this]
  | succ fuel ih =>
    intro id h1 h2
    unfold threadRangesGo
    simp only []
    by_cases hge : id * chunk ≥ min n (id * chunk + chunk)
    · have : n = id * chunk := by
        rcases Nat.le_total n (id * chunk + chunk) with h | h
        · rw [Nat.min_eq_left h] at hge; omega
        · rw [Nat.min_eq_right h] at hge; omega
      simp [expandRanges, this]
    · simp only [hge, if_false]
      have hlt : id * chunk < n := by
        rcases Nat.le_total n (id * chunk + chunk) with h | h
        · rw [Nat.min_eq_left h] at hge; omega
        · omega
      by_cases hfull : id * chunk + chunk ≤ n
      · rw [Nat.min_eq_right hfull]
        have hnext : (id + 1) * chunk = id * chunk + chunk := by rw [Nat.add_mul]; simp
        have := ih (id+1) (by omega) (by rw [Nat.add_assoc, Nat.add_comm 1 fuel]; exact h2)
        simp only [expandRanges, List.flatMap_cons] at this ⊢
        rw [this, hnext]
        have : id * chunk + chunk - id * chunk = chunk := by omega
        rw [this]
        have h3 : n - id * chunk = chunk + (n - (id * chunk + chunk)) := by omega
        rw [h3, List.range'_append_1]
      · have hmin : min n (id * chunk + chunk) = n := Nat.min_eq_left (by omega)
        rw [hmin]
        have hnext : (id + 1) * chunk = id * chunk + chunk := by rw [Nat.add_mul]; simp
        have hrest : expandRanges (threadRangesGo n chunk fuel (id+1)) = [] := by
          cases fuel with
          | zero => simp [threadRangesGo, expandRanges]
          | succ f =>
            unfold threadRangesGo
            have : (id + 1) * chunk ≥ min n ((id + 1) * chunk + chunk) := by
              rw [hnext]; have : min n (id * chunk + chunk + chunk) ≤ n := Nat.min_le_left _ _; omega
            simp [this, expandRanges]
        simp only [expandRanges, List.flatMap_cons] at hrest ⊢
        rw [hrest]; simp

/-- `for thread_id in 0..t` idiom: every index of `0..n` exactly once, for every `t ≥ 1`. -/
theorem chunks_tile (n t : Nat) (ht : 0 < t) (hn : 0 < n) : expandRanges (threadRanges n t) = List.range n := by
  unfold threadRanges divCeil
  have hc : 0 < (n + t - 1) / t := Nat.div_pos (by omega) ht
  have hcov : n ≤ (0 + t) * ((n + t - 1) / t) := by
    simp
    have := Nat.div_add_mod (n + t - 1) t
    have hm := Nat.mod_lt (n + t - 1) ht
    have : t * ((n + t - 1) / t) = (n + t - 1) - (n + t - 1) % t := by omega
    rw [this]; omega
  have := threadRangesGo_spec n ((n + t - 1) / t) hc t 0 (by simp) hcov
  simpa [List.range_eq_range'] using this

theorem stepRangesGo_spec (n chunk : Nat) (hc : 0 < chunk) :
    ∀ fuel start, start ≤ n → n - start ≤ fuel →
      expandRanges (stepRangesGo n chunk fuel start) = List.range' start (n - start) := by
  intro fuel
  induction fuel with
  | zero =>
    intro start h1 h2
    have : n - start = 0 := by omega
    simp [stepRangesGo, expandRanges, this]
  | succ fuel ih =>
    intro start h1 h2
    unfold stepRangesGo
    by_cases hlt : start < n
    · simp only [hlt, if_true]
      by_cases hfull : start + chunk ≤ n
      · rw [Nat.min_eq_right hfull]
        have := ih (start + chunk) hfull (by omega)
        simp only [expandRanges, List.flatMap_cons] at this ⊢
        rw [this]
        have h4 : start + chunk - start = chunk := by omega
        have h3 : n - start = chunk + (n - (start + chunk)) := by omega
        rw [h4, h3, List.range'_append_1]
      · have hmin : min n (start + chunk) = n := Nat.min_eq_left (by omega)
        rw [hmin]
        have hrest : expandRanges (stepRangesGo n chunk fuel (start + chunk)) = [] := by
          cases fuel with
          | zero => simp [stepRangesGo, expandRanges]
          | succ f =>
            unfold stepRangesGo
            have : ¬ (start + chunk < n) := by omega
            simp [this, expandRanges]
        simp only [expandRanges, List.flatMap_cons] at hrest ⊢
        rw [hrest]; simp
    · have : n - start = 0 := by omega
      simp [hlt, expandRanges, this]

/-- `(0..n).step_by(chunk)` idiom: every index of `0..n` exactly once, for every `chunk ≥ 1`. -/
theorem steps_tile (n chunk : Nat) (hc : 0 < chunk) : expandRanges (stepRanges n chunk) = List.range n := by
  unfold stepRanges
  have := stepRangesGo_spec n chunk hc n 0 (by omega) (by omega)
  simpa [List.range_eq_range'] using this

/-- every range produced lies inside `0..n` -/
theorem stepRangesGo_bounds (n chunk : Nat) :
    ∀ fuel start r, r ∈ stepRangesGo n chunk fuel start → r.1 < n ∧ r.2 ≤ n := by
  intro fuel
  induction fuel with
  | zero => intro start r h; cases h
  | succ fuel ih =>
    intro start r h
    unfold stepRangesGo at h
    split at h
    · rcases List.mem_cons.mp h with h | h
      · rw [h]; exact ⟨by assumption, Nat.min_le_left _ _⟩
      · exact ih _ r h
    · cases h

theorem threadRangesGo_bounds (n chunk : Nat) :
    ∀ fuel id r, r ∈ threadRangesGo n chunk fuel id → r.1 < r.2 ∧ r.2 ≤ n := by
  intro fuel
  induction fuel with
  | zero => intro id r h; cases h
  | succ fuel ih =>
    intro id r h
    unfold threadRangesGo at h
    simp only [] at h
    split at h
    · cases h
    · rcases List.mem_cons.mp h with h | h
      · rw [h]; exact ⟨by simp only []; omega, Nat.min_le_left _ _⟩
      · exact ih _ r h

end GraafVerif.Chk
