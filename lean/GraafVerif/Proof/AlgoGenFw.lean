import GraafVerif.Model.AlgoGen
import GraafVerif.Proof.AlgoGenRt
import GraafVerif.Proof.AlgoGenBfm
import GraafVerif.Model.Fw
/-!
# Generated `FloydWarshall::distances` (`Model/AlgoGen.lean`) = hand-written `Fw.call` (`Model/Fw.lean`)

`Fw.call g m` is one call of `distances()` on an object whose matrix currently is `m` (flat,
`none` = `isize::MAX`): arc weights, zero diagonal, the triple loop.  The generated definition works
on the `DistanceMatrix` struct (`dist`, `infinity`, `order`; only `dist` changes) with numbers and
the sentinel `inf`.  Equality holds for every digraph whose arcs are in range and every matrix of
length `order²` without a finite entry equal to the sentinel, PROVIDED no arc weight is the
sentinel and no sum `a + b` computed along the hand-written execution reaches it (`CallOk`,
stated with `FoldOk` along the hand-written folds).
-/
set_option linter.unusedSimpArgs false
namespace GraafVerif.AlgoGenThm
open GraafVerif GraafVerif.AlgoGen
open GraafVerif.Fw (Mat get put cell rowJ iterI loopTo setArcs zeroDiag)
open BellmanFordMoore (DInv FoldOk rd_enc getD_ne_inf)

/-- `for x in l { s = f s x }` through an encoding `enc`, when the body is `f` on every state that
satisfies `inv` and every item that satisfies `ok`. -/
theorem forLoop_foldOk {σ S α β ρ : Type} (enc : σ → S) (body : S → α → Blk S ρ S) (f : σ → α → σ)
    (ok : σ → α → Prop) (inv : σ → Prop) (l : List α)
    (hstep : ∀ s a, a ∈ l → inv s → ok s a → body (enc s) a = .ok (enc (f s a)) ∧ inv (f s a)) :
    ∀ (l' : List α) (s : σ), (∀ a ∈ l', a ∈ l) → inv s → FoldOk ok f l' s →
      (forLoop body l' (enc s) : Blk β ρ S) = .ok (enc (l'.foldl f s)) ∧ inv (l'.foldl f s) := by
  intro l'
  induction l' with
  | nil => intro s _ hi _; exact ⟨rfl, hi⟩
  | cons a l' ih =>
    intro s hsub hi hok
    obtain ⟨h1, h2⟩ := hstep s a (hsub a List.mem_cons_self) hi hok.1
    rw [forLoop_cons_ok (h := h1)]
    exact ih _ (fun b hb => hsub b (List.mem_cons_of_mem _ hb)) h2 hok.2

namespace FloydWarshall

theorem idx_lt {n u v : Nat} (hu : u < n) (hv : v < n) : u * n + v < n * n := by
  have : (u + 1) * n ≤ n * n := Nat.mul_le_mul_right n hu
  rw [Nat.add_mul, Nat.one_mul] at this
  omega

/-- the generated struct around an encoded matrix (`infinity`, `order` are never touched) -/
def mk (inf : Int) (dm : AlgoGen.DistanceMatrix) (m : Mat) : AlgoGen.FloydWarshall :=
  ⟨{ dm with dist := encD inf m }⟩

/-- `for (u, v, &w) in arcs_weighted() { dist[u * order + v] = w }` = the hand-written `setArcs`. -/
theorem distances_for0_eq (inf : Int) (n : Nat) (dm : AlgoGen.DistanceMatrix) (arcs : List (Nat × Nat × Int))
    (m : Mat) (hm : DInv inf (n * n) m) (harcs : ∀ a ∈ arcs, a.1 < n ∧ a.2.1 < n ∧ a.2.2 ≠ inf) :
    (forLoop (AlgoGen.FloydWarshall.distances_for0 n) arcs (mk inf dm m) :
        Blk Empty (AlgoGen.DistanceMatrix × AlgoGen.FloydWarshall) _) = .ok (mk inf dm (setArcs n m arcs)) ∧
      DInv inf (n * n) (setArcs n m arcs) := by
  have h := forLoop_foldOk (β := Empty) (ρ := AlgoGen.DistanceMatrix × AlgoGen.FloydWarshall) (mk inf dm)
    (AlgoGen.FloydWarshall.distances_for0 n) (fun m (a : Nat × Nat × Int) => put n m a.1 a.2.1 (some a.2.2))
    (fun _ _ => True) (DInv inf (n * n)) arcs
    (by
      intro m a ha hi _
      obtain ⟨hu, hv, hw⟩ := harcs a ha
      have hidx : a.1 * n + a.2.1 < (encD inf m).length := by simp [hi.len, idx_lt hu hv]
      refine ⟨?_, ?_⟩
      · unfold AlgoGen.FloydWarshall.distances_for0
        simp [mk, wr_lt _ _ _ _ hidx, encD_set, put]
      · refine ⟨by simp [put, hi.len], ?_⟩
        intro x hx
        rcases List.mem_or_eq_of_mem_set hx with h1 | h1
        · exact hi.fin x h1
        · rw [h1]; intro he; cases he; exact hw rfl)
    arcs m (fun _ h => h) hm (by
      clear harcs hm
      induction arcs generalizing m with
      | nil => trivial
      | cons a l ih => exact ⟨trivial, ih _⟩)
  exact h

/-- `for i in 0..order { dist[i * order + i] = 0 }` = the hand-written `zeroDiag`. -/
theorem distances_for1_eq (inf : Int) (hinf : inf ≠ 0) (n : Nat) (dm : AlgoGen.DistanceMatrix)
    (m : Mat) (hm : DInv inf (n * n) m) :
    (forLoop (AlgoGen.FloydWarshall.distances_for1 n) (List.range n) (mk inf dm m) :
        Blk Empty (AlgoGen.DistanceMatrix × AlgoGen.FloydWarshall) _) = .ok (mk inf dm (zeroDiag n m)) ∧
      DInv inf (n * n) (zeroDiag n m) := by
  have h := forLoop_foldOk (β := Empty) (ρ := AlgoGen.DistanceMatrix × AlgoGen.FloydWarshall) (mk inf dm)
    (AlgoGen.FloydWarshall.distances_for1 n) (fun m (i : Nat) => put n m i i (some 0))
    (fun _ _ => True) (DInv inf (n * n)) (List.range n)
    (by
      intro m i hi' hi _
      have hin : i < n := List.mem_range.1 hi'
      have hidx : i * n + i < (encD inf m).length := by simp [hi.len, idx_lt hin hin]
      refine ⟨?_, ?_⟩
      · unfold AlgoGen.FloydWarshall.distances_for1
        simp [mk, wr_lt _ _ _ _ hidx, encD_set, put]
      · refine ⟨by simp [put, hi.len], ?_⟩
        intro x hx
        rcases List.mem_or_eq_of_mem_set hx with h1 | h1
        · exact hi.fin x h1
        · rw [h1]; intro he; cases he; exact hinf rfl)
    (List.range n) m (fun _ h => h) hm (by
      generalize List.range n = l
      clear hm
      induction l generalizing m with
      | nil => trivial
      | cons a l ih => exact ⟨trivial, ih _⟩)
  exact h

/-- The sum of the `k` step stays below the sentinel. -/
def CellOk (inf : Int) (n i : Nat) (a : Int) (m : Mat) (k : Nat) : Prop :=
  ∀ b, get n m i k = some b → a + b < inf

/-- … at every `k` of the `j` step. -/
def RowOk (inf : Int) (n i : Nat) (m : Mat) (j : Nat) : Prop :=
  ∀ a, get n m j i = some a → FoldOk (CellOk inf n i a) (cell n i j a) (List.range n) m

/-- … at every `j` of the `i` step. -/
def IterOk (inf : Int) (n : Nat) (m : Mat) (i : Nat) : Prop :=
  FoldOk (RowOk inf n i) (rowJ n i) (List.range n) m

/-- `for k in vertices() { .. }` for fixed `i`, `j`, `a` = the fold of the hand-written `cell`. -/
theorem distances_for4_eq {β : Type} (inf : Int) (n : Nat) (dm : AlgoGen.DistanceMatrix) (i j : Nat) (a : Int)
    (hi : i < n) (hj : j < n)
    (m : Mat) (hm : DInv inf (n * n) m) (hok : FoldOk (CellOk inf n i a) (cell n i j a) (List.range n) m) :
    (forLoop (AlgoGen.FloydWarshall.distances_for4 inf n i j a) (List.range n) (mk inf dm m) :
        Blk β (AlgoGen.DistanceMatrix × AlgoGen.FloydWarshall) _) =
        .ok (mk inf dm ((List.range n).foldl (cell n i j a) m)) ∧
      DInv inf (n * n) ((List.range n).foldl (cell n i j a) m) := by
  refine forLoop_foldOk (β := β) (ρ := AlgoGen.DistanceMatrix × AlgoGen.FloydWarshall) (mk inf dm)
    (AlgoGen.FloydWarshall.distances_for4 inf n i j a) (cell n i j a) (CellOk inf n i a) (DInv inf (n * n)) (List.range n)
    ?_ (List.range n) m (fun _ h => h) hm hok
  intro m k hk' hmi hcell
  have hk : k < n := List.mem_range.1 hk'
  have hik : i * n + k < m.length := by rw [hmi.len]; exact idx_lt hi hk
  have hjk : j * n + k < m.length := by rw [hmi.len]; exact idx_lt hj hk
  unfold AlgoGen.FloydWarshall.distances_for4 cell
  simp only [mk, rd_enc _ inf m _ hik, ok_bind]
  have hb := getD_ne_inf inf (n * n) m hmi (i * n + k)
  cases hgik : get n m i k with
  | none =>
    have : m[i * n + k]?.getD none = none := hgik
    simp [this, hmi]
  | some b =>
    have hgb : m[i * n + k]?.getD none = some b := hgik
    have hne : b ≠ inf := by
      have := hb.2 ⟨b, hgb⟩
      rw [hgb] at this; exact this
    have hsum := hcell b hgik
    simp only [hgb, Option.getD_some, hne, if_false, rd_enc _ inf m _ hjk, ok_bind]
    cases hgjk : get n m j k with
    | none =>
      have h2 : m[j * n + k]?.getD none = none := hgjk
      refine ⟨?_, ?_⟩
      · simp [h2, hsum, wr_lt _ _ _ _ (show j * n + k < (encD inf m).length by simpa using hjk), encD_set, put]
      · refine ⟨by simp [put, hmi.len], ?_⟩
        intro x hx
        rcases List.mem_or_eq_of_mem_set hx with h1 | h1
        · exact hmi.fin x h1
        · rw [h1]; intro he; cases he; omega
    | some c =>
      have h2 : m[j * n + k]?.getD none = some c := hgjk
      by_cases hlt : a + b < c
      · refine ⟨?_, ?_⟩
        · simp [h2, hlt, wr_lt _ _ _ _ (show j * n + k < (encD inf m).length by simpa using hjk), encD_set, put]
        · simp only [hlt, if_true]
          refine ⟨by simp [put, hmi.len], ?_⟩
          intro x hx
          rcases List.mem_or_eq_of_mem_set hx with h1 | h1
          · exact hmi.fin x h1
          · rw [h1]; intro he; cases he; omega
      · refine ⟨?_, ?_⟩
        · simp [h2, hlt]
        · simp only [hlt, if_false]; exact hmi

/-- `for j in vertices() { let a = dist[j * order + i]; if a == MAX { continue } for k .. }` for
fixed `i` = the fold of the hand-written `rowJ`. -/
theorem distances_for3_eq {β : Type} (inf : Int) (dm : AlgoGen.DistanceMatrix) (i : Nat) (g : WGraph)
    (hi : i < g.n) (m : Mat) (hm : DInv inf (g.n * g.n) m) (hok : IterOk inf g.n m i) :
    (forLoop (AlgoGen.FloydWarshall.distances_for3 g inf g.n i) (List.range g.n) (mk inf dm m) :
        Blk β (AlgoGen.DistanceMatrix × AlgoGen.FloydWarshall) _) = .ok (mk inf dm (iterI g.n m i)) ∧
      DInv inf (g.n * g.n) (iterI g.n m i) := by
  refine forLoop_foldOk (β := β) (ρ := AlgoGen.DistanceMatrix × AlgoGen.FloydWarshall) (mk inf dm)
    (AlgoGen.FloydWarshall.distances_for3 g inf g.n i) (rowJ g.n i) (RowOk inf g.n i) (DInv inf (g.n * g.n)) (List.range g.n)
    ?_ (List.range g.n) m (fun _ h => h) hm hok
  intro m j hj' hmi hrow
  have hj : j < g.n := List.mem_range.1 hj'
  have hji : j * g.n + i < m.length := by rw [hmi.len]; exact idx_lt hj hi
  unfold AlgoGen.FloydWarshall.distances_for3 rowJ
  simp only [mk, rd_enc _ inf m _ hji, ok_bind]
  have hb := getD_ne_inf inf (g.n * g.n) m hmi (j * g.n + i)
  cases hgji : get g.n m j i with
  | none =>
    have : m[j * g.n + i]?.getD none = none := hgji
    simp [this, hmi]
  | some a =>
    have hga : m[j * g.n + i]?.getD none = some a := hgji
    have hne : a ≠ inf := by
      have := hb.2 ⟨a, hga⟩
      rw [hga] at this; exact this
    obtain ⟨h1, h2⟩ := distances_for4_eq (β := AlgoGen.FloydWarshall) inf g.n dm i j a hi hj m hmi (hrow a hgji)
    simp only [mk] at h1
    simp only [hga, Option.getD_some, hne, if_false, bind_pure]
    exact ⟨h1, h2⟩

/-- `for i in vertices() { for j .. }` = the hand-written `loopTo`. -/
theorem distances_for2_eq {β : Type} (inf : Int) (dm : AlgoGen.DistanceMatrix) (g : WGraph) :
    ∀ (l : List Nat) (m : Mat), (∀ i ∈ l, i < g.n) → DInv inf (g.n * g.n) m → FoldOk (IterOk inf g.n) (iterI g.n) l m →
      (forLoop (AlgoGen.FloydWarshall.distances_for2 g inf g.n) l (mk inf dm m) :
          Blk β (AlgoGen.DistanceMatrix × AlgoGen.FloydWarshall) _) = .ok (mk inf dm (l.foldl (iterI g.n) m)) ∧
        DInv inf (g.n * g.n) (l.foldl (iterI g.n) m) := by
  intro l m hl hm hok
  refine forLoop_foldOk (β := β) (ρ := AlgoGen.DistanceMatrix × AlgoGen.FloydWarshall) (mk inf dm)
    (AlgoGen.FloydWarshall.distances_for2 g inf g.n) (iterI g.n) (IterOk inf g.n) (DInv inf (g.n * g.n)) l
    ?_ l m (fun _ h => h) hm hok
  intro m i hi' hmi hit
  obtain ⟨h1, h2⟩ := distances_for3_eq (β := AlgoGen.FloydWarshall) inf dm i g (hl i hi') m hmi hit
  unfold AlgoGen.FloydWarshall.distances_for2
  exact ⟨h1, h2⟩

/-- No sum of the whole call reaches the sentinel (along the hand-written execution). -/
def CallOk (inf : Int) (g : WGraph) (m : Mat) : Prop :=
  FoldOk (IterOk inf g.n) (iterI g.n) (List.range g.n) (zeroDiag g.n (setArcs g.n m (GraafVerif.Fw.arcsWeighted g)))

/-- `FloydWarshall::distances` (one call on an object whose matrix is `m`) = the hand-written
`Fw.call`: the returned `&DistanceMatrix` and the object afterwards. -/
theorem distances_eq (g : WGraph) (inf : Int) (hinf : inf ≠ 0) (dm : AlgoGen.DistanceMatrix) (m : Mat)
    (hwf : g.WF) (hw : ∀ u, ∀ vw ∈ g.out u, vw.2 ≠ inf) (hm : DInv inf (g.n * g.n) m) (hok : CallOk inf g m) :
    AlgoGen.FloydWarshall.distances g inf (mk inf dm m) =
      .ok ((mk inf dm (GraafVerif.Fw.call g m)).dist, mk inf dm (GraafVerif.Fw.call g m)) := by
  unfold AlgoGen.FloydWarshall.distances GraafVerif.Fw.call
  have harcs : arcsWeighted g = GraafVerif.Fw.arcsWeighted g := rfl
  have hA : ∀ a ∈ GraafVerif.Fw.arcsWeighted g, a.1 < g.n ∧ a.2.1 < g.n ∧ a.2.2 ≠ inf := by
    intro a ha
    unfold GraafVerif.Fw.arcsWeighted at ha
    simp only [List.mem_flatMap, List.mem_range, List.mem_map] at ha
    obtain ⟨u, hu, vw, hvw, rfl⟩ := ha
    exact ⟨hu, (hwf u vw.1 vw.2 hvw).2, hw u vw hvw⟩
  obtain ⟨h0, d0⟩ := distances_for0_eq inf g.n dm _ m hm hA
  obtain ⟨h1, d1⟩ := distances_for1_eq inf hinf g.n dm _ d0
  obtain ⟨h2, _⟩ := distances_for2_eq (β := Empty) inf dm g (List.range g.n) _ (fun i hi => List.mem_range.1 hi) d1 hok
  simp only [harcs, h0, ok_bind, h1, h2, pure_eq_ok, fnBody_ok, loopTo]

/-- On a freshly constructed object (`FloydWarshall::new`: every entry the sentinel) the call
computes the hand-written `Fw.distances g` — the matrix C08 is about. -/
theorem distances_fresh_eq (g : WGraph) (inf : Int) (hinf : inf ≠ 0) (dm : AlgoGen.DistanceMatrix)
    (hwf : g.WF) (hw : ∀ u, ∀ vw ∈ g.out u, vw.2 ≠ inf) (hok : CallOk inf g (List.replicate (g.n * g.n) none)) :
    AlgoGen.FloydWarshall.distances g inf ⟨{ dm with dist := List.replicate (g.n * g.n) inf }⟩ =
      .ok ((mk inf dm (GraafVerif.Fw.distances g)).dist, mk inf dm (GraafVerif.Fw.distances g)) := by
  have h := distances_eq g inf hinf dm (List.replicate (g.n * g.n) none) hwf hw
    ⟨by simp, fun x hx => by rw [List.eq_of_mem_replicate hx]; simp⟩ hok
  simp only [mk, encD_replicate] at h
  exact h

end FloydWarshall

end GraafVerif.AlgoGenThm
