import GraafVerif.Proof.LawsRep
/-!
# Laws — generators against predicates, operations and `size`

Counting lemmas on `List.range`, degrees and `size` of a digraph on `0..n` given by an arc
predicate, then — generic over a `Rep` bundle — what the predicates of C12 and the operations of
C11 say about the digraphs the generators of C14 return.
-/
namespace GraafVerif.Laws
open GraafVerif.Ops GraafVerif.Query GraafVerif.Pred GraafVerif.GenSpec GraafVerif.Gen

/-! ## counting on `0..n` -/

theorem filter_range_none (p : Nat → Bool) (n : Nat) (h : ∀ y, y < n → p y = false) :
    (List.range n).filter p = [] := by
  rw [List.filter_eq_nil_iff]
  intro y hy; rw [h y (List.mem_range.mp hy)]; simp

theorem filter_range_all (p : Nat → Bool) (n : Nat) (h : ∀ y, y < n → p y = true) :
    (List.range n).filter p = List.range n := by
  rw [List.filter_eq_self]
  intro y hy; exact h y (List.mem_range.mp hy)

theorem filter_range_unique (p : Nat → Bool) (n x : Nat) (hx : x < n) (h : ∀ y, y < n → (p y = true ↔ y = x)) :
    ((List.range n).filter p).length = 1 := by
  induction n with
  | zero => omega
  | succ n ih =>
    rw [List.range_succ, List.filter_append, List.length_append]
    by_cases hxn : x = n
    · subst hxn
      rw [filter_range_none p x (fun y hy => by
        have := h y (by omega)
        cases hp : p y
        · rfl
        · have := this.mp hp; omega)]
      have : p x = true := (h x (by omega)).mpr rfl
      simp [this]
    · rw [ih (by omega) (fun y hy => h y (by omega))]
      have : p n = false := by
        cases hp : p n
        · rfl
        · have := (h n (by omega)).mp hp; omega
      simp [this]

theorem filter_range_allbut (p : Nat → Bool) (n x : Nat) (hx : x < n) (h : ∀ y, y < n → (p y = true ↔ y ≠ x)) :
    ((List.range n).filter p).length = n - 1 := by
  induction n with
  | zero => omega
  | succ n ih =>
    rw [List.range_succ, List.filter_append, List.length_append]
    by_cases hxn : x = n
    · subst hxn
      rw [filter_range_all p x (fun y hy => (h y (by omega)).mpr (by omega))]
      have : p x = false := by
        cases hp : p x
        · rfl
        · exact absurd rfl ((h x (by omega)).mp hp)
      simp [this]
    · rw [ih (by omega) (fun y hy => h y (by omega))]
      have : p n = true := (h n (by omega)).mpr (by omega)
      simp [this]; omega

theorem filter_range_lt (N k : Nat) (hk : k ≤ N) : ((List.range N).filter (fun v => decide (v < k))).length = k := by
  induction N with
  | zero => have : k = 0 := by omega
            subst this; simp
  | succ N ih =>
    rw [List.range_succ, List.filter_append, List.length_append]
    by_cases h : k ≤ N
    · rw [ih h]
      have : decide (N < k) = false := by simp; omega
      simp [this]
    · have hk' : k = N + 1 := by omega
      subst hk'
      rw [filter_range_all _ N (fun y hy => by simp; omega)]
      simp

theorem filter_range_ge (N k : Nat) : ((List.range N).filter (fun v => decide (k ≤ v))).length = N - k := by
  induction N with
  | zero => simp
  | succ N ih =>
    rw [List.range_succ, List.filter_append, List.length_append, ih]
    by_cases h : k ≤ N
    · have : decide (k ≤ N) = true := by simp [h]
      simp [this]; omega
    · have : decide (k ≤ N) = false := by simp [h]
      simp [this]; omega

theorem filter_length_congr (p q : Nat → Bool) (n : Nat) (h : ∀ y, y < n → p y = q y) :
    ((List.range n).filter p).length = ((List.range n).filter q).length := by
  have : (List.range n).filter p = (List.range n).filter q :=
    List.filter_congr (fun y hy => h y (List.mem_range.mp hy))
  rw [this]

theorem sum_map_const {α : Type} (l : List α) (f : α → Nat) (k : Nat) (h : ∀ x ∈ l, f x = k) :
    (l.map f).sum = l.length * k := by
  induction l with
  | nil => simp
  | cons a as ih =>
    simp only [List.map_cons, List.sum_cons, List.length_cons]
    rw [h a (by simp), ih (fun x hx => h x (by simp [hx])), Nat.succ_mul]; omega

/-! ## degrees and size of a digraph on `0..n` -/

theorem outdeg_eq {G : Digraph} {n : Nat} (hv : G.verts = List.range n) (u : Nat) :
    Spec.outdegree G u = ((List.range n).filter (fun v => G.adj u v)).length := by
  simp [Spec.outdegree, Spec.outNeighbors, hv]
theorem indeg_eq {G : Digraph} {n : Nat} (hv : G.verts = List.range n) (v : Nat) :
    Spec.indegree G v = ((List.range n).filter (fun u => G.adj u v)).length := by
  simp [Spec.indegree, Spec.inNeighbors, hv]

theorem size_eq_sum (G : Digraph) : Spec.size G = (G.verts.map (Spec.outdegree G)).sum := by
  simp only [Spec.size, Spec.arcs, List.length_flatMap, List.length_map]
  rfl

/-- what the laws need of a generated digraph: vertex list `0..n`, arcs decided by `P` -/
structure IsGen (G : Digraph) (n : Nat) (P : Nat → Nat → Prop) : Prop where
  verts : G.verts = List.range n
  adj : ∀ u v, G.adj u v = true ↔ P u v

theorem adj_false {G : Digraph} {n : Nat} {P : Nat → Nat → Prop} (h : IsGen G n P) {u v : Nat} (hn : ¬ P u v) :
    G.adj u v = false := by
  cases hp : G.adj u v
  · rfl
  · exact (hn ((h.adj u v).mp hp)).elim

theorem regular_of_const {G : Digraph} {n k : Nat} (hv : G.verts = List.range n)
    (ho : ∀ u, u < n → Spec.outdegree G u = k) (hi : ∀ u, u < n → Spec.indegree G u = k) : Def.IsRegular G :=
  ⟨k, fun u hu => by rw [hv] at hu; exact ⟨hi u (List.mem_range.mp hu), ho u (List.mem_range.mp hu)⟩⟩

theorem size_of_const {G : Digraph} {n k : Nat} (hv : G.verts = List.range n)
    (ho : ∀ u, u < n → Spec.outdegree G u = k) : Spec.size G = n * k := by
  rw [size_eq_sum, sum_map_const _ _ k (fun u hu => by rw [hv] at hu; exact ho u (List.mem_range.mp hu)), hv,
    List.length_range]

/-! ### empty -/
theorem empty_deg {G : Digraph} {n : Nat} (h : IsGen G n (EmptyDef n)) (u : Nat) :
    Spec.outdegree G u = 0 ∧ Spec.indegree G u = 0 := by
  rw [outdeg_eq h.verts, indeg_eq h.verts,
    filter_range_none _ n (fun y _ => adj_false h (fun x => x)), filter_range_none _ n (fun y _ => adj_false h (fun x => x))]
  exact ⟨rfl, rfl⟩

/-! ### complete -/
theorem complete_deg {G : Digraph} {n : Nat} (h : IsGen G n (CompleteDef n)) (u : Nat) (hu : u < n) :
    Spec.outdegree G u = n - 1 ∧ Spec.indegree G u = n - 1 := by
  rw [outdeg_eq h.verts, indeg_eq h.verts]
  constructor
  · apply filter_range_allbut _ n u hu
    intro y hy; rw [h.adj]
    exact ⟨fun ⟨_, _, c⟩ => fun e => c e.symm, fun c => ⟨hu, hy, fun e => c e.symm⟩⟩
  · apply filter_range_allbut _ n u hu
    intro y hy; rw [h.adj]
    exact ⟨fun ⟨_, _, c⟩ => c, fun c => ⟨hy, hu, c⟩⟩

/-! ### circuit -/
theorem circuit_succ_iff {n u y : Nat} (hn : 2 ≤ n) (hu : u < n) (hy : y < n) :
    CircuitDef n u y ↔ y = (if u + 1 = n then 0 else u + 1) := by
  unfold CircuitDef
  by_cases h : u + 1 = n
  · rw [if_pos h, h, Nat.mod_self]; exact ⟨fun x => x.2.2, fun x => ⟨hn, hu, x⟩⟩
  · rw [if_neg h, Nat.mod_eq_of_lt (by omega)]; exact ⟨fun x => x.2.2, fun x => ⟨hn, hu, x⟩⟩

theorem circuit_pred_iff {n v y : Nat} (hn : 2 ≤ n) (hv : v < n) (hy : y < n) :
    CircuitDef n y v ↔ y = (if v = 0 then n - 1 else v - 1) := by
  rw [circuit_succ_iff hn hy hv]
  by_cases h : v = 0 <;> by_cases h' : y + 1 = n <;> simp [h, h'] <;> omega

theorem circuit_deg {G : Digraph} {n : Nat} (hn : 2 ≤ n) (h : IsGen G n (CircuitDef n)) (u : Nat) (hu : u < n) :
    Spec.outdegree G u = 1 ∧ Spec.indegree G u = 1 := by
  rw [outdeg_eq h.verts, indeg_eq h.verts]
  constructor
  · apply filter_range_unique _ n (if u + 1 = n then 0 else u + 1) (by split <;> omega)
    intro y hy; rw [h.adj]; exact circuit_succ_iff hn hu hy
  · apply filter_range_unique _ n (if u = 0 then n - 1 else u - 1) (by split <;> omega)
    intro y hy; rw [h.adj]; exact circuit_pred_iff hn hu hy

theorem circuit1_deg {G : Digraph} (h : IsGen G 1 (CircuitDef 1)) (u : Nat) :
    Spec.outdegree G u = 0 ∧ Spec.indegree G u = 0 := by
  have hno : ∀ a b, ¬ CircuitDef 1 a b := fun a b x => by have := x.1; omega
  rw [outdeg_eq h.verts, indeg_eq h.verts,
    filter_range_none _ 1 (fun y _ => adj_false h (hno _ _)), filter_range_none _ 1 (fun y _ => adj_false h (hno _ _))]
  exact ⟨rfl, rfl⟩

/-! ### path -/
theorem path_outdeg {G : Digraph} {n : Nat} (h : IsGen G n (PathDef n)) (u : Nat) (hu : u < n) :
    Spec.outdegree G u = if u + 1 < n then 1 else 0 := by
  rw [outdeg_eq h.verts]
  by_cases hl : u + 1 < n
  · rw [if_pos hl]
    apply filter_range_unique _ n (u + 1) hl
    intro y _; rw [h.adj]; exact ⟨fun x => x.2, fun x => ⟨hl, x⟩⟩
  · rw [if_neg hl, filter_range_none _ n (fun y _ => adj_false h (fun x => hl x.1))]; rfl

theorem path_size {G : Digraph} {n : Nat} (hn : 1 ≤ n) (h : IsGen G n (PathDef n)) : Spec.size G = n - 1 := by
  rw [size_eq_sum, h.verts]
  obtain ⟨k, rfl⟩ : ∃ k, n = k + 1 := ⟨n - 1, by omega⟩
  rw [List.range_succ, List.map_append, List.sum_append,
    sum_map_const _ _ 1 (fun u hu => by
      have := List.mem_range.mp hu
      rw [path_outdeg h u (by omega), if_pos (by omega)])]
  simp only [List.map_cons, List.map_nil, List.sum_cons, List.sum_nil, List.length_range]
  rw [path_outdeg h k (by omega), if_neg (by omega)]; omega

/-! ### biclique -/
theorem biclique_outdeg {G : Digraph} {m n : Nat} (h : IsGen G (m + n) (BicliqueDef m n)) (u : Nat) (hu : u < m + n) :
    Spec.outdegree G u = if u < m then n else m := by
  rw [outdeg_eq h.verts]
  by_cases hl : u < m
  · rw [if_pos hl, filter_length_congr _ (fun v => decide (m ≤ v)) (m + n) (fun y hy => by
      cases hp : G.adj u y
      · have : ¬ BicliqueDef m n u y := fun x => by rw [(h.adj u y).mpr x] at hp; cases hp
        unfold BicliqueDef at this
        simp; omega
      · have := (h.adj u y).mp hp
        unfold BicliqueDef at this
        simp; omega), filter_range_ge]
    omega
  · rw [if_neg hl, filter_length_congr _ (fun v => decide (v < m)) (m + n) (fun y hy => by
      cases hp : G.adj u y
      · have : ¬ BicliqueDef m n u y := fun x => by rw [(h.adj u y).mpr x] at hp; cases hp
        unfold BicliqueDef at this
        simp; omega
      · have := (h.adj u y).mp hp
        unfold BicliqueDef at this
        simp; omega), filter_range_lt _ _ (by omega)]

theorem biclique_size {G : Digraph} {m n : Nat} (h : IsGen G (m + n) (BicliqueDef m n)) : Spec.size G = 2 * m * n := by
  rw [size_eq_sum, h.verts, List.range_add, List.map_append, List.sum_append, List.map_map,
    sum_map_const _ _ n (fun u hu => by
      have := List.mem_range.mp hu
      rw [biclique_outdeg h u (by omega), if_pos this]),
    sum_map_const _ _ m (fun u hu => by
      have := List.mem_range.mp hu
      show Spec.outdegree G (m + u) = m
      rw [biclique_outdeg h (m + u) (by omega), if_neg (by omega)])]
  simp only [List.length_range]
  rw [Nat.mul_comm n m, Nat.mul_assoc]; omega

/-! ## generic over a bundle -/
namespace Rep
variable {R : Type} {M : Rep R}

theorem isGen_of {d : R} {n : Nat} {P : Nat → Nat → Prop} (ha : M.abs d = genDG n P)
    (hv : (M.dig d).verts = List.range n) : IsGen (M.dig d) n P :=
  ⟨hv, fun u v => by
    have : (M.abs d).A u v ↔ P u v := by rw [ha]; exact Iff.rfl
    exact this⟩

theorem size_eq {d : R} (h : M.WF d) : M.size d = Spec.size (M.dig d) := (M.core_ok d h).size

theorem conv_fix_of_symmetric {d : R} (h : M.WF d) (hs : DGP.Symmetric (M.abs d)) :
    M.isSymmetric d = true ∧ M.conv d = some d :=
  ⟨(symmetric_iff h).mpr hs, (symmetric_iff_converse h).mp ((symmetric_iff h).mpr hs)⟩

/-- `complete n`: complete, semicomplete, symmetric (so fixed by `converse`), regular, `n(n-1)` arcs -/
theorem gen_complete {n : Nat} (hn : 1 ≤ n) (hf : M.fits n) :
    ∃ k, M.fam.complete n = some k ∧ M.isComplete k = some true ∧ M.isSemicomplete k = some true ∧
      M.isSymmetric k = true ∧ M.conv k = some k ∧ M.isRegular k = some true ∧ M.size k = n * (n - 1) := by
  obtain ⟨k, e, hk, ak, vk⟩ := g_complete (M := M) hn hf
  have hg := isGen_of ak vk
  have hs := conv_fix_of_symmetric hk (by rw [ak]; exact complete_symmetric n)
  exact ⟨k, e, (complete_iff hk).mpr (by rw [ak]; exact complete_complete n),
    (semicomplete_iff hk).mpr (by rw [ak]; exact complete_semicomplete n), hs.1, hs.2,
    (regular_iff hk).mpr (regular_of_const vk (fun u hu => (complete_deg hg u hu).1) (fun u hu => (complete_deg hg u hu).2)),
    by rw [size_eq hk, size_of_const vk (fun u hu => (complete_deg hg u hu).1)]⟩

/-- `empty n`: no arcs, symmetric and oriented, fixed by `converse`, regular, size 0 -/
theorem gen_empty {n : Nat} (hn : 1 ≤ n) (hf : M.fits n) :
    ∃ e, M.fam.empty n = some e ∧ M.arcs e = [] ∧ M.isSymmetric e = true ∧ M.isOriented e = true ∧
      M.conv e = some e ∧ M.isRegular e = some true ∧ M.size e = 0 := by
  obtain ⟨k, e, hk, ak, vk⟩ := g_empty (M := M) hn hf
  have hg := isGen_of ak vk
  have hs := conv_fix_of_symmetric hk (by rw [ak]; exact empty_symmetric n)
  exact ⟨k, e, (arcs_nil_iff hk).mpr (by rw [ak]; exact fun _ _ x => x), hs.1,
    (oriented_iff hk).mpr (by rw [ak]; exact empty_oriented n), hs.2,
    (regular_iff hk).mpr (regular_of_const vk (fun u _ => (empty_deg hg u).1) (fun u _ => (empty_deg hg u).2)),
    by rw [size_eq hk, size_of_const vk (fun u _ => (empty_deg hg u).1), Nat.mul_zero]⟩

/-- `circuit n`: regular; oriented exactly when `n ≠ 2`; `n` arcs for `n ≥ 2`; its converse has the
reversed arcs, and `circuit n ∪ converse (circuit n) = cycle n` -/
theorem gen_circuit {n : Nat} (hn : 1 ≤ n) (hf : M.fits n) :
    ∃ c cc k, M.fam.circuit n = some c ∧ M.conv c = some cc ∧ M.fam.cycle n = some k ∧
      M.isRegular c = some true ∧ (M.isOriented c = true ↔ n ≠ 2) ∧ (2 ≤ n → M.size c = n) ∧
      (∀ u v, (u, v) ∈ M.arcs cc ↔ CircuitDef n v u) ∧ M.un c cc = some k ∧ M.un cc c = some k := by
  obtain ⟨c, e1, h1, a1, v1⟩ := g_circuit (M := M) hn hf
  obtain ⟨k, e2, h2, a2, _⟩ := g_cycle (M := M) hn hf
  obtain ⟨cc, e3, h3, a3⟩ := conv_spec h1
  obtain ⟨r, e4, h4, a4⟩ := un_spec h1 h3
  obtain ⟨r', e5, h5, a5⟩ := un_spec h3 h1
  have hg := isGen_of a1 v1
  have key : specUnion (M.abs c) (specConverse (M.abs c)) = M.abs k := by rw [a1, a2, circuit_union_converse]
  refine ⟨c, cc, k, e1, e3, e2, ?_, ?_, ?_, ?_, ?_, ?_⟩
  · rw [regular_iff h1]
    by_cases h2n : 2 ≤ n
    · exact regular_of_const v1 (fun u hu => (circuit_deg h2n hg u hu).1) (fun u hu => (circuit_deg h2n hg u hu).2)
    · have : n = 1 := by omega
      subst this
      exact regular_of_const v1 (fun u _ => (circuit1_deg hg u).1) (fun u _ => (circuit1_deg hg u).2)
  · rw [oriented_iff h1, a1]
    constructor
    · intro h e; subst e; exact circuit2_not_oriented h
    · exact circuit_oriented
  · intro h2n
    rw [size_eq h1, size_of_const v1 (fun u hu => (circuit_deg h2n hg u hu).1)]; omega
  · intro u v; rw [mem_arcs h3, a3, a1]; exact Iff.rfl
  · rw [e4, eq_of_abs h4 h2 (by rw [a4, a3, key])]
  · rw [e5, eq_of_abs h5 h2 (by rw [a5, a3, specUnion_comm, key])]

/-- `cycle n`: symmetric, fixed by `converse`, not oriented for `n ≥ 2` -/
theorem gen_cycle {n : Nat} (hn : 1 ≤ n) (hf : M.fits n) :
    ∃ k, M.fam.cycle n = some k ∧ M.isSymmetric k = true ∧ M.conv k = some k ∧ (2 ≤ n → M.isOriented k = false) := by
  obtain ⟨k, e, hk, ak, _⟩ := g_cycle (M := M) hn hf
  have hs := conv_fix_of_symmetric hk (by rw [ak]; exact cycle_symmetric n)
  refine ⟨k, e, hs.1, hs.2, fun h2 => ?_⟩
  cases ho : M.isOriented k
  · rfl
  · exact (cycle_not_oriented h2 (by rw [← ak]; exact (oriented_iff hk).mp ho)).elim

/-- `path n`: oriented, `n - 1` arcs; a spanning subdigraph of `circuit n`, which spans `cycle n`, which
spans `complete n` -/
theorem gen_path {n : Nat} (hn : 1 ≤ n) (hf : M.fits n) :
    ∃ p c y k, M.fam.path n = some p ∧ M.fam.circuit n = some c ∧ M.fam.cycle n = some y ∧ M.fam.complete n = some k ∧
      M.isOriented p = true ∧ M.size p = n - 1 ∧ M.isSpanningSubdigraph p c = true ∧
      M.isSpanningSubdigraph c y = true ∧ M.isSpanningSubdigraph y k = true ∧ M.isSubdigraph p k = true := by
  obtain ⟨p, e1, h1, a1, v1⟩ := g_path (M := M) hn hf
  obtain ⟨c, e2, h2, a2, _⟩ := g_circuit (M := M) hn hf
  obtain ⟨y, e3, h3, a3, _⟩ := g_cycle (M := M) hn hf
  obtain ⟨k, e4, h4, a4, _⟩ := g_complete (M := M) hn hf
  have s1 : M.isSpanningSubdigraph p c = true := (spanning_iff h1 h2).mpr (by
    rw [a1, a2]; exact ⟨fun _ => Iff.rfl, (path_sub_circuit n).2⟩)
  have s2 : M.isSpanningSubdigraph c y = true := (spanning_iff h2 h3).mpr (by
    rw [a2, a3]; exact ⟨fun _ => Iff.rfl, (circuit_sub_cycle n).2⟩)
  have s3 : M.isSpanningSubdigraph y k = true := (spanning_iff h3 h4).mpr (by
    rw [a3, a4]; refine ⟨fun _ => Iff.rfl, fun u v x => ?_⟩
    rcases x with x | x
    · exact circuitDef_bounds x
    · have := circuitDef_bounds x; exact ⟨this.2.1, this.1, fun e => this.2.2 e.symm⟩)
  refine ⟨p, c, y, k, e1, e2, e3, e4, (oriented_iff h1).mpr (by rw [a1]; exact path_oriented n),
    by rw [size_eq h1, path_size hn (isGen_of a1 v1)], s1, s2, s3, ?_⟩
  rw [sub_iff h1 h4]
  have t1 := (spanning_iff h1 h2).mp s1
  have t2 := (spanning_iff h2 h3).mp s2
  have t3 := (spanning_iff h3 h4).mp s3
  exact ⟨fun v x => (t3.1 v).mp ((t2.1 v).mp ((t1.1 v).mp x)), fun u v x => t3.2 u v (t2.2 u v (t1.2 u v x))⟩

/-- `star n`, `wheel n` (`n ≥ 4`): symmetric, fixed by `converse`; the star spans the wheel -/
theorem gen_star_wheel {n : Nat} (hn : 4 ≤ n) (hf : M.fits n) :
    ∃ s w, M.fam.star n = some s ∧ M.fam.wheel n = some w ∧ M.isSymmetric s = true ∧ M.conv s = some s ∧
      M.isSymmetric w = true ∧ M.conv w = some w ∧ M.isSpanningSubdigraph s w = true := by
  obtain ⟨s, e1, h1, a1, _⟩ := g_star (M := M) (show 1 ≤ n by omega) hf
  obtain ⟨w, e2, h2, a2, _⟩ := g_wheel (M := M) hn hf
  have s1 := conv_fix_of_symmetric h1 (by rw [a1]; exact star_symmetric n)
  have s2 := conv_fix_of_symmetric h2 (by rw [a2]; exact wheel_symmetric n)
  exact ⟨s, w, e1, e2, s1.1, s1.2, s2.1, s2.2, (spanning_iff h1 h2).mpr (by
    rw [a1, a2]; exact ⟨fun _ => Iff.rfl, (star_sub_wheel n).2⟩)⟩

/-- `star n` for every `n ≥ 1`: symmetric, fixed by `converse` -/
theorem gen_star {n : Nat} (hn : 1 ≤ n) (hf : M.fits n) :
    ∃ s, M.fam.star n = some s ∧ M.isSymmetric s = true ∧ M.conv s = some s := by
  obtain ⟨s, e1, h1, a1, _⟩ := g_star (M := M) hn hf
  have s1 := conv_fix_of_symmetric h1 (by rw [a1]; exact star_symmetric n)
  exact ⟨s, e1, s1.1, s1.2⟩

/-- `biclique m n`: symmetric, fixed by `converse`, `2mn` arcs; its union with its complement is
`complete (m + n)` (the repo's own test `union_biclique_complement_is_complete`, at every `m, n`) -/
theorem gen_biclique {m n : Nat} (hm : 1 ≤ m) (hn : 1 ≤ n) (hf : M.fits (m + n)) :
    ∃ b c k, M.fam.biclique m n = some b ∧ M.compl b = some c ∧ M.fam.complete (m + n) = some k ∧
      M.isSymmetric b = true ∧ M.conv b = some b ∧ M.size b = 2 * m * n ∧ M.un b c = some k := by
  obtain ⟨b, e1, h1, a1, v1⟩ := g_biclique (M := M) hm hn hf
  have s1 := conv_fix_of_symmetric h1 (by rw [a1]; exact biclique_symmetric m n)
  have hV : ∀ v, v ∈ M.vertices b ↔ v < m + n := fun v => by rw [vertices_eq h1, v1]; simp
  obtain ⟨c, k, e2, e3, e4, _⟩ := union_complement_complete h1 hV
  exact ⟨b, c, k, e1, e2, e3, s1.1, s1.2, by rw [size_eq h1, biclique_size (isGen_of a1 v1)], e4⟩

end Rep
end GraafVerif.Laws
