import GraafVerif.Model.QueryFast
/-!
# The `Array` twins of the `AdjacencyList` sequence models compute the same lists
(driver ↔ proved model, no hypotheses)
-/
namespace GraafVerif.Query.AL
open GraafVerif.Repr

theorem bumpA_toList (h : Array Nat) (v : Nat) : (bumpA h v).toList = bump h.toList v := by
  simp [bumpA, bump]

theorem foldl_bumpA_toList (row : List Nat) (h : Array Nat) : (row.foldl bumpA h).toList = row.foldl bump h.toList := by
  induction row generalizing h with
  | nil => rfl
  | cons v row ih => simp only [List.foldl_cons]; rw [ih, bumpA_toList]

theorem histogramA_toList (rows : List (List Nat)) (init : Array Nat) :
    (histogramA rows init).toList = histogram rows init.toList := by
  unfold histogramA histogram
  induction rows generalizing init with
  | nil => rfl
  | cons r rows ih => simp only [List.foldl_cons]; rw [ih, foldl_bumpA_toList]

/-- The driver's `degree_sequence` twin is the list model, for every digraph and thread count. -/
theorem degreeSequenceFast_eq (d : AdjList) (t : Nat) : degreeSequenceFast d t = degreeSequence d t := by
  unfold degreeSequenceFast degreeSequence
  simp only [histogramA_toList, Array.toList_replicate, List.getElem?_toArray]

theorem indegreeSequenceFast_eq (d : AdjList) : indegreeSequenceFast d = indegreeSequence d := by
  unfold indegreeSequenceFast indegreeSequence
  rw [histogramA_toList, Array.toList_replicate]

end GraafVerif.Query.AL
