import GraafVerif.Model.Johnson
/-!
# `unblock`: what a cascade can and cannot unblock

`Casc st u x`: `x` is reachable from `u` through B-list entries along blocked vertices — an
upper bound of what `unblock u` unblocks (`unblock_spec`).  Also the bookkeeping facts
(`blocked` and the B-lists only shrink, unblocked vertices end with an empty B-list).
-/
namespace GraafVerif.Johnson

theorem Bof_set (st : JState) (u : Nat) (l : List Nat) (y : Nat) :
    ({ st with B := st.B.set u l } : JState).Bof y = if y = u ∧ u < st.B.length then l else st.Bof y := by
  simp only [JState.Bof, List.getElem?_set]
  by_cases h : u = y
  · subst h
    by_cases h2 : u < st.B.length
    · simp [h2]
    · simp [h2]
  · have : ¬ y = u := fun e => h e.symm
    simp [h, this]

theorem Bof_blocked_irrel (st : JState) (bl : List Nat) (y : Nat) :
    ({ st with blocked := bl } : JState).Bof y = st.Bof y := rfl

inductive Casc (st : JState) (u : Nat) : Nat → Prop
  | refl : u ∈ st.blocked → Casc st u u
  | step {y x} : Casc st u y → x ∈ st.Bof y → x ∈ st.blocked → Casc st u x

theorem Casc.root_blocked {st : JState} {u x : Nat} (h : Casc st u x) : u ∈ st.blocked := by
  induction h with
  | refl h => exact h
  | step _ _ _ ih => exact ih

theorem Casc.end_blocked {st : JState} {u x : Nat} (h : Casc st u x) : x ∈ st.blocked := by
  cases h with
  | refl h => exact h
  | step _ _ h => exact h

theorem Casc.trans {st : JState} {u y x : Nat} (h1 : Casc st u y) (h2 : Casc st y x) : Casc st u x := by
  induction h2 with
  | refl _ => exact h1
  | step _ hb hx ih => exact Casc.step ih hb hx

theorem Casc.mono {st st' : JState} (hbl : ∀ x, x ∈ st'.blocked → x ∈ st.blocked)
    (hB : ∀ y x, x ∈ st'.Bof y → x ∈ st.Bof y) {u x : Nat} (h : Casc st' u x) : Casc st u x := by
  induction h with
  | refl h => exact Casc.refl (hbl _ h)
  | step _ hb hx ih => exact Casc.step ih (hB _ _ hb) (hbl _ hx)

/-- What one `unblock`-like call with root `u` guarantees. -/
structure USpec (st : JState) (u : Nat) (st' : JState) : Prop where
  stack : st'.stack = st.stack
  result : st'.result = st.result
  blen : st'.B.length = st.B.length
  bl : ∀ x, x ∈ st'.blocked → x ∈ st.blocked
  Bsub : ∀ y x, x ∈ st'.Bof y → x ∈ st.Bof y
  casc : ∀ x, x ∈ st.blocked → x ∉ st'.blocked → Casc st u x
  cleared : ∀ x, x ∈ st.blocked → x ∉ st'.blocked → st'.Bof x = []

/-- The same for a fold over a list of roots. -/
structure USpecL (st : JState) (l : List Nat) (st' : JState) : Prop where
  stack : st'.stack = st.stack
  result : st'.result = st.result
  blen : st'.B.length = st.B.length
  bl : ∀ x, x ∈ st'.blocked → x ∈ st.blocked
  Bsub : ∀ y x, x ∈ st'.Bof y → x ∈ st.Bof y
  casc : ∀ x, x ∈ st.blocked → x ∉ st'.blocked → ∃ v ∈ l, Casc st v x
  cleared : ∀ x, x ∈ st.blocked → x ∉ st'.blocked → st'.Bof x = []

theorem eq_nil_of_forall_mem {l : List Nat} (h : ∀ x, x ∈ l → x ∈ ([] : List Nat)) : l = [] := by
  cases l with
  | nil => rfl
  | cons a t => exact absurd (h a (by simp)) (by simp)

theorem uspec_fold (f : JState → Nat → JState) (hf : ∀ st v, USpec st v (f st v)) :
    ∀ (l : List Nat) (st : JState), USpecL st l (l.foldl f st)
  | [], st => ⟨rfl, rfl, rfl, fun _ h => h, fun _ _ h => h, fun x hx hnx => absurd hx hnx,
      fun x hx hnx => absurd hx hnx⟩
  | v :: l, st => by
    have h1 := hf st v
    have h2 := uspec_fold f hf l (f st v)
    simp only [List.foldl_cons]
    refine ⟨h2.stack.trans h1.stack, h2.result.trans h1.result, h2.blen.trans h1.blen,
      fun x hx => h1.bl x (h2.bl x hx), fun y x hx => h1.Bsub y x (h2.Bsub y x hx), ?_, ?_⟩
    · intro x hx hnx
      by_cases hm : x ∈ (f st v).blocked
      · obtain ⟨v', hv', hc⟩ := h2.casc x hm hnx
        exact ⟨v', List.mem_cons_of_mem _ hv', hc.mono h1.bl h1.Bsub⟩
      · exact ⟨v, by simp, h1.casc x hx hm⟩
    · intro x hx hnx
      by_cases hm : x ∈ (f st v).blocked
      · exact h2.cleared x hm hnx
      · have := h1.cleared x hx hm
        apply eq_nil_of_forall_mem
        intro z hz
        have := h2.Bsub x z hz
        simp_all

theorem unblock_spec : ∀ (fuel : Nat) (st : JState) (u : Nat), USpec st u (unblock fuel st u)
  | 0, st, u => ⟨rfl, rfl, rfl, fun _ h => h, fun _ _ h => h, fun x hx hnx => absurd hx hnx,
      fun x hx hnx => absurd hx hnx⟩
  | fuel+1, st, u => by
    unfold unblock
    split
    · rename_i hb
      have hub : u ∈ st.blocked := by simpa [JState.isBlocked] using hb
      have hL := uspec_fold (unblock fuel) (unblock_spec fuel) (st.Bof u)
        { st with blocked := st.blocked.filter (· != u), B := st.B.set u [] }
      have hmem : ∀ x, x ∈ st.blocked.filter (· != u) ↔ x ∈ st.blocked ∧ x ≠ u := by
        intro x; simp [List.mem_filter]
      have hBs : ∀ y x, x ∈ ({ st with blocked := st.blocked.filter (· != u), B := st.B.set u [] } : JState).Bof y →
          x ∈ st.Bof y := by
        intro y x hx
        have := Bof_set st u [] y
        simp only [JState.Bof] at this hx ⊢
        rw [this] at hx
        split at hx
        · simp at hx
        · exact hx
      have hBu : ({ st with blocked := st.blocked.filter (· != u), B := st.B.set u [] } : JState).Bof u = [] := by
        have := Bof_set st u [] u
        simp only [JState.Bof] at this ⊢
        rw [this]
        split
        · rfl
        · rename_i h
          simp at h
          simp [h]
      refine ⟨hL.stack, hL.result, by simpa using hL.blen, ?_, ?_, ?_, ?_⟩
      · intro x hx
        exact ((hmem x).1 (hL.bl x hx)).1
      · intro y x hx
        exact hBs y x (hL.Bsub y x hx)
      · intro x hx hnx
        by_cases hxu : x = u
        · subst hxu; exact Casc.refl hx
        · obtain ⟨v, hv, hc⟩ := hL.casc x ((hmem x).2 ⟨hx, hxu⟩) hnx
          have hc' : Casc st v x := hc.mono (fun z hz => ((hmem z).1 hz).1) hBs
          exact (Casc.step (Casc.refl hub) hv hc'.root_blocked).trans hc'
      · intro x hx hnx
        by_cases hxu : x = u
        · subst hxu
          apply eq_nil_of_forall_mem
          intro z hz
          have := hL.Bsub x z hz
          rw [hBu] at this
          exact this
        · exact hL.cleared x ((hmem x).2 ⟨hx, hxu⟩) hnx
    · exact ⟨rfl, rfl, rfl, fun _ h => h, fun _ _ h => h, fun x hx hnx => absurd hx hnx,
        fun x hx hnx => absurd hx hnx⟩

end GraafVerif.Johnson
