import GraafVerif.Proof.JohnsonTop
import GraafVerif.Proof.JohnsonComplete
/-!
# Completeness of the whole `circuits` loop, relative to what it needs from Tarjan

`TarjanCovers g`: for every start `s`, every component emitted by Tarjan on the subgraph induced
by the vertices `≥ s` that contains `s` also contains every vertex of every canonical circuit
starting at `s`.  `circuits_complete_of_tarjan` derives completeness of `circuits` from it.
-/
set_option linter.unusedVariables false
namespace GraafVerif.Johnson
open GraafVerif

def TarjanCovers (g : Graph) : Prop :=
  ∀ s, s < g.n → ∀ c ∈ tarjan ((AM.ofGraph g).filter (fun u => decide (s ≤ u))), s ∈ c →
    ∀ circ, IsCanonicalElemCircuit g circ → circ.head? = some s → ∀ x ∈ circ, x ∈ c

theorem minByKey_some_of_ne_nil : ∀ (cs : List (List Nat)), cs ≠ [] → ∃ m, minByKey cs = some m
  | [], h => absurd rfl h
  | c :: cs, _ => ⟨_, rfl⟩

/-- Round `s` is never skipped, and the component it works on has smallest vertex `s`. -/
theorem round_shape (g : Graph) (s : Nat) (hs : s < g.n) (st : JState) :
    ∃ minScc, minScc ∈ tarjan ((AM.ofGraph g).filter (fun u => decide (s ≤ u))) ∧ s ∈ minScc ∧
      (∀ x ∈ minScc, s ≤ x) ∧
      circuitsStep (AM.ofGraph g) st s =
        (circuit ((AM.ofGraph g).filter (fun u => minScc.contains u)) s ((AM.ofGraph g).order + 1)
          ((AM.ofGraph g).order + 1)
          (resetFor ((AM.ofGraph g).filter (fun u => minScc.contains u)).verts st) s).2 := by
  obtain ⟨rest, hrest⟩ := filter_range_head g.n s hs
  have htj := tarjan_facts ((AM.ofGraph g).filter (fun u => decide (s ≤ u))) (fun x => s ≤ x)
    (by
      intro u _ v hv
      simp only [AM.filter, AM.ofGraph] at hv
      split at hv
      · simp [List.mem_filter] at hv; exact hv.2
      · simp at hv)
    (by
      intro u hu
      simp only [AM.filter, AM.ofGraph, List.mem_filter] at hu
      simpa using hu.2)
    s rest (by simp only [AM.filter, AM.ofGraph]; exact hrest)
  unfold circuitsStep
  simp only []
  generalize tarjan ((AM.ofGraph g).filter (fun u => decide (s ≤ u))) = comps at htj ⊢
  obtain ⟨hcomps, cs, hcs, hscs⟩ := htj
  obtain ⟨minScc, hmin⟩ := minByKey_some_of_ne_nil comps (by intro e; rw [e] at hcs; simp at hcs)
  obtain ⟨hmem, hle⟩ := minByKey_spec comps minScc hmin
  have hP := hcomps minScc hmem
  rw [hmin]
  simp only []
  cases hhead : minScc.head? with
  | none =>
    cases minScc with
    | nil => exact absurd rfl hP.2.1
    | cons a t => simp at hhead
  | some start =>
    have hstart_mem : start ∈ minScc := List.mem_of_mem_head? hhead
    have h1 : s ≤ start := hP.2.2 start hstart_mem
    have h2 : start ≤ s := by
      have hcsP := hcomps cs hcs
      cases hch : cs.head? with
      | none =>
        cases cs with
        | nil => simp at hscs
        | cons a t => simp at hch
      | some h =>
        have hhs : h ≤ s := asc_head_le hcsP.1 hch s hscs
        have := hle cs hcs
        rw [hch, hhead] at this
        simp [keyLt] at this
        omega
    have hss : start = s := by omega
    subst hss
    have hord : ((AM.ofGraph g).filter (fun u => minScc.contains u)).order > 0 := by
      have : start ∈ ((AM.ofGraph g).filter (fun u => minScc.contains u)).verts := by
        simp [AM.filter, AM.ofGraph, List.mem_filter, hs, hstart_mem]
      exact List.length_pos_of_mem this
    refine ⟨minScc, hmem, hstart_mem, hP.2.2, ?_⟩
    simp only [hord, if_true]

theorem resetFor_spec2 : ∀ (vs : List Nat) (st : JState),
    (st.blocked.Nodup → (resetFor vs st).blocked.Nodup) ∧ (resetFor vs st).B.length = st.B.length
  | [], st => ⟨fun h => h, rfl⟩
  | v :: vs, st => by
    have ih := resetFor_spec2 vs { st with blocked := st.blocked.filter (· != v), B := st.B.set v [] }
    have e : resetFor (v :: vs) st =
        resetFor vs { st with blocked := st.blocked.filter (· != v), B := st.B.set v [] } := rfl
    rw [e]
    exact ⟨fun h => ih.1 (h.sublist List.filter_sublist), by rw [ih.2]; simp⟩

theorem isWalk_filter (g : Graph) (p : Nat → Bool) : ∀ (c : List Nat), IsWalk g c → (∀ x ∈ c, p x = true) →
    IsWalk ((AM.ofGraph g).filter p).gr c
  | [], _, _ => trivial
  | [_], _, _ => trivial
  | a :: b :: t, hw, hp => by
    refine ⟨?_, isWalk_filter g p (b :: t) hw.2 (fun x hx => hp x (by simp [hx]))⟩
    show b ∈ ((AM.ofGraph g).filter p).out a
    have ha := hp a (by simp)
    have hb := hp b (by simp)
    have hab : b ∈ g.out a := hw.1
    simp [AM.filter, AM.ofGraph, ha, List.mem_filter, hb, hab]

/-- Invariant between rounds (completeness part). -/
structure GInv2 (g : Graph) (st : JState) : Prop where
  ginv : GInv st
  bnd : st.blocked.Nodup
  blt : ∀ x ∈ st.blocked, x < g.n
  blen : st.B.length = g.n

theorem round_post2 (g : Graph) (hwf : g.WF) (hloops : NoLoops g) (hrows : RowsNodup g)
    (htc : TarjanCovers g) (s : Nat) (hs : s < g.n) (st : JState) (hst : GInv2 g st) :
    GInv2 g (circuitsStep (AM.ofGraph g) st s) ∧
    (∀ c ∈ st.result, c ∈ (circuitsStep (AM.ofGraph g) st s).result) ∧
    ∀ circ, IsCanonicalElemCircuit g circ → circ.head? = some s →
      circ ∈ (circuitsStep (AM.ofGraph g) st s).result := by
  obtain ⟨minScc, hmem, hsm, hge, hshape⟩ := round_shape g s hs st
  rw [hshape]
  have hcov := htc s hs minScc hmem hsm
  generalize hcomp : (AM.ofGraph g).filter (fun u => minScc.contains u) = comp
  have hcverts : ∀ x, x ∈ comp.verts ↔ x < g.n ∧ x ∈ minScc := by
    intro x; rw [← hcomp]; simp [AM.filter, AM.ofGraph, List.mem_filter]
  have hcout : ∀ u v, v ∈ comp.out u → v ∈ g.out u ∧ v ∈ minScc := by
    intro u v hv
    rw [← hcomp] at hv
    simp only [AM.filter, AM.ofGraph] at hv
    split at hv
    · simp [List.mem_filter] at hv; exact hv
    · simp at hv
  have hcout_nil : ∀ u, u ∉ minScc → comp.out u = [] := by
    intro u hu
    rw [← hcomp]
    simp [AM.filter, AM.ofGraph, hu]
  have hrow : ∀ u, (comp.out u).Nodup := by
    intro u
    rw [← hcomp]
    simp only [AM.filter, AM.ofGraph]
    split
    · exact (hrows u).sublist List.filter_sublist
    · simp
  have hclosed : ∀ u ∈ comp.verts, ∀ w ∈ comp.out u, w ∈ comp.verts := by
    intro u _ w hw
    have := hcout u w hw
    exact (hcverts w).2 ⟨(hwf u w this.1).2, this.2⟩
  have hR := resetFor_spec comp.verts st
  have hR2 := resetFor_spec2 comp.verts st
  have hsv : s ∈ comp.verts := (hcverts s).2 ⟨hs, hsm⟩
  have hinv0 : Inv comp (resetFor comp.verts st) := by
    refine ⟨hR.2.2.2 hst.ginv.i1, ?_, ?_, ?_, ?_⟩
    · intro l1 a l2 h; rw [hR.1, hst.ginv.stack] at h; simp at h
    · intro x hx; rw [hR.1, hst.ginv.stack] at hx; simp at hx
    · rw [hR.1, hst.ginv.stack]; simp
    · intro x hx; rw [hR.1, hst.ginv.stack] at hx; simp at hx
  have hinv20 : Inv2 comp s g.n (resetFor comp.verts st) := by
    refine ⟨?_, hR2.1 hst.bnd, fun x hx => hst.blt x (hR.2.2.1 x hx).1, by rw [hR2.2]; exact hst.blen⟩
    intro x hx _ w hw
    have hx' := hR.2.2.1 x hx
    have hxm : x ∉ minScc := fun hm => hx'.2 ((hcverts x).2 ⟨hst.blt x hx'.1, hm⟩)
    rw [hcout_nil x hxm] at hw
    simp at hw
  have hlen : comp.verts.length ≤ (AM.ofGraph g).order + 1 + (resetFor comp.verts st).stack.length := by
    rw [← hcomp]
    simp only [AM.filter, AM.ofGraph, AM.order]
    have := List.length_filter_le (fun u => minScc.contains u) (List.range g.n)
    omega
  have hnb : s ∉ (resetFor comp.verts st).blocked := fun hb => (hR.2.2.1 s hb).2 hsv
  have hw0 : IsWalk comp.gr ((resetFor comp.verts st).stack ++ [s]) := by
    rw [hR.1, hst.ginv.stack]; trivial
  have hord : (AM.ofGraph g).order = g.n := by simp [AM.ofGraph, AM.order]
  have hpost := circuit_post comp s ((AM.ofGraph g).order + 1) hrow hclosed
    ((AM.ofGraph g).order + 1) (resetFor comp.verts st) s hinv0 hnb hsv hw0 hlen
  have hpost2 := circuit_post2 comp s g.n ((AM.ofGraph g).order + 1) (by rw [hord]; omega) hrow hclosed
    (fun x hx => ((hcverts x).1 hx).1)
    ((AM.ofGraph g).order + 1) (resetFor comp.verts st) s hinv0 hinv20 hnb hsv hw0 hlen
  obtain ⟨new, hres, _, _⟩ := hpost.res
  refine ⟨⟨⟨hpost.inv.i1, by rw [hpost.stack, hR.1, hst.ginv.stack]⟩, hpost2.inv2.bnd, hpost2.inv2.blt,
    hpost2.inv2.blen⟩, ?_, ?_⟩
  · intro c hc
    rw [hres, hR.2.1]; simp [hc]
  · intro circ hcirc hhead
    obtain ⟨s', rest, rfl, hne, hnd, hwalk, hclose, hgt⟩ := hcirc
    simp at hhead
    subst hhead
    have hall := hcov (s' :: rest) ⟨s', rest, rfl, hne, hnd, hwalk, hclose, hgt⟩ rfl
    have hp : CPath comp s' (resetFor comp.verts st).stack s' rest := by
      refine ⟨?_, ?_, ?_, (List.nodup_cons.1 hnd).2⟩
      · rw [← hcomp]
        exact isWalk_filter g _ _ hwalk (fun x hx => by simpa using hall x hx)
      · have hlast : (s' :: rest).getLast (List.cons_ne_nil _ _) ∈ minScc :=
          hall _ (List.getLast_mem _)
        rw [← hcomp]
        have hA : s' ∈ g.out ((s' :: rest).getLast (List.cons_ne_nil _ _)) := hclose
        simp [AM.filter, AM.ofGraph, hlast, List.mem_filter, hA, hsm]
      · intro x hx
        have := hgt x hx
        rw [hR.1, hst.ginv.stack]
        exact ⟨by simp, by omega, by omega⟩
    have := hpost2.complete rest hp
    rw [hR.1, hst.ginv.stack] at this
    simpa using this

theorem circuits_complete_of_tarjan (g : Graph) (hwf : g.WF) (hloops : NoLoops g) (hrows : RowsNodup g)
    (htc : TarjanCovers g) :
    ∀ c, IsCanonicalElemCircuit g c → c ∈ circuits g := by
  intro c hc
  obtain ⟨s, rest, rfl, hne, hnd, hwalk, hclose, hgt⟩ := hc
  have hcan : IsCanonicalElemCircuit g (s :: rest) := ⟨s, rest, rfl, hne, hnd, hwalk, hclose, hgt⟩
  have hsn : s < g.n := by
    cases rest with
    | nil => exact absurd rfl hne
    | cons a t => exact (hwf s a hwalk.1).1
  have key : ∀ (ss : List Nat) (st : JState), (∀ x ∈ ss, x < g.n) → GInv2 g st →
      (s ∈ ss ∨ (s :: rest) ∈ st.result) →
      (s :: rest) ∈ (ss.foldl (circuitsStep (AM.ofGraph g)) st).result := by
    intro ss
    induction ss with
    | nil =>
      intro st _ _ h
      rcases h with h | h
      · simp at h
      · exact h
    | cons x ss ih =>
      intro st hlt hst h
      simp only [List.foldl_cons]
      have hr := round_post2 g hwf hloops hrows htc x (hlt x (by simp)) st hst
      apply ih _ (fun y hy => hlt y (by simp [hy])) hr.1
      rcases h with h | h
      · rcases List.mem_cons.1 h with rfl | h
        · exact Or.inr (hr.2.2 _ hcan rfl)
        · exact Or.inl h
      · exact Or.inr (hr.2.1 _ h)
  unfold circuits circuitsAM
  apply key _ _ (fun x hx => List.mem_range.1 hx)
  · refine ⟨⟨fun y _ => by simp only [JState.Bof, List.getElem?_replicate]; split <;> rfl, rfl⟩,
      by simp, by simp, by simp [AM.ofGraph, AM.order]⟩
  · exact Or.inl (List.mem_range.2 hsn)

end GraafVerif.Johnson
