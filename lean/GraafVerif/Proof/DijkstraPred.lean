import GraafVerif.Proof.DijkstraMain
import GraafVerif.Spec.Dijkstra
/-!
# `DijkstraPred`: the predecessor tree and `shortest_path`
-/
namespace GraafVerif.Dijkstra
open GraafVerif

variable {g : WGraph} {S : List Nat}

/-! ### walks as vertex lists -/

theorem PathW.snoc {l : List Nat} {wt : Int} (h : PathW g l wt) :
    ∀ {u v : Nat} {w : Int}, l.getLast? = some u → g.A u v w → PathW g (l ++ [v]) (wt + w) := by
  induction h with
  | single u0 =>
    intro u v w hl ha
    simp at hl
    subst hl
    have : (0 : Int) + w = w + 0 := by omega
    rw [this]
    exact PathW.cons ha (PathW.single v)
  | @cons a b rest w' wt' ha' _ ih =>
    intro u v w hl ha
    have hl' : (b :: rest).getLast? = some u := by simpa [List.getLast?_cons_cons] using hl
    have := ih hl' ha
    have e : w' + wt' + w = w' + (wt' + w) := by omega
    rw [e]
    exact PathW.cons ha' this

/-! ### predecessor chains inside an emitted prefix `P` -/

/-- `Chain g S P c d`: `c = [v, pred v, pred (pred v), …, s]` follows the recorded predecessors of
entries of `P` down to an entry without predecessor, whose vertex is a source; the vertices are
distinct; `d` is the total weight of the arcs used. -/
inductive Chain (g : WGraph) (S : List Nat) (P : List Entry) : List Nat → Int → Prop
  | root {e : Entry} : e ∈ P → e.p = none → e.v ∈ S → Chain g S P [e.v] 0
  | link {e : Entry} {u : Nat} {c : List Nat} {d w : Int} :
      e ∈ P → e.p = some u → Chain g S P (u :: c) d → (e.v, w) ∈ g.out u → e.v ∉ u :: c →
      Chain g S P (e.v :: u :: c) (d + w)

theorem Chain.mono {P P' : List Entry} (hsub : ∀ e ∈ P, e ∈ P') {c : List Nat} {d : Int}
    (h : Chain g S P c d) : Chain g S P' c d := by
  induction h with
  | root he hp hs => exact Chain.root (hsub _ he) hp hs
  | link he hp _ ha hn ih => exact Chain.link (hsub _ he) hp ih ha hn

theorem Chain.mem {P : List Entry} {c : List Nat} {d : Int} (h : Chain g S P c d) :
    ∀ x ∈ c, x ∈ P.map (·.v) := by
  induction h with
  | root he _ _ =>
    intro x hx; simp only [List.mem_singleton] at hx; rw [hx]; exact List.mem_map.mpr ⟨_, he, rfl⟩
  | link he _ _ _ _ ih =>
    intro x hx
    rcases List.mem_cons.mp hx with hx | hx
    · rw [hx]; exact List.mem_map.mpr ⟨_, he, rfl⟩
    · exact ih x hx

theorem Chain.nodup {P : List Entry} {c : List Nat} {d : Int} (h : Chain g S P c d) : c.Nodup := by
  induction h with
  | root _ _ _ => simp
  | link _ _ _ _ hn ih => exact List.nodup_cons.mpr ⟨hn, ih⟩

theorem Chain.last {P : List Entry} {c : List Nat} {d : Int} (h : Chain g S P c d) :
    ∃ s ∈ S, c.getLast? = some s := by
  induction h with
  | root _ _ hs => exact ⟨_, hs, by simp⟩
  | link _ _ _ _ _ ih =>
    obtain ⟨s, hs, hl⟩ := ih
    exact ⟨s, hs, by rw [List.getLast?_cons_cons]; exact hl⟩

theorem Chain.pathW {P : List Entry} {c : List Nat} {d : Int} (h : Chain g S P c d) :
    PathW g c.reverse d := by
  induction h with
  | root _ _ _ => simpa using PathW.single _
  | @link e u c d w _ _ _ ha _ ih =>
    have hl : (u :: c).reverse.getLast? = some u := by simp
    have := PathW.snoc ih hl ha
    simpa using this

/-- Every emitted entry heads a chain inside the prefix that ends with it, of weight its key. -/
theorem chain_exists {out : List Entry} (ok : OutOK g S out)
    (hsome : ∀ e ∈ out, ∀ u, e.p = some u →
      ∃ eu ∈ out, eu.v = u ∧ ∃ w, (e.v, w) ∈ g.out u ∧ e.d = eu.d + w)
    (hnone : ∀ e ∈ out, e.p = none → e.v ∈ S ∧ e.d = 0) :
    ∀ (n : Nat) (pre : List Entry) (e : Entry) (post : List Entry), pre.length = n →
      out = pre ++ e :: post → ∃ c, Chain g S (pre ++ [e]) (e.v :: c) e.d := by
  intro n
  induction n using Nat.strongRecOn with
  | _ n ih =>
    intro pre e post hlen hsplit
    have he : e ∈ out := by rw [hsplit]; simp
    have hpre : ∀ b ∈ pre, b ∈ out := by intro b hb; rw [hsplit]; simp [hb]
    have hnd := ok.nodup
    rw [hsplit, List.map_append, List.map_cons] at hnd
    have hev : e.v ∉ pre.map (·.v) := by
      intro hm
      exact (List.nodup_append.mp hnd).2.2 _ hm e.v (by simp) rfl
    cases hp : e.p with
    | none =>
      obtain ⟨h1, h2⟩ := hnone e he hp
      exact ⟨[], by rw [h2]; exact Chain.root (by simp) hp h1⟩
    | some u =>
      obtain ⟨eu, heu, heuv, w, harc, hd⟩ := hsome e he u hp
      obtain ⟨eu', heu', heuv'⟩ := ok.predBefore pre e post hsplit u hp
      have heq : eu' = eu := eq_of_nodup_map (·.v) out ok.nodup (hpre _ heu') heu (heuv'.trans heuv.symm)
      subst heq
      obtain ⟨pre', post', hpre'⟩ := List.append_of_mem heu'
      have hsplit' : out = pre' ++ eu' :: (post' ++ e :: post) := by rw [hsplit, hpre']; simp
      have hlt : pre'.length < n := by rw [← hlen, hpre']; simp
      obtain ⟨cu, hcu⟩ := ih pre'.length hlt pre' eu' (post' ++ e :: post) rfl hsplit'
      have hsub : ∀ b ∈ pre' ++ [eu'], b ∈ pre ++ [e] := by
        intro b hb; rw [hpre']; simp at hb ⊢; rcases hb with hb | hb <;> simp [hb]
      have hsub2 : ∀ x ∈ eu'.v :: cu, x ∈ pre.map (·.v) := by
        intro x hx
        obtain ⟨b, hb, hbv⟩ := List.mem_map.mp (hcu.mem x hx)
        refine List.mem_map.mpr ⟨b, ?_, hbv⟩
        rw [hpre']; simp at hb ⊢; rcases hb with hb | hb <;> simp [hb]
      have hnot : e.v ∉ eu'.v :: cu := fun h => hev (hsub2 _ h)
      refine ⟨eu'.v :: cu, ?_⟩
      rw [hd]
      refine Chain.link (by simp) (by rw [hp, heuv']) (hcu.mono hsub) ?_ hnot
      rw [heuv']; exact harc

/-! ### the tree built from a prefix -/

/-- `PredecessorTree::new(n)` with `pred[v] = p` written for every entry of `P` in order. -/
def treeOf (n : Nat) (P : List Entry) : PredTree.Pred :=
  (P.map (fun e => (e.p, e.v))).foldl (fun acc it => acc.set it.2 it.1) (List.replicate n none)

theorem treeOf_length (n : Nat) (P : List Entry) : (treeOf n P).length = n := by
  unfold treeOf
  rw [foldl_set_length (fun it : Option Nat × Nat => it.2) (fun it => it.1)]
  simp

theorem treeOf_get {n : Nat} {P : List Entry} (hnd : (P.map (·.v)).Nodup) (hlt : ∀ e ∈ P, e.v < n)
    {e : Entry} (he : e ∈ P) : (treeOf n P)[e.v]? = some e.p := by
  unfold treeOf
  have hnd' : ((P.map (fun e => (e.p, e.v))).map (fun it : Option Nat × Nat => it.2)).Nodup := by
    rw [List.map_map]; exact hnd
  exact foldl_set_mem (fun it : Option Nat × Nat => it.2) (fun it => it.1) _ _ (e.p, e.v) hnd'
    (List.mem_map.mpr ⟨e, he, rfl⟩) (by simpa using hlt e he)

theorem treeOf_not_mem {n : Nat} {P : List Entry} {v : Nat} (hv : v < n) (hno : v ∉ P.map (·.v)) :
    (treeOf n P)[v]? = some none := by
  unfold treeOf
  rw [foldl_set_not_mem (fun it : Option Nat × Nat => it.2) (fun it => it.1) _ _ v
    (by rw [List.map_map]; exact hno)]
  simp [hv]

/-! ### `search_by(v, |_, b| b.is_none())` on such a tree returns the chain -/

theorem loop_chain {T : PredTree.Pred} {P : List Entry} (hT : ∀ e ∈ P, T[e.v]? = some e.p) :
    ∀ (rest : List Nat) (x : Nat) (d : Int), Chain g S P (x :: rest) d →
      ∀ (fuel : Nat) (visited : List Bool) (path : List Nat), rest.length < fuel →
        (∀ y ∈ rest, visited[y]? = some false) →
        PredTree.loop T (fun _ b => b.isNone) fuel x visited path = some (path ++ rest) := by
  intro rest
  induction rest with
  | nil =>
    intro x d hc fuel visited path hf _
    cases hc with
    | root he hp _ =>
      cases fuel with
      | zero => omega
      | succ f =>
        unfold PredTree.loop
        simp [hT _ he, hp]
  | cons y rest ih =>
    intro x d hc fuel visited path hf hvis
    cases hc with
    | @link e _ _ _ _ he hp hc' _ hnot =>
      cases fuel with
      | zero => omega
      | succ f =>
        have hne : y ≠ e.v := fun h => hnot (by rw [← h]; simp)
        have hnd := hc'.nodup
        have hvis' : ∀ z ∈ rest, (visited.set y true)[z]? = some false := by
          intro z hz
          have hzy : y ≠ z := by
            intro h; rw [← h] at hz; exact (List.nodup_cons.mp hnd).1 hz
          rw [List.getElem?_set_ne hzy]; exact hvis z (List.mem_cons_of_mem _ hz)
        have := ih y _ hc' f (visited.set y true) (path ++ [y]) (by simp at hf; omega) hvis'
        unfold PredTree.loop
        simp [hT _ he, hp, hvis y (by simp), hne, this]

theorem searchBy_chain {T : PredTree.Pred} {P : List Entry} {n : Nat} (hT : ∀ e ∈ P, T[e.v]? = some e.p)
    (hlen : T.length = n) (hlt : ∀ e ∈ P, e.v < n)
    {x : Nat} {rest : List Nat} {d : Int} (hc : Chain g S P (x :: rest) d) :
    PredTree.searchBy T x (fun _ b => b.isNone) = .ret (some (x :: rest)) := by
  have hmemlt : ∀ y ∈ x :: rest, y < n := by
    intro y hy
    obtain ⟨b, hb, hbv⟩ := List.mem_map.mp (hc.mem y hy)
    rw [← hbv]; exact hlt b hb
  have hlenle : (x :: rest).length ≤ n := by
    have hsub : (x :: rest) ⊆ List.range n := fun y hy => List.mem_range.mpr (hmemlt y hy)
    simpa using hc.nodup.length_le_of_subset hsub
  unfold PredTree.searchBy PredTree.searchByFuel
  cases hc with
  | root he hp _ => simp [hT _ he, hp]
  | @link e _ _ _ _ he hp hc' ha hnot =>
    have hloop := loop_chain hT _ _ _ (Chain.link he hp hc' ha hnot) (T.length + 2)
      (List.replicate T.length false) [e.v] (by simp at hlenle ⊢; omega)
      (by
        intro y hy
        have := hmemlt y (List.mem_cons_of_mem _ hy)
        simp [hlen, this])
    simp [hT _ he, hp, hloop]

/-! ### the `shortest_path` loop -/

theorem spLoop_none (isT : Nat → Bool) :
    ∀ (items : List (Option Nat × Nat)) (pred : PredTree.Pred), (∀ it ∈ items, isT it.2 = false) →
      spLoop isT items pred = .ret none := by
  intro items
  induction items with
  | nil => intro _ _; rfl
  | cons a items ih =>
    intro pred h
    obtain ⟨p, v⟩ := a
    have hv : isT v = false := h (p, v) (by simp)
    simp only [spLoop, hv]
    exact ih _ (fun it hit => h it (List.mem_cons_of_mem _ hit))

theorem spLoop_hit (isT : Nat → Bool) :
    ∀ (pre : List (Option Nat × Nat)) (pred : PredTree.Pred) (p : Option Nat) (v : Nat)
      (post : List (Option Nat × Nat)), (∀ it ∈ pre, isT it.2 = false) → isT v = true →
      spLoop isT (pre ++ (p, v) :: post) pred =
        resMap List.reverse (PredTree.searchBy
          ((pre ++ [(p, v)]).foldl (fun acc it => acc.set it.2 it.1) pred) v (fun _ b => b.isNone)) := by
  intro pre
  induction pre with
  | nil => intro pred p v post _ hv; simp [spLoop, hv]
  | cons a pre ih =>
    intro pred p v post h hv
    obtain ⟨q, x⟩ := a
    have hx : isT x = false := h (q, x) (by simp)
    simp only [List.cons_append, spLoop, hx, List.foldl_cons]
    exact ih _ p v post (fun it hit => h it (List.mem_cons_of_mem _ hit)) hv

/-! ### assembled facts about the complete `DijkstraPred` run -/

/-- The facts about `entries g some S` used below. -/
theorem predEntries_facts (h : Hyp g S) :
    let out := entries g some S
    OutOK g S out ∧
    (∀ e ∈ out, ∀ u, e.p = some u → ∃ eu ∈ out, eu.v = u ∧ ∃ w, (e.v, w) ∈ g.out u ∧ e.d = eu.d + w) ∧
    (∀ e ∈ out, e.p = none → e.v ∈ S ∧ e.d = 0) ∧
    (∀ e ∈ out, e.v ∈ S → e.p = none) ∧
    (∀ e ∈ out, e.v < g.n) := by
  obtain ⟨ok, ⟨st', inv, hh⟩, _⟩ := entries_spec (tag := some) h tagOK_some
  have hmem : ∀ e ∈ entries g some S, e ∈ st'.heap ++ entries g some S := fun e he =>
    List.mem_append_right _ he
  refine ⟨ok, ?_, ?_, ?_, ?_⟩
  · intro e he u hu; exact inv.predSome e (hmem e he) u hu
  · intro e he hp; exact inv.predNone (by intro u; simp) e (hmem e he) hp
  · intro e he hs; exact inv.srcNone e (hmem e he) hs
  · intro e he
    have := dOf_some_lt (inv.final e he)
    rw [inv.len] at this; exact this

theorem predecessors_eq_treeOf (g : WGraph) (S : List Nat) :
    predecessors g S = treeOf g.n (entries g some S) := by
  simp [predecessors, predecessorsOf, treeOf, dijkstraPred]

theorem shortestPath_eq (g : WGraph) (S : List Nat) (isT : Nat → Bool) :
    shortestPath g S isT =
      spLoop isT ((entries g some S).map (fun e => (e.p, e.v))) (List.replicate g.n none) := rfl


theorem exists_first {α : Type} (P : α → Bool) :
    ∀ l : List α, (∃ a ∈ l, P a = true) →
      ∃ pre a post, l = pre ++ a :: post ∧ (∀ b ∈ pre, P b = false) ∧ P a = true := by
  intro l
  induction l with
  | nil => rintro ⟨a, ha, _⟩; simp at ha
  | cons x l ih =>
    intro hex
    by_cases hx : P x = true
    · exact ⟨[], x, l, rfl, by simp, hx⟩
    · have hx' : P x = false := by simpa using hx
      have : ∃ a ∈ l, P a = true := by
        obtain ⟨a, ha, hpa⟩ := hex
        rcases List.mem_cons.mp ha with rfl | ha
        · exact absurd hpa hx
        · exact ⟨a, ha, hpa⟩
      obtain ⟨pre, a, post, h1, h2, h3⟩ := ih this
      refine ⟨x :: pre, a, post, by simp [h1], ?_, h3⟩
      intro b hb
      rcases List.mem_cons.mp hb with rfl | hb
      · exact hx'
      · exact h2 b hb

/-- `predecessors()`: sources and unreachable vertices have no predecessor; every other
reachable vertex has a predecessor joined to it by a tight arc. -/
theorem predecessors_spec (h : Hyp g S) :
    (predecessors g S).length = g.n ∧
    (∀ v, v < g.n → (v ∈ S ∨ ¬ WReachFrom g S v) → (predecessors g S)[v]? = some none) ∧
    (∀ v, v < g.n → v ∉ S → WReachFrom g S v → ∃ u w du dv,
      (predecessors g S)[v]? = some (some u) ∧ g.A u v w ∧
      IsMinDist g S u du ∧ IsMinDist g S v dv ∧ du + w = dv) := by
  obtain ⟨ok, hsome, hnone, hsrc, hlt⟩ := predEntries_facts h
  have hmin := entries_min h tagOK_some
  rw [predecessors_eq_treeOf]
  refine ⟨treeOf_length _ _, ?_, ?_⟩
  · intro v hv hcase
    by_cases hm : v ∈ (entries g some S).map (·.v)
    · obtain ⟨e, he, hev⟩ := List.mem_map.mp hm
      have hev : e.v = v := hev
      rcases hcase with hs | hnr
      · rw [← hev, treeOf_get ok.nodup hlt he, hsrc e he (hev ▸ hs)]
      · exact absurd ((entries_mem_iff h tagOK_some v).mp hm) hnr
    · exact treeOf_not_mem hv hm
  · intro v hv hns hr
    obtain ⟨e, he, hev⟩ := List.mem_map.mp ((entries_mem_iff h tagOK_some v).mpr hr)
    have hev : e.v = v := hev
    cases hp : e.p with
    | none => exact absurd (hev ▸ (hnone e he hp).1) hns
    | some u =>
      obtain ⟨eu, heu, heuv, w, harc, hd⟩ := hsome e he u hp
      refine ⟨u, w, eu.d, e.d, ?_, ?_, ?_, ?_, hd.symm⟩
      · rw [← hev, treeOf_get ok.nodup hlt he, hp]
      · rw [← hev]; exact harc
      · rw [← heuv]; exact hmin eu heu
      · rw [← hev]; exact hmin e he

/-- Following the predecessors from a reachable `v` (with the search `shortest_path` uses) ends at a
source; read backwards it is a walk from that source to `v` of minimum weight. -/
theorem pred_chain_spec (h : Hyp g S) :
    ∀ v, WReachFrom g S v → ∃ p d,
      PredTree.searchBy (predecessors g S) v (fun _ b => b.isNone) = .ret (some p) ∧
      p.head? = some v ∧ (∃ s ∈ S, p.getLast? = some s) ∧ PathW g p.reverse d ∧ IsMinDist g S v d := by
  obtain ⟨ok, hsome, hnone, _, hlt⟩ := predEntries_facts h
  intro v hr
  obtain ⟨e, he, hev⟩ := List.mem_map.mp ((entries_mem_iff h tagOK_some v).mpr hr)
  have hev : e.v = v := hev
  obtain ⟨pre, post, hsplit⟩ := List.append_of_mem he
  obtain ⟨c, hc⟩ := chain_exists ok hsome hnone pre.length pre e post rfl hsplit
  have hc' : Chain g S (entries g some S) (e.v :: c) e.d :=
    hc.mono (by intro b hb; rw [hsplit]; simp at hb ⊢; rcases hb with hb | hb <;> simp [hb])
  have hsb := searchBy_chain (T := treeOf g.n (entries g some S)) (fun b hb => treeOf_get ok.nodup hlt hb)
    (treeOf_length _ _) hlt hc'
  refine ⟨e.v :: c, e.d, ?_, by simp [hev], hc'.last, hc'.pathW, ?_⟩
  · rw [predecessors_eq_treeOf, ← hev]; exact hsb
  · rw [← hev]; exact entries_min h tagOK_some e he

/-- `shortest_path(is_target)`. -/
theorem shortestPath_spec (h : Hyp g S) (isT : Nat → Bool) :
    ((¬ ∃ v, WReachFrom g S v ∧ isT v = true) → shortestPath g S isT = .ret none) ∧
    ((∃ v, WReachFrom g S v ∧ isT v = true) → ∃ p t d,
      shortestPath g S isT = .ret (some p) ∧
      (∃ s ∈ S, p.head? = some s) ∧ p.getLast? = some t ∧ isT t = true ∧
      PathW g p d ∧ IsMinDist g S t d ∧
      ∀ t' d', isT t' = true → IsMinDist g S t' d' → d ≤ d') := by
  obtain ⟨ok, hsome, hnone, _, hlt⟩ := predEntries_facts h
  have hmin := entries_min h tagOK_some
  have hmemiff := entries_mem_iff (tag := some) h tagOK_some
  rw [shortestPath_eq]
  constructor
  · intro hno
    apply spLoop_none
    intro it hit
    obtain ⟨e, he, rfl⟩ := List.mem_map.mp hit
    cases hT : isT e.v with
    | false => rfl
    | true => exact absurd ⟨e.v, (hmemiff e.v).mp (List.mem_map.mpr ⟨e, he, rfl⟩), hT⟩ hno
  · rintro ⟨v, hr, hvT⟩
    obtain ⟨e0, he0, hev0⟩ := List.mem_map.mp ((hmemiff v).mpr hr)
    have hev0 : e0.v = v := hev0
    obtain ⟨pre, e, post, hsplit, hpre, heT⟩ :=
      exists_first (fun e : Entry => isT e.v) (entries g some S) ⟨e0, he0, by rw [hev0]; exact hvT⟩
    have he : e ∈ entries g some S := by rw [hsplit]; simp
    obtain ⟨c, hc⟩ := chain_exists ok hsome hnone pre.length pre e post rfl hsplit
    have hsubP : ∀ b ∈ pre ++ [e], b ∈ entries g some S := by
      intro b hb; rw [hsplit]; simp at hb ⊢; rcases hb with hb | hb <;> simp [hb]
    have hndP : ((pre ++ [e]).map (·.v)).Nodup := by
      have hnd := ok.nodup
      have : entries g some S = (pre ++ [e]) ++ post := by rw [hsplit]; simp
      rw [this, List.map_append] at hnd
      exact (List.nodup_append.mp hnd).1
    have hltP : ∀ b ∈ pre ++ [e], b.v < g.n := fun b hb => hlt b (hsubP b hb)
    have hsb := searchBy_chain (T := treeOf g.n (pre ++ [e])) (fun b hb => treeOf_get hndP hltP hb)
      (treeOf_length _ _) hltP hc
    have hloop := spLoop_hit isT (pre.map (fun e => (e.p, e.v))) (List.replicate g.n none) e.p e.v
      (post.map (fun e => (e.p, e.v)))
      (by
        intro it hit
        obtain ⟨b, hb, rfl⟩ := List.mem_map.mp hit
        exact hpre b hb)
      heT
    have hitems : (entries g some S).map (fun e => (e.p, e.v)) =
        pre.map (fun e => (e.p, e.v)) ++ (e.p, e.v) :: post.map (fun e => (e.p, e.v)) := by
      rw [hsplit]; simp
    have htree : (pre.map (fun e => (e.p, e.v)) ++ [(e.p, e.v)]).foldl
        (fun acc (it : Option Nat × Nat) => acc.set it.2 it.1) (List.replicate g.n none) = treeOf g.n (pre ++ [e]) := by
      simp [treeOf]
    rw [hitems, hloop, htree, hsb]
    refine ⟨(e.v :: c).reverse, e.v, e.d, rfl, ?_, by simp, heT, hc.pathW, hmin e he, ?_⟩
    · obtain ⟨s, hs, hl⟩ := hc.last
      exact ⟨s, hs, by rw [List.head?_reverse]; exact hl⟩
    · intro t' d' ht' hmd'
      obtain ⟨s, hs, k, hk⟩ := hmd'.1
      obtain ⟨e', he', hev'⟩ := List.mem_map.mp ((hmemiff t').mpr ⟨s, hs, k, d', hk⟩)
      have hev' : e'.v = t' := hev'
      have hd' : e'.d = d' := by
        have := hmin e' he'
        rw [hev'] at this
        exact isMinDist_unique this hmd'
      rw [← hd']
      have hsorted := ok.sorted
      rw [hsplit] at hsorted he'
      have h2 := (List.pairwise_append.mp hsorted).2.1
      rcases List.mem_append.mp he' with hm | hm
      · have := hpre e' hm
        rw [hev', ht'] at this
        exact absurd this (by simp)
      · rcases List.mem_cons.mp hm with hm | hm
        · rw [hm]; exact Int.le_refl _
        · exact (List.pairwise_cons.mp h2).1 e' hm

end GraafVerif.Dijkstra
