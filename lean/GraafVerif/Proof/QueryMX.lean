import GraafVerif.Proof.Query
import GraafVerif.Spec.QueryAbs
/-!
# C02 — `AdjacencyMatrix`: bit addressing, the arc iterator, every core query (P0)
-/
namespace GraafVerif.Query
open GraafVerif.Repr

/-! ## bit test -/
theorem and_mask_ne_zero (x : BitVec 64) (i : Nat) :
    ((x &&& AdjMatrix.mask i) != 0#64) = x.getLsbD (i % 64) := by
  have hi : i % 64 < 64 := Nat.mod_lt _ (by decide)
  unfold AdjMatrix.mask
  cases hx : x.getLsbD (i % 64)
  · have : x &&& (1#64 <<< (i % 64)) = 0#64 := by
      apply BitVec.eq_of_getLsbD_eq
      intro k hk
      simp only [BitVec.getLsbD_and, BitVec.getLsbD_shiftLeft, BitVec.getLsbD_zero, Bool.and_eq_false_imp]
      intro h1
      by_cases hki : k = i % 64
      · subst hki; simp [hx] at h1
      · simp only [hk, decide_true, Bool.true_and, Bool.not_eq_true', decide_eq_false_iff_not, Nat.not_lt]
        intro hle
        have : k - i % 64 ≠ 0 := by omega
        simp [BitVec.getLsbD_one, this]
    simp [this]
  · have hb : (x &&& (1#64 <<< (i % 64))).getLsbD (i % 64) = true := by
      simp [hx, hi]
    have hne : x &&& (1#64 <<< (i % 64)) ≠ 0#64 := by
      intro h; rw [h] at hb; simp at hb
    simp [bne, hne]

/-! ## list facts -/
theorem range_mul (m n : Nat) :
    List.range (m * n) = (List.range m).flatMap (fun u => (List.range n).map (fun v => u * n + v)) := by
  induction m with
  | zero => simp
  | succ m ih =>
    rw [Nat.succ_mul, List.range_add, ih, List.range_succ, List.flatMap_append]
    simp

theorem filter_range_lt (p : Nat → Bool) {M N : Nat} (h : M ≤ N) :
    (List.range N).filter (fun c => p c && decide (c < M)) = (List.range M).filter p := by
  obtain ⟨k, rfl⟩ : ∃ k, N = M + k := ⟨N - M, by omega⟩
  rw [List.range_add, List.filter_append]
  have h1 : (List.range M).filter (fun c => p c && decide (c < M)) = (List.range M).filter p := by
    apply List.filter_congr
    intro x hx
    simp [List.mem_range.1 hx]
  have h2 : ((List.range k).map (fun x => M + x)).filter (fun c => p c && decide (c < M)) = [] := by
    rw [List.filter_eq_nil_iff]
    intro a ha
    obtain ⟨b, _, rfl⟩ := List.mem_map.1 ha
    simp
  rw [h1, h2, List.append_nil]

namespace MX

theorem hasArc_eq_cell (d : AdjMatrix) {u v : Nat} (hu : u < d.order) (hv : v < d.order) :
    d.hasArc u v = d.cell (u * d.order + v) := by
  unfold AdjMatrix.hasArc AdjMatrix.cell AdjMatrix.index
  have : ¬ (u ≥ d.order || v ≥ d.order) = true := by simp; omega
  rw [if_neg this, and_mask_ne_zero]

theorem hasArc_oob (d : AdjMatrix) {u v : Nat} (h : ¬ (u < d.order ∧ v < d.order)) : d.hasArc u v = false := by
  unfold AdjMatrix.hasArc
  have : (u ≥ d.order || v ≥ d.order) = true := by simp; omega
  rw [if_pos this]

theorem div_mod_cell {n u v : Nat} (hv : v < n) : (u * n + v) / n = u ∧ (u * n + v) % n = v := by
  have hn : 0 < n := by omega
  constructor
  · rw [Nat.mul_comm, Nat.mul_add_div hn, Nat.div_eq_of_lt hv, Nat.add_zero]
  · rw [Nat.mul_comm, Nat.mul_add_mod, Nat.mod_eq_of_lt hv]

theorem blocks_cover {d : AdjMatrix} (h : d.WF) : d.order * d.order ≤ 64 * d.blocks.length := by
  rw [h.2.1]; omega

/-- The arc iterator of the matrix yields `A` in lexicographic order. -/
theorem arcs_spec {d : AdjMatrix} (h : d.WF) : d.arcs = Spec.arcs (abs d) := by
  unfold AdjMatrix.arcs
  rw [filter_range_lt d.cell (blocks_cover h), range_mul, List.filter_flatMap, List.map_flatMap]
  simp only [Spec.arcs, Spec.outNeighbors, abs, AdjMatrix.vertices, List.flatMap_def]
  congr 1
  apply List.map_congr_left
  intro u hu
  have hu := List.mem_range.1 hu
  rw [List.filter_map, List.map_map]
  have h1 : (List.range d.order).filter (d.cell ∘ fun v => u * d.order + v) = (List.range d.order).filter (fun v => d.hasArc u v) := by
    apply List.filter_congr
    intro v hv
    simp [hasArc_eq_cell d hu (List.mem_range.1 hv)]
  rw [h1]
  apply List.map_congr_left
  intro v hv
  have hv := List.mem_range.1 (List.mem_filter.1 hv).1
  simp [div_mod_cell hv]

theorem abs_valid {d : AdjMatrix} (h : d.WF) : (abs d).Valid where
  sorted := by simp [abs, AdjMatrix.vertices]; exact List.pairwise_lt_range
  closed := by
    intro u v huv
    simp only [abs, AdjMatrix.vertices, List.mem_range]
    by_cases hb : u < d.order ∧ v < d.order
    · exact hb
    · simp [abs, hasArc_oob d hb] at huv
  irrefl := by
    intro u
    simp only [abs]
    by_cases hu : u < d.order
    · rw [hasArc_eq_cell d hu hu]; exact h.2.2.2 u hu
    · exact hasArc_oob d (fun hb => hu hb.1)
  wt_iff := by
    intro u v
    simp only [abs, unitWt]
    cases d.hasArc u v <;> simp

theorem size_spec {d : AdjMatrix} (h : d.WF) : d.size = Spec.size (abs d) := by
  rw [Spec.size, ← arcs_spec h]
  unfold AdjMatrix.size AdjMatrix.arcs
  rw [List.length_map]
  congr 1
  apply List.filter_congr
  intro c _
  by_cases hc : c < d.order * d.order
  · simp [hc]
  · simp [hc, h.2.2.1 c (by omega)]

theorem core_correct {d : AdjMatrix} (h : d.WF) : CoreCorrect (core d) (abs d) where
  order := by simp [core, Spec.order, abs, AdjMatrix.vertices]
  vertices := rfl
  arcs_mem := by
    intro u v
    show (u, v) ∈ d.arcs ↔ _
    rw [arcs_spec h]; exact mem_arcs (abs_valid h) u v
  size := size_spec h
  hasArc := fun _ _ => rfl
  hasEdge := fun _ _ => rfl
  hasWalk := fun w => hasWalkZip_eq (abs d) d.hasArc (fun _ _ => rfl) w
  outNeighbors := by
    intro u hu
    have hu : u < d.order := by simpa [abs, AdjMatrix.vertices] using hu
    simp [core, outNeighbors, hu, Spec.outNeighbors, abs]
  inNeighbors := by
    intro v
    show d.arcs.filterMap _ = _
    rw [arcs_spec h]; exact arcs_filterMap_col (abs_valid h) v
  indegree := by
    intro v hv
    have hv : v < d.order := by simpa [abs, AdjMatrix.vertices] using hv
    simp [core, indegree, hv, Spec.indegree, Spec.inNeighbors, abs]
  isSource := by
    intro v
    simp only [core, isSource, Spec.isSource, Spec.indegree, Spec.inNeighbors, filter_length_eq_zero]; rfl
  outdegree := by
    intro u hu
    have hu : u < d.order := by simpa [abs, AdjMatrix.vertices] using hu
    simp [core, outdegree, hu, Spec.outdegree, Spec.outNeighbors, abs]
  isSink := by
    intro u hu
    have hu : u < d.order := by simpa [abs, AdjMatrix.vertices] using hu
    simp only [core, isSink, hu, if_true, Spec.isSink, Spec.outdegree, Spec.outNeighbors, filter_length_eq_zero]; rfl

theorem seq_correct {d : AdjMatrix} (h : d.WF) : SeqCorrect (core d) (abs d) where
  indegreeSequence := indegreeSequenceDefault_correct (abs d) _ (core_correct h).indegree
  degreeSequence := fun _ _ => degreeSequenceDefault_correct (abs d) _ _ (core_correct h).indegree (core_correct h).outdegree

theorem panics_outside {d : AdjMatrix} {u : Nat} (hu : ¬ u < d.order) :
    (core d).outNeighbors u = none ∧ (core d).indegree u = none ∧ (core d).outdegree u = none ∧ (core d).isSink u = none := by
  simp [core, outNeighbors, indegree, outdegree, isSink, hu]

/-- `remove_arc` with an id outside `V` answers `false` and changes nothing. -/
theorem removeArc_outside (d : AdjMatrix) {u v : Nat} (h : ¬ (u < d.order ∧ v < d.order)) :
    d.removeArc u v = (d, false) := by
  unfold AdjMatrix.removeArc
  have : (u ≥ d.order || v ≥ d.order) = true := by simp; omega
  rw [if_pos this]

/-! ### `remove_arc` of an absent arc (in range or not) changes nothing -/
theorem andnot_mask_fix (x : BitVec 64) (i : Nat) (h : x.getLsbD (i % 64) = false) :
    x &&& ~~~ AdjMatrix.mask i = x := by
  apply BitVec.eq_of_getLsbD_eq
  intro k hk
  unfold AdjMatrix.mask
  simp only [BitVec.getLsbD_and, BitVec.getLsbD_not, BitVec.getLsbD_shiftLeft, hk, decide_true, Bool.true_and]
  by_cases hki : k = i % 64
  · subst hki; simp [h]
  · by_cases hlt : k < i % 64
    · simp [hlt]
    · have : k - i % 64 ≠ 0 := by omega
      simp [hlt, BitVec.getLsbD_one, this]

theorem removeArc_absent (d : AdjMatrix) {u v : Nat} (h : d.hasArc u v = false) : d.removeArc u v = (d, false) := by
  unfold AdjMatrix.removeArc
  by_cases hr : (u ≥ d.order || v ≥ d.order) = true
  · rw [if_pos hr]
  · rw [if_neg hr, h]
    congr 1
    have hbit : (d.blocks[d.index u v / 64]?.getD 0#64).getLsbD (d.index u v % 64) = false := by
      unfold AdjMatrix.hasArc at h
      rw [if_neg hr, and_mask_ne_zero] at h
      exact h
    unfold AdjMatrix.setBlock
    simp only []
    rw [andnot_mask_fix _ _ hbit]
    cases d with
    | mk blocks order =>
      simp only [AdjMatrix.mk.injEq, and_true]
      by_cases hlen : (AdjMatrix.index ⟨blocks, order⟩ u v) / 64 < blocks.length
      · simp [hlen]
      · rw [List.set_eq_of_length_le (by omega)]


end MX

end GraafVerif.Query
