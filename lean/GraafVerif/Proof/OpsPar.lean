import GraafVerif.Model.Ops
import GraafVerif.Proof.Par
/-!
# Thread-count independence of the chunked operations (`∀ ap ≥ 1`, C17 pieces)

`complementAL` and `unionAL` split the rows `0..order` into per-thread chunks; by
`Par.chunks_tile` (resp. `stepRanges_tile` for the `step_by` form) the chunks tile `0..order`
in order, so the result is the row-wise map over `List.range order` whatever `ap` is.
-/
namespace GraafVerif.Ops
open GraafVerif.Repr GraafVerif.Par

theorem flatMap_ranges_map {β : Type} (f : Nat → β) (rs : List (Nat × Nat)) :
    rs.flatMap (fun r => (List.range' r.1 (r.2 - r.1)).map f) = (expand rs).map f := by
  induction rs with
  | nil => simp [expand]
  | cons r rs ih =>
    simp only [List.flatMap_cons, ih, expand, List.map_append]

/-- `AdjacencyList::complement` computes the same rows for every thread count. -/
theorem complementAL_par_eq_seq (d : AdjList) (ap : Nat) (hap : 0 < ap) (hn : 0 < d.order) :
    complementAL d ap = some (complementSeqAL d) := by
  have ht : 0 < min d.order ap := by omega
  unfold complementAL complementSeqAL
  simp only []
  rw [if_neg (by omega), flatMap_ranges_map, chunks_tile _ _ ht hn]

/-! ## `step_by(chunk)` tiles `0..n` -/

theorem stepRanges_go_spec (n chunk : Nat) (hc : 0 < chunk) :
    ∀ fuel start, start ≤ n → n ≤ start + fuel * chunk →
      expand (stepRanges.go n chunk fuel start) = List.range' start (n - start) := by
  intro fuel
  induction fuel with
  | zero =>
    intro start h1 h2
    have : n = start := by omega
    simp [stepRanges.go, expand, this]
  | succ fuel ih =>
    intro start h1 h2
    unfold stepRanges.go
    by_cases hlt : start < n
    · simp only [hlt, if_true]
      by_cases hfull : start + chunk ≤ n
      · have hnext := ih (start + chunk) hfull (by rw [Nat.succ_mul] at h2; omega)
        simp only [expand, List.flatMap_cons] at hnext ⊢
        rw [hnext, Nat.min_eq_left hfull]
        have h4 : start + chunk - start = chunk := by omega
        have h3 : n - start = chunk + (n - (start + chunk)) := by omega
        rw [h4, h3, List.range'_append_1]
      · have hmin : min (start + chunk) n = n := Nat.min_eq_right (by omega)
        have hrest : expand (stepRanges.go n chunk fuel (start + chunk)) = [] := by
          cases fuel with
          | zero => simp [stepRanges.go, expand]
          | succ f =>
            unfold stepRanges.go
            rw [if_neg (by omega)]
            simp [expand]
        simp only [expand, List.flatMap_cons] at hrest ⊢
        rw [hrest, hmin]; simp
    · have : n = start := by omega
      simp [expand, this]

theorem stepRanges_tile (n chunk : Nat) (hc : 0 < chunk) :
    expand (stepRanges n chunk) = List.range n := by
  have := stepRanges_go_spec n chunk hc n 0 (by omega)
    (by have : n * 1 ≤ n * chunk := Nat.mul_le_mul_left n hc
        omega)
  simpa [stepRanges, List.range_eq_range'] using this

/-! ## disjoint slot writes: `foldl set` over a tiling = `map` -/

theorem foldl_set_range' {β : Type} (f : Nat → β) (x : β) (n : Nat) :
    ∀ k s (pre : List β), pre.length = s → s + k ≤ n →
      (List.range' s k).foldl (fun acc u => acc.set u (f u)) (pre ++ List.replicate (n - s) x)
        = pre ++ (List.range' s k).map f ++ List.replicate (n - s - k) x := by
  intro k
  induction k with
  | zero => intro s pre _ _; simp
  | succ k ih =>
    intro s pre hpre hle
    simp only [List.range'_succ, List.foldl_cons, List.map_cons]
    have hrep : List.replicate (n - s) x = x :: List.replicate (n - (s + 1)) x := by
      have : n - s = (n - (s + 1)) + 1 := by omega
      rw [this, List.replicate_succ]
    have hset : (pre ++ List.replicate (n - s) x).set s (f s) = (pre ++ [f s]) ++ List.replicate (n - (s + 1)) x := by
      rw [hrep, List.set_append_right _ _ (by omega)]
      simp [hpre]
    rw [hset, ih (s + 1) (pre ++ [f s]) (by simp [hpre]) (by omega)]
    simp only [List.append_assoc, List.singleton_append]
    congr 3
    omega

theorem foldl_set_range {β : Type} (f : Nat → β) (x : β) (n : Nat) :
    (List.range n).foldl (fun acc u => acc.set u (f u)) (List.replicate n x) = (List.range n).map f := by
  have := foldl_set_range' f x n n 0 [] rfl (by omega)
  simpa [List.range_eq_range'] using this

theorem foldl_ranges_eq_foldl_expand {α : Type} (g : α → Nat → α) (rs : List (Nat × Nat)) (init : α) :
    rs.foldl (fun acc r => (List.range' r.1 (r.2 - r.1)).foldl g acc) init = (expand rs).foldl g init := by
  induction rs generalizing init with
  | nil => simp [expand]
  | cons r rs ih =>
    simp only [List.foldl_cons, ih, expand, List.flatMap_cons, List.foldl_append]

/-- `AdjacencyList::union` computes the same rows for every thread count. -/
theorem unionAL_par_eq_seq (a b : AdjList) (ap : Nat) (hap : 0 < ap) (hn : 0 < max a.order b.order) :
    unionAL a b ap = some (unionSeqAL a b) := by
  have hc : 0 < (max a.order b.order + ap - 1) / ap := Nat.div_pos (by omega) hap
  unfold unionAL unionSeqAL
  simp only []
  rw [if_neg (by omega), if_neg (by omega)]
  have h := foldl_ranges_eq_foldl_expand (fun (arcs : List (List Nat)) u => arcs.set u (unionRowAL a b u))
    (stepRanges (max a.order b.order) ((max a.order b.order + ap - 1) / ap))
    (List.replicate (max a.order b.order) [])
  rw [h, stepRanges_tile _ _ hc, foldl_set_range]

end GraafVerif.Ops
