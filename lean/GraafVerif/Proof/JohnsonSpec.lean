import GraafVerif.Spec.Johnson
/-!
# The naive enumerator `allCircuits` is exactly the set of canonical elementary circuits

`allCircuits_spec` and `allCircuits_nodup`: the oracle the driver compares the implementation
against is a verified one.
-/
namespace GraafVerif.Johnson
open GraafVerif

/-- `ext` extends a path ending in `v` (whose vertices are `path`) to a circuit through `s`. -/
structure Ext (g : Graph) (s : Nat) (path : List Nat) (v : Nat) (ext : List Nat) : Prop where
  walk : IsWalk g (v :: ext)
  close : g.A ((v :: ext).getLast (List.cons_ne_nil _ _)) s
  gt : ∀ x ∈ ext, s < x
  fresh : ∀ x ∈ ext, x ∉ path
  nodup : ext.Nodup
  len : 2 ≤ (path ++ ext).length

theorem mem_closingPaths (g : Graph) (s : Nat) (fuel : Nat) (path : List Nat) (v : Nat) (c : List Nat) :
    c ∈ closingPaths g s fuel path v ↔ ∃ ext, c = path ++ ext ∧ ext.length < fuel ∧ Ext g s path v ext := by
  induction fuel generalizing path v with
  | zero => simp [closingPaths]
  | succ fuel ih =>
    simp only [closingPaths, List.mem_flatMap]
    constructor
    · rintro ⟨w, hw, hc⟩
      by_cases hws : w = s
      · subst hws
        simp only [if_true] at hc
        split at hc
        · rename_i h2
          simp only [List.mem_singleton] at hc
          subst hc
          exact ⟨[], by simp, by simp, ⟨trivial, by simpa [Graph.A] using hw, by simp, by simp, by simp, by simpa using h2⟩⟩
        · simp at hc
      · simp only [hws, if_false] at hc
        split at hc
        · rename_i h
          obtain ⟨ext, rfl, hlen, he⟩ := (ih _ _).1 hc
          refine ⟨w :: ext, by simp, by simp; omega, ⟨⟨hw, he.walk⟩, ?_, ?_, ?_, ?_, ?_⟩⟩
          · simpa [List.getLast_cons_cons] using he.close
          · intro x hx
            rcases List.mem_cons.1 hx with rfl | hx
            · exact h.1
            · exact he.gt x hx
          · intro x hx
            rcases List.mem_cons.1 hx with rfl | hx
            · exact h.2
            · intro hp; exact he.fresh x hx (by simp [hp])
          · refine List.nodup_cons.2 ⟨?_, he.nodup⟩
            intro hx; exact he.fresh w hx (by simp)
          · have := he.len; simp at this ⊢; omega
        · simp at hc
    · rintro ⟨ext, rfl, hlen, he⟩
      match ext, he with
      | [], he =>
        refine ⟨s, by simpa [Graph.A] using he.close, ?_⟩
        have := he.len
        simp at this
        simp [this]
      | w :: ext, he =>
        have hw := he.walk
        have hsw : s < w := he.gt w (by simp)
        have hwp : w ∉ path := he.fresh w (by simp)
        refine ⟨w, hw.1, ?_⟩
        have hne : w ≠ s := by omega
        simp only [hne, if_false, hsw, hwp, not_false_eq_true, and_self, if_true]
        refine (ih _ _).2 ⟨ext, by simp, by simp at hlen; omega, ⟨hw.2, ?_, ?_, ?_, ?_, ?_⟩⟩
        · simpa [List.getLast_cons_cons] using he.close
        · intro x hx; exact he.gt x (by simp [hx])
        · intro x hx hp
          rcases List.mem_append.1 hp with hp | hp
          · exact he.fresh x (by simp [hx]) hp
          · simp at hp; subst hp; exact (List.nodup_cons.1 he.nodup).1 hx
        · exact (List.nodup_cons.1 he.nodup).2
        · have := he.len; simp at this ⊢; omega

/-- Every vertex of a closed walk has an out-arc. -/
theorem walk_has_out (g : Graph) (s : Nat) : ∀ (v : Nat) (ext : List Nat), IsWalk g (v :: ext) →
    g.A ((v :: ext).getLast (List.cons_ne_nil _ _)) s → ∀ x ∈ v :: ext, ∃ y, g.A x y
  | v, [], _, hc, x, hx => by simp at hx; subst hx; exact ⟨s, by simpa using hc⟩
  | v, w :: ext, hw, hc, x, hx => by
    rcases List.mem_cons.1 hx with rfl | hx
    · exact ⟨w, hw.1⟩
    · exact walk_has_out g s w ext hw.2 (by simpa [List.getLast_cons_cons] using hc) x hx

theorem allCircuits_spec (g : Graph) (hwf : g.WF) (c : List Nat) :
    c ∈ allCircuits g ↔ IsCanonicalElemCircuit g c := by
  simp only [allCircuits, List.mem_flatMap, List.mem_range, mem_closingPaths]
  constructor
  · rintro ⟨s, _, ext, rfl, _, he⟩
    refine ⟨s, ext, rfl, ?_, ?_, he.walk, he.close, he.gt⟩
    · have := he.len; intro h; subst h; simp at this
    · simp only [List.singleton_append]
      refine List.nodup_cons.2 ⟨?_, he.nodup⟩
      intro h; exact he.fresh s h (by simp)
  · rintro ⟨s, rest, rfl, hne, hnd, hw, hc, hgt⟩
    have hout := walk_has_out g s s rest hw hc
    have hlt : ∀ x ∈ s :: rest, x < g.n := by
      intro x hx
      obtain ⟨y, hy⟩ := hout x hx
      exact (hwf x y hy).1
    have hlen : (s :: rest).length ≤ g.n := by
      have := List.Nodup.length_le_of_subset hnd (l₂ := List.range g.n)
        (by intro x hx; exact List.mem_range.2 (hlt x hx))
      simpa using this
    refine ⟨s, hlt s (by simp), rest, rfl, by simp at hlen; omega, ⟨hw, hc, hgt, ?_, ?_, ?_⟩⟩
    · intro x hx hp
      simp at hp; subst hp
      exact (List.nodup_cons.1 hnd).1 hx
    · exact (List.nodup_cons.1 hnd).2
    · cases rest with
      | nil => exact absurd rfl hne
      | cons a r => simp

theorem closingPaths_nodup (g : Graph) (hrows : RowsNodup g) (s : Nat) (fuel : Nat) (path : List Nat) (v : Nat) :
    (closingPaths g s fuel path v).Nodup := by
  induction fuel generalizing path v with
  | zero => simp [closingPaths]
  | succ fuel ih =>
    simp only [closingPaths]
    rw [List.Nodup, List.pairwise_flatMap]
    constructor
    · intro w _
      split
      · split <;> simp
      · split
        · exact ih _ _
        · simp
    · refine List.Pairwise.imp ?_ (hrows v)
      intro w w' hne x hx y hy hxy
      subst hxy
      -- both branches contain `x`: impossible for different `w`, `w'`
      have key : ∀ u, x ∈ (if u = s then (if 2 ≤ path.length then [path] else [])
            else if s < u ∧ u ∉ path then closingPaths g s fuel (path ++ [u]) u else []) →
          (u = s ∧ x = path) ∨ (u ≠ s ∧ ∃ e, x = path ++ u :: e) := by
        intro u hu
        by_cases hus : u = s
        · left
          simp only [hus, if_true] at hu
          split at hu
          · exact ⟨hus, by simpa using hu⟩
          · simp at hu
        · right
          simp only [hus, if_false] at hu
          split at hu
          · obtain ⟨e, rfl, _, _⟩ := (mem_closingPaths _ _ _ _ _ _).1 hu
            exact ⟨hus, e, by simp⟩
          · simp at hu
      rcases key w hx with ⟨h1, h2⟩ | ⟨h1, e, h2⟩ <;> rcases key w' hy with ⟨h3, h4⟩ | ⟨h3, e', h4⟩
      · exact hne (h1.trans h3.symm)
      · rw [h2] at h4
        have := congrArg List.length h4
        simp at this
      · rw [h4] at h2
        have := congrArg List.length h2
        simp at this
      · rw [h2] at h4
        have := List.append_cancel_left h4
        simp at this
        exact hne this.1

theorem allCircuits_nodup (g : Graph) (hrows : RowsNodup g) : (allCircuits g).Nodup := by
  simp only [allCircuits]
  rw [List.Nodup, List.pairwise_flatMap]
  constructor
  · intro s _
    exact closingPaths_nodup g hrows s _ _ _
  · refine List.Pairwise.imp ?_ List.nodup_range
    intro s s' hne x hx y hy hxy
    subst hxy
    obtain ⟨e, rfl, _, _⟩ := (mem_closingPaths _ _ _ _ _ _).1 hx
    obtain ⟨e', h, _, _⟩ := (mem_closingPaths _ _ _ _ _ _).1 hy
    simp at h
    exact hne h.1

end GraafVerif.Johnson
