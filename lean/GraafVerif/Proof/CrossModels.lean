import GraafVerif.Proof.Cross
import GraafVerif.Thm.C03
import GraafVerif.Thm.C04
import GraafVerif.Thm.C07
import GraafVerif.Thm.C08
/-!
# The four models compute THE distance vector (tag `Cross`)

Each builder proved its algorithm exact in its own vocabulary.  Here every one of those results is
brought into the common form `IsDistVec g S d` (Proof/Cross.lean); the cross-algorithm equalities
between the MODELS are then instances of `isDistVec_unique`.

* `dijkstra_isDistVec`  — C03 `distances_spec`                 (`Dijkstra.distances g S`)
* `bfm_isDistVec`       — C07 `bfm_some_exact`                 (`d` with `Bfm.distances g s = .ret (some d)`)
* `fw_row_isDistVec`    — C08 `fw_exact`                       (`Fw.row g.n (Fw.distances g) s`)
* `bfs_isDistVec`       — C04 `distances_correct` + the bridge (`d.map (hopToOpt inf)` over `unitWeights g`)
-/
namespace GraafVerif.Cross
open GraafVerif

/-! ## Dijkstra -/

theorem dijkstra_isDistVec (g : WGraph) (S : List Nat) (h : Dijkstra.Hyp g S) :
    IsDistVec g S (Dijkstra.distances g S) :=
  C03.distances_spec g S h

/-- The hypotheses of C03 for a single in-range source. -/
theorem hyp_single {g : WGraph} (hwf : g.WF) (hnn : g.NonNeg) {s : Nat} (hs : s < g.n) :
    Dijkstra.Hyp g [s] :=
  ⟨hwf, hnn, fun x hx => by rw [List.mem_singleton.mp hx]; exact hs, by simp⟩

/-! ## Bellman-Ford-Moore -/

theorem bfm_isDistVec {g : WGraph} (hwf : g.WF) {s : Nat} {d : Bfm.Dist}
    (h : Bfm.distances g s = .ret (some d)) : IsDistVec g [s] d :=
  isDistVec_of_exact (C07.bfm_some_exact g hwf s d h)

/-- No negative circuit anywhere ⇒ none reachable from `s`. -/
theorem noNegCycle_not_negReachable {g : WGraph} (hnc : g.NoNegCycle) (s : Nat) :
    ¬ Bfm.NegReachable g s :=
  fun ⟨x, _, hn⟩ => hnc x hn

/-! ## Floyd-Warshall -/

theorem row_getElem? (n : Nat) (m : Fw.Mat) (u : Nat) {x : Nat} (hx : x < n) :
    (Fw.row n m u)[x]? = some (Fw.get n m u x) := by
  simp [Fw.row, hx]

theorem fw_row_isDistVec (g : WGraph) (hwf : g.WF) (hfun : g.Functional) (hnc : g.NoNegCycle)
    {s : Nat} (hs : s < g.n) : IsDistVec g [s] (Fw.row g.n (Fw.distances g) s) := by
  refine ⟨by simp [Fw.row], ?_, ?_⟩
  · intro v hv x
    rw [row_getElem? _ _ _ hv, ← (C08.fw_exact g hwf hfun hnc hs hv).1 x]
    exact ⟨fun h => Option.some.inj h, fun h => congrArg some h⟩
  · intro v hv
    rw [row_getElem? _ _ _ hv, ← (C08.fw_exact g hwf hfun hnc hs hv).2]
    exact ⟨fun h => Option.some.inj h, fun h => congrArg some h⟩

/-! ## The cross-algorithm equalities -/

/-- BFM = Dijkstra on non-negative weights (equality of the two model outputs as lists). -/
theorem bfm_dijkstra_agree (g : WGraph) (hwf : g.WF) (hnn : g.NonNeg) (s : Nat) (hs : s < g.n) :
    Bfm.distances g s = .ret (some (Dijkstra.distances g [s])) :=
  C07.bfm_nonneg_agrees g hwf s hs hnn _
    (exact_of_isDistVec (dijkstra_isDistVec g [s] (hyp_single hwf hnn hs)))

/-- Row `s` of Floyd-Warshall = BFM from `s` (no negative circuit). -/
theorem fw_row_bfm_agree (g : WGraph) (hwf : g.WF) (hfun : g.Functional) (hnc : g.NoNegCycle)
    (s : Nat) (hs : s < g.n) :
    Bfm.distances g s = .ret (some (Fw.row g.n (Fw.distances g) s)) := by
  obtain ⟨d, hd⟩ := C07.bfm_no_negcycle_some g hwf s hs (noNegCycle_not_negReachable hnc s)
  rw [hd, isDistVec_unique (bfm_isDistVec hwf hd) (fw_row_isDistVec g hwf hfun hnc hs)]

/-- Row `s` of Floyd-Warshall = Dijkstra from `[s]` (non-negative weights). -/
theorem fw_row_dijkstra_agree (g : WGraph) (hwf : g.WF) (hfun : g.Functional) (hnn : g.NonNeg)
    (s : Nat) (hs : s < g.n) :
    Fw.row g.n (Fw.distances g) s = Dijkstra.distances g [s] :=
  isDistVec_unique (fw_row_isDistVec g hwf hfun (nonneg_noNegCycle hnn) hs)
    (dijkstra_isDistVec g [s] (hyp_single hwf hnn hs))

/-! ## Breadth-first search over unit weights -/

/-- `usize` hop distance → entry of a weighted distance vector: `usize::MAX` ↦ the sentinel. -/
def hopToOpt (inf : Nat) (k : Nat) : Option Int := if k = inf then none else some (k : Int)

theorem hopToOpt_some {inf k : Nat} {x : Int} : hopToOpt inf k = some x ↔ k ≠ inf ∧ x = (k : Int) := by
  unfold hopToOpt
  split
  · simp [*]
  · rename_i hne
    constructor
    · intro h; exact ⟨hne, (Option.some.inj h).symm⟩
    · rintro ⟨_, rfl⟩; rfl

theorem hopToOpt_none {inf k : Nat} : hopToOpt inf k = none ↔ k = inf := by
  unfold hopToOpt
  split <;> simp [*]

theorem bfs_isDistVec (g : Graph) (hg : g.WF) (S : List Nat) (hS : ∀ s ∈ S, s < g.n) (hnd : S.Nodup)
    (inf : Nat) (hinf : g.n ≤ inf) :
    ∃ d, Bfs.distances g S inf = .ok d ∧ IsDistVec (unitWeights g) S (d.map (hopToOpt inf)) := by
  obtain ⟨d, hd, hsp⟩ := C04.distances_correct g hg S hS hnd inf hinf
  refine ⟨d, hd, by simp [hsp.len, unitWeights_n], ?_, ?_⟩
  · intro v hv x
    have hv' : v < g.n := hv
    obtain ⟨k, hk⟩ := getElem?_cases d v (by rw [hsp.len]; exact hv')
    rw [List.getElem?_map, hk, Option.map_some, Option.some.injEq, hopToOpt_some]
    constructor
    · rintro ⟨hne, rfl⟩
      have hr : ReachFrom g S v := by
        apply Classical.byContradiction
        intro hnr
        exact hne (Option.some.inj (hk.symm.trans ((hsp.inf_iff v hv').mpr hnr)))
      obtain ⟨k', hk'⟩ := reachFrom_hopDist hr
      have : k = k' := Option.some.inj (hk.symm.trans (hsp.dist v k' hk'))
      rw [this]
      exact isHopDist_iff_isMinDist.mp hk'
    · intro hmin
      obtain ⟨k', rfl, hk'⟩ := isMinDist_unit_nat hmin
      have hkk : k = k' := Option.some.inj (hk.symm.trans (hsp.dist v k' hk'))
      refine ⟨?_, by rw [hkk]⟩
      intro hkinf
      rw [hkinf] at hk
      exact (hsp.inf_iff v hv').mp hk (Bfs.isHopDist_reach hk')
  · intro v hv
    have hv' : v < g.n := hv
    obtain ⟨k, hk⟩ := getElem?_cases d v (by rw [hsp.len]; exact hv')
    rw [List.getElem?_map, hk, Option.map_some, Option.some.injEq, hopToOpt_none,
      ← not_congr reachFrom_iff_wreachFrom, ← hsp.inf_iff v hv', hk, Option.some.injEq]

/-- BFS hop distances = Dijkstra over unit weights (any list of distinct in-range sources). -/
theorem bfs_dijkstra_agree (g : Graph) (hg : g.WF) (S : List Nat) (hS : ∀ s ∈ S, s < g.n) (hnd : S.Nodup)
    (inf : Nat) (hinf : g.n ≤ inf) :
    ∃ d, Bfs.distances g S inf = .ok d ∧
      Dijkstra.distances (unitWeights g) S = d.map (hopToOpt inf) := by
  obtain ⟨d, hd, hv⟩ := bfs_isDistVec g hg S hS hnd inf hinf
  exact ⟨d, hd, isDistVec_unique
    (dijkstra_isDistVec _ S ⟨unitWeights_wf hg, unitWeights_nonneg g, hS, hnd⟩) hv⟩

/-- BFS from one source = BFM = row `s` of Floyd-Warshall over unit weights. -/
theorem bfs_bfm_fw_agree (g : Graph) (hg : g.WF) (s : Nat) (hs : s < g.n) (inf : Nat) (hinf : g.n ≤ inf) :
    ∃ d, Bfs.distances g [s] inf = .ok d ∧
      Bfm.distances (unitWeights g) s = .ret (some (d.map (hopToOpt inf))) ∧
      Fw.row g.n (Fw.distances (unitWeights g)) s = d.map (hopToOpt inf) := by
  obtain ⟨d, hd, hv⟩ := bfs_isDistVec g hg [s] (fun x hx => by rw [List.mem_singleton.mp hx]; exact hs)
    (by simp) inf hinf
  have hwf := unitWeights_wf hg
  have hnc := nonneg_noNegCycle (unitWeights_nonneg g)
  have hrow := isDistVec_unique (fw_row_isDistVec _ hwf (unitWeights_functional g) hnc (s := s) hs) hv
  refine ⟨d, hd, ?_, hrow⟩
  rw [← hrow]
  exact fw_row_bfm_agree _ hwf (unitWeights_functional g) hnc s hs

end GraafVerif.Cross
