import GraafVerif.Proof.LawsGen
/-!
# Laws — degrees: `converse` swaps in- and out-degrees; regular ⇒ balanced; `cycle n` is regular
-/
namespace GraafVerif.Laws
open GraafVerif.Ops GraafVerif.Query GraafVerif.Pred GraafVerif.GenSpec GraafVerif.Gen

theorem deg_swap {G G' : Digraph} (hv : G'.verts = G.verts) (ha : ∀ u v, G'.adj u v = true ↔ G.adj v u = true) (x : Nat) :
    Spec.indegree G' x = Spec.outdegree G x ∧ Spec.outdegree G' x = Spec.indegree G x := by
  unfold Spec.indegree Spec.outdegree Spec.inNeighbors Spec.outNeighbors
  rw [hv]
  constructor
  · congr 1; apply List.filter_congr; intro y _; exact Bool.eq_iff_iff.mpr (ha y x)
  · congr 1; apply List.filter_congr; intro y _; exact Bool.eq_iff_iff.mpr (ha x y)

theorem regular_swap {G G' : Digraph} (hv : G'.verts = G.verts) (ha : ∀ u v, G'.adj u v = true ↔ G.adj v u = true) :
    Def.IsRegular G' ↔ Def.IsRegular G := by
  unfold Def.IsRegular
  rw [hv]
  constructor
  · rintro ⟨k, h⟩; exact ⟨k, fun u hu => by
      have := h u hu; rw [(deg_swap hv ha u).1, (deg_swap hv ha u).2] at this; exact ⟨this.2, this.1⟩⟩
  · rintro ⟨k, h⟩; exact ⟨k, fun u hu => by
      rw [(deg_swap hv ha u).1, (deg_swap hv ha u).2]; exact ⟨(h u hu).2, (h u hu).1⟩⟩

theorem balanced_swap {G G' : Digraph} (hv : G'.verts = G.verts) (ha : ∀ u v, G'.adj u v = true ↔ G.adj v u = true) :
    Def.IsBalanced G' ↔ Def.IsBalanced G := by
  unfold Def.IsBalanced
  rw [hv]
  constructor
  · intro h u hu; have := h u hu; rw [(deg_swap hv ha u).1, (deg_swap hv ha u).2] at this; exact this.symm
  · intro h u hu; rw [(deg_swap hv ha u).1, (deg_swap hv ha u).2]; exact (h u hu).symm

theorem regular_balanced {G : Digraph} (h : Def.IsRegular G) : Def.IsBalanced G := by
  obtain ⟨k, hk⟩ := h
  intro u hu; rw [(hk u hu).1, (hk u hu).2]

theorem filter_range_two (p : Nat → Bool) (n x1 x2 : Nat) (h1 : x1 < n) (h2 : x2 < n) (hne : x1 ≠ x2)
    (h : ∀ y, y < n → (p y = true ↔ y = x1 ∨ y = x2)) : ((List.range n).filter p).length = 2 := by
  induction n with
  | zero => omega
  | succ n ih =>
    rw [List.range_succ, List.filter_append, List.length_append]
    by_cases ha : x1 = n
    · subst ha
      rw [filter_range_unique p x1 x2 (by omega) (fun y hy => by
        rw [h y (by omega)]; exact ⟨fun z => z.elim (fun e => by omega) id, Or.inr⟩)]
      have : p x1 = true := (h x1 (by omega)).mpr (Or.inl rfl)
      simp [this]
    · by_cases hb : x2 = n
      · subst hb
        rw [filter_range_unique p x2 x1 (by omega) (fun y hy => by
          rw [h y (by omega)]; exact ⟨fun z => z.elim id (fun e => by omega), Or.inl⟩)]
        have : p x2 = true := (h x2 (by omega)).mpr (Or.inr rfl)
        simp [this]
      · rw [ih (by omega) (by omega) (fun y hy => h y (by omega))]
        have : p n = false := by
          cases hp : p n
          · rfl
          · have := (h n (by omega)).mp hp; omega
        simp [this]

/-- out-degree of `cycle n` (`n ≥ 2`): `1` at `n = 2`, `2` from `n = 3` on -/
theorem cycle_outdeg {G : Digraph} {n : Nat} (hn : 2 ≤ n) (h : IsGen G n (CycleDef n)) (u : Nat) (hu : u < n) :
    Spec.outdegree G u = if n = 2 then 1 else 2 := by
  rw [outdeg_eq h.verts]
  have key : ∀ y, y < n → (G.adj u y = true ↔
      y = (if u + 1 = n then 0 else u + 1) ∨ y = (if u = 0 then n - 1 else u - 1)) := by
    intro y hy
    rw [h.adj]; unfold CycleDef
    rw [circuit_succ_iff hn hu hy, circuit_pred_iff hn hu hy]
  by_cases h2 : n = 2
  · rw [if_pos h2]
    apply filter_range_unique _ n (if u + 1 = n then 0 else u + 1) (by split <;> omega)
    intro y hy; rw [key y hy]
    subst h2
    have : u = 0 ∨ u = 1 := by omega
    rcases this with rfl | rfl <;> simp
  · rw [if_neg h2]
    apply filter_range_two _ n (if u + 1 = n then 0 else u + 1) (if u = 0 then n - 1 else u - 1)
      (by split <;> omega) (by split <;> omega) (by split <;> split <;> omega) key

theorem cycle_regular {G : Digraph} {n : Nat} (hn : 1 ≤ n) (h : IsGen G n (CycleDef n)) : Def.IsRegular G := by
  have hsym : ∀ u v, G.adj u v = true ↔ G.adj v u = true := fun u v => by
    rw [h.adj, h.adj]; exact ⟨fun x => x.symm, fun x => x.symm⟩
  have hin : ∀ u, Spec.indegree G u = Spec.outdegree G u := fun u => (deg_swap rfl hsym u).1
  by_cases h2 : 2 ≤ n
  · exact regular_of_const h.verts (fun u hu => cycle_outdeg h2 h u hu) (fun u hu => by rw [hin, cycle_outdeg h2 h u hu])
  · have : n = 1 := by omega
    subst this
    have hno : ∀ a b, ¬ CycleDef 1 a b := fun a b x => by
      rcases x with x | x <;> (have := x.1; omega)
    have ho : ∀ u, Spec.outdegree G u = 0 := fun u => by
      rw [outdeg_eq h.verts, filter_range_none _ 1 (fun y _ => adj_false h (hno _ _))]; rfl
    exact regular_of_const h.verts (fun u _ => ho u) (fun u _ => by rw [hin, ho])

theorem cycle_size {G : Digraph} {n : Nat} (hn : 2 ≤ n) (h : IsGen G n (CycleDef n)) :
    Spec.size G = if n = 2 then 2 else 2 * n := by
  rw [size_of_const h.verts (fun u hu => cycle_outdeg hn h u hu)]
  split <;> omega

namespace Rep
variable {R : Type} {M : Rep R}

theorem balanced_iff {d : R} (h : M.WF d) : M.isBalanced d = some true ↔ Def.IsBalanced (M.dig d) :=
  optb_iff (M.unary d h).balanced

/-- `converse` swaps in- and out-degrees, so `is_regular` and `is_balanced` are invariant under it -/
theorem converse_preserves_degrees {g : R} (hg : M.WF g) :
    ∃ r, M.conv g = some r ∧ M.isRegular r = M.isRegular g ∧ M.isBalanced r = M.isBalanced g := by
  obtain ⟨r, e, hr, ar⟩ := conv_spec hg
  have hv : (M.dig r).verts = (M.dig g).verts :=
    SortedS.ext (M.dig_valid r hr).sorted (M.dig_valid g hg).sorted (fun v => by
      have : (M.abs r).V v ↔ (M.abs g).V v := by rw [ar]; exact Iff.rfl
      exact this)
  have ha : ∀ u v, (M.dig r).adj u v = true ↔ (M.dig g).adj v u = true := fun u v => by
    have : (M.abs r).A u v ↔ (M.abs g).A v u := by rw [ar]; exact Iff.rfl
    exact this
  exact ⟨r, e, optb_eq (M.unary r hr).regular (M.unary g hg).regular (regular_swap hv ha),
    optb_eq (M.unary r hr).balanced (M.unary g hg).balanced (balanced_swap hv ha)⟩

/-- a regular digraph is balanced -/
theorem regular_balanced' {g : R} (hg : M.WF g) (h : M.isRegular g = some true) : M.isBalanced g = some true :=
  (balanced_iff hg).mpr (regular_balanced ((regular_iff hg).mp h))

/-- `cycle n` is regular (hence balanced); `2n` arcs from `n = 3` on, `2` at `n = 2` -/
theorem gen_cycle_degrees {n : Nat} (hn : 1 ≤ n) (hf : M.fits n) :
    ∃ k, M.fam.cycle n = some k ∧ M.isRegular k = some true ∧ M.isBalanced k = some true ∧
      (2 ≤ n → M.size k = if n = 2 then 2 else 2 * n) := by
  obtain ⟨k, e, hk, ak, vk⟩ := g_cycle (M := M) hn hf
  have hg := isGen_of ak vk
  have hr : M.isRegular k = some true := (regular_iff hk).mpr (cycle_regular hn hg)
  exact ⟨k, e, hr, regular_balanced' hk hr, fun h2 => by rw [size_eq hk, cycle_size h2 hg]⟩

end Rep
end GraafVerif.Laws
