import GraafVerif.Model.AlgoGen3
import GraafVerif.Proof.AlgoGenRt
import GraafVerif.Model.Rand
/-!
# Generated `SplitMix64` / `Xoshiro256StarStar` (`Model/AlgoGen3.lean`) = the bit-exact hand-written
PRNG model of `Model/Rand.lean`

`[u64; 4]` is a list of four words on the generated side, the structure `Rand.Xo` on the
hand-written side (`ofX`).  All equalities hold for every seed / every four-word state; the raw
pointer accesses `*state_ptr.add(k)`, `k ≤ 3`, are in range on such a state (no `ub`).
`next_f64` is translated up to the 52 mantissa bits: `f64UnitOfBits` (see `Model/AlgoGenRt3.lean`
for the trusted reading of `f64::from_bits(..) - 1.0`); `nextF64_eq` shows that these bits are the
hand-written `Rand.mant` of the draw.
-/
set_option linter.unusedSimpArgs false
namespace GraafVerif.AlgoGenThm
open GraafVerif GraafVerif.AlgoGen

namespace SplitMix64

/-- `SplitMix64::new` -/
theorem new_eq (seed : UInt64) : AlgoGen.SplitMix64.new seed = .ok ⟨seed⟩ := rfl

/-- `SplitMix64::next` = the hand-written `splitMixStep`, for every state. -/
theorem next_eq (st : UInt64) :
    AlgoGen.SplitMix64.next ⟨st⟩ = .ok (some (Rand.splitMixStep st).1, ⟨(Rand.splitMixStep st).2⟩) := rfl

end SplitMix64

namespace Xoshiro256StarStar

/-- the four state words -/
def ofX (x : Rand.Xo) : AlgoGen.Xoshiro256StarStar := ⟨[x.s0, x.s1, x.s2, x.s3]⟩

/-- `Xoshiro256StarStar::new(seed)` = the hand-written `Xo.new`. -/
theorem new_eq (seed : UInt64) : AlgoGen.Xoshiro256StarStar.new seed = .ok (ofX (Rand.Xo.new seed)) := rfl

/-- `Iterator::next` of `Xoshiro256StarStar` = the hand-written `Xo.next`, for every state. -/
theorem next_eq (x : Rand.Xo) :
    AlgoGen.Xoshiro256StarStar.next (ofX x) = .ok (some (Rand.Xo.next x).1, ofX (Rand.Xo.next x).2) := rfl

/-- `next_bool` = the lowest bit of the draw. -/
theorem nextBool_eq (x : Rand.Xo) :
    AlgoGen.Xoshiro256StarStar.nextBool (ofX x) = .ok (Rand.nextBool (Rand.Xo.next x).1, ofX (Rand.Xo.next x).2) := rfl

/-- the bit pattern `1023 << 52 | (w & (2^52 - 1))` has the mantissa bits of `w` -/
theorem mant_bits (w : UInt64) :
    ((((1023 : UInt64) <<< (52 : UInt64)) ||| (w &&& (4503599627370495 : UInt64))) &&& (0xFFFFFFFFFFFFF : UInt64)) =
      w &&& (0xFFFFFFFFFFFFF : UInt64) := by
  have h2 : ((1023 : UInt64) <<< (52 : UInt64)) = 0x3FF0000000000000 := by decide
  rw [h2]
  apply UInt64.eq_of_toBitVec_eq
  simp only [UInt64.toBitVec_and, UInt64.toBitVec_or]
  ext i hi
  simp only [BitVec.getElem_and, BitVec.getElem_or]
  have key : ∀ j (hj : j < 64),
      ((UInt64.toBitVec 4607182418800017408)[j] && (UInt64.toBitVec 4503599627370495)[j]) = false := by decide
  have k := key i hi
  revert k
  generalize (UInt64.toBitVec 4607182418800017408)[i] = a
  generalize (UInt64.toBitVec 4503599627370495)[i] = m
  generalize w.toBitVec[i] = b
  cases a <;> cases m <;> cases b <;> simp

/-- the bit pattern `1023 << 52 | (w & (2^52 - 1))` has sign 0 and exponent 1023 -/
theorem exp_bits (w : UInt64) :
    ((((1023 : UInt64) <<< (52 : UInt64)) ||| (w &&& (4503599627370495 : UInt64))) >>> (52 : UInt64)) = 1023 := by
  have h2 : ((1023 : UInt64) <<< (52 : UInt64)) = 0x3FF0000000000000 := by decide
  rw [h2]
  apply UInt64.toNat.inj
  rw [UInt64.toNat_shiftRight, UInt64.toNat_or, UInt64.toNat_and]
  have hm : w.toNat &&& (4503599627370495 : UInt64).toNat < 2 ^ 52 := by
    have : (4503599627370495 : UInt64).toNat = 2 ^ 52 - 1 := by decide
    rw [this]
    exact Nat.lt_of_le_of_lt Nat.and_le_right (by decide)
  generalize w.toNat &&& (4503599627370495 : UInt64).toNat = m at hm
  have ha : (0x3FF0000000000000 : UInt64).toNat = 1023 <<< 52 := by decide
  rw [ha, ← Nat.shiftLeft_add_eq_or_of_lt hm]
  have : (52 : UInt64).toNat % 64 = 52 := by decide
  rw [this, Nat.shiftRight_eq_div_pow, Nat.shiftLeft_eq]
  show (1023 * 2 ^ 52 + m) / 2 ^ 52 = 1023
  rw [Nat.mul_comm, Nat.mul_add_div (by decide)]
  have : m / 2 ^ 52 = 0 := Nat.div_eq_of_lt hm
  rw [this]

/-- `next_f64` up to the mantissa: the word handed to `f64::from_bits(·) - 1.0` has exponent 1023 and its 52
mantissa bits are the hand-written `Rand.mant` of the draw (the returned double is exactly `mant / 2^52`). -/
theorem nextF64_eq (x : Rand.Xo) :
    AlgoGen.Xoshiro256StarStar.nextF64 (ofX x) = .ok (Rand.mant (Rand.Xo.next x).1, ofX (Rand.Xo.next x).2) := by
  unfold AlgoGen.Xoshiro256StarStar.nextF64
  simp only [next_eq, call_ok, ok_bind, unwrapO, pure_eq_ok, fnBody_ok, f64UnitOfBits, Rand.mant, mant_bits, exp_bits,
    if_true]

end Xoshiro256StarStar

end GraafVerif.AlgoGenThm
