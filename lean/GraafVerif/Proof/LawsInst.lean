import GraafVerif.Proof.LawsRep
/-!
# Laws — the four bundles

`alRep ap`, `amRep ap`, `mxRep`, `elRep : Rep …` — every field is an existing definition or an
existing theorem of C02 (`core_correct`, `abs_valid`), C11 (`statementAL/AM/MX/EL`, `canon*`),
C12 (`al_unary` …), C14 (`al_family_spec` …).  `ap` = `available_parallelism()` (it reaches
`AdjacencyList::{complement, union, is_semicomplete, complete}` and `AdjacencyMap::union`).
The abstract digraph of the bundle, `toDG (Query.X.abs d)`, is definitionally `Ops.absX d`.
-/
namespace GraafVerif.Laws
open GraafVerif.Repr GraafVerif.Ops GraafVerif.Query GraafVerif.Pred GraafVerif.GenSpec GraafVerif.Gen

theorem toDG_absAL (d : AdjList) : toDG (Query.AL.abs d) = absAL d := rfl
theorem toDG_absAM (d : AdjMap) : toDG (Query.AM.abs d) = absAM d := rfl
theorem toDG_absMX (d : AdjMatrix) : toDG (Query.MX.abs d) = absMX d := rfl
theorem toDG_absEL (d : EdgeList) : toDG (Query.EL.abs d) = absEL d := rfl

theorem range_iff_eq {a n : Nat} (h : ∀ v, v ∈ List.range a ↔ v < n) : a = n := by
  have h1 := (h a); have h2 := (h n)
  simp only [List.mem_range] at h1 h2
  omega

/-! ## AdjacencyList -/

def alRep (ap : Nat) (hap : 0 < ap) : Rep AdjList where
  WF := AdjList.WF
  core := Query.AL.core
  dig := Query.AL.abs
  core_ok := fun _ h => Query.AL.core_correct h
  dig_valid := fun _ h => Query.AL.abs_valid h
  nonempty := fun d h => by
    intro e
    have : (Query.AL.abs d).verts.length = d.order := by simp [Query.AL.abs, AdjList.vertices]
    rw [e] at this; have := h.1; simp at *; omega
  canon := fun _ _ ha hb h => canonAL ha hb h
  compl := fun d => complementAL d ap
  conv := converseAL
  un := fun a b => unionAL a b ap
  compl_ok := fun d h => C11.statementAL.2.1 d ap hap h
  conv_ok := fun d h => C11.statementAL.2.2.1 d h
  un_ok := fun a b ha hb => C11.statementAL.2.2.2.1 a b ap hap ha hb
  isComplete := fun d => some (Pred.AL.isComplete d)
  isSemicomplete := fun d => some (Pred.AL.isSemicomplete d ap)
  isTournament := fun d => some (Pred.AL.isTournament d)
  isSimple := fun d => some (Pred.AL.isSimple d)
  unary := fun d h => C12.al_unary d h ap hap
  fits := fun _ => True
  fam := C14.alFamily ap
  Real := Gen.AL.Realises
  famSpec := C14.al_family_spec ap hap
  real_ok := fun d n P _ _ hr => by
    obtain ⟨hw, ho, ha⟩ := hr
    refine ⟨hw, by simp [Query.AL.abs, AdjList.vertices, ho], fun u v => ?_⟩
    rw [← ha u v]; exact ((Query.AL.core_correct hw).arcs_mem u v).symm
  fits_of := fun _ _ _ _ => trivial

/-! ## AdjacencyMap (arbitrary key sets) -/

theorem amStatement : C11.StatementAM := C11.statementAM

def amRep (ap : Nat) (hap : 0 < ap) : Rep AdjMap where
  WF := fun d => d.WF ∧ 0 < d.order
  core := Query.AM.core
  dig := Query.AM.abs
  core_ok := fun _ h => Query.AM.core_correct h.1
  dig_valid := fun _ h => Query.AM.abs_valid h.1
  nonempty := fun d h => by
    intro e
    have := Pred.AM.verts_length d
    rw [e] at this; have := h.2; simp at *; omega
  canon := fun _ _ ha hb h => canonAM ha.1 hb.1 h
  compl := fun d => some (complementAM d)
  conv := fun d => some (converseAM d)
  un := fun a b => unionAM a b ap
  compl_ok := fun d h => by
    obtain ⟨_, hc, _⟩ := amStatement
    exact hc d h
  conv_ok := fun d h => by
    obtain ⟨_, _, hv, _⟩ := amStatement
    exact hv d h
  un_ok := fun a b ha hb => by
    obtain ⟨_, _, _, hu, _⟩ := amStatement
    exact hu a b ap hap ha hb
  isComplete := fun d => some (Pred.AM.isComplete d)
  isSemicomplete := fun d => some (Pred.AM.isSemicomplete d)
  isTournament := fun d => some (Pred.AM.isTournament d)
  isSimple := fun d => some (Pred.AM.isSimple d)
  unary := fun d h => C12.am_unary d h.1 h.2
  fits := fun _ => True
  fam := C14.amFamily
  Real := Gen.AM.Realises
  famSpec := C14.am_family_spec
  real_ok := fun d n P hn _ hr => by
    obtain ⟨hw, ho, hv, ha⟩ := hr
    refine ⟨⟨hw, by omega⟩, hv, fun u v => ?_⟩
    rw [← ha u v]; exact ((Query.AM.core_correct hw).arcs_mem u v).symm
  fits_of := fun _ _ _ _ => trivial

/-! ## AdjacencyMatrix (`order² < 2^64`) -/

theorem mxStatement : C11.StatementMX := C11.statementMX

def mxRep : Rep AdjMatrix where
  WF := fun d => d.WF ∧ d.order * d.order < 2 ^ 64
  core := Query.MX.core
  dig := Query.MX.abs
  core_ok := fun _ h => Query.MX.core_correct h.1
  dig_valid := fun _ h => Query.MX.abs_valid h.1
  nonempty := fun d h => by
    intro e
    have : (Query.MX.abs d).verts.length = d.order := by simp [Query.MX.abs, AdjMatrix.vertices]
    rw [e] at this; have := h.1.1; simp at *; omega
  canon := fun _ _ ha hb h => canonMX ha.1 hb.1 h
  compl := complementMX
  conv := converseMX
  un := unionMX
  compl_ok := fun d h => by
    obtain ⟨_, hc, _⟩ := mxStatement
    exact hc d h
  conv_ok := fun d h => by
    obtain ⟨_, _, hv, _⟩ := mxStatement
    exact hv d h
  un_ok := fun a b ha hb => by
    obtain ⟨_, _, _, hu, _⟩ := mxStatement
    exact hu a b ha hb
  isComplete := Pred.MX.isComplete
  isSemicomplete := fun d => some (Pred.MX.isSemicomplete d)
  isTournament := fun d => some (Pred.MX.isTournament d)
  isSimple := fun d => some (Pred.MX.isSimple d)
  unary := fun d h => C12.mx_unary d h.1 h.2
  fits := C14.mxFits
  fam := C14.mxFamily
  Real := Gen.MX.Realises
  famSpec := C14.mx_family_spec
  real_ok := fun d n P _ hf hr => by
    obtain ⟨hw, ho, ha⟩ := hr
    refine ⟨⟨hw, by rw [ho]; exact hf⟩, by simp [Query.MX.abs, AdjMatrix.vertices, ho], fun u v => ?_⟩
    rw [← ha u v]; exact ((Query.MX.core_correct hw).arcs_mem u v).symm
  fits_of := fun d n h hV => by
    have : d.order = n := range_iff_eq (a := d.order) hV
    show n * n < 2 ^ 64
    rw [← this]; exact h.2

/-! ## EdgeList -/

def elRep : Rep EdgeList where
  WF := EdgeList.WF
  core := Query.EL.core
  dig := Query.EL.abs
  core_ok := fun _ h => Query.EL.core_correct h
  dig_valid := fun _ h => Query.EL.abs_valid h
  nonempty := fun d h => by
    intro e
    have : (Query.EL.abs d).verts.length = d.order := by simp [Query.EL.abs, EdgeList.vertices]
    rw [e] at this; have := h.1; simp at *; omega
  canon := fun _ _ ha hb h => canonEL ha hb h
  compl := fun d => some (complementEL d)
  conv := fun d => some (converseEL d)
  un := unionEL
  compl_ok := fun d h => C11.statementEL.2.1 d h
  conv_ok := fun d h => C11.statementEL.2.2.1 d h
  un_ok := fun a b ha hb => C11.statementEL.2.2.2.1 a b ha hb
  isComplete := Pred.EL.isComplete
  isSemicomplete := fun d => some (Pred.EL.isSemicomplete d)
  isTournament := fun d => some (Pred.EL.isTournament d)
  isSimple := fun d => some (Pred.EL.isSimple d)
  unary := fun d h => C12.el_unary d h
  fits := fun _ => True
  fam := C14.elFamily
  Real := Gen.EL.Realises
  famSpec := C14.el_family_spec
  real_ok := fun d n P _ _ hr => by
    obtain ⟨hw, ho, ha⟩ := hr
    refine ⟨hw, by simp [Query.EL.abs, EdgeList.vertices, ho], fun u v => ?_⟩
    rw [← ha u v]; exact ((Query.EL.core_correct hw).arcs_mem u v).symm
  fits_of := fun _ _ _ _ => trivial

/-! ## the fixed-order representations have vertex set `0..order` -/

theorem al_contig (ap : Nat) (hap : 0 < ap) (d : AdjList) : ∀ v, v ∈ (alRep ap hap).vertices d ↔ v < d.order :=
  fun v => by show v ∈ List.range d.order ↔ _; simp
theorem mx_contig (d : AdjMatrix) : ∀ v, v ∈ mxRep.vertices d ↔ v < d.order :=
  fun v => by show v ∈ List.range d.order ↔ _; simp
theorem el_contig (d : EdgeList) : ∀ v, v ∈ elRep.vertices d ↔ v < d.order :=
  fun v => by show v ∈ List.range d.order ↔ _; simp

end GraafVerif.Laws
