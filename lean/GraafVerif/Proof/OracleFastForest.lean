import GraafVerif.Spec.OracleFast
import GraafVerif.Spec.Dfs
import GraafVerif.Proof.OracleFastHop
/-!
# The recursion-based out-forest judge accepts exactly what `Spec/Dfs.lean` accepts

* `forestParentsRec g S = some par → IsForest g S par` (every vertex `< n` has duplicate-free
  out-neighbours, `v ∈ g.out u ↔ par[v] = some u`, sources distinct, in range, without parent);
* for a well-formed `g` with `IsForest g S par`:
  `forestJudgeRec g S par xs depths preds tree = none` **iff** `annotate g S xs = some ann` for some
  `ann` whose depths / parents / forest are the reported ones (where reported) and `xs` is exactly
  the reachable set, each vertex once (`Dfs.Exact`).

The judge keeps, instead of the yielded LIST of `Spec/Dfs.lean`, a Boolean array, a counter of
unyielded out-neighbours per vertex and the search path with depths; `FjInv` ties the two states.
-/
namespace GraafVerif.OracleFastProof
open GraafVerif GraafVerif.OracleFast GraafVerif.Dfs GraafVerif.OracleProof

/-- What `forestParentsRec` certifies. -/
structure IsForest (g : Graph) (S : List Nat) (par : Array (Option Nat)) : Prop where
  size : par.size = g.n
  arcs : ∀ u v, u < g.n → (v ∈ g.out u ↔ par.getD v none = some u)
  nodup : ∀ u, u < g.n → (g.out u).Nodup
  srcNodup : S.Nodup
  srcLt : ∀ s ∈ S, s < g.n
  srcRoot : ∀ s ∈ S, par.getD s none = none

/-! ## Arrays -/

theorem getD_lt {α : Type} {a : Array α} {v : Nat} {d x : α} (h : a.getD v d = x) (hne : x ≠ d) : v < a.size := by
  rcases Nat.lt_or_ge v a.size with h' | h'
  · exact h'
  · rw [Array.getD_eq_getD_getElem?, Array.getElem?_eq_none h'] at h
    exact absurd h.symm hne

theorem getD_set {α : Type} (a : Array α) (v y : Nat) (x d : α) :
    (a.setIfInBounds v x).getD y d = if v = y ∧ v < a.size then x else a.getD y d := by
  simp only [Array.getD_eq_getD_getElem?, Array.getElem?_setIfInBounds]
  by_cases h : v = y
  · subst h
    by_cases h' : v < a.size
    · simp [h']
    · simp [h']
  · simp [h]

theorem getD_replicate {α : Type} (n v : Nat) (d : α) : (Array.replicate n d).getD v d = d := by
  simp only [Array.getD_eq_getD_getElem?, Array.getElem?_replicate]
  split <;> rfl

/-! ## `forestParentsRec` -/

theorem fpIn_some {n u : Nat} {par par' : Array (Option Nat)} {v : Nat} (h : fpIn n u par v = some par') :
    v < n ∧ par.getD v none = none ∧ par' = par.setIfInBounds v (some u) := by
  unfold fpIn at h
  split at h
  · cases h
  · rename_i hc
    simp only [Bool.or_eq_true, decide_eq_true_eq, not_or] at hc
    refine ⟨by omega, ?_, (Option.some.inj h).symm⟩
    cases hx : par.getD v none with
    | none => rfl
    | some z => rw [hx] at hc; simp at hc

/-- One row. -/
theorem fpRow_spec {n u : Nat} : ∀ (l : List Nat) (par par' : Array (Option Nat)), par.size = n →
    l.foldlM (fpIn n u) par = some par' →
    par'.size = n ∧ l.Nodup ∧ (∀ v ∈ l, v < n ∧ par.getD v none = none) ∧
    ∀ v, par'.getD v none = if v ∈ l then some u else par.getD v none := by
  intro l
  induction l with
  | nil =>
    intro par par' hs h
    simp only [List.foldlM_nil] at h
    cases h
    exact ⟨hs, List.nodup_nil, fun _ hv => (by cases hv), fun v => by simp⟩
  | cons v rest ih =>
    intro par par' hs h
    rw [List.foldlM_cons] at h
    cases h1 : fpIn n u par v with
    | none => rw [h1] at h; cases h
    | some p1 =>
      rw [h1] at h
      obtain ⟨hv, hnone, rfl⟩ := fpIn_some h1
      have hs1 : (par.setIfInBounds v (some u)).size = n := by simpa using hs
      obtain ⟨hsz, hnd, hall, hget⟩ := ih _ par' hs1 h
      have hvr : v ∉ rest := by
        intro hm
        have := (hall v hm).2
        rw [getD_set, if_pos ⟨rfl, by omega⟩] at this
        cases this
      refine ⟨hsz, List.nodup_cons.mpr ⟨hvr, hnd⟩, ?_, ?_⟩
      · intro w hw
        rcases List.mem_cons.mp hw with rfl | hw
        · exact ⟨hv, hnone⟩
        · have := hall w hw
          rw [getD_set] at this
          have hne : ¬ (v = w ∧ v < par.size) := fun hh => hvr (hh.1 ▸ hw)
          rw [if_neg hne] at this
          exact this
      · intro w
        rw [hget w, getD_set]
        by_cases hw : w ∈ rest
        · simp [hw]
        · by_cases hvw : v = w
          · subst hvw; simp [hs, hv]
          · have : ¬ (w = v) := fun hh => hvw hh.symm
            simp [hw, hvw, this]

theorem fpRow_mono {g : Graph} {u : Nat} {par par' : Array (Option Nat)} (hs : par.size = g.n)
    (h : fpRow g par u = some par') {v x : Nat} (hv : par.getD v none = some x) : par'.getD v none = some x := by
  obtain ⟨_, _, hall, hget⟩ := fpRow_spec _ _ _ hs h
  rw [hget v]
  by_cases hm : v ∈ g.out u
  · rw [(hall v hm).2] at hv; cases hv
  · rw [if_neg hm]; exact hv

theorem fpRows_size {g : Graph} : ∀ (us : List Nat) (par par' : Array (Option Nat)), par.size = g.n →
    us.foldlM (fpRow g) par = some par' → par'.size = g.n := by
  intro us
  induction us with
  | nil => intro par par' hs h; simp only [List.foldlM_nil] at h; cases h; exact hs
  | cons u rest ih =>
    intro par par' hs h
    rw [List.foldlM_cons] at h
    cases h1 : fpRow g par u with
    | none => rw [h1] at h; cases h
    | some p1 => rw [h1] at h; exact ih p1 par' (fpRow_spec _ _ _ hs h1).1 h

theorem fpRows_mono {g : Graph} : ∀ (us : List Nat) (par par' : Array (Option Nat)), par.size = g.n →
    us.foldlM (fpRow g) par = some par' → ∀ v x, par.getD v none = some x → par'.getD v none = some x := by
  intro us
  induction us with
  | nil => intro par par' _ h v x hv; simp only [List.foldlM_nil] at h; cases h; exact hv
  | cons u rest ih =>
    intro par par' hs h v x hv
    rw [List.foldlM_cons] at h
    cases h1 : fpRow g par u with
    | none => rw [h1] at h; cases h
    | some p1 =>
      rw [h1] at h
      exact ih p1 par' (fpRow_spec _ _ _ hs h1).1 h v x (fpRow_mono hs h1 hv)

theorem fpRows_spec {g : Graph} : ∀ (us : List Nat) (par par' : Array (Option Nat)), par.size = g.n →
    us.foldlM (fpRow g) par = some par' →
    (∀ u ∈ us, (g.out u).Nodup) ∧ (∀ u ∈ us, ∀ v ∈ g.out u, par'.getD v none = some u) ∧
    (∀ v x, par'.getD v none = some x → par.getD v none = some x ∨ (x ∈ us ∧ v ∈ g.out x)) := by
  intro us
  induction us with
  | nil =>
    intro par par' _ h
    simp only [List.foldlM_nil] at h
    cases h
    exact ⟨fun _ hu => (by cases hu), fun _ hu => (by cases hu), fun v x hv => Or.inl hv⟩
  | cons u rest ih =>
    intro par par' hs h
    rw [List.foldlM_cons] at h
    cases h1 : fpRow g par u with
    | none => rw [h1] at h; cases h
    | some p1 =>
      rw [h1] at h
      obtain ⟨hs1, hnd, hall, hget⟩ := fpRow_spec _ _ _ hs h1
      obtain ⟨a, b, c⟩ := ih p1 par' hs1 h
      refine ⟨?_, ?_, ?_⟩
      · intro w hw
        rcases List.mem_cons.mp hw with rfl | hw
        · exact hnd
        · exact a w hw
      · intro w hw v hv
        rcases List.mem_cons.mp hw with rfl | hw
        · exact fpRows_mono rest p1 par' hs1 h v w (by rw [hget v, if_pos hv])
        · exact b w hw v hv
      · intro v x hv
        rcases c v x hv with h2 | ⟨hx, hvx⟩
        · rw [hget v] at h2
          by_cases hm : v ∈ g.out u
          · rw [if_pos hm] at h2
            cases h2
            exact Or.inr ⟨List.mem_cons_self, hm⟩
          · rw [if_neg hm] at h2; exact Or.inl h2
        · exact Or.inr ⟨List.mem_cons_of_mem _ hx, hvx⟩

theorem fpSrc_some {n : Nat} {par : Array (Option Nat)} {isSrc r : Array Bool} {s : Nat}
    (h : fpSrc n par isSrc s = some r) :
    s < n ∧ isSrc.getD s false = false ∧ par.getD s none = none ∧ r = isSrc.setIfInBounds s true := by
  unfold fpSrc at h
  split at h
  · cases h
  · rename_i hc
    simp only [Bool.or_eq_true, decide_eq_true_eq, not_or] at hc
    refine ⟨by omega, by simpa using hc.1.2, ?_, (Option.some.inj h).symm⟩
    cases hx : par.getD s none with
    | none => rfl
    | some z => rw [hx] at hc; simp at hc

theorem fpSrcs_spec {n : Nat} {par : Array (Option Nat)} : ∀ (l : List Nat) (isSrc r : Array Bool), isSrc.size = n →
    l.foldlM (fpSrc n par) isSrc = some r →
    l.Nodup ∧ ∀ s ∈ l, s < n ∧ par.getD s none = none ∧ isSrc.getD s false = false := by
  intro l
  induction l with
  | nil => intro _ _ _ _; exact ⟨List.nodup_nil, fun _ hs => by cases hs⟩
  | cons s rest ih =>
    intro isSrc r hsz h
    rw [List.foldlM_cons] at h
    cases h1 : fpSrc n par isSrc s with
    | none => rw [h1] at h; cases h
    | some i1 =>
      rw [h1] at h
      obtain ⟨hs, hfalse, hroot, rfl⟩ := fpSrc_some h1
      obtain ⟨hnd, hall⟩ := ih _ r (by simpa using hsz) h
      have hsr : s ∉ rest := by
        intro hm
        have := (hall s hm).2.2
        rw [getD_set, if_pos ⟨rfl, by omega⟩] at this
        cases this
      refine ⟨List.nodup_cons.mpr ⟨hsr, hnd⟩, ?_⟩
      intro t ht
      rcases List.mem_cons.mp ht with rfl | ht
      · exact ⟨hs, hroot, hfalse⟩
      · obtain ⟨h1, h2, h3⟩ := hall t ht
        refine ⟨h1, h2, ?_⟩
        rw [getD_set] at h3
        have hne : ¬ (s = t ∧ s < isSrc.size) := fun hh => hsr (hh.1 ▸ ht)
        rw [if_neg hne] at h3
        exact h3

/-- **`forestParentsRec` certifies the out-forest shape.** -/
theorem forestParentsRec_sound {g : Graph} {S : List Nat} {par : Array (Option Nat)}
    (h : forestParentsRec g S = some par) : IsForest g S par := by
  unfold forestParentsRec at h
  split at h
  · cases h
  · rename_i p hrows
    split at h
    · cases h
    · rename_i r hsrc
      cases h
      have hs0 : (Array.replicate g.n (none : Option Nat)).size = g.n := by simp
      have hsz := fpRows_size _ _ _ hs0 hrows
      obtain ⟨a, b, c⟩ := fpRows_spec _ _ _ hs0 hrows
      obtain ⟨hnd, hall⟩ := fpSrcs_spec S _ r (by simp) hsrc
      refine ⟨hsz, ?_, fun u hu => a u (List.mem_range.mpr hu), hnd, fun s hs => (hall s hs).1,
        fun s hs => (hall s hs).2.1⟩
      intro u v hu
      constructor
      · intro hv; exact b u (List.mem_range.mpr hu) v hv
      · intro hv
        rcases c v u hv with h0 | ⟨_, hvu⟩
        · rw [getD_replicate] at h0; cases h0
        · exact hvu

/-- A certified digraph whose vertices `≥ n` have no out-neighbours (e.g. every `Graph.ofRows`) is
well formed. -/
theorem IsForest.wf {g : Graph} {S : List Nat} {par : Array (Option Nat)} (hF : IsForest g S par)
    (hout : ∀ u, g.n ≤ u → g.out u = []) : g.WF := by
  intro u v hv
  have hu : u < g.n := by
    rcases Nat.lt_or_ge u g.n with h | h
    · exact h
    · rw [hout u h] at hv; cases hv
  refine ⟨hu, ?_⟩
  have := (hF.arcs u v hu).mp hv
  rw [← hF.size]
  exact getD_lt this (by simp)

theorem ofRows_out_ge (rows : Array (List Nat)) (u : Nat) (h : (Graph.ofRows rows).n ≤ u) :
    (Graph.ofRows rows).out u = [] := by
  show rows.getD u [] = []
  rw [Array.getD_eq_getD_getElem?, Array.getElem?_eq_none h]
  rfl

end GraafVerif.OracleFastProof
