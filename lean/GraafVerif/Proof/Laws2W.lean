import GraafVerif.Thm.C20
/-!
# Laws2 — algebraic laws over mutation HISTORIES (C01 / C20), incl. `add_arc_weighted` overwrite

Spec level (`specStep .fixed` of `Spec/Repr.lean`, a plain weighted arc set): re-adding an arc with another
weight = adding it once with the last weight; adds of different arcs commute.  Lifted to the models
(`AdjacencyListWeighted`, and the unweighted shadows `AdjacencyList`, `EdgeList`) through C20's `Converges`.
-/
namespace GraafVerif.Laws2
open GraafVerif.Repr GraafVerif.ReprSpec

theorem rejected_setW {ω : Type} (s : SpecState ω) (W' : Nat → Nat → Option ω) (u v : Nat) :
    rejected .fixed (⟨s.V, W'⟩ : SpecState ω) u v = rejected .fixed s u v := rfl

/-- `add (u,v,w₁); add (u,v,w₂)` = `add (u,v,w₂)` — also when the call is rejected (both sides unchanged) -/
theorem spec_add_add {ω : Type} (s : SpecState ω) (u v : Nat) (w1 w2 : ω) :
    (run (specStep .fixed) s [.add u v w1, .add u v w2]).1 = (run (specStep .fixed) s [.add u v w2]).1 := by
  simp only [run]
  cases hr : rejected .fixed s u v
  · rw [specStep_add_ok w1 hr, specStep_add_ok w2 hr]
    simp only [grow]
    rw [specStep_add_ok w2 (by rw [rejected_setW]; exact hr)]
    simp only [grow, setW_setW]
  · rw [specStep_add_rej w1 hr, specStep_add_rej w2 hr]

theorem setW_comm {ω : Type} (W : Nat → Nat → Option ω) (u v x y : Nat) (a b : Option ω) (hne : ¬ (u = x ∧ v = y)) :
    setW (setW W u v a) x y b = setW (setW W x y b) u v a := by
  funext p q
  simp only [setW]
  by_cases h1 : p = x ∧ q = y <;> by_cases h2 : p = u ∧ q = v
  · exact (hne ⟨h2.1 ▸ h1.1, h2.2 ▸ h1.2⟩).elim
  · rw [if_pos h1, if_neg h2, if_pos h1]
  · rw [if_neg h1, if_pos h2, if_pos h2]
  · rw [if_neg h1, if_neg h2, if_neg h2, if_neg h1]

/-- adds of two DIFFERENT arcs commute (each may be rejected independently: the vertex set is fixed) -/
theorem spec_add_comm {ω : Type} (s : SpecState ω) (u v x y : Nat) (w w' : ω) (hne : ¬ (u = x ∧ v = y)) :
    (run (specStep .fixed) s [.add u v w, .add x y w']).1 = (run (specStep .fixed) s [.add x y w', .add u v w]).1 := by
  simp only [run]
  cases h1 : rejected .fixed s u v <;> cases h2 : rejected .fixed s x y
  · rw [specStep_add_ok w h1, specStep_add_ok w' h2]
    simp only [grow]
    rw [specStep_add_ok w' (by rw [rejected_setW]; exact h2), specStep_add_ok w (by rw [rejected_setW]; exact h1)]
    simp only [grow]
    rw [setW_comm _ _ _ _ _ _ _ hne]
  · rw [specStep_add_ok w h1, specStep_add_rej w' h2]
    simp only [grow]
    rw [specStep_add_rej w' (by rw [rejected_setW]; exact h2), specStep_add_ok w h1]
    simp only [grow]
  · rw [specStep_add_rej w h1, specStep_add_ok w' h2]
    simp only [grow]
    rw [specStep_add_rej w (by rw [rejected_setW]; exact h1)]
  · rw [specStep_add_rej w h1, specStep_add_rej w' h2, specStep_add_rej w h1]

/-- removing twice = removing once -/
theorem spec_rem_rem {ω : Type} (s : SpecState ω) (u v : Nat) :
    (run (specStep .fixed) s [.rem u v, .rem u v]).1 = (run (specStep .fixed) s [.rem u v]).1 := by
  simp only [run, specStep, setW_setW]

/-! ## `AdjacencyListWeighted` -/

/-- **overwrite law**: `add_arc_weighted(u, v, w₁); add_arc_weighted(u, v, w₂)` leaves the IDENTICAL structure
as `add_arc_weighted(u, v, w₂)` alone. -/
theorem adjListW_add_overwrite (d : AdjListW) (h : d.WF) (u v : Nat) (w1 w2 : Int) :
    (run AdjListW.step d [.add u v w1, .add u v w2]).1 = (run AdjListW.step d [.add u v w2]).1 :=
  C20.adjListW_converges d d h h _ _ (spec_add_add _ u v w1 w2)

/-- … and `arc_weight(u, v)` then reads the LAST weight, `has_arc(u, v)` is true. -/
theorem adjListW_overwrite_reads (d : AdjListW) (h : d.WF) (u v : Nat) (w1 w2 : Int)
    (hok : rejected .fixed d.abs u v = false) :
    ((run AdjListW.step d [.add u v w1, .add u v w2]).1).arcWeight u v = some w2 ∧
    ((run AdjListW.step d [.add u v w1, .add u v w2]).1).WF := by
  have hr := AdjListW.run_refines [.add u v w1, .add u v w2] d h
  refine ⟨?_, hr.1⟩
  have : ((run AdjListW.step d [.add u v w1, .add u v w2]).1).abs.W u v = some w2 := by
    rw [hr.2.1, spec_add_add, show (run (specStep .fixed) d.abs [Op.add u v w2]).1 = (specStep .fixed d.abs (.add u v w2)).1 from rfl,
      specStep_add_ok w2 hok]
    simp [setW]
  exact this

theorem adjListW_add_comm (d : AdjListW) (h : d.WF) (u v x y : Nat) (w w' : Int) (hne : ¬ (u = x ∧ v = y)) :
    (run AdjListW.step d [.add u v w, .add x y w']).1 = (run AdjListW.step d [.add x y w', .add u v w]).1 :=
  C20.adjListW_converges d d h h _ _ (spec_add_comm _ u v x y w w' hne)

theorem adjListW_rem_rem (d : AdjListW) (h : d.WF) (u v : Nat) :
    (run AdjListW.step d [.rem u v, .rem u v]).1 = (run AdjListW.step d [.rem u v]).1 :=
  C20.adjListW_converges d d h h _ _ (spec_rem_rem _ u v)

/-! ## the unweighted shadows: `add_arc` is idempotent, adds commute -/

theorem adjList_add_idem (d : AdjList) (h : d.WF) (u v : Nat) :
    (run AdjList.step d [.add u v (), .add u v ()]).1 = (run AdjList.step d [.add u v ()]).1 :=
  C20.adjList_converges d d h h _ _ (spec_add_add _ u v () ())
theorem adjList_add_comm (d : AdjList) (h : d.WF) (u v x y : Nat) (hne : ¬ (u = x ∧ v = y)) :
    (run AdjList.step d [.add u v (), .add x y ()]).1 = (run AdjList.step d [.add x y (), .add u v ()]).1 :=
  C20.adjList_converges d d h h _ _ (spec_add_comm _ u v x y () () hne)
theorem edgeList_add_idem (d : EdgeList) (h : d.WF) (u v : Nat) :
    (run EdgeList.step d [.add u v (), .add u v ()]).1 = (run EdgeList.step d [.add u v ()]).1 :=
  C20.edgeList_converges d d h h _ _ (spec_add_add _ u v () ())
theorem edgeList_add_comm (d : EdgeList) (h : d.WF) (u v x y : Nat) (hne : ¬ (u = x ∧ v = y)) :
    (run EdgeList.step d [.add u v (), .add x y ()]).1 = (run EdgeList.step d [.add x y (), .add u v ()]).1 :=
  C20.edgeList_converges d d h h _ _ (spec_add_comm _ u v x y () () hne)

end GraafVerif.Laws2
