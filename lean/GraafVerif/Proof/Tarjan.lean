import GraafVerif.Proof.TarjanStep
/-!
# Correctness of the Tarjan model

* `connect_post`: the contract of `connect` (induction on the fuel; the fuel bound is the number
  of un-indexed vertices, so the induction is also the termination proof);
* `connect_fuel_adequate`: no fault, and the result is the same for every fuel ≥ the bound;
* `run_inv`: the top-level loop keeps `Inv g []` (empty call path ⇒ empty stack);
* `components_correct`: the result is the partition into strongly connected components.
-/
namespace GraafVerif.Tarjan
open GraafVerif

theorem unindexed_pos {g : VGraph} {gray : List Nat} {u : Nat} {s : St} (p : Pre g gray u s) :
    0 < unindexed g s := by
  unfold unindexed
  apply List.length_pos_of_mem (a := u)
  rw [List.mem_filter]
  refine ⟨p.vert, ?_⟩
  have := p.fresh
  simp only [St.indexed, ne_eq, Decidable.not_not] at this
  simp [this]

/-- The contract of `connect`, for every fuel that is at least the number of un-indexed vertices. -/
theorem connect_post (g : VGraph) (hclosed : g.Closed) :
    ∀ (fuel : Nat) (gray : List Nat) (u : Nat) (s : St), Pre g gray u s → unindexed g s ≤ fuel →
      Post g gray u s (connect g fuel u s) := by
  intro fuel
  induction fuel with
  | zero =>
    intro gray u s p h
    have := unindexed_pos p
    omega
  | succ fuel ih =>
    intro gray u s p h
    rw [connect_succ]
    have hu : g.verts.contains u = true := by simpa using p.vert
    simp only [hu, if_true]
    have L := loop_all p (connect g fuel)
      (fun v t _ pre hlt => ih (u :: gray) v t pre (by omega))
      (hclosed u p.vert) (g.out u) [] (enter u s) (fun _ hv => hv) (loop_init p)
    rw [List.nil_append] at L
    exact finish_post p L

/-- [P0] Fuel adequacy: under the precondition, `connect` never faults (neither out of fuel nor
a panic) and returns the same state for EVERY fuel ≥ the number of un-indexed vertices. -/
theorem connect_fuel_adequate (g : VGraph) (hclosed : g.Closed) (gray : List Nat) (u : Nat) (s : St)
    (p : Pre g gray u s) (fuel : Nat) (h : unindexed g s ≤ fuel) :
    (connect g fuel u s).fault = none ∧ connect g fuel u s = connect g (unindexed g s) u s := by
  have P := connect_post g hclosed (unindexed g s) gray u s p (Nat.le_refl _)
  have hk : fuel = unindexed g s + (fuel - unindexed g s) := by omega
  have heq : connect g fuel u s = connect g (unindexed g s) u s := by
    rw [hk]
    exact connect_fuel_mono g _ _ u s (by rw [P.inv.nofault]; simp)
  exact ⟨by rw [heq]; exact P.inv.nofault, heq⟩

/-! ## The top-level loop -/

theorem inv_init (g : VGraph) : Inv g [] ({} : St) := by
  have hni : ∀ x, ¬ St.indexed ({} : St) x := by intro x; simp [St.indexed]
  constructor
  · rfl
  · intro x; exact Iff.rfl
  · intro x; simp [St.indexed]
  · intro c hc; simp at hc
  · exact List.Pairwise.nil
  · intro c hc; simp at hc
  · intro x hx; exact absurd hx (hni x)
  · intro x hx; exact absurd hx (hni x)
  · intro x hx; exact absurd hx (hni x)
  · exact List.Pairwise.nil
  · intro z hz; simp at hz
  · intro x hx; exact absurd hx (hni x)
  · intro z hz; simp at hz
  · intro y hy; simp at hy
  · intro c hc; simp at hc

theorem top_step {g : VGraph} (hclosed : g.Closed) {s : St} (inv : Inv g [] s) {u : Nat}
    (hu : u ∈ g.verts) : Inv g [] (top g s u) ∧ Ext s (top g s u) ∧ (top g s u).indexed u := by
  unfold top
  have hf : s.fault.isSome = false := by simp [inv.nofault]
  simp only [hf, Bool.false_eq_true, if_false]
  cases hidx : mget s.index u with
  | some k =>
    simp only [Option.isSome_some, if_true]
    exact ⟨inv, Ext.refl s, St.indexed_of_some hidx⟩
  | none =>
    simp only [Option.isSome_none, Bool.false_eq_true, if_false]
    have p : Pre g [] u s := ⟨inv, hu, by simp [St.indexed, hidx], by intro z hz; simp at hz⟩
    have P := connect_post g hclosed (unindexed g s + 1) [] u s p (by omega)
    exact ⟨P.inv, P.ext, St.indexed_of_some P.idxV⟩

theorem run_fold {g : VGraph} (hclosed : g.Closed) :
    ∀ (l : List Nat) (s : St), (∀ v ∈ l, v ∈ g.verts) → Inv g [] s →
      Inv g [] (l.foldl (top g) s) ∧ Ext s (l.foldl (top g) s) ∧ ∀ v ∈ l, (l.foldl (top g) s).indexed v := by
  intro l
  induction l with
  | nil => intro s _ inv; exact ⟨inv, Ext.refl s, by simp⟩
  | cons u l ih =>
    intro s hl inv
    obtain ⟨i1, e1, x1⟩ := top_step hclosed inv (hl u List.mem_cons_self)
    obtain ⟨i2, e2, x2⟩ := ih (top g s u) (fun v hv => hl v (List.mem_cons_of_mem _ hv)) i1
    refine ⟨i2, e1.trans e2, ?_⟩
    intro v hv
    rcases List.mem_cons.mp hv with h | h
    · subst h; exact e2.indexed x1
    · exact x2 v h

theorem run_inv {g : VGraph} (hclosed : g.Closed) :
    Inv g [] (run g) ∧ ∀ v ∈ g.verts, (run g).indexed v := by
  obtain ⟨i, _, x⟩ := run_fold hclosed g.verts {} (fun _ h => h) (inv_init g)
  exact ⟨i, x⟩

/-- Fuel adequacy of the whole run: any fuel supply that is at least the number of un-indexed
vertices gives the same final state as the model's `unindexed + 1`. -/
theorem runWith_eq {g : VGraph} (hclosed : g.Closed) (fuelOf : St → Nat)
    (hf : ∀ s, unindexed g s ≤ fuelOf s) : runWith g fuelOf = run g := by
  have key : ∀ (l : List Nat) (s : St), (∀ v ∈ l, v ∈ g.verts) → Inv g [] s →
      l.foldl (topWith g fuelOf) s = l.foldl (top g) s := by
    intro l
    induction l with
    | nil => intro s _ _; rfl
    | cons u l ih =>
      intro s hl inv
      have hu := hl u List.mem_cons_self
      have hstep : topWith g fuelOf s u = top g s u := by
        unfold topWith top
        have hfl : s.fault.isSome = false := by simp [inv.nofault]
        simp only [hfl, Bool.false_eq_true, if_false]
        cases hidx : mget s.index u with
        | some k => simp
        | none =>
          simp only [Option.isSome_none, Bool.false_eq_true, if_false]
          have p : Pre g [] u s := ⟨inv, hu, by simp [St.indexed, hidx], by intro z hz; simp at hz⟩
          rw [(connect_fuel_adequate g hclosed [] u s p (fuelOf s) (hf s)).2,
            (connect_fuel_adequate g hclosed [] u s p (unindexed g s + 1) (by omega)).2]
      simp only [List.foldl_cons, hstep]
      exact ih _ (fun v hv => hl v (List.mem_cons_of_mem _ hv)) (top_step hclosed inv hu).1
  exact key g.verts {} (fun _ h => h) (inv_init g)

/-! ## Calling `components()` again on the same value -/

/-- Once every vertex of `l` is indexed the top-level loop over `l` does nothing. -/
theorem fold_top_idle {g : VGraph} {s : St} (inv : Inv g [] s) :
    ∀ (l : List Nat), (∀ v ∈ l, s.indexed v) → l.foldl (top g) s = s := by
  intro l
  induction l with
  | nil => intro _; rfl
  | cons u l ih =>
    intro h
    have hu := h u List.mem_cons_self
    have hstep : top g s u = s := by
      unfold top
      have hfl : s.fault.isSome = false := by simp [inv.nofault]
      simp only [hfl, Bool.false_eq_true, if_false]
      cases hidx : mget s.index u with
      | some k => simp
      | none => exact absurd hidx hu
    simp only [List.foldl_cons, hstep]
    exact ih (fun v hv => h v (List.mem_cons_of_mem _ hv))

theorem resOf_run (g : VGraph) : resOf (run g) = components g := rfl

/-- Every call after the first leaves the state of the first call untouched. -/
theorem callN_succ {g : VGraph} (hclosed : g.Closed) : ∀ k, callN g (k + 1) = run g := by
  intro k
  induction k with
  | zero => rfl
  | succ k ih =>
    obtain ⟨inv, hall⟩ := run_inv hclosed
    show g.verts.foldl (top g) (callN g (k + 1)) = run g
    rw [ih]
    exact fold_top_idle inv g.verts hall

theorem Inv.stack_nil {g : VGraph} {s : St} (inv : Inv g [] s) : s.stack = [] := by
  apply List.eq_nil_iff_forall_not_mem.mpr
  intro y hy
  obtain ⟨z, hz, _⟩ := inv.toGray y hy
  simp at hz

/-- Final state with every vertex indexed ⇒ the component list is the SCC partition. -/
theorem partition_of_inv {g : VGraph} {s : St} (inv : Inv g [] s) (hall : ∀ v ∈ g.verts, s.indexed v) :
    IsSCCPartition g s.comps := by
  have hst := inv.stack_nil
  have hcov : ∀ v, v ∈ g.verts ↔ ∃ c ∈ s.comps, v ∈ c := by
    intro v
    constructor
    · intro hv
      rcases (inv.indexedIff v).mp (hall v hv) with h | h
      · rw [hst] at h; simp at h
      · exact h
    · intro h
      exact inv.verts v ((inv.indexedIff v).mpr (Or.inr h))
  refine ⟨fun c hc => (inv.compAsc c hc).2, inv.compDisj, ?_, hcov, ?_⟩
  · intro c hc
    exact (inv.compAsc c hc).1.imp (fun h => Nat.ne_of_lt h)
  · intro u hu v _
    constructor
    · rintro ⟨c, hc, huc, hvc⟩
      exact ⟨(inv.sccs c hc).1 u huc v hvc, (inv.sccs c hc).1 v hvc u huc⟩
    · rintro ⟨huv, hvu⟩
      obtain ⟨c, hc, huc⟩ := (hcov u).mp hu
      exact ⟨c, hc, huc, (inv.sccs c hc).2 u huc v huv hvu⟩

/-- The model of `Tarjan::components` returns (no panic, no fuel exhaustion) the partition of the
vertex set into strongly connected components. -/
theorem components_correct (g : VGraph) (hclosed : g.Closed) :
    ∃ cs, components g = .ret cs ∧ IsSCCPartition g cs := by
  obtain ⟨inv, hall⟩ := run_inv hclosed
  refine ⟨(run g).comps, ?_, partition_of_inv inv hall⟩
  unfold components
  rw [inv.nofault]

end GraafVerif.Tarjan
