import GraafVerif.Model.Ops
/-!
# Container lemmas used by the C11 proofs (local copies; `Proof/ReprSorted.lean` of the
representation builder has the shared versions — to be de-duplicated by the coordinator)

Strictly ascending lists as models of `BTreeSet<usize>`, `BTreeSet<(usize,usize)>`,
`BTreeMap<usize, X>`: membership and sortedness of insert / erase / collect, and extensionality
(two strictly sorted lists with the same members are equal).
-/
namespace GraafVerif.Ops
open GraafVerif.Repr

/-! ## `BTreeSet<usize>` -/

theorem mem_sinsert {x a : Nat} {l : List Nat} : a ∈ sinsert x l ↔ a = x ∨ a ∈ l := by
  induction l with
  | nil => simp [sinsert]
  | cons y ys ih =>
    unfold sinsert
    split
    · simp
    · split
      · rename_i h; subst h; simp
      · simp only [List.mem_cons, ih]; grind

theorem sorted_sinsert {x : Nat} {l : List Nat} (h : SortedS l) : SortedS (sinsert x l) := by
  induction l with
  | nil => simp [sinsert, SortedS]
  | cons y ys ih =>
    unfold SortedS at h ⊢
    rw [List.pairwise_cons] at h
    unfold sinsert
    split
    · rename_i hxy
      rw [List.pairwise_cons]
      refine ⟨?_, List.pairwise_cons.mpr h⟩
      intro b hb
      rcases List.mem_cons.mp hb with rfl | hb
      · exact hxy
      · exact Nat.lt_trans hxy (h.1 b hb)
    · split
      · exact List.pairwise_cons.mpr h
      · rename_i h1 h2
        rw [List.pairwise_cons]
        refine ⟨?_, ih h.2⟩
        intro b hb
        rcases mem_sinsert.mp hb with rfl | hb
        · omega
        · exact h.1 b hb

theorem sinsert_of_lt_all {x : Nat} {l : List Nat} (h : ∀ y ∈ l, y < x) : sinsert x l = l ++ [x] := by
  induction l with
  | nil => simp [sinsert]
  | cons y ys ih =>
    have hy := h y (by simp)
    unfold sinsert
    rw [if_neg (by omega), if_neg (by omega), ih (fun z hz => h z (by simp [hz]))]
    simp

theorem foldl_sinsert_sorted (l acc : List Nat) (h : SortedS (acc ++ l)) :
    l.foldl (fun s x => sinsert x s) acc = acc ++ l := by
  induction l generalizing acc with
  | nil => simp
  | cons x xs ih =>
    simp only [List.foldl_cons]
    have hx : ∀ y ∈ acc, y < x := by
      intro y hy
      unfold SortedS at h
      rw [List.pairwise_append] at h
      exact h.2.2 y hy x (by simp)
    rw [sinsert_of_lt_all hx, ih (acc ++ [x]) (by simpa using h)]
    simp

/-- Collecting an ascending duplicate-free sequence into a `BTreeSet` keeps it. -/
theorem toSet_of_sorted {l : List Nat} (h : SortedS l) : toSet l = l := by
  have := foldl_sinsert_sorted l [] (by simpa using h)
  simpa [toSet] using this

theorem mem_foldl_sinsert {a : Nat} (l acc : List Nat) :
    a ∈ l.foldl (fun s x => sinsert x s) acc ↔ a ∈ acc ∨ a ∈ l := by
  induction l generalizing acc with
  | nil => simp
  | cons x xs ih => simp only [List.foldl_cons, ih, mem_sinsert, List.mem_cons]; grind

theorem mem_toSet {a : Nat} {l : List Nat} : a ∈ toSet l ↔ a ∈ l := by
  simp [toSet, mem_foldl_sinsert]

theorem sorted_foldl_sinsert (l acc : List Nat) (h : SortedS acc) :
    SortedS (l.foldl (fun s x => sinsert x s) acc) := by
  induction l generalizing acc with
  | nil => simpa
  | cons x xs ih => exact ih _ (sorted_sinsert h)

theorem sorted_toSet (l : List Nat) : SortedS (toSet l) :=
  sorted_foldl_sinsert l [] (by simp [SortedS])

theorem mem_serase {x a : Nat} {l : List Nat} (h : SortedS l) : a ∈ serase x l ↔ a ∈ l ∧ a ≠ x := by
  induction l with
  | nil => simp [serase]
  | cons y ys ih =>
    unfold SortedS at h
    rw [List.pairwise_cons] at h
    unfold serase
    split
    · rename_i hxy; subst hxy
      constructor
      · intro ha; exact ⟨by simp [ha], fun e => by have := h.1 a ha; omega⟩
      · rintro ⟨ha, hne⟩
        rcases List.mem_cons.mp ha with rfl | ha
        · exact absurd rfl hne
        · exact ha
    · split
      · rename_i h1 h2
        constructor
        · intro ha
          refine ⟨ha, fun e => ?_⟩
          subst e
          rcases List.mem_cons.mp ha with rfl | ha
          · exact h1 rfl
          · have := h.1 a ha; omega
        · exact fun ha => ha.1
      · simp only [List.mem_cons, ih h.2]; grind

theorem sorted_serase {x : Nat} {l : List Nat} (h : SortedS l) : SortedS (serase x l) := by
  induction l with
  | nil => simp [serase, SortedS]
  | cons y ys ih =>
    have h' := h
    unfold SortedS at h ⊢
    rw [List.pairwise_cons] at h
    unfold serase
    split
    · exact h.2
    · split
      · exact List.pairwise_cons.mpr h
      · rw [List.pairwise_cons]
        refine ⟨fun b hb => h.1 b ((mem_serase h.2).mp hb).1, ih h.2⟩

theorem SortedS.ext {a b : List Nat} (ha : SortedS a) (hb : SortedS b) (h : ∀ x, x ∈ a ↔ x ∈ b) : a = b := by
  induction a generalizing b with
  | nil =>
    cases b with
    | nil => rfl
    | cons y ys => exact absurd ((h y).mpr (by simp)) (by simp)
  | cons x xs ih =>
    cases b with
    | nil => exact absurd ((h x).mp (by simp)) (by simp)
    | cons y ys =>
      unfold SortedS at ha hb
      rw [List.pairwise_cons] at ha hb
      have hxy : x = y := by
        have h1 := (h x).mp (by simp)
        have h2 := (h y).mpr (by simp)
        rcases List.mem_cons.mp h1 with e | h1
        · exact e
        · rcases List.mem_cons.mp h2 with e | h2
          · exact e.symm
          · have := hb.1 x h1; have := ha.1 y h2; omega
      subst hxy
      congr 1
      apply ih ha.2 hb.2
      intro z
      constructor
      · intro hz
        have := (h z).mp (by simp [hz])
        rcases List.mem_cons.mp this with e | h3
        · subst e; have := ha.1 z hz; omega
        · exact h3
      · intro hz
        have := (h z).mpr (by simp [hz])
        rcases List.mem_cons.mp this with e | h3
        · subst e; have := hb.1 z hz; omega
        · exact h3

theorem sorted_filter {l : List Nat} (p : Nat → Bool) (h : SortedS l) : SortedS (l.filter p) :=
  List.Pairwise.filter p h

theorem sorted_range (n : Nat) : SortedS (List.range n) := by
  unfold SortedS
  exact List.pairwise_lt_range

/-! ## `BTreeSet<(usize, usize)>` -/

def PSorted (l : List (Nat × Nat)) : Prop := l.Pairwise (fun a b => pairLt a b = true)

theorem pairLt_iff {a b : Nat × Nat} : pairLt a b = true ↔ a.1 < b.1 ∨ (a.1 = b.1 ∧ a.2 < b.2) := by
  simp [pairLt]

theorem pairLt_trans {a b c : Nat × Nat} (h1 : pairLt a b = true) (h2 : pairLt b c = true) :
    pairLt a c = true := by
  rw [pairLt_iff] at *; omega

theorem pairLt_irrefl (a : Nat × Nat) : pairLt a a = false := by
  cases h : pairLt a a
  · rfl
  · rw [pairLt_iff] at h; omega

theorem pairLt_of_not {a b : Nat × Nat} (h1 : ¬ pairLt a b = true) (h2 : a ≠ b) : pairLt b a = true := by
  rw [pairLt_iff] at *
  have : a.1 ≠ b.1 ∨ a.2 ≠ b.2 := by
    rcases a with ⟨a1, a2⟩; rcases b with ⟨b1, b2⟩
    simp only [ne_eq, Prod.mk.injEq] at h2 ⊢
    omega
  omega

theorem pairLt_ne {a b : Nat × Nat} (h : pairLt a b = true) : a ≠ b := by
  rintro rfl; rw [pairLt_irrefl] at h; cases h

theorem mem_pinsert {x a : Nat × Nat} {l : List (Nat × Nat)} : a ∈ pinsert x l ↔ a = x ∨ a ∈ l := by
  induction l with
  | nil => simp [pinsert]
  | cons y ys ih =>
    unfold pinsert
    split
    · simp
    · split
      · rename_i h; subst h; simp
      · simp only [List.mem_cons, ih]; grind

theorem sorted_pinsert {x : Nat × Nat} {l : List (Nat × Nat)} (h : PSorted l) : PSorted (pinsert x l) := by
  induction l with
  | nil => simp [pinsert, PSorted]
  | cons y ys ih =>
    unfold PSorted at h ⊢
    rw [List.pairwise_cons] at h
    unfold pinsert
    split
    · rename_i hxy
      rw [List.pairwise_cons]
      refine ⟨?_, List.pairwise_cons.mpr h⟩
      intro b hb
      rcases List.mem_cons.mp hb with rfl | hb
      · exact hxy
      · exact pairLt_trans hxy (h.1 b hb)
    · split
      · exact List.pairwise_cons.mpr h
      · rename_i h1 h2
        rw [List.pairwise_cons]
        refine ⟨?_, ih h.2⟩
        intro b hb
        rcases mem_pinsert.mp hb with rfl | hb
        · exact pairLt_of_not h1 h2
        · exact h.1 b hb

theorem pinsert_of_lt_all {x : Nat × Nat} {l : List (Nat × Nat)} (h : ∀ y ∈ l, pairLt y x = true) :
    pinsert x l = l ++ [x] := by
  induction l with
  | nil => simp [pinsert]
  | cons y ys ih =>
    have hy := h y (by simp)
    unfold pinsert
    have h1 : ¬ pairLt x y = true := by
      intro hc; have := pairLt_trans hc hy; rw [pairLt_irrefl] at this; cases this
    have h2 : ¬ x = y := fun e => pairLt_ne hy e.symm
    rw [if_neg h1, if_neg h2, ih (fun z hz => h z (by simp [hz]))]
    simp

theorem foldl_pinsert_sorted (l acc : List (Nat × Nat)) (h : PSorted (acc ++ l)) :
    l.foldl (fun s x => pinsert x s) acc = acc ++ l := by
  induction l generalizing acc with
  | nil => simp
  | cons x xs ih =>
    simp only [List.foldl_cons]
    have hx : ∀ y ∈ acc, pairLt y x = true := by
      intro y hy
      unfold PSorted at h
      rw [List.pairwise_append] at h
      exact h.2.2 y hy x (by simp)
    rw [pinsert_of_lt_all hx, ih (acc ++ [x]) (by simpa using h)]
    simp

theorem toPSet_of_sorted {l : List (Nat × Nat)} (h : PSorted l) : toPSet l = l := by
  have := foldl_pinsert_sorted l [] (by simpa using h)
  simpa [toPSet] using this

theorem mem_foldl_pinsert {a : Nat × Nat} (l acc : List (Nat × Nat)) :
    a ∈ l.foldl (fun s x => pinsert x s) acc ↔ a ∈ acc ∨ a ∈ l := by
  induction l generalizing acc with
  | nil => simp
  | cons x xs ih => simp only [List.foldl_cons, ih, mem_pinsert, List.mem_cons]; grind

theorem mem_toPSet {a : Nat × Nat} {l : List (Nat × Nat)} : a ∈ toPSet l ↔ a ∈ l := by
  simp [toPSet, mem_foldl_pinsert]

theorem sorted_foldl_pinsert (l acc : List (Nat × Nat)) (h : PSorted acc) :
    PSorted (l.foldl (fun s x => pinsert x s) acc) := by
  induction l generalizing acc with
  | nil => simpa
  | cons x xs ih => exact ih _ (sorted_pinsert h)

theorem sorted_toPSet (l : List (Nat × Nat)) : PSorted (toPSet l) :=
  sorted_foldl_pinsert l [] (by simp [PSorted])

theorem PSorted.ext {a b : List (Nat × Nat)} (ha : PSorted a) (hb : PSorted b)
    (h : ∀ x, x ∈ a ↔ x ∈ b) : a = b := by
  induction a generalizing b with
  | nil =>
    cases b with
    | nil => rfl
    | cons y ys => exact absurd ((h y).mpr (by simp)) (by simp)
  | cons x xs ih =>
    cases b with
    | nil => exact absurd ((h x).mp (by simp)) (by simp)
    | cons y ys =>
      unfold PSorted at ha hb
      rw [List.pairwise_cons] at ha hb
      have hxy : x = y := by
        have h1 := (h x).mp (by simp)
        have h2 := (h y).mpr (by simp)
        rcases List.mem_cons.mp h1 with e | h1
        · exact e
        · rcases List.mem_cons.mp h2 with e | h2
          · exact e.symm
          · have := pairLt_trans (hb.1 x h1) (ha.1 y h2)
            rw [pairLt_irrefl] at this; cases this
      subst hxy
      congr 1
      apply ih ha.2 hb.2
      intro z
      constructor
      · intro hz
        have := (h z).mp (by simp [hz])
        rcases List.mem_cons.mp this with e | h3
        · subst e; have := ha.1 z hz; rw [pairLt_irrefl] at this; cases this
        · exact h3
      · intro hz
        have := (h z).mpr (by simp [hz])
        rcases List.mem_cons.mp this with e | h3
        · subst e; have := hb.1 z hz; rw [pairLt_irrefl] at this; cases this
        · exact h3

/-! ## `BTreeMap<usize, X>` -/

theorem mget_eq_some_iff {X : Type} {k : Nat} {x : X} {m : List (Nat × X)} (h : SortedK m) :
    mget k m = some x ↔ (k, x) ∈ m := by
  induction m with
  | nil => simp [mget]
  | cons e es ih =>
    obtain ⟨k', x'⟩ := e
    unfold SortedK at h
    rw [List.pairwise_cons] at h
    unfold mget
    split
    · rename_i hk; subst hk
      constructor
      · intro hx; simp at hx; subst hx; simp
      · intro hm
        rcases List.mem_cons.mp hm with e | hm
        · simp at e; simp [e]
        · have := h.1 _ hm; simp at this
    · rename_i hk
      split
      · rename_i hlt
        constructor
        · intro hc; cases hc
        · intro hm
          rcases List.mem_cons.mp hm with e | hm
          · simp at e; exact absurd e.1 hk
          · have := h.1 _ hm; simp at this; omega
      · rw [ih h.2]
        constructor
        · intro hm; exact List.mem_cons_of_mem _ hm
        · intro hm
          rcases List.mem_cons.mp hm with e | hm
          · simp at e; exact absurd e.1 hk
          · exact hm

theorem mget_isSome_iff {X : Type} {k : Nat} {m : List (Nat × X)} (h : SortedK m) :
    (mget k m).isSome = true ↔ k ∈ m.map (·.1) := by
  rw [Option.isSome_iff_exists]
  simp only [mget_eq_some_iff h, List.mem_map]
  constructor
  · rintro ⟨x, hx⟩; exact ⟨(k, x), hx, rfl⟩
  · rintro ⟨⟨k', x⟩, hx, rfl⟩; exact ⟨x, hx⟩

theorem keys_mupsert {X : Type} {k : Nat} {d : X} {f : X → X} {m : List (Nat × X)} {a : Nat} :
    a ∈ (mupsert k d f m).map (·.1) ↔ a = k ∨ a ∈ m.map (·.1) := by
  induction m with
  | nil => simp [mupsert]
  | cons e es ih =>
    obtain ⟨k', x'⟩ := e
    unfold mupsert
    split
    · simp
    · split
      · rename_i h; subst h; simp
      · simp only [List.map_cons, List.mem_cons, ih]; grind

theorem sortedK_mupsert {X : Type} {k : Nat} {d : X} {f : X → X} {m : List (Nat × X)} (h : SortedK m) :
    SortedK (mupsert k d f m) := by
  induction m with
  | nil => simp [mupsert, SortedK]
  | cons e es ih =>
    obtain ⟨k', x'⟩ := e
    unfold SortedK at h ⊢
    rw [List.pairwise_cons] at h
    unfold mupsert
    split
    · rename_i hlt
      rw [List.pairwise_cons]
      refine ⟨?_, List.pairwise_cons.mpr h⟩
      intro b hb
      rcases List.mem_cons.mp hb with rfl | hb
      · exact hlt
      · exact Nat.lt_trans hlt (h.1 b hb)
    · split
      · rename_i h1 h2; subst h2
        exact List.pairwise_cons.mpr ⟨h.1, h.2⟩
      · rename_i h1 h2
        rw [List.pairwise_cons]
        refine ⟨?_, ih h.2⟩
        intro b hb
        have : b.1 ∈ (mupsert k d f es).map (·.1) := List.mem_map.mpr ⟨b, hb, rfl⟩
        rcases keys_mupsert.mp this with e | hb'
        · simp only []; omega
        · obtain ⟨b', hb', e⟩ := List.mem_map.mp hb'
          have := h.1 b' hb'
          simp only [] at this ⊢; omega

theorem mget_mupsert {X : Type} {k k' : Nat} {d : X} {f : X → X} {m : List (Nat × X)} (h : SortedK m) :
    mget k' (mupsert k d f m) = if k' = k then some (f ((mget k m).getD d)) else mget k' m := by
  induction m with
  | nil =>
    simp only [mupsert, mget]
    split <;> simp_all
  | cons e es ih =>
    obtain ⟨k0, x0⟩ := e
    unfold SortedK at h
    rw [List.pairwise_cons] at h
    unfold mupsert
    split
    · rename_i hlt
      by_cases hk : k' = k
      · subst hk; simp [mget, Nat.ne_of_lt hlt, hlt]
      · simp only [hk, if_false]
        rw [mget]
        simp only [hk, if_false]
        split
        · rename_i hlt'
          -- k' < k < k0
          simp [mget, show ¬ k' = k0 by omega, show k' < k0 by omega]
        · rfl
    · split
      · rename_i h1 h2; subst h2
        by_cases hk : k' = k
        · subst hk; simp [mget]
        · simp [mget, hk]
      · rename_i h1 h2
        by_cases hk : k' = k
        · subst hk
          simp only [if_true]
          rw [mget, if_neg h2, if_neg h1, ih h.2, if_pos rfl]
          simp [mget, h2, h1]
        · simp only [hk, if_false]
          rw [mget]
          by_cases hk0 : k' = k0
          · simp [hk0, mget]
          · simp only [hk0, if_false]
            rw [ih h.2, if_neg hk]
            simp [mget, hk0]

theorem mupsert_of_lt_all {X : Type} {k : Nat} {d : X} {f : X → X} {m : List (Nat × X)}
    (h : ∀ e ∈ m, e.1 < k) : mupsert k d f m = m ++ [(k, f d)] := by
  induction m with
  | nil => simp [mupsert]
  | cons e es ih =>
    obtain ⟨k0, x0⟩ := e
    have hy := h (k0, x0) (by simp)
    simp only [] at hy
    unfold mupsert
    rw [if_neg (by omega), if_neg (by omega), ih (fun z hz => h z (by simp [hz]))]
    simp

theorem foldl_minsert_sorted {X : Type} (l acc : List (Nat × X)) (h : SortedK (acc ++ l)) :
    l.foldl (fun m e => minsert e.1 e.2 m) acc = acc ++ l := by
  induction l generalizing acc with
  | nil => simp
  | cons x xs ih =>
    simp only [List.foldl_cons]
    have hx : ∀ y ∈ acc, y.1 < x.1 := by
      intro y hy
      unfold SortedK at h
      rw [List.pairwise_append] at h
      exact h.2.2 y hy x (by simp)
    rw [minsert, mupsert_of_lt_all hx, ih (acc ++ [(x.1, x.2)]) (by simpa using h)]
    simp

/-- Collecting a key-ascending sequence into a `BTreeMap` keeps it. -/
theorem toMap_of_sorted {X : Type} {l : List (Nat × X)} (h : SortedK l) : toMap l = l := by
  have := foldl_minsert_sorted l [] (by simpa using h)
  simpa [toMap] using this

theorem SortedK.ext {X : Type} {a b : List (Nat × X)} (ha : SortedK a) (hb : SortedK b)
    (h : ∀ e, e ∈ a ↔ e ∈ b) : a = b := by
  induction a generalizing b with
  | nil =>
    cases b with
    | nil => rfl
    | cons y ys => exact absurd ((h y).mpr (by simp)) (by simp)
  | cons x xs ih =>
    cases b with
    | nil => exact absurd ((h x).mp (by simp)) (by simp)
    | cons y ys =>
      unfold SortedK at ha hb
      rw [List.pairwise_cons] at ha hb
      have hxy : x = y := by
        have h1 := (h x).mp (by simp)
        have h2 := (h y).mpr (by simp)
        rcases List.mem_cons.mp h1 with e | h1
        · exact e
        · rcases List.mem_cons.mp h2 with e | h2
          · exact e.symm
          · have := hb.1 x h1; have := ha.1 y h2; omega
      subst hxy
      congr 1
      apply ih ha.2 hb.2
      intro z
      constructor
      · intro hz
        have := (h z).mp (by simp [hz])
        rcases List.mem_cons.mp this with e | h3
        · subst e; have := ha.1 z hz; omega
        · exact h3
      · intro hz
        have := (h z).mpr (by simp [hz])
        rcases List.mem_cons.mp this with e | h3
        · subst e; have := hb.1 z hz; omega
        · exact h3

end GraafVerif.Ops
