import GraafVerif.Model.AlgoGenRt
/-!
# Equations of the translator runtime (`Model/AlgoGenRt.lean`)

Rewrite rules used by the equality proofs of `Thm/AlgoGen.lean`: how the primitives reduce when
their precondition is known, and one-step unfoldings of the loop combinators.
-/
namespace GraafVerif.AlgoGen
open GraafVerif.Chk (Fault)

variable {α β γ ρ σ ι : Type}

@[simp] theorem ok_bind (a : α) (f : α → Blk β ρ γ) : ((Except.ok a : Blk β ρ α) >>= f) = f a := rfl
@[simp] theorem pure_bind' (a : α) (f : α → Blk β ρ γ) : ((pure a : Blk β ρ α) >>= f) = f a := rfl
@[simp] theorem error_bind (e : Exit β ρ) (f : α → Blk β ρ γ) : ((Except.error e : Blk β ρ α) >>= f) = .error e := rfl
@[simp] theorem pure_eq_ok (a : α) : (pure a : Blk β ρ α) = .ok a := rfl

@[simp] theorem assert_true : (assert true : Blk β ρ Unit) = .ok () := rfl
@[simp] theorem assert_false : (assert false : Blk β ρ Unit) = .error (.err (.fault .panic)) := rfl
theorem assert_pos {p : Prop} [Decidable p] (h : p) : (assert (decide p) : Blk β ρ Unit) = .ok () := by
  simp [h, assert_true]
theorem assert_neg {p : Prop} [Decidable p] (h : ¬p) :
    (assert (decide p) : Blk β ρ Unit) = .error (.err (.fault .panic)) := by
  simp [h, assert_false]

theorem rd_lt (site : String) (l : List α) (i : Nat) (h : i < l.length) :
    (rd site l i : Blk β ρ α) = .ok l[i] := by
  simp [rd, Chk.rd, List.getElem?_eq_getElem h, liftChk]
theorem rd_some (site : String) (l : List α) (i : Nat) (a : α) (h : l[i]? = some a) :
    (rd site l i : Blk β ρ α) = .ok a := by
  simp [rd, Chk.rd, h, liftChk]
theorem idx_some (l : List α) (i : Nat) (a : α) (h : l[i]? = some a) : (idx l i : Blk β ρ α) = .ok a := by
  simp [idx, Chk.rdChecked, h, liftChk]
theorem rd_ge (site : String) (l : List α) (i : Nat) (h : l.length ≤ i) :
    (rd site l i : Blk β ρ α) = .error (.err (.fault (.ub site))) := by
  simp [rd, Chk.rd, List.getElem?_eq_none h, liftChk]
theorem wr_lt (site : String) (l : List α) (i : Nat) (v : α) (h : i < l.length) :
    (wr site l i v : Blk β ρ (List α)) = .ok (l.set i v) := by
  simp [wr, Chk.wr, h, liftChk]
theorem wr_ge (site : String) (l : List α) (i : Nat) (v : α) (h : l.length ≤ i) :
    (wr site l i v : Blk β ρ (List α)) = .error (.err (.fault (.ub site))) := by
  have : ¬ i < l.length := by omega
  simp [wr, Chk.wr, this, liftChk]
theorem idx_lt (l : List α) (i : Nat) (h : i < l.length) : (idx l i : Blk β ρ α) = .ok l[i] := by
  simp [idx, Chk.rdChecked, List.getElem?_eq_getElem h, liftChk]
theorem idx_ge (l : List α) (i : Nat) (h : l.length ≤ i) :
    (idx l i : Blk β ρ α) = .error (.err (.fault .panic)) := by
  simp [idx, Chk.rdChecked, List.getElem?_eq_none h, liftChk]

@[simp] theorem forLoop_nil (body : σ → α → Blk σ ρ σ) (s : σ) :
    (forLoop body [] s : Blk β ρ σ) = .ok s := rfl

theorem forLoop_cons (body : σ → α → Blk σ ρ σ) (a : α) (l : List α) (s : σ) :
    (forLoop body (a :: l) s : Blk β ρ σ) =
      match body s a with
      | .ok s' => forLoop body l s'
      | .error (.brk s') => .ok s'
      | .error (.ret r) => .error (.ret r)
      | .error (.err e) => .error (.err e) := by
  unfold forLoop
  rw [List.foldlM_cons]
  cases h : body s a with
  | ok s' => rfl
  | error e => cases e <;> rfl

theorem forLoop_cons_ok (body : σ → α → Blk σ ρ σ) (a : α) (l : List α) (s s' : σ)
    (h : body s a = .ok s') : (forLoop body (a :: l) s : Blk β ρ σ) = forLoop body l s' := by
  rw [forLoop_cons, h]
theorem forLoop_cons_err (body : σ → α → Blk σ ρ σ) (a : α) (l : List α) (s : σ) (e : Err)
    (h : body s a = .error (.err e)) : (forLoop body (a :: l) s : Blk β ρ σ) = .error (.err e) := by
  rw [forLoop_cons, h]
theorem forLoop_cons_brk (body : σ → α → Blk σ ρ σ) (a : α) (l : List α) (s s' : σ)
    (h : body s a = .error (.brk s')) : (forLoop body (a :: l) s : Blk β ρ σ) = .ok s' := by
  rw [forLoop_cons, h]
theorem forLoop_cons_ret (body : σ → α → Blk σ ρ σ) (a : α) (l : List α) (s : σ) (r : ρ)
    (h : body s a = .error (.ret r)) : (forLoop body (a :: l) s : Blk β ρ σ) = .error (.ret r) := by
  rw [forLoop_cons, h]

@[simp] theorem whileLoop_zero (step : σ → Blk σ ρ σ) (s : σ) : (whileLoop step 0 s : Blk β ρ σ) = .ok s := by
  simp only [whileLoop]
theorem whileLoop_succ (step : σ → Blk σ ρ σ) (fuel : Nat) (s : σ) :
    (whileLoop step (fuel + 1) s : Blk β ρ σ) =
      match step s with
      | .ok s' => whileLoop step fuel s'
      | .error (.brk s') => .ok s'
      | .error (.ret r) => .error (.ret r)
      | .error (.err e) => .error (.err e) := by
  cases h : step s with
  | ok s' => simp only [whileLoop, h]
  | error e => cases e <;> simp only [whileLoop, h]
theorem loopLoop_zero (step : σ → Blk (γ × σ) ρ σ) (s : σ) :
    (loopLoop step 0 s : Blk β ρ (γ × σ)) = .error (.err .div) := by
  simp only [loopLoop]
theorem loopLoop_succ (step : σ → Blk (γ × σ) ρ σ) (fuel : Nat) (s : σ) :
    (loopLoop step (fuel + 1) s : Blk β ρ (γ × σ)) =
      match step s with
      | .ok s' => loopLoop step fuel s'
      | .error (.brk b) => .ok b
      | .error (.ret r) => .error (.ret r)
      | .error (.err e) => .error (.err e) := by
  cases h : step s with
  | ok s' => simp only [loopLoop, h]
  | error e => cases e <;> simp only [loopLoop, h]

theorem iterLoopS_zero {τ : Type} (next : τ → Res (Option ι × τ)) (body : τ → σ → ι → Blk σ ρ σ) (self : τ) (s : σ) :
    (iterLoopS next body 0 self s : Blk β ρ (σ × τ)) = .ok (s, self) := by
  simp only [iterLoopS]
theorem iterLoopS_succ_none {τ : Type} (next : τ → Res (Option ι × τ)) (body : τ → σ → ι → Blk σ ρ σ) (fuel : Nat)
    (self self' : τ) (s : σ) (h : next self = .ok (none, self')) :
    (iterLoopS next body (fuel + 1) self s : Blk β ρ (σ × τ)) = .ok (s, self') := by
  simp only [iterLoopS, h]
theorem iterLoopS_succ_error {τ : Type} (next : τ → Res (Option ι × τ)) (body : τ → σ → ι → Blk σ ρ σ) (fuel : Nat)
    (self : τ) (s : σ) (e : Err) (h : next self = .error e) :
    (iterLoopS next body (fuel + 1) self s : Blk β ρ (σ × τ)) = .error (.err e) := by
  simp only [iterLoopS, h]
theorem iterLoopS_succ_some {τ : Type} (next : τ → Res (Option ι × τ)) (body : τ → σ → ι → Blk σ ρ σ) (fuel : Nat)
    (self self' : τ) (s : σ) (x : ι) (h : next self = .ok (some x, self')) :
    (iterLoopS next body (fuel + 1) self s : Blk β ρ (σ × τ)) =
      match body self' s x with
      | .ok s' => iterLoopS next body fuel self' s'
      | .error (.brk s') => .ok (s', self')
      | .error (.ret r) => .error (.ret r)
      | .error (.err e) => .error (.err e) := by
  cases hb : body self' s x with
  | ok s' => simp only [iterLoopS, h, hb]
  | error e => cases e <;> simp only [iterLoopS, h, hb]

@[simp] theorem popFront_nil : popFront ([] : List α) = none := rfl
@[simp] theorem popFront_cons (a : α) (l : List α) : popFront (a :: l) = some (a, l) := rfl

@[simp] theorem vecPop_nil : vecPop ([] : List α) = none := rfl
@[simp] theorem vecPop_snoc (l : List α) (a : α) : vecPop (l ++ [a]) = some (a, l) := by
  simp [vecPop]

/-! ## `fnBody`, `call` -/

@[simp] theorem fnBody_ok (r : ρ) : fnBody (.ok r : Blk Empty ρ ρ) = .ok r := rfl
@[simp] theorem fnBody_ret (r : ρ) : fnBody (.error (.ret r) : Blk Empty ρ ρ) = .ok r := rfl
@[simp] theorem fnBody_err (e : Err) : fnBody (.error (.err e) : Blk Empty ρ ρ) = .error e := rfl
@[simp] theorem fnBody_ret' (r : ρ) : fnBody (ret r : Blk Empty ρ ρ) = .ok r := rfl
@[simp] theorem fnBody_panic : fnBody (panic : Blk Empty ρ ρ) = .error (.fault .panic) := rfl
@[simp] theorem ret_bind (r : ρ) (f : α → Blk β ρ γ) : ((ret r : Blk β ρ α) >>= f) = ret r := rfl
@[simp] theorem brk_bind (b : β) (f : α → Blk β ρ γ) : ((brk b : Blk β ρ α) >>= f) = brk b := rfl
@[simp] theorem panic_bind (f : α → Blk β ρ γ) : ((panic : Blk β ρ α) >>= f) = panic := rfl
theorem ret_def (r : ρ) : (ret r : Blk β ρ α) = .error (.ret r) := rfl
theorem brk_def (b : β) : (brk b : Blk β ρ α) = .error (.brk b) := rfl
theorem panic_def : (panic : Blk β ρ α) = .error (.err (.fault .panic)) := rfl
@[simp] theorem call_ok (a : α) : (call (.ok a) : Blk β ρ α) = .ok a := rfl
@[simp] theorem call_error (e : Err) : (call (.error e : Res α) : Blk β ρ α) = .error (.err e) := rfl

/-! ## `for x in self`: the items an iterator yields -/

/-- Drive `next` until it answers `None` (at most `fuel` items): the items and the final state. -/
def collect {τ : Type} (next : τ → Res (Option ι × τ)) : Nat → τ → Res (List ι × τ)
  | 0, s => .ok ([], s)
  | fuel + 1, s =>
    match next s with
    | .error e => .error e
    | .ok (none, s') => .ok ([], s')
    | .ok (some x, s') =>
      match collect next fuel s' with
      | .error e => .error e
      | .ok (xs, s'') => .ok (x :: xs, s'')

/-- `for x in self { acc = f acc x }` when the body cannot fail on the items the iterator yields
from states satisfying the invariant `P` (`R`: what the body needs of the accumulator). -/
theorem iterLoop_eq_collect {τ : Type} (next : τ → Res (Option ι × τ)) (body : σ → ι → Blk σ ρ σ)
    (f : σ → ι → σ) (P : τ → Prop) (R : σ → Prop)
    (hnext : ∀ s x s', P s → next s = .ok (some x, s') → P s' ∧ ∀ acc, R acc → body acc x = .ok (f acc x) ∧ R (f acc x)) :
    ∀ (fuel : Nat) (s : τ) (acc : σ), P s → R acc →
      (iterLoop next body fuel s acc : Blk β ρ (σ × τ)) =
        match collect next fuel s with
        | .error e => .error (.err e)
        | .ok (xs, s') => .ok (xs.foldl f acc, s') := by
  intro fuel
  induction fuel with
  | zero => intro s acc _ _; rfl
  | succ fuel ih =>
    intro s acc hP hR
    unfold iterLoop collect
    cases hn : next s with
    | error e => rfl
    | ok r =>
      obtain ⟨o, s'⟩ := r
      cases o with
      | none => rfl
      | some x =>
        obtain ⟨hP', hb⟩ := hnext s x s' hP hn
        obtain ⟨hb1, hb2⟩ := hb acc hR
        simp only [hb1]
        rw [ih s' (f acc x) hP' hb2]
        cases collect next fuel s' with
        | error e => rfl
        | ok r => rfl

end GraafVerif.AlgoGen
