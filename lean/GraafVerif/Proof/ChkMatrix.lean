import GraafVerif.Model.ChkMatrix
/-!
# `AdjacencyMatrix`: every block index the code computes is in range (C13, P0)
-/
namespace GraafVerif.Chk

/-- Representation invariant: `blocks.len() = ceil(order² / 64)`, the product did not overflow. -/
def MxInv (m : Mx) : Prop :=
  0 < m.order ∧ m.order * m.order < W64 ∧ m.blocks.length = (m.order * m.order + 63) / 64

theorem mx_cell_lt {n u v : Nat} (hu : u < n) (hv : v < n) : u * n + v < n * n := by
  have h1 : (u + 1) * n ≤ n * n := Nat.mul_le_mul_right n hu
  rw [Nat.succ_mul] at h1
  omega

/-- The block of cell `(u, v)` exists: `(u*order+v) >> 6 < ceil(order²/64)`. -/
theorem mx_block_lt {m : Mx} (h : MxInv m) {u v : Nat} (hu : u < m.order) (hv : v < m.order) :
    mxIndex m u v >>> 6 < m.blocks.length := by
  have hc := mx_cell_lt hu hv
  rw [h.2.2, Nat.shiftRight_eq_div_pow]
  unfold mxIndex
  generalize m.order * m.order = N at hc ⊢
  generalize u * m.order + v = i at hc ⊢
  omega

theorem mxEmpty_spec (order : Nat) :
    NoUB (mxEmpty order) ∧ ∀ m, mxEmpty order = .ok m → MxInv m ∧ m.order = order := by
  unfold mxEmpty
  constructor
  · apply noUB_bind (noUB_assert _)
    intro _ _
    split
    · exact noUB_throw_panic
    · exact noUB_pure _
  · intro m h
    obtain ⟨_, ha, h⟩ := bind_ok h
    have h0 : 0 < order := by simpa using assert_ok ha
    split at h
    · cases h
    · cases h
      rename_i hlt
      refine ⟨⟨h0, ?_, ?_⟩, rfl⟩
      · show order * order < W64
        omega
      · show (List.replicate ((order * order + 63) / 64) 0).length = (order * order + 63) / 64
        simp

/-- `add_arc` / `toggle`: for ALL `u`, `v` — the asserts reject what is out of range, the
unchecked `get_unchecked_mut(i >> 6)` is in range for what passes; the invariant is kept. -/
theorem mxUpdate_spec (site : String) (f : Nat → Nat → Nat) (m : Mx) (h : MxInv m) (u v : Nat) :
    NoUB (mxUpdate site f m u v) ∧ ∀ m', mxUpdate site f m u v = .ok m' → MxInv m' := by
  unfold mxUpdate
  constructor
  · apply noUB_bind (noUB_assert _); intro _ _
    apply noUB_bind (noUB_assert _); intro _ hu
    apply noUB_bind (noUB_assert _); intro _ hv
    have hu : u < m.order := by simpa using assert_ok hu
    have hv : v < m.order := by simpa using assert_ok hv
    have hb := mx_block_lt h hu hv
    apply noUB_bind (noUB_rd hb); intro _ _
    apply noUB_bind (noUB_wr hb); intro _ _
    exact noUB_pure _
  · intro m' hm
    obtain ⟨_, _, hm⟩ := bind_ok hm
    obtain ⟨_, _, hm⟩ := bind_ok hm
    obtain ⟨_, _, hm⟩ := bind_ok hm
    obtain ⟨w, _, hm⟩ := bind_ok hm
    obtain ⟨b, hw, hm⟩ := bind_ok hm
    cases hm
    exact ⟨h.1, h.2.1, by show b.length = _; rw [wr_length hw]; exact h.2.2⟩

/-- `has_arc` never panics (and has no unchecked access at all): the checked index is in range. -/
theorem mxHasArc_total (m : Mx) (h : MxInv m) (u v : Nat) : ∃ b, mxHasArc m u v = .ok b := by
  unfold mxHasArc
  split
  · exact ⟨false, rfl⟩
  · rename_i hc
    have hu : u < m.order := by
      rcases Nat.lt_or_ge u m.order with h' | h'
      · exact h'
      · exfalso; apply hc; simp [h']
    have hv : v < m.order := by
      rcases Nat.lt_or_ge v m.order with h' | h'
      · exact h'
      · exfalso; apply hc; simp [h']
    have hb := mx_block_lt h hu hv
    have hr : rdChecked m.blocks (mxIndex m u v >>> 6) = .ok (m.blocks[mxIndex m u v >>> 6]) := by
      unfold rdChecked; rw [List.getElem?_eq_getElem hb]
    refine ⟨(m.blocks[mxIndex m u v >>> 6] &&& mxMask (mxIndex m u v) != 0), ?_⟩
    show (rdChecked m.blocks (mxIndex m u v >>> 6) >>= fun w => pure (w &&& mxMask (mxIndex m u v) != 0)) = _
    rw [hr]
    rfl

/-- `remove_arc` never panics and keeps the invariant. -/
theorem mxRemoveArc_total (m : Mx) (h : MxInv m) (u v : Nat) :
    ∃ b m', mxRemoveArc m u v = .ok (b, m') ∧ MxInv m' := by
  unfold mxRemoveArc
  split
  · exact ⟨false, m, rfl, h⟩
  · rename_i hc
    have hu : u < m.order := by
      rcases Nat.lt_or_ge u m.order with h' | h'
      · exact h'
      · exfalso; apply hc; simp [h']
    have hv : v < m.order := by
      rcases Nat.lt_or_ge v m.order with h' | h'
      · exact h'
      · exfalso; apply hc; simp [h']
    have hb := mx_block_lt h hu hv
    obtain ⟨b, hb'⟩ := mxHasArc_total m h u v
    have hr : rdChecked m.blocks (mxIndex m u v >>> 6) = .ok (m.blocks[mxIndex m u v >>> 6]) := by
      unfold rdChecked; rw [List.getElem?_eq_getElem hb]
    let w := m.blocks[mxIndex m u v >>> 6]
    refine ⟨b, { m with blocks := m.blocks.set (mxIndex m u v >>> 6) (w ^^^ (w &&& mxMask (mxIndex m u v))) }, ?_, ?_⟩
    · show (mxHasArc m u v >>= fun has => rdChecked m.blocks (mxIndex m u v >>> 6) >>= fun w =>
        pure (has, { m with blocks := m.blocks.set (mxIndex m u v >>> 6) (w ^^^ (w &&& mxMask (mxIndex m u v))) })) = _
      rw [hb']
      show (rdChecked m.blocks (mxIndex m u v >>> 6) >>= fun w =>
        pure (b, { m with blocks := m.blocks.set (mxIndex m u v >>> 6) (w ^^^ (w &&& mxMask (mxIndex m u v))) })) = _
      rw [hr]
      rfl
    · exact ⟨h.1, h.2.1, by show (m.blocks.set _ _).length = _; simp [h.2.2]⟩

/-- `ArcsIterator::next`: `get_unchecked(block_index)` is guarded by the loop condition — in EVERY
iterator state and for every matrix value (no invariant needed). -/
theorem mxArcsNext_noUB (m : Mx) : ∀ (fuel : Nat) (it : MxIt), NoUB (mxArcsNext m fuel it) := by
  intro fuel
  induction fuel with
  | zero => intro it; unfold mxArcsNext; exact noUB_pure _
  | succ fuel ih =>
    intro it
    unfold mxArcsNext
    split
    · rename_i hc
      apply noUB_bind
      · split
        · rename_i hz
          have hlt : it.blockIndex < m.blocks.length := by
            have hz' : it.currentBits = 0 := by simpa using hz
            simp [hz'] at hc
            exact hc
          exact noUB_bind (noUB_rd hlt) (fun _ _ => noUB_pure _)
        · exact noUB_pure _
      · intro it1 _
        split
        · simp only []
          split
          · exact noUB_pure _
          · exact ih _
        · exact ih _
    · exact noUB_pure _

end GraafVerif.Chk
