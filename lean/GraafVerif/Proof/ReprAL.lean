import GraafVerif.Proof.ReprRows
/-!
# `AdjacencyList` refines the abstract digraph (C01) and is determined by it (C20)
-/
namespace GraafVerif.Repr.AdjList
open GraafVerif.ReprSpec GraafVerif.Repr

theorem hasArc_eq (d : AdjList) (u v : Nat) : d.hasArc u v = (d.rows[u]?.getD []).contains v := by
  unfold hasArc; cases d.rows[u]? <;> simp

theorem hasArc_iff (d : AdjList) (u v : Nat) : d.hasArc u v = true ↔ ∃ row, d.rows[u]? = some row ∧ v ∈ row := by
  unfold hasArc; cases d.rows[u]? <;> simp

theorem arcs_eq (d : AdjList) : d.arcs = flatRows 0 d.rows := by
  simp only [arcs, flatRows]

theorem empty_WF {n : Nat} {d : AdjList} (h : empty n = some d) : d.WF := by
  unfold empty at h
  split at h
  · cases h
  · rename_i hn; cases h
    refine ⟨by simp [order]; omega, ?_⟩
    intro u row hrow
    simp only [List.getElem?_replicate] at hrow
    split at hrow
    · cases hrow; exact ⟨List.Pairwise.nil, by simp⟩
    · cases hrow

theorem abs_empty {n : Nat} {d : AdjList} (h : empty n = some d) : d.abs = emptySpec Unit n := by
  unfold empty at h
  split at h
  · cases h
  · cases h
    apply SpecState.ext
    · intro x; simp [abs, emptySpec, order]
    · intro u v
      simp only [abs, emptySpec, hasArc_eq, List.getElem?_replicate]
      split <;> simp

theorem addArc_eq_none_iff (d : AdjList) (u v : Nat) :
    d.addArc u v = none ↔ rejected .fixed d.abs u v = true := by
  simp only [abs, rejected_fixed_range]
  unfold addArc
  by_cases h1 : u = v <;> by_cases h2 : u < d.order <;> by_cases h3 : v < d.order <;> simp [h1, h2, h3]

theorem addArc_some {d : AdjList} {u v : Nat} (h : rejected .fixed d.abs u v = false) :
    d.addArc u v = some ⟨d.rows.set u (sinsert v (d.rows[u]?.getD []))⟩ ∧ u ≠ v ∧ u < d.order ∧ v < d.order := by
  simp only [abs, rejected_fixed_range] at h
  unfold addArc
  by_cases h1 : u = v <;> by_cases h2 : u < d.order <;> by_cases h3 : v < d.order <;> simp_all

/-- Rows of a digraph whose row `u` was replaced. -/
theorem row_set (d : AdjList) (u a : Nat) (r : List Nat) (hu : u < d.order) :
    (d.rows.set u r)[a]? = if a = u then some r else d.rows[a]? := by
  rw [List.getElem?_set]
  by_cases h : u = a
  · subst h; simp [order] at hu; simp [hu]
  · have : ¬ a = u := fun e => h e.symm
    simp [h, this]

theorem WF_set (d : AdjList) (h : d.WF) (u : Nat) (r : List Nat) (hu : u < d.order)
    (hs : SortedS r) (hr : ∀ v ∈ r, v < d.order ∧ v ≠ u) : WF ⟨d.rows.set u r⟩ := by
  refine ⟨by simpa [order] using h.1, ?_⟩
  intro a row hrow
  simp only [order, List.length_set]
  rw [row_set d u a r hu] at hrow
  split at hrow
  · rename_i e; subst e; cases hrow; exact ⟨hs, hr⟩
  · exact h.2 a row hrow

theorem step_WF (d : AdjList) (op : Op Unit) (h : d.WF) : (d.step op).1.WF := by
  cases op with
  | add u v w =>
    simp only [step]
    cases hrej : rejected .fixed d.abs u v
    · obtain ⟨e, huv, hu, hv⟩ := addArc_some hrej
      rw [e, outOfOpt_some]
      cases hrow : d.rows[u]? with
      | none => simp [order] at hu; simp at hrow; omega
      | some row =>
        have hw := h.2 u row hrow
        apply WF_set d h u _ hu
        · simpa using sorted_sinsert hw.1
        · intro x hx
          simp only [Option.getD_some] at hx
          rcases mem_sinsert.mp hx with rfl | hx
          · exact ⟨hv, fun e => huv e.symm⟩
          · exact hw.2 x hx
    · rw [(addArc_eq_none_iff d u v).mpr hrej, outOfOpt_none]; exact h
  | rem u v =>
    simp only [step, removeArc]
    cases hrow : d.rows[u]? with
    | none => exact h
    | some row =>
      have hw := h.2 u row hrow
      have hu : u < d.order := by
        simp only [order]; exact (List.getElem?_eq_some_iff.mp hrow).1
      simp only [outOfRem]
      apply WF_set d h u _ hu (sorted_serase hw.1)
      intro x hx
      exact hw.2 x ((mem_serase hw.1).mp hx).1

theorem hasArc_set (d : AdjList) (u : Nat) (r : List Nat) (hu : u < d.order) (a b : Nat) :
    (AdjList.mk (d.rows.set u r)).hasArc a b = if a = u then r.contains b else d.hasArc a b := by
  rw [hasArc_eq, hasArc_eq, row_set d u a r hu]
  split <;> simp

theorem step_refines (d : AdjList) (op : Op Unit) (h : d.WF) :
    (d.step op).1.abs = (specStep .fixed d.abs op).1 ∧ (d.step op).2 = (specStep .fixed d.abs op).2 := by
  cases op with
  | add u v w =>
    simp only [step]
    cases hrej : rejected .fixed d.abs u v
    · obtain ⟨e, huv, hu, hv⟩ := addArc_some hrej
      rw [e, outOfOpt_some, specStep_add_ok _ hrej]
      refine ⟨?_, rfl⟩
      apply SpecState.ext
      · intro x; simp only [abs, order, grow, List.length_set]; rfl
      · intro a b
        simp only [abs, setW, hasArc_set d u _ hu]
        by_cases ha : a = u
        · subst ha
          by_cases hb : b = v
          · subst hb; simp [mem_sinsert]
          · simp only [hb, and_false, if_false, if_true]
            apply unitOf_congr
            simp [mem_sinsert, hb, hasArc_eq]
        · simp [ha]
    · rw [(addArc_eq_none_iff d u v).mpr hrej, outOfOpt_none, specStep_add_rej _ hrej]
      exact ⟨rfl, rfl⟩
  | rem u v =>
    simp only [step, removeArc, specStep]
    cases hrow : d.rows[u]? with
    | none =>
      simp only [outOfRem]
      have hno : ∀ b, d.hasArc u b = false := by intro b; simp [hasArc, hrow]
      refine ⟨?_, by simp [abs, SpecState.A, hno]⟩
      apply SpecState.ext
      · intro x; rfl
      · intro a b
        simp only [abs, setW]
        split
        · rename_i hc; obtain ⟨rfl, rfl⟩ := hc; simp [hno]
        · rfl
    | some row =>
      have hw := h.2 u row hrow
      have hu : u < d.order := by
        simp only [order]; exact (List.getElem?_eq_some_iff.mp hrow).1
      simp only [outOfRem]
      refine ⟨?_, by simp [abs, SpecState.A, hasArc, hrow]⟩
      apply SpecState.ext
      · intro x; simp only [abs, order, List.length_set]; rfl
      · intro a b
        simp only [abs, setW, hasArc_set d u _ hu]
        by_cases ha : a = u
        · subst ha
          by_cases hb : b = v
          · subst hb; simp [mem_serase hw.1]
          · simp only [hb, and_false, if_false, if_true]
            apply unitOf_congr
            simp [mem_serase hw.1, hb, hasArc_eq, hrow]
        · simp [ha]

/-- A rejected call panics and leaves the digraph unchanged. -/
theorem step_rejects (d : AdjList) (u v : Nat) (h : rejected .fixed d.abs u v = true) :
    d.step (.add u v ()) = (d, .panic) := by
  simp only [step, (addArc_eq_none_iff d u v).mpr h, outOfOpt_none]

theorem run_refines (ops : List (Op Unit)) (d : AdjList) (h : d.WF) :
    (run step d ops).1.WF ∧ (run step d ops).1.abs = (run (specStep .fixed) d.abs ops).1 ∧
    (run step d ops).2 = (run (specStep .fixed) d.abs ops).2 :=
  run_refines_gen step (specStep .fixed) WF abs step_WF step_refines ops d h

theorem mem_arcs (d : AdjList) (u v : Nat) : (u, v) ∈ d.arcs ↔ d.abs.A u v = true := by
  rw [arcs_eq, mem_flatRows_zero]
  simp [abs, SpecState.A, hasArc_iff]

/-- `arcs()` lists every arc exactly once, in ascending lexicographic order. -/
theorem arcs_sorted_nodup (d : AdjList) (h : d.WF) :
    d.arcs.Pairwise (fun a b => pairLt a b = true) ∧ d.arcs.Nodup ∧
    ∀ u v, (u, v) ∈ d.arcs ↔ d.abs.A u v = true := by
  have hp : d.arcs.Pairwise (rowLex id) := by
    rw [arcs_eq]
    apply pairwise_flatRows id
    intro row hrow
    obtain ⟨i, hi, rfl⟩ := List.mem_iff_getElem.mp hrow
    exact (h.2 i _ (List.getElem?_eq_getElem hi)).1
  exact ⟨List.Pairwise.imp (fun hab => (rowLex_id_iff _ _).mp hab) hp, rowLex_nodup id hp, mem_arcs d⟩

theorem vertices_spec (d : AdjList) :
    d.vertices = List.range d.order ∧ ∀ x, x ∈ d.vertices ↔ d.abs.V x = true := by
  refine ⟨rfl, ?_⟩
  intro x; simp [vertices, abs]

theorem size_eq (d : AdjList) : d.size = d.arcs.length := by
  rw [arcs_eq, length_flatRows]; rfl

theorem abs_valid (d : AdjList) (h : d.WF) : d.abs.Valid := by
  intro u v huv
  have : d.hasArc u v = true := by simpa [abs, SpecState.A] using huv
  obtain ⟨row, hrow, hv⟩ := (hasArc_iff d u v).mp this
  have hw := (h.2 u row hrow).2 v hv
  have hu : u < d.order := by simp only [order]; exact (List.getElem?_eq_some_iff.mp hrow).1
  simp only [abs, decide_eq_true_eq]
  exact ⟨fun e => hw.2 e.symm, hu, hw.1⟩

/-- C20: a well-formed `AdjacencyList` is determined by its abstract digraph. -/
theorem abs_injective (d₁ d₂ : AdjList) (h₁ : d₁.WF) (h₂ : d₂.WF) : d₁.abs = d₂.abs ↔ d₁ = d₂ := by
  constructor
  · intro h
    have hV : d₁.order = d₂.order := lt_of_decide_lt_eq (congrArg SpecState.V h)
    have hrows : d₁.rows = d₂.rows := by
      apply List.ext_getElem?
      intro u
      by_cases hu : u < d₁.order
      · have hu2 : u < d₂.order := hV ▸ hu
        simp only [order] at hu hu2
        rw [List.getElem?_eq_getElem hu, List.getElem?_eq_getElem hu2]
        congr 1
        apply sortedS_ext (h₁.2 u _ (List.getElem?_eq_getElem hu)).1 (h₂.2 u _ (List.getElem?_eq_getElem hu2)).1
        intro v
        have := unitOf_inj (congrFun (congrFun (congrArg SpecState.W h) u) v)
        simp only [hasArc_eq, List.getElem?_eq_getElem hu, List.getElem?_eq_getElem hu2, Option.getD_some] at this
        simpa using congrArg (· = true) this
      · have hu2 : ¬ u < d₂.order := hV ▸ hu
        simp only [order] at hu hu2
        rw [List.getElem?_eq_none (by omega), List.getElem?_eq_none (by omega)]
    cases d₁; cases d₂; simp_all
  · rintro rfl; rfl

end GraafVerif.Repr.AdjList
