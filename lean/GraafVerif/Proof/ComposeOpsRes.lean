import GraafVerif.Proof.ComposeOps
/-!
# Compose — the results of the C11 operations, as views

For `complement`, `converse`, `union` of `AdjacencyList` (every thread count), `AdjacencyMatrix`,
`EdgeList`, `AdjacencyMap` (contiguous operands for the positional view; arbitrary key sets for
the vertex-id view incl. `filter_vertices`) and `converse` of `AdjacencyListWeighted`: the call
returns a well-formed value whose view IS the digraph obtained by applying the SET DEFINITION of
the operation to the operand's arc relation `(u, v) ∈ arcs()`.  All from C11's `statement*`.
-/
namespace GraafVerif.Compose
open GraafVerif GraafVerif.Repr GraafVerif.Query GraafVerif.Ops

theorem absAL_A_arc (d : AdjList) (u v : Nat) : (absAL d).A u v ↔ d.Arc u v := (AdjList.arc_iff_hasArc d u v).symm
theorem absMX_A_arc (d : AdjMatrix) (h : d.WF) (u v : Nat) : (absMX d).A u v ↔ d.Arc u v :=
  (AdjMatrix.arc_iff_hasArc d h u v).symm
theorem absEL_A_arc (d : EdgeList) (u v : Nat) : (absEL d).A u v ↔ d.Arc u v := (EdgeList.arc_iff_hasArc d u v).symm
theorem absAM_A_arc (d : AdjMap) (h : d.WF) (u v : Nat) : (absAM d).A u v ↔ d.Arc u v :=
  (AdjMap.arc_iff_hasArc d h u v).symm

theorem lt_max_iff (a b v : Nat) : (v < a ∨ v < b) ↔ v < max a b := by omega

/-! ## AdjacencyList -/

theorem AL.complement_viewIs (d : AdjList) (h : d.WF) (ap : Nat) (hap : 0 < ap) :
    ∃ r, complementAL d ap = some r ∧ r.WF ∧ r.order = d.order ∧
      ViewIs r.view r.vview d.order (complRel d.order d.Arc) := by
  obtain ⟨r, e, hw, ha⟩ := C11.statementAL.2.1 d ap hap h
  obtain ⟨ho, hv⟩ := AL.viewIs_of_abs r hw d.order (complRel d.order d.Arc)
    (fun v => by rw [ha]; exact absAL_V)
    (fun u v => by
      rw [ha]; simp only [specComplement, complRel, absAL_V, absAL_A_arc])
  exact ⟨r, e, hw, ho, hv⟩

theorem AL.converse_viewIs (d : AdjList) (h : d.WF) :
    ∃ r, converseAL d = some r ∧ r.WF ∧ r.order = d.order ∧
      ViewIs r.view r.vview d.order (convRel d.Arc) := by
  obtain ⟨r, e, hw, ha⟩ := C11.statementAL.2.2.1 d h
  obtain ⟨ho, hv⟩ := AL.viewIs_of_abs r hw d.order (convRel d.Arc)
    (fun v => by rw [ha]; exact absAL_V)
    (fun u v => by rw [ha]; simp only [specConverse, convRel, absAL_A_arc])
  exact ⟨r, e, hw, ho, hv⟩

theorem AL.union_viewIs (a b : AdjList) (ha : a.WF) (hb : b.WF) (ap : Nat) (hap : 0 < ap) :
    ∃ r, unionAL a b ap = some r ∧ r.WF ∧ r.order = max a.order b.order ∧
      ViewIs r.view r.vview (max a.order b.order) (unionRel a.Arc b.Arc) := by
  obtain ⟨r, e, hw, hab⟩ := C11.statementAL.2.2.2.1 a b ap hap ha hb
  obtain ⟨ho, hv⟩ := AL.viewIs_of_abs r hw (max a.order b.order) (unionRel a.Arc b.Arc)
    (fun v => by rw [hab]; simp only [specUnion, absAL_V]; exact lt_max_iff _ _ _)
    (fun u v => by rw [hab]; simp only [specUnion, unionRel, absAL_A_arc])
  exact ⟨r, e, hw, ho, hv⟩

/-! ## AdjacencyMatrix -/

theorem MX.complement_viewIs (d : AdjMatrix) (h : d.WF) (hf : d.order * d.order < 2 ^ 64) :
    ∃ r, complementMX d = some r ∧ r.WF ∧ r.order = d.order ∧
      ViewIs r.view r.vview d.order (complRel d.order d.Arc) := by
  obtain ⟨r, e, hw, ha⟩ := C11.statementMX.2.1 d ⟨h, hf⟩
  obtain ⟨ho, hv⟩ := MX.viewIs_of_abs r hw.1 d.order (complRel d.order d.Arc)
    (fun v => by rw [ha]; exact absMX_V)
    (fun u v => by rw [ha]; simp only [specComplement, complRel, absMX_V, absMX_A_arc d h])
  exact ⟨r, e, hw.1, ho, hv⟩

theorem MX.converse_viewIs (d : AdjMatrix) (h : d.WF) (hf : d.order * d.order < 2 ^ 64) :
    ∃ r, converseMX d = some r ∧ r.WF ∧ r.order = d.order ∧
      ViewIs r.view r.vview d.order (convRel d.Arc) := by
  obtain ⟨r, e, hw, ha⟩ := C11.statementMX.2.2.1 d ⟨h, hf⟩
  obtain ⟨ho, hv⟩ := MX.viewIs_of_abs r hw.1 d.order (convRel d.Arc)
    (fun v => by rw [ha]; exact absMX_V)
    (fun u v => by rw [ha]; simp only [specConverse, convRel, absMX_A_arc d h])
  exact ⟨r, e, hw.1, ho, hv⟩

theorem MX.union_viewIs (a b : AdjMatrix) (ha : a.WF) (hb : b.WF)
    (hfa : a.order * a.order < 2 ^ 64) (hfb : b.order * b.order < 2 ^ 64) :
    ∃ r, unionMX a b = some r ∧ r.WF ∧ r.order = max a.order b.order ∧
      ViewIs r.view r.vview (max a.order b.order) (unionRel a.Arc b.Arc) := by
  obtain ⟨r, e, hw, hab⟩ := C11.statementMX.2.2.2.1 a b ⟨ha, hfa⟩ ⟨hb, hfb⟩
  obtain ⟨ho, hv⟩ := MX.viewIs_of_abs r hw.1 (max a.order b.order) (unionRel a.Arc b.Arc)
    (fun v => by rw [hab]; simp only [specUnion, absMX_V]; exact lt_max_iff _ _ _)
    (fun u v => by rw [hab]; simp only [specUnion, unionRel, absMX_A_arc a ha, absMX_A_arc b hb])
  exact ⟨r, e, hw.1, ho, hv⟩

/-! ## EdgeList -/

theorem EL.complement_viewIs (d : EdgeList) (h : d.WF) :
    (complementEL d).WF ∧ (complementEL d).order = d.order ∧
      ViewIs (complementEL d).view (complementEL d).vview d.order (complRel d.order d.Arc) := by
  obtain ⟨r, e, hw, ha⟩ := C11.statementEL.2.1 d h
  cases e
  obtain ⟨ho, hv⟩ := EL.viewIs_of_abs _ hw d.order (complRel d.order d.Arc)
    (fun v => by rw [ha]; exact absEL_V)
    (fun u v => by rw [ha]; simp only [specComplement, complRel, absEL_V, absEL_A_arc])
  exact ⟨hw, ho, hv⟩

theorem EL.converse_viewIs (d : EdgeList) (h : d.WF) :
    (converseEL d).WF ∧ (converseEL d).order = d.order ∧
      ViewIs (converseEL d).view (converseEL d).vview d.order (convRel d.Arc) := by
  obtain ⟨r, e, hw, ha⟩ := C11.statementEL.2.2.1 d h
  cases e
  obtain ⟨ho, hv⟩ := EL.viewIs_of_abs _ hw d.order (convRel d.Arc)
    (fun v => by rw [ha]; exact absEL_V)
    (fun u v => by rw [ha]; simp only [specConverse, convRel, absEL_A_arc])
  exact ⟨hw, ho, hv⟩

theorem EL.union_viewIs (a b : EdgeList) (ha : a.WF) (hb : b.WF) :
    ∃ r, unionEL a b = some r ∧ r.WF ∧ r.order = max a.order b.order ∧
      ViewIs r.view r.vview (max a.order b.order) (unionRel a.Arc b.Arc) := by
  obtain ⟨r, e, hw, hab⟩ := C11.statementEL.2.2.2.1 a b ha hb
  obtain ⟨ho, hv⟩ := EL.viewIs_of_abs r hw (max a.order b.order) (unionRel a.Arc b.Arc)
    (fun v => by rw [hab]; simp only [specUnion, absEL_V]; exact lt_max_iff _ _ _)
    (fun u v => by rw [hab]; simp only [specUnion, unionRel, absEL_A_arc])
  exact ⟨r, e, hw, ho, hv⟩

/-! ## AdjacencyMap, key set `0..order` (positional view) -/

theorem absAM_V_contig {d : AdjMap} (hc : Gen.AM.Contiguous d) (v : Nat) : (absAM d).V v ↔ v < d.order := by
  show v ∈ d.vertices ↔ _
  rw [hc]; simp

theorem AM.complement_viewIs (d : AdjMap) (h : d.WF) (hc : Gen.AM.Contiguous d) (hn : 0 < d.order) :
    (complementAM d).WF ∧ (complementAM d).order = d.order ∧ Gen.AM.Contiguous (complementAM d) ∧
      ViewIs (complementAM d).view (complementAM d).vview d.order (complRel d.order d.Arc) := by
  obtain ⟨r, e, hw, ha⟩ := C11.statementAM.2.1 d ⟨h, hn⟩
  cases e
  obtain ⟨ho, hc', hv⟩ := AM.viewIs_of_abs _ hw.1 d.order (complRel d.order d.Arc)
    (fun v => by rw [ha]; exact absAM_V_contig hc v)
    (fun u v => by
      rw [ha]; simp only [specComplement, complRel, absAM_V_contig hc, absAM_A_arc d h])
  exact ⟨hw.1, ho, hc', hv⟩

theorem AM.converse_viewIs (d : AdjMap) (h : d.WF) (hc : Gen.AM.Contiguous d) (hn : 0 < d.order) :
    (converseAM d).WF ∧ (converseAM d).order = d.order ∧ Gen.AM.Contiguous (converseAM d) ∧
      ViewIs (converseAM d).view (converseAM d).vview d.order (convRel d.Arc) := by
  obtain ⟨r, e, hw, ha⟩ := C11.statementAM.2.2.1 d ⟨h, hn⟩
  cases e
  obtain ⟨ho, hc', hv⟩ := AM.viewIs_of_abs _ hw.1 d.order (convRel d.Arc)
    (fun v => by rw [ha]; exact absAM_V_contig hc v)
    (fun u v => by rw [ha]; simp only [specConverse, convRel, absAM_A_arc d h])
  exact ⟨hw.1, ho, hc', hv⟩

theorem AM.union_viewIs (a b : AdjMap) (ha : a.WF) (hb : b.WF) (hca : Gen.AM.Contiguous a)
    (hcb : Gen.AM.Contiguous b) (hna : 0 < a.order) (hnb : 0 < b.order) (ap : Nat) (hap : 0 < ap) :
    ∃ r, unionAM a b ap = some r ∧ r.WF ∧ r.order = max a.order b.order ∧ Gen.AM.Contiguous r ∧
      ViewIs r.view r.vview (max a.order b.order) (unionRel a.Arc b.Arc) := by
  obtain ⟨r, e, hw, hab⟩ := C11.statementAM.2.2.2.1 a b ap hap ⟨ha, hna⟩ ⟨hb, hnb⟩
  obtain ⟨ho, hc', hv⟩ := AM.viewIs_of_abs r hw.1 (max a.order b.order) (unionRel a.Arc b.Arc)
    (fun v => by
      rw [hab]; simp only [specUnion, absAM_V_contig hca, absAM_V_contig hcb]; exact lt_max_iff _ _ _)
    (fun u v => by rw [hab]; simp only [specUnion, unionRel, absAM_A_arc a ha, absAM_A_arc b hb])
  exact ⟨r, e, hw.1, ho, hc', hv⟩

/-! ## AdjacencyMap, ARBITRARY key sets (vertex-id view; incl. `filter_vertices`) -/

/-- Tarjan on any well-formed map whose C11 abstraction has the arc relation `P`. -/
theorem AM.tarjan_of_abs (r : AdjMap) (hw : r.WF) (P : Rel) (hA : ∀ u v, (absAM r).A u v ↔ P u v) :
    TarjanHolds r.vertices P r.vview := by
  have vs := r.vview_spec hw
  exact tarjanHolds_of (g := r.vview) (A := P)
    (fun u v => (vs.arc_iff u v).trans ((absAM_A_arc r hw u v).symm.trans (hA u v))) vs.closed

theorem AM.converse_tarjan (d : AdjMap) (h : d.WF) (hn : 0 < d.order) :
    (converseAM d).WF ∧ (∀ x, x ∈ (converseAM d).vertices ↔ x ∈ d.vertices) ∧
    (∀ u v, (converseAM d).Arc u v ↔ d.Arc v u) ∧
    TarjanHolds (converseAM d).vertices (convRel d.Arc) (converseAM d).vview := by
  obtain ⟨r, e, hw, ha⟩ := C11.statementAM.2.2.1 d ⟨h, hn⟩
  cases e
  have hA : ∀ u v, (absAM (converseAM d)).A u v ↔ convRel d.Arc u v := by
    intro u v; rw [ha]; simp only [specConverse, convRel, absAM_A_arc d h]
  refine ⟨hw.1, ?_, fun u v => (absAM_A_arc _ hw.1 u v).symm.trans (hA u v), AM.tarjan_of_abs _ hw.1 _ hA⟩
  intro x
  have : (absAM (converseAM d)).V x ↔ (absAM d).V x := by rw [ha]; rfl
  exact this

theorem AM.complement_tarjan (d : AdjMap) (h : d.WF) (hn : 0 < d.order) :
    (complementAM d).WF ∧ (∀ x, x ∈ (complementAM d).vertices ↔ x ∈ d.vertices) ∧
    (∀ u v, (complementAM d).Arc u v ↔ (u ∈ d.vertices ∧ v ∈ d.vertices ∧ u ≠ v ∧ ¬ d.Arc u v)) ∧
    TarjanHolds (complementAM d).vertices
      (fun u v => u ∈ d.vertices ∧ v ∈ d.vertices ∧ u ≠ v ∧ ¬ d.Arc u v) (complementAM d).vview := by
  obtain ⟨r, e, hw, ha⟩ := C11.statementAM.2.1 d ⟨h, hn⟩
  cases e
  have hA : ∀ u v, (absAM (complementAM d)).A u v ↔
      (u ∈ d.vertices ∧ v ∈ d.vertices ∧ u ≠ v ∧ ¬ d.Arc u v) := by
    intro u v; rw [ha]; simp only [specComplement, absAM_A_arc d h]; rfl
  refine ⟨hw.1, ?_, fun u v => (absAM_A_arc _ hw.1 u v).symm.trans (hA u v), AM.tarjan_of_abs _ hw.1 _ hA⟩
  intro x
  have : (absAM (complementAM d)).V x ↔ (absAM d).V x := by rw [ha]; rfl
  exact this

theorem AM.union_tarjan (a b : AdjMap) (ha : a.WF) (hb : b.WF) (hna : 0 < a.order) (hnb : 0 < b.order)
    (ap : Nat) (hap : 0 < ap) :
    ∃ r, unionAM a b ap = some r ∧ r.WF ∧ (∀ x, x ∈ r.vertices ↔ x ∈ a.vertices ∨ x ∈ b.vertices) ∧
      (∀ u v, r.Arc u v ↔ a.Arc u v ∨ b.Arc u v) ∧ TarjanHolds r.vertices (unionRel a.Arc b.Arc) r.vview := by
  obtain ⟨r, e, hw, hab⟩ := C11.statementAM.2.2.2.1 a b ap hap ⟨ha, hna⟩ ⟨hb, hnb⟩
  have hA : ∀ u v, (absAM r).A u v ↔ unionRel a.Arc b.Arc u v := by
    intro u v; rw [hab]; simp only [specUnion, unionRel, absAM_A_arc a ha, absAM_A_arc b hb]
  refine ⟨r, e, hw.1, ?_, fun u v => (absAM_A_arc _ hw.1 u v).symm.trans (hA u v), AM.tarjan_of_abs _ hw.1 _ hA⟩
  intro x
  have : (absAM r).V x ↔ (absAM a).V x ∨ (absAM b).V x := by rw [hab]; rfl
  exact this

/-- `filter_vertices` (map only): the induced subdigraph on `{v ∈ V | p v}`; the result may have
any key set (even none), so only the vertex-id view applies. -/
theorem AM.filter_tarjan (d : AdjMap) (h : d.WF) (p : Nat → Bool) :
    (filterAM d p).WF ∧ (∀ x, x ∈ (filterAM d p).vertices ↔ x ∈ d.vertices ∧ p x = true) ∧
    (∀ u v, (filterAM d p).Arc u v ↔ filterRel p d.Arc u v) ∧
    TarjanHolds (filterAM d p).vertices (filterRel p d.Arc) (filterAM d p).vview := by
  obtain ⟨r, e, hw, ha⟩ := C11.statementAM.2.2.2.2.1 d p h
  cases e
  have hA : ∀ u v, (absAM (filterAM d p)).A u v ↔ filterRel p d.Arc u v := by
    intro u v; rw [ha]; simp only [specFilter, filterRel, absAM_A_arc d h]
  refine ⟨hw, ?_, fun u v => (absAM_A_arc _ hw u v).symm.trans (hA u v), AM.tarjan_of_abs _ hw _ hA⟩
  intro x
  have : (absAM (filterAM d p)).V x ↔ (absAM d).V x ∧ p x = true := by rw [ha]; rfl
  exact this

/-! ## AdjacencyListWeighted: `converse` carries the weights over -/

theorem WL.converse_weighted (d : AdjListW) (h : d.WF) :
    ∃ r, converseW d = some r ∧ r.WF ∧ r.order = d.order ∧
      (∀ u v w, r.WArc u v w ↔ d.WArc v u w) ∧
      WeightedHold (fun u v w => d.WArc v u w) d.order r.wview := by
  obtain ⟨r, e, hw, ha⟩ := C11.statementW.2.1 d h
  have vs := r.wview_spec hw
  have vd := d.wview_spec h
  have ho : r.order = d.order := order_eq_of_lt_iff (fun v => by
    have : (absW r).V v ↔ (absW d).V v := by rw [ha]; rfl
    rw [← absW_V, ← absW_V]; exact this)
  have hA : ∀ u v w, r.wview.A u v w ↔ d.WArc v u w := by
    intro u v w
    rw [vs.weight_iff u v w]
    have : (absW r).A u v w ↔ (absW d).A v u w := by rw [ha]; rfl
    exact this.trans ((vd.weight_iff v u w).symm.trans (vd.arc_iff v u w))
  refine ⟨r, e, hw, ho, fun u v w => (vs.arc_iff u v w).symm.trans (hA u v w), ?_⟩
  have := weightedHold_of (g := r.wview) (W := fun u v w => d.WArc v u w) hA vs.wf vs.functional
  rw [vs.order, ho] at this
  exact this

/-! ## Corollaries that hold of ANY pair of views related by an operation -/

/-- converse: reachability is reversed; the strongly connected components are the same blocks. -/
theorem converse_corollaries {g g' : Graph} {vg vg' : Tarjan.VGraph} {n : Nat} {A : Rel}
    (h : ViewIs g vg n A) (h' : ViewIs g' vg' n (convRel A)) :
    (∀ u v, Reach g' u v ↔ Reach g v u) ∧
    (∃ cs cs', Tarjan.components vg = .ret cs ∧ Tarjan.components vg' = .ret cs' ∧ ∀ c, c ∈ cs ↔ c ∈ cs') := by
  refine ⟨fun u v => ?_, tarjan_same_blocks h.tarjan (tarjanHolds_converse h'.tarjan)⟩
  rw [reach_iff, reach_iff, rel_ext h'.arc_iff, rel_ext h.arc_iff]
  exact rreach_converse A u v

/-- complement twice / converse twice / union with itself give back the same VIEW (a traversal
cannot distinguish `d` from `complement(complement(d))`). -/
theorem viewIs_compl_compl {g g'' : Graph} {vg vg'' : Tarjan.VGraph} {n : Nat} {A : Rel}
    (h : ViewIs g vg n A) (h'' : ViewIs g'' vg'' n (complRel n (complRel n A))) : g'' = g ∧ vg'' = vg := by
  apply h''.unique h
  intro u v
  simp only [complRel]
  constructor
  · rintro ⟨_, _, _, hn⟩
    exact Classical.byContradiction fun hna => hn ⟨‹_›, ‹_›, ‹_›, hna⟩
  · intro ha
    have := h.arcs_lt ha
    exact ⟨this.1, this.2, fun e => h.irrefl u (e ▸ ha), fun hc => hc.2.2.2 ha⟩

theorem viewIs_conv_conv {g g'' : Graph} {vg vg'' : Tarjan.VGraph} {n : Nat} {A : Rel}
    (h : ViewIs g vg n A) (h'' : ViewIs g'' vg'' n (convRel (convRel A))) : g'' = g ∧ vg'' = vg :=
  h''.unique h (fun _ _ => Iff.rfl)

end GraafVerif.Compose
