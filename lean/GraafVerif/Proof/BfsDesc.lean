import GraafVerif.Spec.Graph
/-!
# The `Graph` of a digraph description is the digraph of its arc list

`Graph.ofRows (rowsOfArcs n arcs)` is what the driver (`GDesc.graph`) runs the models on.  For an
arc list over `0..n` it is well formed, has order `n`, and `u → v` is an arc exactly when `(u, v)`
is listed.  So the hypotheses `g.WF` of the C04/C05 theorems are met by every digraph the
correspondence run builds, and `g.A` is the arc relation of the description.
-/
namespace GraafVerif

theorem mem_insertAsc (x y : Nat) : ∀ (l : List Nat), y ∈ insertAsc x l ↔ y = x ∨ y ∈ l
  | [] => by simp [insertAsc]
  | z :: zs => by
    unfold insertAsc
    by_cases h1 : x < z
    · simp [h1]
    · by_cases h2 : x = z
      · subst h2; simp
      · simp only [h1, h2, if_false, List.mem_cons, mem_insertAsc x y zs]
        constructor
        · rintro (h | h | h)
          · exact Or.inr (Or.inl h)
          · exact Or.inl h
          · exact Or.inr (Or.inr h)
        · rintro (h | h | h)
          · exact Or.inr (Or.inl h)
          · exact Or.inl h
          · exact Or.inr (Or.inr h)

/-- One step of `rowsOfArcs`. -/
def addArcRow (rows : Array (List Nat)) (a : Nat × Nat) : Array (List Nat) :=
  if a.1 < rows.size then rows.modify a.1 (insertAsc a.2) else rows

theorem addArcRow_size (rows : Array (List Nat)) (a : Nat × Nat) : (addArcRow rows a).size = rows.size := by
  unfold addArcRow; split <;> simp

theorem addArcRow_mem (rows : Array (List Nat)) (a : Nat × Nat) (u v : Nat) :
    v ∈ (addArcRow rows a).getD u [] ↔ (v ∈ rows.getD u [] ∨ (a = (u, v) ∧ u < rows.size)) := by
  obtain ⟨a1, a2⟩ := a
  unfold addArcRow
  by_cases h : a1 < rows.size
  · simp only [h, if_true]
    by_cases hu : u < rows.size
    · simp only [Array.getD_eq_getD_getElem?, Array.size_modify, hu,
        Array.getElem?_eq_getElem, Option.getD_some]
      by_cases hau : a1 = u
      · subst hau
        rw [Array.getElem_modify_self, mem_insertAsc]
        constructor
        · rintro (h | h)
          · exact Or.inr ⟨by rw [h], trivial⟩
          · exact Or.inl h
        · rintro (h | ⟨h, _⟩)
          · exact Or.inr h
          · simp at h; exact Or.inl h.symm
      · rw [Array.getElem_modify_of_ne hau]
        constructor
        · exact Or.inl
        · rintro (h | ⟨h, _⟩)
          · exact h
          · simp at h; exact absurd h.1 hau
    · simp [Array.getD_eq_getD_getElem?, hu]
  · simp only [h, if_false]
    constructor
    · exact Or.inl
    · rintro (h' | ⟨h', hu⟩)
      · exact h'
      · simp at h'; omega

theorem rowsOfArcs_spec (n : Nat) (arcs : List (Nat × Nat)) :
    (rowsOfArcs n arcs).size = n ∧
    ∀ u v, v ∈ (rowsOfArcs n arcs).getD u [] ↔ ((u, v) ∈ arcs ∧ u < n) := by
  have H : ∀ (arcs : List (Nat × Nat)) (rows : Array (List Nat)),
      (arcs.foldl addArcRow rows).size = rows.size ∧
      ∀ u v, v ∈ (arcs.foldl addArcRow rows).getD u [] ↔
        (v ∈ rows.getD u [] ∨ ((u, v) ∈ arcs ∧ u < rows.size)) := by
    intro arcs
    induction arcs with
    | nil => intro rows; simp
    | cons a arcs ih =>
      intro rows
      obtain ⟨h1, h2⟩ := ih (addArcRow rows a)
      simp only [List.foldl_cons]
      refine ⟨by rw [h1, addArcRow_size], ?_⟩
      intro u v
      rw [h2 u v, addArcRow_mem, addArcRow_size]
      simp only [List.mem_cons]
      constructor
      · rintro ((h | ⟨h, hu⟩) | ⟨h, hu⟩)
        · exact Or.inl h
        · exact Or.inr ⟨Or.inl h.symm, hu⟩
        · exact Or.inr ⟨Or.inr h, hu⟩
      · rintro (h | ⟨h | h, hu⟩)
        · exact Or.inl (Or.inl h)
        · exact Or.inl (Or.inr ⟨h.symm, hu⟩)
        · exact Or.inr ⟨h, hu⟩
  have := H arcs (Array.replicate n [])
  unfold rowsOfArcs
  have hfold : (fun (rows : Array (List Nat)) (a : Nat × Nat) =>
      if a.1 < rows.size then rows.modify a.1 (insertAsc a.2) else rows) = addArcRow := rfl
  rw [hfold]
  refine ⟨by simpa using this.1, ?_⟩
  intro u v
  rw [this.2 u v]
  by_cases hu : u < n <;> simp [Array.getD_eq_getD_getElem?, hu]

/-- The digraph of an in-range arc list: order `n`, arcs exactly the listed pairs, well formed. -/
theorem ofArcRows_spec (n : Nat) (arcs : List (Nat × Nat)) (h : ∀ a ∈ arcs, a.1 < n ∧ a.2 < n) :
    let g := Graph.ofRows (rowsOfArcs n arcs)
    g.n = n ∧ (∀ u v, g.A u v ↔ (u, v) ∈ arcs) ∧ g.WF := by
  obtain ⟨hs, hm⟩ := rowsOfArcs_spec n arcs
  have hA : ∀ u v, (Graph.ofRows (rowsOfArcs n arcs)).A u v ↔ (u, v) ∈ arcs := by
    intro u v
    show v ∈ (rowsOfArcs n arcs).getD u [] ↔ _
    rw [hm u v]
    exact ⟨fun h' => h'.1, fun h' => ⟨h', (h _ h').1⟩⟩
  refine ⟨hs, hA, ?_⟩
  intro u v huv
  have := (hA u v).mp huv
  have := h _ this
  show u < (rowsOfArcs n arcs).size ∧ v < (rowsOfArcs n arcs).size
  rw [hs]; exact this

end GraafVerif
