import GraafVerif.Proof.JohnsonUnblock
/-!
# Soundness invariant of `circuit`

`Inv comp st`: (i1) unblocked vertices have empty B-lists, (k) no stack vertex can be reached by
a cascade started at a vertex above it on the stack, (i3) stack vertices are blocked, the stack
is duplicate-free and inside the component.  `circuit_post` shows that every call of `circuit`
preserves it and only appends duplicate-free, pairwise different paths that close to `s`.
-/
set_option linter.unusedVariables false
namespace GraafVerif.Johnson
open GraafVerif

def AM.gr (a : AM) : Graph := ⟨a.verts.length, a.out⟩

theorem isWalk_snoc (g : Graph) : ∀ (p : List Nat) (v w : Nat), IsWalk g (p ++ [v]) → g.A v w →
    IsWalk g (p ++ [v, w])
  | [], v, w, _, h => ⟨h, trivial⟩
  | [a], v, w, h, h2 => ⟨h.1, h2, trivial⟩
  | a :: b :: t, v, w, h, h2 => ⟨h.1, isWalk_snoc g (b :: t) v w h.2 h2⟩

structure Inv (comp : AM) (st : JState) : Prop where
  i1 : ∀ y, y ∉ st.blocked → st.Bof y = []
  k : ∀ l1 a l2, st.stack = l1 ++ a :: l2 → ∀ b ∈ l2, ¬ Casc st b a
  i3 : ∀ x ∈ st.stack, x ∈ st.blocked
  nd : st.stack.Nodup
  sub : ∀ x ∈ st.stack, x ∈ comp.verts

theorem Inv.congr {comp : AM} {st st' : JState} (hb : st'.blocked = st.blocked) (hB : st'.B = st.B)
    (hs : st'.stack = st.stack) (h : Inv comp st) : Inv comp st' := by
  have hBof : ∀ y, st'.Bof y = st.Bof y := by intro y; simp [JState.Bof, hB]
  refine ⟨?_, ?_, ?_, ?_, ?_⟩
  · intro y hy; rw [hBof]; exact h.i1 y (by rwa [hb] at hy)
  · intro l1 a l2 hst b hb' hc
    exact h.k l1 a l2 (by rw [← hs]; exact hst) b hb'
      (hc.mono (fun x hx => by rwa [hb] at hx) (fun y x hx => by rwa [hBof] at hx))
  · intro x hx; rw [hb]; exact h.i3 x (by rwa [hs] at hx)
  · rw [hs]; exact h.nd
  · intro x hx; exact h.sub x (by rwa [hs] at hx)

theorem snoc_eq_append_cons {S : List Nat} {v : Nat} {l1 : List Nat} {a : Nat} {l2 : List Nat}
    (h : S ++ [v] = l1 ++ a :: l2) :
    (l2 = [] ∧ a = v ∧ l1 = S) ∨ ∃ l2', l2 = l2' ++ [v] ∧ S = l1 ++ a :: l2' := by
  rcases List.eq_nil_or_concat l2 with rfl | ⟨l2', z, rfl⟩
  · left
    have : S ++ [v] = l1 ++ [a] := h
    have h2 := List.append_inj' this rfl
    simp at h2
    exact ⟨rfl, h2.2.symm, h2.1.symm⟩
  · right
    have : S ++ [v] = (l1 ++ a :: l2') ++ [z] := by simpa using h
    have h2 := List.append_inj' this rfl
    simp at h2
    exact ⟨l2', by rw [h2.2]; simp, h2.1⟩

theorem mem_insBlocked (v : Nat) (bl : List Nat) (x : Nat) : x ∈ insBlocked v bl ↔ x = v ∨ x ∈ bl := by
  unfold insBlocked
  split
  · rename_i h
    have : v ∈ bl := by simpa using h
    constructor
    · intro hx; exact Or.inr hx
    · rintro (rfl | hx)
      · exact this
      · exact hx
  · simp

theorem casc_only_self {st : JState} {v a : Nat} (hB : st.Bof v = []) (h : Casc st v a) : a = v := by
  induction h with
  | refl _ => rfl
  | step _ hb _ ih => subst ih; rw [hB] at hb; simp at hb

/-- Blocking a vertex with an empty B-list creates no cascade towards other vertices. -/
theorem casc_push {st st1 : JState} {v : Nat} (hbl : ∀ x, x ∈ st1.blocked ↔ x = v ∨ x ∈ st.blocked)
    (hB : ∀ y, st1.Bof y = st.Bof y) (hBv : st.Bof v = []) {b a : Nat} (hav : a ≠ v)
    (h : Casc st1 b a) : Casc st b a := by
  induction h with
  | refl h =>
    rcases (hbl _).1 h with rfl | h
    · exact absurd rfl hav
    · exact Casc.refl h
  | @step y x _ hb hx ih =>
    have hyv : y ≠ v := by
      intro e; subst e; rw [hB, hBv] at hb; simp at hb
    have hx' : x ∈ st.blocked := by
      rcases (hbl _).1 hx with rfl | h
      · exact absurd rfl hav
      · exact h
    exact Casc.step (ih hyv) (by rwa [hB] at hb) hx'

theorem Inv.push {comp : AM} {st : JState} {v : Nat} (h : Inv comp st) (hv : v ∉ st.blocked)
    (hvc : v ∈ comp.verts) :
    Inv comp { st with stack := st.stack ++ [v], blocked := insBlocked v st.blocked } := by
  have hmem := mem_insBlocked v st.blocked
  have hva : ∀ a ∈ st.stack, a ≠ v := by
    intro a ha e; subst e; exact hv (h.i3 a ha)
  refine ⟨?_, ?_, ?_, ?_, ?_⟩
  · intro y hy
    exact h.i1 y (fun hy' => hy ((hmem y).2 (Or.inr hy')))
  · intro l1 a l2 hst b hb hc
    rcases snoc_eq_append_cons hst with ⟨rfl, _, _⟩ | ⟨l2', rfl, hS⟩
    · simp at hb
    · have haS : a ∈ st.stack := by rw [hS]; simp
      have hav := hva a haS
      rcases List.mem_append.1 hb with hb | hb
      · exact h.k l1 a l2' hS b hb (casc_push (st := st)
          (st1 := { st with stack := st.stack ++ [v], blocked := insBlocked v st.blocked })
          hmem (fun _ => rfl) (h.i1 v hv) hav hc)
      · simp at hb; subst hb
        exact hav (casc_only_self
          (st := { st with stack := st.stack ++ [b], blocked := insBlocked b st.blocked }) (h.i1 b hv) hc)
  · intro x hx
    rcases List.mem_append.1 hx with hx | hx
    · exact (hmem x).2 (Or.inr (h.i3 x hx))
    · simp at hx; exact (hmem x).2 (Or.inl hx)
  · show (st.stack ++ [v]).Nodup
    rw [List.nodup_append]
    exact ⟨h.nd, by simp, fun a ha b hb => by simp at hb; subst hb; exact hva a ha⟩
  · intro x hx
    rcases List.mem_append.1 hx with hx | hx
    · exact h.sub x hx
    · simp at hx; subst hx; exact hvc

/-! ### `addToB` -/

theorem mem_insertAsc (v : Nat) : ∀ (l : List Nat) (x : Nat), x ∈ insertAsc v l ↔ x = v ∨ x ∈ l
  | [], x => by simp [insertAsc]
  | y :: ys, x => by
    unfold insertAsc
    split
    · simp
    · split
      · rename_i h; subst h; simp
      · simp [mem_insertAsc v ys x]
        constructor
        · rintro (h | h | h) <;> simp [h]
        · rintro (h | h | h) <;> simp [h]

theorem addToB_length (v : Nat) : ∀ (ws : List Nat) (B : List (List Nat)), (addToB v B ws).length = B.length
  | [], B => rfl
  | w :: ws, B => by
    show (addToB v (B.set w _) ws).length = _
    rw [addToB_length v ws]; simp

theorem addToB_get (v : Nat) : ∀ (ws : List Nat) (B : List (List Nat)) (y x : Nat),
    x ∈ ((addToB v B ws)[y]?).getD [] ↔ x ∈ (B[y]?).getD [] ∨ (x = v ∧ y ∈ ws ∧ y < B.length)
  | [], B, y, x => by simp [addToB]
  | w :: ws, B, y, x => by
    show x ∈ ((addToB v (B.set w _) ws)[y]?).getD [] ↔ _
    rw [addToB_get v ws]
    simp only [List.getElem?_set, List.length_set]
    by_cases hwy : w = y
    · subst hwy
      by_cases hlt : w < B.length
      · simp [hlt, mem_insertAsc]
        constructor
        · rintro ((h | h) | h)
          · exact Or.inr h
          · exact Or.inl h
          · exact Or.inr h.1
        · rintro (h | h)
          · exact Or.inl (Or.inr h)
          · exact Or.inl (Or.inl h)
      · simp [hlt]
    · have : ¬ y = w := fun e => hwy e.symm
      simp [hwy, this]

/-- After `v` failed: new B-list entries all point to `v`; a cascade in the new state either
avoids them or passes through `v`. -/
theorem casc_addToB {st : JState} {v : Nat} {ws : List Nat} (hv : v ∈ st.blocked) {b a : Nat}
    (h : Casc { st with B := addToB v st.B ws } b a) : Casc st b a ∨ Casc st v a := by
  induction h with
  | refl h => exact Or.inl (Casc.refl h)
  | @step y x _ hb hx ih =>
    have hb' : x ∈ st.Bof y ∨ (x = v ∧ y ∈ ws ∧ y < st.B.length) := (addToB_get v ws st.B y x).1 hb
    rcases hb' with hb' | ⟨rfl, _, _⟩
    · rcases ih with ih | ih
      · exact Or.inl (Casc.step ih hb' hx)
      · exact Or.inr (Casc.step ih hb' hx)
    · exact Or.inr (Casc.refl hv)

end GraafVerif.Johnson
