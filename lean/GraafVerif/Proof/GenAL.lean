import GraafVerif.Proof.GenSets
import GraafVerif.Proof.Par
import GraafVerif.Spec.GenRealises
/-!
# C14, AdjacencyList: every generator realises its defining arc set

`Realises d n P` = `WF d ∧ order d = n ∧ ((u,v) ∈ arcs d ↔ P u v)`.  One generic lemma
(`AL.realises_of_rows`) reduces each generator to: the `u`-th row is `f u`, `f u` is strictly
ascending, and `v ∈ f u ↔ P u v`.  `complete` is proved for every thread count via `chunks_tile`.
-/
namespace GraafVerif.Gen
open GraafVerif.Repr GraafVerif.GenSpec

/-! ## arithmetic helpers -/

theorem succ_mod {v n : Nat} (h : v < n) : (v + 1) % n = if v + 1 = n then 0 else v + 1 := by
  split
  · rename_i h'; rw [h']; exact Nat.mod_self n
  · exact Nat.mod_eq_of_lt (by omega)

theorem pred_mod {u n : Nat} (h : u < n) : (u + n - 1) % n = if u = 0 then n - 1 else u - 1 := by
  split
  · rename_i h'; subst h'
    have : 0 + n - 1 = n - 1 := by omega
    rw [this]; exact Nat.mod_eq_of_lt (by omega)
  · have : u + n - 1 = (u - 1) + n := by omega
    rw [this, Nat.add_mod_right]; exact Nat.mod_eq_of_lt (by omega)

theorem mem_rangeFT {a b x : Nat} : x ∈ rangeFT a b ↔ a ≤ x ∧ x < b := by
  unfold rangeFT; rw [List.mem_range'_1]; omega

theorem length_rangeFT (a b : Nat) : (rangeFT a b).length = b - a := by simp [rangeFT]

theorem getElem?_rangeFT {a b i : Nat} (h : i < b - a) : (rangeFT a b)[i]? = some (a + i) := by
  unfold rangeFT; rw [List.getElem?_range' h]; simp

/-! ## validity of the definitions: arcs join distinct vertices of `0..n` -/

theorem emptyDef_valid {n u v : Nat} (h : EmptyDef n u v) : u < n ∧ v < n ∧ u ≠ v := h.elim
theorem completeDef_valid {n u v : Nat} (h : CompleteDef n u v) : u < n ∧ v < n ∧ u ≠ v := h

theorem circuitDef_valid {n u v : Nat} (h : CircuitDef n u v) : u < n ∧ v < n ∧ u ≠ v := by
  obtain ⟨h2, hu, hv⟩ := h
  rw [succ_mod hu] at hv
  refine ⟨hu, ?_, ?_⟩ <;> (split at hv <;> omega)

theorem cycleDef_valid {n u v : Nat} (h : CycleDef n u v) : u < n ∧ v < n ∧ u ≠ v := by
  rcases h with h | h
  · exact circuitDef_valid h
  · have := circuitDef_valid h; exact ⟨this.2.1, this.1, fun e => this.2.2 e.symm⟩

theorem pathDef_valid {n u v : Nat} (h : PathDef n u v) : u < n ∧ v < n ∧ u ≠ v := by
  unfold PathDef at h; omega

theorem starDef_valid {n u v : Nat} (h : StarDef n u v) : u < n ∧ v < n ∧ u ≠ v := by
  unfold StarDef at h; omega

theorem rimDef_valid {n u v : Nat} (hn : 4 ≤ n) (h : RimDef n u v) : u < n ∧ v < n ∧ u ≠ v := by
  unfold RimDef rimNext at h
  rcases h with ⟨h1, h2, h3⟩ | ⟨h1, h2, h3⟩ <;> (split at h3 <;> omega)

theorem wheelDef_valid {n u v : Nat} (hn : 4 ≤ n) (h : WheelDef n u v) : u < n ∧ v < n ∧ u ≠ v := by
  rcases h with h | h
  · exact starDef_valid h
  · exact rimDef_valid hn h

theorem bicliqueDef_valid {m n u v : Nat} (h : BicliqueDef m n u v) : u < m + n ∧ v < m + n ∧ u ≠ v := by
  unfold BicliqueDef at h; omega

/-! ## the generic row lemma -/

namespace AL

theorem mem_arcs {d : AdjList} {u v : Nat} :
    (u, v) ∈ d.arcs ↔ ∃ row, d.rows[u]? = some row ∧ v ∈ row := by
  unfold AdjList.arcs
  simp only [List.mem_flatMap, List.mem_map]
  constructor
  · rintro ⟨⟨row, i⟩, hmem, w, hw, heq⟩
    rw [List.mem_zipIdx_iff_getElem?] at hmem
    simp only [Prod.mk.injEq] at heq
    obtain ⟨rfl, rfl⟩ := heq
    exact ⟨row, hmem, hw⟩
  · rintro ⟨row, hrow, hv⟩
    exact ⟨(row, u), List.mem_zipIdx_iff_getElem?.mpr hrow, v, hv, rfl⟩

theorem realises_of_rows {rows : List (List Nat)} {n : Nat} {P : Nat → Nat → Prop} (f : Nat → List Nat)
    (hn : 0 < n) (hlen : rows.length = n)
    (hrow : ∀ u, u < n → rows[u]? = some (f u))
    (hsorted : ∀ u, u < n → SortedS (f u))
    (hmem : ∀ u, u < n → ∀ v, v ∈ f u ↔ P u v)
    (hvalid : ∀ u v, P u v → u < n ∧ v < n ∧ u ≠ v) :
    Realises ⟨rows⟩ n P := by
  have hget : ∀ u row, rows[u]? = some row → u < n ∧ row = f u := by
    intro u row h
    have hu : u < n := by
      have := List.getElem?_eq_some_iff.mp h
      obtain ⟨hlt, _⟩ := this; omega
    rw [hrow u hu] at h
    exact ⟨hu, (Option.some.inj h).symm⟩
  refine ⟨⟨by simp [AdjList.order, hlen, hn], ?_⟩, by simp [AdjList.order, hlen], ?_⟩
  · intro u row h
    obtain ⟨hu, rfl⟩ := hget u row h
    refine ⟨hsorted u hu, ?_⟩
    intro v hv
    have := hvalid u v ((hmem u hu v).mp hv)
    simp only [AdjList.order, hlen]
    exact ⟨this.2.1, fun e => this.2.2 e.symm⟩
  · intro u v
    rw [mem_arcs]
    constructor
    · rintro ⟨row, h, hv⟩
      obtain ⟨hu, rfl⟩ := hget u row h
      exact (hmem u hu v).mp hv
    · intro hP
      have hu := (hvalid u v hP).1
      exact ⟨f u, hrow u hu, (hmem u hu v).mpr hP⟩

/-! ## the generators -/

theorem empty_spec {n : Nat} (hn : 1 ≤ n) : ∃ d, empty n = some d ∧ Realises d n (EmptyDef n) := by
  refine ⟨⟨List.replicate n []⟩, by simp [empty, AdjList.empty]; omega, ?_⟩
  apply realises_of_rows (fun _ => []) (by omega) (by simp)
  · intro u hu; simp [hu]
  · intro u _; simp [SortedS]
  · intro u _ v; simp [EmptyDef]
  · intro u v h; exact h.elim

theorem trivial_spec : ∃ d, trivial = some d ∧ Realises d 1 (EmptyDef 1) := empty_spec (Nat.le_refl 1)

/-- every definition below has no arc on a single vertex, so order 1 is `trivial` -/
theorem trivial_realises {P : Nat → Nat → Prop} (hP : ∀ u v, ¬ P u v) :
    ∃ d, trivial = some d ∧ Realises d 1 P := by
  obtain ⟨d, hd, hwf, ho, harcs⟩ := trivial_spec
  refine ⟨d, hd, hwf, ho, ?_⟩
  intro u v; rw [harcs]; simp [EmptyDef, hP]

theorem circuit_spec {n : Nat} (hn : 1 ≤ n) : ∃ d, circuit n = some d ∧ Realises d n (CircuitDef n) := by
  unfold circuit
  by_cases h1 : n = 1
  · subst h1
    simpa using trivial_realises (P := CircuitDef 1) (by intro u v h; unfold CircuitDef at h; omega)
  · have h0 : n ≠ 0 := by omega
    simp only [h0, h1, if_false]
    refine ⟨_, rfl, ?_⟩
    apply realises_of_rows (fun u => ssetOf [(u + 1) % n]) (by omega) (by simp [length_rangeFT])
    · intro u hu
      rw [List.getElem?_map, getElem?_rangeFT (by omega)]
      simp [Nat.add_comm]
    · intro u _; exact sorted_ssetOf _
    · intro u hu v
      rw [mem_ssetOf]; simp only [List.mem_singleton, CircuitDef]
      constructor
      · intro h; exact ⟨by omega, hu, h⟩
      · intro h; exact h.2.2
    · intro u v h; exact circuitDef_valid h

theorem cycle_spec {n : Nat} (hn : 1 ≤ n) : ∃ d, cycle n = some d ∧ Realises d n (CycleDef n) := by
  unfold cycle
  by_cases h1 : n = 1
  · subst h1
    simpa using trivial_realises (P := CycleDef 1) (by intro u v h; unfold CycleDef CircuitDef at h; omega)
  · have h0 : n ≠ 0 := by omega
    simp only [h0, h1, if_false]
    refine ⟨_, rfl, ?_⟩
    apply realises_of_rows (fun u => ssetOf [(u + n - 1) % n, (u + 1) % n]) (by omega) (by simp [length_rangeFT])
    · intro u hu
      rw [List.getElem?_map, getElem?_rangeFT (by omega)]
      simp
    · intro u _; exact sorted_ssetOf _
    · intro u hu v
      rw [mem_ssetOf]
      simp only [List.mem_cons, List.not_mem_nil, or_false, CycleDef, CircuitDef]
      rw [pred_mod hu, succ_mod hu]
      constructor
      · rintro (h | h)
        · right
          have hv : v < n := by split at h <;> omega
          refine ⟨by omega, hv, ?_⟩
          rw [succ_mod hv]
          split at h <;> split <;> omega
        · left; exact ⟨by omega, hu, h⟩
      · rintro (⟨_, _, h⟩ | ⟨_, hv, h⟩)
        · right; exact h
        · left
          rw [succ_mod hv] at h
          split at h <;> split <;> omega
    · intro u v h; exact cycleDef_valid h

theorem path_spec {n : Nat} (hn : 1 ≤ n) : ∃ d, path n = some d ∧ Realises d n (PathDef n) := by
  unfold path
  by_cases h1 : n = 1
  · subst h1
    simpa using trivial_realises (P := PathDef 1) (by intro u v h; unfold PathDef at h; omega)
  · have h0 : n ≠ 0 := by omega
    simp only [h0, h1, if_false]
    refine ⟨_, rfl, ?_⟩
    apply realises_of_rows (fun u => if u < n - 1 then ssetOf [u + 1] else []) (by omega)
      (by simp [length_rangeFT]; omega)
    · intro u hu
      rw [List.getElem?_append]
      simp only [List.length_map, length_rangeFT, Nat.sub_zero]
      split
      · rename_i h
        rw [List.getElem?_map, getElem?_rangeFT (by omega)]; simp
      · have : u - (n - 1) = 0 := by omega
        simp [this]
    · intro u _; split
      · exact sorted_ssetOf _
      · simp [SortedS]
    · intro u hu v
      unfold PathDef
      split
      · rw [mem_ssetOf]; simp; omega
      · simp; omega
    · intro u v h; exact pathDef_valid h

theorem star_rows {n : Nat} {g : Nat → List Nat} {u : Nat} (hu : u < n) (hn : 2 ≤ n) :
    (ssetOf (rangeFT 1 n) :: (rangeFT 1 n).map g)[u]? =
      some (if u = 0 then ssetOf (rangeFT 1 n) else g u) := by
  cases u with
  | zero => simp
  | succ k =>
    rw [List.getElem?_cons_succ, List.getElem?_map, getElem?_rangeFT (by omega)]
    simp [Nat.add_comm]

theorem star_spec {n : Nat} (hn : 1 ≤ n) : ∃ d, star n = some d ∧ Realises d n (StarDef n) := by
  unfold star
  by_cases h1 : n = 1
  · subst h1
    simpa using trivial_realises (P := StarDef 1) (by intro u v h; unfold StarDef at h; omega)
  · have h0 : n ≠ 0 := by omega
    simp only [h0, h1, if_false]
    refine ⟨_, rfl, ?_⟩
    apply realises_of_rows (fun u => if u = 0 then ssetOf (rangeFT 1 n) else ssetOf [0]) (by omega)
      (by simp [length_rangeFT]; omega)
    · intro u hu; exact star_rows hu (by omega)
    · intro u _; split <;> exact sorted_ssetOf _
    · intro u hu v
      unfold StarDef
      split
      · rw [mem_ssetOf, mem_rangeFT]; omega
      · rw [mem_ssetOf]; simp; omega
    · intro u v h; exact starDef_valid h

theorem wheel_spec {n : Nat} (hn : 4 ≤ n) : ∃ d, wheel n = some d ∧ Realises d n (WheelDef n) := by
  unfold wheel
  have h4 : ¬ ¬ n ≥ 4 := by omega
  simp only [h4, if_false]
  refine ⟨_, rfl, ?_⟩
  apply realises_of_rows (fun u => if u = 0 then ssetOf (rangeFT 1 n) else
      ssetOf [0, if u = 1 then n - 1 else u - 1, if u = n - 1 then 1 else u + 1]) (by omega)
    (by simp [length_rangeFT]; omega)
  · intro u hu; exact star_rows hu (by omega)
  · intro u _; split <;> exact sorted_ssetOf _
  · intro u hu v
    unfold WheelDef StarDef RimDef rimNext
    split
    · rw [mem_ssetOf, mem_rangeFT]
      constructor
      · intro h; left; left; omega
      · rintro ((h | h) | (h | h))
        · omega
        · omega
        · omega
        · split at h <;> omega
    · rw [mem_ssetOf]
      simp only [List.mem_cons, List.not_mem_nil, or_false]
      constructor
      · rintro (h | h | h)
        · left; right; omega
        · right; right
          refine ⟨by split at h <;> omega, by split at h <;> omega, ?_⟩
          split at h <;> split <;> omega
        · right; left; exact ⟨by omega, hu, h⟩
      · rintro ((h | h) | (h | h))
        · omega
        · left; omega
        · right; right; exact h.2.2
        · right; left
          obtain ⟨h1, h2, h3⟩ := h
          split at h3 <;> split <;> omega
  · intro u v h; exact wheelDef_valid hn h

theorem biclique_spec {m n : Nat} (hm : 1 ≤ m) (hn : 1 ≤ n) :
    ∃ d, biclique m n = some d ∧ Realises d (m + n) (BicliqueDef m n) := by
  unfold biclique
  have h0 : m ≠ 0 := by omega
  have h0' : n ≠ 0 := by omega
  simp only [h0, h0', if_false]
  refine ⟨_, rfl, ?_⟩
  apply realises_of_rows (fun u => if u < m then ssetOf (rangeFT m (m + n)) else ssetOf (rangeFT 0 m))
    (by omega) (by simp)
  · intro u hu
    rw [List.getElem?_append]
    simp only [List.length_replicate, List.getElem?_replicate]
    split
    · rfl
    · have : u - m < n := by omega
      simp [this]
  · intro u _; split <;> exact sorted_ssetOf _
  · intro u hu v
    unfold BicliqueDef
    split <;> (rw [mem_ssetOf, mem_rangeFT]; omega)
  · intro u v h; exact bicliqueDef_valid h

theorem claw_spec : ∃ d, claw = some d ∧ Realises d 4 (BicliqueDef 1 3) :=
  biclique_spec (Nat.le_refl 1) (by decide)
theorem utility_spec : ∃ d, utility = some d ∧ Realises d 6 (BicliqueDef 3 3) :=
  biclique_spec (by decide) (by decide)

/-! ## `complete`, for every thread count -/

/-- The single-threaded definition `complete` is compared with (C17 piece). -/
def completeSeq (n : Nat) : Option AdjList :=
  if n = 0 then none else if n = 1 then trivial else
  some ⟨(List.range n).map (fun u => serase u (ssetOf (rangeFT 0 n)))⟩

theorem insertByKey_le {α : Type} (a b : Nat × α) (l : List (Nat × α)) (h : a.1 ≤ b.1) :
    insertByKey a (b :: l) = a :: b :: l := by simp [insertByKey, h]

theorem sortByKey_sorted {α : Type} (l : List (Nat × α)) (h : l.Pairwise (fun a b => a.1 ≤ b.1)) :
    sortByKey l = l := by
  induction l with
  | nil => rfl
  | cons a l ih =>
    rw [List.pairwise_cons] at h
    have : sortByKey (a :: l) = insertByKey a (sortByKey l) := rfl
    rw [this, ih h.2]
    cases l with
    | nil => rfl
    | cons b bs => exact insertByKey_le a b bs (h.1 b (List.mem_cons_self ..))

theorem joined_eq (n : Nat) (rs : List (Nat × Nat)) :
    (rs.map (completeWorker n)).flatten =
      (Par.expand rs).map (fun u => (u, serase u (ssetOf (rangeFT 0 n)))) := by
  induction rs with
  | nil => simp [Par.expand]
  | cons r rs ih =>
    simp only [List.map_cons, List.flatten_cons, ih, Par.expand, List.flatMap_cons, List.map_append]
    rfl

/-- **∀ t ≥ 1**: the threaded `AdjacencyList::complete` equals its sequential definition. -/
theorem complete_eq_seq (n t : Nat) (ht : 1 ≤ t) : complete n t = completeSeq n := by
  unfold complete completeSeq
  by_cases h0 : n = 0
  · simp [h0]
  by_cases h1 : n = 1
  · simp [h1]
  simp only [h0, h1, if_false]
  have htile := Par.chunks_tile n (min n t) (by omega) (by omega)
  rw [joined_eq, htile]
  rw [sortByKey_sorted]
  · simp [List.map_map, Function.comp_def]
  · rw [List.pairwise_map]
    have := List.pairwise_lt_range (n := n)
    exact this.imp (fun h => Nat.le_of_lt h)

theorem completeSeq_spec {n : Nat} (hn : 1 ≤ n) :
    ∃ d, completeSeq n = some d ∧ Realises d n (CompleteDef n) := by
  unfold completeSeq
  by_cases h1 : n = 1
  · subst h1
    simpa using trivial_realises (P := CompleteDef 1) (by intro u v h; unfold CompleteDef at h; omega)
  · have h0 : n ≠ 0 := by omega
    simp only [h0, h1, if_false]
    refine ⟨_, rfl, ?_⟩
    apply realises_of_rows (fun u => serase u (ssetOf (rangeFT 0 n))) (by omega) (by simp)
    · intro u hu
      rw [List.getElem?_map, List.getElem?_range hu]; rfl
    · intro u _; exact sorted_serase (sorted_ssetOf _)
    · intro u hu v
      rw [mem_serase (sorted_ssetOf _), mem_ssetOf, mem_rangeFT]
      unfold CompleteDef; omega
    · intro u v h; exact completeDef_valid h

theorem complete_spec {n t : Nat} (hn : 1 ≤ n) (ht : 1 ≤ t) :
    ∃ d, complete n t = some d ∧ Realises d n (CompleteDef n) := by
  rw [complete_eq_seq n t ht]; exact completeSeq_spec hn

end AL
end GraafVerif.Gen
