import GraafVerif.Proof.Pred
import GraafVerif.Proof.QueryAL
import GraafVerif.Proof.Par
/-!
# C12 — `AdjacencyList`: `is_complete`, `is_semicomplete` (sequential skeleton and the
functional `t`-thread model, for every `t ≥ 1`), `is_tournament`, `is_simple`
-/
namespace GraafVerif.Pred
open GraafVerif.Query GraafVerif.Repr

namespace AL
open GraafVerif.Query.AL (abs row_mem row_get hasArc_eq zipIdx_rows rows_eq_map abs_valid size_spec outNeighbors_spec)

theorem row_eq (d : AdjList) (u : Nat) : Pred.AL.row d u = Query.AL.row d u := rfl

theorem verts_length (d : AdjList) : (abs d).verts.length = d.order := by simp [abs, AdjList.vertices]
theorem mem_verts (d : AdjList) (u : Nat) : u ∈ (abs d).verts ↔ u < d.order := by simp [abs, AdjList.vertices]

/-- `is_simple` is `true` for every well-formed list. -/
theorem isSimple_true {d : AdjList} (h : d.WF) : isSimple d = true := by
  unfold isSimple
  rw [zipIdx_rows, List.all_map, List.all_eq_true]
  intro u _
  simp only [Function.comp, Bool.not_eq_true', ← Bool.not_eq_true]
  intro hc
  exact (row_mem h (List.contains_iff_mem.1 hc)).2.2 rfl

theorem isComplete_correct {d : AdjList} (h : d.WF) : isComplete d = true ↔ Def.IsComplete (abs d) := by
  rw [isComplete_iff_outdegree (abs_valid h), verts_length]
  unfold isComplete
  rw [rows_eq_map d, List.all_map, List.all_eq_true]
  simp only [Function.comp, beq_iff_eq, List.mem_range, mem_verts, Spec.outdegree, outNeighbors_spec h]

theorem pairOk_eq (d : AdjList) (u v : Nat) : pairOk d u v = (d.hasArc u v || d.hasArc v u) := by
  simp [pairOk, hasArc_eq, row_eq]

/-- The sequential pair scan decides semicompleteness. -/
theorem scanSeq_correct {d : AdjList} : scanSeq d = true ↔ Def.IsSemicomplete (abs d) := by
  unfold scanSeq rowOk
  rw [pairScan_symm d.order (pairOk d) (fun u v => by simp [pairOk_eq, Bool.or_comm])]
  simp only [Def.IsSemicomplete, mem_verts, pairOk_eq, Bool.or_eq_true]
  rfl

/-- The workers' verdicts combined = the sequential scan, for every thread count. -/
theorem scanPar_eq_seq (d : AdjList) (t : Nat) (ht : 0 < t) (hn : 0 < d.order) :
    (Par.ranges d.order t).all (scanChunk d) = scanSeq d := by
  unfold scanSeq
  rw [← Par.chunks_tile d.order t ht hn, Par.expand, List.all_flatMap]
  rfl

theorem isSemicomplete_correct {d : AdjList} (h : d.WF) (t : Nat) (ht : 0 < t) :
    isSemicomplete d t = true ↔ Def.IsSemicomplete (abs d) := by
  unfold isSemicomplete
  by_cases h1 : d.order = 1
  · simp only [h1, beq_self_eq_true, if_true, true_iff]
    intro u hu v hv huv
    rw [mem_verts] at hu hv
    omega
  · have h1' : (d.order == 1) = false := by simp [h1]
    rw [h1']
    simp only [Bool.false_eq_true, if_false]
    by_cases hs : d.size < d.order * (d.order - 1) / 2
    · simp only [hs, if_true, Bool.false_eq_true, false_iff]
      intro hdef
      have := size_ge_of_semicomplete (abs_valid h) hdef
      rw [verts_length, ← size_spec h] at this
      omega
    · simp only [hs, if_false]
      rw [scanPar_eq_seq d t ht h.1, scanSeq_correct]

theorem isTournament_correct {d : AdjList} (h : d.WF) : isTournament d = true ↔ Def.IsTournament (abs d) := by
  unfold isTournament
  by_cases hs : d.size = d.order * (d.order - 1) / 2
  · have : (d.size != d.order * (d.order - 1) / 2) = false := by simp [hs]
    rw [this]
    simp only [Bool.false_eq_true, if_false]
    rw [pairScan_symm d.order (fun u v => !((row d u).contains v == (row d v).contains u))
      (fun u v => by cases (row d u).contains v <;> cases (row d v).contains u <;> rfl)]
    simp only [Def.IsTournament, mem_verts, row_eq, ← hasArc_eq]
    constructor
    · intro hh u hu v hv huv
      have := hh u hu v hv huv
      show d.hasArc u v = true ↔ d.hasArc v u = false
      cases h1 : d.hasArc u v <;> cases h2 : d.hasArc v u <;> simp_all
    · intro hh u hu v hv huv
      have : d.hasArc u v = true ↔ d.hasArc v u = false := hh u hu v hv huv
      cases h1 : d.hasArc u v <;> cases h2 : d.hasArc v u <;> simp_all
  · have : (d.size != d.order * (d.order - 1) / 2) = true := by simp [hs]
    rw [this]
    simp only [if_true, Bool.false_eq_true, false_iff]
    intro hdef
    have := size_eq_of_tournament (abs_valid h) hdef
    rw [verts_length, ← size_spec h] at this
    exact hs this

end AL
end GraafVerif.Pred
