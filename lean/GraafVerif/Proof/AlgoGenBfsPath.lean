import GraafVerif.Proof.AlgoGenBfs
import GraafVerif.Proof.PredTreeFull
/-!
# Generated `BfsPred::{shortest_path, cycles}` = hand-written `Bfs.spLoop` / `Bfs.cyLoop`

Both loops run the generated `next` (= hand-written `Bfs.next`, `BfsPred.next_eq`) and call the
generated `search_by` / `search` (= hand-written `PredTree.searchByFuel`).  The generated
definitions have ONE fuel parameter, used for the iteration and handed to `search_by`; the
hand-written model fixes the fuel of the search at `pred.len() + 2`, so the equalities ask for
`order + 2 ≤ fuel` (`PredTree.searchByFuel_adequate`: every such fuel gives the same search).
As for `predecessors`, the pointer write `*pred_ptr.add(v) = u` needs the invariant `QInv` of `new`.
-/
set_option linter.unusedSimpArgs false
namespace GraafVerif.AlgoGenThm
open GraafVerif GraafVerif.AlgoGen

namespace BfsPred

theorem searchBy_call (F : Nat) (t : AlgoGen.PredecessorTree) (v : Nat) (isT : Nat → Option Nat → Bool)
    (hF : t.pred.length + 2 ≤ F) :
    AlgoGen.PredecessorTree.searchBy F t v isT = PredecessorTree.liftP (PredTree.searchBy t.pred v isT) := by
  rw [PredecessorTree.searchBy_eq, PredTree.searchByFuel_adequate _ _ _ _ hF]

/-- The body of the `for (u, v) in self.by_ref()` loop of `shortest_path`. -/
theorem shortestPath_for0_eq (F : Nat) (isT : Nat → Bool) (self : AlgoGen.BfsPred) (t : AlgoGen.PredecessorTree)
    (y : Option Nat × Nat) (hv : y.2 < t.pred.length) (hF : t.pred.length + 2 ≤ F) :
    (AlgoGen.BfsPred.shortestPath_for0 F isT self t y : Blk _ (Option (List Nat) × AlgoGen.BfsPred) _) =
      if isT y.2 = true then
        match PredTree.searchBy (t.pred.set y.2 y.1) y.2 (fun _ b => b.isNone) with
        | .panic => .error (.err (.fault .panic))
        | .ret r => .error (.ret (r.map List.reverse, self))
      else .ok ⟨t.pred.set y.2 y.1⟩ := by
  unfold AlgoGen.BfsPred.shortestPath_for0
  simp only [wr_lt _ _ _ _ hv, ok_bind]
  by_cases ht : isT y.2 = true
  · simp only [ht, if_true]
    rw [searchBy_call F _ _ _ (by simpa using hF)]
    cases PredTree.searchBy (t.pred.set y.2 y.1) y.2 (fun _ b => b.isNone) with
    | panic => rfl
    | ret r => cases r <;> rfl
  · simp [ht]

/-- The loop of `shortest_path` (followed by the final `None`) = the hand-written `spLoop`. -/
theorem shortestPath_loop_eq (g : Graph) (F : Nat) (isT : Nat → Bool) (hF : g.n + 2 ≤ F) :
    ∀ (k : Nat) (s : AlgoGen.BfsPred) (t : AlgoGen.PredecessorTree), QInv g.n (toH s) → t.pred.length = g.n →
      Except.map Prod.fst (fnBody (iterLoopS (AlgoGen.BfsPred.next g) (AlgoGen.BfsPred.shortestPath_for0 F isT) k s t
          >>= fun r => pure (none, r.2) : Blk Empty (Option (List Nat) × AlgoGen.BfsPred) _)) =
        liftBR id (GraafVerif.Bfs.spLoop g isT k (toH s) t.pred) := by
  intro k
  induction k with
  | zero => intro s t _ _; rfl
  | succ k ih =>
    intro s t hq ht
    unfold GraafVerif.Bfs.spLoop
    have hn := next_eq g s
    cases hh : GraafVerif.Bfs.next g GraafVerif.Bfs.labPred (toH s) with
    | done =>
      rw [hh] at hn
      rw [iterLoopS_succ_none _ _ _ _ _ _ hn]; rfl
    | panic =>
      rw [hh] at hn
      rw [iterLoopS_succ_error _ _ _ _ _ _ hn]; rfl
    | yield x st' =>
      rw [hh] at hn
      obtain ⟨hq', hx⟩ := next_qinv g _ g.n _ _ _ hq hh
      obtain ⟨v, u⟩ := x
      simp only [liftStep, sw] at hn
      rw [iterLoopS_succ_some _ _ _ _ _ _ _ hn,
        shortestPath_for0_eq F isT (ofH st') t (u, v) (by rw [ht]; exact hx) (by rw [ht]; exact hF)]
      simp only
      by_cases hT : isT v = true
      · simp only [hT, if_true]
        cases PredTree.searchBy (t.pred.set v u) v (fun _ b => b.isNone) with
        | panic => rfl
        | ret r => rfl
      · simp only [hT, if_false, Bool.false_eq_true]
        have := ih (ofH st') ⟨t.pred.set v u⟩ (by rw [toH_ofH]; exact hq') (by simp [ht])
        rw [toH_ofH] at this
        exact this

/-- `BfsPred::shortest_path` on a state satisfying the invariant of `new`, for `order + 2 ≤ fuel`. -/
theorem shortestPath_eq (g : Graph) (F : Nat) (s : AlgoGen.BfsPred) (isT : Nat → Bool) (hF : g.n + 2 ≤ F)
    (hq : QInv g.n (toH s)) :
    Except.map Prod.fst (AlgoGen.BfsPred.shortestPath g F s isT) =
      if g.n = 0 then .error (.fault .panic)
      else liftBR id (GraafVerif.Bfs.spLoop g isT F (toH s) (List.replicate g.n none)) := by
  unfold AlgoGen.BfsPred.shortestPath
  simp only [PredecessorTree.new_eq]
  by_cases hn : g.n = 0
  · simp [hn, Except.map]
  · rw [if_pos (by omega), if_neg hn]
    have := shortestPath_loop_eq g F isT hF F s ⟨List.replicate g.n none⟩ hq (by simp)
    simpa using this

/-- `BfsPred::new(&g, S).shortest_path(is_target)` = the hand-written `Bfs.shortestPath` (for a
non-empty source list: then the hand-written fuel `order + |S| + 1` also covers the search). -/
theorem new_shortestPath_eq (g : Graph) (S : List Nat) (isT : Nat → Bool) (hS : S ≠ []) :
    (AlgoGen.BfsPred.new g S >>= fun s =>
        Except.map Prod.fst (AlgoGen.BfsPred.shortestPath g (GraafVerif.Bfs.fuelFor g S) s isT)) =
      liftBR id (GraafVerif.Bfs.shortestPath g S isT) := by
  rw [new_eq]
  unfold GraafVerif.Bfs.shortestPath
  have hF : g.n + 2 ≤ GraafVerif.Bfs.fuelFor g S := by
    unfold GraafVerif.Bfs.fuelFor
    cases S with
    | nil => exact absurd rfl hS
    | cons a l => simp only [List.length_cons]; omega
  cases hn : GraafVerif.Bfs.new g GraafVerif.Bfs.labPred S with
  | panic => rfl
  | ok st =>
    have hq : QInv g.n (toH (ofH st)) := by rw [toH_ofH]; exact new_qinv g _ S st hn
    show Except.map _ (AlgoGen.BfsPred.shortestPath g _ (ofH st) isT) = _
    rw [shortestPath_eq g _ _ isT hF hq, toH_ofH]
    dsimp only
    by_cases h0 : g.n = 0
    · rw [if_pos h0, if_pos h0]; rfl
    · rw [if_neg h0, if_neg h0]

/-- `for x in out_neighbors(v) { if let Some(mut path) = pred.search(v, x) { path.reverse(); cycles.push(path) } }`
= the hand-written `cyclesAt`. -/
theorem cycles_for0_eq (F : Nat) (t : AlgoGen.PredecessorTree) (v : Nat) (hF : t.pred.length + 2 ≤ F) :
    ∀ (xs : List Nat) (acc : List (List Nat)),
      (forLoop (AlgoGen.BfsPred.cycles_for0 F t v) xs acc :
          Blk (AlgoGen.BfsPred × AlgoGen.PredecessorTree × List (List Nat)) (List (List Nat) × AlgoGen.BfsPred) _) =
        liftB id (GraafVerif.Bfs.cyclesAt t.pred v xs acc) := by
  intro xs
  induction xs with
  | nil => intro acc; rfl
  | cons x xs ih =>
    intro acc
    unfold GraafVerif.Bfs.cyclesAt
    have hs : AlgoGen.PredecessorTree.search F t v x = PredecessorTree.liftP (PredTree.search t.pred v x) := by
      rw [PredecessorTree.search_eq, PredTree.searchByFuel_adequate _ _ _ _ hF]; rfl
    cases hr : PredTree.search t.pred v x with
    | panic =>
      rw [forLoop_cons_err (e := .fault .panic) (h := by
        unfold AlgoGen.BfsPred.cycles_for0; rw [hs, hr]; rfl)]
      rfl
    | ret r =>
      cases r with
      | none =>
        rw [forLoop_cons_ok (s' := acc) (h := by
          unfold AlgoGen.BfsPred.cycles_for0; rw [hs, hr]; rfl)]
        exact ih acc
      | some p =>
        rw [forLoop_cons_ok (s' := acc ++ [p.reverse]) (h := by
          unfold AlgoGen.BfsPred.cycles_for0; rw [hs, hr]; rfl)]
        exact ih _

/-- One round of `while let Some((u, v)) = self.next()`. -/
theorem cycles_while0_step (g : Graph) (F : Nat) (hF : g.n + 2 ≤ F) (s : AlgoGen.BfsPred) (t : AlgoGen.PredecessorTree)
    (acc : List (List Nat)) (hq : QInv g.n (toH s)) (ht : t.pred.length = g.n) :
    (AlgoGen.BfsPred.cycles_while0 g F (s, t, acc) :
        Blk _ (List (List Nat) × AlgoGen.BfsPred) _) =
      match GraafVerif.Bfs.next g GraafVerif.Bfs.labPred (toH s) with
      | .done => brk (s, t, acc)
      | .panic => .error (.err (.fault .panic))
      | .yield x st' =>
        match GraafVerif.Bfs.cyclesAt (t.pred.set x.1 x.2) x.1 (g.out x.1) acc with
        | .panic => .error (.err (.fault .panic))
        | .ok acc' => .ok (ofH st', ⟨t.pred.set x.1 x.2⟩, acc') := by
  unfold AlgoGen.BfsPred.cycles_while0
  simp only [next_eq g s]
  cases hh : GraafVerif.Bfs.next g GraafVerif.Bfs.labPred (toH s) with
  | done => rfl
  | panic => rfl
  | yield x st' =>
    obtain ⟨_, hx⟩ := next_qinv g _ g.n _ _ _ hq hh
    obtain ⟨v, u⟩ := x
    have hv : v < t.pred.length := by rw [ht]; exact hx
    simp only [liftStep, sw, call_ok, ok_bind, wr_lt _ _ _ _ hv]
    rw [cycles_for0_eq F ⟨t.pred.set v u⟩ v (by simp [ht, hF])]
    cases GraafVerif.Bfs.cyclesAt (t.pred.set v u) v (g.out v) acc with
    | panic => rfl
    | ok acc' => rfl

/-- The `while let` loop of `cycles` = the hand-written `cyLoop`. -/
theorem cycles_while0_eq (g : Graph) (F : Nat) (hF : g.n + 2 ≤ F) :
    ∀ (k : Nat) (s : AlgoGen.BfsPred) (t : AlgoGen.PredecessorTree) (acc : List (List Nat)),
      QInv g.n (toH s) → t.pred.length = g.n →
      Except.map Prod.fst (fnBody (whileLoop (AlgoGen.BfsPred.cycles_while0 g F) k (s, t, acc)
          >>= fun r => pure (r.2.2, r.1) : Blk Empty (List (List Nat) × AlgoGen.BfsPred) _)) =
        liftBR id (GraafVerif.Bfs.cyLoop g k (toH s) t.pred acc) := by
  intro k
  induction k with
  | zero => intro s t acc _ _; rfl
  | succ k ih =>
    intro s t acc hq ht
    rw [whileLoop_succ, cycles_while0_step g F hF s t acc hq ht]
    unfold GraafVerif.Bfs.cyLoop
    cases hh : GraafVerif.Bfs.next g GraafVerif.Bfs.labPred (toH s) with
    | done => rfl
    | panic => rfl
    | yield x st' =>
      obtain ⟨hq', _⟩ := next_qinv g _ g.n _ _ _ hq hh
      obtain ⟨v, u⟩ := x
      simp only
      cases hc : GraafVerif.Bfs.cyclesAt (t.pred.set v u) v (g.out v) acc with
      | panic => rfl
      | ok acc' =>
        simp only
        have := ih (ofH st') ⟨t.pred.set v u⟩ acc' (by rw [toH_ofH]; exact hq') (by simp [ht])
        rw [toH_ofH] at this
        exact this

/-- `BfsPred::cycles` on a state satisfying the invariant of `new`, for `order + 2 ≤ fuel`. -/
theorem cycles_eq (g : Graph) (F : Nat) (s : AlgoGen.BfsPred) (hF : g.n + 2 ≤ F) (hq : QInv g.n (toH s)) :
    Except.map Prod.fst (AlgoGen.BfsPred.cycles g F s) =
      if g.n = 0 then .error (.fault .panic)
      else liftBR id (GraafVerif.Bfs.cyLoop g F (toH s) (List.replicate g.n none) []) := by
  unfold AlgoGen.BfsPred.cycles
  simp only [PredecessorTree.new_eq]
  by_cases hn : g.n = 0
  · simp [hn, Except.map]
  · rw [if_pos (by omega), if_neg hn]
    have := cycles_while0_eq g F hF F s ⟨List.replicate g.n none⟩ [] hq (by simp)
    simpa using this

/-- `BfsPred::new(&g, S).cycles()` = the hand-written `Bfs.cycles` (non-empty source list). -/
theorem new_cycles_eq (g : Graph) (S : List Nat) (hS : S ≠ []) :
    (AlgoGen.BfsPred.new g S >>= fun s =>
        Except.map Prod.fst (AlgoGen.BfsPred.cycles g (GraafVerif.Bfs.fuelFor g S) s)) =
      liftBR id (GraafVerif.Bfs.cycles g S) := by
  rw [new_eq]
  unfold GraafVerif.Bfs.cycles
  have hF : g.n + 2 ≤ GraafVerif.Bfs.fuelFor g S := by
    unfold GraafVerif.Bfs.fuelFor
    cases S with
    | nil => exact absurd rfl hS
    | cons a l => simp only [List.length_cons]; omega
  cases hn : GraafVerif.Bfs.new g GraafVerif.Bfs.labPred S with
  | panic => rfl
  | ok st =>
    have hq : QInv g.n (toH (ofH st)) := by rw [toH_ofH]; exact new_qinv g _ S st hn
    show Except.map _ (AlgoGen.BfsPred.cycles g _ (ofH st)) = _
    rw [cycles_eq g _ _ hF hq, toH_ofH]
    dsimp only
    by_cases h0 : g.n = 0
    · rw [if_pos h0, if_pos h0]; rfl
    · rw [if_neg h0, if_neg h0]

end BfsPred

end GraafVerif.AlgoGenThm
