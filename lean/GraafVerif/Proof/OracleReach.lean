import GraafVerif.Spec.Graph
/-!
# The naive reachability oracle `reachSetB` is exact

`reachSetB g S` (in `Spec/Graph.lean`) marks the sources in a Boolean array and repeats closure
rounds (every marked `u` marks its out-neighbours) until a round changes nothing, at most `n+1`
rounds.  Proved here, for `g.WF` and sources in range:

* soundness: only vertices reachable from `S` are ever marked;
* a round that does not raise its flag changed nothing and the marked set is closed under arcs;
* a round that raises its flag marked at least one more vertex, so (at most `n` vertices)
  the `n+1` rounds of fuel are never exhausted before a fixpoint;
* hence `marked v ↔ ReachFrom g S v`.
-/
namespace GraafVerif.OracleProof

/-- Generic invariant principle for left folds. -/
theorem foldl_inv {α β : Type} (P : α → Prop) (f : α → β → α) :
    ∀ (l : List β), (∀ a b, b ∈ l → P a → P (f a b)) → ∀ a, P a → P (l.foldl f a) := by
  intro l
  induction l with
  | nil => intro _ a h; exact h
  | cons b rest ih =>
    intro hstep a h
    exact ih (fun a c hc => hstep a c (List.mem_cons_of_mem _ hc)) _ (hstep a b List.mem_cons_self h)

/-! ## Boolean arrays -/

/-- `v` is marked. -/
def mk (a : Array Bool) (v : Nat) : Bool := a.getD v false

/-- Number of marked entries. -/
def cnt (a : Array Bool) : Nat := a.toList.count true

theorem mk_lt {a : Array Bool} {v : Nat} (h : mk a v = true) : v < a.size := by
  unfold mk at h
  rcases Nat.lt_or_ge v a.size with h' | h'
  · exact h'
  · simp [Array.getD_eq_getD_getElem?, Array.getElem?_eq_none h'] at h

theorem mk_set (a : Array Bool) (v x : Nat) :
    mk (a.setIfInBounds v true) x = if v = x ∧ v < a.size then true else mk a x := by
  unfold mk
  simp only [Array.getD_eq_getD_getElem?, Array.getElem?_setIfInBounds]
  by_cases h : v = x
  · subst h
    by_cases h' : v < a.size
    · simp [h']
    · simp [h']
  · simp [h]

theorem cnt_le (a : Array Bool) : cnt a ≤ a.size := by
  unfold cnt
  have := List.count_le_length (a := true) (l := a.toList)
  simpa using this

theorem cnt_set {a : Array Bool} {v : Nat} (hv : v < a.size) (hm : mk a v = false) :
    cnt (a.setIfInBounds v true) = cnt a + 1 := by
  unfold cnt
  rw [Array.toList_setIfInBounds, List.count_set (by simpa using hv)]
  have : a.toList[v]'(by simpa using hv) = false := by
    unfold mk at hm
    simpa [Array.getD_eq_getD_getElem?, Array.getElem?_eq_getElem hv] using hm
  simp [this]

theorem toList_getD (a : Array Bool) (v : Nat) : a.toList[v]?.getD false = mk a v := by
  simp [mk, Array.getD_eq_getD_getElem?]

/-! ## Named pieces of `reachSetB` -/

def rInit (g : Graph) (S : List Nat) : Array Bool :=
  S.foldl (fun vis s => vis.setIfInBounds s true) (Array.replicate g.n false)

/-- Inner step: mark `v` (and raise the flag) unless it is marked. -/
def rIn (a : Array Bool × Bool) (v : Nat) : Array Bool × Bool :=
  if a.1.getD v false then a else (a.1.setIfInBounds v true, true)

/-- Outer step: a marked `u` marks its out-neighbours. -/
def rOut (g : Graph) (acc : Array Bool × Bool) (u : Nat) : Array Bool × Bool :=
  if acc.1.getD u false then (g.out u).foldl rIn acc else acc

def rRound (g : Graph) (vis : Array Bool) : Array Bool × Bool :=
  (List.range g.n).foldl (rOut g) (vis, false)

theorem reachSetB_eq (g : Graph) (S : List Nat) :
    reachSetB g S = (reachSetB.go (rRound g) (g.n + 1) (rInit g S)).toList := rfl

theorem rIn_cases (a : Array Bool × Bool) (v : Nat) :
    (mk a.1 v = true ∧ rIn a v = a) ∨
    (mk a.1 v = false ∧ rIn a v = (a.1.setIfInBounds v true, true)) := by
  unfold rIn mk
  cases h : a.1.getD v false <;> simp

/-! ## Initial array -/

theorem rInit_size (g : Graph) (S : List Nat) : (rInit g S).size = g.n := by
  unfold rInit
  refine foldl_inv (fun a : Array Bool => a.size = g.n) _ S ?_ _ (by simp)
  intro a s _ h
  simpa using h

theorem rInit_mk (g : Graph) (S : List Nat) (x : Nat) :
    mk (rInit g S) x = true ↔ x ∈ S ∧ x < g.n := by
  unfold rInit
  suffices h : ∀ (S : List Nat) (a : Array Bool), a.size = g.n →
      (mk (S.foldl (fun vis s => vis.setIfInBounds s true) a) x = true ↔ (x ∈ S ∧ x < g.n) ∨ mk a x = true) by
    rw [h S _ (by simp)]
    have : mk (Array.replicate g.n false) x = false := by
      unfold mk
      simp only [Array.getD_eq_getD_getElem?, Array.getElem?_replicate]
      split <;> rfl
    simp [this]
  intro S
  induction S with
  | nil => intro a _; simp
  | cons s rest ih =>
    intro a ha
    rw [List.foldl_cons, ih _ (by simpa using ha), mk_set, ha]
    by_cases hs : s = x
    · subst hs
      by_cases hn : s < g.n
      · simp [hn]
      · have : mk a s = false := by
          cases hm : mk a s with
          | false => rfl
          | true => exact absurd (ha ▸ mk_lt hm) hn
        simp [hn, this]
    · have : ¬ x = s := fun h => hs h.symm
      simp [hs, this]

/-! ## One round -/

/-- Invariant of a round started at `vis` with `c0 = cnt vis`. -/
structure RInv (g : Graph) (S : List Nat) (vis : Array Bool) (a : Array Bool × Bool) : Prop where
  size : a.1.size = g.n
  sound : ∀ x, mk a.1 x = true → ReachFrom g S x
  mono : ∀ x, mk vis x = true → mk a.1 x = true
  cle : cnt vis ≤ cnt a.1
  clt : a.2 = true → cnt vis < cnt a.1

theorem reachFrom_step {g : Graph} {S : List Nat} {u v : Nat} (h : ReachFrom g S u) (ha : g.A u v) :
    ReachFrom g S v := by
  obtain ⟨s, hs, hr⟩ := h
  exact ⟨s, hs, Reach.step hr ha⟩

theorem rIn_mono (a : Array Bool × Bool) (v x : Nat) (h : mk a.1 x = true) : mk (rIn a v).1 x = true := by
  rcases rIn_cases a v with ⟨_, h1⟩ | ⟨_, h1⟩
  · rw [h1]; exact h
  · rw [h1, mk_set]; simp [h]

theorem rInv_rIn {g : Graph} (hwf : g.WF) {S : List Nat} {vis : Array Bool} {a : Array Bool × Bool}
    {u v : Nat} (h : RInv g S vis a) (hu : mk a.1 u = true) (ha : g.A u v) : RInv g S vis (rIn a v) := by
  rcases rIn_cases a v with ⟨_, h1⟩ | ⟨hm, h1⟩
  · rw [h1]; exact h
  · rw [h1]
    have hv : v < a.1.size := by rw [h.size]; exact (hwf u v ha).2
    have hc := cnt_set hv hm
    refine ⟨by simpa using h.size, ?_, ?_, ?_, ?_⟩
    · intro x hx
      rw [mk_set] at hx
      by_cases hvx : v = x
      · subst hvx; exact reachFrom_step (h.sound u hu) ha
      · simp only [hvx, false_and, if_false] at hx; exact h.sound x hx
    · intro x hx
      rw [mk_set]; simp [h.mono x hx]
    · show cnt vis ≤ cnt (a.1.setIfInBounds v true)
      have := h.cle; omega
    · intro _
      show cnt vis < cnt (a.1.setIfInBounds v true)
      have := h.cle; omega

theorem rInv_rOut {g : Graph} (hwf : g.WF) {S : List Nat} {vis : Array Bool} {a : Array Bool × Bool}
    (u : Nat) (h : RInv g S vis a) : RInv g S vis (rOut g a u) := by
  unfold rOut
  by_cases hu : a.1.getD u false = true
  · rw [if_pos hu]
    have := foldl_inv (fun b : Array Bool × Bool => RInv g S vis b ∧ mk b.1 u = true) rIn (g.out u)
      (fun b v hv hb => ⟨rInv_rIn hwf hb.1 hb.2 hv, rIn_mono b v u hb.2⟩) a ⟨h, hu⟩
    exact this.1
  · rw [if_neg hu]; exact h

theorem rInv_round {g : Graph} (hwf : g.WF) {S : List Nat} {vis : Array Bool}
    (hsize : vis.size = g.n) (hsound : ∀ x, mk vis x = true → ReachFrom g S x) :
    RInv g S vis (rRound g vis) := by
  unfold rRound
  refine foldl_inv (RInv g S vis) (rOut g) _ (fun a u _ h => rInv_rOut hwf u h) _ ?_
  exact ⟨hsize, hsound, fun _ h => h, Nat.le_refl _, fun h => by cases h⟩

/-! ### a round that does not raise the flag -/

theorem rIn_flag_mono (a : Array Bool × Bool) (v : Nat) (h : a.2 = true) : (rIn a v).2 = true := by
  rcases rIn_cases a v with ⟨_, h1⟩ | ⟨_, h1⟩
  · rw [h1]; exact h
  · rw [h1]

theorem rIn_foldl_flag_mono (l : List Nat) (a : Array Bool × Bool) (h : a.2 = true) :
    (l.foldl rIn a).2 = true :=
  foldl_inv (fun b : Array Bool × Bool => b.2 = true) rIn l (fun b v _ hb => rIn_flag_mono b v hb) a h

theorem rOut_flag_mono (g : Graph) (a : Array Bool × Bool) (u : Nat) (h : a.2 = true) :
    (rOut g a u).2 = true := by
  unfold rOut
  split
  · exact rIn_foldl_flag_mono _ a h
  · exact h

theorem rOut_foldl_flag_mono (g : Graph) (l : List Nat) (a : Array Bool × Bool) (h : a.2 = true) :
    (l.foldl (rOut g) a).2 = true :=
  foldl_inv (fun b : Array Bool × Bool => b.2 = true) (rOut g) l (fun b v _ hb => rOut_flag_mono g b v hb) a h

theorem rIn_foldl_noupdate : ∀ (l : List Nat) (a : Array Bool × Bool), (l.foldl rIn a).2 = false →
    l.foldl rIn a = a ∧ ∀ v ∈ l, mk a.1 v = true := by
  intro l
  induction l with
  | nil => intro a _; exact ⟨rfl, fun v hv => by cases hv⟩
  | cons b rest ih =>
    intro a h
    rw [List.foldl_cons] at h ⊢
    rcases rIn_cases a b with ⟨hm, h1⟩ | ⟨_, h1⟩
    · rw [h1] at h ⊢
      obtain ⟨e, hall⟩ := ih a h
      refine ⟨e, fun v hv => ?_⟩
      rcases List.mem_cons.mp hv with rfl | hv
      · exact hm
      · exact hall v hv
    · rw [h1, rIn_foldl_flag_mono rest _ rfl] at h; cases h

theorem rOut_foldl_noupdate (g : Graph) : ∀ (l : List Nat) (a : Array Bool × Bool),
    (l.foldl (rOut g) a).2 = false →
    l.foldl (rOut g) a = a ∧ ∀ u ∈ l, mk a.1 u = true → ∀ v ∈ g.out u, mk a.1 v = true := by
  intro l
  induction l with
  | nil => intro a _; exact ⟨rfl, fun v hv => by cases hv⟩
  | cons b rest ih =>
    intro a h
    rw [List.foldl_cons] at h ⊢
    have hb : (rOut g a b).2 = false := by
      cases hf : (rOut g a b).2 with
      | false => rfl
      | true => rw [rOut_foldl_flag_mono g rest _ hf] at h; cases h
    have hstep : rOut g a b = a ∧ (mk a.1 b = true → ∀ v ∈ g.out b, mk a.1 v = true) := by
      unfold rOut at hb ⊢
      by_cases hm : a.1.getD b false = true
      · rw [if_pos hm] at hb ⊢
        obtain ⟨e, hall⟩ := rIn_foldl_noupdate _ a hb
        exact ⟨e, fun _ => hall⟩
      · rw [if_neg hm]
        exact ⟨rfl, fun h' => absurd h' hm⟩
    rw [hstep.1] at h ⊢
    obtain ⟨e, hall⟩ := ih a h
    refine ⟨e, fun u hu => ?_⟩
    rcases List.mem_cons.mp hu with rfl | hu
    · exact hstep.2
    · exact hall u hu

/-- The marked set is closed under arcs. -/
def Closed (g : Graph) (a : Array Bool) : Prop :=
  ∀ u, mk a u = true → ∀ v ∈ g.out u, mk a v = true

theorem rRound_noupdate {g : Graph} {vis : Array Bool} (hsize : vis.size = g.n)
    (h : (rRound g vis).2 = false) : (rRound g vis).1 = vis ∧ Closed g vis := by
  unfold rRound at h ⊢
  obtain ⟨e, hall⟩ := rOut_foldl_noupdate g _ _ h
  rw [e]
  exact ⟨rfl, fun u hu => hall u (List.mem_range.mpr (hsize ▸ mk_lt hu)) hu⟩

/-! ## The closure loop -/

/-- What the loop maintains and what it delivers. -/
structure Good (g : Graph) (S : List Nat) (a : Array Bool) : Prop where
  size : a.size = g.n
  sound : ∀ x, mk a x = true → ReachFrom g S x
  src : ∀ s ∈ S, s < g.n → mk a s = true

theorem go_spec {g : Graph} (hwf : g.WF) {S : List Nat} :
    ∀ (fuel : Nat) (vis : Array Bool), Good g S vis → g.n + 1 ≤ fuel + cnt vis →
      Good g S (reachSetB.go (rRound g) fuel vis) ∧ Closed g (reachSetB.go (rRound g) fuel vis) := by
  intro fuel
  induction fuel with
  | zero =>
    intro vis hg hc
    have := cnt_le vis
    rw [hg.size] at this
    omega
  | succ fuel ih =>
    intro vis hg hc
    have hinv := rInv_round hwf (S := S) hg.size hg.sound
    have hgood : Good g S (rRound g vis).1 :=
      ⟨hinv.size, hinv.sound, fun s hs hn => hinv.mono s (hg.src s hs hn)⟩
    rw [reachSetB.go]
    cases hf : (rRound g vis).2 with
    | true =>
      simp only [if_true]
      have := hinv.clt hf
      exact ih _ hgood (by omega)
    | false =>
      simp only [Bool.false_eq_true, if_false]
      obtain ⟨e, hcl⟩ := rRound_noupdate hg.size hf
      rw [e]
      exact ⟨hg, hcl⟩

theorem good_init (g : Graph) (S : List Nat) : Good g S (rInit g S) := by
  refine ⟨rInit_size g S, ?_, ?_⟩
  · intro x hx
    exact ⟨x, ((rInit_mk g S x).mp hx).1, Reach.refl x⟩
  · intro s hs hn
    exact (rInit_mk g S s).mpr ⟨hs, hn⟩

/-- Closed + sources marked ⇒ everything reachable is marked. -/
theorem closed_complete {g : Graph} {S : List Nat} {a : Array Bool} (hS : ∀ s ∈ S, s < g.n)
    (hg : Good g S a) (hcl : Closed g a) {v : Nat} (h : ReachFrom g S v) : mk a v = true := by
  obtain ⟨s, hs, hr⟩ := h
  induction hr with
  | refl => exact hg.src s hs (hS s hs)
  | step _ ha ih => exact hcl _ ih _ ha

/-- **`reachSetB` is exact.** -/
theorem reachSetB_spec {g : Graph} (hwf : g.WF) {S : List Nat} (hS : ∀ s ∈ S, s < g.n) (v : Nat) :
    (reachSetB g S)[v]?.getD false = true ↔ ReachFrom g S v := by
  rw [reachSetB_eq, toList_getD]
  obtain ⟨hg, hcl⟩ := go_spec hwf (S := S) (g.n + 1) (rInit g S) (good_init g S) (by omega)
  exact ⟨hg.sound v, closed_complete hS hg hcl⟩

theorem reachSetB_length {g : Graph} (hwf : g.WF) (S : List Nat) : (reachSetB g S).length = g.n := by
  rw [reachSetB_eq]
  obtain ⟨hg, _⟩ := go_spec hwf (S := S) (g.n + 1) (rInit g S) (good_init g S) (by omega)
  simpa using hg.size

end GraafVerif.OracleProof
