import GraafVerif.Proof.JohnsonCircuit
import GraafVerif.Proof.JohnsonUnblock2
/-!
# Completeness invariant of `circuit`

`Inv2.c2` (Johnson's B-list invariant): a vertex `x` that is blocked and not on the stack has no
arc to `s`, all its out-neighbours `w` are blocked, and `x ∈ B[w]` — so unblocking any `w`
cascades to `x`.  Consequence (`free_of_c2`): a vertex from which `s` can be reached avoiding
the stack is not blocked.  `circuit_post2`: every simple path from `v` that avoids the stack and
closes to `s` is emitted by `circuit v`.
-/
set_option linter.unusedVariables false
namespace GraafVerif.Johnson
open GraafVerif

structure Inv2 (comp : AM) (s N : Nat) (st : JState) : Prop where
  c2 : ∀ x ∈ st.blocked, x ∉ st.stack → ∀ w ∈ comp.out x, w ≠ s ∧ w ∈ st.blocked ∧ x ∈ st.Bof w
  bnd : st.blocked.Nodup
  blt : ∀ x ∈ st.blocked, x < N
  blen : st.B.length = N

/-- `v :: ext` is a simple path of the component that avoids `S`, never returns to `s`, and
whose last vertex has an arc to `s`. -/
structure CPath (comp : AM) (s : Nat) (S : List Nat) (v : Nat) (ext : List Nat) : Prop where
  walk : IsWalk comp.gr (v :: ext)
  close : s ∈ comp.out ((v :: ext).getLast (List.cons_ne_nil _ _))
  fresh : ∀ x ∈ ext, x ∉ S ∧ x ≠ v ∧ x ≠ s
  nd : ext.Nodup

theorem free_of_c2 {comp : AM} {s N : Nat} {st : JState} (h : Inv2 comp s N st) :
    ∀ (ext : List Nat) (x : Nat), IsWalk comp.gr (x :: ext) →
      s ∈ comp.out ((x :: ext).getLast (List.cons_ne_nil _ _)) →
      (∀ y ∈ x :: ext, y ∉ st.stack) → x ∉ st.blocked
  | [], x, _, hc, hav => by
    intro hb
    have := h.c2 x hb (hav x (by simp)) s (by simpa using hc)
    exact this.1 rfl
  | y :: ext, x, hw, hc, hav => by
    intro hb
    have hy := h.c2 x hb (hav x (by simp)) y hw.1
    exact free_of_c2 h ext y hw.2 (by simpa [List.getLast_cons_cons] using hc)
      (fun z hz => hav z (by simp [hz])) hy.2.1

theorem length_le_of_nodup_lt {l : List Nat} {N : Nat} (hnd : l.Nodup) (hlt : ∀ x ∈ l, x < N) :
    l.length ≤ N := by
  have := List.Nodup.length_le_of_subset hnd (l₂ := List.range N)
    (fun x hx => List.mem_range.2 (hlt x hx))
  simpa using this

structure Post2 (comp : AM) (s N : Nat) (st : JState) (v : Nat) (r : Bool × JState) : Prop where
  inv2 : Inv2 comp s N r.2
  complete : ∀ ext, CPath comp s st.stack v ext → st.stack ++ v :: ext ∈ r.2.result

def RecOK2 (comp : AM) (s N : Nat) (fuel : Nat) (rec : JState → Nat → Bool × JState) : Prop :=
  ∀ st w, Inv comp st → Inv2 comp s N st → w ∉ st.blocked → w ∈ comp.verts →
    IsWalk comp.gr (st.stack ++ [w]) → comp.verts.length ≤ fuel + st.stack.length →
    Post2 comp s N st w (rec st w)

structure FoldPost2 (comp : AM) (s N : Nat) (S : List Nat) (v : Nat) (ws : List Nat)
    (acc r : Bool × JState) : Prop where
  inv2 : Inv2 comp s N r.2
  mono : ∀ c ∈ acc.2.result, c ∈ r.2.result
  complete : ∀ w ∈ ws, (w = s → S ++ [v] ∈ r.2.result) ∧
    (w ≠ s → w ∉ S ++ [v] → ∀ ext, CPath comp s (S ++ [v]) w ext → S ++ v :: w :: ext ∈ r.2.result)

theorem Inv2.congr {comp : AM} {s N : Nat} {st st' : JState} (hb : st'.blocked = st.blocked)
    (hB : st'.B = st.B) (hs : st'.stack = st.stack) (h : Inv2 comp s N st) : Inv2 comp s N st' := by
  have hBof : ∀ y, st'.Bof y = st.Bof y := by intro y; simp [JState.Bof, hB]
  refine ⟨?_, by rw [hb]; exact h.bnd, by rw [hb]; exact h.blt, by rw [hB]; exact h.blen⟩
  intro x hx hxs w hw
  rw [hb] at hx ⊢
  rw [hs] at hxs
  rw [hBof]
  exact h.c2 x hx hxs w hw

theorem circuit_fold2 (comp : AM) (s N fuel : Nat) (rec : JState → Nat → Bool × JState)
    (hrec : RecOK comp s fuel rec) (hrec2 : RecOK2 comp s N fuel rec)
    (hclosed : ∀ u ∈ comp.verts, ∀ w ∈ comp.out u, w ∈ comp.verts)
    (S : List Nat) (v : Nat) (hfuel : comp.verts.length ≤ fuel + 1 + S.length) :
    ∀ (ws : List Nat) (acc : Bool × JState), ws.Nodup → (∀ w ∈ ws, w ∈ comp.out v) →
      Inv comp acc.2 → Inv2 comp s N acc.2 → acc.2.stack = S ++ [v] → IsWalk comp.gr (S ++ [v]) →
      FoldPost2 comp s N S v ws acc (ws.foldl (circuitStep rec s) acc)
  | [], acc, _, _, _, hinv2, _, _ => ⟨hinv2, fun _ h => h, by simp⟩
  | w :: ws, acc, hnd, hout, hinv, hinv2, hst, hwalk => by
    have hnd' := List.nodup_cons.1 hnd
    have hvS : v ∈ acc.2.stack := by rw [hst]; simp
    have hvc : v ∈ comp.verts := hinv.sub v hvS
    have hwv : w ∈ comp.out v := hout w (by simp)
    -- facts about the single step, from the soundness fold on `[w]`
    have h1 : FoldPost comp s S v [w] acc (circuitStep rec s acc w) :=
      circuit_fold comp s fuel rec hrec hclosed S v hfuel [w] acc (by simp)
        (fun x hx => by simp at hx; subst hx; exact hwv) hinv hst hwalk
    obtain ⟨new1, hres1, _, _⟩ := h1.res
    -- Inv2 after the step and completeness for `w`
    have hstep : Inv2 comp s N (circuitStep rec s acc w).2 ∧
        ((w = s → S ++ [v] ∈ (circuitStep rec s acc w).2.result) ∧
          (w ≠ s → w ∉ S ++ [v] → ∀ ext, CPath comp s (S ++ [v]) w ext →
            S ++ v :: w :: ext ∈ (circuitStep rec s acc w).2.result)) := by
      by_cases hws : w = s
      · have hacc' : circuitStep rec s acc w =
            (true, { acc.2 with result := acc.2.result ++ [acc.2.stack] }) := by
          simp [circuitStep, hws]
        rw [hacc']
        refine ⟨Inv2.congr (st := acc.2) rfl rfl rfl hinv2, ⟨fun _ => ?_, fun h => absurd hws h⟩⟩
        simp [hst]
      · by_cases hbl : acc.2.isBlocked w = true
        · have hacc' : circuitStep rec s acc w = acc := by
            simp [circuitStep, hws, hbl]
          rw [hacc']
          have hwb : w ∈ acc.2.blocked := by simpa [JState.isBlocked] using hbl
          refine ⟨hinv2, ⟨fun h => absurd h hws, fun _ hwS ext hp => ?_⟩⟩
          exfalso
          refine free_of_c2 hinv2 ext w hp.walk hp.close ?_ hwb
          intro y hy
          rw [hst]
          rcases List.mem_cons.1 hy with rfl | hy
          · exact hwS
          · have := hp.fresh y hy
            exact this.1
        · have hwnb : w ∉ acc.2.blocked := by simpa [JState.isBlocked] using hbl
          have hacc' : circuitStep rec s acc w = (acc.1 || (rec acc.2 w).1, (rec acc.2 w).2) := by
            simp [circuitStep, hws, hbl]
          have hwalk' : IsWalk comp.gr (acc.2.stack ++ [w]) := by
            rw [hst]
            have := isWalk_snoc comp.gr S v w hwalk hwv
            simpa using this
          have hpost := hrec2 acc.2 w hinv hinv2 hwnb (hclosed v hvc w hwv) hwalk'
            (by rw [hst]; simp; omega)
          rw [hacc']
          refine ⟨hpost.inv2, ⟨fun h => absurd h hws, fun _ _ ext hp => ?_⟩⟩
          have := hpost.complete ext (by rw [hst]; exact hp)
          rw [hst] at this
          simpa using this
    have ih := circuit_fold2 comp s N fuel rec hrec hrec2 hclosed S v hfuel ws
      (circuitStep rec s acc w) hnd'.2 (fun x hx => hout x (by simp [hx]))
      h1.inv hstep.1 h1.stack hwalk
    simp only [List.foldl_cons]
    refine ⟨ih.inv2, ?_, ?_⟩
    · intro c hc
      apply ih.mono
      rw [hres1]; simp [hc]
    · intro x hx
      rcases List.mem_cons.1 hx with rfl | hx
      · obtain ⟨ha, hb⟩ := hstep.2
        exact ⟨fun h => ih.mono _ (ha h), fun h hxS ext hp => ih.mono _ (hb h hxS ext hp)⟩
      · exact ih.complete x hx

theorem Inv2.push {comp : AM} {s N : Nat} {st : JState} {v : Nat} (h : Inv2 comp s N st)
    (hv : v ∉ st.blocked) (hvN : v < N) :
    Inv2 comp s N { st with stack := st.stack ++ [v], blocked := insBlocked v st.blocked } := by
  have hmem := mem_insBlocked v st.blocked
  have hins : insBlocked v st.blocked = v :: st.blocked := by
    unfold insBlocked
    simp [hv]
  refine ⟨?_, ?_, ?_, h.blen⟩
  · intro x hx hxs w hw
    have hxs' : x ∉ st.stack ∧ x ≠ v := by
      constructor
      · intro hm; exact hxs (by simp [hm])
      · intro e; exact hxs (by simp [e])
    have hxb : x ∈ st.blocked := by
      rcases (hmem x).1 hx with e | hb
      · exact absurd e hxs'.2
      · exact hb
    obtain ⟨h1, h2, h3⟩ := h.c2 x hxb hxs'.1 w hw
    exact ⟨h1, (hmem w).2 (Or.inr h2), h3⟩
  · show (insBlocked v st.blocked).Nodup
    rw [hins]
    exact List.nodup_cons.2 ⟨hv, h.bnd⟩
  · intro x hx
    rcases (hmem x).1 hx with e | hb
    · subst e; exact hvN
    · exact h.blt x hb

theorem cpath_cons {comp : AM} {s : Nat} {S : List Nat} {v w : Nat} {ext : List Nat}
    (hp : CPath comp s S v (w :: ext)) :
    w ∈ comp.out v ∧ w ≠ s ∧ w ∉ S ++ [v] ∧ CPath comp s (S ++ [v]) w ext := by
  have hf := hp.fresh w (by simp)
  have hnd := List.nodup_cons.1 hp.nd
  refine ⟨hp.walk.1, hf.2.2, ?_, ⟨hp.walk.2, ?_, ?_, hnd.2⟩⟩
  · intro hm
    rcases List.mem_append.1 hm with hm | hm
    · exact hf.1 hm
    · simp at hm; exact hf.2.1 hm
  · simpa [List.getLast_cons_cons] using hp.close
  · intro x hx
    have hfx := hp.fresh x (by simp [hx])
    refine ⟨?_, ?_, hfx.2.2⟩
    · intro hm
      rcases List.mem_append.1 hm with hm | hm
      · exact hfx.1 hm
      · simp at hm; exact hfx.2.1 hm
    · intro e; subst e; exact hnd.1 hx

theorem circuit_post2 (comp : AM) (s N uf : Nat) (huf : N < uf) (hrow : ∀ u, (comp.out u).Nodup)
    (hclosed : ∀ u ∈ comp.verts, ∀ w ∈ comp.out u, w ∈ comp.verts)
    (hN : ∀ x ∈ comp.verts, x < N) :
    ∀ fuel, RecOK2 comp s N fuel (circuit comp s uf fuel)
  | 0 => by
    intro st w hinv _ hw hwc _ hfuel
    exfalso
    have hnd : (st.stack ++ [w]).Nodup := by
      rw [List.nodup_append]
      exact ⟨hinv.nd, by simp, fun a ha b hb => by
        simp at hb; subst hb; intro e; subst e; exact hw (hinv.i3 a ha)⟩
    have := List.Nodup.length_le_of_subset hnd (l₂ := comp.verts) (by
      intro x hx
      rcases List.mem_append.1 hx with hx | hx
      · exact hinv.sub x hx
      · simp at hx; subst hx; exact hwc)
    simp at this
    omega
  | fuel+1 => by
    intro st v hinv hinv2 hv hvc hwalk hfuel
    have hinv1 := hinv.push hv hvc
    have hinv21 := hinv2.push hv (hN v hvc)
    have hF := circuit_fold comp s fuel (circuit comp s uf fuel) (circuit_post comp s uf hrow hclosed fuel)
      hclosed st.stack v (by omega) (comp.out v)
      (false, { st with stack := st.stack ++ [v], blocked := insBlocked v st.blocked })
      (hrow v) (fun _ h => h) hinv1 rfl hwalk
    have hF2 := circuit_fold2 comp s N fuel (circuit comp s uf fuel)
      (circuit_post comp s uf hrow hclosed fuel) (circuit_post2 comp s N uf huf hrow hclosed hN fuel)
      hclosed st.stack v (by omega) (comp.out v)
      (false, { st with stack := st.stack ++ [v], blocked := insBlocked v st.blocked })
      (hrow v) (fun _ h => h) hinv1 hinv21 rfl hwalk
    rw [circuit_succ]
    revert hF hF2
    generalize (comp.out v).foldl (circuitStep (circuit comp s uf fuel) s)
      (false, { st with stack := st.stack ++ [v], blocked := insBlocked v st.blocked }) = r
    intro hF hF2
    -- completeness in terms of the loop's result list
    have hcompl : ∀ ext, CPath comp s st.stack v ext → st.stack ++ v :: ext ∈ r.2.result := by
      intro ext hp
      cases ext with
      | nil =>
        have hsv : s ∈ comp.out v := by simpa using hp.close
        exact (hF2.complete s hsv).1 rfl
      | cons w ext =>
        obtain ⟨h1, h2, h3, h4⟩ := cpath_cons hp
        exact (hF2.complete w h1).2 h2 h3 ext h4
    unfold circuitFinish
    cases hr1 : r.1 with
    | true =>
      simp only [if_true]
      have U := unblock_spec uf r.2 v
      have hlen : r.2.blocked.length < uf := by
        have := length_le_of_nodup_lt hF2.inv2.bnd hF2.inv2.blt
        omega
      have U2 := unblock_spec2 uf r.2 v hF2.inv2.bnd hlen
      have hstk : (unblock uf r.2 v).stack.dropLast = st.stack := by
        rw [U.stack, hF.stack]; simp
      refine ⟨⟨?_, U2.nd, fun x hx => hF2.inv2.blt x (U.bl x hx), by
        show (unblock uf r.2 v).B.length = N
        rw [U.blen]; exact hF2.inv2.blen⟩, ?_⟩
      · intro x hx hxs w hw
        have hxS : x ∉ st.stack := by rw [← hstk]; exact hxs
        have hxv : x ≠ v := by intro e; subst e; exact U2.gone hx
        have hxb : x ∈ r.2.blocked := U.bl x hx
        have hxs2 : x ∉ r.2.stack := by
          rw [hF.stack]
          intro hm
          rcases List.mem_append.1 hm with hm | hm
          · exact hxS hm
          · simp at hm; exact hxv hm
        obtain ⟨h1, h2, h3⟩ := hF2.inv2.c2 x hxb hxs2 w hw
        have hwb : w ∈ (unblock uf r.2 v).blocked := by
          apply Classical.byContradiction
          intro hnw
          exact U2.closure w h2 hnw x h3 hx
        refine ⟨h1, hwb, ?_⟩
        show x ∈ (unblock uf r.2 v).Bof w
        rw [U2.keep w hwb]; exact h3
      · intro ext hp
        show st.stack ++ v :: ext ∈ (unblock uf r.2 v).result
        rw [U.result]; exact hcompl ext hp
    | false =>
      simp only [Bool.false_eq_true, if_false]
      obtain ⟨_, hmono, hws⟩ := hF.fail hr1
      have hvb : v ∈ r.2.blocked := hmono v ((mem_insBlocked v st.blocked v).2 (Or.inl rfl))
      have hstk : r.2.stack.dropLast = st.stack := by rw [hF.stack]; simp
      refine ⟨⟨?_, hF2.inv2.bnd, hF2.inv2.blt, by
        show (addToB v r.2.B (comp.out v)).length = N
        rw [addToB_length]; exact hF2.inv2.blen⟩, fun ext hp => hcompl ext hp⟩
      intro x hx hxs w hw
      have hxS : x ∉ st.stack := by rw [← hstk]; exact hxs
      show w ≠ s ∧ w ∈ r.2.blocked ∧ x ∈ ((addToB v r.2.B (comp.out v))[w]?).getD []
      by_cases hxv : x = v
      · subst hxv
        have hwN : w < r.2.B.length := by
          rw [hF2.inv2.blen]; exact hN w (hclosed x hvc w hw)
        exact ⟨(hws w hw).2, (hws w hw).1, (addToB_get x (comp.out x) r.2.B w x).2 (Or.inr ⟨rfl, hw, hwN⟩)⟩
      · have hxs2 : x ∉ r.2.stack := by
          rw [hF.stack]
          intro hm
          rcases List.mem_append.1 hm with hm | hm
          · exact hxS hm
          · simp at hm; exact hxv hm
        obtain ⟨h1, h2, h3⟩ := hF2.inv2.c2 x hx hxs2 w hw
        exact ⟨h1, h2, (addToB_get v (comp.out v) r.2.B w x).2 (Or.inl h3)⟩

end GraafVerif.Johnson
