import GraafVerif.Proof.ComposeView
import GraafVerif.Proof.ComposeAlgo
import GraafVerif.Thm.C14
import GraafVerif.Thm.C16
/-!
# Compose — generators (C14) and conversions (C16) under the traversals

* A generated digraph `Realises d n P` ⇒ its view has order `n` and arc relation exactly `P`,
  so every traversal property holds w.r.t. the DEFINING arc set `P`.
* Sanity family: BFS on `circuit(n)` from `[0]` — `BfsDist` yields `(0,0), (1,1), …, (n-1,n-1)`
  and `distances()` is `[0, 1, …, n-1]`, for every `n ≥ 1`, in every representation.
* A conversion result has the SAME VIEW as its source (`view t = view d` as `Graph`s: same
  order, and rows are strictly ascending lists with the same members), so every algorithm that
  is generic in `Order + OutNeighbors (+ Vertices)` returns the very same value on both.
-/
namespace GraafVerif.Compose
open GraafVerif GraafVerif.Repr GraafVerif.Query GraafVerif.GenSpec

/-! ## small generalisations of the uniqueness lemmas -/

theorem ViewSpec.view_unique' {g₁ g₂ : Graph} {n₁ n₂ : Nat} {a₁ a₂ : List (Nat × Nat)}
    {o₁ o₂ : Nat → Option (List Nat)} (h₁ : ViewSpec g₁ n₁ a₁ o₁) (h₂ : ViewSpec g₂ n₂ a₂ o₂)
    (hn : n₁ = n₂) (ha : ∀ u v, (u, v) ∈ a₁ ↔ (u, v) ∈ a₂) : g₁ = g₂ := by
  subst hn; exact h₁.view_unique h₂ ha

theorem VViewSpec.view_unique' {g₁ g₂ : Tarjan.VGraph} {v₁ v₂ : List Nat} {a₁ a₂ : List (Nat × Nat)}
    (h₁ : VViewSpec g₁ v₁ a₁) (h₂ : VViewSpec g₂ v₂ a₂)
    (hv : v₁ = v₂) (ha : ∀ u v, (u, v) ∈ a₁ ↔ (u, v) ∈ a₂) : g₁ = g₂ := by
  subst hv; exact h₁.view_unique h₂ ha

/-- hop distances are unique -/
theorem RIsHopDist.unique {A : Rel} {S : List Nat} {v d₁ d₂ : Nat}
    (h₁ : RIsHopDist A S v d₁) (h₂ : RIsHopDist A S v d₂) : d₁ = d₂ := by
  rcases Nat.lt_trichotomy d₁ d₂ with h | h | h
  · exact absurd h₁.1 (h₂.2 d₁ h)
  · exact h
  · exact absurd h₂.1 (h₁.2 d₂ h)

/-! ## Generators: every traversal property w.r.t. the defining arc set -/

/-- A view of order `n` whose arcs are `arcs`, where `arcs` is exactly `P`. -/
theorem traversals_of_viewSpec {g : Graph} {n : Nat} {arcs : List (Nat × Nat)} {o : Nat → Option (List Nat)}
    (vs : ViewSpec g n arcs o) {P : Rel} (hP : ∀ u v, (u, v) ∈ arcs ↔ P u v)
    (S : List Nat) (hS : ∀ s ∈ S, s < n) (hnd : S.Nodup) : TraversalsHold P n S g := by
  have hA : ∀ u v, g.A u v ↔ P u v := fun u v => (vs.arc_iff u v).trans (hP u v)
  have hn := vs.order
  rw [← hn] at hS ⊢
  exact traversalsHold_of hA vs.wf hS hnd

theorem contiguous_of_realises {d : AdjMap} {n : Nat} {P : Nat → Nat → Prop} (h : Gen.AM.Realises d n P) :
    Gen.AM.Contiguous d := by
  unfold Gen.AM.Contiguous; rw [h.2.2.1, h.2.1]

theorem AL.traversals_of_realises {d : AdjList} {n : Nat} {P : Nat → Nat → Prop} (h : Gen.AL.Realises d n P)
    (S : List Nat) (hS : ∀ s ∈ S, s < n) (hnd : S.Nodup) : TraversalsHold P n S d.view := by
  have vs := d.view_spec h.1
  rw [h.2.1] at vs
  exact traversals_of_viewSpec vs h.2.2 S hS hnd

theorem MX.traversals_of_realises {d : AdjMatrix} {n : Nat} {P : Nat → Nat → Prop} (h : Gen.MX.Realises d n P)
    (S : List Nat) (hS : ∀ s ∈ S, s < n) (hnd : S.Nodup) : TraversalsHold P n S d.view := by
  have vs := d.view_spec h.1
  rw [h.2.1] at vs
  exact traversals_of_viewSpec vs h.2.2 S hS hnd

theorem EL.traversals_of_realises {d : EdgeList} {n : Nat} {P : Nat → Nat → Prop} (h : Gen.EL.Realises d n P)
    (S : List Nat) (hS : ∀ s ∈ S, s < n) (hnd : S.Nodup) : TraversalsHold P n S d.view := by
  have vs := d.view_spec h.1
  rw [h.2.1] at vs
  exact traversals_of_viewSpec vs h.2.2 S hS hnd

theorem AM.traversals_of_realises {d : AdjMap} {n : Nat} {P : Nat → Nat → Prop} (h : Gen.AM.Realises d n P)
    (S : List Nat) (hS : ∀ s ∈ S, s < n) (hnd : S.Nodup) : TraversalsHold P n S d.view := by
  have vs := d.view_spec h.1 (contiguous_of_realises h)
  rw [h.2.1] at vs
  exact traversals_of_viewSpec vs h.2.2.2 S hS hnd

/-- Whatever realises the same `(n, P)` — in whichever representations — is the SAME `Graph`
to a traversal. -/
theorem gen_views_agree {n : Nat} {P : Nat → Nat → Prop} {d₁ : AdjList} {d₂ : AdjMap} {d₃ : AdjMatrix}
    {d₄ : EdgeList} (h₁ : Gen.AL.Realises d₁ n P) (h₂ : Gen.AM.Realises d₂ n P)
    (h₃ : Gen.MX.Realises d₃ n P) (h₄ : Gen.EL.Realises d₄ n P) :
    d₂.view = d₁.view ∧ d₃.view = d₁.view ∧ d₄.view = d₁.view := by
  have v₁ := d₁.view_spec h₁.1
  have v₂ := d₂.view_spec h₂.1 (contiguous_of_realises h₂)
  have v₃ := d₃.view_spec h₃.1
  have v₄ := d₄.view_spec h₄.1
  refine ⟨v₂.view_unique' v₁ (h₂.2.1.trans h₁.2.1.symm) ?_, v₃.view_unique' v₁ (h₃.2.1.trans h₁.2.1.symm) ?_,
    v₄.view_unique' v₁ (h₄.2.1.trans h₁.2.1.symm) ?_⟩
  · intro u v; exact (h₂.2.2.2 u v).trans (h₁.2.2 u v).symm
  · intro u v; exact (h₃.2.2 u v).trans (h₁.2.2 u v).symm
  · intro u v; exact (h₄.2.2 u v).trans (h₁.2.2 u v).symm

/-! ## The circuit family -/

theorem circuit_reachIn (n v : Nat) (hv : v < n) : RReachIn (CircuitDef n) v 0 v := by
  induction v with
  | zero => exact .zero 0
  | succ k ih =>
    refine .succ (ih (by omega)) ⟨by omega, by omega, ?_⟩
    rw [Nat.mod_eq_of_lt hv]

theorem circuit_reachIn_le (n k x : Nat) (h : RReachIn (CircuitDef n) k 0 x) : x ≤ k := by
  generalize hz : (0 : Nat) = z at h
  induction h with
  | zero => omega
  | @succ k' u' v' w' _ ha ih =>
    have := ih hz
    obtain ⟨h2, _, rfl⟩ := ha
    have := Nat.mod_le (v' + 1) n
    omega

theorem circuit_reach_lt (n : Nat) (hn : 1 ≤ n) (x : Nat) (h : RReach (CircuitDef n) 0 x) : x < n := by
  generalize hz : (0 : Nat) = z at h
  induction h with
  | refl => omega
  | step _ ha _ =>
    obtain ⟨h2, _, rfl⟩ := ha
    exact Nat.mod_lt _ (by omega)

/-- In `circuit(n)` the hop distance from `0` to `v` is `v`. -/
theorem circuit_isHopDist (n v : Nat) (hv : v < n) : RIsHopDist (CircuitDef n) [0] v v := by
  refine ⟨⟨0, by simp, circuit_reachIn n v hv⟩, ?_⟩
  rintro k hk ⟨s, hs, hr⟩
  simp only [List.mem_singleton] at hs
  subst hs
  have := circuit_reachIn_le n k v hr
  omega

theorem circuit_reachFrom_iff (n : Nat) (hn : 1 ≤ n) (v : Nat) : RReachFrom (CircuitDef n) [0] v ↔ v < n := by
  constructor
  · rintro ⟨s, hs, hr⟩
    simp only [List.mem_singleton] at hs
    subst hs
    exact circuit_reach_lt n hn v hr
  · intro hv
    exact ⟨0, by simp, (circuit_reachIn n v hv).toReach⟩

/-- BFS from `[0]` on ANY graph whose arc relation is that of `circuit(n)`: all `n` vertices, in
the order `0, 1, …, n-1`, at distances `0, 1, …, n-1`. -/
theorem bfs_on_circuit {g : Graph} {n : Nat} (hn : 1 ≤ n) (h : BfsHolds (CircuitDef n) n [0] g)
    (inf : Nat) (hinf : n ≤ inf) :
    Bfs.bfs g [0] = .ok (List.range n) ∧
    Bfs.bfsDist g [0] = .ok ((List.range n).map (fun v => (v, v))) ∧
    Bfs.distances g [0] inf = .ok (List.range n) := by
  obtain ⟨⟨out, ho, hnd, hmem, hord⟩, ⟨outd, hod, hob, hex⟩, hdist⟩ := h
  have hmem' : ∀ v, v ∈ out ↔ v < n := fun v => (hmem v).trans (circuit_reachFrom_iff n hn v)
  have hout : out = List.range n := by
    apply Query.sorted_ext _ List.pairwise_lt_range
    · intro x; rw [hmem' x]; simp
    · -- non-decreasing + duplicate free = strictly ascending
      have hle : out.Pairwise (· ≤ ·) := by
        have hall : ∀ x ∈ out, x < n := fun x hx => (hmem' x).1 hx
        clear hmem hmem' ho hnd hob
        induction out with
        | nil => exact List.Pairwise.nil
        | cons a l ih =>
          rw [List.pairwise_cons] at hord ⊢
          refine ⟨fun b hb => ?_, ih hord.2 (fun x hx => hall x (List.mem_cons_of_mem _ hx))⟩
          exact hord.1 b hb a b (circuit_isHopDist n a (hall a List.mem_cons_self))
            (circuit_isHopDist n b (hall b (List.mem_cons_of_mem _ hb)))
      clear hord hmem hmem' ho hob
      induction out with
      | nil => exact List.Pairwise.nil
      | cons a l ih =>
        rw [List.pairwise_cons] at hle ⊢
        rw [List.nodup_cons] at hnd
        refine ⟨fun b hb => ?_, ih hnd.2 hle.2⟩
        have := hle.1 b hb
        have hne : a ≠ b := fun e => hnd.1 (e ▸ hb)
        omega
  refine ⟨by rw [ho, hout], ?_, ?_⟩
  · rw [hod]
    congr 1
    have hfst : outd.map (·.1) = List.range n := by
      rw [ho] at hob
      have := Bfs.Res.ok.inj hob
      rw [← this, hout]
    have hsnd : ∀ p ∈ outd, p.2 = p.1 := by
      intro p hp
      have hp1 : p.1 < n := by
        have : p.1 ∈ outd.map (·.1) := List.mem_map_of_mem hp
        rw [hfst] at this; simpa using this
      exact (hex p hp).unique (circuit_isHopDist n p.1 hp1)
    have : outd = (outd.map (·.1)).map (fun v => (v, v)) := by
      rw [List.map_map]
      conv => lhs; rw [← List.map_id outd]
      apply List.map_congr_left
      intro p hp
      have := hsnd p hp
      simp only [id, Function.comp]
      cases p with | mk a b => simp only at this; subst this; rfl
    rw [this, hfst]
  · obtain ⟨d, hd, hlen, hk, _⟩ := hdist inf hinf
    rw [hd]
    congr 1
    apply List.ext_getElem?
    intro v
    by_cases hv : v < n
    · rw [hk v v (circuit_isHopDist n v hv)]
      simp [hv]
    · have h1 : d[v]? = none := by simp; omega
      have h2 : (List.range n)[v]? = none := by simp; omega
      rw [h1, h2]

/-! ## Conversions: the result has the same views as the source -/

/-- A source digraph as the conversions see it, with its views. -/
structure SrcViews (o : Nat) (a : List (Nat × Nat)) (g : Graph) (vg : Tarjan.VGraph) : Prop where
  view : ∃ outN, ViewSpec g o a outN
  vview : VViewSpec vg (List.range o) a

theorem views_of_goodAL {o : Nat} {a : List (Nat × Nat)} {g : Graph} {vg : Tarjan.VGraph}
    (hs : SrcViews o a g vg) {r : Option AdjList} (hg : C16.GoodAL o a r) :
    ∀ t, r = some t → t.view = g ∧ t.vview = vg := by
  intro t ht
  obtain ⟨t', ht', hok, hsame⟩ := hg
  obtain rfl : t = t' := Option.some.inj (ht.symm.trans ht')
  obtain ⟨_, sv⟩ := hs.view
  have hv : t.vertices = List.range o := by simp only [AdjList.vertices]; rw [hsame.1]
  exact ⟨(t.view_spec hok).view_unique' sv hsame.1 hsame.2, (t.vview_spec hok).view_unique' hs.vview hv hsame.2⟩

theorem views_of_goodAM {o : Nat} {a : List (Nat × Nat)} {g : Graph} {vg : Tarjan.VGraph}
    (hs : SrcViews o a g vg) {r : Option AdjMap} (hg : C16.GoodAM o a r) :
    ∀ t, r = some t → t.view = g ∧ t.vview = vg := by
  intro t ht
  obtain ⟨t', ht', hok, hsame⟩ := hg
  obtain rfl : t = t' := Option.some.inj (ht.symm.trans ht')
  obtain ⟨_, sv⟩ := hs.view
  have hv : t.vertices = List.range o := by rw [hok.2.1, hsame.1]
  exact ⟨(t.view_spec hok.1 hok.2.1).view_unique' sv hsame.1 hsame.2,
    (t.vview_spec hok.1).view_unique' hs.vview hv hsame.2⟩

theorem views_of_goodMX {o : Nat} {a : List (Nat × Nat)} {g : Graph} {vg : Tarjan.VGraph}
    (hs : SrcViews o a g vg) {r : Option AdjMatrix} (hg : C16.GoodMX o a r) :
    ∀ t, r = some t → t.view = g ∧ t.vview = vg := by
  intro t ht
  obtain ⟨t', ht', hok, hsame⟩ := hg
  obtain rfl : t = t' := Option.some.inj (ht.symm.trans ht')
  obtain ⟨_, sv⟩ := hs.view
  have hv : t.vertices = List.range o := by simp only [AdjMatrix.vertices]; rw [hsame.1]
  exact ⟨(t.view_spec hok.1).view_unique' sv hsame.1 hsame.2, (t.vview_spec hok.1).view_unique' hs.vview hv hsame.2⟩

theorem views_of_goodEL {o : Nat} {a : List (Nat × Nat)} {g : Graph} {vg : Tarjan.VGraph}
    (hs : SrcViews o a g vg) {r : Option EdgeList} (hg : C16.GoodEL o a r) :
    ∀ t, r = some t → t.view = g ∧ t.vview = vg := by
  intro t ht
  obtain ⟨t', ht', hok, hsame⟩ := hg
  obtain rfl : t = t' := Option.some.inj (ht.symm.trans ht')
  obtain ⟨_, sv⟩ := hs.view
  have hv : t.vertices = List.range o := by simp only [EdgeList.vertices]; rw [hsame.1]
  exact ⟨(t.view_spec hok).view_unique' sv hsame.1 hsame.2, (t.vview_spec hok).view_unique' hs.vview hv hsame.2⟩

/-- … and the weighted target additionally carries weight 1 on every arc. -/
theorem views_of_goodWL {o : Nat} {a : List (Nat × Nat)} {g : Graph} {vg : Tarjan.VGraph}
    (hs : SrcViews o a g vg) {r : Option AdjListW} (hg : C16.GoodWL o a r) :
    ∀ t, r = some t → t.view = g ∧ t.vview = vg ∧ ∀ u v w, t.wview.A u v w ↔ (g.A u v ∧ w = 1) := by
  intro t ht
  obtain ⟨t', ht', hok, hsame⟩ := hg
  obtain rfl : t = t' := Option.some.inj (ht.symm.trans ht')
  obtain ⟨_, sv⟩ := hs.view
  have hv : t.vertices = List.range o := by simp only [AdjListW.vertices]; rw [hsame.1]
  have e1 := (t.view_spec hok.1).view_unique' sv hsame.1 hsame.2
  refine ⟨e1, (t.vview_spec hok.1).view_unique' hs.vview hv hsame.2, ?_⟩
  intro u v w
  have ws := t.wview_spec hok.1
  have tv := t.view_spec hok.1
  constructor
  · intro hw
    refine ⟨?_, hok.2 (u, v, w) ((ws.arc_iff u v w).1 hw)⟩
    rw [← e1]
    exact (tv.arc_iff u v).2 ((ws.arcs_iff u v).1 ⟨w, hw⟩)
  · rintro ⟨hA, rfl⟩
    rw [← e1] at hA
    obtain ⟨w', hw'⟩ := (ws.arcs_iff u v).2 ((tv.arc_iff u v).1 hA)
    have : w' = 1 := hok.2 (u, v, w') ((ws.arc_iff u v w').1 hw')
    rw [← this]; exact hw'

theorem srcViews_al (d : AdjList) (h : d.WF) : SrcViews d.order d.arcs d.view d.vview :=
  ⟨⟨_, d.view_spec h⟩, d.vview_spec h⟩
theorem srcViews_mx (d : AdjMatrix) (h : d.WF) : SrcViews d.order d.arcs d.view d.vview :=
  ⟨⟨_, d.view_spec h⟩, d.vview_spec h⟩
theorem srcViews_el (d : EdgeList) (h : d.WF) : SrcViews d.order d.arcs d.view d.vview :=
  ⟨⟨_, d.view_spec h⟩, d.vview_spec h⟩
theorem srcViews_am (d : AdjMap) (h : d.WF) (hc : Gen.AM.Contiguous d) : SrcViews d.order d.arcs d.view d.vview := by
  refine ⟨⟨_, d.view_spec h hc⟩, ?_⟩
  have := d.vview_spec h
  rw [show d.vertices = List.range d.order from hc] at this
  exact this

end GraafVerif.Compose
