import GraafVerif.Proof.ReprEL
import GraafVerif.Proof.ReprAL
import GraafVerif.Proof.ReprW
import GraafVerif.Proof.ReprMX
import GraafVerif.Proof.ReprCmp
/-!
# `WF` is exactly "reachable from `empty` by calls" (fixed-order representations)

Every call preserves `WF` and `empty n` is `WF` (C01), so every reachable digraph is `WF`.
Conversely every `WF` digraph `d` is *reached*: adding its own arcs, in listing order, to
`empty d.order` gives back the identical structure.  So the theorems of C01 / C20, which
quantify over `WF` digraphs, speak about exactly the digraphs a user can build with
`empty` + `add_arc(_weighted)`, and `WF` is not vacuous.
(`AdjacencyMap` is excluded: its vertex set can also shrink through `filter_vertices`, so
`empty` + calls do not reach every well-formed map.)
-/
namespace GraafVerif.Repr
open GraafVerif.ReprSpec

/-- The arc `(a, b)` as an entry of a weighted arc list. -/
def keyIs {ω : Type} (a b : Nat) (x : Nat × Nat × ω) : Bool := x.1 == a && x.2.1 == b

def addOps {ω : Type} (L : List (Nat × Nat × ω)) : List (Op ω) := L.map (fun x => .add x.1 x.2.1 x.2.2)

/-- Adding a list of valid arcs with pairwise different endpoints to a fixed-order state. -/
theorem spec_run_adds {ω : Type} (L : List (Nat × Nat × ω)) :
    ∀ (s : SpecState ω), (∀ x ∈ L, rejected .fixed s x.1 x.2.1 = false) →
      L.Pairwise (fun x y => ¬ (x.1 = y.1 ∧ x.2.1 = y.2.1)) →
      (run (specStep .fixed) s (addOps L)).1 =
        ⟨s.V, fun a b => match L.find? (keyIs a b) with
                         | some x => some x.2.2
                         | none => s.W a b⟩ := by
  induction L with
  | nil => intro s _ _; rfl
  | cons x L ih =>
    intro s hrej hd
    have hx := hrej x (List.mem_cons_self ..)
    have hdc := List.pairwise_cons.mp hd
    simp only [addOps, List.map_cons, run]
    rw [specStep_add_ok x.2.2 hx]
    have hrej' : ∀ y ∈ L, rejected .fixed (⟨grow .fixed s.V x.1 x.2.1, setW s.W x.1 x.2.1 (some x.2.2)⟩ : SpecState ω) y.1 y.2.1 = false := by
      intro y hy
      have := hrej y (List.mem_cons_of_mem _ hy)
      simpa [rejected, grow] using this
    have := ih _ hrej' hdc.2
    simp only [addOps] at this
    rw [this]
    apply SpecState.ext
    · intro v; rfl
    · intro a b
      simp only [List.find?_cons, setW]
      by_cases hk : keyIs a b x = true
      · have hnone : L.find? (keyIs a b) = none := by
          rw [List.find?_eq_none]
          intro y hy hky
          simp only [keyIs, Bool.and_eq_true, beq_iff_eq] at hk hky
          exact hdc.1 y hy ⟨hk.1.trans hky.1.symm, hk.2.trans hky.2.symm⟩
        simp only [hk, hnone]
        simp only [keyIs, Bool.and_eq_true, beq_iff_eq] at hk
        simp [hk.1.symm, hk.2.symm]
      · have hk' : keyIs a b x = false := by cases h : keyIs a b x <;> simp_all
        simp only [hk']
        have : ¬ (a = x.1 ∧ b = x.2.1) := by
          intro e; apply hk; simp [keyIs, e.1, e.2]
        simp only [this, if_false]

/-- Lookup in a list with pairwise different endpoints is membership. -/
theorem find_keyIs {ω : Type} {L : List (Nat × Nat × ω)}
    (hd : L.Pairwise (fun x y => ¬ (x.1 = y.1 ∧ x.2.1 = y.2.1))) (a b : Nat) (w : ω) :
    (match L.find? (keyIs a b) with | some x => some x.2.2 | none => (none : Option ω)) = some w ↔ (a, b, w) ∈ L := by
  induction L with
  | nil => simp
  | cons x L ih =>
    have hdc := List.pairwise_cons.mp hd
    simp only [List.find?_cons, List.mem_cons]
    by_cases hk : keyIs a b x = true
    · simp only [hk]
      simp only [keyIs, Bool.and_eq_true, beq_iff_eq] at hk
      constructor
      · intro e; left
        obtain ⟨x1, x2, x3⟩ := x
        simp only [Option.some.injEq] at e
        simp only at hk
        rw [← hk.1, ← hk.2, ← e]
      · rintro (e | hm)
        · rw [← e]
        · exact absurd ⟨hk.1, hk.2⟩ (hdc.1 _ hm)
    · have hk' : keyIs a b x = false := by cases h : keyIs a b x <;> simp_all
      simp only [hk']
      rw [ih hdc.2]
      constructor
      · exact Or.inr
      · rintro (e | hm)
        · exfalso; apply hk; rw [← e]; simp [keyIs]
        · exact hm

/-- Generic reachability: a well-formed state whose arc listing `L` determines its abstraction
is what `empty` + "add every arc of `L`" builds. -/
theorem reach_gen {σ ω : Type} (step : σ → Op ω → σ × Out) (WF : σ → Prop) (abs : σ → SpecState ω)
    (hrun : ∀ ops d, WF d → WF (run step d ops).1 ∧ abs (run step d ops).1 = (run (specStep .fixed) (abs d) ops).1 ∧
      (run step d ops).2 = (run (specStep .fixed) (abs d) ops).2)
    (hinj : ∀ d₁ d₂, WF d₁ → WF d₂ → (abs d₁ = abs d₂ ↔ d₁ = d₂))
    (d e : σ) (n : Nat) (hd : WF d) (he : WF e) (heabs : abs e = emptySpec ω n)
    (hV : (abs d).V = fun x => decide (x < n))
    (L : List (Nat × Nat × ω))
    (hmem : ∀ a b w, (a, b, w) ∈ L ↔ (abs d).W a b = some w)
    (hkeys : L.Pairwise (fun x y => ¬ (x.1 = y.1 ∧ x.2.1 = y.2.1)))
    (hvalid : (abs d).Valid) :
    (run step e (addOps L)).1 = d := by
  have hr := hrun (addOps L) e he
  apply (hinj _ _ hr.1 hd).mp
  rw [hr.2.1, heabs]
  have hrej : ∀ x ∈ L, rejected .fixed (emptySpec ω n) x.1 x.2.1 = false := by
    intro x hx
    obtain ⟨a, b, w⟩ := x
    have hw := (hmem a b w).mp hx
    have hv := hvalid a b (by simp [SpecState.A, hw])
    rw [hV] at hv
    simp only [decide_eq_true_eq] at hv
    simp [rejected, emptySpec, hv.1, hv.2.1, hv.2.2]
  rw [spec_run_adds L _ hrej hkeys]
  apply SpecState.ext
  · intro x; simp only [emptySpec]; rw [hV]
  · intro a b
    simp only [emptySpec]
    cases hW : (abs d).W a b with
    | none =>
      cases hf : (match L.find? (keyIs a b) with | some x => some x.2.2 | none => (none : Option ω)) with
      | none => rfl
      | some w => exact absurd ((hmem a b w).mp ((find_keyIs hkeys a b w).mp hf)) (by rw [hW]; simp)
    | some w => exact (find_keyIs hkeys a b w).mpr ((hmem a b w).mpr hW)

/-- Endpoints of a `pairLt`-ascending list are pairwise different. -/
theorem keys_distinct_of_sorted {ω : Type} {L : List (Nat × Nat × ω)}
    (h : L.Pairwise (fun a b => pairLt (a.1, a.2.1) (b.1, b.2.1) = true)) :
    L.Pairwise (fun x y => ¬ (x.1 = y.1 ∧ x.2.1 = y.2.1)) := by
  refine List.Pairwise.imp ?_ h
  intro x y hlt e
  rw [e.1, e.2] at hlt
  simp [pairLt] at hlt

/-! ## instances -/

theorem AdjListW.reachable (d : AdjListW) (h : d.WF) :
    ∃ e, AdjListW.empty d.order = some e ∧ (run AdjListW.step e (addOps d.arcsWeighted)).1 = d := by
  have hn : d.order ≠ 0 := by have := h.1; omega
  refine ⟨⟨List.replicate d.order []⟩, by simp [AdjListW.empty, hn], ?_⟩
  have he : AdjListW.empty d.order = some ⟨List.replicate d.order []⟩ := by simp [AdjListW.empty, hn]
  exact reach_gen AdjListW.step AdjListW.WF AdjListW.abs AdjListW.run_refines AdjListW.abs_injective d _ d.order h
    (AdjListW.empty_WF he) (AdjListW.abs_empty he) rfl d.arcsWeighted
    (fun a b w => AdjListW.mem_arcsWeighted d h a b w)
    (keys_distinct_of_sorted (AdjListW.arcsWeighted_sorted_nodup d h).1) (AdjListW.abs_valid d h)

/-- Unweighted arc lists as `Unit`-weighted ones. -/
def unitW (L : List (Nat × Nat)) : List (Nat × Nat × Unit) := L.map (fun a => (a.1, a.2, ()))

theorem unitW_keys {L : List (Nat × Nat)} (h : L.Pairwise (fun a b => pairLt a b = true)) :
    (unitW L).Pairwise (fun x y => ¬ (x.1 = y.1 ∧ x.2.1 = y.2.1)) := by
  apply keys_distinct_of_sorted
  simp only [unitW, List.pairwise_map]
  exact h

theorem unitW_mem {L : List (Nat × Nat)} {s : SpecState Unit} (h : ∀ u v, (u, v) ∈ L ↔ s.A u v = true)
    (a b : Nat) (w : Unit) : (a, b, w) ∈ unitW L ↔ s.W a b = some w := by
  simp only [unitW, List.mem_map, Prod.mk.injEq]
  constructor
  · rintro ⟨⟨x, y⟩, hm, rfl, rfl, _⟩
    have := (h x y).mp hm
    simp only [SpecState.A] at this
    cases hw : s.W x y with
    | none => rw [hw] at this; cases this
    | some u => rfl
  · intro hw
    exact ⟨(a, b), (h a b).mpr (by simp [SpecState.A, hw]), rfl, rfl, trivial⟩

theorem AdjList.reachable (d : AdjList) (h : d.WF) :
    ∃ e, AdjList.empty d.order = some e ∧ (run AdjList.step e (addOps (unitW d.arcs))).1 = d := by
  have hn : d.order ≠ 0 := by have := h.1; omega
  have he : AdjList.empty d.order = some ⟨List.replicate d.order []⟩ := by simp [AdjList.empty, hn]
  refine ⟨_, he, ?_⟩
  have a := AdjList.arcs_sorted_nodup d h
  exact reach_gen AdjList.step AdjList.WF AdjList.abs AdjList.run_refines AdjList.abs_injective d _ d.order h
    (AdjList.empty_WF he) (AdjList.abs_empty he) rfl (unitW d.arcs)
    (unitW_mem a.2.2) (unitW_keys a.1) (AdjList.abs_valid d h)

theorem EdgeList.reachable (d : EdgeList) (h : d.WF) :
    ∃ e, EdgeList.empty d.order = some e ∧ (run EdgeList.step e (addOps (unitW d.arcs))).1 = d := by
  have hn : d.order ≠ 0 := by have := h.1; omega
  have he : EdgeList.empty d.order = some ⟨[], d.order⟩ := by simp [EdgeList.empty, hn]
  refine ⟨_, he, ?_⟩
  have a := EdgeList.arcs_sorted_nodup d h
  exact reach_gen EdgeList.step EdgeList.WF EdgeList.abs EdgeList.run_refines EdgeList.abs_injective d _ d.order h
    (EdgeList.empty_WF he) (EdgeList.abs_empty he) rfl (unitW d.arcs)
    (unitW_mem a.2.2) (unitW_keys a.1) (EdgeList.abs_valid d h)

/-! ### the matrix (its calls are `MxOp`) -/

def toMx : Op Unit → MxOp
  | .add u v _ => .add u v
  | .rem u v => .rem u v

theorem run_map {σ ο ο' : Type} (step : σ → ο' → σ × Out) (f : ο → ο') (s : σ) (ops : List ο) :
    run (fun d op => step d (f op)) s ops = run step s (ops.map f) := by
  induction ops generalizing s with
  | nil => rfl
  | cons op ops ih => simp only [run, List.map_cons, ih]

theorem specStepMx_toMx (s : SpecState Unit) (op : Op Unit) : specStepMx s (toMx op) = specStep .fixed s op := by
  cases op <;> rfl

theorem run_specStepMx_toMx (s : SpecState Unit) (ops : List (Op Unit)) :
    run specStepMx s (ops.map toMx) = run (specStep .fixed) s ops := by
  rw [← run_map]
  congr 1
  funext d op
  exact specStepMx_toMx d op

theorem AdjMatrix.reachable (d : AdjMatrix) (h : d.WF) (hfit : d.order * d.order < 2 ^ 64) :
    ∃ e, AdjMatrix.empty d.order = some e ∧
      (run AdjMatrix.step e ((addOps (unitW d.arcs)).map toMx)).1 = d := by
  have hn : d.order ≠ 0 := by have := h.1; omega
  have hfit' : ¬ d.order * d.order ≥ 2 ^ 64 := by omega
  have he : AdjMatrix.empty d.order = some ⟨List.replicate ((d.order * d.order + 63) / 64) 0#64, d.order⟩ := by
    simp [AdjMatrix.empty, hn, hfit']
  refine ⟨_, he, ?_⟩
  have a := AdjMatrix.arcs_sorted_nodup d h
  rw [← run_map]
  refine reach_gen (fun d op => AdjMatrix.step d (toMx op)) AdjMatrix.WF AdjMatrix.abs ?_ AdjMatrix.abs_injective d _
    d.order h (AdjMatrix.empty_WF he) (AdjMatrix.abs_empty he) rfl (unitW d.arcs)
    (unitW_mem a.2.2) (unitW_keys a.1) (AdjMatrix.abs_valid d h)
  intro ops d' hd'
  rw [run_map, ← run_specStepMx_toMx]
  exact AdjMatrix.run_refines (ops.map toMx) d' hd'

end GraafVerif.Repr
