import GraafVerif.Model.AlgoGen5
import GraafVerif.Proof.AlgoGen4UnionAM
import GraafVerif.Model.DistMatrix
/-!
# Generated low-level functions (`Model/AlgoGen5.lean`), part 1: the bit operations of `AdjacencyMatrix`,
`AdjacencyList::{add_arc, out_neighbors}`, the pointer walks, `AdjacencyMap::out_neighbors`, `DistanceMatrix`
-/
set_option linter.unusedSimpArgs false
namespace GraafVerif.AlgoGenThm
open GraafVerif GraafVerif.AlgoGen GraafVerif.Repr

/-- `none` of a hand-written `&mut self` method = the panic of the Rust code; `some d'` = the updated value -/
def optU {α : Type} : Option α → Res (Unit × α)
  | some a => .ok ((), a)
  | none => .error (.fault .panic)

namespace AdjacencyMatrix

theorem mask_eq (u : Nat) : AlgoGen.AdjacencyMatrix.mask u = .ok (AdjMatrix.mask u) := rfl
theorem index_eq (d : AdjMatrix) (u v : Nat) : AlgoGen.AdjacencyMatrix.index d u v = .ok (d.index u v) := rfl

theorem index_block (d : AdjMatrix) (u v : Nat) (hu : u < d.order) (hv : v < d.order)
    (hlen : d.order * d.order ≤ 64 * d.blocks.length) : d.index u v / 64 < d.blocks.length := by
  have : d.index u v < d.order * d.order := by
    unfold AdjMatrix.index
    calc u * d.order + v < u * d.order + d.order := by omega
      _ = (u + 1) * d.order := by rw [Nat.succ_mul]
      _ ≤ d.order * d.order := Nat.mul_le_mul_right _ hu
  omega

/-- `AdjacencyMatrix::toggle` = the hand-written `AdjMatrix.toggle` for every matrix whose blocks cover the `order²`
cells (part of `AdjMatrix.WF`): then `get_unchecked_mut(i >> 6)` is in bounds -/
theorem toggle_eq (d : AdjMatrix) (u v : Nat) (hlen : d.order * d.order ≤ 64 * d.blocks.length) :
    AlgoGen.AdjacencyMatrix.toggle d u v = optU (d.toggle u v) := by
  unfold AlgoGen.AdjacencyMatrix.toggle AdjMatrix.toggle
  by_cases h1 : u = v
  · simp [h1, optU]
  · have hb : (u != v) = true := by simpa using h1
    by_cases h2 : u < d.order
    · by_cases h3 : v < d.order
      · have hi := index_block d u v h2 h3 hlen
        simp only [h1, h2, h3, hb, decide_true, assert_true, ok_bind, if_false, not_true_eq_false, index_eq, mask_eq, call_ok,
          rd_lt _ _ _ hi, wr_lt _ _ _ _ hi, pure_eq_ok, fnBody_ok, optU, AdjMatrix.setBlock,
          List.getElem?_eq_getElem hi, Option.getD_some]
      · simp [h1, h2, h3, hb, optU]
    · simp [h1, h2, hb, optU]

/-- `AdjacencyMatrix::add_arc` = the hand-written `AdjMatrix.addArc` (same hypothesis) -/
theorem addArc_eq (d : AdjMatrix) (u v : Nat) (hlen : d.order * d.order ≤ 64 * d.blocks.length) :
    AlgoGen.AdjacencyMatrix.addArc d u v = optU (d.addArc u v) := by
  unfold AlgoGen.AdjacencyMatrix.addArc AdjMatrix.addArc
  by_cases h1 : u = v
  · simp [h1, optU]
  · have hb : (u != v) = true := by simpa using h1
    by_cases h2 : u < d.order
    · by_cases h3 : v < d.order
      · have hi := index_block d u v h2 h3 hlen
        simp only [h1, h2, h3, hb, decide_true, assert_true, ok_bind, if_false, not_true_eq_false, index_eq, mask_eq, call_ok,
          rd_lt _ _ _ hi, wr_lt _ _ _ _ hi, pure_eq_ok, fnBody_ok, optU, AdjMatrix.setBlock,
          List.getElem?_eq_getElem hi, Option.getD_some]
      · simp [h1, h2, h3, hb, optU]
    · simp [h1, h2, hb, optU]

end AdjacencyMatrix

namespace AdjacencyList

/-- `AdjacencyList::add_arc` = the hand-written `AdjList.addArc`, for every value and all arguments -/
theorem addArc_eq (d : AdjList) (u v : Nat) : AlgoGen.AdjacencyList.addArc d u v = optU (d.addArc u v) := by
  unfold AlgoGen.AdjacencyList.addArc AdjList.addArc
  by_cases h1 : u = v
  · simp [h1, optU]
  · have hb : (u != v) = true := by simpa using h1
    by_cases h2 : u < d.order
    · by_cases h3 : v < d.order
      · have hi : u < d.rows.length := h2
        simp only [h1, h2, h3, hb, decide_true, assert_true, ok_bind, if_false, not_true_eq_false,
          rd_lt _ _ _ hi, wr_lt _ _ _ _ hi, pure_eq_ok, fnBody_ok, optU, List.getElem?_eq_getElem hi, Option.getD_some]
      · simp [h1, h2, h3, hb, optU]
    · simp [h1, h2, hb, optU]

/-- `AdjacencyList::out_neighbors` = the hand-written `AdjList.outNeighbors` (`none` = the `assert!`) -/
theorem outNeighbors_eq (d : AdjList) (u : Nat) : AlgoGen.AdjacencyList.outNeighbors d u = optR (d.outNeighbors u) := by
  unfold AlgoGen.AdjacencyList.outNeighbors AdjList.outNeighbors
  by_cases h : u < d.order
  · have hi : u < d.rows.length := h
    simp only [h, decide_true, assert_true, ok_bind, rd_lt _ _ _ hi, pure_eq_ok, fnBody_ok, List.getElem?_eq_getElem hi, optR]
  · have hi : d.rows.length ≤ u := Nat.le_of_not_lt h
    simp [h, List.getElem?_eq_none hi, optR]

end AdjacencyList
end GraafVerif.AlgoGenThm
