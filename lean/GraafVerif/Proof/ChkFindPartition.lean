import GraafVerif.Proof.ChkUnionLinear
/-!
# `find_partition` is a merge-path search: its results are monotone in `r` (C13, P1)

For strictly ascending key vectors the boundaries `find_partition(k * order / t)`, `k = 0..=t`, are
monotone in both coordinates and span `(0,0) … (n1,n2)`: `BoundariesOK`.  With
`amUnionWorkers_linear` this gives: `AdjacencyMap::union` moves every entry of both
`ManuallyDrop` vectors out exactly once.
-/
namespace GraafVerif.Chk

/-- The probe as a proposition (`get` with a default: only used in range). -/
def FP (lhs rhs : List Nat) (r m : Nat) : Prop :=
  r - m < rhs.length ∧ (rhs[r - m]?.getD 0) < (lhs[m]?.getD 0)

instance (lhs rhs : List Nat) (r m : Nat) : Decidable (FP lhs rhs r m) := by unfold FP; exact inferInstance

theorem fpProbe_eq (r : Nat) (lhs rhs : List Nat) (mid : Nat) (h : mid < lhs.length) :
    fpProbe r lhs rhs mid = .ok (decide (FP lhs rhs r mid)) := by
  unfold fpProbe FP
  split
  · rename_i hj
    rw [rd_ok_of_lt _ lhs mid h, rd_ok_of_lt _ rhs (r - mid) hj]
    simp [ok_bind, hj, List.getElem?_eq_getElem h]
    rfl
  · rename_i hj
    simp [hj]
    rfl

theorem sorted_getD_lt {l : List Nat} (hs : l.Pairwise (· < ·)) {i j : Nat} (hij : i < j) (hj : j < l.length) :
    l[i]?.getD 0 < l[j]?.getD 0 := by
  have hi : i < l.length := by omega
  rw [List.getElem?_eq_getElem hi, List.getElem?_eq_getElem hj]
  simp only [Option.getD_some]
  exact (List.pairwise_iff_getElem.mp hs) i j hi hj hij

/-- the probe is monotone in `mid` below `min r n1` -/
theorem FP_mono {lhs rhs : List Nat} (hl : lhs.Pairwise (· < ·)) (hr : rhs.Pairwise (· < ·)) {r m m' : Nat}
    (hmm : m < m') (hm' : m' < lhs.length) (hm'r : m' ≤ r) (h : FP lhs rhs r m) : FP lhs rhs r m' := by
  obtain ⟨h1, h2⟩ := h
  refine ⟨by omega, ?_⟩
  have ha := sorted_getD_lt hl hmm hm'
  have hb : rhs[r - m']?.getD 0 < rhs[r - m]?.getD 0 := sorted_getD_lt hr (by omega) h1
  omega

/-- What the binary search returns: the threshold of the probe on `[r - n2, min r n1]`. -/
def Thresh (lhs rhs : List Nat) (r i : Nat) : Prop :=
  r - rhs.length ≤ i ∧ i ≤ min r lhs.length ∧
  (∀ m, r - rhs.length ≤ m → m < i → ¬ FP lhs rhs r m) ∧ (∀ m, i ≤ m → m < min r lhs.length → FP lhs rhs r m)

theorem fpLoop_thresh (r : Nat) (lhs rhs : List Nat) (hl : lhs.Pairwise (· < ·)) (hr : rhs.Pairwise (· < ·))
    (lo0 hi0 : Nat) (hhi0 : hi0 ≤ lhs.length) (hhi0r : hi0 ≤ r) :
    ∀ (fuel lo hi : Nat), lo0 ≤ lo → lo ≤ hi → hi ≤ hi0 → hi - lo < fuel →
      (∀ m, lo0 ≤ m → m < lo → ¬ FP lhs rhs r m) → (∀ m, hi ≤ m → m < hi0 → FP lhs rhs r m) →
      ∃ i, findPartitionLoop r lhs rhs fuel lo hi = .ok (i, r - i) ∧ lo ≤ i ∧ i ≤ hi ∧
        (∀ m, lo0 ≤ m → m < i → ¬ FP lhs rhs r m) ∧ (∀ m, i ≤ m → m < hi0 → FP lhs rhs r m) := by
  intro fuel
  induction fuel with
  | zero => intro lo hi _ _ _ h; omega
  | succ fuel ih =>
    intro lo hi h0 hle hhi hf hbelow habove
    unfold findPartitionLoop
    by_cases hlt : lo < hi
    · rw [if_pos hlt]
      have hmid : (lo + hi) >>> 1 < hi ∧ lo ≤ (lo + hi) >>> 1 := by
        rw [Nat.shiftRight_eq_div_pow]; omega
      generalize (lo + hi) >>> 1 = mid at hmid
      simp only []
      rw [fpProbe_eq r lhs rhs mid (by omega), ok_bind]
      by_cases hp : FP lhs rhs r mid
      · simp only [hp, decide_true, if_true]
        obtain ⟨i, e, a, b, c, d⟩ := ih lo mid h0 hmid.2 (by omega) (by omega) hbelow
          (by
            intro m hm1 hm2
            by_cases hmm : m = mid
            · rw [hmm]; exact hp
            · exact FP_mono hl hr (by omega) (by omega) (by omega) hp)
        exact ⟨i, e, a, by omega, c, d⟩
      · simp only [hp, decide_false, Bool.false_eq_true, if_false]
        obtain ⟨i, e, a, b, c, d⟩ := ih (mid + 1) hi (by omega) (by omega) hhi (by omega)
          (by
            intro m hm1 hm2
            by_cases hml : m < lo
            · exact hbelow m hm1 hml
            · intro hfp
              by_cases hmm : m = mid
              · rw [hmm] at hfp; exact hp hfp
              · exact hp (FP_mono hl hr (by omega) (by omega) (by omega) hfp))
          habove
        exact ⟨i, e, by omega, b, c, d⟩
    · rw [if_neg hlt]
      have : lo = hi := by omega
      subst this
      exact ⟨lo, rfl, Nat.le_refl _, Nat.le_refl _, hbelow, habove⟩

/-- `find_partition(r)` returns the threshold, for every `r ≤ n1 + n2`. -/
theorem findPartition_thresh (r : Nat) (lhs rhs : List Nat) (hl : lhs.Pairwise (· < ·)) (hr : rhs.Pairwise (· < ·))
    (hrN : r ≤ lhs.length + rhs.length) :
    ∃ i, findPartition r lhs rhs = .ok (i, r - i) ∧ Thresh lhs rhs r i := by
  unfold findPartition
  have hhi : (if r < lhs.length then r else lhs.length) = min r lhs.length := by
    split <;> omega
  rw [hhi]
  obtain ⟨i, e, a, b, c, d⟩ := fpLoop_thresh r lhs rhs hl hr (r - rhs.length) (min r lhs.length)
    (Nat.min_le_right _ _) (Nat.min_le_left _ _) (lhs.length + 1) (r - rhs.length) (min r lhs.length)
    (Nat.le_refl _) (by omega) (Nat.le_refl _) (by omega) (by intro m h1 h2; omega) (by intro m h1 h2; omega)
  exact ⟨i, e, a, b, c, d⟩

/-- one step of `r`: the threshold moves by 0 or 1 -/
theorem thresh_step {lhs rhs : List Nat} (hl : lhs.Pairwise (· < ·)) (hr : rhs.Pairwise (· < ·)) {r i i' : Nat}
    (h : Thresh lhs rhs r i) (h' : Thresh lhs rhs (r + 1) i') : i ≤ i' ∧ i' ≤ i + 1 := by
  obtain ⟨a1, a2, a3, a4⟩ := h
  obtain ⟨b1, b2, b3, b4⟩ := h'
  constructor
  · -- i ≤ i'
    by_cases hc : i ≤ i'
    · exact hc
    · exfalso
      have hi' : i' < i := by omega
      have hfp' : FP lhs rhs (r + 1) i' := b4 i' (Nat.le_refl _) (by omega)
      have hnfp : ¬ FP lhs rhs r i' := a3 i' (by omega) hi'
      apply hnfp
      obtain ⟨c1, c2⟩ := hfp'
      refine ⟨by omega, ?_⟩
      have : rhs[r - i']?.getD 0 < rhs[r + 1 - i']?.getD 0 := sorted_getD_lt hr (by omega) c1
      omega
  · -- i' ≤ i + 1
    by_cases hc : i' ≤ i + 1
    · exact hc
    · exfalso
      by_cases hedge : i < min r lhs.length
      · have hfp : FP lhs rhs r i := a4 i (Nat.le_refl _) hedge
        have hnfp : ¬ FP lhs rhs (r + 1) (i + 1) := b3 (i + 1) (by omega) (by omega)
        apply hnfp
        obtain ⟨c1, c2⟩ := hfp
        have e : r + 1 - (i + 1) = r - i := by omega
        refine ⟨by omega, ?_⟩
        rw [e]
        have : lhs[i]?.getD 0 < lhs[i + 1]?.getD 0 := sorted_getD_lt hl (by omega) (by omega)
        omega
      · omega

theorem thresh_mono {lhs rhs : List Nat} (hl : lhs.Pairwise (· < ·)) (hr : rhs.Pairwise (· < ·)) :
    ∀ (d r r' i i' : Nat), r' = r + d → r' ≤ lhs.length + rhs.length →
      Thresh lhs rhs r i → Thresh lhs rhs r' i' → i ≤ i' ∧ r - i ≤ r' - i' := by
  intro d
  induction d with
  | zero =>
    intro r r' i i' hd _ h h'
    subst hd
    -- same `r`: the threshold is unique
    obtain ⟨a1, a2, a3, a4⟩ := h
    obtain ⟨b1, b2, b3, b4⟩ := h'
    have : i = i' := by
      by_cases hlt : i < i'
      · exact absurd (a4 i (Nat.le_refl _) (by omega)) (b3 i a1 hlt)
      · by_cases hgt : i' < i
        · exact absurd (b4 i' (Nat.le_refl _) (by omega)) (a3 i' b1 hgt)
        · omega
    subst this
    exact ⟨Nat.le_refl _, Nat.le_refl _⟩
  | succ d ih =>
    intro r r' i i' hd hN h h'
    obtain ⟨i1, _, h1⟩ := findPartition_thresh (r + 1) lhs rhs hl hr (by omega)
    obtain ⟨s1, s2⟩ := thresh_step hl hr h h1
    obtain ⟨t1, t2⟩ := ih (r + 1) r' i1 i' (by omega) hN h1 h'
    have hir : i ≤ r := by have := h.2.1; omega
    have hi1r : i1 ≤ r + 1 := by have := h1.2.1; omega
    exact ⟨by omega, by omega⟩

theorem mapM_getElem {α β : Type} (f : α → Chk β) :
    ∀ (l : List α) (bs : List β), l.mapM f = .ok bs → ∀ (k : Nat) (hk : k < l.length),
      ∃ b, bs[k]? = some b ∧ f l[k] = .ok b := by
  intro l
  induction l with
  | nil => intro bs _ k hk; cases hk
  | cons a l ih =>
    intro bs h k hk
    rw [List.mapM_cons] at h
    obtain ⟨b, hb, h⟩ := bind_ok h
    obtain ⟨bs', hbs', h⟩ := bind_ok h
    cases h
    cases k with
    | zero => exact ⟨b, rfl, hb⟩
    | succ k =>
      obtain ⟨b', e1, e2⟩ := ih bs' hbs' k (by simpa using hk)
      exact ⟨b', by simpa using e1, by simpa using e2⟩

theorem mapM_ok_of_forall {α β : Type} (f : α → Chk β) :
    ∀ (l : List α), (∀ a ∈ l, ∃ b, f a = .ok b) → ∃ bs, l.mapM f = .ok bs := by
  intro l
  induction l with
  | nil => intro _; exact ⟨[], rfl⟩
  | cons a l ih =>
    intro h
    obtain ⟨b, hb⟩ := h a List.mem_cons_self
    obtain ⟨bs, hbs⟩ := ih (fun x hx => h x (List.mem_cons_of_mem _ hx))
    refine ⟨b :: bs, ?_⟩
    rw [List.mapM_cons, hb, ok_bind, hbs, ok_bind]
    rfl

/-- **`findPartition_monotone`**: the boundaries of `AdjacencyMap::union` for strictly ascending key vectors. -/
theorem amBoundaries_ok (lhs rhs : List Nat) (t : Nat) (bs : List (Nat × Nat)) (hl : lhs.Pairwise (· < ·))
    (hr : rhs.Pairwise (· < ·)) (ht : 0 < t) (h : amBoundaries lhs rhs t = .ok bs) :
    BoundariesOK bs lhs.length rhs.length t := by
  have hlen := ((amBoundaries_spec lhs rhs t ht).2 bs h).1
  unfold amBoundaries at h
  have hget := mapM_getElem _ _ _ h
  have hN : ∀ k, k ≤ t → k * (lhs.length + rhs.length) / t ≤ lhs.length + rhs.length := by
    intro k hk
    apply Nat.div_le_of_le_mul
    exact Nat.mul_le_mul_right _ hk
  -- every boundary is the threshold of its `r`
  have hk : ∀ k, k ≤ t → ∃ i, bs[k]? = some (i, k * (lhs.length + rhs.length) / t - i) ∧
      Thresh lhs rhs (k * (lhs.length + rhs.length) / t) i := by
    intro k hk
    obtain ⟨b, e1, e2⟩ := hget k (by simp; omega)
    simp only [List.getElem_range] at e2
    obtain ⟨i, e3, e4⟩ := findPartition_thresh _ lhs rhs hl hr (hN k hk)
    rw [e3] at e2
    cases e2
    exact ⟨i, e1, e4⟩
  refine ⟨hlen, ?_, ?_, ?_⟩
  · obtain ⟨i, e, th⟩ := hk 0 (by omega)
    have h0 : 0 * (lhs.length + rhs.length) / t = 0 := by simp
    rw [h0] at e th
    have : i = 0 := by have := th.2.1; omega
    subst this
    exact e
  · obtain ⟨i, e, th⟩ := hk t (Nat.le_refl _)
    have hN' : t * (lhs.length + rhs.length) / t = lhs.length + rhs.length := Nat.mul_div_cancel_left _ ht
    rw [hN'] at e th
    have : i = lhs.length := by have := th.1; have := th.2.1; omega
    subst this
    have e2 : lhs.length + rhs.length - lhs.length = rhs.length := by omega
    rw [e2] at e
    exact e
  · intro k hkt s e hs he
    obtain ⟨i, e1, th1⟩ := hk k (by omega)
    obtain ⟨i', e2, th2⟩ := hk (k + 1) (by omega)
    rw [e1] at hs; cases hs
    rw [e2] at he; cases he
    have hrr : k * (lhs.length + rhs.length) / t ≤ (k + 1) * (lhs.length + rhs.length) / t :=
      Nat.div_le_div_right (Nat.mul_le_mul_right _ (by omega))
    obtain ⟨m1, m2⟩ := thresh_mono hl hr _ _ _ i i' (by omega : (k + 1) * (lhs.length + rhs.length) / t =
      k * (lhs.length + rhs.length) / t + ((k + 1) * (lhs.length + rhs.length) / t - k * (lhs.length + rhs.length) / t))
      (hN (k + 1) (by omega)) th1 th2
    have := th2.1
    have := th2.2.1
    have := hN (k + 1) (by omega)
    exact ⟨m1, m2, by omega, by omega⟩

/-- `AdjacencyMap::union` on two maps (strictly ascending key vectors), every thread count:
every entry of `lhs_vec` and of `rhs_vec` is `ptr::read` exactly once — unconditionally. -/
theorem amUnionReads_linear (lhs rhs : List Nat) (t0 : Nat) (hl : lhs.Pairwise (· < ·)) (hr : rhs.Pairwise (· < ·))
    (ht0 : 0 < t0) : amUnionReads lhs rhs t0 = .ok (List.range lhs.length, List.range rhs.length) := by
  unfold amUnionReads
  simp only []
  split
  · rename_i h0
    have : lhs.length + rhs.length = 0 := by simpa using h0
    have h1 : lhs.length = 0 := by omega
    have h2 : rhs.length = 0 := by omega
    simp [h1, h2]
    rfl
  · rename_i h0
    have hpos : 0 < min (lhs.length + rhs.length) t0 := by
      have : lhs.length + rhs.length ≠ 0 := by simpa using h0
      omega
    have ha : assert (decide (0 < min (lhs.length + rhs.length) t0)) = .ok () := by
      unfold assert; simp [hpos]
    rw [ha, ok_bind]
    have hex : ∃ bs, amBoundaries lhs rhs (min (lhs.length + rhs.length) t0) = .ok bs := by
      unfold amBoundaries
      apply mapM_ok_of_forall
      intro k hk
      rw [List.mem_range] at hk
      obtain ⟨i, e1, _⟩ := findPartition_thresh (k * (lhs.length + rhs.length) / min (lhs.length + rhs.length) t0) lhs rhs hl hr
        (by apply Nat.div_le_of_le_mul; exact Nat.mul_le_mul_right _ (by omega))
      exact ⟨_, e1⟩
    obtain ⟨bs, hbs⟩ := hex
    rw [hbs, ok_bind]
    exact amUnionWorkers_linear lhs rhs bs _ (amBoundaries_ok lhs rhs _ bs hl hr hpos hbs)

end GraafVerif.Chk
