import GraafVerif.Proof.OpsAMUnion
/-!
# `find_partition`: the merge-path boundaries are monotone (`findPartition_monotone`)

For key-sorted inputs and diagonals `r ≤ r' ≤ n1 + n2` the boundary `(i, j) = find_partition(r)`
satisfies `i + j = r`, `i ≤ n1`, `j ≤ n2` and both coordinates are non-decreasing in `r`.
With `find_partition(0) = (0,0)` and `find_partition(n1+n2) = (n1,n2)` the per-worker slices
tile both inputs: each input entry is consumed (`ptr::read`) by exactly one worker.
-/
namespace GraafVerif.Ops
open GraafVerif.Repr

def keyAt (l : List Entry) (m : Nat) : Nat := (l[m]?.getD (0, [])).1

/-- The binary-search predicate of `find_partition` at `mid = m`. -/
def PP (r : Nat) (lhs rhs : List Entry) (m : Nat) : Prop :=
  r - m < rhs.length ∧ keyAt lhs m > keyAt rhs (r - m)

theorem keyAt_lt {l : List Entry} (h : SortedK l) {m m' : Nat} (h1 : m < m') (h2 : m' < l.length) :
    keyAt l m < keyAt l m' := by
  unfold keyAt
  have hm : m < l.length := by omega
  simp only [List.getElem?_eq_getElem hm, List.getElem?_eq_getElem h2, Option.getD_some]
  exact (List.pairwise_iff_getElem.mp h) m m' hm h2 h1

theorem PP_mono {r : Nat} {lhs rhs : List Entry} (hl : SortedK lhs) (hr : SortedK rhs)
    {m m' : Nat} (hle : m ≤ m') (hm' : m' < lhs.length) (hmr : m' ≤ r) (h : PP r lhs rhs m) :
    PP r lhs rhs m' := by
  rcases Nat.eq_or_lt_of_le hle with rfl | hlt
  · exact h
  · obtain ⟨h1, h2⟩ := h
    refine ⟨by omega, ?_⟩
    have a := keyAt_lt hl hlt hm'
    have b : keyAt rhs (r - m') < keyAt rhs (r - m) := keyAt_lt hr (by omega) h1
    omega

/-- The binary search returns the first index of `[lo, hi]` at which the predicate holds. -/
theorem findPartitionLoop_spec {r : Nat} {lhs rhs : List Entry} (hl : SortedK lhs) (hr : SortedK rhs) :
    ∀ (fuel lo hi : Nat), hi - lo ≤ fuel → lo ≤ hi → hi ≤ lhs.length → hi ≤ r →
      lo ≤ findPartitionLoop r lhs rhs fuel lo hi ∧ findPartitionLoop r lhs rhs fuel lo hi ≤ hi ∧
      (∀ m, lo ≤ m → m < findPartitionLoop r lhs rhs fuel lo hi → ¬ PP r lhs rhs m) ∧
      (findPartitionLoop r lhs rhs fuel lo hi = hi ∨ PP r lhs rhs (findPartitionLoop r lhs rhs fuel lo hi)) := by
  intro fuel
  induction fuel with
  | zero =>
    intro lo hi h1 h2 _ _
    have : lo = hi := by omega
    subst this
    simp only [findPartitionLoop]
    exact ⟨Nat.le_refl _, Nat.le_refl _, fun m a b => by omega, by simp⟩
  | succ fuel ih =>
    intro lo hi h1 h2 h3 h4
    unfold findPartitionLoop
    by_cases hlt : lo < hi
    · simp only [hlt, if_true]
      have hmid1 : lo ≤ (lo + hi) / 2 := by omega
      have hmid2 : (lo + hi) / 2 < hi := by omega
      by_cases htest : (decide (r - (lo + hi) / 2 < rhs.length) &&
          decide ((lhs[(lo + hi) / 2]?.getD (0, [])).1 > (rhs[r - (lo + hi) / 2]?.getD (0, [])).1)) = true
      · rw [if_pos htest]
        have hpp : PP r lhs rhs ((lo + hi) / 2) := by
          simpa [PP, keyAt] using htest
        obtain ⟨a, b, c, d⟩ := ih lo ((lo + hi) / 2) (by omega) hmid1 (by omega) (by omega)
        refine ⟨a, by omega, c, ?_⟩
        rcases d with d | d
        · right; rw [d]; exact hpp
        · right; exact d
      · rw [if_neg htest]
        have hnpp : ¬ PP r lhs rhs ((lo + hi) / 2) := by
          intro hp; apply htest; simpa [PP, keyAt] using hp
        obtain ⟨a, b, c, d⟩ := ih ((lo + hi) / 2 + 1) hi (by omega) (by omega) h3 h4
        refine ⟨by omega, b, ?_, d⟩
        intro m hm1 hm2 hp
        by_cases hmm : m ≤ (lo + hi) / 2
        · exact hnpp (PP_mono hl hr hmm (by omega) (by omega) hp)
        · exact c m (by omega) hm2 hp
    · have : lo = hi := by omega
      subst this
      simp only [hlt, if_false]
      exact ⟨Nat.le_refl _, Nat.le_refl _, fun m a b => by omega, by simp⟩

/-- Fuel adequacy of the binary search: any fuel ≥ `hi - lo` gives the same boundary. -/
theorem findPartitionLoop_fuel {r : Nat} {lhs rhs : List Entry} (hl : SortedK lhs) (hr : SortedK rhs)
    {f1 f2 lo hi : Nat} (h1 : hi - lo ≤ f1) (h2 : hi - lo ≤ f2) (hle : lo ≤ hi) (hh : hi ≤ lhs.length)
    (hhr : hi ≤ r) :
    findPartitionLoop r lhs rhs f1 lo hi = findPartitionLoop r lhs rhs f2 lo hi := by
  obtain ⟨a1, a2, a3, a4⟩ := findPartitionLoop_spec (r := r) hl hr f1 lo hi h1 hle hh hhr
  obtain ⟨b1, b2, b3, b4⟩ := findPartitionLoop_spec (r := r) hl hr f2 lo hi h2 hle hh hhr
  generalize findPartitionLoop r lhs rhs f1 lo hi = i at *
  generalize findPartitionLoop r lhs rhs f2 lo hi = i' at *
  rcases Nat.lt_trichotomy i i' with h | h | h
  · rcases a4 with e | p
    · omega
    · exact absurd p (b3 i a1 h)
  · exact h
  · rcases b4 with e | p
    · omega
    · exact absurd p (a3 i' b1 h)

/-- Characterisation of `find_partition(r).0`. -/
theorem findPartition_spec {r : Nat} {lhs rhs : List Entry} (hl : SortedK lhs) (hr : SortedK rhs)
    (hrn : r ≤ lhs.length + rhs.length) :
    let i := (findPartition r lhs rhs).1
    (findPartition r lhs rhs).2 = r - i ∧
    r - rhs.length ≤ i ∧ i ≤ min r lhs.length ∧
    (∀ m, r - rhs.length ≤ m → m < i → ¬ PP r lhs rhs m) ∧
    (i = min r lhs.length ∨ PP r lhs rhs i) := by
  have hhi : (if r < lhs.length then r else lhs.length) = min r lhs.length := by
    split <;> omega
  simp only [findPartition, hhi]
  obtain ⟨a, b, c, d⟩ := findPartitionLoop_spec (r := r) hl hr (min r lhs.length - (r - rhs.length))
    (r - rhs.length) (min r lhs.length) (Nat.le_refl _) (by omega) (by omega) (by omega)
  exact ⟨by trivial, a, b, c, d⟩

/-- One step along the diagonal moves exactly one of the two cursors, by one. -/
theorem findPartition_step {r : Nat} {lhs rhs : List Entry} (hl : SortedK lhs) (hr : SortedK rhs)
    (hrn : r + 1 ≤ lhs.length + rhs.length) :
    (findPartition r lhs rhs).1 ≤ (findPartition (r + 1) lhs rhs).1 ∧
    (findPartition (r + 1) lhs rhs).1 ≤ (findPartition r lhs rhs).1 + 1 := by
  obtain ⟨_, a1, a2, a3, a4⟩ := findPartition_spec (r := r) hl hr (by omega)
  obtain ⟨_, b1, b2, b3, b4⟩ := findPartition_spec (r := r + 1) hl hr hrn
  generalize (findPartition r lhs rhs).1 = i at *
  generalize (findPartition (r + 1) lhs rhs).1 = i' at *
  constructor
  · -- i ≤ i'
    apply Nat.le_of_not_lt
    intro hlt
    have hp' : PP (r + 1) lhs rhs i' := by
      rcases b4 with e | p
      · omega
      · exact p
    obtain ⟨p1, p2⟩ := hp'
    have hnp : ¬ PP r lhs rhs i' := a3 i' (by omega) hlt
    apply hnp
    refine ⟨by omega, ?_⟩
    have : keyAt rhs (r - i') < keyAt rhs (r + 1 - i') := keyAt_lt hr (by omega) p1
    omega
  · -- i' ≤ i + 1
    apply Nat.le_of_not_lt
    intro hlt
    have hnp : ¬ PP (r + 1) lhs rhs (i + 1) := b3 (i + 1) (by omega) hlt
    rcases a4 with e | p
    · omega
    · obtain ⟨p1, p2⟩ := p
      apply hnp
      have e : r + 1 - (i + 1) = r - i := by omega
      refine ⟨by omega, ?_⟩
      rw [e]
      have : keyAt lhs i < keyAt lhs (i + 1) := keyAt_lt hl (by omega) (by omega)
      omega

/-- **`findPartition_monotone`**: along `r ≤ r' ≤ n1 + n2` both boundary coordinates are
non-decreasing; they stay within the inputs and sum to the diagonal. -/
theorem findPartition_monotone {lhs rhs : List Entry} (hl : SortedK lhs) (hr : SortedK rhs)
    {r r' : Nat} (hrr : r ≤ r') (hrn : r' ≤ lhs.length + rhs.length) :
    (findPartition r lhs rhs).1 ≤ (findPartition r' lhs rhs).1 ∧
    (findPartition r lhs rhs).2 ≤ (findPartition r' lhs rhs).2 ∧
    (findPartition r lhs rhs).1 + (findPartition r lhs rhs).2 = r ∧
    (findPartition r lhs rhs).1 ≤ lhs.length ∧ (findPartition r lhs rhs).2 ≤ rhs.length := by
  obtain ⟨e, a1, a2, _, _⟩ := findPartition_spec (r := r) hl hr (by omega)
  have key : ∀ d, r + d ≤ lhs.length + rhs.length →
      (findPartition r lhs rhs).1 ≤ (findPartition (r + d) lhs rhs).1 ∧
      (findPartition (r + d) lhs rhs).1 ≤ (findPartition r lhs rhs).1 + d := by
    intro d
    induction d with
    | zero => intro _; exact ⟨Nat.le_refl _, Nat.le_refl _⟩
    | succ d ih =>
      intro h
      obtain ⟨x, y⟩ := ih (by omega)
      obtain ⟨z, w⟩ := findPartition_step (r := r + d) hl hr (by omega)
      rw [← Nat.add_assoc]
      omega
  obtain ⟨k1, k2⟩ := key (r' - r) (by omega)
  have hr' : r + (r' - r) = r' := by omega
  rw [hr'] at k1 k2
  obtain ⟨e', b1, b2, _, _⟩ := findPartition_spec (r := r') hl hr hrn
  refine ⟨k1, ?_, ?_, by omega, ?_⟩
  · rw [e, e']; omega
  · rw [e]; omega
  · rw [e]; omega

/-! ## Consequence: the workers' slices tile each input (no entry read twice, none skipped) -/

theorem slice_append {α : Type} (l : List α) {a b c : Nat} (h1 : a ≤ b) (h2 : b ≤ c) :
    (l.drop a).take (b - a) ++ (l.drop b).take (c - b) = (l.drop a).take (c - a) := by
  have hc : c - a = (b - a) + (c - b) := by omega
  have hd : l.drop b = (l.drop a).drop (b - a) := by
    rw [List.drop_drop]; congr 1; omega
  rw [hc, List.take_add, hd]

theorem slices_tile {α : Type} (l : List α) (i : Nat → Nat) (hmono : ∀ k, i k ≤ i (k + 1)) :
    ∀ t, (List.range t).flatMap (fun k => (l.drop (i k)).take (i (k + 1) - i k)) =
      (l.drop (i 0)).take (i t - i 0) := by
  intro t
  induction t with
  | zero => simp
  | succ t ih =>
    have hm : i 0 ≤ i t := by
      clear ih
      induction t with
      | zero => exact Nat.le_refl _
      | succ t ih2 => exact Nat.le_trans ih2 (hmono t)
    rw [List.range_succ, List.flatMap_append, ih]
    simp only [List.flatMap_cons, List.flatMap_nil, List.append_nil]
    exact slice_append l hm (hmono t)

theorem flatMap_congr' {α β : Type} {f g : α → List β} {l : List α} (h : ∀ a ∈ l, f a = g a) :
    l.flatMap f = l.flatMap g := by
  induction l with
  | nil => rfl
  | cons x xs ih =>
    simp only [List.flatMap_cons]
    rw [h x (by simp), ih (fun a ha => h a (by simp [ha]))]

/-- Each `lhs` entry is consumed by exactly one worker, in order (same for `rhs`). -/
theorem unionAM_slices_tile (lhs rhs : List Entry) (hl : SortedK lhs) (hr : SortedK rhs) (t : Nat) (ht : 0 < t) :
    (List.range t).flatMap (fun k =>
      (lhs.drop ((boundaries lhs rhs t)[k]?.getD (0, 0)).1).take
        (((boundaries lhs rhs t)[k + 1]?.getD (0, 0)).1 - ((boundaries lhs rhs t)[k]?.getD (0, 0)).1)) = lhs ∧
    (List.range t).flatMap (fun k =>
      (rhs.drop ((boundaries lhs rhs t)[k]?.getD (0, 0)).2).take
        (((boundaries lhs rhs t)[k + 1]?.getD (0, 0)).2 - ((boundaries lhs rhs t)[k]?.getD (0, 0)).2)) = rhs := by
  let n := lhs.length + rhs.length
  -- boundaries beyond index `t` do not matter: clamp
  let bi : Nat → Nat := fun k => (findPartition (min k t * n / t) lhs rhs).1
  let bj : Nat → Nat := fun k => (findPartition (min k t * n / t) lhs rhs).2
  have hdiag : ∀ k, min k t * n / t ≤ n := by
    intro k
    have h1 : min k t * n ≤ t * n := Nat.mul_le_mul_right n (Nat.min_le_right k t)
    have : t * n / t = n := Nat.mul_div_cancel_left n ht
    calc min k t * n / t ≤ t * n / t := Nat.div_le_div_right h1
      _ = n := this
  have hdm : ∀ k, min k t * n / t ≤ min (k + 1) t * n / t := by
    intro k
    apply Nat.div_le_div_right
    apply Nat.mul_le_mul_right
    omega
  have hmi : ∀ k, bi k ≤ bi (k + 1) := fun k => (findPartition_monotone hl hr (hdm k) (hdiag _)).1
  have hmj : ∀ k, bj k ≤ bj (k + 1) := fun k => (findPartition_monotone hl hr (hdm k) (hdiag _)).2.1
  have hget : ∀ k, k ≤ t → (boundaries lhs rhs t)[k]?.getD (0, 0) = (bi k, bj k) := by
    intro k hk
    rw [boundaries_get lhs rhs t k hk]
    simp only [bi, bj, Nat.min_eq_left hk]
    rfl
  have h0 : min 0 t * n / t = 0 := by simp
  have hnt : min t t * n / t = n := by rw [Nat.min_self]; exact Nat.mul_div_cancel_left n ht
  have hi0 : bi 0 = 0 := by simp only [bi, h0, findPartition_zero]
  have hj0 : bj 0 = 0 := by simp only [bj, h0, findPartition_zero]
  have hit : bi t = lhs.length := by simp only [bi, hnt]; rw [findPartition_end]
  have hjt : bj t = rhs.length := by simp only [bj, hnt]; rw [findPartition_end]
  constructor
  · have := slices_tile lhs bi hmi t
    rw [hi0, hit] at this
    simp only [List.drop_zero, Nat.sub_zero, List.take_length] at this
    refine (flatMap_congr' ?_).trans this
    intro k hk
    rw [List.mem_range] at hk
    rw [hget k (by omega), hget (k + 1) (by omega)]
  · have := slices_tile rhs bj hmj t
    rw [hj0, hjt] at this
    simp only [List.drop_zero, Nat.sub_zero, List.take_length] at this
    refine (flatMap_congr' ?_).trans this
    intro k hk
    rw [List.mem_range] at hk
    rw [hget k (by omega), hget (k + 1) (by omega)]

end GraafVerif.Ops
