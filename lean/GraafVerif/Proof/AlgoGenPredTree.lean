import GraafVerif.Model.AlgoGen
import GraafVerif.Proof.AlgoGenRt
import GraafVerif.Model.PredTree
/-!
# Generated `PredecessorTree::{new, search_by, search}` = hand-written `Model/PredTree.lean`

The generated structure `PredecessorTree` has the single field `pred`, the hand-written model works
on the vector itself (`PredTree.Pred = List (Option Nat)`): the conversion is the projection.
All equalities are unconditional (every state, every argument, every fuel): the function contains
no unchecked access, its only failure is the panic of `self.pred[s]`.
-/
namespace GraafVerif.AlgoGenThm
open GraafVerif GraafVerif.AlgoGen

namespace PredecessorTree

/-- Lift an outcome of the hand-written model. -/
def liftP : PredTree.Res → Res (Option (List Nat))
  | .panic => .error (.fault .panic)
  | .ret r => .ok r

/-- `PredecessorTree::new`: `assert!(order > 0)`, then `vec![None; order]`. -/
theorem new_eq (order : Nat) :
    AlgoGen.PredecessorTree.new order =
      if 0 < order then .ok ⟨List.replicate order none⟩ else .error (.fault .panic) := by
  unfold AlgoGen.PredecessorTree.new
  by_cases h : 0 < order
  · simp [h]
  · simp [h]

/-- One round of the `while let Some(&v) = self.pred.get(s)` loop, as a case tree. -/
theorem searchBy_while0_step (self : AlgoGen.PredecessorTree) (isT : Nat → Option Nat → Bool)
    (s : Nat) (visited : List Bool) (path : List Nat) :
    AlgoGen.PredecessorTree.searchBy_while0 self isT (s, visited, path) =
      match self.pred[s]? with
      | none => brk (s, visited, path)
      | some v =>
        if isT s v = true then ret (some path)
        else match v with
          | none => brk (s, visited, path)
          | some v' =>
            match visited[v']? with
            | none => brk (s, visited, path)
            | some true => brk (s, visited, path)
            | some false => .ok (v', visited.set v' true, if v' ≠ s then path ++ [v'] else path) := by
  unfold AlgoGen.PredecessorTree.searchBy_while0
  dsimp only
  cases hp : self.pred[s]? with
  | none => rfl
  | some v =>
    by_cases ht : isT s v = true
    · simp [ht]
    · cases v with
      | none => simp [ht]
      | some v' =>
        cases hv : visited[v']? with
        | none => simp [ht, hv]
        | some b =>
          cases b with
          | true => simp [ht, hv]
          | false =>
            by_cases hvs : v' = s
            · subst hvs; simp [ht, hv]
            · simp [ht, hv, hvs]

/-- The `while let Some(&v) = self.pred.get(s)` loop followed by the final `None`: the
hand-written `PredTree.loop`, for every fuel and every loop state. -/
theorem searchBy_while0_eq (self : AlgoGen.PredecessorTree) (isT : Nat → Option Nat → Bool) :
    ∀ (fuel s : Nat) (visited : List Bool) (path : List Nat),
      ((whileLoop (AlgoGen.PredecessorTree.searchBy_while0 self isT) fuel (s, visited, path) >>= fun _ => .ok none :
          Blk Empty (Option (List Nat)) (Option (List Nat)))) =
        match PredTree.loop self.pred isT fuel s visited path with
        | some p => .error (.ret (some p))
        | none => .ok none := by
  intro fuel
  induction fuel with
  | zero => intro s visited path; rfl
  | succ fuel ih =>
    intro s visited path
    rw [whileLoop_succ, searchBy_while0_step]
    unfold PredTree.loop
    cases hp : self.pred[s]? with
    | none => rfl
    | some v =>
      by_cases ht : isT s v = true
      · simp [ht, ret_def]
      · cases v with
        | none => simp [ht, brk_def]
        | some v' =>
          simp only [ht, Bool.false_eq_true, if_false]
          cases hv : visited[v']? with
          | none => simp [brk_def]
          | some b =>
            cases b with
            | true => simp [brk_def]
            | false => exact ih v' (visited.set v' true) (if v' ≠ s then path ++ [v'] else path)

/-- `PredecessorTree::search_by` = the hand-written `PredTree.searchByFuel`, for every vector,
start vertex, predicate and fuel. -/
theorem searchBy_eq (fuel : Nat) (self : AlgoGen.PredecessorTree) (s : Nat) (isT : Nat → Option Nat → Bool) :
    AlgoGen.PredecessorTree.searchBy fuel self s isT = liftP (PredTree.searchByFuel self.pred s isT fuel) := by
  unfold AlgoGen.PredecessorTree.searchBy PredTree.searchByFuel
  cases hp : self.pred[s]? with
  | none => simp [idx, Chk.rdChecked, hp, liftChk, liftP]
  | some ps =>
    rw [idx_some _ _ _ hp]
    by_cases ht : isT s ps = true
    · simp [ht, liftP]
    · have h := searchBy_while0_eq self isT fuel s (List.replicate self.pred.length false) [s]
      simp only [ok_bind, ht, Bool.false_eq_true, if_false, pure_eq_ok]
      rw [h]
      cases PredTree.loop self.pred isT fuel s (List.replicate self.pred.length false) [s] with
      | none => rfl
      | some p => rfl

/-- `PredecessorTree::search` = the hand-written `searchByFuel` with the predicate `|&v, _| v == t`. -/
theorem search_eq (fuel : Nat) (self : AlgoGen.PredecessorTree) (s t : Nat) :
    AlgoGen.PredecessorTree.search fuel self s t =
      liftP (PredTree.searchByFuel self.pred s (fun v _ => v == t) fuel) := by
  unfold AlgoGen.PredecessorTree.search
  rw [searchBy_eq]
  cases PredTree.searchByFuel self.pred s (fun v _ => v == t) fuel with
  | panic => rfl
  | ret r => rfl

/-- With the fuel the hand-written model fixes (`pred.len() + 2`, adequate by `Proof/PredTree`). -/
theorem searchBy_eq_searchBy (self : AlgoGen.PredecessorTree) (s : Nat) (isT : Nat → Option Nat → Bool) :
    AlgoGen.PredecessorTree.searchBy (self.pred.length + 2) self s isT = liftP (PredTree.searchBy self.pred s isT) :=
  searchBy_eq _ self s isT

theorem search_eq_search (self : AlgoGen.PredecessorTree) (s t : Nat) :
    AlgoGen.PredecessorTree.search (self.pred.length + 2) self s t = liftP (PredTree.search self.pred s t) :=
  search_eq _ self s t

end PredecessorTree

end GraafVerif.AlgoGenThm
