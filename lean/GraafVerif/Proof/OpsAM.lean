import GraafVerif.Proof.OpsSorted
import GraafVerif.Spec.Ops
/-!
# `AdjacencyMap::{complement, converse, filter_vertices}` on arbitrary key sets

Rows are read through `rowAM m k = (mget k m).getD []`.  `converse` and `filter_vertices` are
folds of two kinds of map updates (`entry(k).or_default()` and `entry(u).or_default().insert(v)`),
handled once by `applyActs_spec`.
-/
namespace GraafVerif.Ops
open GraafVerif.Repr

/-- Row of key `k` (empty when `k` is not a key). -/
def rowAM (m : List Entry) (k : Nat) : List Nat := (mget k m).getD []

def keysAM (m : List Entry) : List Nat := m.map (·.1)

theorem hasArcAM_iff {d : AdjMap} {u v : Nat} : d.hasArc u v = true ↔ v ∈ rowAM d.rows u := by
  unfold AdjMap.hasArc rowAM
  cases mget u d.rows <;> simp

theorem absAM_V {d : AdjMap} {v : Nat} : (absAM d).V v ↔ v ∈ keysAM d.rows := by
  simp [absAM, AdjMap.vertices, keysAM]

theorem absAM_A {d : AdjMap} {u v : Nat} : (absAM d).A u v ↔ v ∈ rowAM d.rows u := hasArcAM_iff

theorem rowAM_of_mem {m : List Entry} (h : SortedK m) {u : Nat} {row : List Nat} (hm : (u, row) ∈ m) :
    rowAM m u = row := by
  unfold rowAM
  rw [(mget_eq_some_iff h).mpr hm]
  rfl

theorem mem_rowAM {m : List Entry} (h : SortedK m) {u v : Nat} :
    v ∈ rowAM m u ↔ ∃ row, (u, row) ∈ m ∧ v ∈ row := by
  unfold rowAM
  cases hg : mget u m with
  | none =>
    simp only [Option.getD_none, List.not_mem_nil, false_iff]
    rintro ⟨row, hm, _⟩
    rw [(mget_eq_some_iff h).mpr hm] at hg
    cases hg
  | some row =>
    simp only [Option.getD_some]
    constructor
    · intro hv; exact ⟨row, (mget_eq_some_iff h).mp hg, hv⟩
    · rintro ⟨row', hm, hv⟩
      rw [(mget_eq_some_iff h).mpr hm] at hg
      cases hg; exact hv

theorem rowAM_nil_of_not_key {m : List Entry} (h : SortedK m) {k : Nat} (hk : k ∉ keysAM m) :
    rowAM m k = [] := by
  unfold rowAM
  cases hg : mget k m with
  | none => rfl
  | some row =>
    exfalso; apply hk
    exact List.mem_map.mpr ⟨(k, row), (mget_eq_some_iff h).mp hg, rfl⟩

theorem wfAM_row {d : AdjMap} (h : d.WF) (k : Nat) :
    SortedS (rowAM d.rows k) ∧ ∀ v ∈ rowAM d.rows k, v ≠ k ∧ v ∈ keysAM d.rows := by
  unfold rowAM
  cases hg : mget k d.rows with
  | none => simp [SortedS]
  | some row =>
    have hm := (mget_eq_some_iff h.1).mp hg
    have := h.2 k row hm
    refine ⟨this.1, ?_⟩
    intro v hv
    have hv' := this.2 v hv
    exact ⟨hv'.1, (mget_isSome_iff h.1).mp hv'.2⟩

theorem wfAM_of {m : List Entry} (hs : SortedK m) (hr : ∀ k, SortedS (rowAM m k))
    (hv : ∀ k v, v ∈ rowAM m k → v ≠ k ∧ v ∈ keysAM m) : AdjMap.WF ⟨m⟩ := by
  refine ⟨hs, ?_⟩
  intro u row hm
  have := rowAM_of_mem hs hm
  refine ⟨by rw [← this]; exact hr u, ?_⟩
  intro v hvr
  rw [← this] at hvr
  have := hv u v hvr
  exact ⟨this.1, (mget_isSome_iff hs).mpr this.2⟩

theorem absAM_valid {d : AdjMap} (h : d.WF) : (absAM d).Valid := by
  intro u v ha
  rw [absAM_A] at ha
  have := (wfAM_row h u).2 v ha
  refine ⟨?_, absAM_V.mpr this.2, fun e => this.1 e.symm⟩
  rw [absAM_V]
  obtain ⟨row, hm, _⟩ := (mem_rowAM h.1).mp ha
  exact List.mem_map.mpr ⟨(u, row), hm, rfl⟩

theorem sortedS_keys {m : List Entry} (h : SortedK m) : SortedS (keysAM m) := by
  unfold SortedS keysAM
  rw [List.pairwise_map]
  exact h

/-! ## Key-preserving row maps -/

theorem sortedK_mapRows {m : List Entry} (g : Entry → List Nat) (h : SortedK m) :
    SortedK (m.map (fun e => (e.1, g e))) := by
  unfold SortedK
  rw [List.pairwise_map]
  exact h

theorem keys_mapRows {m : List Entry} (g : Entry → List Nat) :
    keysAM (m.map (fun e => (e.1, g e))) = keysAM m := by
  simp [keysAM, List.map_map, Function.comp_def]

theorem rowAM_mapRows {m : List Entry} (g : Entry → List Nat) (h : SortedK m) (k : Nat) :
    rowAM (m.map (fun e => (e.1, g e))) k =
      match mget k m with
      | none => []
      | some row => g (k, row) := by
  cases hg : mget k m with
  | none =>
    apply rowAM_nil_of_not_key (sortedK_mapRows g h)
    rw [keys_mapRows]
    intro hk
    have := (mget_isSome_iff h).mpr hk
    rw [hg] at this; cases this
  | some row =>
    have hm := (mget_eq_some_iff h).mp hg
    exact rowAM_of_mem (sortedK_mapRows g h) (List.mem_map.mpr ⟨(k, row), hm, rfl⟩)

/-! ## complement -/

theorem complementAM_rows {d : AdjMap} (h : d.WF) :
    (complementAM d).rows = d.rows.map (fun e =>
      (e.1, serase e.1 ((keysAM d.rows).filter (fun v => !e.2.contains v)))) := by
  unfold complementAM
  simp only []
  have hk : toSet (d.rows.map (·.1)) = keysAM d.rows := toSet_of_sorted (sortedS_keys h.1)
  rw [hk]
  have hin : ∀ e : Entry, toSet ((keysAM d.rows).filter (fun v => !e.2.contains v)) =
      (keysAM d.rows).filter (fun v => !e.2.contains v) :=
    fun e => toSet_of_sorted (sorted_filter _ (sortedS_keys h.1))
  simp only [hin]
  exact toMap_of_sorted (sortedK_mapRows _ h.1)

theorem complementAM_spec (d : AdjMap) (h : d.WF) :
    (complementAM d).WF ∧ absAM (complementAM d) = specComplement (absAM d) := by
  have hrows := complementAM_rows h
  have hrow : ∀ k v, v ∈ rowAM (complementAM d).rows k ↔
      k ∈ keysAM d.rows ∧ v ∈ keysAM d.rows ∧ v ≠ k ∧ v ∉ rowAM d.rows k := by
    intro k v
    rw [hrows, rowAM_mapRows _ h.1]
    cases hg : mget k d.rows with
    | none =>
      have : k ∉ keysAM d.rows := by
        intro hk; have := (mget_isSome_iff h.1).mpr hk; rw [hg] at this; cases this
      simp [this]
    | some row =>
      have hk : k ∈ keysAM d.rows :=
        List.mem_map.mpr ⟨(k, row), (mget_eq_some_iff h.1).mp hg, rfl⟩
      have hr : rowAM d.rows k = row := by simp [rowAM, hg]
      simp only []
      rw [mem_serase (sorted_filter _ (sortedS_keys h.1)), List.mem_filter, hr]
      simp only [hk, true_and, Bool.not_eq_true', ne_eq]
      constructor
      · rintro ⟨⟨h1, h2⟩, h3⟩; exact ⟨h1, h3, by simpa using h2⟩
      · rintro ⟨h1, h2, h3⟩; exact ⟨⟨h1, by simpa using h3⟩, h2⟩
  have hkeys : keysAM (complementAM d).rows = keysAM d.rows := by rw [hrows, keys_mapRows]
  constructor
  · show AdjMap.WF ⟨(complementAM d).rows⟩
    apply wfAM_of
    · rw [hrows]; exact sortedK_mapRows _ h.1
    · intro k
      rw [hrows, rowAM_mapRows _ h.1]
      cases mget k d.rows with
      | none => simp [SortedS]
      | some row => exact sorted_serase (sorted_filter _ (sortedS_keys h.1))
    · intro k v hv
      rw [hkeys]
      have := (hrow k v).mp hv
      exact ⟨this.2.2.1, this.2.1⟩
  · rw [DG.ext_iff']
    constructor
    · intro v; rw [absAM_V, hkeys]; simp [specComplement, absAM_V]
    · intro u v
      rw [absAM_A, hrow]
      simp only [specComplement, absAM_V, absAM_A]
      constructor
      · rintro ⟨h1, h2, h3, h4⟩; exact ⟨h1, h2, fun e => h3 e.symm, h4⟩
      · rintro ⟨h1, h2, h3, h4⟩; exact ⟨h1, h2, fun e => h3 e.symm, h4⟩

/-! ## Folds of map updates -/

inductive Act where
  /-- `entry(k).or_default()` -/
  | key (k : Nat)
  /-- `entry(u).or_default().insert(v)` -/
  | arc (u v : Nat)

def applyAct (m : List Entry) : Act → List Entry
  | .key k => mupsert k [] id m
  | .arc u v => mupsert u [] (sinsert v) m

theorem rowAM_mupsert {m : List Entry} (h : SortedK m) (k k' : Nat) (f : List Nat → List Nat) :
    rowAM (mupsert k [] f m) k' = if k' = k then f (rowAM m k) else rowAM m k' := by
  unfold rowAM
  rw [mget_mupsert h]
  split <;> rfl

theorem applyActs_spec : ∀ (acts : List Act) (m : List Entry), SortedK m → (∀ k, SortedS (rowAM m k)) →
    SortedK (acts.foldl applyAct m) ∧ (∀ k, SortedS (rowAM (acts.foldl applyAct m) k)) ∧
    (∀ k, k ∈ keysAM (acts.foldl applyAct m) ↔
      k ∈ keysAM m ∨ Act.key k ∈ acts ∨ ∃ v, Act.arc k v ∈ acts) ∧
    (∀ k x, x ∈ rowAM (acts.foldl applyAct m) k ↔ x ∈ rowAM m k ∨ Act.arc k x ∈ acts) := by
  intro acts
  induction acts with
  | nil => intro m hs hr; exact ⟨hs, hr, by simp, by simp⟩
  | cons a acts ih =>
    intro m hs hr
    have hs1 : SortedK (applyAct m a) := by
      cases a <;> exact sortedK_mupsert hs
    have hr1 : ∀ k, SortedS (rowAM (applyAct m a) k) := by
      intro k
      cases a with
      | key k0 =>
        simp only [applyAct]; rw [rowAM_mupsert hs]
        split
        · exact hr _
        · exact hr _
      | arc u v =>
        simp only [applyAct]; rw [rowAM_mupsert hs]
        split
        · exact sorted_sinsert (hr _)
        · exact hr _
    obtain ⟨h1, h2, h3, h4⟩ := ih (applyAct m a) hs1 hr1
    simp only [List.foldl_cons]
    refine ⟨h1, h2, ?_, ?_⟩
    · intro k
      rw [h3]
      cases a with
      | key k0 =>
        simp only [applyAct, keysAM, keys_mupsert, List.mem_cons, Act.key.injEq, reduceCtorEq, false_or]
        constructor
        · rintro ((rfl | h) | h | h)
          · exact Or.inr (Or.inl (Or.inl rfl))
          · exact Or.inl h
          · exact Or.inr (Or.inl (Or.inr h))
          · exact Or.inr (Or.inr h)
        · rintro (h | (rfl | h) | h)
          · exact Or.inl (Or.inr h)
          · exact Or.inl (Or.inl rfl)
          · exact Or.inr (Or.inl h)
          · exact Or.inr (Or.inr h)
      | arc u v =>
        simp only [applyAct, keysAM, keys_mupsert, List.mem_cons, reduceCtorEq, false_or, Act.arc.injEq]
        constructor
        · rintro ((rfl | h) | h | ⟨w, h⟩)
          · exact Or.inr (Or.inr ⟨v, Or.inl ⟨rfl, rfl⟩⟩)
          · exact Or.inl h
          · exact Or.inr (Or.inl h)
          · exact Or.inr (Or.inr ⟨w, Or.inr h⟩)
        · rintro (h | h | ⟨w, (⟨rfl, rfl⟩ | h)⟩)
          · exact Or.inl (Or.inr h)
          · exact Or.inr (Or.inl h)
          · exact Or.inl (Or.inl rfl)
          · exact Or.inr (Or.inr ⟨w, h⟩)
    · intro k x
      rw [h4]
      cases a with
      | key k0 =>
        simp only [applyAct]; rw [rowAM_mupsert hs]
        simp only [id, List.mem_cons, reduceCtorEq, false_or]
        split
        · rename_i hk; subst hk; rfl
        · rfl
      | arc u v =>
        simp only [applyAct]; rw [rowAM_mupsert hs]
        simp only [List.mem_cons, Act.arc.injEq]
        split
        · rename_i hk; subst hk
          rw [mem_sinsert]
          constructor
          · rintro ((rfl | h) | h)
            · exact Or.inr (Or.inl ⟨rfl, rfl⟩)
            · exact Or.inl h
            · exact Or.inr (Or.inr h)
          · rintro (h | (⟨_, rfl⟩ | h))
            · exact Or.inl (Or.inr h)
            · exact Or.inl (Or.inl rfl)
            · exact Or.inr h
        · rename_i hk
          constructor
          · rintro (h | h)
            · exact Or.inl h
            · exact Or.inr (Or.inr h)
          · rintro (h | (⟨rfl, _⟩ | h))
            · exact Or.inl h
            · exact absurd rfl hk
            · exact Or.inr h

theorem mem_arcsAM {d : AdjMap} (h : SortedK d.rows) {u v : Nat} : (u, v) ∈ d.arcs ↔ v ∈ rowAM d.rows u := by
  rw [mem_rowAM h]
  unfold AdjMap.arcs
  simp only [List.mem_flatMap, List.mem_map, Prod.mk.injEq]
  constructor
  · rintro ⟨⟨u', row⟩, hm, v', hv', rfl, rfl⟩; exact ⟨row, hm, hv'⟩
  · rintro ⟨row, hm, hv⟩; exact ⟨(u, row), hm, v, hv, rfl, rfl⟩

/-! ## converse -/

theorem converseAM_spec (d : AdjMap) (h : d.WF) :
    (converseAM d).WF ∧ absAM (converseAM d) = specConverse (absAM d) := by
  have hinit : toMap (d.rows.map (fun e => (e.1, ([] : List Nat)))) =
      d.rows.map (fun e => (e.1, ([] : List Nat))) := toMap_of_sorted (sortedK_mapRows _ h.1)
  have hfold : (converseAM d).rows = (d.arcs.map (fun a => Act.arc a.2 a.1)).foldl applyAct
      (d.rows.map (fun e => (e.1, ([] : List Nat)))) := by
    unfold converseAM
    simp only []
    rw [hinit, List.foldl_map]
    rfl
  have hs0 : SortedK (d.rows.map (fun e => (e.1, ([] : List Nat)))) := sortedK_mapRows _ h.1
  have hr0 : ∀ k, rowAM (d.rows.map (fun e => (e.1, ([] : List Nat)))) k = [] := by
    intro k
    rw [rowAM_mapRows _ h.1]
    cases mget k d.rows <;> rfl
  obtain ⟨h1, h2, h3, h4⟩ := applyActs_spec (d.arcs.map (fun a => Act.arc a.2 a.1)) _ hs0
    (by intro k; rw [hr0]; simp [SortedS])
  rw [← hfold] at h1 h2 h3 h4
  have hact : ∀ k x, Act.arc k x ∈ d.arcs.map (fun a => Act.arc a.2 a.1) ↔ k ∈ rowAM d.rows x := by
    intro k x
    rw [← mem_arcsAM h.1]
    simp only [List.mem_map, Act.arc.injEq]
    constructor
    · rintro ⟨⟨a, b⟩, hm, rfl, rfl⟩; exact hm
    · intro hm; exact ⟨(x, k), hm, rfl, rfl⟩
  have hrow : ∀ k x, x ∈ rowAM (converseAM d).rows k ↔ k ∈ rowAM d.rows x := by
    intro k x; rw [h4, hr0, hact]; simp
  have hkeys : ∀ k, k ∈ keysAM (converseAM d).rows ↔ k ∈ keysAM d.rows := by
    intro k
    rw [h3, keys_mapRows]
    constructor
    · rintro (hk | hk | ⟨v, hk⟩)
      · exact hk
      · simp at hk
      · exact ((wfAM_row h v).2 k ((hact k v).mp hk)).2
    · exact fun hk => Or.inl hk
  constructor
  · show AdjMap.WF ⟨(converseAM d).rows⟩
    apply wfAM_of h1 h2
    intro k v hv
    rw [hrow] at hv
    have := (wfAM_row h v).2 k hv
    refine ⟨fun e => this.1 e.symm, (hkeys v).mpr ?_⟩
    obtain ⟨row, hm, _⟩ := (mem_rowAM h.1).mp hv
    exact List.mem_map.mpr ⟨(v, row), hm, rfl⟩
  · rw [DG.ext_iff']
    constructor
    · intro v; rw [absAM_V, hkeys]; simp [specConverse, absAM_V]
    · intro u v
      rw [absAM_A, hrow]
      simp [specConverse, absAM_A]

/-! ## filter_vertices -/

/-- The map updates `filter_vertices` performs, in order. -/
def filterActs (p : Nat → Bool) (rows : List Entry) : List Act :=
  rows.flatMap (fun e =>
    if p e.1 then Act.key e.1 :: e.2.flatMap (fun v => if p v then [Act.arc e.1 v, Act.key v] else [])
    else [])

theorem filterAM_rows (d : AdjMap) (p : Nat → Bool) :
    (filterAM d p).rows = (filterActs p d.rows).foldl applyAct [] := by
  unfold filterAM filterActs
  simp only []
  rw [List.foldl_flatMap]
  congr 1
  funext m e
  by_cases hp : p e.1 = true
  · simp only [hp, if_true, List.foldl_cons]
    rw [List.foldl_flatMap]
    congr 1
    funext m' v
    by_cases hv : p v = true
    · simp [hv, applyAct]
    · simp [hv]
  · simp [hp]

theorem filterAM_spec (d : AdjMap) (p : Nat → Bool) (h : d.WF) :
    (filterAM d p).WF ∧ absAM (filterAM d p) = specFilter p (absAM d) := by
  obtain ⟨h1, h2, h3, h4⟩ := applyActs_spec (filterActs p d.rows) [] (by simp [SortedK])
    (by intro k; simp [rowAM, mget, SortedS])
  rw [← filterAM_rows] at h1 h2 h3 h4
  have harc : ∀ k x, Act.arc k x ∈ filterActs p d.rows ↔ x ∈ rowAM d.rows k ∧ p k = true ∧ p x = true := by
    intro k x
    rw [mem_rowAM h.1]
    unfold filterActs
    simp only [List.mem_flatMap]
    constructor
    · rintro ⟨⟨u, out⟩, hm, ha⟩
      by_cases hp : p u = true
      · simp only [hp, if_true, List.mem_cons, reduceCtorEq, false_or, List.mem_flatMap] at ha
        obtain ⟨v, hv, ha⟩ := ha
        by_cases hpv : p v = true
        · simp only [hpv, if_true, List.mem_cons, Act.arc.injEq, reduceCtorEq, List.not_mem_nil,
            or_false] at ha
          obtain ⟨rfl, rfl⟩ := ha
          exact ⟨⟨out, hm, hv⟩, hp, hpv⟩
        · simp [hpv] at ha
      · simp [hp] at ha
    · rintro ⟨⟨out, hm, hv⟩, hp, hpv⟩
      refine ⟨(k, out), hm, ?_⟩
      simp only [hp, if_true, List.mem_cons, reduceCtorEq, false_or, List.mem_flatMap]
      exact ⟨x, hv, by simp [hpv]⟩
  have hkey : ∀ k, Act.key k ∈ filterActs p d.rows ↔
      p k = true ∧ (k ∈ keysAM d.rows ∨ ∃ u, p u = true ∧ k ∈ rowAM d.rows u) := by
    intro k
    unfold filterActs
    simp only [List.mem_flatMap]
    constructor
    · rintro ⟨⟨u, out⟩, hm, ha⟩
      by_cases hp : p u = true
      · simp only [hp, if_true, List.mem_cons, Act.key.injEq, List.mem_flatMap] at ha
        rcases ha with rfl | ⟨v, hv, ha⟩
        · exact ⟨hp, Or.inl (List.mem_map.mpr ⟨(k, out), hm, rfl⟩)⟩
        · by_cases hpv : p v = true
          · simp only [hpv, if_true, List.mem_cons, reduceCtorEq, Act.key.injEq, List.not_mem_nil,
              or_false, false_or] at ha
            subst ha
            exact ⟨hpv, Or.inr ⟨u, hp, (mem_rowAM h.1).mpr ⟨out, hm, hv⟩⟩⟩
          · simp [hpv] at ha
      · simp [hp] at ha
    · rintro ⟨hp, hk | ⟨u, hpu, hk⟩⟩
      · obtain ⟨⟨k', out⟩, hm, rfl⟩ := List.mem_map.mp hk
        exact ⟨(k', out), hm, by simp [hp]⟩
      · obtain ⟨out, hm, hv⟩ := (mem_rowAM h.1).mp hk
        refine ⟨(u, out), hm, ?_⟩
        simp only [hpu, if_true, List.mem_cons, List.mem_flatMap]
        exact Or.inr ⟨k, hv, by simp [hp]⟩
  have hrow : ∀ k x, x ∈ rowAM (filterAM d p).rows k ↔ x ∈ rowAM d.rows k ∧ p k = true ∧ p x = true := by
    intro k x; rw [h4, harc]; simp [rowAM, mget]
  have hkeys : ∀ k, k ∈ keysAM (filterAM d p).rows ↔ k ∈ keysAM d.rows ∧ p k = true := by
    intro k
    rw [h3, hkey]
    simp only [keysAM, List.map_nil, List.not_mem_nil, false_or]
    constructor
    · rintro (⟨hp, hk | ⟨u, _, hk⟩⟩ | ⟨v, ha⟩)
      · exact ⟨hk, hp⟩
      · exact ⟨((wfAM_row h u).2 k hk).2, hp⟩
      · have := (harc k v).mp ha
        obtain ⟨row, hm, _⟩ := (mem_rowAM h.1).mp this.1
        exact ⟨List.mem_map.mpr ⟨(k, row), hm, rfl⟩, this.2.1⟩
    · rintro ⟨hk, hp⟩; exact Or.inl ⟨hp, Or.inl hk⟩
  constructor
  · show AdjMap.WF ⟨(filterAM d p).rows⟩
    apply wfAM_of h1 h2
    intro k v hv
    rw [hrow] at hv
    have := (wfAM_row h k).2 v hv.1
    exact ⟨this.1, (hkeys v).mpr ⟨this.2, hv.2.2⟩⟩
  · rw [DG.ext_iff']
    constructor
    · intro v; rw [absAM_V, hkeys]; simp [specFilter, absAM_V]
    · intro u v
      rw [absAM_A, hrow]
      simp [specFilter, absAM_A]

end GraafVerif.Ops
