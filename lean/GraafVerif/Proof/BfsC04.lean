import GraafVerif.Proof.BfsCore
import GraafVerif.Proof.BfsSim
/-!
# Assembly of the C04 theorems from the run invariant

`bfsDist_spec` (the iterator), `bfsDist_fuel` (fuel adequacy), `bfs_spec` (the projection),
`distances_spec` (the `usize::MAX`-filled vector).
-/
namespace GraafVerif.Bfs
open GraafVerif

/-! ### generic facts about hop distances and about writing items into a vector -/

theorem reachIn_reach {g : Graph} {k s v : Nat} (h : ReachIn g k s v) : Reach g s v := by
  induction h with
  | zero u => exact Reach.refl u
  | succ _ ha ih => exact Reach.step ih ha

theorem isHopDist_unique {g : Graph} {S : List Nat} {v d d' : Nat}
    (h : IsHopDist g S v d) (h' : IsHopDist g S v d') : d = d' := by
  rcases Nat.lt_trichotomy d d' with hlt | heq | hgt
  · exact absurd h.1 (h'.2 d hlt)
  · exact heq
  · exact absurd h'.1 (h.2 d' hgt)

theorem isHopDist_reach {g : Graph} {S : List Nat} {v d : Nat} (h : IsHopDist g S v d) : ReachFrom g S v := by
  obtain ⟨⟨s, hs, hr⟩, _⟩ := h
  exact ⟨s, hs, reachIn_reach hr⟩

/-- `for (k, x) in items { vec[k] = x }` on distinct in-range keys: every item is readable,
every other slot keeps its initial content. -/
theorem foldl_set_spec {α : Type} (xs : List (Nat × α)) (init : List α)
    (hnd : (xs.map (·.1)).Nodup) (hlt : ∀ p ∈ xs, p.1 < init.length) :
    let r := xs.foldl (fun d (p : Nat × α) => d.set p.1 p.2) init
    r.length = init.length ∧ (∀ p ∈ xs, r[p.1]? = some p.2) ∧
    (∀ v, v ∉ xs.map (·.1) → r[v]? = init[v]?) := by
  induction xs generalizing init with
  | nil => simp
  | cons p xs ih =>
    simp only [List.foldl_cons]
    have hnd' : (xs.map (·.1)).Nodup := (List.nodup_cons.mp (by simpa using hnd)).2
    have hp : p.1 ∉ xs.map (·.1) := (List.nodup_cons.mp (by simpa using hnd)).1
    obtain ⟨h1, h2, h3⟩ := ih (init.set p.1 p.2) hnd' (fun q hq => by simpa using hlt q (by simp [hq]))
    refine ⟨by simpa using h1, ?_, ?_⟩
    · intro q hq
      rcases List.mem_cons.mp hq with rfl | hq
      · rw [h3 _ hp]
        have := hlt q (by simp)
        simp [this]
      · exact h2 q hq
    · intro v hv
      have hv' : v ∉ xs.map (·.1) := fun h => hv (by simp at h ⊢; exact Or.inr h)
      have hne : p.1 ≠ v := fun h => hv (by simp [h])
      rw [h3 v hv', List.getElem?_set_ne hne]

/-! ### BfsDist -/

/-- What `BfsDist` yields. -/
structure DistSpec (g : Graph) (S : List Nat) (out : List (Nat × Nat)) : Prop where
  nodup : (out.map (·.1)).Nodup
  mem_iff : ∀ v, v ∈ out.map (·.1) ↔ ReachFrom g S v
  exact : ∀ p ∈ out, IsHopDist g S p.1 p.2
  sorted : (out.map (·.2)).Pairwise (· ≤ ·)
  lt : ∀ p ∈ out, p.1 < g.n ∧ p.2 < g.n

theorem runP_distSpec (g : Graph) (hg : g.WF) (S : List Nat) (hS : ∀ s ∈ S, s < g.n) (hnd : S.Nodup)
    (fuel : Nat) (hf : g.n < fuel) : DistSpec g S (runP g labDist fuel (newP g labDist S)).1 := by
  obtain ⟨hI, hq⟩ := run_final g hg labDist id isLevel_dist S hS hnd fuel hf
  have hcard := inv_card g S _ _ hI.toInv
  refine ⟨?_, ?_, ?_, ?_, ?_⟩
  · simpa [hq] using hI.nodup
  · intro v; constructor
    · intro hv; exact hI.reach v (by simp [hq]; simpa using hv)
    · intro hv; exact closed_reach g S _ _ hI.toInv hq v hv
  · intro p hp; exact hI.lvl p (by simp [hq, hp])
  · simpa [hq] using hI.sorted
  · intro p hp
    constructor
    · have := (hI.vis p.1).mpr (by simp [hq]; exact ⟨p.2, hp⟩)
      have := isVis_lt _ _ this
      rw [hI.len] at this; exact this
    · have := hI.bound p (by simp [hq, hp])
      simp [hq] at this hcard
      omega

/-- C04 for `BfsDist`: no panic; every reachable vertex exactly once, nothing else, each with
its exact hop distance, in non-decreasing distance order. -/
theorem bfsDist_spec (g : Graph) (hg : g.WF) (S : List Nat) (hS : ∀ s ∈ S, s < g.n) (hnd : S.Nodup) :
    ∃ out, bfsDist g S = .ok out ∧ DistSpec g S out := by
  refine ⟨_, iter_eq g hg labDist S hS, runP_distSpec g hg S hS hnd _ ?_⟩
  unfold fuelFor; omega

/-- Fuel adequacy: any fuel above the order drives the iterator to exhaustion with the same
result, so `fuelFor` is a termination argument and not an assumption. -/
theorem iter_fuel {L : Type} (g : Graph) (hg : g.WF) (lab : Lab L) (lev : L → Nat) (hlev : IsLevel lab lev)
    (S : List Nat) (hS : ∀ s ∈ S, s < g.n) (hnd : S.Nodup) (fuel : Nat) (hf : g.n < fuel) :
    ∃ st, new g lab S = .ok st ∧ run g lab fuel st = iter g lab S := by
  refine ⟨newP g lab S, new_eq g lab S hS, ?_⟩
  have hlen := (newP_spec g lab S hS).2.1
  rw [iter_eq g hg lab S hS, run_eq g hg lab fuel _ hlen]
  have h1 := (run_final g hg lab lev hlev S hS hnd (g.n + 1) (by omega)).2
  have a := runP_stable g lab (g.n + 1) fuel (newP g lab S) (by omega) h1
  have b := runP_stable g lab (g.n + 1) (fuelFor g S) (newP g lab S) (by unfold fuelFor; omega) h1
  rw [a, b]

theorem bfsDist_fuel (g : Graph) (hg : g.WF) (S : List Nat) (hS : ∀ s ∈ S, s < g.n) (hnd : S.Nodup)
    (fuel : Nat) (hf : g.n < fuel) :
    ∃ st, new g labDist S = .ok st ∧ run g labDist fuel st = bfsDist g S :=
  iter_fuel g hg labDist id isLevel_dist S hS hnd fuel hf

/-! ### Bfs -/

/-- What `Bfs` yields: "non-decreasing hop distance" is stated with the declarative distance. -/
structure BfsSpec (g : Graph) (S : List Nat) (out : List Nat) : Prop where
  nodup : out.Nodup
  mem_iff : ∀ v, v ∈ out ↔ ReachFrom g S v
  ordered : out.Pairwise (fun u v => ∀ du dv, IsHopDist g S u du → IsHopDist g S v dv → du ≤ dv)

theorem bfs_spec (g : Graph) (hg : g.WF) (S : List Nat) (hS : ∀ s ∈ S, s < g.n) (hnd : S.Nodup) :
    ∃ out, bfs g S = .ok out ∧ BfsSpec g S out := by
  obtain ⟨out, ho, hsp⟩ := bfsDist_spec g hg S hS hnd
  refine ⟨out.map (·.1), by rw [bfs_eq_map_fst, ho]; rfl, hsp.nodup, hsp.mem_iff, ?_⟩
  rw [List.pairwise_map]
  have hs := hsp.sorted
  rw [List.pairwise_map] at hs
  refine List.Pairwise.imp_of_mem ?_ hs
  intro p q hp hq hle du dv hu hv
  rw [isHopDist_unique hu (hsp.exact p hp), isHopDist_unique hv (hsp.exact q hq)]
  exact hle

/-! ### BfsDist::distances -/

/-- `distances()` is the full hop-distance vector, `inf` (= `usize::MAX`) exactly at the
unreachable vertices. `g.n ≤ inf`: an order fits a `usize`. -/
structure DistancesSpec (g : Graph) (S : List Nat) (inf : Nat) (d : List Nat) : Prop where
  len : d.length = g.n
  dist : ∀ v k, IsHopDist g S v k → d[v]? = some k
  inf_iff : ∀ v, v < g.n → (d[v]? = some inf ↔ ¬ ReachFrom g S v)

theorem distances_spec (g : Graph) (hg : g.WF) (S : List Nat) (hS : ∀ s ∈ S, s < g.n) (hnd : S.Nodup)
    (inf : Nat) (hinf : g.n ≤ inf) :
    ∃ d, distances g S inf = .ok d ∧ DistancesSpec g S inf d := by
  obtain ⟨out, ho, hsp⟩ := bfsDist_spec g hg S hS hnd
  obtain ⟨h1, h2, h3⟩ := foldl_set_spec out (List.replicate g.n inf) hsp.nodup
    (fun p hp => by simpa using (hsp.lt p hp).1)
  refine ⟨_, by unfold distances; rw [ho], ?_, ?_, ?_⟩
  · simpa using h1
  · intro v k hk
    have hv := (hsp.mem_iff v).mpr (isHopDist_reach hk)
    obtain ⟨p, hp, rfl⟩ := List.mem_map.mp hv
    rw [h2 p hp, isHopDist_unique hk (hsp.exact p hp)]
  · intro v hv
    constructor
    · intro hd hr
      have hv' := (hsp.mem_iff v).mpr hr
      obtain ⟨p, hp, rfl⟩ := List.mem_map.mp hv'
      rw [h2 p hp] at hd
      have := (hsp.lt p hp).2
      simp at hd
      omega
    · intro hr
      have : v ∉ out.map (·.1) := fun h => hr ((hsp.mem_iff v).mp h)
      rw [h3 v this]
      simp [hv]

end GraafVerif.Bfs
