import GraafVerif.Model.FwFast
/-!
# The `Array` twin of the model computes the same lists (C08 driver ↔ proved model)
-/
namespace GraafVerif.Fw
open GraafVerif

theorem getA_toList (n : Nat) (m : MatA) (u v : Nat) : getA n m u v = get n m.toList u v := by
  simp [getA, get]

theorem putA_toList (n : Nat) (m : MatA) (u v : Nat) (x : Option Int) :
    (putA n m u v x).toList = put n m.toList u v x := by
  simp [putA, put]

theorem foldl_toList {β : Type} (fA : MatA → β → MatA) (f : Mat → β → Mat)
    (h : ∀ m b, (fA m b).toList = f m.toList b) (l : List β) (m : MatA) :
    (l.foldl fA m).toList = l.foldl f m.toList := by
  induction l generalizing m with
  | nil => rfl
  | cons b bs ih => simp only [List.foldl_cons]; rw [ih, h]

theorem setArcsA_toList (n : Nat) (m : MatA) (arcs : List (Nat × Nat × Int)) :
    (setArcsA n m arcs).toList = setArcs n m.toList arcs :=
  foldl_toList _ _ (fun m a => putA_toList n m a.1 a.2.1 _) arcs m

theorem zeroDiagA_toList (n : Nat) (m : MatA) : (zeroDiagA n m).toList = zeroDiag n m.toList :=
  foldl_toList _ _ (fun m i => putA_toList n m i i _) _ m

theorem cellA_toList (n i j : Nat) (a : Int) (m : MatA) (k : Nat) :
    (cellA n i j a m k).toList = cell n i j a m.toList k := by
  unfold cellA cell
  rw [getA_toList, getA_toList]
  cases get n m.toList i k with
  | none => rfl
  | some b =>
    simp only
    cases get n m.toList j k with
    | none => exact putA_toList ..
    | some c =>
      simp only
      split
      · exact putA_toList ..
      · rfl

theorem rowJA_toList (n i : Nat) (m : MatA) (j : Nat) : (rowJA n i m j).toList = rowJ n i m.toList j := by
  unfold rowJA rowJ
  rw [getA_toList]
  cases get n m.toList j i with
  | none => rfl
  | some a => exact foldl_toList _ _ (cellA_toList n i j a) _ m

theorem iterIA_toList (n : Nat) (m : MatA) (i : Nat) : (iterIA n m i).toList = iterI n m.toList i :=
  foldl_toList _ _ (rowJA_toList n i) _ m

theorem loopToA_toList (n : Nat) (m : MatA) (K : Nat) : (loopToA n m K).toList = loopTo n m.toList K :=
  foldl_toList _ _ (iterIA_toList n) _ m

theorem callA_toList (g : WGraph) (m : MatA) : (callA g m).toList = call g m.toList := by
  rw [callA, call, loopToA_toList, zeroDiagA_toList, setArcsA_toList]

theorem distancesA_toList (g : WGraph) : (distancesA g).toList = distances g := by
  rw [distancesA, callA_toList]; simp [call, distances, init]

theorem distances2A_toList (g : WGraph) : (distances2A g).toList = distances2 g := by
  rw [distances2A, callA_toList, distancesA_toList, distances2]

end GraafVerif.Fw
