import GraafVerif.Proof.OracleFastWDist
import GraafVerif.Proof.OracleUses
/-!
# `hopDistFastA` (level-synchronous frontier search, `H04.hopDistFast`) equals `hopDistB`
# and `reachFast` equals `reachSetB`

`hopDistFastA` keeps the frontier (the vertices labelled `k`) as a list and scans only their rows;
`hopDistB` rescans all `n` vertices in each of its `n` rounds.  The scan orders differ, so instead
of relating the intermediate arrays the fast oracle is proved EXACT (`FInv`: before level `k` the
labels are hop distances `≤ k`, every vertex of hop distance `≤ k` is labelled, and the frontier
lists exactly the vertices labelled `k`) with the per-arc lemmas of `Proof/OracleHop.lean`
(`hIn`, `MInv`); equality with `hopDistB` follows from the uniqueness of hop distances.

`reachFast` is the same search on a Boolean array; it is the image of the hop search under
`Option.isSome` step by step (`rfGo_sim`), and `reachSetB = (hopDistB).map isSome` is proved
(`reach_eq_hop_isSome`).
-/
namespace GraafVerif.OracleFastProof
open GraafVerif GraafVerif.OracleFast GraafVerif.OracleProof

/-! ## One arc -/

theorem hfIn_cases (k : Nat) (a : Array (Option Nat) × List Nat) (v : Nat) :
    (v < a.1.size ∧ lk a.1.toList v = none ∧ hfIn k a v = (a.1.setIfInBounds v (some (k+1)), v :: a.2)) ∨
    ((a.1.size ≤ v ∨ ∃ x, lk a.1.toList v = some x) ∧ hfIn k a v = a) := by
  unfold hfIn lk
  rw [Array.getElem?_toList]
  by_cases hv : v < a.1.size
  · rw [Array.getElem?_eq_getElem hv]
    cases h : a.1[v] with
    | none => left; exact ⟨hv, rfl, rfl⟩
    | some x => right; exact ⟨Or.inr ⟨x, rfl⟩, rfl⟩
  · rw [Array.getElem?_eq_none (by omega)]
    right; exact ⟨Or.inl (by omega), rfl⟩

/-- On the labels the step is the step `hIn` of `hopDistB`. -/
theorem hfIn_fst (k : Nat) (a : Array (Option Nat) × List Nat) (v : Nat) :
    (hfIn k a v).1.toList = hIn k a.1.toList v := by
  rcases hfIn_cases k a v with ⟨hv, hn, h⟩ | ⟨hc, h⟩
  · rcases hIn_cases k a.1.toList v with ⟨_, h'⟩ | ⟨x, hx, _⟩
    · rw [h, h']; simp
    · rw [hn] at hx; cases hx
  · rw [h]
    rcases hIn_cases k a.1.toList v with ⟨hn, h'⟩ | ⟨x, _, h'⟩
    · rw [h']
      rcases hc with hge | ⟨x, hx⟩
      · rw [List.set_eq_of_length_le (by simpa using hge)]
      · rw [hn] at hx; cases hx
    · rw [h']

/-! ## One level -/

/-- Invariant inside the expansion of level `k` started at labels `d`: `MInv` of `hopDistB`'s round
for the labels, and the next frontier lists exactly the vertices labelled in this expansion. -/
structure FRI (g : Graph) (d : List (Option Nat)) (k : Nat) (acc : Array (Option Nat) × List Nat) : Prop where
  m : MInv g d k acc.1.toList
  fr : ∀ v, v ∈ acc.2 ↔ (lk d v = none ∧ lk acc.1.toList v = some (k+1))

theorem fri_hfIn {g : Graph} {d : List (Option Nat)} {k : Nat} {acc : Array (Option Nat) × List Nat} {u v : Nat}
    (h : FRI g d k acc) (hu : lk d u = some k) (ha : g.A u v) : FRI g d k (hfIn k acc v) := by
  refine ⟨by rw [hfIn_fst]; exact mInv_hIn h.m hu ha, ?_⟩
  rcases hfIn_cases k acc v with ⟨hv, hn, h1⟩ | ⟨_, h1⟩
  · rw [h1]
    intro y
    show y ∈ v :: acc.2 ↔ lk d y = none ∧ lk (acc.1.setIfInBounds v (some (k+1))).toList y = some (k+1)
    rw [Array.toList_setIfInBounds, lk_set, List.mem_cons]
    by_cases hvy : v = y
    · subst hvy
      have hd : lk d v = none := by
        cases hd : lk d v with
        | none => rfl
        | some z => rw [h.m.old v z hd] at hn; cases hn
      simp [hd, hv]
    · have : ¬ (v = y ∧ v < acc.1.toList.length) := fun hh => hvy hh.1
      rw [if_neg this, ← h.fr y]
      constructor
      · rintro (he | hm)
        · exact absurd he.symm hvy
        · exact hm
      · exact Or.inr
  · rw [h1]; exact h.fr

theorem fri_hfOut {g : Graph} {d : List (Option Nat)} {k : Nat} {acc : Array (Option Nat) × List Nat} {u : Nat}
    (h : FRI g d k acc) (hu : lk d u = some k) : FRI g d k (hfOut g k acc u) :=
  foldl_inv (FRI g d k) (hfIn k) (g.out u) (fun _ _ hv ha => fri_hfIn ha hu hv) acc h

theorem fri_round {g : Graph} {d : Array (Option Nat)} {k : Nat} {front : List Nat} (hlen : d.size = g.n)
    (hfront : ∀ u ∈ front, lk d.toList u = some k) : FRI g d.toList k (hfRound g k front d) := by
  refine foldl_inv (FRI g d.toList k) (hfOut g k) front (fun _ u hu ha => fri_hfOut ha (hfront u hu)) (d, []) ?_
  refine ⟨⟨by simpa using hlen, fun _ _ h => h, fun v x h => Or.inl h⟩, fun v => ?_⟩
  constructor
  · intro h; cases h
  · rintro ⟨h1, h2⟩
    rw [show lk (d, ([] : List Nat)).1.toList v = lk d.toList v from rfl, h1] at h2; cases h2

theorem hfIn_persist (k : Nat) (a : Array (Option Nat) × List Nat) (v y x : Nat)
    (h : lk a.1.toList y = some x) : lk (hfIn k a v).1.toList y = some x := by
  rw [hfIn_fst]; exact hIn_persist k _ v y x h

theorem hfOut_persist (g : Graph) (k : Nat) (a : Array (Option Nat) × List Nat) (u y x : Nat)
    (h : lk a.1.toList y = some x) : lk (hfOut g k a u).1.toList y = some x :=
  foldl_inv (fun b : Array (Option Nat) × List Nat => lk b.1.toList y = some x) (hfIn k) (g.out u)
    (fun b v _ hb => hfIn_persist k b v y x hb) a h

theorem hfIn_size (k : Nat) (a : Array (Option Nat) × List Nat) (v : Nat) : (hfIn k a v).1.size = a.1.size := by
  have := congrArg List.length (hfIn_fst k a v)
  rw [hIn_length] at this
  simpa using this

theorem hfOut_size (g : Graph) (k : Nat) (a : Array (Option Nat) × List Nat) (u : Nat) :
    (hfOut g k a u).1.size = a.1.size :=
  foldl_inv (fun b : Array (Option Nat) × List Nat => b.1.size = a.1.size) (hfIn k) (g.out u)
    (fun b v _ hb => by rw [hfIn_size]; exact hb) a rfl

/-- After the expansion every out-neighbour of a frontier vertex is labelled. -/
theorem fround_covers {g : Graph} (hwf : g.WF) {d : Array (Option Nat)} (k : Nat) (hlen : d.size = g.n)
    {front : List Nat} {u v : Nat} (hu : u ∈ front) (ha : g.A u v) :
    ∃ x, lk (hfRound g k front d).1.toList v = some x := by
  have key := foldl_establish (fun a : Array (Option Nat) × List Nat => a.1.size = g.n)
    (fun (u : Nat) (a : Array (Option Nat) × List Nat) => ∀ v ∈ g.out u, ∃ x, lk a.1.toList v = some x)
    (hfOut g k) front
    (fun a b _ h => by rw [hfOut_size]; exact h)
    (fun a b _ hlen' =>
      foldl_establish (fun a : Array (Option Nat) × List Nat => a.1.size = g.n)
        (fun (v : Nat) (a : Array (Option Nat) × List Nat) => ∃ x, lk a.1.toList v = some x) (hfIn k) (g.out b)
        (fun a v _ h => by rw [hfIn_size]; exact h)
        (fun a v hv hl => by
          rcases hfIn_cases k a v with ⟨hlt, _, h1⟩ | ⟨hc, h1⟩
          · rw [h1]
            show ∃ x, lk (a.1.setIfInBounds v (some (k+1))).toList v = some x
            rw [Array.toList_setIfInBounds, lk_set]
            exact ⟨k+1, by simp [hlt]⟩
          · rw [h1]
            rcases hc with hge | hx
            · have := (hwf b v hv).2
              omega
            · exact hx)
        (fun a v c hc => by
          obtain ⟨x, hx⟩ := hc
          exact ⟨x, hfIn_persist k a v c x hx⟩)
        a hlen')
    (fun a b c hc v hv => by
      obtain ⟨x, hx⟩ := hc v hv
      exact ⟨x, hfOut_persist g k a b v x hx⟩)
    (d, []) hlen u hu
  exact key v ha

/-! ## The search -/

/-- Before level `k`. -/
structure FInv (g : Graph) (S : List Nat) (k : Nat) (front : List Nat) (d : Array (Option Nat)) : Prop where
  h : HInv g S k d.toList
  le : ∀ v x, lk d.toList v = some x → x ≤ k
  fs : ∀ u ∈ front, lk d.toList u = some k
  fc : ∀ u, lk d.toList u = some k → u ∈ front

theorem fInv_round {g : Graph} (hwf : g.WF) {S : List Nat} {k : Nat} {front : List Nat} {d : Array (Option Nat)}
    (h : FInv g S k front d) : FInv g S (k+1) (hfRound g k front d).2 (hfRound g k front d).1 := by
  have hsz : d.size = g.n := by simpa using h.h.len
  have hri := fri_round (g := g) (k := k) hsz h.fs
  have hm := hri.m
  have hsound : ∀ v x, lk (hfRound g k front d).1.toList v = some x → IsHopDist g S v x := by
    intro v x hx
    rcases hm.new v x hx with hold | ⟨hnone, rfl, u, hu, ha⟩
    · exact h.h.sound v x hold
    · refine hop_succ_of_arc (h.h.sound u k hu) ha ?_
      intro j hj hd
      rw [h.h.compl v j hj hd] at hnone; cases hnone
  refine ⟨⟨hm.len, hsound, ?_⟩, ?_, ?_, ?_⟩
  · intro v x hx hd
    rcases Nat.lt_or_ge x (k+1) with hlt | hge
    · exact hm.old v x (h.h.compl v x (by omega) hd)
    · have : x = k + 1 := by omega
      subst this
      obtain ⟨u, hu, ha⟩ := hop_pred hd
      obtain ⟨y, hy⟩ := fround_covers hwf k hsz (h.fc u (h.h.compl u k (Nat.le_refl _) hu)) ha
      rw [hy, hop_unique (hsound v y hy) hd]
  · intro v x hx
    rcases hm.new v x hx with hold | ⟨_, rfl, _⟩
    · have := h.le v x hold; omega
    · exact Nat.le_refl _
  · intro u hu
    exact ((hri.fr u).mp hu).2
  · intro u hu
    refine (hri.fr u).mpr ⟨?_, hu⟩
    rcases hm.new u (k+1) hu with hold | ⟨hn, _⟩
    · have := h.le u (k+1) hold; omega
    · exact hn

/-- A vertex at hop distance `x` has vertices at every smaller hop distance before it. -/
theorem hop_down {g : Graph} {S : List Nat} : ∀ (x : Nat) (v : Nat), IsHopDist g S v x →
    ∀ j, j ≤ x → ∃ u, IsHopDist g S u j := by
  intro x
  induction x with
  | zero =>
    intro v h j hj
    have : j = 0 := by omega
    subst this
    exact ⟨v, h⟩
  | succ x ih =>
    intro v h j hj
    rcases Nat.lt_or_ge j (x+1) with hlt | hge
    · obtain ⟨u, hu, _⟩ := hop_pred h
      exact ih u hu j (by omega)
    · have : j = x + 1 := by omega
      subst this; exact ⟨v, h⟩

/-- The result: labels are hop distances and every hop distance is recorded. -/
structure FDone (g : Graph) (S : List Nat) (d : List (Option Nat)) : Prop where
  len : d.length = g.n
  sound : ∀ v x, lk d v = some x → IsHopDist g S v x
  compl : ∀ v x, IsHopDist g S v x → lk d v = some x

theorem hfGo_spec {g : Graph} (hwf : g.WF) {S : List Nat} (hS : ∀ s ∈ S, s < g.n) :
    ∀ (fuel k : Nat) (front : List Nat) (d : Array (Option Nat)), g.n ≤ k + fuel → FInv g S k front d →
      FDone g S (hfGo g fuel k front d).toList := by
  intro fuel
  induction fuel with
  | zero =>
    intro k front d hk h
    rw [hfGo]
    exact ⟨h.h.len, h.h.sound, fun v x hd => h.h.compl v x (by have := hop_bound hwf hS hd; omega) hd⟩
  | succ f ih =>
    intro k front d hk h
    rw [hfGo]
    by_cases he : front.isEmpty = true
    · rw [if_pos he]
      refine ⟨h.h.len, h.h.sound, fun v x hd => ?_⟩
      rcases Nat.lt_or_ge x k with hlt | hge
      · exact h.h.compl v x (by omega) hd
      · obtain ⟨u, hu⟩ := hop_down x v hd k hge
        have := h.fc u (h.h.compl u k (Nat.le_refl _) hu)
        rw [List.isEmpty_iff.mp he] at this; cases this
    · rw [if_neg he]
      exact ih (k+1) _ _ (by omega) (fInv_round hwf h)

theorem hfInit_toList (g : Graph) (S : List Nat) : (hfInit g.n S).toList = hInit g S := by
  unfold hfInit hInit
  have := foldl_inv (fun p : Array (Option Nat) × List (Option Nat) => p.1.toList = p.2)
    (fun p s => (p.1.setIfInBounds s (some 0), p.2.set s (some 0))) S
    (fun a b _ h => by simp [h]) (Array.replicate g.n none, List.replicate g.n none) (by simp)
  have e1 : ∀ (l : List Nat) (p : Array (Option Nat) × List (Option Nat)),
      (l.foldl (fun p s => (p.1.setIfInBounds s (some 0), p.2.set s (some 0))) p) =
      (l.foldl (fun d s => d.setIfInBounds s (some 0)) p.1, l.foldl (fun d s => d.set s (some 0)) p.2) := by
    intro l
    induction l with
    | nil => intro p; rfl
    | cons s rest ih => intro p; rw [List.foldl_cons, ih]; rfl
  rw [e1] at this
  exact this

theorem fInv_init (g : Graph) {S : List Nat} (hS : ∀ s ∈ S, s < g.n) : FInv g S 0 S (hfInit g.n S) := by
  have hlk : ∀ v, lk (hfInit g.n S).toList v = if v ∈ S ∧ v < g.n then some 0 else none := by
    intro v
    rw [hfInit_toList]
    unfold hInit
    rw [lk_init 0 g.n v S _ (by simp), lk_replicate]
  refine ⟨by rw [hfInit_toList]; exact hInv_init g hS, ?_, ?_, ?_⟩
  · intro v x hx
    rw [hlk] at hx
    by_cases hv : v ∈ S ∧ v < g.n
    · rw [if_pos hv] at hx; cases hx; exact Nat.le_refl _
    · rw [if_neg hv] at hx; cases hx
  · intro u hu
    rw [hlk, if_pos ⟨hu, hS u hu⟩]
  · intro u hu
    rw [hlk] at hu
    by_cases hv : u ∈ S ∧ u < g.n
    · exact hv.1
    · rw [if_neg hv] at hu; cases hu

theorem hopDistFastA_done {g : Graph} (hwf : g.WF) {S : List Nat} (hS : ∀ s ∈ S, s < g.n) :
    FDone g S (hopDistFastA g S) :=
  hfGo_spec hwf hS (g.n + 1) 0 S _ (by omega) (fInv_init g hS)

/-- Lists of the same length with the same lookups are equal. -/
theorem ext_lk {α : Type} {n : Nat} {d d' : List (Option α)} (h : d.length = n) (h' : d'.length = n)
    (hlk : ∀ v, lk d v = lk d' v) : d = d' := by
  apply List.ext_getElem?
  intro v
  have := hlk v
  unfold lk at this
  by_cases hv : v < n
  · have h1 : v < d.length := by omega
    have h2 : v < d'.length := by omega
    rw [List.getElem?_eq_getElem h1, List.getElem?_eq_getElem h2] at this ⊢
    simpa using this
  · rw [List.getElem?_eq_none (by omega), List.getElem?_eq_none (by omega)]

/-- **`hopDistFastA` returns the list `hopDistB` returns.** -/
theorem hopDistFastA_eq {g : Graph} (hwf : g.WF) {S : List Nat} (hS : ∀ s ∈ S, s < g.n) :
    hopDistFastA g S = hopDistB g S := by
  have hf := hopDistFastA_done hwf hS
  refine ext_lk hf.len (hopDistB_length hwf hS) (fun v => ?_)
  cases hx : lk (hopDistFastA g S) v with
  | some x => exact ((hopDistB_spec hwf hS v x).mpr (hf.sound v x hx)).symm
  | none =>
    cases hy : lk (hopDistB g S) v with
    | none => rfl
    | some y =>
      rw [hf.compl v y ((hopDistB_spec hwf hS v y).mp hy)] at hx; cases hx

/-! ## `reachFast` is the hop search under `Option.isSome` -/

/-- A hop-search state seen as a reachability-search state. -/
def toR (a : Array (Option Nat) × List Nat) : Array Bool × List Nat := (a.1.map Option.isSome, a.2)

theorem rfIn_sim (k : Nat) (a : Array (Option Nat) × List Nat) (v : Nat) : toR (hfIn k a v) = rfIn (toR a) v := by
  unfold hfIn rfIn toR
  simp only [Array.getElem?_map]
  cases h : a.1[v]? with
  | none => rfl
  | some o =>
    cases o with
    | none => simp
    | some x => rfl

theorem rfRound_sim (g : Graph) (k : Nat) (front : List Nat) (d : Array (Option Nat)) :
    toR (hfRound g k front d) = rfRound g front (d.map Option.isSome) := by
  unfold hfRound rfRound
  have inner : ∀ (l : List Nat) (a : Array (Option Nat) × List Nat),
      toR (l.foldl (hfIn k) a) = l.foldl rfIn (toR a) := by
    intro l
    induction l with
    | nil => intro a; rfl
    | cons v rest ih => intro a; rw [List.foldl_cons, List.foldl_cons, ih, rfIn_sim]
  have outer : ∀ (l : List Nat) (a : Array (Option Nat) × List Nat),
      toR (l.foldl (hfOut g k) a) = l.foldl (fun acc u => (g.out u).foldl rfIn acc) (toR a) := by
    intro l
    induction l with
    | nil => intro a; rfl
    | cons u rest ih => intro a; rw [List.foldl_cons, List.foldl_cons, ih]; unfold hfOut; rw [inner]
  exact outer front (d, [])

theorem rfGo_sim (g : Graph) : ∀ (fuel k : Nat) (front : List Nat) (d : Array (Option Nat)),
    (hfGo g fuel k front d).map Option.isSome = rfGo g fuel front (d.map Option.isSome) := by
  intro fuel
  induction fuel with
  | zero => intro k front d; rfl
  | succ f ih =>
    intro k front d
    rw [hfGo, rfGo]
    by_cases he : front.isEmpty = true
    · rw [if_pos he, if_pos he]
    · rw [if_neg he, if_neg he]
      simp only []
      rw [ih, ← rfRound_sim g k front d]
      rfl

theorem rfInit_eq (n : Nat) (S : List Nat) : rfInit n S = (hfInit n S).map Option.isSome := by
  unfold rfInit hfInit
  have e : ∀ (l : List Nat) (a : Array (Option Nat)),
      l.foldl (fun d s => d.setIfInBounds s true) (a.map Option.isSome) =
      (l.foldl (fun d s => d.setIfInBounds s (some 0)) a).map Option.isSome := by
    intro l
    induction l with
    | nil => intro a; rfl
    | cons s rest ih =>
      intro a
      rw [List.foldl_cons, List.foldl_cons, ← ih]
      congr 1
      apply Array.ext
      · simp
      · intro i h1 h2
        simp
  rw [← e]
  simp

/-- `reachFast` is the `isSome` image of `hopDistFastA` (every digraph, every source list). -/
theorem reachFast_eq_hop (g : Graph) (S : List Nat) : reachFast g S = (hopDistFastA g S).map Option.isSome := by
  unfold reachFast hopDistFastA
  rw [rfInit_eq, ← rfGo_sim g (g.n + 1) 0 S]
  simp

/-- **`reachFast` returns the list `reachSetB` returns.** -/
theorem reachFast_eq {g : Graph} (hwf : g.WF) {S : List Nat} (hS : ∀ s ∈ S, s < g.n) :
    reachFast g S = reachSetB g S := by
  rw [reachFast_eq_hop, hopDistFastA_eq hwf hS, reach_eq_hop_isSome hwf hS]

end GraafVerif.OracleFastProof
