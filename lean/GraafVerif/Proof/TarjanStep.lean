import GraafVerif.Proof.TarjanInv
/-!
# Preservation of the Tarjan invariants by the individual steps of `connect`
(`enter`, the low-link updates, the loop body, `finish`).
-/
namespace GraafVerif.Tarjan
open GraafVerif

/-! ## `enter` -/

theorem enter_index (u : Nat) (s : St) (x : Nat) :
    mget (enter u s).index x = if x = u then some s.i else mget s.index x := mget_mset _ _ _ _

theorem enter_low (u : Nat) (s : St) (x : Nat) :
    mget (enter u s).low x = if x = u then some s.i else mget s.low x := mget_mset _ _ _ _

theorem enter_indexed (u : Nat) (s : St) (x : Nat) : (enter u s).indexed x ↔ (x = u ∨ s.indexed x) := by
  unfold St.indexed
  rw [enter_index]
  by_cases h : x = u <;> simp [h]

theorem enter_idx (u : Nat) (s : St) (x : Nat) : (enter u s).idx x = if x = u then s.i else s.idx x := by
  unfold St.idx
  rw [enter_index]
  by_cases h : x = u <;> simp [h]

theorem enter_lw_self (u : Nat) (s : St) : (enter u s).lw u = s.i := by
  unfold St.lw
  rw [enter_low]; simp

@[simp] theorem enter_stack (u : Nat) (s : St) : (enter u s).stack = u :: s.stack := rfl
@[simp] theorem enter_onStack (u : Nat) (s : St) : (enter u s).onStack = u :: s.onStack := rfl
@[simp] theorem enter_comps (u : Nat) (s : St) : (enter u s).comps = s.comps := rfl
@[simp] theorem enter_fault (u : Nat) (s : St) : (enter u s).fault = s.fault := rfl
@[simp] theorem enter_i (u : Nat) (s : St) : (enter u s).i = s.i + 1 := rfl

theorem Pre.not_stack {g : VGraph} {gray : List Nat} {u : Nat} {s : St} (p : Pre g gray u s) :
    u ∉ s.stack := fun h => p.fresh (p.inv.stack_indexed h)

theorem enter_inv {g : VGraph} {gray : List Nat} {u : Nat} {s : St} (p : Pre g gray u s) :
    Inv g (u :: gray) (enter u s) := by
  have inv := p.inv
  have hfresh := p.fresh
  -- indices of old vertices are unchanged
  have hidx : ∀ x, s.indexed x → (enter u s).idx x = s.idx x := by
    intro x hx
    rw [enter_idx]
    have : x ≠ u := fun h => hfresh (h ▸ hx)
    simp [this]
  have hidxu : (enter u s).idx u = s.i := by rw [enter_idx]; simp
  constructor
  · exact inv.nofault
  · intro x; simp only [enter_onStack, enter_stack, List.mem_cons, inv.onStack x]
  · intro x
    rw [enter_indexed, inv.indexedIff x]
    simp only [enter_stack, enter_comps, List.mem_cons]
    grind
  · intro c hc x hx
    simp only [enter_stack, List.mem_cons, not_or]
    refine ⟨?_, inv.compStack c hc x hx⟩
    intro h
    exact hfresh (h ▸ (inv.indexedIff x).mpr (Or.inr ⟨c, hc, hx⟩))
  · exact inv.compDisj
  · exact inv.compAsc
  · intro x hx
    rcases (enter_indexed u s x).mp hx with rfl | hx
    · exact p.vert
    · exact inv.verts x hx
  · intro x hx
    rw [enter_low]
    by_cases h : x = u
    · simp [h]
    · simp only [h, if_false]
      rcases (enter_indexed u s x).mp hx with rfl | hx
      · exact absurd rfl h
      · exact inv.lowDef x hx
  · intro x hx
    simp only [enter_i]
    rcases (enter_indexed u s x).mp hx with rfl | hx
    · rw [hidxu]; omega
    · rw [hidx x hx]; have := inv.idxLt x hx; omega
  · simp only [enter_stack]
    refine List.pairwise_cons.mpr ⟨?_, ?_⟩
    · intro b hb
      have hbi := inv.stack_indexed hb
      rw [hidxu, hidx b hbi]
      exact inv.idxLt b hbi
    · refine List.Pairwise.imp_of_mem ?_ inv.sorted
      intro a b ha hb hab
      rw [hidx a (inv.stack_indexed ha), hidx b (inv.stack_indexed hb)]
      exact hab
  · intro z hz
    simp only [enter_stack, List.mem_cons]
    rcases List.mem_cons.mp hz with rfl | hz
    · exact Or.inl rfl
    · exact Or.inr (inv.grayStack z hz)
  · intro x hx hxg y hy
    simp only [List.mem_cons, not_or] at hxg
    rcases (enter_indexed u s x).mp hx with rfl | hx
    · exact absurd rfl hxg.1
    · exact (enter_indexed u s y).mpr (Or.inr (inv.blackOut x hx hxg.2 y hy))
  · intro z hz y hy hle
    simp only [enter_stack, List.mem_cons] at hy
    rcases List.mem_cons.mp hz with hzu | hzg
    · -- z = u: only y = u has an index ≥ s.i
      subst hzu
      rcases hy with hyu | hy
      · subst hyu; exact Reach.refl _
      · have hyi := inv.stack_indexed hy
        rw [hidxu, hidx y hyi] at hle
        have := inv.idxLt y hyi
        omega
    · rcases hy with hyu | hy
      · subst hyu; exact p.reach z hzg
      · have hzi := inv.stack_indexed (inv.grayStack z hzg)
        have hyi := inv.stack_indexed hy
        rw [hidx z hzi, hidx y hyi] at hle
        exact inv.grayReach z hzg y hy hle
  · intro y hy
    simp only [enter_stack, List.mem_cons] at hy
    rcases hy with rfl | hy
    · exact ⟨y, List.mem_cons_self, Nat.le_refl _, Reach.refl _⟩
    · obtain ⟨z, hz, hle, hr⟩ := inv.toGray y hy
      refine ⟨z, List.mem_cons_of_mem _ hz, ?_, hr⟩
      rw [hidx z (inv.stack_indexed (inv.grayStack z hz)), hidx y (inv.stack_indexed hy)]
      exact hle
  · exact inv.sccs

theorem enter_ext {g : VGraph} {gray : List Nat} {u : Nat} {s : St} (p : Pre g gray u s) :
    Ext s (enter u s) := by
  have hne : ∀ x, s.indexed x → x ≠ u := fun x hx h => p.fresh (h ▸ hx)
  refine ⟨⟨[u], rfl⟩, ⟨[], by simp⟩, ?_, ?_, ?_, by simp⟩
  · intro x hx; rw [enter_index]; simp [hne x hx]
  · intro x hx; rw [enter_low]; simp [hne x hx]
  · intro x hn hx
    rcases (enter_indexed u s x).mp hx with rfl | hx
    · rw [enter_idx]; simp
    · exact absurd hx hn

/-! ## Updating a low-link leaves the invariant alone -/

/-- Two states that differ only in `low` (and the new one defines at least as many low-links). -/
theorem Inv.of_low {g : VGraph} {gray : List Nat} {s s' : St} (inv : Inv g gray s)
    (hi : s'.i = s.i) (hst : s'.stack = s.stack) (hon : s'.onStack = s.onStack)
    (hix : s'.index = s.index) (hc : s'.comps = s.comps) (hf : s'.fault = s.fault)
    (hl : ∀ x, mget s.low x ≠ none → mget s'.low x ≠ none) : Inv g gray s' := by
  have hidx : ∀ x, s'.idx x = s.idx x := fun x => by unfold St.idx; rw [hix]
  have hind : ∀ x, s'.indexed x ↔ s.indexed x := fun x => by unfold St.indexed; rw [hix]
  constructor
  · rw [hf]; exact inv.nofault
  · intro x; rw [hon, hst]; exact inv.onStack x
  · intro x; rw [hind, hst, hc]; exact inv.indexedIff x
  · rw [hc, hst]; exact inv.compStack
  · rw [hc]; exact inv.compDisj
  · rw [hc]; exact inv.compAsc
  · intro x hx; exact inv.verts x ((hind x).mp hx)
  · intro x hx; exact hl x (inv.lowDef x ((hind x).mp hx))
  · intro x hx; rw [hidx, hi]; exact inv.idxLt x ((hind x).mp hx)
  · rw [hst]; simp only [hidx]; exact inv.sorted
  · rw [hst]; exact inv.grayStack
  · intro x hx hg y hy; exact (hind y).mpr (inv.blackOut x ((hind x).mp hx) hg y hy)
  · rw [hst]; simp only [hidx]; exact inv.grayReach
  · rw [hst]; simp only [hidx]; exact inv.toGray
  · rw [hc]; exact inv.sccs

/-! ## The loop invariant -/

theorem loop_init {g : VGraph} {gray : List Nat} {u : Nat} {s0 : St} (p : Pre g gray u s0) :
    Loop g gray u s0 (enter u s0) [] := by
  have hidxu : (enter u s0).idx u = s0.i := by rw [enter_idx]; simp
  refine ⟨enter_inv p, enter_ext p, ⟨[], rfl⟩, by rw [enter_index]; simp, by simp, ?_, ?_, by simp, ?_⟩
  · rw [enter_lw_self]; exact Nat.le_refl _
  · exact ⟨u, by simp, by rw [hidxu, enter_lw_self], Reach.refl _⟩
  · intro x hx hn hne
    simp only [enter_stack, List.mem_cons] at hx
    rcases hx with h | h
    · exact absurd h hne
    · exact absurd h hn

/-- An out-neighbour that is indexed but no longer on the stack changes nothing. -/
theorem Loop.addDone {g : VGraph} {gray : List Nat} {u : Nat} {s0 s : St} {done : List Nat}
    (L : Loop g gray u s0 s done) (v : Nat) (hv : s.indexed v) (hns : v ∉ s.stack) :
    Loop g gray u s0 s (done ++ [v]) := by
  refine ⟨L.inv, L.ext, L.stack, L.idxU, ?_, L.lowLe, L.lowWit, ?_, L.lowX⟩
  · intro x hx
    rcases List.mem_append.mp hx with hx | hx
    · exact L.doneIdx x hx
    · simp at hx; subst hx; exact hv
  · intro x hx hxs
    rcases List.mem_append.mp hx with hx | hx
    · exact L.lowDone x hx hxs
    · simp at hx; subst hx; exact absurd hxs hns

/-- The general shape of one loop iteration: from `s` to an extension `s'` (a nested call, or
`s' = s`), then `low_link[u] := k`. -/
theorem Loop.update {g : VGraph} {gray : List Nat} {u : Nat} {s0 s : St} {done : List Nat}
    (L : Loop g gray u s0 s done) (hfresh : ¬ s0.indexed u) (s' : St) (v k : Nat)
    (inv' : Inv g (u :: gray) s') (e : Ext s s')
    (hk : k ≤ s.lw u)
    (hwit : ∃ y ∈ s'.stack, s'.idx y = k ∧ VReach g u y)
    (hv : s'.indexed v) (hvk : v ∈ s'.stack → k ≤ s'.idx v)
    (hx : ∀ x ∈ s'.stack, x ∉ s.stack → ∀ y ∈ g.out x, y ∈ s0.stack → k ≤ s'.idx y) :
    Loop g gray u s0 { s' with low := mset s'.low u k } (done ++ [v]) := by
  have inv'' : Inv g (u :: gray) { s' with low := mset s'.low u k } := by
    refine Inv.of_low inv' rfl rfl rfl rfl rfl rfl ?_
    intro x hx
    show mget (mset s'.low u k) x ≠ none
    rw [mget_mset]
    by_cases h : x = u <;> simp [h]; exact hx
  have hidx : ∀ x, St.idx { s' with low := mset s'.low u k } x = s'.idx x := fun _ => rfl
  have hind : ∀ x, St.indexed { s' with low := mset s'.low u k } x ↔ s'.indexed x := fun _ => Iff.rfl
  have hlw : St.lw { s' with low := mset s'.low u k } u = k := by
    show (mget (mset s'.low u k) u).getD 0 = k
    rw [mget_mset]; simp
  have hus : s.indexed u := St.indexed_of_some L.idxU
  obtain ⟨ext, hext⟩ := L.stack
  obtain ⟨ext', hext'⟩ := e.stack
  obtain ⟨new', hnew'⟩ := e.comps
  have hs0s : ∀ y, y ∈ s0.stack → y ∈ s.stack := by
    intro y hy; rw [hext]; simp [hy]
  have hss' : ∀ y, y ∈ s.stack → y ∈ s'.stack := by
    intro y hy; rw [hext']; simp [hy]
  refine ⟨inv'', ?_, ⟨ext' ++ ext, ?_⟩, ?_, ?_, ?_, ?_, ?_, ?_⟩
  · -- Ext s0 s''
    have e0 := L.ext.trans e
    refine ⟨e0.stack, e0.comps, e0.index, ?_, e0.newIdx, e0.i⟩
    intro x hx
    have hne : x ≠ u := fun h => hfresh (h ▸ hx)
    show mget (mset s'.low u k) x = mget s0.low x
    rw [mget_mset]
    simp only [hne, if_false]
    exact e0.low x hx
  · show s'.stack = ext' ++ ext ++ u :: s0.stack
    rw [hext', hext, List.append_assoc]
  · show mget s'.index u = some s0.i
    rw [e.index u hus]; exact L.idxU
  · intro x hx
    rw [hind]
    rcases List.mem_append.mp hx with hx | hx
    · exact e.indexed (L.doneIdx x hx)
    · simp at hx; subst hx; exact hv
  · rw [hlw]; exact Nat.le_trans hk L.lowLe
  · rw [hlw]; exact hwit
  · intro x hx hxs
    rw [hlw, hidx]
    change x ∈ s'.stack at hxs
    rcases List.mem_append.mp hx with hx | hx
    · have hxi := L.doneIdx x hx
      by_cases hxs0 : x ∈ s.stack
      · rw [e.idx hxi]; exact Nat.le_trans hk (L.lowDone x hx hxs0)
      · -- indexed in `s` but not on its stack: in a finished component, hence never on a stack again
        exfalso
        rcases (L.inv.indexedIff x).mp hxi with h | ⟨c, hc, hxc⟩
        · exact hxs0 h
        · exact inv'.compStack c (by rw [hnew']; exact List.mem_append_left _ hc) x hxc hxs
    · simp at hx; subst hx; exact hvk hxs
  · intro x hxs hx0 hxu y hy hy0
    rw [hlw, hidx]
    change x ∈ s'.stack at hxs
    by_cases hxs0 : x ∈ s.stack
    · have := L.lowX x hxs0 hx0 hxu y hy hy0
      rw [e.idx (L.inv.stack_indexed (hs0s y hy0))]
      exact Nat.le_trans hk this
    · exact hx x hxs hxs0 y hy hy0

theorem mget_low_eq {g : VGraph} {gray : List Nat} {s : St} (inv : Inv g gray s) {x : Nat}
    (hx : s.indexed x) : mget s.low x = some (s.lw x) := by
  have := inv.lowDef x hx
  unfold St.lw
  cases h : mget s.low x with
  | none => exact absurd h this
  | some l => rfl

/-- One iteration of the `for v in out_neighbors(u)` loop keeps the loop invariant. -/
theorem loop_step {g : VGraph} {gray : List Nat} {u : Nat} {s0 s : St} {done : List Nat}
    (L : Loop g gray u s0 s done) (p0 : Pre g gray u s0) (v : Nat) (hv : v ∈ g.out u)
    (hvv : v ∈ g.verts) (rec : Nat → St → St)
    (hrec : ∀ t, Pre g (u :: gray) v t → unindexed g t < unindexed g s0 →
      Post g (u :: gray) v t (rec v t)) :
    Loop g gray u s0 (visit rec u s v) (done ++ [v]) := by
  have hfresh := p0.fresh
  have hus : s.indexed u := St.indexed_of_some L.idxU
  have hlu := mget_low_eq L.inv hus
  have huv : VReach g u v := Reach.step (Reach.refl u) hv
  have hf : s.fault.isSome = false := by simp [L.inv.nofault]
  unfold visit
  simp only [hf, Bool.false_eq_true, if_false]
  cases hidx : mget s.index v with
  | some w =>
    have hvi : s.indexed v := St.indexed_of_some hidx
    have hw : s.idx v = w := St.idx_of_some hidx
    simp only
    by_cases hon : s.onStack.contains v = true
    · simp only [hon, if_true, hlu]
      have hvs : v ∈ s.stack := (L.inv.onStack v).mp (by simpa using hon)
      refine L.update hfresh s v (min (s.lw u) w) L.inv (Ext.refl s) (Nat.min_le_left _ _) ?_ hvi ?_ ?_
      · by_cases hlt : w < s.lw u
        · refine ⟨v, hvs, ?_, huv⟩
          rw [hw]; omega
        · obtain ⟨y, hy, hyi, hyr⟩ := L.lowWit
          refine ⟨y, hy, ?_, hyr⟩
          rw [hyi]; omega
      · intro _; rw [hw]; exact Nat.min_le_right _ _
      · intro x hx hnx; exact absurd hx hnx
    · simp only [hon]
      have hvs : v ∉ s.stack := fun h => hon (by simpa using (L.inv.onStack v).mpr h)
      exact L.addDone v hvi hvs
  | none =>
    simp only
    have hvn : ¬ s.indexed v := by simp [St.indexed, hidx]
    have pre : Pre g (u :: gray) v s := by
      refine ⟨L.inv, hvv, hvn, ?_⟩
      intro z hz
      rcases List.mem_cons.mp hz with h | h
      · subst h; exact huv
      · exact vreach_trans (p0.reach z h) huv
    have hlt : unindexed g s < unindexed g s0 := L.ext.unindexed_lt g u p0.vert hfresh hus
    have P := hrec s pre hlt
    have hus' : (rec v s).indexed u := P.ext.indexed hus
    have hvs' : (rec v s).indexed v := St.indexed_of_some P.idxV
    have hidxv' : (rec v s).idx v = s.i := St.idx_of_some P.idxV
    have hf' : (rec v s).fault.isSome = false := by simp [P.inv.nofault]
    simp only [hf', Bool.false_eq_true, if_false, mget_low_eq P.inv hus', mget_low_eq P.inv hvs']
    have hlwu : (rec v s).lw u = s.lw u := P.ext.lw hus
    have hs0i : s0.i < s.i := by
      have := L.inv.idxLt u hus
      rw [St.idx_of_some L.idxU] at this
      exact this
    obtain ⟨ext', hext'⟩ := P.ext.stack
    refine L.update hfresh (rec v s) v (min ((rec v s).lw u) ((rec v s).lw v)) P.inv P.ext ?_ ?_ hvs' ?_ ?_
    · rw [hlwu]; exact Nat.min_le_left _ _
    · by_cases hlt2 : (rec v s).lw v < s.lw u
      · rcases P.alt with ⟨_, _, h3⟩ | ⟨_, y, hy, hyi, hyr⟩
        · have := L.lowLe; omega
        · refine ⟨y, hy, ?_, vreach_trans huv hyr⟩
          rw [hyi, hlwu]; omega
      · obtain ⟨y, hy, hyi, hyr⟩ := L.lowWit
        refine ⟨y, by rw [hext']; simp [hy], ?_, hyr⟩
        rw [P.ext.idx (L.inv.stack_indexed hy), hyi, hlwu]; omega
    · intro _
      rw [hidxv']
      exact Nat.le_trans (Nat.min_le_right _ _) P.lowLe
    · intro x hx hnx y hy hy0
      have hys : y ∈ s.stack := by
        obtain ⟨ext, hext⟩ := L.stack
        rw [hext]; simp [hy0]
      exact Nat.le_trans (Nat.min_le_right _ _) (P.lowX x hx hnx y hy hys)

/-- The whole loop. -/
theorem loop_all {g : VGraph} {gray : List Nat} {u : Nat} {s0 : St} (p0 : Pre g gray u s0)
    (rec : Nat → St → St)
    (hrec : ∀ v t, v ∈ g.out u → Pre g (u :: gray) v t → unindexed g t < unindexed g s0 →
      Post g (u :: gray) v t (rec v t))
    (hclosed : ∀ v ∈ g.out u, v ∈ g.verts) :
    ∀ (l : List Nat) (done : List Nat) (s : St), (∀ v ∈ l, v ∈ g.out u) →
      Loop g gray u s0 s done → Loop g gray u s0 (l.foldl (visit rec u) s) (done ++ l) := by
  intro l
  induction l with
  | nil => intro done s _ L; simpa using L
  | cons v l ih =>
    intro done s hl L
    have hv := hl v List.mem_cons_self
    have L' := loop_step L p0 v hv (hclosed v hv) rec (fun t => hrec v t hv)
    have := ih (done ++ [v]) _ (fun w hw => hl w (List.mem_cons_of_mem _ hw)) L'
    simpa [List.append_assoc] using this

/-! ## `finish` -/

/-- `u` is not the root of its component: nothing is popped, `u` turns from gray to black. -/
theorem nonroot_post {g : VGraph} {gray : List Nat} {u : Nat} {s0 s : St} (p0 : Pre g gray u s0)
    (L : Loop g gray u s0 s (g.out u)) (hlt : s.lw u < s0.i) : Post g gray u s0 s := by
  have inv := L.inv
  have hidxu : s.idx u = s0.i := St.idx_of_some L.idxU
  have hus : u ∈ s.stack := inv.grayStack u List.mem_cons_self
  have inv' : Inv g gray s := by
    refine ⟨inv.nofault, inv.onStack, inv.indexedIff, inv.compStack, inv.compDisj, inv.compAsc, inv.verts,
      inv.lowDef, inv.idxLt, inv.sorted, ?_, ?_, ?_, ?_, inv.sccs⟩
    · intro z hz; exact inv.grayStack z (List.mem_cons_of_mem _ hz)
    · intro x hx hxg y hy
      by_cases hxu : x = u
      · subst hxu; exact L.doneIdx y hy
      · exact inv.blackOut x hx (by simp [hxu, hxg]) y hy
    · intro z hz y hy hle; exact inv.grayReach z (List.mem_cons_of_mem _ hz) y hy hle
    · intro y hy
      obtain ⟨z, hz, hle, hr⟩ := inv.toGray y hy
      rcases List.mem_cons.mp hz with hzu | hzg
      · subst hzu
        obtain ⟨y', hy', hyi', hyr'⟩ := L.lowWit
        obtain ⟨z', hz', hle', hr'⟩ := inv.toGray y' hy'
        rcases List.mem_cons.mp hz' with hzu' | hzg'
        · subst hzu'; omega
        · exact ⟨z', hzg', by omega, vreach_trans hr (vreach_trans hyr' hr')⟩
      · exact ⟨z, hzg, hle, hr⟩
  refine ⟨inv', L.ext, L.idxU, L.lowLe, Or.inr ⟨hus, L.lowWit⟩, ?_⟩
  intro x hx hx0 y hy hy0
  have hys : y ∈ s.stack := by
    obtain ⟨ext, hext⟩ := L.stack
    rw [hext]; simp [hy0]
  by_cases hxu : x = u
  · subst hxu; exact L.lowDone y hy hys
  · exact L.lowX x hx hx0 hxu y hy hy0

/-- `u` is the root of its component: everything above and including `u` is popped and forms a
strongly connected component. -/
theorem root_post {g : VGraph} {gray : List Nat} {u : Nat} {s0 s : St} (p0 : Pre g gray u s0)
    (L : Loop g gray u s0 s (g.out u)) (hroot : s.lw u = s0.i)
    (ext : List Nat) (hext : s.stack = ext ++ u :: s0.stack) (on' C : List Nat)
    (hon : ∀ x, x ∈ on' ↔ (x ∈ s.onStack ∧ x ∉ ext ∧ x ≠ u))
    (hC : ∀ x, x ∈ C ↔ (x ∈ ext ∨ x = u)) (hCs : C.Pairwise (· < ·)) :
    Post g gray u s0 { s with stack := s0.stack, onStack := on', comps := s.comps ++ [C] } := by
  have inv := L.inv
  have inv0 := p0.inv
  have hidxu : s.idx u = s0.i := St.idx_of_some L.idxU
  obtain ⟨h1, h2, h3, h4⟩ := sorted_split (idx := s.idx) (by rw [← hext]; exact inv.sorted)
  have hu_ext : u ∉ ext := fun h => Nat.lt_irrefl _ (h1 u h)
  have hu_s0 : u ∉ s0.stack := p0.not_stack
  have hdisj : ∀ x, x ∈ ext → x ∉ s0.stack := fun x hx hx0 => Nat.lt_irrefl _ (h3 x hx x hx0)
  have hmem : ∀ x, x ∈ s.stack ↔ (x ∈ ext ∨ x = u ∨ x ∈ s0.stack) := by
    intro x; rw [hext]; simp
  have hCst : ∀ x, x ∈ C → x ∈ s.stack := by
    intro x hx; rw [hmem]; rcases (hC x).mp hx with h | h
    · exact Or.inl h
    · exact Or.inr (Or.inl h)
  have hC0 : ∀ x, x ∈ C → x ∉ s0.stack := by
    intro x hx; rcases (hC x).mp hx with h | h
    · exact hdisj x h
    · rw [h]; exact hu_s0
  have huC : u ∈ C := (hC u).mpr (Or.inr rfl)
  have hus : u ∈ s.stack := hCst u huC
  have hgray_ext : ∀ m, m ∈ ext → m ∉ u :: gray := by
    intro m hm hg
    rcases List.mem_cons.mp hg with h | h
    · exact hu_ext (h ▸ hm)
    · exact hdisj m hm (inv0.grayStack m h)
  -- the popped vertices form a strongly connected component
  have hscc : IsSCC g C := by
    have hfrom : ∀ y, y ∈ C → VReach g u y := by
      intro y hy
      refine inv.grayReach u List.mem_cons_self y (hCst y hy) ?_
      rcases (hC y).mp hy with h | h
      · exact Nat.le_of_lt (h1 y h)
      · rw [h]; exact Nat.le_refl _
    have hto : ∀ y, y ∈ C → VReach g y u := by
      intro y hy
      obtain ⟨z, hz, _, hr⟩ := inv.toGray y (hCst y hy)
      refine vreach_trans hr (inv.grayReach z hz u hus ?_)
      rcases List.mem_cons.mp hz with h | h
      · rw [h]; exact Nat.le_refl _
      · exact Nat.le_of_lt (h2 z (inv0.grayStack z h))
    have hmax : ∀ b, VReach g u b → VReach g b u → b ∈ C := by
      intro b hub
      induction hub with
      | refl => intro _; exact huC
      | @step m b hum hmb ih =>
        intro hbu
        have hmb' : b ∈ g.out m := hmb
        have hmu : VReach g m u := vreach_trans (Reach.step (Reach.refl m) hmb) hbu
        have hm := ih hmu
        have hbi : s.indexed b := by
          rcases (hC m).mp hm with h | h
          · exact inv.blackOut m (inv.stack_indexed (hCst m hm)) (hgray_ext m h) b hmb'
          · subst h; exact L.doneIdx b hmb'
        rcases (inv.indexedIff b).mp hbi with hbs | ⟨c, hc, hbc⟩
        · rcases (hmem b).mp hbs with h | h | h
          · exact (hC b).mpr (Or.inl h)
          · exact (hC b).mpr (Or.inr h)
          · exfalso
            have hlt := h2 b h
            have hle : s.lw u ≤ s.idx b := by
              rcases (hC m).mp hm with hm' | hm'
              · exact L.lowX m (hCst m hm) (hdisj m hm') (fun e => hu_ext (e ▸ hm')) b hmb' h
              · subst hm'; exact L.lowDone b hmb' hbs
            omega
        · exfalso
          have huc : u ∈ c := (inv.sccs c hc).2 b hbc u hbu (Reach.step hum hmb)
          exact inv.compStack c hc u huc hus
    refine ⟨fun x hx y hy => vreach_trans (hto x hx) (hfrom y hy), ?_⟩
    intro x hx y hxy hyx
    exact hmax y (vreach_trans (hfrom x hx) hxy) (vreach_trans hyx (hto x hx))
  have inv' : Inv g gray { s with stack := s0.stack, onStack := on', comps := s.comps ++ [C] } := by
    constructor
    · exact inv.nofault
    · intro x
      show x ∈ on' ↔ x ∈ s0.stack
      rw [hon x, inv.onStack x, hmem x]
      constructor
      · rintro ⟨h | h | h, hne, hnu⟩
        · exact absurd h hne
        · exact absurd h hnu
        · exact h
      · intro h
        exact ⟨Or.inr (Or.inr h), fun he => hdisj x he h, fun e => hu_s0 (e ▸ h)⟩
    · intro x
      show s.indexed x ↔ (x ∈ s0.stack ∨ ∃ c ∈ s.comps ++ [C], x ∈ c)
      rw [inv.indexedIff x, hmem x]
      constructor
      · rintro ((h | h | h) | ⟨c, hc, hxc⟩)
        · exact Or.inr ⟨C, by simp, (hC x).mpr (Or.inl h)⟩
        · exact Or.inr ⟨C, by simp, (hC x).mpr (Or.inr h)⟩
        · exact Or.inl h
        · exact Or.inr ⟨c, List.mem_append_left _ hc, hxc⟩
      · rintro (h | ⟨c, hc, hxc⟩)
        · exact Or.inl (Or.inr (Or.inr h))
        · rcases List.mem_append.mp hc with hc | hc
          · exact Or.inr ⟨c, hc, hxc⟩
          · simp at hc; subst hc
            rcases (hC x).mp hxc with h | h
            · exact Or.inl (Or.inl h)
            · exact Or.inl (Or.inr (Or.inl h))
    · intro c hc x hxc
      show x ∉ s0.stack
      change c ∈ s.comps ++ [C] at hc
      rcases List.mem_append.mp hc with hc | hc
      · intro h; exact inv.compStack c hc x hxc ((hmem x).mpr (Or.inr (Or.inr h)))
      · simp at hc; subst hc; exact hC0 x hxc
    · show (s.comps ++ [C]).Pairwise _
      refine List.pairwise_append.mpr ⟨inv.compDisj, List.pairwise_singleton _ _, ?_⟩
      intro c hc d hd x hxc hxd
      simp at hd; subst hd
      exact inv.compStack c hc x hxc (hCst x hxd)
    · intro c hc
      change c ∈ s.comps ++ [C] at hc
      rcases List.mem_append.mp hc with hc | hc
      · exact inv.compAsc c hc
      · simp at hc; subst hc
        exact ⟨hCs, fun h => by rw [h] at huC; simp at huC⟩
    · exact inv.verts
    · exact inv.lowDef
    · exact inv.idxLt
    · exact h4
    · exact inv0.grayStack
    · intro x hx hxg y hy
      by_cases hxu : x = u
      · subst hxu; exact L.doneIdx y hy
      · exact inv.blackOut x hx (by simp [hxu, hxg]) y hy
    · intro z hz y hy hle
      exact inv.grayReach z (List.mem_cons_of_mem _ hz) y ((hmem y).mpr (Or.inr (Or.inr hy))) hle
    · intro y hy
      obtain ⟨z, hz, hle, hr⟩ := inv.toGray y ((hmem y).mpr (Or.inr (Or.inr hy)))
      rcases List.mem_cons.mp hz with hzu | hzg
      · subst hzu
        have := h2 y hy
        exact absurd hle (by omega)
      · exact ⟨z, hzg, hle, hr⟩
    · intro c hc
      change c ∈ s.comps ++ [C] at hc
      rcases List.mem_append.mp hc with hc | hc
      · exact inv.sccs c hc
      · simp at hc; subst hc; exact hscc
  have e := L.ext
  obtain ⟨new, hnew⟩ := e.comps
  refine ⟨inv', ⟨⟨[], rfl⟩, ⟨new ++ [C], ?_⟩, e.index, e.low, e.newIdx, e.i⟩, L.idxU, ?_, Or.inl ⟨hu_s0, rfl, hroot⟩, ?_⟩
  · show s.comps ++ [C] = s0.comps ++ (new ++ [C])
    rw [hnew, List.append_assoc]
  · show s.lw u ≤ s0.i
    omega
  · intro x hx hnx; exact absurd hx hnx

theorem finish_post {g : VGraph} {gray : List Nat} {u : Nat} {s0 s : St} (p0 : Pre g gray u s0)
    (L : Loop g gray u s0 s (g.out u)) : Post g gray u s0 (finish u s) := by
  have hus : s.indexed u := St.indexed_of_some L.idxU
  have hlu := mget_low_eq L.inv hus
  have hf : s.fault.isSome = false := by simp [L.inv.nofault]
  unfold finish
  simp only [hf, Bool.false_eq_true, if_false, L.idxU, hlu, Option.some.injEq]
  by_cases hroot : s0.i = s.lw u
  · simp only [hroot, if_true]
    obtain ⟨ext, hext⟩ := L.stack
    obtain ⟨h1, _, _, _⟩ := sorted_split (idx := s.idx) (by rw [← hext]; exact L.inv.sorted)
    have hu_ext : u ∉ ext := fun h => Nat.lt_irrefl _ (h1 u h)
    have hp := popTo_spec u s0.stack ext s.onStack [] hu_ext
    rw [← hext] at hp
    obtain ⟨hp1, hp2, hp3, hp4⟩ := hp
    have := root_post p0 L hroot.symm ext hext (popTo u s.stack s.onStack []).2.1
      (popTo u s.stack s.onStack []).2.2 hp2 (by intro x; rw [hp3 x]; simp) (hp4 List.Pairwise.nil)
    rw [hp1]
    exact this
  · simp only [hroot, if_false]
    exact nonroot_post p0 L (by have := L.lowLe; omega)

end GraafVerif.Tarjan
