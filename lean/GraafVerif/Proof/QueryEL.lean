import GraafVerif.Proof.Query
import GraafVerif.Spec.QueryAbs
/-!
# C02 — `EdgeList` (ordered arc set): every core query equals its definition (P1)
-/
namespace GraafVerif.Query
open GraafVerif.Repr

namespace EL

theorem mem_iff (d : EdgeList) (u v : Nat) : d.hasArc u v = true ↔ (u, v) ∈ d.arcs := by
  simp [EdgeList.hasArc]

theorem abs_valid {d : EdgeList} (h : d.WF) : (abs d).Valid where
  sorted := by simp [abs, EdgeList.vertices]; exact List.pairwise_lt_range
  closed := by
    intro u v huv
    have := h.2.2 (u, v) ((mem_iff d u v).1 huv)
    simp [abs, EdgeList.vertices, this.1, this.2.1]
  irrefl := by
    intro u
    cases hc : (abs d).adj u u
    · rfl
    · have := h.2.2 (u, u) ((mem_iff d u u).1 hc)
      exact absurd rfl this.2.2
  wt_iff := by
    intro u v
    simp only [abs, unitWt]
    cases d.hasArc u v <;> simp

/-- the heads of the arcs leaving `u`, in the order of the arc set: ascending -/
theorem row_sorted {d : EdgeList} (h : d.WF) (u : Nat) :
    (d.arcs.filterMap (fun a => if a.1 == u then some a.2 else none)).Pairwise (· < ·) := by
  apply List.Pairwise.filterMap _ _ h.2.1
  intro a a' hlt b hb b' hb'
  by_cases h1 : (a.1 == u) = true
  · by_cases h2 : (a'.1 == u) = true
    · rw [if_pos h1] at hb; rw [if_pos h2] at hb'
      cases hb; cases hb'
      simp only [beq_iff_eq] at h1 h2
      simp only [pairLt, Bool.or_eq_true, decide_eq_true_eq, Bool.and_eq_true, beq_iff_eq] at hlt
      rcases hlt with hlt | hlt
      · omega
      · exact hlt.2
    · rw [if_neg h2] at hb'; cases hb'
  · rw [if_neg h1] at hb; cases hb

/-- the tails of the arcs entering `v`, in the order of the arc set: ascending -/
theorem col_sorted {d : EdgeList} (h : d.WF) (v : Nat) :
    (d.arcs.filterMap (fun a => if v == a.2 then some a.1 else none)).Pairwise (· < ·) := by
  apply List.Pairwise.filterMap _ _ h.2.1
  intro a a' hlt b hb b' hb'
  by_cases h1 : (v == a.2) = true
  · by_cases h2 : (v == a'.2) = true
    · rw [if_pos h1] at hb; rw [if_pos h2] at hb'
      cases hb; cases hb'
      simp only [beq_iff_eq] at h1 h2
      simp only [pairLt, Bool.or_eq_true, decide_eq_true_eq, Bool.and_eq_true, beq_iff_eq] at hlt
      rcases hlt with hlt | hlt
      · exact hlt
      · omega
    · rw [if_neg h2] at hb'; cases hb'
  · rw [if_neg h1] at hb; cases hb

theorem outNeighbors_spec {d : EdgeList} (h : d.WF) (u : Nat) :
    d.arcs.filterMap (fun a => if a.1 == u then some a.2 else none) = Spec.outNeighbors (abs d) u := by
  apply sorted_ext (row_sorted h u) ((abs_valid h).sorted.filter _)
  intro x
  simp only [List.mem_filterMap, Spec.outNeighbors, List.mem_filter]
  constructor
  · rintro ⟨a, ha, hx⟩
    by_cases h1 : a.1 = u
    · simp [h1] at hx
      have hm : (u, x) ∈ d.arcs := by rw [← h1, ← hx]; exact ha
      exact ⟨((abs_valid h).closed u x ((mem_iff d u x).2 hm)).2, (mem_iff d u x).2 hm⟩
    · simp [h1] at hx
  · rintro ⟨_, hx⟩
    exact ⟨(u, x), (mem_iff d u x).1 hx, by simp⟩

theorem inNeighbors_spec {d : EdgeList} (h : d.WF) (v : Nat) :
    d.arcs.filterMap (fun a => if v == a.2 then some a.1 else none) = Spec.inNeighbors (abs d) v := by
  apply sorted_ext (col_sorted h v) ((abs_valid h).sorted.filter _)
  intro x
  simp only [List.mem_filterMap, Spec.inNeighbors, List.mem_filter]
  constructor
  · rintro ⟨a, ha, hx⟩
    by_cases h1 : v = a.2
    · simp [h1] at hx
      have hm : (x, v) ∈ d.arcs := by rw [h1, ← hx]; exact ha
      exact ⟨((abs_valid h).closed x v ((mem_iff d x v).2 hm)).1, (mem_iff d x v).2 hm⟩
    · simp [h1] at hx
  · rintro ⟨_, hx⟩
    exact ⟨(x, v), (mem_iff d x v).1 hx, by simp⟩

theorem length_filterMap_ite {α β : Type} (l : List α) (p : α → Bool) (f : α → β) :
    (l.filterMap (fun a => if p a then some (f a) else none)).length = (l.filter p).length := by
  induction l with
  | nil => rfl
  | cons a l ih =>
    simp only [List.filterMap_cons, List.filter_cons]
    cases p a <;> simp [ih]

theorem all_ne_eq_filter_zero {α : Type} (l : List α) (p : α → Bool) :
    l.all (fun a => !p a) = ((l.filter p).length == 0) := (filter_length_eq_zero p l).symm

/-- every arc is counted at its tail: `Σ_u |{arcs leaving u}| = |arcs|` -/
theorem sum_rows_eq_length (l : List (Nat × Nat)) (n : Nat) (hb : ∀ a ∈ l, a.1 < n) :
    ((List.range n).map (fun u => (l.filter (fun a => a.1 == u)).length)).sum = l.length := by
  induction l with
  | nil =>
    simp only [List.filter_nil, List.length_nil]
    induction n with
    | zero => rfl
    | succ m ihm => rw [List.range_succ, List.map_append, List.sum_append, ihm (by simp)]; rfl
  | cons a l ih =>
    have ih := ih (fun x hx => hb x (by simp [hx]))
    have ha := hb a (by simp)
    have : (List.range n).map (fun u => ((a :: l).filter (fun a => a.1 == u)).length)
        = (List.range n).map (fun u => (if a.1 == u then 1 else 0) + (l.filter (fun a => a.1 == u)).length) := by
      apply List.map_congr_left
      intro u _
      simp only [List.filter_cons]
      cases a.1 == u <;> simp <;> omega
    rw [this]
    have hsum : ∀ (m : Nat) (f : Nat → Nat),
        ((List.range m).map (fun u => (if a.1 == u then 1 else 0) + f u)).sum
          = (if a.1 < m then 1 else 0) + ((List.range m).map f).sum := by
      intro m f
      induction m with
      | zero => simp
      | succ m ihm =>
        rw [List.range_succ, List.map_append, List.sum_append, ihm, List.map_append, List.sum_append]
        simp only [List.map_cons, List.map_nil, List.sum_cons, List.sum_nil]
        by_cases h1 : a.1 = m
        · have : ¬ a.1 < m := by omega
          simp [h1]
          omega
        · have hb : (a.1 == m) = false := by simp [h1]
          by_cases h2 : a.1 < m
          · have : a.1 < m + 1 := by omega
            simp [hb, h2, this]; omega
          · have : ¬ a.1 < m + 1 := by omega
            simp [hb, h2, this]
    rw [hsum, ih]
    simp [ha]; omega

theorem size_spec {d : EdgeList} (h : d.WF) : d.size = Spec.size (abs d) := by
  simp only [Spec.size, Spec.arcs, List.length_flatMap, List.length_map, ← outNeighbors_spec h, length_filterMap_ite]
  simp only [abs, EdgeList.vertices, EdgeList.size]
  exact (sum_rows_eq_length d.arcs d.order (fun a ha => (h.2.2 a ha).1)).symm

theorem core_correct {d : EdgeList} (h : d.WF) : CoreCorrect (core d) (abs d) where
  order := by simp [core, Spec.order, abs, EdgeList.vertices]
  vertices := rfl
  arcs_mem := fun u v => (mem_iff d u v).symm
  size := size_spec h
  hasArc := fun _ _ => rfl
  hasEdge := fun _ _ => rfl
  hasWalk := fun w => hasWalkZip_eq (abs d) d.hasArc (fun _ _ => rfl) w
  outNeighbors := by
    intro u hu
    have hu : u < d.order := by simpa [abs, EdgeList.vertices] using hu
    simp only [core, outNeighbors, hu, if_true, outNeighbors_spec h]
  inNeighbors := inNeighbors_spec h
  indegree := by
    intro v hv
    have hv : v < d.order := by simpa [abs, EdgeList.vertices] using hv
    simp only [core, indegree, hv, if_true, Spec.indegree, ← inNeighbors_spec h, length_filterMap_ite]
  isSource := by
    intro v
    simp only [core, isSource, Spec.isSource, Spec.indegree, ← inNeighbors_spec h, length_filterMap_ite]
    rw [filter_length_eq_zero]
    apply List.all_congr rfl
    intro a
    cases hc : (v == a.2)
    · have : a.2 ≠ v := fun e => by simp [e] at hc
      simp [this]
    · have : a.2 = v := (beq_iff_eq.1 hc).symm
      simp [this]
  outdegree := by
    intro u hu
    have hu : u < d.order := by simpa [abs, EdgeList.vertices] using hu
    simp only [core, outdegree, hu, if_true, Spec.outdegree, ← outNeighbors_spec h, length_filterMap_ite]
    congr 2
    apply List.filter_congr
    intro a _
    cases hc : (a.1 == u)
    · have : u ≠ a.1 := fun e => by simp [e] at hc
      simp [this]
    · have : u = a.1 := (beq_iff_eq.1 hc).symm
      simp [this]
  isSink := by
    intro u hu
    have hu : u < d.order := by simpa [abs, EdgeList.vertices] using hu
    simp only [core, isSink, hu, if_true, Spec.isSink, Spec.outdegree, ← outNeighbors_spec h, length_filterMap_ite]
    rw [filter_length_eq_zero]
    congr 1

theorem seq_correct {d : EdgeList} (h : d.WF) : SeqCorrect (core d) (abs d) where
  indegreeSequence := indegreeSequenceDefault_correct (abs d) _ (core_correct h).indegree
  degreeSequence := fun _ _ => degreeSequenceDefault_correct (abs d) _ _ (core_correct h).indegree (core_correct h).outdegree

theorem panics_outside {d : EdgeList} {u : Nat} (hu : ¬ u < d.order) :
    (core d).outNeighbors u = none ∧ (core d).indegree u = none ∧ (core d).outdegree u = none ∧ (core d).isSink u = none := by
  simp [core, outNeighbors, indegree, outdegree, isSink, hu]

theorem perase_of_not_mem {x : Nat × Nat} : ∀ {l : List (Nat × Nat)}, x ∉ l → perase x l = l
  | [], _ => rfl
  | y :: ys, h => by
    have hy : x ≠ y := fun e => h (by simp [e])
    have ih : perase x ys = ys := perase_of_not_mem (fun hm => h (by simp [hm]))
    simp only [perase, hy, if_false, ih]
    split <;> rfl

theorem removeArc_absent (d : EdgeList) {u v : Nat} (h : d.hasArc u v = false) : d.removeArc u v = (d, false) := by
  unfold EdgeList.removeArc
  have hm : (u, v) ∉ d.arcs := fun hm => by rw [(mem_iff d u v).2 hm] at h; exact absurd h (by simp)
  have hc : d.arcs.contains (u, v) = false := h
  rw [perase_of_not_mem hm, hc]

end EL
end GraafVerif.Query
