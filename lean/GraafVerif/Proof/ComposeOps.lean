import GraafVerif.Proof.ComposeGen
import GraafVerif.Proof.ComposeHist
import GraafVerif.Thm.C11
/-!
# Compose — "the view IS the digraph `(n, P)`", and the C11 operations under the traversals

`ViewIs g vg n P`: the positional view `g` and the vertex-id view `vg` of some representation
value are the digraph with vertex set `0..n` and arc relation `P` (rows strictly ascending).
Everything the algorithm theorems need follows from it (`ViewIs.traversals`, `.tarjan`,
`.johnson`), and two values with `ViewIs` for equivalent relations have EQUAL views
(`ViewIs.unique`).  It is the common currency for results of operations (C11), constructors
(C16 `From<rows>` / `From<arcs>`) and random generators (C15).

Then, per representation and operation: the result of `complement` / `converse` / `union` is
well-formed and `ViewIs` the set definition of the operation applied to the operand's arc
relation `(u, v) ∈ arcs()`; relational corollaries (`rreach_converse`, SCCs invariant under
converse, uniqueness of the SCC partition as a set of blocks).
-/
namespace GraafVerif.Compose
open GraafVerif GraafVerif.Repr GraafVerif.Query GraafVerif.Ops

/-! ## `ViewIs` -/

structure ViewIs (g : Graph) (vg : Tarjan.VGraph) (n : Nat) (P : Rel) : Prop where
  order : g.n = n
  wf : g.WF
  arc_iff : ∀ u v, g.A u v ↔ P u v
  asc : ∀ u, (g.out u).Pairwise (· < ·)
  irrefl : ∀ u, ¬ P u u
  vverts : vg.verts = List.range n
  vout : vg.out = g.out

theorem ViewIs.of_viewSpec {g : Graph} {n : Nat} {arcs : List (Nat × Nat)} {o : Nat → Option (List Nat)}
    (vs : ViewSpec g n arcs o) {P : Rel} (hP : ∀ u v, (u, v) ∈ arcs ↔ P u v)
    {vg : Tarjan.VGraph} (hv : vg.verts = List.range n) (ho : vg.out = g.out) : ViewIs g vg n P :=
  ⟨vs.order, vs.wf, fun u v => (vs.arc_iff u v).trans (hP u v), vs.asc,
   fun u h => vs.irrefl u ((vs.arc_iff u u).2 ((hP u u).2 h)), hv, ho⟩

/-- the relation may be replaced by an equivalent one -/
theorem ViewIs.congr {g : Graph} {vg : Tarjan.VGraph} {n : Nat} {P Q : Rel} (h : ViewIs g vg n P)
    (hPQ : ∀ u v, P u v ↔ Q u v) : ViewIs g vg n Q :=
  ⟨h.order, h.wf, fun u v => (h.arc_iff u v).trans (hPQ u v), h.asc,
   fun u hq => h.irrefl u ((hPQ u u).2 hq), h.vverts, h.vout⟩

theorem ViewIs.arcs_lt {g : Graph} {vg : Tarjan.VGraph} {n : Nat} {P : Rel} (h : ViewIs g vg n P)
    {u v : Nat} (hp : P u v) : u < n ∧ v < n := by
  have := h.wf u v ((h.arc_iff u v).2 hp)
  rw [h.order] at this; exact this

/-- C04, C05 (BFS half), C06 w.r.t. `P`. -/
theorem ViewIs.traversals {g : Graph} {vg : Tarjan.VGraph} {n : Nat} {P : Rel} (h : ViewIs g vg n P)
    (S : List Nat) (hS : ∀ s ∈ S, s < n) (hnd : S.Nodup) : TraversalsHold P n S g := by
  have hn := h.order
  rw [← hn] at hS ⊢
  exact traversalsHold_of h.arc_iff h.wf hS hnd

/-- C10 w.r.t. `P`. -/
theorem ViewIs.johnson {g : Graph} {vg : Tarjan.VGraph} {n : Nat} {P : Rel} (h : ViewIs g vg n P) :
    JohnsonHolds P g :=
  johnsonHolds_of h.arc_iff h.wf (fun u hu => h.irrefl u ((h.arc_iff u u).1 hu))
    (fun u => Query.nodup_of_sorted (h.asc u))

theorem ViewIs.closed {g : Graph} {vg : Tarjan.VGraph} {n : Nat} {P : Rel} (h : ViewIs g vg n P) :
    vg.Closed := by
  intro u _ v hv
  rw [h.vverts]
  rw [h.vout] at hv
  have := (h.wf u v hv).2
  rw [h.order] at this
  simpa using this

/-- C09 w.r.t. the vertex set `0..n` and `P`. -/
theorem ViewIs.tarjan {g : Graph} {vg : Tarjan.VGraph} {n : Nat} {P : Rel} (h : ViewIs g vg n P) :
    TarjanHolds (List.range n) P vg := by
  have := tarjanHolds_of (g := vg) (A := P) (fun u v => by rw [h.vout]; exact h.arc_iff u v) h.closed
  rw [h.vverts] at this
  exact this

/-- Equal order and equivalent relations ⇒ EQUAL views. -/
theorem ViewIs.unique {g₁ g₂ : Graph} {vg₁ vg₂ : Tarjan.VGraph} {n : Nat} {P Q : Rel}
    (h₁ : ViewIs g₁ vg₁ n P) (h₂ : ViewIs g₂ vg₂ n Q) (hPQ : ∀ u v, P u v ↔ Q u v) :
    g₁ = g₂ ∧ vg₁ = vg₂ := by
  have hg : g₁ = g₂ := by
    cases g₁ with | mk n₁ o₁ =>
    cases g₂ with | mk n₂ o₂ =>
    have hn : n₁ = n₂ := h₁.order.trans h₂.order.symm
    have ho : o₁ = o₂ := by
      funext u
      apply Query.sorted_ext (h₁.asc u) (h₂.asc u)
      intro v
      exact (h₁.arc_iff u v).trans ((hPQ u v).trans (h₂.arc_iff u v).symm)
    rw [hn, ho]
  refine ⟨hg, ?_⟩
  cases vg₁ with | mk v₁ o₁ =>
  cases vg₂ with | mk v₂ o₂ =>
  have e1 : v₁ = v₂ := h₁.vverts.trans h₂.vverts.symm
  have e2 : o₁ = o₂ := by
    have a : o₁ = g₁.out := h₁.vout
    have b : o₂ = g₂.out := h₂.vout
    rw [a, b, hg]
  rw [e1, e2]

/-- Every call of `components()` on the same `Tarjan` object. -/
theorem ViewIs.tarjanEveryCall {g : Graph} {vg : Tarjan.VGraph} {n : Nat} {P : Rel} (h : ViewIs g vg n P) :
    TarjanEveryCallHolds (List.range n) P vg := by
  have := tarjanEveryCallHolds_of (g := vg) (A := P) (fun u v => by rw [h.vout]; exact h.arc_iff u v) h.closed
  rw [h.vverts] at this
  exact this

/-- Every one of `k` calls of `circuits()` on the same `Johnson75` object. -/
theorem ViewIs.johnsonRepeat {g : Graph} {vg : Tarjan.VGraph} {n : Nat} {P : Rel} (h : ViewIs g vg n P) :
    JohnsonRepeatHolds P g :=
  johnsonRepeatHolds_of h.arc_iff h.wf (fun u hu => h.irrefl u ((h.arc_iff u u).1 hu))
    (fun u => Query.nodup_of_sorted (h.asc u))

/-- Everything the algorithm theorems say of a view that IS the digraph `(n, P)`. -/
structure AlgorithmsHold (g : Graph) (vg : Tarjan.VGraph) (n : Nat) (P : Rel) : Prop where
  traversals : ∀ S : List Nat, (∀ s ∈ S, s < n) → S.Nodup → TraversalsHold P n S g
  tarjan : TarjanHolds (List.range n) P vg
  tarjanEveryCall : TarjanEveryCallHolds (List.range n) P vg
  johnson : JohnsonHolds P g
  johnsonRepeat : JohnsonRepeatHolds P g

theorem ViewIs.algorithms {g : Graph} {vg : Tarjan.VGraph} {n : Nat} {P : Rel} (h : ViewIs g vg n P) :
    AlgorithmsHold g vg n P :=
  ⟨fun S hS hnd => h.traversals S hS hnd, h.tarjan, h.tarjanEveryCall, h.johnson, h.johnsonRepeat⟩

/-! ## Every representation value `ViewIs` its own arc relation -/

theorem AdjList.viewIs (d : AdjList) (h : d.WF) : ViewIs d.view d.vview d.order d.Arc :=
  ViewIs.of_viewSpec (d.view_spec h) (fun _ _ => Iff.rfl) rfl rfl
theorem AdjMatrix.viewIs (d : AdjMatrix) (h : d.WF) : ViewIs d.view d.vview d.order d.Arc :=
  ViewIs.of_viewSpec (d.view_spec h) (fun _ _ => Iff.rfl) rfl rfl
theorem EdgeList.viewIs (d : EdgeList) (h : d.WF) : ViewIs d.view d.vview d.order d.Arc :=
  ViewIs.of_viewSpec (d.view_spec h) (fun _ _ => Iff.rfl) rfl rfl
theorem AdjListW.viewIs (d : AdjListW) (h : d.WF) : ViewIs d.view d.vview d.order d.Arc :=
  ViewIs.of_viewSpec (d.view_spec h) (fun _ _ => Iff.rfl) rfl rfl
theorem AdjMap.viewIs (d : AdjMap) (h : d.WF) (hc : Gen.AM.Contiguous d) : ViewIs d.view d.vview d.order d.Arc :=
  ViewIs.of_viewSpec (d.view_spec h hc) (fun _ _ => Iff.rfl) hc rfl

/-! ## `arcs()` vs `has_arc` (C11's abstraction reads `has_arc`) -/

theorem AdjList.arc_iff_hasArc (d : AdjList) (u v : Nat) : d.Arc u v ↔ d.hasArc u v = true := by
  rw [d.arc_iff_abs u v]; simp [AdjList.abs, ReprSpec.SpecState.A]
theorem AdjMap.arc_iff_hasArc (d : AdjMap) (h : d.WF) (u v : Nat) : d.Arc u v ↔ d.hasArc u v = true := by
  rw [d.arc_iff_abs h u v]; simp [AdjMap.abs, ReprSpec.SpecState.A]
theorem AdjMatrix.arc_iff_hasArc (d : AdjMatrix) (h : d.WF) (u v : Nat) : d.Arc u v ↔ d.hasArc u v = true := by
  rw [d.arc_iff_abs h u v]; simp [AdjMatrix.abs, ReprSpec.SpecState.A]
theorem EdgeList.arc_iff_hasArc (d : EdgeList) (u v : Nat) : d.Arc u v ↔ d.hasArc u v = true := by
  rw [d.arc_iff_abs u v]; simp [EdgeList.abs, ReprSpec.SpecState.A]

/-- two orders with the same "`< order`" predicate are equal -/
theorem order_eq_of_lt_iff {a b : Nat} (h : ∀ v, v < a ↔ v < b) : a = b := by
  have x := (h b).1
  have y := (h a).2
  omega

/-! ## A well-formed value whose C11 abstraction is `(0..n, P)` `ViewIs (n, P)` -/

theorem AL.viewIs_of_abs (r : AdjList) (h : r.WF) (n : Nat) (P : Rel)
    (hV : ∀ v, (absAL r).V v ↔ v < n) (hA : ∀ u v, (absAL r).A u v ↔ P u v) :
    r.order = n ∧ ViewIs r.view r.vview n P := by
  have ho : r.order = n := order_eq_of_lt_iff (fun v => by rw [← hV v]; simp [absAL, AdjList.vertices])
  refine ⟨ho, ?_⟩
  have := (AdjList.viewIs r h).congr (Q := P) (fun u v => (AdjList.arc_iff_hasArc r u v).trans (hA u v))
  rw [ho] at this; exact this

theorem MX.viewIs_of_abs (r : AdjMatrix) (h : r.WF) (n : Nat) (P : Rel)
    (hV : ∀ v, (absMX r).V v ↔ v < n) (hA : ∀ u v, (absMX r).A u v ↔ P u v) :
    r.order = n ∧ ViewIs r.view r.vview n P := by
  have ho : r.order = n := order_eq_of_lt_iff (fun v => by rw [← hV v]; simp [absMX, AdjMatrix.vertices])
  refine ⟨ho, ?_⟩
  have := (AdjMatrix.viewIs r h).congr (Q := P) (fun u v => (AdjMatrix.arc_iff_hasArc r h u v).trans (hA u v))
  rw [ho] at this; exact this

theorem EL.viewIs_of_abs (r : EdgeList) (h : r.WF) (n : Nat) (P : Rel)
    (hV : ∀ v, (absEL r).V v ↔ v < n) (hA : ∀ u v, (absEL r).A u v ↔ P u v) :
    r.order = n ∧ ViewIs r.view r.vview n P := by
  have ho : r.order = n := order_eq_of_lt_iff (fun v => by rw [← hV v]; simp [absEL, EdgeList.vertices])
  refine ⟨ho, ?_⟩
  have := (EdgeList.viewIs r h).congr (Q := P) (fun u v => (EdgeList.arc_iff_hasArc r u v).trans (hA u v))
  rw [ho] at this; exact this

/-- A well-formed map whose key set is `0..k` is contiguous of order `k`. -/
theorem AdjMap.contiguous_of_vertices (d : AdjMap) (h : d.WF) (k : Nat) (hV : ∀ x, x ∈ d.vertices ↔ x < k) :
    Gen.AM.Contiguous d ∧ d.order = k :=
  AdjMap.contiguous_of_V d h k (fun x => by rw [← (AdjMap.vertices_spec d h).2.2 x]; exact hV x)

theorem AM.viewIs_of_abs (r : AdjMap) (h : r.WF) (n : Nat) (P : Rel)
    (hV : ∀ v, (absAM r).V v ↔ v < n) (hA : ∀ u v, (absAM r).A u v ↔ P u v) :
    r.order = n ∧ Gen.AM.Contiguous r ∧ ViewIs r.view r.vview n P := by
  obtain ⟨hc, ho⟩ := AdjMap.contiguous_of_vertices r h n hV
  refine ⟨ho, hc, ?_⟩
  have := (AdjMap.viewIs r h hc).congr (Q := P) (fun u v => (AdjMap.arc_iff_hasArc r h u v).trans (hA u v))
  rw [ho] at this; exact this

/-! ## The set definitions of the operations over bare relations -/

/-- complement on the vertex set `0..n` -/
def complRel (n : Nat) (A : Rel) : Rel := fun u v => u < n ∧ v < n ∧ u ≠ v ∧ ¬ A u v
/-- converse -/
def convRel (A : Rel) : Rel := fun u v => A v u
/-- union -/
def unionRel (A B : Rel) : Rel := fun u v => A u v ∨ B u v
/-- induced subdigraph -/
def filterRel (p : Nat → Bool) (A : Rel) : Rel := fun u v => A u v ∧ p u = true ∧ p v = true

/-- Reachability in the converse is reachability backwards. -/
theorem rreach_converse (A : Rel) (u v : Nat) : RReach (convRel A) u v ↔ RReach A v u := by
  have key : ∀ (B : Rel) (a b : Nat), RReach B a b → RReach (convRel B) b a := by
    intro B a b h
    induction h with
    | refl => exact .refl _
    | step _ ha ih => exact RReach.trans (.step (.refl _) ha) ih
  exact ⟨fun h => key (convRel A) u v h, fun h => key A v u h⟩

/-- Strongly connected components are invariant under converse. -/
theorem sccPartition_converse (verts : List Nat) (A : Rel) (cs : List (List Nat)) :
    RIsSCCPartition verts (convRel A) cs ↔ RIsSCCPartition verts A cs := by
  constructor
  · intro h
    refine ⟨h.nonempty, h.disjoint, h.nodup, h.cover, fun u hu v hv => ?_⟩
    rw [h.scc u hu v hv, rreach_converse, rreach_converse]
    exact And.comm
  · intro h
    refine ⟨h.nonempty, h.disjoint, h.nodup, h.cover, fun u hu v hv => ?_⟩
    rw [h.scc u hu v hv, rreach_converse, rreach_converse]
    exact And.comm

theorem pairwise_mem_cases {α : Type} {R : α → α → Prop} {l : List α} (h : l.Pairwise R) {a b : α}
    (ha : a ∈ l) (hb : b ∈ l) : a = b ∨ R a b ∨ R b a := by
  induction l with
  | nil => cases ha
  | cons x xs ih =>
    rw [List.pairwise_cons] at h
    rcases List.mem_cons.1 ha with rfl | ha'
    · rcases List.mem_cons.1 hb with rfl | hb'
      · exact Or.inl rfl
      · exact Or.inr (Or.inl (h.1 b hb'))
    · rcases List.mem_cons.1 hb with rfl | hb'
      · exact Or.inr (Or.inr (h.1 a ha'))
      · exact ih h.2 ha' hb'

/-- The partition into strongly connected components is unique as a set of blocks: two
partitions of the same vertex set for the same relation, with ascending blocks, contain the same
blocks (only the emission order may differ). -/
theorem sccPartition_blocks_unique {verts : List Nat} {A : Rel} {cs₁ cs₂ : List (List Nat)}
    (h₁ : RIsSCCPartition verts A cs₁) (h₂ : RIsSCCPartition verts A cs₂)
    (a₁ : ∀ c ∈ cs₁, c.Pairwise (· < ·)) (a₂ : ∀ c ∈ cs₂, c.Pairwise (· < ·)) :
    ∀ c, c ∈ cs₁ ↔ c ∈ cs₂ := by
  have key : ∀ {cs cs' : List (List Nat)}, RIsSCCPartition verts A cs → RIsSCCPartition verts A cs' →
      (∀ c ∈ cs, c.Pairwise (· < ·)) → (∀ c ∈ cs', c.Pairwise (· < ·)) → ∀ c, c ∈ cs → c ∈ cs' := by
    intro cs cs' h h' a a' c hc
    obtain ⟨x, hx⟩ := List.exists_mem_of_ne_nil c (h.nonempty c hc)
    have hxv : x ∈ verts := (h.cover x).2 ⟨c, hc, hx⟩
    obtain ⟨c', hc', hx'⟩ := (h'.cover x).1 hxv
    have same : ∀ {ds : List (List Nat)}, RIsSCCPartition verts A ds → ∀ d ∈ ds, x ∈ d →
        ∀ y, y ∈ d ↔ (y ∈ verts ∧ RReach A x y ∧ RReach A y x) := by
      intro ds hd d hdm hxd y
      constructor
      · intro hy
        have hyv : y ∈ verts := (hd.cover y).2 ⟨d, hdm, hy⟩
        exact ⟨hyv, (hd.scc x hxv y hyv).1 ⟨d, hdm, hxd, hy⟩⟩
      · rintro ⟨hyv, hr⟩
        obtain ⟨d', hd', hxd', hyd'⟩ := (hd.scc x hxv y hyv).2 hr
        rcases pairwise_mem_cases hd.disjoint hdm hd' with e | e | e
        · rw [e]; exact hyd'
        · exact absurd hxd' (e x hxd)
        · exact absurd hxd (e x hxd')
    have : c = c' := by
      apply Query.sorted_ext (a c hc) (a' c' hc')
      intro y
      rw [same h c hc hx y, same h' c' hc' hx' y]
    rw [this]; exact hc'
  intro c
  exact ⟨key h₁ h₂ a₁ a₂ c, key h₂ h₁ a₂ a₁ c⟩

/-- Two `TarjanHolds` for the same vertex set and relation return the same set of blocks. -/
theorem tarjan_same_blocks {verts : List Nat} {A : Rel} {g₁ g₂ : Tarjan.VGraph}
    (h₁ : TarjanHolds verts A g₁) (h₂ : TarjanHolds verts A g₂) :
    ∃ cs₁ cs₂, Tarjan.components g₁ = .ret cs₁ ∧ Tarjan.components g₂ = .ret cs₂ ∧ ∀ c, c ∈ cs₁ ↔ c ∈ cs₂ := by
  obtain ⟨cs₁, e₁, p₁, a₁⟩ := h₁
  obtain ⟨cs₂, e₂, p₂, a₂⟩ := h₂
  exact ⟨cs₁, cs₂, e₁, e₂, sccPartition_blocks_unique p₁ p₂ a₁ a₂⟩

/-- `TarjanHolds` for the converse relation is `TarjanHolds` for the relation. -/
theorem tarjanHolds_converse {verts : List Nat} {A : Rel} {g : Tarjan.VGraph}
    (h : TarjanHolds verts (convRel A) g) : TarjanHolds verts A g := by
  obtain ⟨cs, e, p, a⟩ := h
  exact ⟨cs, e, (sccPartition_converse verts A cs).1 p, a⟩

end GraafVerif.Compose
