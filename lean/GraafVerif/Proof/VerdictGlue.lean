import GraafVerif.Driver.Common
/-!
# The verdict of a case line (`Driver.classify`) says what it should

`OK` is printed exactly when the handler's spec-level oracle found nothing wrong with the
IMPLEMENTATION's output and that output equals the model's; `PROPFAIL` exactly when the oracle
objected (it wins over a model disagreement, so a real violation is reported as such); everything
else is `MISMATCH`.  Part of the correspondence glue (see `Thm/Glue.lean`).
-/
namespace GraafVerif.Driver

theorem classify_ok_iff (obs mdl : List V) (pf : Option String) (nt : Bool) (tags : List String) :
    (classify obs mdl pf nt tags).status = "OK" ↔ pf = none ∧ (obs == mdl) = true := by
  unfold classify
  cases pf with
  | some w => simp
  | none => by_cases h : (obs == mdl) = true <;> simp [h]

theorem classify_propfail_iff (obs mdl : List V) (pf : Option String) (nt : Bool) (tags : List String) :
    (classify obs mdl pf nt tags).status = "PROPFAIL" ↔ pf.isSome = true := by
  unfold classify
  cases pf with
  | some w => simp
  | none => by_cases h : (obs == mdl) = true <;> simp [h]

theorem classify_mismatch_iff (obs mdl : List V) (pf : Option String) (nt : Bool) (tags : List String) :
    (classify obs mdl pf nt tags).status = "MISMATCH" ↔ pf = none ∧ (obs == mdl) = false := by
  unfold classify
  cases pf with
  | some w => simp
  | none => by_cases h : (obs == mdl) = true <;> simp [h]

/-- The three outcomes are exhaustive: `classify` never says anything else (in particular never `KNOWN`). -/
theorem classify_status (obs mdl : List V) (pf : Option String) (nt : Bool) (tags : List String) :
    (classify obs mdl pf nt tags).status = "OK" ∨ (classify obs mdl pf nt tags).status = "PROPFAIL" ∨
      (classify obs mdl pf nt tags).status = "MISMATCH" := by
  unfold classify
  cases pf with
  | some w => simp
  | none => by_cases h : (obs == mdl) = true <;> simp [h]

end GraafVerif.Driver
