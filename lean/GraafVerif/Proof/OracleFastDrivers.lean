import GraafVerif.Spec.OracleFast
import GraafVerif.Driver.H03
import GraafVerif.Driver.H04
import GraafVerif.Driver.H08
/-!
# The drivers' own fast oracles ARE the canonical ones of `Spec/OracleFast.lean`

The drivers define their fast oracles locally (`let`-bound rounds, `let rec` loops).  Each is the
same function as the canonical oracle: the rounds are definitionally equal, the loops agree by
induction on the fuel.  So the theorems of `Thm/OraclesFast.lean` are theorems about the functions
the compiled driver runs, not about copies.
-/
namespace GraafVerif.OracleFastProof
open GraafVerif GraafVerif.OracleFast GraafVerif.Driver

theorem h03_go_eq (g : WGraph) : ∀ fuel d, H03.fastDist.go (wfRound g) fuel d = wfGo g fuel d := by
  intro fuel
  induction fuel with
  | zero => intro d; rfl
  | succ f ih =>
    intro d
    unfold H03.fastDist.go wfGo
    split <;> rename_i h <;> simp only [h] <;> first | exact ih _ | rfl

/-- `H03.fastDist` (Dijkstra checks, orders above 60) is `wdistFast`. -/
theorem h03_fastDist_eq : H03.fastDist = wdistFast := by
  funext g S
  show (H03.fastDist.go (wfRound g) (g.n + 1) (wfInit g.n S)).toList = _
  rw [h03_go_eq]; rfl

theorem h04_go_eq (g : Graph) :
    ∀ fuel k front d, H04.hopDistFast.go g fuel k front d = hfGo g fuel k front d := by
  intro fuel
  induction fuel with
  | zero => intro k front d; rfl
  | succ f ih =>
    intro k front d
    unfold H04.hopDistFast.go hfGo
    simp only []
    split
    · rfl
    · exact ih _ _ _

/-- `H04.hopDistFast` (BFS checks, orders above 130) is `hopDistFastA`. -/
theorem h04_hopDistFast_eq : H04.hopDistFast = hopDistFastA := by
  funext g S
  show (H04.hopDistFast.go g (g.n + 1) 0 S (hfInit g.n S)).toList = _
  rw [h04_go_eq]; rfl

theorem h08_go_eq (arcs : List (Nat × Nat × Int)) :
    ∀ fuel d, H08.bfA.go (abRound arcs) fuel d = abGo arcs fuel d := by
  intro fuel
  induction fuel with
  | zero => intro d; rfl
  | succ f ih =>
    intro d
    unfold H08.bfA.go abGo
    simp only []
    split
    · exact ih _
    · rfl

/-- `H08.bfA` (distance-matrix checks, orders above 40) is `wdistArcsFast`. -/
theorem h08_bfA_eq : H08.bfA = wdistArcsFast := by
  funext g arcs s
  unfold H08.bfA wdistArcsFast
  simp only []
  rw [← h08_go_eq]
  rfl

/-- The arc list `H08.ssOracle` passes to `bfA`. -/
theorem fw_arcsWeighted_eq (g : WGraph) : Fw.arcsWeighted g = wgraphArcs g := rfl

end GraafVerif.OracleFastProof
