import GraafVerif.Model.AlgoGen
import GraafVerif.Proof.AlgoGenRt
import GraafVerif.Proof.AlgoGenPredTree
import GraafVerif.Model.Dijkstra
import GraafVerif.Proof.DijkstraNext
import GraafVerif.Proof.PredTreeFull
/-!
# Generated `Dijkstra`, `DijkstraDist`, `DijkstraPred` (`Model/AlgoGen.lean`) = hand-written `Model/Dijkstra.lean`

The hand-written model keeps `dist : Vec<usize>` as `List (Option Int)` (`none` = `usize::MAX`), has
no `assert!` and no out-of-range outcome; the generated definitions keep the vector of numbers with
the sentinel `inf` (a parameter) and have the `assert!(v < order)` / `*dist_ptr.add(·)` outcomes.
`encD inf` replaces `none` by `inf`; every generated state is `ofH inf st` for some hand-written
state `st` (`ofH_surj`).  The equalities hold under `StepFits` — exactly what the hand-written
model leaves out:
* `vtx` / `arcs`: heap entries and out-neighbours are below `dist.len()` (C13's invariant: no `ub`,
  no failed `assert!`);
* `key` / `sum`: no key in the heap equals the sentinel and no relaxation sum reaches it
  ("path sums fit", DESIGN §4.1).
-/
set_option linter.unusedSimpArgs false
namespace GraafVerif.AlgoGenThm
open GraafVerif GraafVerif.AlgoGen
open GraafVerif.Dijkstra (State popMax dOf improves relax)

/-- `none` ↦ the sentinel. -/
def encD (inf : Int) (d : List (Option Int)) : List Int := d.map (fun o => o.getD inf)

@[simp] theorem encD_length (inf : Int) (d : List (Option Int)) : (encD inf d).length = d.length := by
  simp [encD]
theorem encD_getElem? (inf : Int) (d : List (Option Int)) (i : Nat) :
    (encD inf d)[i]? = (d[i]?).map (fun o => o.getD inf) := by
  simp [encD]
theorem encD_set (inf : Int) (d : List (Option Int)) (i : Nat) (x : Int) :
    (encD inf d).set i x = encD inf (d.set i (some x)) := by
  simp [encD, List.map_set]
theorem encD_replicate (inf : Int) (n : Nat) : encD inf (List.replicate n none) = List.replicate n inf := by
  simp [encD]
/-- every vector of numbers is an encoding -/
theorem encD_surj (inf : Int) (l : List Int) : encD inf (l.map some) = l := by
  simp [encD, Function.comp_def]

/-- What one call of `next` needs of the state (see the header). -/
structure StepFits (inf : Int) (g : WGraph) (st : State) : Prop where
  vtx : ∀ e ∈ st.heap, e.v < st.dist.length
  key : ∀ e ∈ st.heap, e.d ≠ inf
  arcs : ∀ e ∈ st.heap, ∀ xw ∈ g.out e.v, xw.1 < st.dist.length
  sum : ∀ e ∈ st.heap, ∀ xw ∈ g.out e.v, e.d + xw.2 < inf

/-- The `loop { let e = heap.pop()?; if fresh { break e } }` of the hand-written `next` on its own. -/
def popFresh (dist : List (Option Int)) : Nat → List Entry → Option (Entry × List Entry)
  | 0, _ => none
  | k + 1, h =>
    match popMax h with
    | none => none
    | some (e, h') => if dOf dist e.v = some e.d then some (e, h') else popFresh dist k h'

theorem next_eq_popFresh (g : WGraph) (tag : Nat → Option Nat) (dist : List (Option Int)) :
    ∀ (k : Nat) (heap : List Entry), Dijkstra.next g tag k ⟨dist, heap⟩ =
      (popFresh dist k heap).map (fun r => (r.1, (g.out r.1.v).foldl (relax tag r.1.v r.1.d) ⟨dist, r.2⟩)) := by
  intro k
  induction k with
  | zero => intro heap; rfl
  | succ k ih =>
    intro heap
    unfold Dijkstra.next popFresh
    cases hp : popMax heap with
    | none => rfl
    | some r =>
      obtain ⟨e, h'⟩ := r
      simp only
      by_cases hf : dOf dist e.v = some e.d
      · simp [hf]
      · simp only [hf, if_false]
        exact ih h'

theorem popFresh_mem (dist : List (Option Int)) : ∀ (k : Nat) (heap : List Entry) (e : Entry) (h : List Entry),
    popFresh dist k heap = some (e, h) → e ∈ heap ∧ (∀ x ∈ h, x ∈ heap) ∧ dOf dist e.v = some e.d := by
  intro k
  induction k with
  | zero => intro heap e h hp; cases hp
  | succ k ih =>
    intro heap e h hp
    unfold popFresh at hp
    cases hm : popMax heap with
    | none => rw [hm] at hp; cases hp
    | some r =>
      obtain ⟨e', h'⟩ := r
      rw [hm] at hp
      obtain ⟨hmem, herase, _⟩ := Dijkstra.popMax_some hm
      simp only at hp
      by_cases hf : dOf dist e'.v = some e'.d
      · rw [if_pos hf] at hp
        cases hp
        exact ⟨hmem, fun x hx => by rw [herase] at hx; exact List.mem_of_mem_erase hx, hf⟩
      · rw [if_neg hf] at hp
        obtain ⟨h1, h2, h3⟩ := ih h' e h hp
        have hsub : ∀ x ∈ h', x ∈ heap := fun x hx => by rw [herase] at hx; exact List.mem_of_mem_erase hx
        exact ⟨hsub _ h1, fun x hx => hsub _ (h2 x hx), h3⟩

/-- reading `dist[v]` through the encoding -/
theorem encD_rd {β ρ : Type} (site : String) (inf : Int) (dist : List (Option Int)) (v : Nat) (hv : v < dist.length) :
    (rd site (encD inf dist) v : Blk β ρ Int) = .ok ((dOf dist v).getD inf) := by
  obtain ⟨o, ho⟩ : ∃ o, dist[v]? = some o := ⟨_, List.getElem?_eq_getElem hv⟩
  rw [rd_some _ _ _ ((dOf dist v).getD inf)]
  rw [encD_getElem?, ho]
  simp [dOf, ho]

/-- the freshness test through the encoding -/
theorem fresh_iff (inf : Int) (dist : List (Option Int)) (e : Entry) (hk : e.d ≠ inf) :
    (dOf dist e.v).getD inf = e.d ↔ dOf dist e.v = some e.d := by
  cases dOf dist e.v with
  | none => simp; exact fun h => hk h.symm
  | some d => simp

/-- the relaxation test through the encoding -/
theorem improves_iff_enc (inf : Int) (o : Option Int) (dn : Int) (h : dn < inf) :
    dn < o.getD inf ↔ improves dn o = true := by
  cases o with
  | none => simp [improves, h]
  | some dx => simp [improves]


theorem relax_len (tag : Nat → Option Nat) (u : Nat) (d : Int) (st : State) (xw : Nat × Int) :
    (relax tag u d st xw).dist.length = st.dist.length := by
  unfold relax; split
  · simp
  · rfl

theorem foldl_relax_len (tag : Nat → Option Nat) (u : Nat) (d : Int) : ∀ (arcs : List (Nat × Int)) (st : State),
    (arcs.foldl (relax tag u d) st).dist.length = st.dist.length := by
  intro arcs
  induction arcs with
  | nil => intro st; rfl
  | cons a arcs ih => intro st; rw [List.foldl_cons, ih, relax_len]

/-- what one hand-written `next` returns -/
theorem next_some (g : WGraph) (tag : Nat → Option Nat) (k : Nat) (st st' : State) (e : Entry)
    (h : GraafVerif.Dijkstra.next g tag k st = some (e, st')) :
    e ∈ st.heap ∧ st'.dist.length = st.dist.length := by
  obtain ⟨dist, heap⟩ := st
  rw [next_eq_popFresh] at h
  cases hp : popFresh dist k heap with
  | none => rw [hp] at h; cases h
  | some r =>
    obtain ⟨e', h'⟩ := r
    rw [hp] at h
    simp only [Option.map_some, Option.some.injEq, Prod.mk.injEq] at h
    obtain ⟨rfl, rfl⟩ := h
    exact ⟨(popFresh_mem dist k heap _ h' hp).1, foldl_relax_len _ _ _ _ _⟩

/-- `StepFits` at every state the iteration passes through (`fuel` calls of `next`): the
"path sums fit" assumption of the properties, stated along the hand-written execution. -/
def RunFits (inf : Int) (g : WGraph) (tag : Nat → Option Nat) : Nat → State → Prop
  | 0, _ => True
  | fuel + 1, st => StepFits inf g st ∧
      ∀ e st', GraafVerif.Dijkstra.next g tag (st.heap.length + 1) st = some (e, st') → RunFits inf g tag fuel st'

/-- `for x in self { acc = f acc x }` over a generated Dijkstra iterator whose `next` is the
hand-written one: the fold over the items of the hand-written `collect`. -/
theorem dij_iter_generic {ι S σ ρ : Type} (item : Entry → ι) (mk : State → S) (next : S → Res (Option ι × S))
    (g : WGraph) (inf : Int) (tag : Nat → Option Nat)
    (hnext : ∀ st, StepFits inf g st → next (mk st) =
      match GraafVerif.Dijkstra.next g tag (st.heap.length + 1) st with
      | none => .ok (none, mk ⟨st.dist, []⟩)
      | some (e, st') => .ok (some (item e), mk st'))
    (body : σ → ι → Blk σ ρ σ) (f : σ → ι → σ) (R : σ → Prop) (n : Nat)
    (hbody : ∀ acc e, R acc → e.v < n → body acc (item e) = .ok (f acc (item e)) ∧ R (f acc (item e))) :
    ∀ (fuel : Nat) (st : State) (acc : σ), st.dist.length = n → RunFits inf g tag fuel st → R acc →
      ∃ s', (iterLoop next body fuel (mk st) acc : Blk Empty ρ (σ × S)) =
        .ok (((GraafVerif.Dijkstra.collect g tag fuel st).map item).foldl f acc, s') := by
  intro fuel
  induction fuel with
  | zero => intro st acc _ _ _; exact ⟨_, rfl⟩
  | succ fuel ih =>
    intro st acc hlen hfit hR
    obtain ⟨hstep, hrest⟩ := hfit
    unfold iterLoop GraafVerif.Dijkstra.collect
    rw [hnext st hstep]
    cases hn : GraafVerif.Dijkstra.next g tag (st.heap.length + 1) st with
    | none => exact ⟨_, rfl⟩
    | some r =>
      obtain ⟨e, st'⟩ := r
      obtain ⟨hmem, hlen'⟩ := next_some g tag _ st st' e hn
      have hv : e.v < n := by rw [← hlen]; exact hstep.vtx e hmem
      obtain ⟨hb1, hb2⟩ := hbody acc e hR hv
      simp only [hb1]
      obtain ⟨s', hs'⟩ := ih st' (f acc (item e)) (by rw [hlen', hlen]) (hrest e st' hn) hb2
      exact ⟨s', by rw [hs']; rfl⟩

/-- `dist[v] = x` through the encoding, folded -/
theorem foldl_set_enc {ι : Type} (inf : Int) (key : ι → Nat) (val : ι → Int) (items : List ι) :
    ∀ (d : List (Option Int)),
      items.foldl (fun (acc : List Int) it => acc.set (key it) (val it)) (encD inf d) =
        encD inf (items.foldl (fun acc it => acc.set (key it) (some (val it))) d) := by
  induction items with
  | nil => intro d; rfl
  | cons it items ih => intro d; simp only [List.foldl_cons]; rw [encD_set, ih]


/-- the items of a generated Dijkstra iterator are the entries of the hand-written `collect` -/
theorem dij_collect_generic {ι S : Type} (item : Entry → ι) (mk : State → S) (next : S → Res (Option ι × S))
    (g : WGraph) (inf : Int) (tag : Nat → Option Nat)
    (hnext : ∀ st, StepFits inf g st → next (mk st) =
      match GraafVerif.Dijkstra.next g tag (st.heap.length + 1) st with
      | none => .ok (none, mk ⟨st.dist, []⟩)
      | some (e, st') => .ok (some (item e), mk st')) :
    ∀ (fuel : Nat) (st : State), RunFits inf g tag fuel st →
      Except.map Prod.fst (collect next fuel (mk st)) = .ok ((GraafVerif.Dijkstra.collect g tag fuel st).map item) := by
  intro fuel
  induction fuel with
  | zero => intro st _; rfl
  | succ fuel ih =>
    intro st hfit
    obtain ⟨hstep, hrest⟩ := hfit
    unfold collect GraafVerif.Dijkstra.collect
    rw [hnext st hstep]
    cases hn : GraafVerif.Dijkstra.next g tag (st.heap.length + 1) st with
    | none => rfl
    | some r =>
      obtain ⟨e, st'⟩ := r
      have := ih st' (hrest e st' hn)
      simp only
      cases hc : collect next fuel (mk st') with
      | error err => rw [hc] at this; cases this
      | ok r2 =>
        obtain ⟨xs, s2⟩ := r2
        rw [hc] at this
        simp only [Except.map, Except.ok.injEq] at this ⊢
        rw [this]
        rfl

/-! ### A sufficient condition for `RunFits`: bounded weights and a sentinel above
`(number of calls + 1) * (largest weight)` -/

theorem relax_heap (tag : Nat → Option Nat) (u : Nat) (d : Int) (st : State) (xw : Nat × Int) :
    ∀ e ∈ (relax tag u d st xw).heap, e ∈ st.heap ∨ e = ⟨d + xw.2, tag u, xw.1⟩ := by
  intro e he
  unfold relax at he
  split at he
  · simp only [List.mem_cons] at he
    rcases he with h | h
    · exact Or.inr h
    · exact Or.inl h
  · exact Or.inl he

theorem foldl_relax_heap (tag : Nat → Option Nat) (u : Nat) (d : Int) : ∀ (arcs : List (Nat × Int)) (st : State),
    ∀ e ∈ (arcs.foldl (relax tag u d) st).heap, e ∈ st.heap ∨ ∃ xw ∈ arcs, e = ⟨d + xw.2, tag u, xw.1⟩ := by
  intro arcs
  induction arcs with
  | nil => intro st e he; exact Or.inl he
  | cons a arcs ih =>
    intro st e he
    rw [List.foldl_cons] at he
    rcases ih _ e he with h | ⟨xw, hxw, h⟩
    · rcases relax_heap tag u d st a e h with h' | h'
      · exact Or.inl h'
      · exact Or.inr ⟨a, List.mem_cons_self, h'⟩
    · exact Or.inr ⟨xw, List.mem_cons_of_mem _ hxw, h⟩

theorem next_heap (g : WGraph) (tag : Nat → Option Nat) (k : Nat) (st st' : State) (e : Entry)
    (h : GraafVerif.Dijkstra.next g tag k st = some (e, st')) :
    ∀ e' ∈ st'.heap, e' ∈ st.heap ∨ ∃ xw ∈ g.out e.v, e' = ⟨e.d + xw.2, tag e.v, xw.1⟩ := by
  obtain ⟨dist, heap⟩ := st
  rw [next_eq_popFresh] at h
  cases hp : popFresh dist k heap with
  | none => rw [hp] at h; cases h
  | some r =>
    obtain ⟨e0, h0⟩ := r
    rw [hp] at h
    simp only [Option.map_some, Option.some.injEq, Prod.mk.injEq] at h
    obtain ⟨rfl, rfl⟩ := h
    intro e' he'
    rcases foldl_relax_heap tag _ _ _ _ e' he' with h1 | h1
    · exact Or.inl ((popFresh_mem dist k heap _ h0 hp).2.1 e' h1)
    · exact Or.inr h1

theorem runFits_of_bound (g : WGraph) (hwf : g.WF) (inf W : Int) (hW0 : 0 ≤ W)
    (hW : ∀ u, ∀ xw ∈ g.out u, xw.2 ≤ W) (tag : Nat → Option Nat) :
    ∀ (fuel : Nat) (st : State) (B : Int), st.dist.length = g.n →
      (∀ e ∈ st.heap, e.v < g.n ∧ e.d ≤ B) → B + (fuel + 1 : Nat) * W < inf → RunFits inf g tag fuel st := by
  intro fuel
  induction fuel with
  | zero => intro st B _ _ _; trivial
  | succ fuel ih =>
    intro st B hlen hheap hB
    have hmul : ((fuel + 1 + 1 : Nat) : Int) * W = ((fuel + 1 : Nat) : Int) * W + W := by
      push_cast; rw [Int.add_mul, Int.one_mul]
    have hpos : 0 ≤ ((fuel + 1 : Nat) : Int) * W := Int.mul_nonneg (by omega) hW0
    refine ⟨⟨?_, ?_, ?_, ?_⟩, ?_⟩
    · intro e he; rw [hlen]; exact (hheap e he).1
    · intro e he h; have := (hheap e he).2; omega
    · intro e he xw hxw; rw [hlen]; exact (hwf e.v xw.1 xw.2 hxw).2
    · intro e he xw hxw; have := (hheap e he).2; have := hW e.v xw hxw; omega
    · intro e st' hn
      obtain ⟨hmem, hlen'⟩ := next_some g tag _ st st' e hn
      refine ih st' (B + W) (by rw [hlen', hlen]) ?_ (by omega)
      intro e' he'
      rcases next_heap g tag _ st st' e hn e' he' with h1 | ⟨xw, hxw, h1⟩
      · have := hheap e' h1; exact ⟨this.1, by omega⟩
      · subst h1
        have := (hheap e hmem).2
        have := hW e.v xw hxw
        exact ⟨(hwf e.v xw.1 xw.2 hxw).2, by simp only; omega⟩

theorem init_heap (S : List Nat) : ∀ (st : State),
    ((S.foldl (fun st s => (⟨st.dist.set s (some 0), ⟨0, none, s⟩ :: st.heap⟩ : State)) st).dist.length = st.dist.length) ∧
    ∀ e ∈ (S.foldl (fun st s => (⟨st.dist.set s (some 0), ⟨0, none, s⟩ :: st.heap⟩ : State)) st).heap,
      e ∈ st.heap ∨ (e.d = 0 ∧ e.v ∈ S) := by
  induction S with
  | nil => intro st; exact ⟨rfl, fun e he => Or.inl he⟩
  | cons s S ih =>
    intro st
    obtain ⟨h1, h2⟩ := ih ⟨st.dist.set s (some 0), ⟨0, none, s⟩ :: st.heap⟩
    refine ⟨by rw [List.foldl_cons, h1]; simp, ?_⟩
    intro e he
    rw [List.foldl_cons] at he
    rcases h2 e he with h | ⟨h3, h4⟩
    · simp only [List.mem_cons] at h
      rcases h with h | h
      · subst h; exact Or.inr ⟨rfl, List.mem_cons_self⟩
      · exact Or.inl h
    · exact Or.inr ⟨h3, List.mem_cons_of_mem _ h4⟩

/-- The hypotheses of C03 / C05 plus "path sums fit" in the form: every weight is at most `W`
and `(fuel + 1) * W` is below the sentinel. -/
theorem runFits_init (g : WGraph) (S : List Nat) (h : GraafVerif.Dijkstra.Hyp g S) (inf W : Int) (hW0 : 0 ≤ W)
    (hW : ∀ u, ∀ xw ∈ g.out u, xw.2 ≤ W) (tag : Nat → Option Nat) (fuel : Nat)
    (hinf : ((fuel + 1 : Nat) : Int) * W < inf) :
    (GraafVerif.Dijkstra.init g.n S).dist.length = g.n ∧ RunFits inf g tag fuel (GraafVerif.Dijkstra.init g.n S) := by
  obtain ⟨h1, h2⟩ := init_heap S ⟨List.replicate g.n none, []⟩
  have hlen : (GraafVerif.Dijkstra.init g.n S).dist.length = g.n := by
    unfold GraafVerif.Dijkstra.init; rw [h1]; simp
  refine ⟨hlen, runFits_of_bound g h.wf inf W hW0 hW tag fuel _ 0 hlen ?_ (by omega)⟩
  intro e he
  rcases h2 e he with h3 | ⟨h3, h4⟩
  · cases h3
  · exact ⟨h.srcRange _ h4, by omega⟩

/-! ## `Dijkstra` -/
namespace Dijkstra

def ofH (inf : Int) (st : State) : AlgoGen.Dijkstra := ⟨encD inf st.dist, st.heap⟩
def toH (s : AlgoGen.Dijkstra) : State := ⟨s.dist.map some, s.heap⟩
/-- every generated state is the image of a hand-written one -/
theorem ofH_surj (inf : Int) (s : AlgoGen.Dijkstra) : ofH inf (toH s) = s := by
  cases s; simp [ofH, toH, encD_surj]

/-- `for u in sources { assert!(u < order); dist[u] = 0; heap.push((Reverse(0), u)) }` -/
theorem new_for0_eq (inf : Int) (order : Nat) : ∀ (us : List Nat) (st : State), st.dist.length = order →
    (forLoop (AlgoGen.Dijkstra.new_for0 order) us (encD inf st.dist, st.heap) : Blk Empty AlgoGen.Dijkstra _) =
      if ∀ u ∈ us, u < order then
        .ok (encD inf (us.foldl (fun st s => (⟨st.dist.set s (some 0), ⟨0, none, s⟩ :: st.heap⟩ : State)) st).dist,
             (us.foldl (fun st s => (⟨st.dist.set s (some 0), ⟨0, none, s⟩ :: st.heap⟩ : State)) st).heap)
      else .error (.err (.fault .panic)) := by
  intro us
  induction us with
  | nil => intro st _; simp
  | cons u us ih =>
    intro st hlen
    by_cases hu : u < order
    · rw [forLoop_cons_ok (s' := (encD inf (st.dist.set u (some 0)), ⟨0, none, u⟩ :: st.heap))
        (h := by
          unfold AlgoGen.Dijkstra.new_for0
          simp [hu, wr_lt _ _ _ _ (show u < (encD inf st.dist).length by simpa [hlen] using hu), encD_set])]
      rw [ih ⟨st.dist.set u (some 0), ⟨0, none, u⟩ :: st.heap⟩ (by simpa using hlen)]
      simp [hu]
    · rw [forLoop_cons_err (e := .fault .panic) (h := by unfold AlgoGen.Dijkstra.new_for0; simp [hu])]
      simp [hu]

/-- `Dijkstra::new`: a source outside `0..order` is a panic, otherwise the hand-written `init`. -/
theorem new_eq (g : WGraph) (inf : Int) (S : List Nat) :
    AlgoGen.Dijkstra.new g inf S =
      if ∀ s ∈ S, s < g.n then .ok (ofH inf (GraafVerif.Dijkstra.init g.n S)) else .error (.fault .panic) := by
  unfold AlgoGen.Dijkstra.new GraafVerif.Dijkstra.init
  have h := new_for0_eq inf g.n S ⟨List.replicate g.n none, []⟩ (by simp)
  simp only [encD_replicate] at h
  simp only [h]
  by_cases hS : ∀ s ∈ S, s < g.n
  · simp only [if_pos hS]; rfl
  · simp only [if_neg hS]; rfl

/-- One round of `loop { let (Reverse(w_prev), u) = self.heap.pop()?; if dist[u] == w_prev { break (w_prev, u) } }`. -/
theorem next_loop0_step (inf : Int) (dist : List (Option Int)) (heap : List Entry)
    (hh : ∀ e ∈ heap, e.v < dist.length ∧ e.d ≠ inf) :
    (AlgoGen.Dijkstra.next_loop0 ⟨encD inf dist, heap⟩ : Blk _ (Option Nat × AlgoGen.Dijkstra) _) =
      match popMax heap with
      | none => ret (none, ⟨encD inf dist, []⟩)
      | some (e, h') =>
        if dOf dist e.v = some e.d then brk ((e.d, e.v), ⟨encD inf dist, h'⟩) else .ok ⟨encD inf dist, h'⟩ := by
  unfold AlgoGen.Dijkstra.next_loop0
  simp only [heapPop]
  cases hm : popMax heap with
  | none =>
    have := Dijkstra.popMax_none hm
    subst this
    rfl
  | some r =>
    obtain ⟨e, h'⟩ := r
    obtain ⟨hmem, _, _⟩ := Dijkstra.popMax_some hm
    obtain ⟨hv, hkey⟩ := hh e hmem
    simp only [encD_rd _ inf dist e.v hv, ok_bind]
    by_cases hf : dOf dist e.v = some e.d
    · have h1 : (dOf dist e.v).getD inf = e.d := (fresh_iff inf dist e hkey).2 hf
      simp [h1, hf]
    · have h1 : ¬ (dOf dist e.v).getD inf = e.d := fun h => hf ((fresh_iff inf dist e hkey).1 h)
      have h2 : ¬ e.d = (dOf dist e.v).getD inf := fun h => h1 h.symm
      simp [h1, h2, hf]

/-- The `loop` of `next`: with fuel above the heap size it is `popFresh`; an exhausted heap is the
`None` of `?`. -/
theorem next_loop0_eq (inf : Int) (dist : List (Option Int)) : ∀ (k : Nat) (heap : List Entry), heap.length < k →
    (∀ e ∈ heap, e.v < dist.length ∧ e.d ≠ inf) →
    (loopLoop AlgoGen.Dijkstra.next_loop0 k ⟨encD inf dist, heap⟩ : Blk Empty (Option Nat × AlgoGen.Dijkstra) _) =
      match popFresh dist k heap with
      | none => .error (.ret (none, ⟨encD inf dist, []⟩))
      | some (e, h) => .ok ((e.d, e.v), ⟨encD inf dist, h⟩) := by
  intro k
  induction k with
  | zero => intro heap hk; omega
  | succ k ih =>
    intro heap hk hh
    rw [loopLoop_succ, next_loop0_step inf dist heap hh]
    unfold popFresh
    cases hm : popMax heap with
    | none => rfl
    | some r =>
      obtain ⟨e, h'⟩ := r
      obtain ⟨hmem, herase, _⟩ := Dijkstra.popMax_some hm
      have hlen := Dijkstra.popMax_len hm
      by_cases hf : dOf dist e.v = some e.d
      · simp [hf, brk_def]
      · simp only [hf, if_false]
        exact ih h' (by omega) (fun x hx => hh x (by rw [herase] at hx; exact List.mem_of_mem_erase hx))

/-- `for (v, w) in out_neighbors_weighted(u) { assert!(v < order); relax }` = the fold of the
hand-written `relax` (all entries of `Dijkstra` carry the predecessor `none`). -/
theorem next_for0_eq (inf : Int) (u : Nat) (d : Int) (order : Nat) : ∀ (arcs : List (Nat × Int)) (st : State),
    st.dist.length = order → (∀ xw ∈ arcs, xw.1 < order ∧ d + xw.2 < inf) →
    (forLoop (AlgoGen.Dijkstra.next_for0 d order) arcs (ofH inf st) : Blk Empty (Option Nat × AlgoGen.Dijkstra) _) =
      .ok (ofH inf (arcs.foldl (relax (fun _ => none) u d) st)) := by
  intro arcs
  induction arcs with
  | nil => intro st _ _; rfl
  | cons xw arcs ih =>
    intro st hlen hh
    obtain ⟨hx, hsum⟩ := hh xw List.mem_cons_self
    have hx' : xw.1 < st.dist.length := by omega
    rw [forLoop_cons_ok (s' := ofH inf (relax (fun _ => none) u d st xw))
      (h := by
        unfold AlgoGen.Dijkstra.next_for0 relax
        simp only [ofH, hx, decide_true, assert_true, ok_bind, encD_rd _ inf st.dist xw.1 hx']
        have hi := improves_iff_enc inf (dOf st.dist xw.1) (d + xw.2) hsum
        by_cases him : improves (d + xw.2) (dOf st.dist xw.1) = true
        · have : xw.2 + d < (dOf st.dist xw.1).getD inf := by rw [Int.add_comm]; exact hi.2 him
          simp [hi.2 him, him, wr_lt _ _ _ _ (show xw.1 < (encD inf st.dist).length by simpa using hx'), encD_set,
            Int.add_comm]
        · have h1 : ¬ xw.2 + d < (dOf st.dist xw.1).getD inf := by rw [Int.add_comm]; exact fun h => him (hi.1 h)
          have h2 : ¬ d + xw.2 < (dOf st.dist xw.1).getD inf := fun h => him (hi.1 h)
          simp [h1, h2, him])]
    rw [List.foldl_cons]
    refine ih _ ?_ (fun y hy => hh y (List.mem_cons_of_mem _ hy))
    unfold relax; split
    · simpa using hlen
    · exact hlen

/-- `Iterator::next` of `Dijkstra` = the hand-written `Dijkstra.next` (entries without predecessor,
fuel `heap.len() + 1` as in `collect`), for every state that satisfies `StepFits`. -/
theorem next_eq (g : WGraph) (inf : Int) (st : State) (hf : StepFits inf g st) :
    AlgoGen.Dijkstra.next g (ofH inf st) =
      match GraafVerif.Dijkstra.next g (fun _ => none) (st.heap.length + 1) st with
      | none => .ok (none, ofH inf ⟨st.dist, []⟩)
      | some (e, st') => .ok (some e.v, ofH inf st') := by
  obtain ⟨dist, heap⟩ := st
  unfold AlgoGen.Dijkstra.next
  rw [next_eq_popFresh]
  have hl := next_loop0_eq inf dist (heap.length + 1) heap (by omega) (fun e he => ⟨hf.vtx e he, hf.key e he⟩)
  simp only [ofH] at hl ⊢
  rw [hl]
  cases hp : popFresh dist (heap.length + 1) heap with
  | none => rfl
  | some r =>
    obtain ⟨e, h⟩ := r
    obtain ⟨hmem, hsub, _⟩ := popFresh_mem dist _ heap e h hp
    have hfor := next_for0_eq inf e.v e.d dist.length (g.out e.v) ⟨dist, h⟩ rfl
      (fun xw hxw => ⟨hf.arcs e hmem xw hxw, hf.sum e hmem xw hxw⟩)
    simp only [ofH] at hfor
    simp only [ok_bind, encD_length, hfor, Option.map_some, pure_eq_ok, fnBody_ok]




theorem tagOK : GraafVerif.Dijkstra.TagOK (fun _ => none) := by
  intro u p h; simp at h; 

/-- `Dijkstra::new(&digraph, sources)` iterated to the end = the hand-written item sequence, under the
hypotheses of C03 / C05 and a sentinel above `(fuel + 1) * (largest weight)`. -/
theorem new_collect_eq (g : WGraph) (S : List Nat) (h : GraafVerif.Dijkstra.Hyp g S) (inf W : Int) (hW0 : 0 ≤ W)
    (hW : ∀ u, ∀ xw ∈ g.out u, xw.2 ≤ W)
    (hinf : ((GraafVerif.Dijkstra.fuel g S + 1 : Nat) : Int) * W < inf) :
    (AlgoGen.Dijkstra.new g inf S >>= fun s =>
        Except.map Prod.fst (collect (AlgoGen.Dijkstra.next g) (GraafVerif.Dijkstra.fuel g S) s)) =
      .ok (GraafVerif.Dijkstra.dijkstra g S) := by
  rw [new_eq, if_pos h.srcRange]
  obtain ⟨_, hfit⟩ := runFits_init g S h inf W hW0 hW (fun _ => none) (GraafVerif.Dijkstra.fuel g S) hinf
  show Except.map Prod.fst (collect (AlgoGen.Dijkstra.next g) _ (ofH inf _)) = _
  rw [dij_collect_generic (fun e => e.v) (ofH inf) (AlgoGen.Dijkstra.next g) g inf (fun _ => none) (fun st hs => next_eq g inf st hs) _ _ hfit,
    GraafVerif.Dijkstra.collect_eq_entries h tagOK]
  rfl

end Dijkstra

/-! ## `DijkstraDist` -/
namespace DijkstraDist

def ofH (inf : Int) (st : State) : AlgoGen.DijkstraDist := ⟨encD inf st.dist, st.heap⟩
def toH (s : AlgoGen.DijkstraDist) : State := ⟨s.dist.map some, s.heap⟩
/-- every generated state is the image of a hand-written one -/
theorem ofH_surj (inf : Int) (s : AlgoGen.DijkstraDist) : ofH inf (toH s) = s := by
  cases s; simp [ofH, toH, encD_surj]

/-- `for u in sources { assert!(u < order); dist[u] = 0; heap.push((Reverse(0), u)) }` -/
theorem new_for0_eq (inf : Int) (order : Nat) : ∀ (us : List Nat) (st : State), st.dist.length = order →
    (forLoop (AlgoGen.DijkstraDist.new_for0 order) us (st.heap, encD inf st.dist) : Blk Empty AlgoGen.DijkstraDist _) =
      if ∀ u ∈ us, u < order then
        .ok ((us.foldl (fun st s => (⟨st.dist.set s (some 0), ⟨0, none, s⟩ :: st.heap⟩ : State)) st).heap,
             encD inf (us.foldl (fun st s => (⟨st.dist.set s (some 0), ⟨0, none, s⟩ :: st.heap⟩ : State)) st).dist)
      else .error (.err (.fault .panic)) := by
  intro us
  induction us with
  | nil => intro st _; simp
  | cons u us ih =>
    intro st hlen
    by_cases hu : u < order
    · rw [forLoop_cons_ok (s' := (⟨0, none, u⟩ :: st.heap, encD inf (st.dist.set u (some 0))))
        (h := by
          unfold AlgoGen.DijkstraDist.new_for0
          simp [hu, wr_lt _ _ _ _ (show u < (encD inf st.dist).length by simpa [hlen] using hu), encD_set])]
      rw [ih ⟨st.dist.set u (some 0), ⟨0, none, u⟩ :: st.heap⟩ (by simpa using hlen)]
      simp [hu]
    · rw [forLoop_cons_err (e := .fault .panic) (h := by unfold AlgoGen.DijkstraDist.new_for0; simp [hu])]
      simp [hu]

/-- `DijkstraDist::new`: a source outside `0..order` is a panic, otherwise the hand-written `init`. -/
theorem new_eq (g : WGraph) (inf : Int) (S : List Nat) :
    AlgoGen.DijkstraDist.new g inf S =
      if ∀ s ∈ S, s < g.n then .ok (ofH inf (GraafVerif.Dijkstra.init g.n S)) else .error (.fault .panic) := by
  unfold AlgoGen.DijkstraDist.new GraafVerif.Dijkstra.init
  have h := new_for0_eq inf g.n S ⟨List.replicate g.n none, []⟩ (by simp)
  simp only [encD_replicate] at h
  simp only [h]
  by_cases hS : ∀ s ∈ S, s < g.n
  · simp only [if_pos hS]; rfl
  · simp only [if_neg hS]; rfl

/-- One round of `loop { let (Reverse(w_prev), u) = self.heap.pop()?; if dist[u] == w_prev { break (w_prev, u) } }`. -/
theorem next_loop0_step (inf : Int) (dist : List (Option Int)) (heap : List Entry)
    (hh : ∀ e ∈ heap, e.v < dist.length ∧ e.d ≠ inf) :
    (AlgoGen.DijkstraDist.next_loop0 ⟨encD inf dist, heap⟩ : Blk _ (Option (Nat × Int) × AlgoGen.DijkstraDist) _) =
      match popMax heap with
      | none => ret (none, ⟨encD inf dist, []⟩)
      | some (e, h') =>
        if dOf dist e.v = some e.d then brk ((e.d, e.v), ⟨encD inf dist, h'⟩) else .ok ⟨encD inf dist, h'⟩ := by
  unfold AlgoGen.DijkstraDist.next_loop0
  simp only [heapPop]
  cases hm : popMax heap with
  | none =>
    have := Dijkstra.popMax_none hm
    subst this
    rfl
  | some r =>
    obtain ⟨e, h'⟩ := r
    obtain ⟨hmem, _, _⟩ := Dijkstra.popMax_some hm
    obtain ⟨hv, hkey⟩ := hh e hmem
    simp only [encD_rd _ inf dist e.v hv, ok_bind]
    by_cases hf : dOf dist e.v = some e.d
    · have h1 : (dOf dist e.v).getD inf = e.d := (fresh_iff inf dist e hkey).2 hf
      simp [h1, hf]
    · have h1 : ¬ (dOf dist e.v).getD inf = e.d := fun h => hf ((fresh_iff inf dist e hkey).1 h)
      have h2 : ¬ e.d = (dOf dist e.v).getD inf := fun h => h1 h.symm
      simp [h1, h2, hf]

/-- The `loop` of `next`: with fuel above the heap size it is `popFresh`; an exhausted heap is the
`None` of `?`. -/
theorem next_loop0_eq (inf : Int) (dist : List (Option Int)) : ∀ (k : Nat) (heap : List Entry), heap.length < k →
    (∀ e ∈ heap, e.v < dist.length ∧ e.d ≠ inf) →
    (loopLoop AlgoGen.DijkstraDist.next_loop0 k ⟨encD inf dist, heap⟩ : Blk Empty (Option (Nat × Int) × AlgoGen.DijkstraDist) _) =
      match popFresh dist k heap with
      | none => .error (.ret (none, ⟨encD inf dist, []⟩))
      | some (e, h) => .ok ((e.d, e.v), ⟨encD inf dist, h⟩) := by
  intro k
  induction k with
  | zero => intro heap hk; omega
  | succ k ih =>
    intro heap hk hh
    rw [loopLoop_succ, next_loop0_step inf dist heap hh]
    unfold popFresh
    cases hm : popMax heap with
    | none => rfl
    | some r =>
      obtain ⟨e, h'⟩ := r
      obtain ⟨hmem, herase, _⟩ := Dijkstra.popMax_some hm
      have hlen := Dijkstra.popMax_len hm
      by_cases hf : dOf dist e.v = some e.d
      · simp [hf, brk_def]
      · simp only [hf, if_false]
        exact ih h' (by omega) (fun x hx => hh x (by rw [herase] at hx; exact List.mem_of_mem_erase hx))

/-- `for (v, w) in out_neighbors_weighted(u) { assert!(v < order); relax }` = the fold of the
hand-written `relax` (all entries of `DijkstraDist` carry the predecessor `none`). -/
theorem next_for0_eq (inf : Int) (u : Nat) (d : Int) (order : Nat) : ∀ (arcs : List (Nat × Int)) (st : State),
    st.dist.length = order → (∀ xw ∈ arcs, xw.1 < order ∧ d + xw.2 < inf) →
    (forLoop (AlgoGen.DijkstraDist.next_for0 d order) arcs (ofH inf st) : Blk Empty (Option (Nat × Int) × AlgoGen.DijkstraDist) _) =
      .ok (ofH inf (arcs.foldl (relax (fun _ => none) u d) st)) := by
  intro arcs
  induction arcs with
  | nil => intro st _ _; rfl
  | cons xw arcs ih =>
    intro st hlen hh
    obtain ⟨hx, hsum⟩ := hh xw List.mem_cons_self
    have hx' : xw.1 < st.dist.length := by omega
    rw [forLoop_cons_ok (s' := ofH inf (relax (fun _ => none) u d st xw))
      (h := by
        unfold AlgoGen.DijkstraDist.next_for0 relax
        simp only [ofH, hx, decide_true, assert_true, ok_bind, encD_rd _ inf st.dist xw.1 hx']
        have hi := improves_iff_enc inf (dOf st.dist xw.1) (d + xw.2) hsum
        by_cases him : improves (d + xw.2) (dOf st.dist xw.1) = true
        · have : xw.2 + d < (dOf st.dist xw.1).getD inf := by rw [Int.add_comm]; exact hi.2 him
          simp [hi.2 him, him, wr_lt _ _ _ _ (show xw.1 < (encD inf st.dist).length by simpa using hx'), encD_set,
            Int.add_comm]
        · have h1 : ¬ xw.2 + d < (dOf st.dist xw.1).getD inf := by rw [Int.add_comm]; exact fun h => him (hi.1 h)
          have h2 : ¬ d + xw.2 < (dOf st.dist xw.1).getD inf := fun h => him (hi.1 h)
          simp [h1, h2, him])]
    rw [List.foldl_cons]
    refine ih _ ?_ (fun y hy => hh y (List.mem_cons_of_mem _ hy))
    unfold relax; split
    · simpa using hlen
    · exact hlen

/-- `Iterator::next` of `DijkstraDist` = the hand-written `Dijkstra.next` (entries without predecessor,
fuel `heap.len() + 1` as in `collect`), for every state that satisfies `StepFits`. -/
theorem next_eq (g : WGraph) (inf : Int) (st : State) (hf : StepFits inf g st) :
    AlgoGen.DijkstraDist.next g (ofH inf st) =
      match GraafVerif.Dijkstra.next g (fun _ => none) (st.heap.length + 1) st with
      | none => .ok (none, ofH inf ⟨st.dist, []⟩)
      | some (e, st') => .ok (some (e.v, e.d), ofH inf st') := by
  obtain ⟨dist, heap⟩ := st
  unfold AlgoGen.DijkstraDist.next
  rw [next_eq_popFresh]
  have hl := next_loop0_eq inf dist (heap.length + 1) heap (by omega) (fun e he => ⟨hf.vtx e he, hf.key e he⟩)
  simp only [ofH] at hl ⊢
  rw [hl]
  cases hp : popFresh dist (heap.length + 1) heap with
  | none => rfl
  | some r =>
    obtain ⟨e, h⟩ := r
    obtain ⟨hmem, hsub, _⟩ := popFresh_mem dist _ heap e h hp
    have hfor := next_for0_eq inf e.v e.d dist.length (g.out e.v) ⟨dist, h⟩ rfl
      (fun xw hxw => ⟨hf.arcs e hmem xw hxw, hf.sum e hmem xw hxw⟩)
    simp only [ofH] at hfor
    simp only [ok_bind, encD_length, hfor, Option.map_some, pure_eq_ok, fnBody_ok]



/-- `unsafe { *ptr.add(u.0) = u.1 }` in `distances` -/
theorem distances_for0_eq (d : List Int) (x : Nat × Int) (h : x.1 < d.length) :
    (AlgoGen.DijkstraDist.distances_for0 d x : Blk _ (List Int × AlgoGen.DijkstraDist) _) = .ok (d.set x.1 x.2) := by
  unfold AlgoGen.DijkstraDist.distances_for0
  simp [wr_lt _ _ _ _ h]

/-- `DijkstraDist::distances` on a state whose `dist` has length `order`, along an execution on
which the sums fit: the hand-written `distancesOf` of the items of the hand-written `collect`. -/
theorem distances_eq (g : WGraph) (inf : Int) (fuel : Nat) (st : State) (hlen : st.dist.length = g.n)
    (hfit : RunFits inf g (fun _ => none) fuel st) :
    Except.map Prod.fst (AlgoGen.DijkstraDist.distances g inf fuel (ofH inf st)) =
      .ok (encD inf (GraafVerif.Dijkstra.distancesOf g.n
        ((GraafVerif.Dijkstra.collect g (fun _ => none) fuel st).map (fun e => (e.v, e.d))))) := by
  unfold AlgoGen.DijkstraDist.distances
  obtain ⟨s', hs'⟩ := dij_iter_generic (ρ := List Int × AlgoGen.DijkstraDist) (fun e => (e.v, e.d)) (ofH inf)
    (AlgoGen.DijkstraDist.next g) g inf (fun _ => none) (fun st h => next_eq g inf st h)
    AlgoGen.DijkstraDist.distances_for0 (fun d (x : Nat × Int) => d.set x.1 x.2) (fun d => d.length = g.n) g.n
    (fun acc e hR hv => ⟨distances_for0_eq acc (e.v, e.d) (by simpa [hR] using hv), by simpa using hR⟩)
    fuel st (List.replicate g.n inf) hlen hfit (by simp)
  simp only [hs', ok_bind, pure_eq_ok, fnBody_ok, Except.map, Except.ok.injEq]
  unfold GraafVerif.Dijkstra.distancesOf
  rw [← encD_replicate, foldl_set_enc inf (fun (x : Nat × Int) => x.1) (fun x => x.2)]

theorem tagOK : GraafVerif.Dijkstra.TagOK (fun _ => none) := by
  intro u p h; simp at h; 

/-- `DijkstraDist::new(&digraph, sources)` iterated to the end = the hand-written item sequence, under the
hypotheses of C03 / C05 and a sentinel above `(fuel + 1) * (largest weight)`. -/
theorem new_collect_eq (g : WGraph) (S : List Nat) (h : GraafVerif.Dijkstra.Hyp g S) (inf W : Int) (hW0 : 0 ≤ W)
    (hW : ∀ u, ∀ xw ∈ g.out u, xw.2 ≤ W)
    (hinf : ((GraafVerif.Dijkstra.fuel g S + 1 : Nat) : Int) * W < inf) :
    (AlgoGen.DijkstraDist.new g inf S >>= fun s =>
        Except.map Prod.fst (collect (AlgoGen.DijkstraDist.next g) (GraafVerif.Dijkstra.fuel g S) s)) =
      .ok (GraafVerif.Dijkstra.dijkstraDist g S) := by
  rw [new_eq, if_pos h.srcRange]
  obtain ⟨_, hfit⟩ := runFits_init g S h inf W hW0 hW (fun _ => none) (GraafVerif.Dijkstra.fuel g S) hinf
  show Except.map Prod.fst (collect (AlgoGen.DijkstraDist.next g) _ (ofH inf _)) = _
  rw [dij_collect_generic (fun e => (e.v, e.d)) (ofH inf) (AlgoGen.DijkstraDist.next g) g inf (fun _ => none) (fun st hs => next_eq g inf st hs) _ _ hfit,
    GraafVerif.Dijkstra.collect_eq_entries h tagOK]
  rfl

/-- `DijkstraDist::new(&digraph, sources).distances()` = the hand-written `Dijkstra.distances`
(`none` read as the sentinel). -/
theorem new_distances_eq (g : WGraph) (S : List Nat) (h : GraafVerif.Dijkstra.Hyp g S) (inf W : Int) (hW0 : 0 ≤ W)
    (hW : ∀ u, ∀ xw ∈ g.out u, xw.2 ≤ W)
    (hinf : ((GraafVerif.Dijkstra.fuel g S + 1 : Nat) : Int) * W < inf) :
    (AlgoGen.DijkstraDist.new g inf S >>= fun s =>
        Except.map Prod.fst (AlgoGen.DijkstraDist.distances g inf (GraafVerif.Dijkstra.fuel g S) s)) =
      .ok (encD inf (GraafVerif.Dijkstra.distances g S)) := by
  rw [new_eq, if_pos h.srcRange]
  obtain ⟨hlen, hfit⟩ := runFits_init g S h inf W hW0 hW (fun _ => none) (GraafVerif.Dijkstra.fuel g S) hinf
  show Except.map Prod.fst (AlgoGen.DijkstraDist.distances g inf _ (ofH inf _)) = _
  rw [distances_eq g inf _ _ hlen hfit, GraafVerif.Dijkstra.collect_eq_entries h tagOK]
  rfl

end DijkstraDist

/-! ## `DijkstraPred` -/
namespace DijkstraPred

def ofH (inf : Int) (st : State) : AlgoGen.DijkstraPred := ⟨encD inf st.dist, st.heap⟩
def toH (s : AlgoGen.DijkstraPred) : State := ⟨s.dist.map some, s.heap⟩
/-- every generated state is the image of a hand-written one -/
theorem ofH_surj (inf : Int) (s : AlgoGen.DijkstraPred) : ofH inf (toH s) = s := by
  cases s; simp [ofH, toH, encD_surj]

/-- `for u in sources { assert!(u < order); dist[u] = 0; heap.push((Reverse(0), u)) }` -/
theorem new_for0_eq (inf : Int) (order : Nat) : ∀ (us : List Nat) (st : State), st.dist.length = order →
    (forLoop (AlgoGen.DijkstraPred.new_for0 order) us (st.heap, encD inf st.dist) : Blk Empty AlgoGen.DijkstraPred _) =
      if ∀ u ∈ us, u < order then
        .ok ((us.foldl (fun st s => (⟨st.dist.set s (some 0), ⟨0, none, s⟩ :: st.heap⟩ : State)) st).heap,
             encD inf (us.foldl (fun st s => (⟨st.dist.set s (some 0), ⟨0, none, s⟩ :: st.heap⟩ : State)) st).dist)
      else .error (.err (.fault .panic)) := by
  intro us
  induction us with
  | nil => intro st _; simp
  | cons u us ih =>
    intro st hlen
    by_cases hu : u < order
    · rw [forLoop_cons_ok (s' := (⟨0, none, u⟩ :: st.heap, encD inf (st.dist.set u (some 0))))
        (h := by
          unfold AlgoGen.DijkstraPred.new_for0
          simp [hu, wr_lt _ _ _ _ (show u < (encD inf st.dist).length by simpa [hlen] using hu), encD_set])]
      rw [ih ⟨st.dist.set u (some 0), ⟨0, none, u⟩ :: st.heap⟩ (by simpa using hlen)]
      simp [hu]
    · rw [forLoop_cons_err (e := .fault .panic) (h := by unfold AlgoGen.DijkstraPred.new_for0; simp [hu])]
      simp [hu]

/-- `DijkstraPred::new`: a source outside `0..order` is a panic, otherwise the hand-written `init`. -/
theorem new_eq (g : WGraph) (inf : Int) (S : List Nat) :
    AlgoGen.DijkstraPred.new g inf S =
      if ∀ s ∈ S, s < g.n then .ok (ofH inf (GraafVerif.Dijkstra.init g.n S)) else .error (.fault .panic) := by
  unfold AlgoGen.DijkstraPred.new GraafVerif.Dijkstra.init
  have h := new_for0_eq inf g.n S ⟨List.replicate g.n none, []⟩ (by simp)
  simp only [encD_replicate] at h
  simp only [h]
  by_cases hS : ∀ s ∈ S, s < g.n
  · simp only [if_pos hS]; rfl
  · simp only [if_neg hS]; rfl

/-- One round of `loop { let (Reverse(w_prev), u) = self.heap.pop()?; if dist[u] == w_prev { break (w_prev, u) } }`. -/
theorem next_loop0_step (inf : Int) (dist : List (Option Int)) (heap : List Entry)
    (hh : ∀ e ∈ heap, e.v < dist.length ∧ e.d ≠ inf) :
    (AlgoGen.DijkstraPred.next_loop0 ⟨encD inf dist, heap⟩ : Blk _ (Option (Option Nat × Nat) × AlgoGen.DijkstraPred) _) =
      match popMax heap with
      | none => ret (none, ⟨encD inf dist, []⟩)
      | some (e, h') =>
        if dOf dist e.v = some e.d then brk ((e.d, (e.p, e.v)), ⟨encD inf dist, h'⟩) else .ok ⟨encD inf dist, h'⟩ := by
  unfold AlgoGen.DijkstraPred.next_loop0
  simp only [heapPop]
  cases hm : popMax heap with
  | none =>
    have := Dijkstra.popMax_none hm
    subst this
    rfl
  | some r =>
    obtain ⟨e, h'⟩ := r
    obtain ⟨hmem, _, _⟩ := Dijkstra.popMax_some hm
    obtain ⟨hv, hkey⟩ := hh e hmem
    simp only [encD_rd _ inf dist e.v hv, ok_bind]
    by_cases hf : dOf dist e.v = some e.d
    · have h1 : (dOf dist e.v).getD inf = e.d := (fresh_iff inf dist e hkey).2 hf
      simp [h1, hf]
    · have h1 : ¬ (dOf dist e.v).getD inf = e.d := fun h => hf ((fresh_iff inf dist e hkey).1 h)
      have h2 : ¬ e.d = (dOf dist e.v).getD inf := fun h => h1 h.symm
      simp [h1, h2, hf]

/-- The `loop` of `next`: with fuel above the heap size it is `popFresh`; an exhausted heap is the
`None` of `?`. -/
theorem next_loop0_eq (inf : Int) (dist : List (Option Int)) : ∀ (k : Nat) (heap : List Entry), heap.length < k →
    (∀ e ∈ heap, e.v < dist.length ∧ e.d ≠ inf) →
    (loopLoop AlgoGen.DijkstraPred.next_loop0 k ⟨encD inf dist, heap⟩ : Blk Empty (Option (Option Nat × Nat) × AlgoGen.DijkstraPred) _) =
      match popFresh dist k heap with
      | none => .error (.ret (none, ⟨encD inf dist, []⟩))
      | some (e, h) => .ok ((e.d, (e.p, e.v)), ⟨encD inf dist, h⟩) := by
  intro k
  induction k with
  | zero => intro heap hk; omega
  | succ k ih =>
    intro heap hk hh
    rw [loopLoop_succ, next_loop0_step inf dist heap hh]
    unfold popFresh
    cases hm : popMax heap with
    | none => rfl
    | some r =>
      obtain ⟨e, h'⟩ := r
      obtain ⟨hmem, herase, _⟩ := Dijkstra.popMax_some hm
      have hlen := Dijkstra.popMax_len hm
      by_cases hf : dOf dist e.v = some e.d
      · simp [hf, brk_def]
      · simp only [hf, if_false]
        exact ih h' (by omega) (fun x hx => hh x (by rw [herase] at hx; exact List.mem_of_mem_erase hx))

/-- `for (v, w) in out_neighbors_weighted(u) { assert!(v < order); relax }` = the fold of the
hand-written `relax` with the predecessor tag `some`. -/
theorem next_for0_eq (inf : Int) (u : Nat) (d : Int) (order : Nat) : ∀ (arcs : List (Nat × Int)) (st : State),
    st.dist.length = order → (∀ xw ∈ arcs, xw.1 < order ∧ d + xw.2 < inf) →
    (forLoop (AlgoGen.DijkstraPred.next_for0 d u order) arcs (ofH inf st) : Blk Empty (Option (Option Nat × Nat) × AlgoGen.DijkstraPred) _) =
      .ok (ofH inf (arcs.foldl (relax some u d) st)) := by
  intro arcs
  induction arcs with
  | nil => intro st _ _; rfl
  | cons xw arcs ih =>
    intro st hlen hh
    obtain ⟨hx, hsum⟩ := hh xw List.mem_cons_self
    have hx' : xw.1 < st.dist.length := by omega
    rw [forLoop_cons_ok (s' := ofH inf (relax some u d st xw))
      (h := by
        unfold AlgoGen.DijkstraPred.next_for0 relax
        simp only [ofH, hx, decide_true, assert_true, ok_bind, encD_rd _ inf st.dist xw.1 hx']
        have hi := improves_iff_enc inf (dOf st.dist xw.1) (d + xw.2) hsum
        by_cases him : improves (d + xw.2) (dOf st.dist xw.1) = true
        · have : xw.2 + d < (dOf st.dist xw.1).getD inf := by rw [Int.add_comm]; exact hi.2 him
          simp [hi.2 him, him, wr_lt _ _ _ _ (show xw.1 < (encD inf st.dist).length by simpa using hx'), encD_set,
            Int.add_comm]
        · have h1 : ¬ xw.2 + d < (dOf st.dist xw.1).getD inf := by rw [Int.add_comm]; exact fun h => him (hi.1 h)
          have h2 : ¬ d + xw.2 < (dOf st.dist xw.1).getD inf := fun h => him (hi.1 h)
          simp [h1, h2, him])]
    rw [List.foldl_cons]
    refine ih _ ?_ (fun y hy => hh y (List.mem_cons_of_mem _ hy))
    unfold relax; split
    · simpa using hlen
    · exact hlen

/-- `Iterator::next` of `DijkstraPred` = the hand-written `Dijkstra.next` (entries with predecessor, `tag = some`,
fuel `heap.len() + 1` as in `collect`), for every state that satisfies `StepFits`. -/
theorem next_eq (g : WGraph) (inf : Int) (st : State) (hf : StepFits inf g st) :
    AlgoGen.DijkstraPred.next g (ofH inf st) =
      match GraafVerif.Dijkstra.next g some (st.heap.length + 1) st with
      | none => .ok (none, ofH inf ⟨st.dist, []⟩)
      | some (e, st') => .ok (some (e.p, e.v), ofH inf st') := by
  obtain ⟨dist, heap⟩ := st
  unfold AlgoGen.DijkstraPred.next
  rw [next_eq_popFresh]
  have hl := next_loop0_eq inf dist (heap.length + 1) heap (by omega) (fun e he => ⟨hf.vtx e he, hf.key e he⟩)
  simp only [ofH] at hl ⊢
  rw [hl]
  cases hp : popFresh dist (heap.length + 1) heap with
  | none => rfl
  | some r =>
    obtain ⟨e, h⟩ := r
    obtain ⟨hmem, hsub, _⟩ := popFresh_mem dist _ heap e h hp
    have hfor := next_for0_eq inf e.v e.d dist.length (g.out e.v) ⟨dist, h⟩ rfl
      (fun xw hxw => ⟨hf.arcs e hmem xw hxw, hf.sum e hmem xw hxw⟩)
    simp only [ofH] at hfor
    simp only [ok_bind, encD_length, hfor, Option.map_some, pure_eq_ok, fnBody_ok]



/-- `unsafe { *pred_ptr.add(v) = u }` in `predecessors` -/
theorem predecessors_for0_eq (t : AlgoGen.PredecessorTree) (y : Option Nat × Nat) (h : y.2 < t.pred.length) :
    (AlgoGen.DijkstraPred.predecessors_for0 t y : Blk _ (AlgoGen.PredecessorTree × AlgoGen.DijkstraPred) _) =
      .ok ⟨t.pred.set y.2 y.1⟩ := by
  unfold AlgoGen.DijkstraPred.predecessors_for0
  simp [wr_lt _ _ _ _ h]

theorem foldl_pred (xs : List (Option Nat × Nat)) : ∀ (t : AlgoGen.PredecessorTree),
    (xs.foldl (fun (t : AlgoGen.PredecessorTree) (y : Option Nat × Nat) => (⟨t.pred.set y.2 y.1⟩ : AlgoGen.PredecessorTree)) t).pred =
      xs.foldl (fun acc it => acc.set it.2 it.1) t.pred := by
  induction xs with
  | nil => intro t; rfl
  | cons x xs ih => intro t; simp only [List.foldl_cons]; rw [ih]

/-- `DijkstraPred::predecessors`: `PredecessorTree::new` panics for order 0, otherwise the
hand-written `predecessorsOf` of the items of the hand-written `collect`. -/
theorem predecessors_eq (g : WGraph) (inf : Int) (fuel : Nat) (st : State) (hlen : st.dist.length = g.n)
    (hfit : RunFits inf g some fuel st) :
    Except.map (fun r => r.1.pred) (AlgoGen.DijkstraPred.predecessors g fuel (ofH inf st)) =
      if g.n = 0 then .error (.fault .panic)
      else .ok (GraafVerif.Dijkstra.predecessorsOf g.n
        ((GraafVerif.Dijkstra.collect g some fuel st).map (fun e => (e.p, e.v)))) := by
  unfold AlgoGen.DijkstraPred.predecessors
  simp only [PredecessorTree.new_eq]
  by_cases hn : g.n = 0
  · simp [hn, Except.map]
  · rw [if_pos (by omega), if_neg hn]
    obtain ⟨s', hs'⟩ := dij_iter_generic (ρ := AlgoGen.PredecessorTree × AlgoGen.DijkstraPred) (fun e => (e.p, e.v)) (ofH inf)
      (AlgoGen.DijkstraPred.next g) g inf some (fun st h => next_eq g inf st h)
      AlgoGen.DijkstraPred.predecessors_for0
      (fun t (y : Option Nat × Nat) => (⟨t.pred.set y.2 y.1⟩ : AlgoGen.PredecessorTree)) (fun t => t.pred.length = g.n) g.n
      (fun acc e hR hv => ⟨predecessors_for0_eq acc (e.p, e.v) (by simpa [hR] using hv), by simpa using hR⟩)
      fuel st ⟨List.replicate g.n none⟩ hlen hfit (by simp)
    simp only [call_ok, ok_bind, hs', pure_eq_ok, fnBody_ok, Except.map, Except.ok.injEq]
    unfold GraafVerif.Dijkstra.predecessorsOf
    exact foldl_pred _ _

theorem tagOK : GraafVerif.Dijkstra.TagOK some := by
  intro u p h; simp at h; exact h.symm

/-- `DijkstraPred::new(&digraph, sources)` iterated to the end = the hand-written item sequence, under the
hypotheses of C03 / C05 and a sentinel above `(fuel + 1) * (largest weight)`. -/
theorem new_collect_eq (g : WGraph) (S : List Nat) (h : GraafVerif.Dijkstra.Hyp g S) (inf W : Int) (hW0 : 0 ≤ W)
    (hW : ∀ u, ∀ xw ∈ g.out u, xw.2 ≤ W)
    (hinf : ((GraafVerif.Dijkstra.fuel g S + 1 : Nat) : Int) * W < inf) :
    (AlgoGen.DijkstraPred.new g inf S >>= fun s =>
        Except.map Prod.fst (collect (AlgoGen.DijkstraPred.next g) (GraafVerif.Dijkstra.fuel g S) s)) =
      .ok (GraafVerif.Dijkstra.dijkstraPred g S) := by
  rw [new_eq, if_pos h.srcRange]
  obtain ⟨_, hfit⟩ := runFits_init g S h inf W hW0 hW some (GraafVerif.Dijkstra.fuel g S) hinf
  show Except.map Prod.fst (collect (AlgoGen.DijkstraPred.next g) _ (ofH inf _)) = _
  rw [dij_collect_generic (fun e => (e.p, e.v)) (ofH inf) (AlgoGen.DijkstraPred.next g) g inf some (fun st hs => next_eq g inf st hs) _ _ hfit,
    GraafVerif.Dijkstra.collect_eq_entries h tagOK]
  rfl

/-- `DijkstraPred::new(&digraph, sources).predecessors()` = the hand-written `Dijkstra.predecessors`
(`PredecessorTree::new` panics for order 0). -/
theorem new_predecessors_eq (g : WGraph) (S : List Nat) (h : GraafVerif.Dijkstra.Hyp g S) (inf W : Int) (hW0 : 0 ≤ W)
    (hW : ∀ u, ∀ xw ∈ g.out u, xw.2 ≤ W)
    (hinf : ((GraafVerif.Dijkstra.fuel g S + 1 : Nat) : Int) * W < inf) :
    (AlgoGen.DijkstraPred.new g inf S >>= fun s =>
        Except.map (fun r => r.1.pred) (AlgoGen.DijkstraPred.predecessors g (GraafVerif.Dijkstra.fuel g S) s)) =
      if g.n = 0 then .error (.fault .panic) else .ok (GraafVerif.Dijkstra.predecessors g S) := by
  rw [new_eq, if_pos h.srcRange]
  obtain ⟨hlen, hfit⟩ := runFits_init g S h inf W hW0 hW some (GraafVerif.Dijkstra.fuel g S) hinf
  show Except.map _ (AlgoGen.DijkstraPred.predecessors g _ (ofH inf _)) = _
  rw [predecessors_eq g inf _ _ hlen hfit, GraafVerif.Dijkstra.collect_eq_entries h tagOK]
  rfl

/-- The body of the `for (u, v) in self` loop of `shortest_path`. -/
theorem shortestPath_for0_eq (F : Nat) (isT : Nat → Bool) (self : AlgoGen.DijkstraPred) (t : AlgoGen.PredecessorTree)
    (y : Option Nat × Nat) (hv : y.2 < t.pred.length) (hF : t.pred.length + 2 ≤ F) :
    (AlgoGen.DijkstraPred.shortestPath_for0 F isT self t y : Blk _ (Option (List Nat) × AlgoGen.DijkstraPred) _) =
      if isT y.2 = true then
        match PredTree.searchBy (t.pred.set y.2 y.1) y.2 (fun _ b => b.isNone) with
        | .panic => .error (.err (.fault .panic))
        | .ret r => .error (.ret (r.map List.reverse, self))
      else .ok ⟨t.pred.set y.2 y.1⟩ := by
  unfold AlgoGen.DijkstraPred.shortestPath_for0
  simp only [wr_lt _ _ _ _ hv, ok_bind]
  by_cases ht : isT y.2 = true
  · simp only [ht, if_true]
    rw [PredecessorTree.searchBy_eq, PredTree.searchByFuel_adequate _ _ _ _ (by simpa using hF)]
    cases PredTree.searchBy (t.pred.set y.2 y.1) y.2 (fun _ b => b.isNone) with
    | panic => rfl
    | ret r => cases r <;> rfl
  · simp [ht]

/-- The loop of `shortest_path` (followed by the final `None`) = the hand-written `spLoop` over
the items of the hand-written `collect`. -/
theorem shortestPath_loop_eq (g : WGraph) (inf : Int) (F : Nat) (isT : Nat → Bool) (hF : g.n + 2 ≤ F) :
    ∀ (k : Nat) (st : State) (t : AlgoGen.PredecessorTree), st.dist.length = g.n → RunFits inf g some k st →
      t.pred.length = g.n →
      Except.map Prod.fst (fnBody (iterLoopS (AlgoGen.DijkstraPred.next g) (AlgoGen.DijkstraPred.shortestPath_for0 F isT) k
          (ofH inf st) t >>= fun r => pure (none, r.2) : Blk Empty (Option (List Nat) × AlgoGen.DijkstraPred) _)) =
        PredecessorTree.liftP (GraafVerif.Dijkstra.spLoop isT
          ((GraafVerif.Dijkstra.collect g some k st).map (fun e => (e.p, e.v))) t.pred) := by
  intro k
  induction k with
  | zero => intro st t _ _ _; rfl
  | succ k ih =>
    intro st t hlen hfit ht
    obtain ⟨hstep, hrest⟩ := hfit
    have hn := next_eq g inf st hstep
    unfold GraafVerif.Dijkstra.collect
    cases hh : GraafVerif.Dijkstra.next g some (st.heap.length + 1) st with
    | none =>
      rw [hh] at hn
      rw [iterLoopS_succ_none _ _ _ _ _ _ hn]; rfl
    | some r =>
      obtain ⟨e, st'⟩ := r
      rw [hh] at hn
      obtain ⟨hmem, hlen'⟩ := next_some g some _ st st' e hh
      have hv : e.v < t.pred.length := by rw [ht, ← hlen]; exact hstep.vtx e hmem
      simp only at hn
      rw [iterLoopS_succ_some _ _ _ _ _ _ _ hn,
        shortestPath_for0_eq F isT (ofH inf st') t (e.p, e.v) hv (by rw [ht]; exact hF)]
      simp only [List.map_cons, GraafVerif.Dijkstra.spLoop]
      by_cases hT : isT e.v = true
      · simp only [hT, if_true]
        cases PredTree.searchBy (t.pred.set e.v e.p) e.v (fun _ b => b.isNone) with
        | panic => rfl
        | ret r => rfl
      · simp only [hT, if_false, Bool.false_eq_true]
        exact ih st' ⟨t.pred.set e.v e.p⟩ (by rw [hlen', hlen]) (hrest e st' hh) (by simp [ht])

/-- `DijkstraPred::shortest_path`, for `order + 2 ≤ fuel`, along an execution on which the sums fit. -/
theorem shortestPath_eq (g : WGraph) (inf : Int) (F : Nat) (st : State) (isT : Nat → Bool) (hF : g.n + 2 ≤ F)
    (hlen : st.dist.length = g.n) (hfit : RunFits inf g some F st) :
    Except.map Prod.fst (AlgoGen.DijkstraPred.shortestPath g F (ofH inf st) isT) =
      if g.n = 0 then .error (.fault .panic)
      else PredecessorTree.liftP (GraafVerif.Dijkstra.spLoop isT
        ((GraafVerif.Dijkstra.collect g some F st).map (fun e => (e.p, e.v))) (List.replicate g.n none)) := by
  unfold AlgoGen.DijkstraPred.shortestPath
  simp only [PredecessorTree.new_eq]
  by_cases hn : g.n = 0
  · simp [hn, Except.map]
  · rw [if_pos (by omega), if_neg hn]
    have := shortestPath_loop_eq g inf F isT hF F st ⟨List.replicate g.n none⟩ hlen hfit (by simp)
    simpa using this

/-- `DijkstraPred::new(&g, S).shortest_path(is_target)` = the hand-written `Dijkstra.shortestPath`
(non-empty source list, so that the hand-written fuel also covers the search; order > 0). -/
theorem new_shortestPath_eq (g : WGraph) (S : List Nat) (h : GraafVerif.Dijkstra.Hyp g S) (inf W : Int) (hW0 : 0 ≤ W)
    (hW : ∀ u, ∀ xw ∈ g.out u, xw.2 ≤ W)
    (hinf : ((GraafVerif.Dijkstra.fuel g S + 1 : Nat) : Int) * W < inf) (isT : Nat → Bool)
    (hF : g.n + 2 ≤ GraafVerif.Dijkstra.fuel g S) (hn : 0 < g.n) :
    (AlgoGen.DijkstraPred.new g inf S >>= fun s =>
        Except.map Prod.fst (AlgoGen.DijkstraPred.shortestPath g (GraafVerif.Dijkstra.fuel g S) s isT)) =
      PredecessorTree.liftP (GraafVerif.Dijkstra.shortestPath g S isT) := by
  rw [new_eq, if_pos h.srcRange]
  obtain ⟨hlen, hfit⟩ := runFits_init g S h inf W hW0 hW some (GraafVerif.Dijkstra.fuel g S) hinf
  show Except.map _ (AlgoGen.DijkstraPred.shortestPath g _ (ofH inf _) isT) = _
  rw [shortestPath_eq g inf _ _ isT hF hlen hfit, GraafVerif.Dijkstra.collect_eq_entries h tagOK, if_neg (by omega)]
  rfl

end DijkstraPred


end GraafVerif.AlgoGenThm
