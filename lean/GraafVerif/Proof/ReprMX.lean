import GraafVerif.Proof.ReprRun
/-!
# `AdjacencyMatrix` refines the abstract digraph (C01) and is determined by it (C20)

Bit addressing: arc `(u, v)` lives in cell `i = u * order + v`, block `i / 64` (`i >> 6`), bit
`i % 64` (`mask i = 1 << (i & 63)`).  `cell d c` is bit `c` of the flat cell space.
-/
namespace GraafVerif.Repr.AdjMatrix
open GraafVerif.ReprSpec GraafVerif.Repr

/-! ## bits -/

theorem getLsbD_mask (i k : Nat) (hk : k < 64) : (mask i).getLsbD k = decide (k = i % 64) := by
  unfold mask
  simp [hk]
  grind

theorem and_mask_ne_zero (x : BitVec 64) (i : Nat) : ((x &&& mask i) != 0#64) = x.getLsbD (i % 64) := by
  have hi : i % 64 < 64 := Nat.mod_lt _ (by decide)
  cases hx : x.getLsbD (i % 64)
  · have : x &&& mask i = 0#64 := by
      apply BitVec.eq_of_getLsbD_eq
      intro k hk
      simp only [BitVec.getLsbD_and, getLsbD_mask i k hk, BitVec.getLsbD_zero]
      by_cases e : k = i % 64
      · subst e; simp [hx]
      · simp [e]
    simp [this]
  · have : (x &&& mask i).getLsbD (i % 64) = true := by
      simp [hx, getLsbD_mask i _ hi]
    have hne : x &&& mask i ≠ 0#64 := by
      intro h; rw [h] at this; simp at this
    simp [bne, hne]

/-! ## index arithmetic -/

theorem index_lt {n u v : Nat} (hu : u < n) (hv : v < n) : u * n + v < n * n := by
  have h1 : (u + 1) * n ≤ n * n := Nat.mul_le_mul_right n hu
  rw [Nat.succ_mul] at h1
  omega

theorem index_div {n u v : Nat} (hv : v < n) : (u * n + v) / n = u := by
  have hn : 0 < n := by omega
  rw [Nat.mul_comm, Nat.mul_add_div hn, Nat.div_eq_of_lt hv]; rfl

theorem index_mod {n u v : Nat} (hv : v < n) : (u * n + v) % n = v := by
  rw [Nat.mul_comm, Nat.mul_add_mod, Nat.mod_eq_of_lt hv]

theorem index_inj {n u v a b : Nat} (hv : v < n) (hb : b < n) (h : a * n + b = u * n + v) : a = u ∧ b = v := by
  have h1 := index_div (u := a) hb
  have h2 := index_mod (u := a) hb
  rw [h] at h1 h2
  rw [index_div hv] at h1
  rw [index_mod hv] at h2
  exact ⟨h1.symm, h2.symm⟩

theorem cell_split {c i : Nat} : (c / 64 = i / 64 ∧ c % 64 = i % 64) ↔ c = i := by omega

/-! ## cells -/

theorem hasArc_eq (d : AdjMatrix) (u v : Nat) :
    d.hasArc u v = (decide (u < d.order) && decide (v < d.order) && d.cell (d.index u v)) := by
  unfold hasArc cell
  by_cases hu : u < d.order <;> by_cases hv : v < d.order
  · have h1 : ¬ (u ≥ d.order) := by omega
    have h2 : ¬ (v ≥ d.order) := by omega
    simp only [ge_iff_le, h1, h2, decide_false, Bool.or_self, Bool.false_eq_true, if_false, hu, hv,
      decide_true, Bool.and_self, Bool.true_and]
    exact and_mask_ne_zero _ _
  · have h2 : v ≥ d.order := by omega
    simp [hv, h2]
  · have h1 : u ≥ d.order := by omega
    simp [hu, h1]
  · have h1 : u ≥ d.order := by omega
    simp [hu, h1]

theorem cell_setBlock (d : AdjMatrix) (i : Nat) (f : BitVec 64 → BitVec 64) (hi : i / 64 < d.blocks.length)
    (c : Nat) : (d.setBlock i f).cell c =
      if c / 64 = i / 64 then (f (d.blocks[i / 64]?.getD 0#64)).getLsbD (c % 64) else d.cell c := by
  unfold setBlock cell
  simp only [List.getElem?_set]
  by_cases h : c / 64 = i / 64
  · rw [h]; simp only [if_true, hi, Option.getD_some]
  · have : ¬ i / 64 = c / 64 := fun e => h e.symm
    simp only [h, this, if_false]

theorem cell_or (d : AdjMatrix) (i : Nat) (hi : i / 64 < d.blocks.length) (c : Nat) :
    (d.setBlock i (· ||| mask i)).cell c = (d.cell c || decide (c = i)) := by
  rw [cell_setBlock d i _ hi]
  have hc : c % 64 < 64 := Nat.mod_lt _ (by decide)
  by_cases h : c / 64 = i / 64
  · simp only [h, if_true, BitVec.getLsbD_or, getLsbD_mask i _ hc]
    unfold cell; rw [h]
    congr 1
    by_cases e : c % 64 = i % 64
    · have := cell_split.mp ⟨h, e⟩; simp [this]
    · have : ¬ c = i := fun x => e (by rw [x]); simp [e, this]
  · have : ¬ c = i := fun x => h (by rw [x])
    simp [h, this]

theorem cell_xor (d : AdjMatrix) (i : Nat) (hi : i / 64 < d.blocks.length) (c : Nat) :
    (d.setBlock i (· ^^^ mask i)).cell c = (d.cell c ^^ decide (c = i)) := by
  rw [cell_setBlock d i _ hi]
  have hc : c % 64 < 64 := Nat.mod_lt _ (by decide)
  by_cases h : c / 64 = i / 64
  · simp only [h, if_true, BitVec.getLsbD_xor, getLsbD_mask i _ hc]
    unfold cell; rw [h]
    congr 1
    by_cases e : c % 64 = i % 64
    · have := cell_split.mp ⟨h, e⟩; simp [this]
    · have : ¬ c = i := fun x => e (by rw [x]); simp [e, this]
  · have : ¬ c = i := fun x => h (by rw [x])
    simp [h, this]

theorem cell_andnot (d : AdjMatrix) (i : Nat) (hi : i / 64 < d.blocks.length) (c : Nat) :
    (d.setBlock i (· &&& ~~~ mask i)).cell c = (d.cell c && !decide (c = i)) := by
  rw [cell_setBlock d i _ hi]
  have hc : c % 64 < 64 := Nat.mod_lt _ (by decide)
  by_cases h : c / 64 = i / 64
  · simp only [h, if_true, BitVec.getLsbD_and, BitVec.getLsbD_not, hc, decide_true, Bool.true_and,
      getLsbD_mask i _ hc]
    unfold cell; rw [h]
    congr 1
    by_cases e : c % 64 = i % 64
    · have := cell_split.mp ⟨h, e⟩; simp [this]
    · have : ¬ c = i := fun x => e (by rw [x]); simp [e, this]
  · have : ¬ c = i := fun x => h (by rw [x])
    simp [h, this]

@[simp] theorem setBlock_order (d : AdjMatrix) (i : Nat) (f : BitVec 64 → BitVec 64) :
    (d.setBlock i f).order = d.order := rfl

@[simp] theorem setBlock_length (d : AdjMatrix) (i : Nat) (f : BitVec 64 → BitVec 64) :
    (d.setBlock i f).blocks.length = d.blocks.length := by simp [setBlock]

theorem block_lt (d : AdjMatrix) (h : d.WF) {u v : Nat} (hu : u < d.order) (hv : v < d.order) :
    d.index u v / 64 < d.blocks.length := by
  have := index_lt hu hv
  rw [h.2.1]; unfold index; omega

/-! ## `empty` -/

theorem cell_replicate (m c : Nat) : (AdjMatrix.mk (List.replicate m 0#64) n).cell c = false := by
  unfold cell
  simp only [List.getElem?_replicate]
  split <;> simp

theorem empty_WF {n : Nat} {d : AdjMatrix} (h : empty n = some d) : d.WF := by
  unfold empty at h
  split at h
  · cases h
  · rename_i hn
    split at h
    · cases h
    · cases h
      exact ⟨Nat.pos_of_ne_zero hn, by simp, fun c _ => cell_replicate _ c, fun u _ => cell_replicate _ _⟩

theorem abs_empty {n : Nat} {d : AdjMatrix} (h : empty n = some d) : d.abs = emptySpec Unit n := by
  unfold empty at h
  split at h
  · cases h
  · split at h
    · cases h
    · cases h
      apply SpecState.ext
      · intro x; rfl
      · intro u v
        simp only [abs, emptySpec, hasArc_eq, cell_replicate]
        simp

/-! ## calls -/

theorem guard_eq_none_iff (d : AdjMatrix) (u v : Nat) (x : AdjMatrix) :
    (if u = v then none else if ¬ u < d.order then none else if ¬ v < d.order then none else some x) = none ↔
      rejected .fixed d.abs u v = true := by
  simp only [abs, rejected_fixed_range]
  by_cases h1 : u = v <;> by_cases h2 : u < d.order <;> by_cases h3 : v < d.order <;> simp [h1, h2, h3]

theorem guard_some {d : AdjMatrix} {u v : Nat} (x : AdjMatrix) (h : rejected .fixed d.abs u v = false) :
    (if u = v then none else if ¬ u < d.order then none else if ¬ v < d.order then none else some x) = some x ∧
      u ≠ v ∧ u < d.order ∧ v < d.order := by
  simp only [abs, rejected_fixed_range] at h
  by_cases h1 : u = v <;> by_cases h2 : u < d.order <;> by_cases h3 : v < d.order <;> simp_all

/-- Well-formedness after rewriting one off-diagonal, in-range cell. -/
theorem WF_setBlock (d : AdjMatrix) (h : d.WF) {u v : Nat} (hu : u < d.order) (hv : v < d.order)
    (f : BitVec 64 → BitVec 64)
    (hcell : ∀ c, c ≠ d.index u v → (d.setBlock (d.index u v) f).cell c = d.cell c) (huv : u ≠ v) :
    (d.setBlock (d.index u v) f).WF := by
  refine ⟨h.1, by simpa using h.2.1, ?_, ?_⟩
  · intro c hc
    have := index_lt hu hv
    simp only [setBlock_order] at hc
    rw [hcell c (by unfold index; omega)]
    exact h.2.2.1 c hc
  · intro a ha
    simp only [setBlock_order] at ha
    have hne : (d.setBlock (d.index u v) f).index a a ≠ d.index u v := by
      intro e
      unfold index at e
      simp only [setBlock_order] at e
      have := index_inj hv ha e
      exact huv (this.1.symm.trans this.2)
    rw [hcell _ hne]
    exact h.2.2.2 a ha

theorem step_WF (d : AdjMatrix) (op : MxOp) (h : d.WF) : (d.step op).1.WF := by
  cases op with
  | add u v =>
    simp only [step, addArc]
    cases hrej : rejected .fixed d.abs u v
    · obtain ⟨e, huv, hu, hv⟩ := guard_some (d.setBlock (d.index u v) (· ||| mask (d.index u v))) hrej
      rw [e, outOfOpt_some]
      apply WF_setBlock d h hu hv _ _ huv
      intro c hc
      rw [cell_or d _ (block_lt d h hu hv)]; simp [hc]
    · rw [(guard_eq_none_iff d u v _).mpr hrej, outOfOpt_none]; exact h
  | tog u v =>
    simp only [step, toggle]
    cases hrej : rejected .fixed d.abs u v
    · obtain ⟨e, huv, hu, hv⟩ := guard_some (d.setBlock (d.index u v) (· ^^^ mask (d.index u v))) hrej
      rw [e, outOfOpt_some]
      apply WF_setBlock d h hu hv _ _ huv
      intro c hc
      rw [cell_xor d _ (block_lt d h hu hv)]; simp [hc]
    · rw [(guard_eq_none_iff d u v _).mpr hrej, outOfOpt_none]; exact h
  | rem u v =>
    simp only [step, removeArc]
    by_cases hg : u < d.order ∧ v < d.order
    · obtain ⟨hu, hv⟩ := hg
      have h1 : ¬ (u ≥ d.order) := by omega
      have h2 : ¬ (v ≥ d.order) := by omega
      simp only [ge_iff_le, h1, h2, decide_false, Bool.or_self, Bool.false_eq_true, if_false, outOfRem]
      -- the diagonal cell may be addressed (`remove_arc(u, u)`): it is cleared, which changes nothing
      refine ⟨h.1, by simpa using h.2.1, ?_, ?_⟩
      · intro c hc
        rw [cell_andnot d _ (block_lt d h hu hv)]
        simp only [setBlock_order] at hc
        simp [h.2.2.1 c hc]
      · intro a ha
        rw [cell_andnot d _ (block_lt d h hu hv)]
        simp only [setBlock_order] at ha
        have := h.2.2.2 a ha
        unfold index at this ⊢
        simp only [setBlock_order]
        simp [this]
    · have : (decide (u ≥ d.order) || decide (v ≥ d.order)) = true := by
        simp only [Bool.or_eq_true, decide_eq_true_eq]; omega
      simp only [this, if_true, outOfRem]; exact h

theorem hasArc_of_cells (d d' : AdjMatrix) (ho : d'.order = d.order) (a b : Nat) :
    d'.hasArc a b = (decide (a < d.order) && decide (b < d.order) && d'.cell (d.index a b)) := by
  rw [hasArc_eq, ho]; unfold index; rw [ho]

theorem hasArc_setBlock (d : AdjMatrix) (i : Nat) (f : BitVec 64 → BitVec 64) (a b : Nat) :
    (d.setBlock i f).hasArc a b =
      (decide (a < d.order) && decide (b < d.order) && (d.setBlock i f).cell (d.index a b)) :=
  hasArc_of_cells d (d.setBlock i f) rfl a b

theorem step_refines (d : AdjMatrix) (op : MxOp) (h : d.WF) :
    (d.step op).1.abs = (specStepMx d.abs op).1 ∧ (d.step op).2 = (specStepMx d.abs op).2 := by
  cases op with
  | add u v =>
    simp only [step, addArc, specStepMx]
    cases hrej : rejected .fixed d.abs u v
    · obtain ⟨e, huv, hu, hv⟩ := guard_some (d.setBlock (d.index u v) (· ||| mask (d.index u v))) hrej
      rw [e, outOfOpt_some, specStep_add_ok _ hrej]
      refine ⟨?_, rfl⟩
      apply SpecState.ext
      · intro x; rfl
      · intro a b
        simp only [abs, setW]
        have key : (d.setBlock (d.index u v) (· ||| mask (d.index u v))).hasArc a b =
            (decide (a < d.order) && decide (b < d.order) && (d.cell (d.index a b) || decide (d.index a b = d.index u v))) := by
          rw [hasArc_setBlock, cell_or d _ (block_lt d h hu hv)]
        rw [key]
        by_cases hc : a = u ∧ b = v
        · obtain ⟨rfl, rfl⟩ := hc; simp [hu, hv]
        · simp only [hc, if_false]
          apply unitOf_congr
          rw [hasArc_eq]
          by_cases ha : a < d.order <;> by_cases hb : b < d.order <;> simp [ha, hb]
          intro e'
          unfold index at e'
          exact absurd (index_inj hv hb e') hc
    · rw [(guard_eq_none_iff d u v _).mpr hrej, outOfOpt_none, specStep_add_rej _ hrej]
      exact ⟨rfl, rfl⟩
  | tog u v =>
    simp only [step, toggle]
    cases hrej : rejected .fixed d.abs u v
    · obtain ⟨e, huv, hu, hv⟩ := guard_some (d.setBlock (d.index u v) (· ^^^ mask (d.index u v))) hrej
      rw [e, outOfOpt_some, specStepMx_tog_ok hrej]
      refine ⟨?_, rfl⟩
      apply SpecState.ext
      · intro x; rfl
      · intro a b
        simp only [abs, setW, SpecState.A, unitOf_isSome]
        have key : (d.setBlock (d.index u v) (· ^^^ mask (d.index u v))).hasArc a b =
            (decide (a < d.order) && decide (b < d.order) && (d.cell (d.index a b) ^^ decide (d.index a b = d.index u v))) := by
          rw [hasArc_setBlock, cell_xor d _ (block_lt d h hu hv)]
        rw [key]
        by_cases hc : a = u ∧ b = v
        · obtain ⟨rfl, rfl⟩ := hc
          rw [hasArc_eq]
          simp only [hu, hv, decide_true, Bool.and_self, Bool.true_and, and_self, if_true, Bool.xor_true]
          cases d.cell (d.index a b) <;> simp
        · simp only [hc, if_false]
          apply unitOf_congr
          rw [hasArc_eq]
          by_cases ha : a < d.order <;> by_cases hb : b < d.order <;> simp [ha, hb]
          have : ¬ d.index a b = d.index u v := by
            intro e'
            unfold index at e'
            exact absurd (index_inj hv hb e') hc
          simp [this]
    · rw [(guard_eq_none_iff d u v _).mpr hrej, outOfOpt_none, specStepMx_tog_rej hrej]
      exact ⟨rfl, rfl⟩
  | rem u v =>
    simp only [step, removeArc, specStepMx, specStep]
    by_cases hg : u < d.order ∧ v < d.order
    · obtain ⟨hu, hv⟩ := hg
      have h1 : ¬ (u ≥ d.order) := by omega
      have h2 : ¬ (v ≥ d.order) := by omega
      simp only [ge_iff_le, h1, h2, decide_false, Bool.or_self, Bool.false_eq_true, if_false, outOfRem]
      refine ⟨?_, by simp [abs, SpecState.A]⟩
      apply SpecState.ext
      · intro x; rfl
      · intro a b
        simp only [abs, setW]
        have key : (d.setBlock (d.index u v) (· &&& ~~~ mask (d.index u v))).hasArc a b =
            (decide (a < d.order) && decide (b < d.order) && (d.cell (d.index a b) && !decide (d.index a b = d.index u v))) := by
          rw [hasArc_setBlock, cell_andnot d _ (block_lt d h hu hv)]
        rw [key]
        by_cases hc : a = u ∧ b = v
        · obtain ⟨rfl, rfl⟩ := hc; simp
        · simp only [hc, if_false]
          apply unitOf_congr
          rw [hasArc_eq]
          by_cases ha : a < d.order <;> by_cases hb : b < d.order <;> simp [ha, hb]
          intro _ e'
          unfold index at e'
          exact absurd (index_inj hv hb e') hc
    · have hgd : (decide (u ≥ d.order) || decide (v ≥ d.order)) = true := by
        simp only [Bool.or_eq_true, decide_eq_true_eq]; omega
      have hno : d.hasArc u v = false := by
        rw [hasArc_eq]
        by_cases hu : u < d.order <;> by_cases hv : v < d.order <;> simp [hu, hv]
        exact absurd ⟨hu, hv⟩ hg
      simp only [hgd, if_true, outOfRem]
      refine ⟨?_, by simp [abs, SpecState.A, hno]⟩
      apply SpecState.ext
      · intro x; rfl
      · intro a b
        simp only [abs, setW]
        split
        · rename_i hc; obtain ⟨rfl, rfl⟩ := hc; simp [hno]
        · rfl

/-- A rejected call panics and leaves the matrix unchanged. -/
theorem step_rejects (d : AdjMatrix) (u v : Nat) (h : rejected .fixed d.abs u v = true) :
    d.step (.add u v) = (d, .panic) ∧ d.step (.tog u v) = (d, .panic) := by
  constructor
  · simp only [step, addArc, (guard_eq_none_iff d u v _).mpr h, outOfOpt_none]
  · simp only [step, toggle, (guard_eq_none_iff d u v _).mpr h, outOfOpt_none]

theorem run_refines (ops : List MxOp) (d : AdjMatrix) (h : d.WF) :
    (run step d ops).1.WF ∧ (run step d ops).1.abs = (run specStepMx d.abs ops).1 ∧
    (run step d ops).2 = (run specStepMx d.abs ops).2 :=
  run_refines_gen step specStepMx WF abs step_WF step_refines ops d h

/-! ## reads -/

theorem cells_cover (d : AdjMatrix) (h : d.WF) : d.order * d.order ≤ 64 * d.blocks.length := by
  rw [h.2.1]; omega

theorem mem_arcs (d : AdjMatrix) (h : d.WF) (u v : Nat) : (u, v) ∈ d.arcs ↔ d.abs.A u v = true := by
  have hn := h.1
  simp only [arcs, List.mem_map, List.mem_filter, List.mem_range, Bool.and_eq_true, decide_eq_true_eq,
    Prod.mk.injEq, abs, SpecState.A, unitOf_isSome, hasArc_eq]
  constructor
  · rintro ⟨c, ⟨_, hcell, hlt⟩, rfl, rfl⟩
    have hv : c % d.order < d.order := Nat.mod_lt _ hn
    have hu : c / d.order < d.order := (Nat.div_lt_iff_lt_mul hn).mpr hlt
    have : d.index (c / d.order) (c % d.order) = c := by
      unfold index; rw [Nat.mul_comm]; exact Nat.div_add_mod c d.order
    simp [hu, hv, this, hcell]
  · intro hh
    obtain ⟨⟨hu, hv⟩, hcell⟩ := hh
    have hlt := index_lt hu hv
    refine ⟨d.index u v, ⟨?_, hcell, hlt⟩, index_div hv, index_mod hv⟩
    have := cells_cover d h
    unfold index; omega

theorem lex_of_lt {n c₁ c₂ : Nat} (_hn : 0 < n) (h : c₁ < c₂) :
    pairLt (c₁ / n, c₁ % n) (c₂ / n, c₂ % n) = true := by
  simp only [pairLt, Bool.or_eq_true, decide_eq_true_eq, Bool.and_eq_true, beq_iff_eq]
  have hle : c₁ / n ≤ c₂ / n := Nat.div_le_div_right (Nat.le_of_lt h)
  by_cases e : c₁ / n = c₂ / n
  · right
    refine ⟨e, ?_⟩
    have a := Nat.div_add_mod c₁ n
    have b := Nat.div_add_mod c₂ n
    rw [e] at a
    omega
  · left; omega

/-- `arcs()` lists every arc exactly once, in ascending lexicographic order. -/
theorem arcs_sorted_nodup (d : AdjMatrix) (h : d.WF) :
    d.arcs.Pairwise (fun a b => pairLt a b = true) ∧ d.arcs.Nodup ∧
    ∀ u v, (u, v) ∈ d.arcs ↔ d.abs.A u v = true := by
  have hp : d.arcs.Pairwise (fun a b => pairLt a b = true) := by
    simp only [arcs, List.pairwise_map]
    apply List.Pairwise.imp (fun hab => lex_of_lt h.1 hab)
    exact List.Pairwise.filter _ List.pairwise_lt_range
  exact ⟨hp, sortedP_nodup hp, mem_arcs d h⟩

theorem vertices_spec (d : AdjMatrix) :
    d.vertices = List.range d.order ∧ ∀ x, x ∈ d.vertices ↔ d.abs.V x = true := by
  refine ⟨rfl, ?_⟩
  intro x; simp [vertices, abs]

/-- `size()` (sum of the population counts, modelled as the number of set cells) is `|A|`. -/
theorem size_eq (d : AdjMatrix) (h : d.WF) : d.size = d.arcs.length := by
  simp only [size, arcs, List.length_map]
  congr 1
  apply List.filter_congr
  intro c _
  cases hc : d.cell c
  · simp
  · have : c < d.order * d.order := by
      apply Nat.lt_of_not_le
      intro hle
      rw [h.2.2.1 c hle] at hc; cases hc
    simp [this]

theorem abs_valid (d : AdjMatrix) (h : d.WF) : d.abs.Valid := by
  intro u v huv
  simp only [abs, SpecState.A, unitOf_isSome, hasArc_eq, Bool.and_eq_true, decide_eq_true_eq] at huv
  obtain ⟨⟨hu, hv⟩, hcell⟩ := huv
  simp only [abs, decide_eq_true_eq]
  refine ⟨?_, hu, hv⟩
  rintro rfl
  rw [h.2.2.2 u hu] at hcell; cases hcell

/-- The cells are determined by the abstract digraph. -/
theorem cell_of_abs (d : AdjMatrix) (h : d.WF) (c : Nat) :
    d.cell c = (decide (c < d.order * d.order) && d.hasArc (c / d.order) (c % d.order)) := by
  by_cases hc : c < d.order * d.order
  · have hn := h.1
    have hv : c % d.order < d.order := Nat.mod_lt _ hn
    have hu : c / d.order < d.order := (Nat.div_lt_iff_lt_mul hn).mpr hc
    have : d.index (c / d.order) (c % d.order) = c := by
      unfold index; rw [Nat.mul_comm]; exact Nat.div_add_mod c d.order
    simp [hasArc_eq, hc, hu, hv, this]
  · simp only [hc, decide_false, Bool.false_and]
    exact h.2.2.1 c (by omega)

theorem block_ext (b₁ b₂ : List (BitVec 64)) (hl : b₁.length = b₂.length)
    (h : ∀ c, (b₁[c / 64]?.getD 0#64).getLsbD (c % 64) = (b₂[c / 64]?.getD 0#64).getLsbD (c % 64)) : b₁ = b₂ := by
  apply List.ext_getElem hl
  intro j h1 h2
  apply BitVec.eq_of_getLsbD_eq
  intro k hk
  have := h (64 * j + k)
  have e1 : (64 * j + k) / 64 = j := by omega
  have e2 : (64 * j + k) % 64 = k := by omega
  rw [e1, e2] at this
  simpa [List.getElem?_eq_getElem h1, List.getElem?_eq_getElem h2] using this

/-- C20: a well-formed `AdjacencyMatrix` is determined by its abstract digraph (no residue bits,
block count fixed by the order). -/
theorem abs_injective (d₁ d₂ : AdjMatrix) (h₁ : d₁.WF) (h₂ : d₂.WF) : d₁.abs = d₂.abs ↔ d₁ = d₂ := by
  constructor
  · intro h
    have hV : d₁.order = d₂.order := lt_of_decide_lt_eq (congrArg SpecState.V h)
    have hA : ∀ u v, d₁.hasArc u v = d₂.hasArc u v := fun u v =>
      unitOf_inj (congrFun (congrFun (congrArg SpecState.W h) u) v)
    have hb : d₁.blocks = d₂.blocks := by
      apply block_ext _ _ (by rw [h₁.2.1, h₂.2.1, hV])
      intro c
      have a := cell_of_abs d₁ h₁ c
      have b := cell_of_abs d₂ h₂ c
      unfold cell at a b
      rw [a, b, hV, hA]
    cases d₁; cases d₂; simp_all
  · rintro rfl; rfl

end GraafVerif.Repr.AdjMatrix
