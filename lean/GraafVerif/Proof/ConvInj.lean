import GraafVerif.Proof.Conv
/-!
# C16: a well-formed representation is determined by its order and arc set

(`abs` is injective on well-formed digraphs — the C20 fact the round-trip theorems need.)
Hence converting there and back returns the very same structure.
-/
namespace GraafVerif.Conv
open GraafVerif.Repr GraafVerif.Gen

theorem AL.ext_arcs {d₁ d₂ : AdjList} (h₁ : d₁.WF) (h₂ : d₂.WF) (ho : d₁.order = d₂.order)
    (ha : ∀ u v, (u, v) ∈ d₁.arcs ↔ (u, v) ∈ d₂.arcs) : d₁ = d₂ := by
  cases d₁ with | mk r₁ => cases d₂ with | mk r₂ =>
  have hlen : r₁.length = r₂.length := ho
  congr 1
  apply List.ext_getElem?
  intro i
  by_cases hi : i < r₁.length
  · have hi2 : i < r₂.length := by omega
    rw [List.getElem?_eq_getElem hi, List.getElem?_eq_getElem hi2]
    congr 1
    apply sortedS_ext (h₁.2 i _ (List.getElem?_eq_getElem hi)).1 (h₂.2 i _ (List.getElem?_eq_getElem hi2)).1
    intro v
    have := ha i v
    rw [Gen.AL.mem_arcs, Gen.AL.mem_arcs] at this
    constructor
    · intro hv
      obtain ⟨row, hrow, hv'⟩ := this.mp ⟨_, List.getElem?_eq_getElem hi, hv⟩
      have hrow' : r₂[i]? = some row := hrow
      rw [List.getElem?_eq_getElem hi2] at hrow'
      rw [Option.some.inj hrow']; exact hv'
    · intro hv
      obtain ⟨row, hrow, hv'⟩ := this.mpr ⟨_, List.getElem?_eq_getElem hi2, hv⟩
      have hrow' : r₁[i]? = some row := hrow
      rw [List.getElem?_eq_getElem hi] at hrow'
      rw [Option.some.inj hrow']; exact hv'
  · rw [List.getElem?_eq_none (by omega), List.getElem?_eq_none (by omega)]

theorem EL.ext_arcs {d₁ d₂ : EdgeList} (h₁ : d₁.WF) (h₂ : d₂.WF) (ho : d₁.order = d₂.order)
    (ha : ∀ u v, (u, v) ∈ d₁.arcs ↔ (u, v) ∈ d₂.arcs) : d₁ = d₂ := by
  cases d₁ with | mk a₁ o₁ => cases d₂ with | mk a₂ o₂ =>
  have : o₁ = o₂ := ho
  subst this
  congr 1
  exact sortedP_ext h₁.2.1 h₂.2.1 (fun a => ha a.1 a.2)

/-- in a well-formed matrix every cell is determined by the arc set -/
theorem MX.cell_iff {d : AdjMatrix} (h : d.WF) (c : Nat) :
    d.cell c = true ↔ c < d.order * d.order ∧ (c / d.order, c % d.order) ∈ d.arcs := by
  have hn := h.1
  constructor
  · intro hc
    have hlt : c < d.order * d.order := by
      by_cases hlt : c < d.order * d.order
      · exact hlt
      · rw [h.2.2.1 c (by omega)] at hc; cases hc
    refine ⟨hlt, ?_⟩
    rw [Gen.MX.mem_arcs hn]
    refine ⟨(Nat.div_lt_iff_lt_mul hn).mpr hlt, Nat.mod_lt _ hn, ?_⟩
    unfold AdjMatrix.index
    rw [Nat.mul_comm, Nat.div_add_mod]; exact hc
  · rintro ⟨_, hmem⟩
    rw [Gen.MX.mem_arcs hn] at hmem
    have := hmem.2.2
    unfold AdjMatrix.index at this
    rw [Nat.mul_comm, Nat.div_add_mod] at this; exact this

theorem MX.ext_arcs {d₁ d₂ : AdjMatrix} (h₁ : d₁.WF) (h₂ : d₂.WF) (ho : d₁.order = d₂.order)
    (ha : ∀ u v, (u, v) ∈ d₁.arcs ↔ (u, v) ∈ d₂.arcs) : d₁ = d₂ := by
  have hcell : ∀ c, d₁.cell c = d₂.cell c := by
    intro c
    have e1 := MX.cell_iff h₁ c
    have e2 := MX.cell_iff h₂ c
    rw [ho, ha] at e1
    cases hc1 : d₁.cell c <;> cases hc2 : d₂.cell c <;> simp_all
  cases d₁ with | mk b₁ o₁ => cases d₂ with | mk b₂ o₂ =>
  have : o₁ = o₂ := ho
  subst this
  have hlen : b₁.length = b₂.length := by
    have l1 : b₁.length = (o₁ * o₁ + 63) / 64 := h₁.2.1
    have l2 : b₂.length = (o₁ * o₁ + 63) / 64 := h₂.2.1
    omega
  congr 1
  apply List.ext_getElem?
  intro i
  by_cases hi : i < b₁.length
  · have hi2 : i < b₂.length := by omega
    rw [List.getElem?_eq_getElem hi, List.getElem?_eq_getElem hi2]
    congr 1
    apply BitVec.eq_of_getLsbD_eq
    intro j hj
    have := hcell (64 * i + j)
    unfold AdjMatrix.cell at this
    have e1 : (64 * i + j) / 64 = i := by omega
    have e2 : (64 * i + j) % 64 = j := by omega
    simp only [e1, e2, List.getElem?_eq_getElem hi, List.getElem?_eq_getElem hi2, Option.getD_some] at this
    exact this
  · rw [List.getElem?_eq_none (by omega), List.getElem?_eq_none (by omega)]

/-- two key-ascending lists with the same entries are equal -/
theorem sortedK_ext {X : Type} {l₁ l₂ : List (Nat × X)} (h₁ : SortedK l₁) (h₂ : SortedK l₂)
    (h : ∀ p, p ∈ l₁ ↔ p ∈ l₂) : l₁ = l₂ := by
  induction l₁ generalizing l₂ with
  | nil =>
    cases l₂ with
    | nil => rfl
    | cons b bs => exact absurd ((h b).mpr (List.mem_cons_self ..)) (by simp)
  | cons a as ih =>
    cases l₂ with
    | nil => exact absurd ((h a).mp (List.mem_cons_self ..)) (by simp)
    | cons b bs =>
      rw [sortedK_cons] at h₁ h₂
      have hab : a = b := by
        have h1 := (h a).mp (List.mem_cons_self ..)
        have h2 := (h b).mpr (List.mem_cons_self ..)
        rcases List.mem_cons.mp h1 with e | h1
        · exact e
        · rcases List.mem_cons.mp h2 with e | h2
          · exact e.symm
          · have := h₂.1 a h1; have := h₁.1 b h2; omega
      subst hab
      congr 1
      apply ih h₁.2 h₂.2
      intro c
      constructor
      · intro hc
        have := (h c).mp (List.mem_cons_of_mem _ hc)
        rcases List.mem_cons.mp this with e | h'
        · subst e; have := h₁.1 c hc; omega
        · exact h'
      · intro hc
        have := (h c).mpr (List.mem_cons_of_mem _ hc)
        rcases List.mem_cons.mp this with e | h'
        · subst e; have := h₂.1 c hc; omega
        · exact h'

theorem AM.ext_arcs {d₁ d₂ : AdjMap} (h₁ : d₁.WF) (c₁ : Gen.AM.Contiguous d₁) (h₂ : d₂.WF)
    (c₂ : Gen.AM.Contiguous d₂) (ho : d₁.order = d₂.order)
    (ha : ∀ u v, (u, v) ∈ d₁.arcs ↔ (u, v) ∈ d₂.arcs) : d₁ = d₂ := by
  have key : ∀ {e₁ e₂ : AdjMap}, e₁.WF → Gen.AM.Contiguous e₁ → e₂.WF → Gen.AM.Contiguous e₂ →
      e₁.order = e₂.order → (∀ u v, (u, v) ∈ e₁.arcs ↔ (u, v) ∈ e₂.arcs) →
      ∀ p, p ∈ e₁.rows → p ∈ e₂.rows := by
    intro e₁ e₂ w₁ k₁ w₂ k₂ ho ha p hp
    obtain ⟨k, row⟩ := p
    have hk : k < e₁.order := (Gen.AM.mem_keys_iff k₁).mp (mem_keys_of_mem hp)
    have hk2 : k ∈ e₂.rows.map (·.1) := (Gen.AM.mem_keys_iff k₂).mpr (by omega)
    obtain ⟨⟨k', row₂⟩, hc, hcb⟩ := List.mem_map.mp hk2
    simp only at hcb; subst hcb
    have : row = row₂ := by
      apply sortedS_ext (w₁.2 k' row hp).1 (w₂.2 k' row₂ hc).1
      intro v
      have := ha k' v
      rw [Gen.AM.mem_arcs, Gen.AM.mem_arcs] at this
      constructor
      · intro hv
        obtain ⟨r, hr, hv'⟩ := this.mp ⟨row, hp, hv⟩
        rw [sortedK_unique w₂.1 hc hr]; exact hv'
      · intro hv
        obtain ⟨r, hr, hv'⟩ := this.mpr ⟨row₂, hc, hv⟩
        rw [sortedK_unique w₁.1 hp hr]; exact hv'
    subst this; exact hc
  cases d₁ with | mk r₁ => cases d₂ with | mk r₂ =>
  congr 1
  apply sortedK_ext h₁.1 h₂.1
  intro p
  exact ⟨key h₁ c₁ h₂ c₂ ho ha p, key h₂ c₂ h₁ c₁ ho.symm (fun u v => (ha u v).symm) p⟩

/-! ## Round trips: there and back is the identity on the structure

Stated once per source representation, for ANY way back that preserves order and arcs (which
every conversion does, `to*_spec`). -/

theorem roundtrip_AL {d d' : AdjList} (hwf : d.WF) (hwf' : d'.WF) {o : Nat} {arcs : List (Nat × Nat)}
    (hmid : o = d.order ∧ ∀ u v, (u, v) ∈ arcs ↔ (u, v) ∈ d.arcs)
    (hback : d'.order = o ∧ ∀ u v, (u, v) ∈ d'.arcs ↔ (u, v) ∈ arcs) : d' = d :=
  AL.ext_arcs hwf' hwf (by rw [hback.1, hmid.1]) (fun u v => by rw [hback.2, hmid.2])

theorem roundtrip_EL {d d' : EdgeList} (hwf : d.WF) (hwf' : d'.WF) {o : Nat} {arcs : List (Nat × Nat)}
    (hmid : o = d.order ∧ ∀ u v, (u, v) ∈ arcs ↔ (u, v) ∈ d.arcs)
    (hback : d'.order = o ∧ ∀ u v, (u, v) ∈ d'.arcs ↔ (u, v) ∈ arcs) : d' = d :=
  EL.ext_arcs hwf' hwf (by rw [hback.1, hmid.1]) (fun u v => by rw [hback.2, hmid.2])

theorem roundtrip_MX {d d' : AdjMatrix} (hwf : d.WF) (hwf' : d'.WF) {o : Nat} {arcs : List (Nat × Nat)}
    (hmid : o = d.order ∧ ∀ u v, (u, v) ∈ arcs ↔ (u, v) ∈ d.arcs)
    (hback : d'.order = o ∧ ∀ u v, (u, v) ∈ d'.arcs ↔ (u, v) ∈ arcs) : d' = d :=
  MX.ext_arcs hwf' hwf (by rw [hback.1, hmid.1]) (fun u v => by rw [hback.2, hmid.2])

theorem roundtrip_AM {d d' : AdjMap} (hwf : d.WF) (hc : Gen.AM.Contiguous d) (hwf' : d'.WF)
    (hc' : Gen.AM.Contiguous d') {o : Nat} {arcs : List (Nat × Nat)}
    (hmid : o = d.order ∧ ∀ u v, (u, v) ∈ arcs ↔ (u, v) ∈ d.arcs)
    (hback : d'.order = o ∧ ∀ u v, (u, v) ∈ d'.arcs ↔ (u, v) ∈ arcs) : d' = d :=
  AM.ext_arcs hwf' hc' hwf hc (by rw [hback.1, hmid.1]) (fun u v => by rw [hback.2, hmid.2])

end GraafVerif.Conv
