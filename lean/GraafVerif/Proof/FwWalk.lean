import GraafVerif.Spec.Fw
/-!
# Walks with bounded interior: monotonicity, concatenation, and the splitting step (C08)
-/
namespace GraafVerif

theorem leO.refl (a : Option Int) : leO a a := fun y h => ⟨y, h, Int.le_refl y⟩

theorem leO.trans {a b c : Option Int} (h1 : leO a b) (h2 : leO b c) : leO a c := by
  intro z hz
  obtain ⟨y, hy, hyz⟩ := h2 z hz
  obtain ⟨x, hx, hxy⟩ := h1 y hy
  exact ⟨x, hx, Int.le_trans hxy hyz⟩

theorem leO_none (a : Option Int) : leO a none := by intro y h; cases h

theorem leO_some {x y : Int} (h : x ≤ y) : leO (some x) (some y) := by
  intro z hz; cases hz; exact ⟨x, rfl, h⟩

namespace WalkIn
variable {g : WGraph}

theorem mono {K K' u v : Nat} {wt : Int} (hK : K ≤ K') (h : WalkIn g K u v wt) : WalkIn g K' u v wt := by
  induction h with
  | nil => exact .nil _
  | one a => exact .one a
  | snoc _ hx a ih => exact .snoc ih (by omega) a

theorem toWWalk {K u v : Nat} {wt : Int} (h : WalkIn g K u v wt) : ∃ k, WWalk g u v k wt := by
  induction h with
  | nil => exact ⟨0, .nil _⟩
  | @one v w a => exact ⟨1, by simpa using WWalk.snoc (.nil _) a⟩
  | snoc _ _ a ih => obtain ⟨k, hk⟩ := ih; exact ⟨k+1, .snoc hk a⟩

theorem ofWWalk (hwf : g.WF) {u v k : Nat} {wt : Int} (h : WWalk g u v k wt) : WalkIn g g.n u v wt := by
  induction h with
  | nil => exact .nil _
  | snoc _ a ih => exact .snoc ih (hwf _ _ _ a).1 a

/-- Concatenation at a vertex `< K`. -/
theorem append {K x v : Nat} {w2 : Int} (h2 : WalkIn g K x v w2) :
    ∀ {u : Nat} {w1 : Int}, WalkIn g K u x w1 → x < K → WalkIn g K u v (w1 + w2) := by
  induction h2 with
  | nil => intro u w1 h1 _; simpa using h1
  | one a => intro u w1 h1 hx; exact .snoc h1 hx a
  | snoc _ hy a ih =>
    intro u w1 h1 hx
    have := WalkIn.snoc (ih h1 hx) hy a
    simpa [Int.add_assoc] using this

end WalkIn

theorem WWalk.zero_weight {g : WGraph} {u v : Nat} {wt : Int} (h : WWalk g u v 0 wt) : wt = 0 := by
  cases h; rfl

/-- Without negative circuits every closed walk has weight `≥ 0`. -/
theorem WalkIn.closed_nonneg {g : WGraph} (hnc : g.NoNegCycle) {K x : Nat} {w : Int}
    (h : WalkIn g K x x w) : 0 ≤ w := by
  obtain ⟨k, hk⟩ := h.toWWalk
  cases k with
  | zero => rw [hk.zero_weight]; exact Int.le_refl 0
  | succ k =>
    apply Int.not_lt.mp
    intro hneg
    exact hnc x ⟨k+1, w, Nat.succ_pos k, hk, hneg⟩

/-- The walk-splitting step of Floyd-Warshall: a walk with interior `< K+1` either avoids `K`
as an interior vertex, or decomposes into `u → K` and `K → v` with interior `< K` that are
together no heavier (the closed walks at `K` in between weigh `≥ 0`). -/
theorem WalkIn.split {g : WGraph} (hnc : g.NoNegCycle) {K u v : Nat} {wt : Int}
    (h : WalkIn g (K+1) u v wt) :
    WalkIn g K u v wt ∨ ∃ w1 w2, WalkIn g K u K w1 ∧ WalkIn g K K v w2 ∧ w1 + w2 ≤ wt := by
  induction h with
  | nil => exact .inl (.nil _)
  | one a => exact .inl (.one a)
  | @snoc x v wt w _ hx a ih =>
    rcases ih with ih | ⟨w1, w2, h1, h2, hle⟩
    · by_cases hxK : x < K
      · exact .inl (.snoc ih hxK a)
      · have : x = K := by omega
        subst this
        exact .inr ⟨wt, w, ih, .one a, Int.le_refl _⟩
    · by_cases hxK : x < K
      · exact .inr ⟨w1, w2 + w, h1, .snoc h2 hxK a, by omega⟩
      · have : x = K := by omega
        subst this
        have h0 : 0 ≤ w2 := h2.closed_nonneg hnc
        exact .inr ⟨w1, w, h1, .one a, by omega⟩

end GraafVerif
