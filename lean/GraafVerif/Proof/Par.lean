import GraafVerif.Model.Par
/-! `chunks_tile`: the per-thread ranges are disjoint, ascending and cover `0..n`, for every thread count. -/
namespace GraafVerif.Par

theorem go_spec (n chunk : Nat) (hc : 0 < chunk) :
    ∀ fuel id, id * chunk ≤ n → n ≤ (id + fuel) * chunk →
      expand (ranges.go n chunk fuel id) = List.range' (id * chunk) (n - id * chunk) := by
  intro fuel
  induction fuel with
  | zero =>
    intro id h1 h2
    have : n = id * chunk := by simp at h2; omega
    simp [ranges.go, expand, this]
  | succ fuel ih =>
    intro id h1 h2
    unfold ranges.go
    simp only []
    by_cases hge : id * chunk ≥ min n (id * chunk + chunk)
    · have : n = id * chunk := by
        rcases Nat.le_total n (id * chunk + chunk) with h | h
        · rw [Nat.min_eq_left h] at hge; omega
        · rw [Nat.min_eq_right h] at hge; omega
      simp [hge, expand, this]
    · simp only [hge, if_false]
      have hlt : id * chunk < n := by
        rcases Nat.le_total n (id * chunk + chunk) with h | h
        · rw [Nat.min_eq_left h] at hge; omega
        · omega
      by_cases hfull : id * chunk + chunk ≤ n
      · rw [Nat.min_eq_right hfull]
        have hnext : (id + 1) * chunk = id * chunk + chunk := by rw [Nat.add_mul]; simp
        have := ih (id+1) (by omega) (by rw [Nat.add_assoc, Nat.add_comm 1 fuel]; exact h2)
        simp only [expand, List.flatMap_cons] at this ⊢
        rw [this, hnext]
        have : id * chunk + chunk - id * chunk = chunk := by omega
        rw [this]
        have h3 : n - id * chunk = chunk + (n - (id * chunk + chunk)) := by omega
        rw [h3, List.range'_append_1] 
      · have hmin : min n (id * chunk + chunk) = n := Nat.min_eq_left (by omega)
        rw [hmin]
        -- next range is empty: start' = (id+1)*chunk ≥ n
        have hnext : (id + 1) * chunk = id * chunk + chunk := by rw [Nat.add_mul]; simp
        have hrest : expand (ranges.go n chunk fuel (id+1)) = [] := by
          cases fuel with
          | zero => simp [ranges.go, expand]
          | succ f =>
            unfold ranges.go
            have : (id + 1) * chunk ≥ min n ((id + 1) * chunk + chunk) := by
              rw [hnext]; have : min n (id * chunk + chunk + chunk) ≤ n := Nat.min_le_left _ _; omega
            simp [this, expand]
        simp only [expand, List.flatMap_cons] at hrest ⊢
        rw [hrest]; simp

theorem chunks_tile (n t : Nat) (ht : 0 < t) (hn : 0 < n) : expand (ranges n t) = List.range n := by
  unfold ranges
  have hc : 0 < (n + t - 1) / t := Nat.div_pos (by omega) ht
  have hcov : n ≤ (0 + t) * ((n + t - 1) / t) := by
    simp
    have := Nat.div_add_mod (n + t - 1) t
    have hm := Nat.mod_lt (n + t - 1) ht
    omega
  have := go_spec n ((n + t - 1) / t) hc t 0 (by simp) hcov
  simpa [List.range_eq_range'] using this

end GraafVerif.Par
