import GraafVerif.Model.AlgoGen6
import GraafVerif.Proof.AlgoGen5Walk
import GraafVerif.Proof.AlgoGenFw
import GraafVerif.Model.Query
/-!
# Generated functions of set 6 (`Model/AlgoGen6.lean`) = the hand-written model functions

`AdjacencyList::indegree_sequence` (`Query.AL.indegreeSequence`), the `add_arc` / `add_arc_weighted` of `AdjacencyMap`,
`EdgeList`, `AdjacencyListWeighted` (`Model/Repr.lean`, panic conditions included), `FloydWarshall::new`, the four wrappers
of `PredecessorTree`, the default method of `ContiguousOrder`; the generated field lists of the five representation structs
= the hand-written `Repr.*` structures.
-/
set_option linter.unusedSimpArgs false
namespace GraafVerif.AlgoGenThm
open GraafVerif GraafVerif.AlgoGen GraafVerif.Repr

namespace AdjacencyList

/-! ## `AdjacencyList::indegree_sequence` -/

/-- `*ptr.add(v) += 1` inside the histogram = the hand-written `bump` -/
theorem indegreeSequence_for1_eq (h : List Nat) (v : Nat) (hv : v < h.length) :
    (AlgoGen.AdjacencyList.indegreeSequence_for1 h v : Blk (List Nat) (List Nat) _) = .ok (Query.AL.bump h v) := by
  unfold AlgoGen.AdjacencyList.indegreeSequence_for1 Query.AL.bump
  simp only [rd_lt _ _ _ hv, wr_lt _ _ _ _ hv, ok_bind, pure_eq_ok, List.getElem?_eq_getElem hv, Option.getD_some]

/-- outside the histogram it is an out-of-bounds access through the raw pointer -/
theorem indegreeSequence_for1_ub (h : List Nat) (v : Nat) (hv : h.length ≤ v) :
    (AlgoGen.AdjacencyList.indegreeSequence_for1 h v : Blk (List Nat) (List Nat) _) =
      .error (.err (.fault (.ub "repr/adjacency_list/mod.rs:indegree_sequence:ptr.add(v)"))) := by
  unfold AlgoGen.AdjacencyList.indegreeSequence_for1
  simp only [rd_ge _ _ _ hv]
  rfl

theorem indegree_row_fold (n : Nat) (row : List Nat) (hrow : ∀ v ∈ row, v < n) (h : List Nat) (hh : h.length = n) :
    (forLoop AlgoGen.AdjacencyList.indegreeSequence_for1 row h : Blk (List Nat) (List Nat) _) = .ok (row.foldl Query.AL.bump h) ∧
      (row.foldl Query.AL.bump h).length = n :=
  forLoop_pure_inv (fun x : List Nat => x.length = n) _ Query.AL.bump row
    (fun s v hv hs => ⟨indegreeSequence_for1_eq s v (by rw [hs]; exact hrow v hv), by rw [bump_length]; exact hs⟩)
    row h (fun _ hx => hx) hh

theorem indegreeSequence_for0_eq (n : Nat) (row : List Nat) (hrow : ∀ v ∈ row, v < n) (h : List Nat) (hh : h.length = n) :
    (AlgoGen.AdjacencyList.indegreeSequence_for0 h row : Blk (List Nat) (List Nat) _) = .ok (row.foldl Query.AL.bump h) := by
  unfold AlgoGen.AdjacencyList.indegreeSequence_for0
  rw [(indegree_row_fold n row hrow h hh).1]

/-- **`AdjacencyList::indegree_sequence`** = the hand-written `Query.AL.indegreeSequence` for every list whose heads are
vertices (part of `AdjList.WF`): then no `*ptr.add(v)` leaves the histogram -/
theorem indegreeSequence_eq (d : AdjList) (hin : ∀ row ∈ d.rows, ∀ v ∈ row, v < d.order) :
    AlgoGen.AdjacencyList.indegreeSequence d = .ok (Query.AL.indegreeSequence d) := by
  unfold AlgoGen.AdjacencyList.indegreeSequence Query.AL.indegreeSequence Query.AL.histogram
  have h := (forLoop_pure_inv (β := Empty) (ρ := List Nat) (fun x : List Nat => x.length = d.order)
    AlgoGen.AdjacencyList.indegreeSequence_for0 (fun h row => row.foldl Query.AL.bump h) d.rows
    (fun s row hr hs => ⟨indegreeSequence_for0_eq d.order row (hin row hr) s hs, (indegree_row_fold d.order row (hin row hr) s hs).2⟩)
    d.rows (List.replicate d.order 0) (fun _ hx => hx) (by simp)).1
  simp only [h, ok_bind, pure_eq_ok, fnBody_ok]

end AdjacencyList

/-! ## `add_arc` of the map, the edge list, the weighted list -/

namespace AdjacencyMap

/-- `AdjacencyMap::add_arc` = the hand-written `AdjMap.addArc` (`none` = the `assert_ne!`), for every map and all arguments -/
theorem addArc_eq (d : AdjMap) (u v : Nat) : AlgoGen.AdjacencyMap.addArc d u v = optU (d.addArc u v) := by
  unfold AlgoGen.AdjacencyMap.addArc AdjMap.addArc
  by_cases h1 : u = v
  · simp [h1, optU]
  · have hb : (u != v) = true := by simpa using h1
    simp only [h1, hb, assert_true, ok_bind, if_false, pure_eq_ok, fnBody_ok, optU]

end AdjacencyMap

namespace EdgeList

/-- `EdgeList::add_arc` = the hand-written `EdgeList.addArc` (`none` = one of the three asserts) -/
theorem addArc_eq (d : Repr.EdgeList) (u v : Nat) : AlgoGen.EdgeList.addArc d u v = optU (d.addArc u v) := by
  unfold AlgoGen.EdgeList.addArc Repr.EdgeList.addArc
  by_cases h1 : u = v
  · simp [h1, optU]
  · have hb : (u != v) = true := by simpa using h1
    by_cases h2 : u < d.order
    · by_cases h3 : v < d.order
      · simp only [h1, h2, h3, hb, decide_true, assert_true, ok_bind, if_false, not_true_eq_false, pure_eq_ok, fnBody_ok, optU]
      · simp [h1, h2, h3, hb, optU]
    · simp [h1, h2, hb, optU]

end EdgeList

namespace AdjacencyListWeighted

/-- `AdjacencyListWeighted::add_arc_weighted` = the hand-written `AdjListW.addArcWeighted`; the checked `self.arcs[u]` is in
bounds after the asserts -/
theorem addArcWeighted_eq (d : AdjListW) (u v : Nat) (w : Int) :
    AlgoGen.AdjacencyListWeighted.addArcWeighted d u v w = optU (d.addArcWeighted u v w) := by
  unfold AlgoGen.AdjacencyListWeighted.addArcWeighted AdjListW.addArcWeighted
  by_cases h1 : u = v
  · simp [h1, optU]
  · have hb : (u != v) = true := by simpa using h1
    by_cases h2 : u < d.order
    · by_cases h3 : v < d.order
      · have hi : u < d.rows.length := h2
        simp only [h1, h2, h3, hb, decide_true, assert_true, ok_bind, if_false, not_true_eq_false,
          idx_lt _ _ hi, pure_eq_ok, fnBody_ok, optU, List.getElem?_eq_getElem hi, Option.getD_some, Ops.minsert]
      · simp [h1, h2, h3, hb, optU]
    · simp [h1, h2, hb, optU]

end AdjacencyListWeighted

/-! ## `FloydWarshall::new` -/

namespace FloydWarshall

/-- `FloydWarshall::new` = `DistanceMatrix::new(order, isize::MAX)` around the hand-written `DistMatrix.new` -/
theorem new_eq (g : WGraph) (inf : Int) :
    AlgoGen.FloydWarshall.new g inf =
      (DistanceMatrix.ofRes (DistMatrix.new g.n inf) >>= fun dm => (pure ⟨dm⟩ : Res AlgoGen.FloydWarshall)) := by
  unfold AlgoGen.FloydWarshall.new
  rw [DistanceMatrix.new_eq]
  cases DistanceMatrix.ofRes (DistMatrix.new g.n inf) <;> rfl

/-- in closed form: panic for order 0 and for `order² > usize::MAX`; otherwise every entry is the sentinel -/
theorem new_fresh (g : WGraph) (inf : Int) (hn : 0 < g.n) (hsz : g.n * g.n ≤ DistMatrix.usizeMax) :
    AlgoGen.FloydWarshall.new g inf = .ok ⟨⟨List.replicate (g.n * g.n) inf, inf, g.n⟩⟩ := by
  rw [new_eq]
  have h0 : g.n ≠ 0 := by omega
  have h1 : ¬ g.n * g.n > DistMatrix.usizeMax := by omega
  simp [DistMatrix.new, h0, h1, DistanceMatrix.ofRes]
  rfl

theorem new_zero (g : WGraph) (inf : Int) (hn : g.n = 0) : AlgoGen.FloydWarshall.new g inf = .error (.fault .panic) := by
  rw [new_eq]
  simp [DistMatrix.new, hn, DistanceMatrix.ofRes]
  rfl

end FloydWarshall

/-! ## The wrappers of `PredecessorTree` -/

namespace PredecessorTree

theorem fromVec_eq (pred : List (Option Nat)) : AlgoGen.PredecessorTree.fromVec pred = .ok ⟨pred⟩ := rfl

/-- `Index<usize>`: the entry, panic out of range -/
theorem index_eq (t : AlgoGen.PredecessorTree) (i : Nat) :
    AlgoGen.PredecessorTree.index t i = match t.pred[i]? with
      | some x => .ok x
      | none => .error (.fault .panic) := by
  unfold AlgoGen.PredecessorTree.index
  by_cases h : i < t.pred.length
  · simp only [idx_lt _ _ h, ok_bind, pure_eq_ok, fnBody_ok, List.getElem?_eq_getElem h]
  · have hi : t.pred.length ≤ i := Nat.le_of_not_lt h
    simp only [idx_ge _ _ hi, List.getElem?_eq_none hi]
    rfl

/-- `IndexMut<usize>`: the position of the entry, panic out of range -/
theorem indexMut_eq (t : AlgoGen.PredecessorTree) (i : Nat) :
    AlgoGen.PredecessorTree.indexMut t i = if i < t.pred.length then .ok (i, t) else .error (.fault .panic) := by
  unfold AlgoGen.PredecessorTree.indexMut idxPos
  by_cases h : i < t.pred.length <;> simp [h] <;> rfl

theorem intoIter_eq (t : AlgoGen.PredecessorTree) : AlgoGen.PredecessorTree.intoIter t = .ok t.pred := rfl

end PredecessorTree

/-! ## The default method of `ContiguousOrder` -/

namespace ContiguousOrder

theorem contiguousOrder_eq (d : AlgoGen.HasOrder) : AlgoGen.ContiguousOrder.contiguousOrder d = .ok d.order := rfl

end ContiguousOrder

/-! ## The generated field lists of the representation structs = the hand-written structures -/

def AdjacencyListDecl.toRepr (s : AlgoGen.AdjacencyListDecl) : AdjList := ⟨s.arcs⟩
def AdjacencyListDecl.ofRepr (d : AdjList) : AlgoGen.AdjacencyListDecl := ⟨d.rows⟩
theorem AdjacencyListDecl.to_of (d : AdjList) : AdjacencyListDecl.toRepr (AdjacencyListDecl.ofRepr d) = d := rfl
theorem AdjacencyListDecl.of_to (s : AlgoGen.AdjacencyListDecl) : AdjacencyListDecl.ofRepr (AdjacencyListDecl.toRepr s) = s := rfl

def AdjacencyMapDecl.toRepr (s : AlgoGen.AdjacencyMapDecl) : AdjMap := ⟨s.arcs⟩
def AdjacencyMapDecl.ofRepr (d : AdjMap) : AlgoGen.AdjacencyMapDecl := ⟨d.rows⟩
theorem AdjacencyMapDecl.to_of (d : AdjMap) : AdjacencyMapDecl.toRepr (AdjacencyMapDecl.ofRepr d) = d := rfl
theorem AdjacencyMapDecl.of_to (s : AlgoGen.AdjacencyMapDecl) : AdjacencyMapDecl.ofRepr (AdjacencyMapDecl.toRepr s) = s := rfl

def AdjacencyMatrixDecl.toRepr (s : AlgoGen.AdjacencyMatrixDecl) : AdjMatrix := ⟨s.blocks, s.order⟩
def AdjacencyMatrixDecl.ofRepr (d : AdjMatrix) : AlgoGen.AdjacencyMatrixDecl := ⟨d.blocks, d.order⟩
theorem AdjacencyMatrixDecl.to_of (d : AdjMatrix) : AdjacencyMatrixDecl.toRepr (AdjacencyMatrixDecl.ofRepr d) = d := rfl
theorem AdjacencyMatrixDecl.of_to (s : AlgoGen.AdjacencyMatrixDecl) : AdjacencyMatrixDecl.ofRepr (AdjacencyMatrixDecl.toRepr s) = s := rfl

def EdgeListDecl.toRepr (s : AlgoGen.EdgeListDecl) : Repr.EdgeList := ⟨s.arcs, s.order⟩
def EdgeListDecl.ofRepr (d : Repr.EdgeList) : AlgoGen.EdgeListDecl := ⟨d.arcs, d.order⟩
theorem EdgeListDecl.to_of (d : Repr.EdgeList) : EdgeListDecl.toRepr (EdgeListDecl.ofRepr d) = d := rfl
theorem EdgeListDecl.of_to (s : AlgoGen.EdgeListDecl) : EdgeListDecl.ofRepr (EdgeListDecl.toRepr s) = s := rfl

def AdjacencyListWeightedDecl.toRepr (s : AlgoGen.AdjacencyListWeightedDecl) : AdjListW := ⟨s.arcs⟩
def AdjacencyListWeightedDecl.ofRepr (d : AdjListW) : AlgoGen.AdjacencyListWeightedDecl := ⟨d.rows⟩
theorem AdjacencyListWeightedDecl.to_of (d : AdjListW) : AdjacencyListWeightedDecl.toRepr (AdjacencyListWeightedDecl.ofRepr d) = d := rfl
theorem AdjacencyListWeightedDecl.of_to (s : AlgoGen.AdjacencyListWeightedDecl) :
    AdjacencyListWeightedDecl.ofRepr (AdjacencyListWeightedDecl.toRepr s) = s := rfl

end GraafVerif.AlgoGenThm
