import GraafVerif.Model.Gen
/-!
# Container lemmas used by the C14 / C16 proofs

Local copies of the sorted-list facts about `sinsert / serase / pinsert / mupsert`
(the "repr" builder proves the same facts in `Proof/ReprSorted.lean`; to be de-duplicated by
the coordinator) plus the set builders `ssetOf / psetOf / mapOf` of `Model/Gen.lean`.
-/
namespace GraafVerif.Gen
open GraafVerif.Repr

/-! ## `sinsert` / `serase` / `ssetOf` -/

theorem mem_sinsert {x a : Nat} {l : List Nat} : a ∈ sinsert x l ↔ a = x ∨ a ∈ l := by
  induction l with
  | nil => simp [sinsert]
  | cons y ys ih =>
    unfold sinsert
    split
    · simp
    · split
      · rename_i h; subst h; simp
      · simp [ih]; grind

theorem sorted_sinsert {x : Nat} {l : List Nat} (h : SortedS l) : SortedS (sinsert x l) := by
  induction l with
  | nil => simp [sinsert, SortedS]
  | cons y ys ih =>
    unfold SortedS at h ih ⊢
    rw [List.pairwise_cons] at h
    unfold sinsert
    split
    · rename_i hxy
      refine List.pairwise_cons.mpr ⟨?_, List.pairwise_cons.mpr h⟩
      intro a ha
      rcases List.mem_cons.mp ha with rfl | ha
      · exact hxy
      · exact Nat.lt_trans hxy (h.1 a ha)
    · split
      · exact List.pairwise_cons.mpr h
      · rename_i h1 h2
        refine List.pairwise_cons.mpr ⟨?_, ih h.2⟩
        intro a ha
        rcases mem_sinsert.mp ha with rfl | ha
        · omega
        · exact h.1 a ha

theorem mem_ssetOf {a : Nat} {l : List Nat} : a ∈ ssetOf l ↔ a ∈ l := by
  induction l with
  | nil => simp [ssetOf]
  | cons y ys ih =>
    have : ssetOf (y :: ys) = sinsert y (ssetOf ys) := rfl
    rw [this, mem_sinsert, ih]; simp

theorem sorted_ssetOf (l : List Nat) : SortedS (ssetOf l) := by
  induction l with
  | nil => simp [ssetOf, SortedS]
  | cons y ys ih => exact sorted_sinsert ih

theorem mem_serase {x a : Nat} {l : List Nat} (h : SortedS l) : a ∈ serase x l ↔ a ∈ l ∧ a ≠ x := by
  induction l with
  | nil => simp [serase]
  | cons y ys ih =>
    unfold SortedS at h ih
    rw [List.pairwise_cons] at h
    unfold serase
    split
    · rename_i hxy; subst hxy
      constructor
      · intro ha; exact ⟨List.mem_cons_of_mem _ ha, by have := h.1 a ha; omega⟩
      · rintro ⟨ha, hne⟩
        rcases List.mem_cons.mp ha with rfl | ha
        · exact absurd rfl hne
        · exact ha
    · split
      · rename_i h1 h2
        constructor
        · intro ha
          refine ⟨ha, ?_⟩
          rcases List.mem_cons.mp ha with rfl | ha
          · omega
          · have := h.1 a ha; omega
        · exact fun ha => ha.1
      · rename_i h1 h2
        simp only [List.mem_cons, ih h.2]
        constructor
        · rintro (rfl | ⟨ha, hne⟩)
          · exact ⟨Or.inl rfl, fun h => h1 h.symm⟩
          · exact ⟨Or.inr ha, hne⟩
        · rintro ⟨rfl | ha, hne⟩
          · exact Or.inl rfl
          · exact Or.inr ⟨ha, hne⟩

theorem sorted_serase {x : Nat} {l : List Nat} (h : SortedS l) : SortedS (serase x l) := by
  induction l with
  | nil => simp [serase, SortedS]
  | cons y ys ih =>
    unfold SortedS at h ih ⊢
    rw [List.pairwise_cons] at h
    unfold serase
    split
    · exact h.2
    · split
      · exact List.pairwise_cons.mpr h
      · refine List.pairwise_cons.mpr ⟨?_, ih h.2⟩
        intro a ha
        exact h.1 a ((mem_serase (x := x) h.2).mp ha).1

/-- Two strictly ascending lists with the same members are equal. -/
theorem sortedS_ext {l₁ l₂ : List Nat} (h₁ : SortedS l₁) (h₂ : SortedS l₂)
    (h : ∀ a, a ∈ l₁ ↔ a ∈ l₂) : l₁ = l₂ := by
  induction l₁ generalizing l₂ with
  | nil =>
    cases l₂ with
    | nil => rfl
    | cons b bs => exact absurd ((h b).mpr (List.mem_cons_self ..)) (by simp)
  | cons a as ih =>
    cases l₂ with
    | nil => exact absurd ((h a).mp (List.mem_cons_self ..)) (by simp)
    | cons b bs =>
      unfold SortedS at h₁ h₂ ih
      rw [List.pairwise_cons] at h₁ h₂
      have hab : a = b := by
        have h1 := (h a).mp (List.mem_cons_self ..)
        have h2 := (h b).mpr (List.mem_cons_self ..)
        rcases List.mem_cons.mp h1 with rfl | h1
        · rfl
        · rcases List.mem_cons.mp h2 with rfl | h2
          · rfl
          · have := h₂.1 a h1; have := h₁.1 b h2; omega
      subst hab
      congr 1
      apply ih h₁.2 h₂.2
      intro c
      constructor
      · intro hc
        have := (h c).mp (List.mem_cons_of_mem _ hc)
        rcases List.mem_cons.mp this with rfl | h'
        · have := h₁.1 c hc; omega
        · exact h'
      · intro hc
        have := (h c).mpr (List.mem_cons_of_mem _ hc)
        rcases List.mem_cons.mp this with rfl | h'
        · have := h₂.1 c hc; omega
        · exact h'

/-! ## `pinsert` / `psetOf` -/

theorem pairLt_iff {a b : Nat × Nat} : pairLt a b = true ↔ a.1 < b.1 ∨ (a.1 = b.1 ∧ a.2 < b.2) := by
  simp [pairLt]

theorem pairLt_trans {a b c : Nat × Nat} (h1 : pairLt a b = true) (h2 : pairLt b c = true) :
    pairLt a c = true := by
  rw [pairLt_iff] at *; omega

theorem pairLt_irrefl (a : Nat × Nat) : pairLt a a = false := by
  simp [pairLt]

theorem pairLt_total {a b : Nat × Nat} (h1 : pairLt a b = false) (h2 : a ≠ b) : pairLt b a = true := by
  have h1' : ¬ (pairLt a b = true) := by simp [h1]
  rw [pairLt_iff] at *
  have : a.1 ≠ b.1 ∨ a.2 ≠ b.2 := by
    by_cases h : a.1 = b.1
    · right; intro h'; exact h2 (Prod.ext h h')
    · left; exact h
  omega

def SortedP (l : List (Nat × Nat)) : Prop := l.Pairwise (fun a b => pairLt a b = true)

theorem mem_pinsert {x a : Nat × Nat} {l : List (Nat × Nat)} : a ∈ pinsert x l ↔ a = x ∨ a ∈ l := by
  induction l with
  | nil => simp [pinsert]
  | cons y ys ih =>
    unfold pinsert
    split
    · simp
    · split
      · rename_i h; subst h; simp
      · simp [ih]; grind

theorem sorted_pinsert {x : Nat × Nat} {l : List (Nat × Nat)} (h : SortedP l) : SortedP (pinsert x l) := by
  induction l with
  | nil => simp [pinsert, SortedP]
  | cons y ys ih =>
    unfold SortedP at h ih ⊢
    rw [List.pairwise_cons] at h
    unfold pinsert
    split
    · rename_i hxy
      refine List.pairwise_cons.mpr ⟨?_, List.pairwise_cons.mpr h⟩
      intro a ha
      rcases List.mem_cons.mp ha with rfl | ha
      · exact hxy
      · exact pairLt_trans hxy (h.1 a ha)
    · split
      · exact List.pairwise_cons.mpr h
      · rename_i h1 h2
        refine List.pairwise_cons.mpr ⟨?_, ih h.2⟩
        intro a ha
        rcases mem_pinsert.mp ha with rfl | ha
        · exact pairLt_total (by simpa using h1) h2
        · exact h.1 a ha

theorem mem_psetOf {a : Nat × Nat} {l : List (Nat × Nat)} : a ∈ psetOf l ↔ a ∈ l := by
  induction l with
  | nil => simp [psetOf]
  | cons y ys ih =>
    have : psetOf (y :: ys) = pinsert y (psetOf ys) := rfl
    rw [this, mem_pinsert, ih]; simp

theorem sorted_psetOf (l : List (Nat × Nat)) : SortedP (psetOf l) := by
  induction l with
  | nil => simp [psetOf, SortedP]
  | cons y ys ih => exact sorted_pinsert ih

/-- Two lexicographically strictly ascending lists with the same members are equal. -/
theorem sortedP_ext {l₁ l₂ : List (Nat × Nat)} (h₁ : SortedP l₁) (h₂ : SortedP l₂)
    (h : ∀ a, a ∈ l₁ ↔ a ∈ l₂) : l₁ = l₂ := by
  induction l₁ generalizing l₂ with
  | nil =>
    cases l₂ with
    | nil => rfl
    | cons b bs => exact absurd ((h b).mpr (List.mem_cons_self ..)) (by simp)
  | cons a as ih =>
    cases l₂ with
    | nil => exact absurd ((h a).mp (List.mem_cons_self ..)) (by simp)
    | cons b bs =>
      unfold SortedP at h₁ h₂ ih
      rw [List.pairwise_cons] at h₁ h₂
      have irr : ∀ {p q : Nat × Nat}, pairLt p q = true → pairLt q p = true → False := by
        intro p q h1 h2
        have := pairLt_trans h1 h2
        rw [pairLt_irrefl] at this; cases this
      have hab : a = b := by
        have h1 := (h a).mp (List.mem_cons_self ..)
        have h2 := (h b).mpr (List.mem_cons_self ..)
        rcases List.mem_cons.mp h1 with rfl | h1
        · rfl
        · rcases List.mem_cons.mp h2 with rfl | h2
          · rfl
          · exact (irr (h₂.1 a h1) (h₁.1 b h2)).elim
      subst hab
      congr 1
      apply ih h₁.2 h₂.2
      intro c
      constructor
      · intro hc
        have := (h c).mp (List.mem_cons_of_mem _ hc)
        rcases List.mem_cons.mp this with rfl | h'
        · have := h₁.1 c hc; rw [pairLt_irrefl] at this; cases this
        · exact h'
      · intro hc
        have := (h c).mpr (List.mem_cons_of_mem _ hc)
        rcases List.mem_cons.mp this with rfl | h'
        · have := h₂.1 c hc; rw [pairLt_irrefl] at this; cases this
        · exact h'

end GraafVerif.Gen
