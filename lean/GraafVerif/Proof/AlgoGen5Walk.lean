import GraafVerif.Proof.AlgoGen5Repr
import GraafVerif.Model.Pred
/-!
# Generated low-level functions, part 2: `has_walk` (pointer walk) of `AdjacencyList` / `AdjacencyMap`,
`AdjacencyList::is_tournament`, `AdjacencyMap::out_neighbors`, `DistanceMatrix::new` / `index_mut`
-/
set_option linter.unusedSimpArgs false
namespace GraafVerif.AlgoGenThm
open GraafVerif GraafVerif.AlgoGen GraafVerif.Repr

namespace AdjacencyList

theorem hasWalk_while0_eq (d : AdjList) (w : List Nat) (e ptr : Nat) (h : ptr < e) (h1 : ptr + 1 < w.length) :
    (AlgoGen.AdjacencyList.hasWalk_while0 d w e ptr : Blk Nat Bool Nat) =
      if d.hasArc (w[ptr]'(by omega)) (w[ptr + 1]'h1) = false then ret false else .ok (ptr + 1) := by
  have h0 : ptr < w.length := by omega
  unfold AlgoGen.AdjacencyList.hasWalk_while0
  simp only [h, if_true, rd_lt _ _ _ h0, rd_lt _ _ _ h1, ok_bind]
  by_cases hc : d.hasArc w[ptr] w[ptr + 1] = false
  · simp only [hc, if_true]
  · simp only [hc, if_false, pure_eq_ok]

theorem hasWalk_while0_exit (d : AdjList) (w : List Nat) (e ptr : Nat) (h : ¬ ptr < e) :
    (AlgoGen.AdjacencyList.hasWalk_while0 d w e ptr : Blk Nat Bool Nat) = brk ptr := by
  unfold AlgoGen.AdjacencyList.hasWalk_while0
  simp only [h, if_false]

/-- the pointer walk over `walk[ptr ..]` = the hand-written `walkLoop` on the remaining slice -/
theorem hasWalk_loop (d : AdjList) (w : List Nat) : ∀ (m ptr F : Nat), w.length - 1 - ptr ≤ m → w.length - 1 - ptr ≤ F →
    ptr ≤ w.length - 1 → 0 < w.length →
    (whileLoop (AlgoGen.AdjacencyList.hasWalk_while0 d w (w.length - 1)) F ptr : Blk Empty Bool Nat) =
      if Query.walkLoop d.hasArc (w.drop ptr) = true then .ok (w.length - 1) else .error (.ret false) := by
  intro m
  induction m with
  | zero =>
    intro ptr F hm _ hp hl
    have hpe : ptr = w.length - 1 := by omega
    have hd : w.drop ptr = [w[ptr]'(by omega)] := by
      rw [List.drop_eq_getElem_cons (by omega), List.drop_eq_nil_of_le (by omega)]
    have hnot : ¬ ptr < w.length - 1 := by omega
    rw [hd]
    simp only [Query.walkLoop, if_true]
    cases F with
    | zero => simp [whileLoop, hpe]
    | succ F =>
      have hx := hasWalk_while0_exit d w (w.length - 1) ptr hnot
      simp only [whileLoop, hx, brk]
      exact congrArg Except.ok hpe
  | succ m ih =>
    intro ptr F hm hF hp hl
    by_cases h : ptr < w.length - 1
    · obtain ⟨F', rfl⟩ : ∃ F', F = F' + 1 := ⟨F - 1, by omega⟩
      have h1 : ptr + 1 < w.length := by omega
      have h0 : ptr < w.length := by omega
      have hd : w.drop ptr = w[ptr] :: w[ptr + 1] :: w.drop (ptr + 2) := by
        rw [List.drop_eq_getElem_cons h0, List.drop_eq_getElem_cons h1]
      have hd1 : w.drop (ptr + 1) = w[ptr + 1] :: w.drop (ptr + 2) := List.drop_eq_getElem_cons h1
      simp only [whileLoop, hasWalk_while0_eq d w _ ptr h h1]
      rw [hd]
      unfold Query.walkLoop
      by_cases hc : d.hasArc w[ptr] w[ptr + 1] = false
      · simp [hc, ret]
      · have hc' : d.hasArc w[ptr] w[ptr + 1] = true := by simpa using hc
        simp only [hc, hc', if_false, Bool.not_true, Bool.false_eq_true]
        rw [← hd1]
        exact ih (ptr + 1) F' (by omega) (by omega) (by omega) hl
    · have hpe : ptr = w.length - 1 := by omega
      have hd : w.drop ptr = [w[ptr]'(by omega)] := by
        rw [List.drop_eq_getElem_cons (by omega), List.drop_eq_nil_of_le (by omega)]
      rw [hd]
      simp only [Query.walkLoop, if_true]
      cases F with
      | zero => simp [whileLoop, hpe]
      | succ F =>
        have hx := hasWalk_while0_exit d w (w.length - 1) ptr h
        simp only [whileLoop, hx, brk]
        exact congrArg Except.ok hpe

/-- `has_walk` (the pointer walk) = the hand-written `hasWalkPtr`, for every value and every walk: no read is out of bounds -/
theorem hasWalk_eq (d : AdjList) (w : List Nat) : AlgoGen.AdjacencyList.hasWalk d w = .ok (Query.AL.hasWalk d w) := by
  unfold AlgoGen.AdjacencyList.hasWalk Query.AL.hasWalk Query.hasWalkPtr
  dsimp only
  by_cases h : w.length ≤ 1
  · simp [h]
  · simp only [h, if_false, subP_le _ _ (by omega : 1 ≤ w.length), ok_bind]
    rw [hasWalk_loop d w (w.length - 1) 0 w.length (by omega) (by omega) (by omega) (by omega)]
    simp only [List.drop_zero]
    cases Query.walkLoop d.hasArc w <;> simp

end AdjacencyList

namespace AdjacencyMap

theorem hasWalk_while0_eq (d : AdjMap) (w : List Nat) (e ptr : Nat) (h : ptr < e) (h1 : ptr + 1 < w.length) :
    (AlgoGen.AdjacencyMap.hasWalk_while0 d w e ptr : Blk Nat Bool Nat) =
      if d.hasArc (w[ptr]'(by omega)) (w[ptr + 1]'h1) = false then ret false else .ok (ptr + 1) := by
  have h0 : ptr < w.length := by omega
  unfold AlgoGen.AdjacencyMap.hasWalk_while0
  simp only [h, if_true, rd_lt _ _ _ h0, rd_lt _ _ _ h1, ok_bind]
  by_cases hc : d.hasArc w[ptr] w[ptr + 1] = false
  · simp only [hc, if_true]
  · simp only [hc, if_false, pure_eq_ok]

theorem hasWalk_while0_exit (d : AdjMap) (w : List Nat) (e ptr : Nat) (h : ¬ ptr < e) :
    (AlgoGen.AdjacencyMap.hasWalk_while0 d w e ptr : Blk Nat Bool Nat) = brk ptr := by
  unfold AlgoGen.AdjacencyMap.hasWalk_while0
  simp only [h, if_false]

/-- the pointer walk over `walk[ptr ..]` = the hand-written `walkLoop` on the remaining slice -/
theorem hasWalk_loop (d : AdjMap) (w : List Nat) : ∀ (m ptr F : Nat), w.length - 1 - ptr ≤ m → w.length - 1 - ptr ≤ F →
    ptr ≤ w.length - 1 → 0 < w.length →
    (whileLoop (AlgoGen.AdjacencyMap.hasWalk_while0 d w (w.length - 1)) F ptr : Blk Empty Bool Nat) =
      if Query.walkLoop d.hasArc (w.drop ptr) = true then .ok (w.length - 1) else .error (.ret false) := by
  intro m
  induction m with
  | zero =>
    intro ptr F hm _ hp hl
    have hpe : ptr = w.length - 1 := by omega
    have hd : w.drop ptr = [w[ptr]'(by omega)] := by
      rw [List.drop_eq_getElem_cons (by omega), List.drop_eq_nil_of_le (by omega)]
    have hnot : ¬ ptr < w.length - 1 := by omega
    rw [hd]
    simp only [Query.walkLoop, if_true]
    cases F with
    | zero => simp [whileLoop, hpe]
    | succ F =>
      have hx := hasWalk_while0_exit d w (w.length - 1) ptr hnot
      simp only [whileLoop, hx, brk]
      exact congrArg Except.ok hpe
  | succ m ih =>
    intro ptr F hm hF hp hl
    by_cases h : ptr < w.length - 1
    · obtain ⟨F', rfl⟩ : ∃ F', F = F' + 1 := ⟨F - 1, by omega⟩
      have h1 : ptr + 1 < w.length := by omega
      have h0 : ptr < w.length := by omega
      have hd : w.drop ptr = w[ptr] :: w[ptr + 1] :: w.drop (ptr + 2) := by
        rw [List.drop_eq_getElem_cons h0, List.drop_eq_getElem_cons h1]
      have hd1 : w.drop (ptr + 1) = w[ptr + 1] :: w.drop (ptr + 2) := List.drop_eq_getElem_cons h1
      simp only [whileLoop, hasWalk_while0_eq d w _ ptr h h1]
      rw [hd]
      unfold Query.walkLoop
      by_cases hc : d.hasArc w[ptr] w[ptr + 1] = false
      · simp [hc, ret]
      · have hc' : d.hasArc w[ptr] w[ptr + 1] = true := by simpa using hc
        simp only [hc, hc', if_false, Bool.not_true, Bool.false_eq_true]
        rw [← hd1]
        exact ih (ptr + 1) F' (by omega) (by omega) (by omega) hl
    · have hpe : ptr = w.length - 1 := by omega
      have hd : w.drop ptr = [w[ptr]'(by omega)] := by
        rw [List.drop_eq_getElem_cons (by omega), List.drop_eq_nil_of_le (by omega)]
      rw [hd]
      simp only [Query.walkLoop, if_true]
      cases F with
      | zero => simp [whileLoop, hpe]
      | succ F =>
        have hx := hasWalk_while0_exit d w (w.length - 1) ptr h
        simp only [whileLoop, hx, brk]
        exact congrArg Except.ok hpe

/-- `has_walk` (the pointer walk) = the hand-written `hasWalkPtr`, for every value and every walk: no read is out of bounds -/
theorem hasWalk_eq (d : AdjMap) (w : List Nat) : AlgoGen.AdjacencyMap.hasWalk d w = .ok (Query.AM.hasWalk d w) := by
  unfold AlgoGen.AdjacencyMap.hasWalk Query.AM.hasWalk Query.hasWalkPtr
  dsimp only
  by_cases h : w.length ≤ 1
  · simp [h]
  · simp only [h, if_false, subP_le _ _ (by omega : 1 ≤ w.length), ok_bind]
    rw [hasWalk_loop d w (w.length - 1) 0 w.length (by omega) (by omega) (by omega) (by omega)]
    simp only [List.drop_zero]
    cases Query.walkLoop d.hasArc w <;> simp

end AdjacencyMap

/-- a loop that only tests its items: `return r` at the first item that fails -/
theorem forLoop_test {α β ρ : Type} (body : Unit → α → Blk Unit ρ Unit) (p : α → Bool) (r : ρ) (l : List α)
    (h : ∀ a ∈ l, body () a = if p a then .ok () else ret r) :
    (forLoop body l () : Blk β ρ Unit) = if l.all p then .ok () else .error (.ret r) := by
  induction l with
  | nil => rfl
  | cons a l ih =>
    have ha := h a List.mem_cons_self
    cases hp : p a with
    | true =>
      rw [forLoop_cons_ok (s' := ()) (h := by rw [ha, hp]; rfl), ih (fun b hb => h b (List.mem_cons_of_mem _ hb))]
      simp [hp]
    | false =>
      rw [forLoop_cons_ret (r := r) (h := by rw [ha, hp]; rfl)]
      simp [hp]

namespace AdjacencyList

theorem isTournament_for1_eq (d : AdjList) (u v : Nat) (hu : u < d.rows.length) (hv : v < d.rows.length) :
    (AlgoGen.AdjacencyList.isTournament_for1 d u () v : Blk Unit Bool Unit) =
      if !((Pred.AL.row d u).contains v == (Pred.AL.row d v).contains u) then .ok () else ret false := by
  unfold AlgoGen.AdjacencyList.isTournament_for1 Pred.AL.row
  simp only [rd_lt _ _ _ hu, rd_lt _ _ _ hv, ok_bind, List.getElem?_eq_getElem hu, List.getElem?_eq_getElem hv, Option.getD_some]
  cases d.rows[u].contains v <;> cases d.rows[v].contains u <;> simp [pure_eq_ok]

theorem isTournament_for0_eq (d : AdjList) (u : Nat) (hu : u < d.order) :
    (AlgoGen.AdjacencyList.isTournament_for0 d d.order () u : Blk Unit Bool Unit) =
      if (Pred.above u d.order).all (fun v => !((Pred.AL.row d u).contains v == (Pred.AL.row d v).contains u)) then .ok ()
      else ret false := by
  unfold AlgoGen.AdjacencyList.isTournament_for0 Pred.above AlgoGen.range
  rw [forLoop_test (β := Unit) _ (fun v => !((Pred.AL.row d u).contains v == (Pred.AL.row d v).contains u)) false _
    (fun v hv => isTournament_for1_eq d u v hu (by
      have := (List.mem_range'_1.1 hv).2
      show v < d.order
      omega))]
  split <;> rfl

/-- `AdjacencyList::is_tournament` = the hand-written `Pred.AL.isTournament`, for every list of order `≥ 1` -/
theorem isTournament_eq (d : AdjList) (hn : 0 < d.order) :
    AlgoGen.AdjacencyList.isTournament d = .ok (Pred.AL.isTournament d) := by
  unfold AlgoGen.AdjacencyList.isTournament Pred.AL.isTournament
  dsimp only
  simp only [subP_le _ _ hn, ok_bind]
  by_cases hs : d.size = d.order * (d.order - 1) / 2
  · have hb : (d.size != d.order * (d.order - 1) / 2) = false := by simp [hs]
    simp only [hs, ne_eq, not_true_eq_false, if_false, hb, Bool.false_eq_true]
    rw [forLoop_test (β := Empty) _ (fun u => (Pred.above u d.order).all
      (fun v => !((Pred.AL.row d u).contains v == (Pred.AL.row d v).contains u))) false _
      (fun u hu => isTournament_for0_eq d u (List.mem_range.1 hu))]
    split <;> simp_all
  · have hb : (d.size != d.order * (d.order - 1) / 2) = true := by simp [hs]
    simp [hs, hb]

end AdjacencyList

namespace AdjacencyMap

/-- `AdjacencyMap::out_neighbors` = the hand-written lookup (`none` = the `assert!`); after the assert the
`unwrap_unchecked` is never applied to `None` -/
theorem outNeighbors_eq (d : AdjMap) (u : Nat) : AlgoGen.AdjacencyMap.outNeighbors d u = optR (Query.AM.outNeighbors d u) := by
  unfold AlgoGen.AdjacencyMap.outNeighbors Query.AM.outNeighbors
  cases mget u d.rows <;> rfl

end AdjacencyMap

namespace DistanceMatrix

/-- the hand-written `DistMatrix.Res DM` as a result of the generated definition -/
def ofRes : DistMatrix.Res DistMatrix.DM → Res AlgoGen.DistanceMatrix
  | .panic => .error (.fault .panic)
  | .ok m => .ok ⟨m.dist, m.infinity, m.order⟩

theorem new_for0_eq (inf : Int) (buf : List (Option Int)) (i : Nat) (hi : i < buf.length) :
    (AlgoGen.DistanceMatrix.new_for0 inf buf i : Blk (List (Option Int)) AlgoGen.DistanceMatrix _) = .ok (buf.set i (some inf)) := by
  unfold AlgoGen.DistanceMatrix.new_for0
  simp only [wr_lt _ _ _ _ hi, ok_bind, pure_eq_ok]

theorem fill (inf : Int) : ∀ (k n : Nat), k ≤ n →
    (List.range' 0 k).foldl (fun (b : List (Option Int)) i => b.set i (some inf)) (List.replicate n none) =
      List.replicate k (some inf) ++ List.replicate (n - k) none := by
  intro k
  induction k with
  | zero => intro n _; simp
  | succ k ih =>
    intro n hk
    rw [List.range'_concat, List.foldl_append, ih n (by omega)]
    simp only [List.foldl_cons, List.foldl_nil, Nat.zero_add, Nat.one_mul]
    rw [List.set_append_right _ _ (by simp), List.length_replicate, Nat.sub_self]
    have : n - k = (n - (k + 1)) + 1 := by omega
    rw [this, List.replicate_succ, List.set_cons_zero, List.replicate_succ', List.append_assoc]
    rfl

/-- `DistanceMatrix::new` = the hand-written `DistMatrix.new`: every one of the `order²` slots is written exactly inside the
capacity, `set_len(order²)` does not exceed it, and the vector the struct receives is `order²` copies of `infinity` -/
theorem new_eq (order : Nat) (inf : Int) : AlgoGen.DistanceMatrix.new order inf = ofRes (DistMatrix.new order inf) := by
  unfold AlgoGen.DistanceMatrix.new DistMatrix.new mulP DistMatrix.usizeMax
  by_cases h0 : order = 0
  · simp [h0, ofRes]
  · have hp : order > 0 := Nat.pos_of_ne_zero h0
    by_cases hm : order * order > 2 ^ 64 - 1
    · simp [hp, h0, hm, ofRes]
    · simp only [hp, h0, hm, decide_true, assert_true, ok_bind, if_false, setLenU, List.length_replicate, Nat.le_refl, if_true]
      have hloop := forLoop_pure_inv (β := Empty) (ρ := AlgoGen.DistanceMatrix) (fun b : List (Option Int) => b.length = order * order)
        (AlgoGen.DistanceMatrix.new_for0 inf) (fun b i => b.set i (some inf)) (List.range (order * order))
        (fun b i hi hb => ⟨new_for0_eq inf b i (by rw [hb]; exact List.mem_range.1 hi), by rw [List.length_set]; exact hb⟩)
        _ (List.replicate (order * order) none) (fun _ h => h) List.length_replicate
      rw [hloop.1]
      simp only [ok_bind]
      rw [List.range_eq_range', fill inf (order * order) (order * order) (Nat.le_refl _)]
      simp only [Nat.sub_self, List.replicate_zero, List.append_nil, bufFreeze, List.length_replicate, Nat.le_refl, true_and,
        List.take_replicate, Nat.min_self]
      have hall : (List.replicate (order * order) (some inf)).all Option.isSome = true := by simp
      have hfm : (List.replicate (order * order) (some inf)).filterMap id = List.replicate (order * order) inf := by
        induction (order * order) with
        | zero => rfl
        | succ n ih => rw [List.replicate_succ, List.filterMap_cons]; simp [ih, List.replicate_succ]
      simp only [hall, if_true, ok_bind, pure_eq_ok, fnBody_ok, ofRes, hfm]

/-- `IndexMut<usize>`: the returned reference is the element at `index` (panic out of bounds) -/
theorem indexMut_eq (m : AlgoGen.DistanceMatrix) (i : Nat) :
    AlgoGen.DistanceMatrix.indexMut m i = if i < m.dist.length then .ok (i, m) else .error (.fault .panic) := by
  unfold AlgoGen.DistanceMatrix.indexMut idxPos
  by_cases h : i < m.dist.length <;> simp [h] <;> rfl

/-- `IndexMut<(usize, usize)>`: a write through the returned reference is the hand-written `DistMatrix.set` -/
theorem indexMut2_eq (m : AlgoGen.DistanceMatrix) (u v : Nat) (w : Int) :
    (AlgoGen.DistanceMatrix.indexMut2 m (u, v) >>= fun pm => (pure { pm.2 with dist := pm.2.dist.set pm.1 w } : Res AlgoGen.DistanceMatrix)) =
      ofRes (DistMatrix.set ⟨m.dist, m.infinity, m.order⟩ u v w) := by
  unfold AlgoGen.DistanceMatrix.indexMut2 idxPos DistMatrix.set
  by_cases h : u * m.order + v < m.dist.length
  · simp [h, ofRes]
    rfl
  · simp [h, ofRes]
    rfl

end DistanceMatrix
end GraafVerif.AlgoGenThm
