import GraafVerif.Proof.ReprRun
/-!
# Row-indexed representations (`AdjacencyList`, `AdjacencyListWeighted`): the flattened arc list

`flatRows k rows` is the common shape of `AdjList.arcs` / `AdjListW.arcsWeighted`
(`enumerate().flat_map(...)`): row `i` contributes `(k + i, b)` for each entry `b`, in order.
-/
namespace GraafVerif.Repr

def flatRows {β : Type} (k : Nat) (rows : List (List β)) : List (Nat × β) :=
  (rows.zipIdx k).flatMap (fun p => p.1.map (fun b => (p.2, b)))

theorem flatRows_nil {β : Type} (k : Nat) : flatRows k ([] : List (List β)) = [] := rfl

theorem flatRows_cons {β : Type} (k : Nat) (r : List β) (rs : List (List β)) :
    flatRows k (r :: rs) = r.map (fun b => (k, b)) ++ flatRows (k + 1) rs := by
  simp [flatRows]

theorem mem_flatRows {β : Type} {k u : Nat} {b : β} {rows : List (List β)} :
    (u, b) ∈ flatRows k rows ↔ k ≤ u ∧ ∃ row, rows[u - k]? = some row ∧ b ∈ row := by
  induction rows generalizing k with
  | nil => simp [flatRows_nil]
  | cons r rs ih =>
    rw [flatRows_cons, List.mem_append, ih]
    simp only [List.mem_map, Prod.mk.injEq]
    constructor
    · rintro (⟨b', hb', rfl, rfl⟩ | ⟨hk, row, hrow, hb⟩)
      · exact ⟨Nat.le_refl _, r, by simp, hb'⟩
      · refine ⟨by omega, row, ?_, hb⟩
        have : u - k = (u - (k + 1)) + 1 := by omega
        rw [this]; simpa using hrow
    · rintro ⟨hk, row, hrow, hb⟩
      by_cases e : u = k
      · subst e
        left
        simp at hrow
        subst hrow
        exact ⟨b, hb, rfl, rfl⟩
      · right
        refine ⟨by omega, row, ?_, hb⟩
        have : u - k = (u - (k + 1)) + 1 := by omega
        rw [this] at hrow; simpa using hrow

theorem mem_flatRows_zero {β : Type} {u : Nat} {b : β} {rows : List (List β)} :
    (u, b) ∈ flatRows 0 rows ↔ ∃ row, rows[u]? = some row ∧ b ∈ row := by
  rw [mem_flatRows]; simp

/-- Row-major order: by row index, then by the key of the entry. -/
def rowLex {β : Type} (key : β → Nat) (a b : Nat × β) : Prop := a.1 < b.1 ∨ (a.1 = b.1 ∧ key a.2 < key b.2)

theorem pairwise_flatRows {β : Type} (key : β → Nat) {k : Nat} {rows : List (List β)}
    (h : ∀ row ∈ rows, row.Pairwise (fun x y => key x < key y)) :
    (flatRows k rows).Pairwise (rowLex key) := by
  induction rows generalizing k with
  | nil => simp [flatRows_nil]
  | cons r rs ih =>
    rw [flatRows_cons, List.pairwise_append]
    refine ⟨?_, ih (fun row hr => h row (List.mem_cons_of_mem _ hr)), ?_⟩
    · rw [List.pairwise_map]
      exact List.Pairwise.imp (fun hxy => Or.inr ⟨rfl, hxy⟩) (h r (List.mem_cons_self ..))
    · intro a ha b hb
      obtain ⟨u, x⟩ := b
      have := (mem_flatRows.mp hb).1
      simp only [List.mem_map] at ha
      obtain ⟨y, _, rfl⟩ := ha
      left; simp only; omega

theorem length_flatRows {β : Type} {k : Nat} {rows : List (List β)} :
    (flatRows k rows).length = (rows.map List.length).sum := by
  induction rows generalizing k with
  | nil => simp [flatRows_nil]
  | cons r rs ih => rw [flatRows_cons]; simp [ih]

theorem rowLex_nodup {β : Type} (key : β → Nat) {l : List (Nat × β)} (h : l.Pairwise (rowLex key)) : l.Nodup := by
  refine List.Pairwise.imp ?_ h
  intro a b hab e
  subst e
  rcases hab with h | ⟨_, h⟩ <;> omega

theorem rowLex_id_iff (a b : Nat × Nat) : rowLex id a b ↔ pairLt a b = true := by
  simp [rowLex, pairLt]

end GraafVerif.Repr
