import GraafVerif.Proof.RandArcs
/-! Realisation lemmas: what `has_arc` shows of the structures the generators build (list, edge list). -/
namespace GraafVerif.Rand
open GraafVerif.Repr

/-! ### AdjacencyList -/

theorem AdjList.hasArc_iff (g : AdjList) (u v : Nat) : g.hasArc u v = true ↔ v ∈ g.rows[u]?.getD [] := by
  unfold AdjList.hasArc
  cases h : g.rows[u]? with
  | none => simp
  | some row => simp

/-- rows filled by `rowInsert` from `n` empty rows -/
theorem realizes_foldl_rowInsert (n : Nat) (arcs : List (Nat × Nat)) (hs : SimpleArcs n arcs) :
    Realizes (viewAL ⟨arcs.foldl rowInsert (List.replicate n [])⟩) n arcs := by
  refine ⟨by simp [viewAL, AdjList.order, foldl_rowInsert_length], by simp [viewAL, AdjList.vertices, AdjList.order, foldl_rowInsert_length], fun u v => ?_⟩
  simp only [viewAL, AdjList.hasArc_iff, mem_foldl_rowInsert, List.length_replicate]
  constructor
  · rintro (h | h)
    · by_cases hu : u < n <;> simp [hu] at h
    · exact h.1
  · intro h; exact Or.inr ⟨h, (hs _ h).1⟩

/-- rows given directly, row `u` = `f u` -/
theorem realizes_rows (n : Nat) (f : Nat → List Nat) :
    Realizes (viewAL ⟨(List.range n).map f⟩) n ((List.range n).flatMap fun u => (f u).map fun v => (u, v)) := by
  refine ⟨by simp [viewAL, AdjList.order], by simp [viewAL, AdjList.vertices, AdjList.order], fun u v => ?_⟩
  simp only [viewAL, AdjList.hasArc_iff, List.mem_flatMap, List.mem_range, List.mem_map, Prod.mk.injEq]
  by_cases hu : u < n
  · simp only [List.getElem?_map, List.getElem?_range hu, Option.map_some, Option.getD_some]
    exact ⟨fun h => ⟨u, hu, v, h, rfl, rfl⟩, by rintro ⟨a, _, b, hb, rfl, rfl⟩; exact hb⟩
  · have : ((List.range n).map f)[u]? = none := by simp; omega
    simp only [this, Option.getD_none, List.not_mem_nil, false_iff]
    rintro ⟨a, ha, b, hb, rfl, rfl⟩; exact hu ha

/-! ### EdgeList -/

theorem EdgeList.hasArc_iff (g : EdgeList) (u v : Nat) : g.hasArc u v = true ↔ (u, v) ∈ g.arcs := by
  simp [EdgeList.hasArc]

theorem mem_collectSet_aux (l acc : List (Nat × Nat)) (x : Nat × Nat) :
    x ∈ l.foldl (fun s a => pinsert a s) acc ↔ x ∈ acc ∨ x ∈ l := by
  induction l generalizing acc with
  | nil => simp
  | cons a as ih => simp only [List.foldl_cons, ih, mem_pinsert, List.mem_cons]; grind

theorem mem_collectSet (l : List (Nat × Nat)) (x : Nat × Nat) : x ∈ collectSet l ↔ x ∈ l := by
  simp [collectSet, mem_collectSet_aux]

theorem realizes_collectSet (n : Nat) (arcs : List (Nat × Nat)) :
    Realizes (viewEL ⟨collectSet arcs, n⟩) n arcs :=
  ⟨rfl, rfl, fun u v => by simp [viewEL, EdgeList.hasArc_iff, mem_collectSet]⟩

theorem foldlM_addArc_EL (n : Nat) (arcs : List (Nat × Nat)) (hs : SimpleArcs n arcs) (g : EdgeList) (hg : g.order = n) :
    ∃ g', arcs.foldlM (fun g a => g.addArc a.1 a.2) g = some g' ∧ g'.order = n ∧
      ∀ x, x ∈ g'.arcs ↔ x ∈ g.arcs ∨ x ∈ arcs := by
  induction arcs generalizing g with
  | nil => exact ⟨g, rfl, hg, by simp⟩
  | cons a as ih =>
    have ha := hs a (by simp)
    have hstep : g.addArc a.1 a.2 = some ⟨pinsert (a.1, a.2) g.arcs, g.order⟩ := by
      simp [EdgeList.addArc, hg, ha.1, ha.2.1, ha.2.2]
    obtain ⟨g', h1, h2, h3⟩ := ih (fun x hx => hs x (List.mem_cons_of_mem _ hx)) ⟨pinsert (a.1, a.2) g.arcs, g.order⟩ hg
    refine ⟨g', ?_, h2, fun x => ?_⟩
    · simp [List.foldlM_cons, hstep, h1]
    · rw [h3]; simp only [mem_pinsert, List.mem_cons]; grind

theorem realizes_foldlM_addArc_EL (n : Nat) (hn : 0 < n) (arcs : List (Nat × Nat)) (hs : SimpleArcs n arcs) :
    ∃ g, (do let e ← EdgeList.empty n; arcs.foldlM (fun g a => g.addArc a.1 a.2) e) = some g ∧
      Realizes (viewEL g) n arcs := by
  obtain ⟨g', h1, h2, h3⟩ := foldlM_addArc_EL n arcs hs ⟨[], n⟩ rfl
  refine ⟨g', ?_, h2, by simp [viewEL, EdgeList.vertices, h2], fun u v => ?_⟩
  · simp [EdgeList.empty, Nat.ne_of_gt hn, h1]
  · simp [viewEL, EdgeList.hasArc_iff, h3]

end GraafVerif.Rand
