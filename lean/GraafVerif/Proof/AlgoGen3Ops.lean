import GraafVerif.Model.AlgoGen3
import GraafVerif.Proof.AlgoGen2Conv
/-!
# Generated sequential operations (`Model/AlgoGen3.lean`) = hand-written `Model/Ops.lean` (C11)

`complement`, `converse`, `union` of `AdjacencyMatrix` and `EdgeList`, `converse` of
`AdjacencyList` and `AdjacencyListWeighted`, `complement`, `converse`, `filter_vertices` of
`AdjacencyMap`.  `optR` reads the `Option` of the hand-written models (`none` = the Rust code panics).
-/
set_option linter.unusedSimpArgs false
namespace GraafVerif.AlgoGenThm
open GraafVerif GraafVerif.AlgoGen GraafVerif.Repr

/-- a loop whose body always continues with a pure update is the `foldl` -/
theorem forLoop_pure {σ α β ρ : Type} (body : σ → α → Blk σ ρ σ) (f : σ → α → σ)
    (h : ∀ s a, body s a = .ok (f s a)) : ∀ (l : List α) (s : σ),
    (forLoop body l s : Blk β ρ σ) = .ok (l.foldl f s) := by
  intro l
  induction l with
  | nil => intro s; rfl
  | cons a l ih =>
    intro s
    rw [forLoop_cons_ok (s' := f s a) (h := h s a)]
    exact ih _

/-- the same under an invariant of the state that holds for the items of the list -/
theorem forLoop_pure_inv {σ α β ρ : Type} (P : σ → Prop) (body : σ → α → Blk σ ρ σ) (f : σ → α → σ) (l : List α)
    (h : ∀ s a, a ∈ l → P s → body s a = .ok (f s a) ∧ P (f s a)) :
    ∀ (l' : List α) (s : σ), (∀ a ∈ l', a ∈ l) → P s →
      (forLoop body l' s : Blk β ρ σ) = .ok (l'.foldl f s) ∧ P (l'.foldl f s) := by
  intro l'
  induction l' with
  | nil => intro s _ hs; exact ⟨rfl, hs⟩
  | cons a l' ih =>
    intro s hsub hs
    obtain ⟨h1, h2⟩ := h s a (hsub a List.mem_cons_self) hs
    rw [forLoop_cons_ok (s' := f s a) (h := h1)]
    exact ih _ (fun b hb => hsub b (List.mem_cons_of_mem _ hb)) h2

theorem foldlM_flatMap {σ α γ : Type} (F : α → List γ) (f : σ → γ → Option σ) :
    ∀ (us : List α) (s : σ), (us.flatMap F).foldlM f s = us.foldlM (fun s u => (F u).foldlM f s) s := by
  intro us
  induction us with
  | nil => intro s; rfl
  | cons u us ih =>
    intro s
    rw [List.flatMap_cons, List.foldlM_append, List.foldlM_cons]
    cases (F u).foldlM f s with
    | none => rfl
    | some s' => exact ih s'

theorem foldl_flatMap {σ α γ : Type} (F : α → List γ) (f : σ → γ → σ) :
    ∀ (us : List α) (s : σ), (us.flatMap F).foldl f s = us.foldl (fun s u => (F u).foldl f s) s := by
  intro us
  induction us with
  | nil => intro s; rfl
  | cons u us ih =>
    intro s
    rw [List.flatMap_cons, List.foldl_append, List.foldl_cons]
    exact ih _

theorem bind_pure_blk {σ β ρ : Type} (X : Blk β ρ σ) : (X >>= fun t => (pure t : Blk β ρ σ)) = X := by
  cases X <;> rfl

theorem optP_optR {α : Type} (o : Option α) : fnBody (optP o : Blk Empty α α) = optR o := by
  cases o <;> rfl

namespace AdjacencyMatrix

/-! ## `AdjacencyMatrix::complement` -/

/-- the pair `(u, v)`: `add_arc(u, v)` unless present, then `add_arc(v, u)` unless present -/
def cstep (d : AdjMatrix) (u : Nat) (g : AdjMatrix) (v : Nat) : Option AdjMatrix := do
  let g ← if !d.hasArc u v then g.addArc u v else pure g
  if !d.hasArc v u then g.addArc v u else pure g

theorem complement_for1_eq (d : AdjMatrix) (u : Nat) (g : AdjMatrix) (v : Nat) :
    (AlgoGen.AdjacencyMatrix.complement_for1 d u g v : Blk AdjMatrix AdjMatrix AdjMatrix) = optP (cstep d u g v) := by
  unfold AlgoGen.AdjacencyMatrix.complement_for1 cstep
  cases h1 : d.hasArc u v <;> cases h2 : d.hasArc v u <;>
    simp only [if_true, if_false, Bool.false_eq_true, Bool.true_eq_false, Bool.not_true, Bool.not_false, Option.bind_eq_bind,
      Option.pure_def, Option.bind_some, pure_eq_ok, ok_bind]
  · cases g.addArc u v with
    | none => rfl
    | some g1 =>
      simp only [optP, ok_bind, Option.bind_some]
      cases g1.addArc v u <;> rfl
  · cases g.addArc u v <;> rfl
  · cases g.addArc v u <;> rfl
  · rfl

theorem complement_for0_eq (d : AdjMatrix) (n : Nat) (g : AdjMatrix) (u : Nat) :
    (AlgoGen.AdjacencyMatrix.complement_for0 d n g u : Blk AdjMatrix AdjMatrix AdjMatrix) =
      optP ((List.range' (u + 1) (n - (u + 1))).foldlM (cstep d u) g) := by
  unfold AlgoGen.AdjacencyMatrix.complement_for0
  rw [forLoop_optP _ _ (complement_for1_eq d u)]
  rfl

/-- `AdjacencyMatrix::complement` = the hand-written `complementMX`, for every value. -/
theorem complement_eq (d : AdjMatrix) : AlgoGen.AdjacencyMatrix.complement d = optR (Ops.complementMX d) := by
  unfold AlgoGen.AdjacencyMatrix.complement Ops.complementMX
  dsimp only
  cases he : AdjMatrix.empty d.order with
  | none => rfl
  | some e =>
    simp only [optP, ok_bind, bind_pure_blk, forLoop_optP _ _ (complement_for0_eq d d.order), Option.bind_eq_bind,
      Option.bind_some]
    exact optP_optR _

/-! ## `AdjacencyMatrix::converse` -/

theorem converse_for0_eq (g : AdjMatrix) (x : Nat × Nat) :
    (AlgoGen.AdjacencyMatrix.converse_for0 g x : Blk AdjMatrix AdjMatrix AdjMatrix) = optP (g.addArc x.2 x.1) := by
  unfold AlgoGen.AdjacencyMatrix.converse_for0
  dsimp only
  exact bind_pure_blk _

/-- `AdjacencyMatrix::converse` = the hand-written `converseMX`, for every value. -/
theorem converse_eq (d : AdjMatrix) : AlgoGen.AdjacencyMatrix.converse d = optR (Ops.converseMX d) := by
  unfold AlgoGen.AdjacencyMatrix.converse Ops.converseMX
  cases he : AdjMatrix.empty d.order with
  | none => rfl
  | some e =>
    simp only [optP, ok_bind, bind_pure_blk, forLoop_optP _ _ converse_for0_eq, Option.bind_eq_bind, Option.bind_some]
    exact optP_optR _

/-! ## `AdjacencyMatrix::union` -/

theorem union_for0_eq (g : AdjMatrix) (x : Nat × Nat) :
    (AlgoGen.AdjacencyMatrix.union_for0 g x : Blk AdjMatrix AdjMatrix AdjMatrix) = optP (g.addArc x.1 x.2) := by
  unfold AlgoGen.AdjacencyMatrix.union_for0
  dsimp only
  exact bind_pure_blk _

/-- `AdjacencyMatrix::union` = the hand-written `unionMX`, for every pair of values. -/
theorem union_eq (a b : AdjMatrix) : AlgoGen.AdjacencyMatrix.union a b = optR (Ops.unionMX a b) := by
  unfold AlgoGen.AdjacencyMatrix.union Ops.unionMX
  by_cases h : a.order > b.order
  · simp only [h, if_true, bind_pure_blk, forLoop_optP _ _ union_for0_eq]
    exact optP_optR _
  · simp only [h, if_false, bind_pure_blk, forLoop_optP _ _ union_for0_eq]
    exact optP_optR _

end AdjacencyMatrix

namespace EdgeList

/-! ## `EdgeList::union`, `converse`, `complement` -/

theorem union_for0_eq (g : Repr.EdgeList) (x : Nat × Nat) :
    (AlgoGen.EdgeList.union_for0 g x : Blk Repr.EdgeList Repr.EdgeList Repr.EdgeList) = optP (g.addArc x.1 x.2) := by
  unfold AlgoGen.EdgeList.union_for0
  dsimp only
  exact bind_pure_blk _

/-- `EdgeList::union` = the hand-written `unionEL`, for every pair of values. -/
theorem union_eq (a b : Repr.EdgeList) : AlgoGen.EdgeList.union a b = optR (Ops.unionEL a b) := by
  unfold AlgoGen.EdgeList.union Ops.unionEL
  by_cases h : a.order > b.order
  · simp only [h, if_true, bind_pure_blk, forLoop_optP _ _ union_for0_eq]
    exact optP_optR _
  · simp only [h, if_false, bind_pure_blk, forLoop_optP _ _ union_for0_eq]
    exact optP_optR _

/-- `EdgeList::converse` = the hand-written `converseEL`, for every value. -/
theorem converse_eq (d : Repr.EdgeList) : AlgoGen.EdgeList.converse d = .ok (Ops.converseEL d) := rfl

/-- `EdgeList::complement` = the hand-written `complementEL`, for every value. -/
theorem complement_eq (d : Repr.EdgeList) : AlgoGen.EdgeList.complement d = .ok (Ops.complementEL d) := rfl

end EdgeList

namespace AdjacencyList

/-! ## `AdjacencyList::converse` (rows through `*conv_ptr.add(v)`) -/

/-- `(*conv_ptr.add(v)).insert(u)` -/
def vstep (conv : List (List Nat)) (a : Nat × Nat) : List (List Nat) :=
  conv.set a.2 (sinsert a.1 (conv[a.2]?.getD []))

theorem vstep_length (conv : List (List Nat)) (a : Nat × Nat) : (vstep conv a).length = conv.length := by
  simp [vstep]

theorem converse_for1_eq (u : Nat) (conv : List (List Nat)) (v : Nat) (hv : v < conv.length) :
    (AlgoGen.AdjacencyList.converse_for1 u conv v : Blk (List (List Nat)) AdjList (List (List Nat))) =
      .ok (vstep conv (u, v)) := by
  unfold AlgoGen.AdjacencyList.converse_for1 vstep
  simp only [rd_lt _ _ _ hv, wr_lt _ _ _ _ hv, ok_bind, pure_eq_ok, List.getElem?_eq_getElem hv, Option.getD_some]

theorem mem_arcs_of_row (d : AdjList) (x : Nat × List Nat)
    (hx : x ∈ List.map (fun p : List Nat × Nat => (p.2, p.1)) d.rows.zipIdx) (v : Nat) (hv : v ∈ x.2) :
    (x.1, v) ∈ d.arcs := by
  unfold AdjList.arcs
  rw [List.mem_map] at hx
  obtain ⟨p, hp, rfl⟩ := hx
  rw [List.mem_flatMap]
  exact ⟨p, hp, List.mem_map.2 ⟨v, hv, rfl⟩⟩

/-- one row: every `*conv_ptr.add(v)` of it is inside the allocation -/
theorem converse_for0_eq (n : Nat) (conv : List (List Nat)) (x : Nat × List Nat) (hc : conv.length = n)
    (hx : ∀ v ∈ x.2, v < n) :
    (AlgoGen.AdjacencyList.converse_for0 conv x : Blk (List (List Nat)) AdjList (List (List Nat))) =
        .ok (x.2.foldl (fun c v => vstep c (x.1, v)) conv) ∧
      (x.2.foldl (fun c v => vstep c (x.1, v)) conv).length = n := by
  unfold AlgoGen.AdjacencyList.converse_for0
  dsimp only
  have := forLoop_pure_inv (β := List (List Nat)) (ρ := AdjList) (fun c : List (List Nat) => c.length = n)
    (AlgoGen.AdjacencyList.converse_for1 x.1) (fun c v => vstep c (x.1, v)) x.2
    (fun c v hv hcl => ⟨converse_for1_eq x.1 c v (by rw [hcl]; exact hx v hv), by rw [vstep_length]; exact hcl⟩)
    x.2 conv (fun _ h => h) hc
  rw [this.1]
  exact ⟨rfl, this.2⟩

/-- `AdjacencyList::converse` = the hand-written `converseAL` when every head is a vertex (part of
`AdjList.WF`): then no `*conv_ptr.add(v)` is out of bounds.  (Outside this hypothesis the Rust code has
UB and the generated definition says so, while the hand-written model skips the write.) -/
theorem converse_eq (d : AdjList) (hin : ∀ a ∈ d.arcs, a.2 < d.order) :
    AlgoGen.AdjacencyList.converse d = optR (Ops.converseAL d) := by
  unfold AlgoGen.AdjacencyList.converse Ops.converseAL
  by_cases h0 : d.order = 0
  · simp [h0, optR]
  · have hp : d.order > 0 := Nat.pos_of_ne_zero h0
    simp only [hp, decide_true, assert_true, ok_bind, h0, if_false]
    have houter := forLoop_pure_inv (β := Empty) (ρ := AdjList) (fun c : List (List Nat) => c.length = d.order)
      AlgoGen.AdjacencyList.converse_for0 (fun c x => x.2.foldl (fun c v => vstep c (x.1, v)) c)
      (List.map (fun p : List Nat × Nat => (p.2, p.1)) d.rows.zipIdx)
      (fun c x hx hcl => converse_for0_eq d.order c x hcl (fun v hv => hin _ (mem_arcs_of_row d x hx v hv)))
      _ (List.replicate d.order []) (fun _ h => h) List.length_replicate
    rw [houter.1]
    simp only [ok_bind, pure_eq_ok, fnBody_ok, optR]
    congr 2
    unfold AdjList.arcs
    rw [foldl_flatMap, List.foldl_map]
    congr 1
    funext c p
    rw [List.foldl_map]
    rfl

end AdjacencyList

namespace AdjacencyListWeighted

/-! ## `AdjacencyListWeighted::converse` -/

/-- `arcs[v].insert(u, w)` (checked indexing) -/
def wstep (rows : List (List (Nat × Int))) (a : Nat × Nat × Int) : Option (List (List (Nat × Int))) :=
  if a.2.1 < rows.length then some (rows.set a.2.1 (Ops.minsert a.1 a.2.2 (rows[a.2.1]?.getD []))) else none

theorem converse_for1_eq (u : Nat) (rows : List (List (Nat × Int))) (x : Nat × Int) :
    (AlgoGen.AdjacencyListWeighted.converse_for1 u rows x : Blk (List (List (Nat × Int))) AdjListW (List (List (Nat × Int)))) =
      optP (wstep rows (u, x.1, x.2)) := by
  unfold AlgoGen.AdjacencyListWeighted.converse_for1 wstep
  dsimp only
  by_cases hv : x.1 < rows.length
  · simp only [idx_lt _ _ hv, ok_bind, pure_eq_ok, hv, if_true, List.getElem?_eq_getElem hv, Option.getD_some]
    rfl
  · simp only [idx_ge _ _ (Nat.le_of_not_lt hv), hv, if_false]
    rfl

theorem converse_for0_eq (rows : List (List (Nat × Int))) (x : Nat × List (Nat × Int)) :
    (AlgoGen.AdjacencyListWeighted.converse_for0 rows x : Blk (List (List (Nat × Int))) AdjListW (List (List (Nat × Int)))) =
      optP ((x.2.map fun vw => (x.1, vw.1, vw.2)).foldlM wstep rows) := by
  unfold AlgoGen.AdjacencyListWeighted.converse_for0
  dsimp only
  rw [forLoop_optP _ _ (converse_for1_eq x.1), List.foldlM_map]

/-- `AdjacencyListWeighted::converse` = the hand-written `converseW`, for every value. -/
theorem converse_eq (d : AdjListW) : AlgoGen.AdjacencyListWeighted.converse d = optR (Ops.converseW d) := by
  unfold AlgoGen.AdjacencyListWeighted.converse Ops.converseW
  dsimp only
  rw [forLoop_optP _ _ converse_for0_eq]
  have hfold : ∀ rows0, (List.map (fun p : List (Nat × Int) × Nat => (p.2, p.1)) d.rows.zipIdx).foldlM
      (fun rows x => (x.2.map fun vw => (x.1, vw.1, vw.2)).foldlM wstep rows) rows0 =
      d.arcsWeighted.foldlM (fun (rows : List (List (Nat × Int))) a =>
        if a.2.1 < rows.length then some (rows.set a.2.1 (Ops.minsert a.1 a.2.2 (rows[a.2.1]?.getD []))) else none) rows0 := by
    intro rows0
    unfold AdjListW.arcsWeighted
    rw [foldlM_flatMap, List.foldlM_map]
    rfl
  rw [hfold]
  cases d.arcsWeighted.foldlM (fun (rows : List (List (Nat × Int))) a =>
        if a.2.1 < rows.length then some (rows.set a.2.1 (Ops.minsert a.1 a.2.2 (rows[a.2.1]?.getD []))) else none)
      (List.replicate d.order []) <;> rfl

end AdjacencyListWeighted

namespace AdjacencyMap

/-! ## `AdjacencyMap::complement`, `converse`, `filter_vertices` -/

/-- `AdjacencyMap::complement` = the hand-written `complementAM`, for every value. -/
theorem complement_eq (d : AdjMap) : AlgoGen.AdjacencyMap.complement d = .ok (Ops.complementAM d) := rfl

theorem converse_for1_eq (u : Nat) (m : List (Nat × List Nat)) (v : Nat) :
    (AlgoGen.AdjacencyMap.converse_for1 u m v : Blk (List (Nat × List Nat)) AdjMap (List (Nat × List Nat))) =
      .ok (mupsert v [] (sinsert u) m) := rfl

theorem converse_for0_eq (m : List (Nat × List Nat)) (x : Nat × List Nat) :
    (AlgoGen.AdjacencyMap.converse_for0 m x : Blk (List (Nat × List Nat)) AdjMap (List (Nat × List Nat))) =
      .ok (x.2.foldl (fun m v => mupsert v [] (sinsert x.1) m) m) := by
  unfold AlgoGen.AdjacencyMap.converse_for0
  dsimp only
  rw [forLoop_pure _ _ (converse_for1_eq x.1)]

/-- `AdjacencyMap::converse` = the hand-written `converseAM`, for every value. -/
theorem converse_eq (d : AdjMap) : AlgoGen.AdjacencyMap.converse d = .ok (Ops.converseAM d) := by
  unfold AlgoGen.AdjacencyMap.converse Ops.converseAM
  dsimp only
  rw [forLoop_pure _ _ converse_for0_eq]
  simp only [ok_bind, pure_eq_ok, fnBody_ok, List.map_map]
  congr 2
  unfold AdjMap.arcs
  rw [foldl_flatMap]
  congr 1
  funext m x
  rw [List.foldl_map]

theorem mget_of_mem {X : Type} {k : Nat} {x : X} : ∀ {l : List (Nat × X)}, SortedK l → (k, x) ∈ l → mget k l = some x
  | [], _, h => by simp at h
  | (k', x') :: rest, hs, h => by
    unfold SortedK at hs
    rw [List.pairwise_cons] at hs
    unfold mget
    rcases List.mem_cons.1 h with h | h
    · cases h; simp
    · have hlt : k' < k := hs.1 (k, x) h
      have h1 : ¬ k = k' := by omega
      have h2 : ¬ k < k' := by omega
      simp only [h1, h2, if_false]
      exact mget_of_mem hs.2 h

theorem filterVertices_for1_eq (p : Nat → Bool) (u : Nat) (m : List (Nat × List Nat)) (v : Nat) :
    (AlgoGen.AdjacencyMap.filterVertices_for1 p u m v : Blk (List (Nat × List Nat)) AdjMap (List (Nat × List Nat))) =
      .ok (if p v then mupsert v [] id (mupsert u [] (sinsert v) m) else m) := by
  unfold AlgoGen.AdjacencyMap.filterVertices_for1
  by_cases hp : p v = true
  · simp only [hp, if_true]; rfl
  · simp only [hp, if_false, Bool.false_eq_true]; rfl

/-- the vertex `e.1` with its row `e.2` (`out_neighbors(e.1)` finds the row of a key-sorted map) -/
theorem filterVertices_for0_eq (d : AdjMap) (p : Nat → Bool) (m : List (Nat × List Nat)) (e : Nat × List Nat)
    (hget : mget e.1 d.rows = some e.2) :
    (AlgoGen.AdjacencyMap.filterVertices_for0 d p m e.1 : Blk (List (Nat × List Nat)) AdjMap _) =
      .ok (if p e.1 then
        e.2.foldl (fun m v => if p v then mupsert v [] id (mupsert e.1 [] (sinsert v) m) else m)
          (mupsert e.1 [] id m)
      else m) := by
  unfold AlgoGen.AdjacencyMap.filterVertices_for0
  by_cases hp : p e.1 = true
  · simp only [hp, if_true, hget, optP, ok_bind, forLoop_pure _ _ (filterVertices_for1_eq p e.1), pure_eq_ok]
  · simp only [hp, if_false, Bool.false_eq_true, pure_eq_ok, ok_bind]

/-- `AdjacencyMap::filter_vertices` = the hand-written `filterAM` for a key-sorted map (the `BTreeMap`
invariant, part of `AdjMap.WF`: `out_neighbors(u)` of a key `u` is its row), for every predicate. -/
theorem filterVertices_eq (d : AdjMap) (p : Nat → Bool) (hs : SortedK d.rows) :
    AlgoGen.AdjacencyMap.filterVertices d p = .ok (Ops.filterAM d p) := by
  unfold AlgoGen.AdjacencyMap.filterVertices Ops.filterAM AdjMap.vertices
  dsimp only
  have hloop : ∀ (l : List (Nat × List Nat)) (m : List (Nat × List Nat)), (∀ e ∈ l, e ∈ d.rows) →
      (forLoop (AlgoGen.AdjacencyMap.filterVertices_for0 d p) (l.map (·.1)) m : Blk Empty AdjMap _) =
        .ok (l.foldl (fun m e =>
          if p e.1 then
            e.2.foldl (fun m v => if p v then mupsert v [] id (mupsert e.1 [] (sinsert v) m) else m)
              (mupsert e.1 [] id m)
          else m) m) := by
    intro l
    induction l with
    | nil => intro m _; rfl
    | cons e l ih =>
      intro m hsub
      rw [List.map_cons, List.foldl_cons]
      rw [forLoop_cons_ok (h := filterVertices_for0_eq d p m e (mget_of_mem hs (hsub e List.mem_cons_self)))]
      exact ih _ (fun b hb => hsub b (List.mem_cons_of_mem _ hb))
  rw [hloop d.rows [] (fun _ h => h)]
  rfl

end AdjacencyMap
end GraafVerif.AlgoGenThm
