import GraafVerif.Proof.OracleUses
/-!
# The oracles without the "sources in range" hypothesis

An out-of-range source is ignored by all three oracles (`set` / `setIfInBounds` beyond the end is a
no-op) and, in a well-formed digraph, reaches nothing but itself.  So for vertices `v < g.n` the
specifications hold for EVERY source list: the oracle on `S` is the oracle on
`S.filter (· < g.n)`, and the declarative notions at an in-range vertex do not see the
out-of-range sources.
-/
namespace GraafVerif.OracleProof

/-- The in-range sources. -/
def inR (n : Nat) (S : List Nat) : List Nat := S.filter (· < n)

theorem inR_lt {n : Nat} {S : List Nat} : ∀ s ∈ inR n S, s < n := by
  intro s hs
  simpa using (List.mem_filter.mp hs).2

theorem mem_inR {n : Nat} {S : List Nat} {s : Nat} : s ∈ inR n S ↔ s ∈ S ∧ s < n := by
  simp [inR, List.mem_filter]

/-! ## The oracles ignore out-of-range sources -/

theorem list_init_filter {α : Type} (z : Option α) (n : Nat) : ∀ (S : List Nat) (a : List (Option α)),
    a.length = n →
    S.foldl (fun d s => d.set s z) a = (inR n S).foldl (fun d s => d.set s z) a := by
  intro S
  induction S with
  | nil => intro a _; rfl
  | cons s rest ih =>
    intro a ha
    unfold inR at ih ⊢
    by_cases hs : s < n
    · rw [List.filter_cons_of_pos (by simpa using hs), List.foldl_cons, List.foldl_cons]
      exact ih _ (by simpa using ha)
    · rw [List.filter_cons_of_neg (by simpa using hs), List.foldl_cons,
        List.set_eq_of_length_le (by omega)]
      exact ih a ha

theorem array_init_filter (n : Nat) : ∀ (S : List Nat) (a : Array Bool), a.size = n →
    S.foldl (fun vis s => vis.setIfInBounds s true) a
      = (inR n S).foldl (fun vis s => vis.setIfInBounds s true) a := by
  intro S
  induction S with
  | nil => intro a _; rfl
  | cons s rest ih =>
    intro a ha
    unfold inR at ih ⊢
    by_cases hs : s < n
    · rw [List.filter_cons_of_pos (by simpa using hs), List.foldl_cons, List.foldl_cons]
      exact ih _ (by simpa using ha)
    · rw [List.filter_cons_of_neg (by simpa using hs), List.foldl_cons,
        Array.setIfInBounds_eq_of_size_le (by omega)]
      exact ih a ha

theorem reachSetB_filter (g : Graph) (S : List Nat) : reachSetB g S = reachSetB g (inR g.n S) := by
  rw [reachSetB_eq, reachSetB_eq]
  unfold rInit
  rw [array_init_filter g.n S _ (by simp)]

theorem hopDistB_filter (g : Graph) (S : List Nat) : hopDistB g S = hopDistB g (inR g.n S) := by
  rw [hopDistB_eq, hopDistB_eq]
  unfold hInit
  rw [list_init_filter (some 0) g.n S _ (by simp)]

theorem wdistB_filter (g : WGraph) (S : List Nat) : wdistB g S = wdistB g (inR g.n S) := by
  rw [wdistB_eq, wdistB_eq]
  unfold wRoundsN wInit
  rw [list_init_filter (some 0) g.n S _ (by simp)]

/-! ## The declarative notions at an in-range vertex ignore them too -/

theorem reachIn_src_lt {g : Graph} (hwf : g.WF) {k s v : Nat} (h : ReachIn g k s v) (hv : v < g.n) :
    s < g.n := by
  induction h with
  | zero => exact hv
  | succ _ ha ih => exact ih (hwf _ _ ha).1

theorem reach_src_lt {g : Graph} (hwf : g.WF) {s v : Nat} (h : Reach g s v) (hv : v < g.n) :
    s < g.n := by
  induction h with
  | refl => exact hv
  | step _ ha ih => exact ih (hwf _ _ ha).1

theorem wwalk_src_lt {g : WGraph} (hwf : g.WF) {s v k : Nat} {wt : Int} (h : WWalk g s v k wt)
    (hv : v < g.n) : s < g.n := by
  induction h with
  | nil => exact hv
  | snoc _ ha ih => exact ih (hwf _ _ _ ha).1

theorem reachFrom_filter {g : Graph} (hwf : g.WF) (S : List Nat) {v : Nat} (hv : v < g.n) :
    ReachFrom g S v ↔ ReachFrom g (inR g.n S) v := by
  constructor
  · rintro ⟨s, hs, hr⟩
    exact ⟨s, mem_inR.mpr ⟨hs, reach_src_lt hwf hr hv⟩, hr⟩
  · rintro ⟨s, hs, hr⟩
    exact ⟨s, (mem_inR.mp hs).1, hr⟩

theorem reachInFrom_filter {g : Graph} (hwf : g.WF) (S : List Nat) {v : Nat} (hv : v < g.n) (k : Nat) :
    (∃ s ∈ S, ReachIn g k s v) ↔ (∃ s ∈ inR g.n S, ReachIn g k s v) := by
  constructor
  · rintro ⟨s, hs, hr⟩
    exact ⟨s, mem_inR.mpr ⟨hs, reachIn_src_lt hwf hr hv⟩, hr⟩
  · rintro ⟨s, hs, hr⟩
    exact ⟨s, (mem_inR.mp hs).1, hr⟩

theorem isHopDist_filter {g : Graph} (hwf : g.WF) (S : List Nat) {v : Nat} (hv : v < g.n) (d : Nat) :
    IsHopDist g S v d ↔ IsHopDist g (inR g.n S) v d := by
  unfold IsHopDist
  rw [reachInFrom_filter hwf S hv d]
  constructor
  · rintro ⟨h1, h2⟩
    exact ⟨h1, fun k hk hex => h2 k hk ((reachInFrom_filter hwf S hv k).mpr hex)⟩
  · rintro ⟨h1, h2⟩
    exact ⟨h1, fun k hk hex => h2 k hk ((reachInFrom_filter hwf S hv k).mp hex)⟩

theorem wReachFrom_filter {g : WGraph} (hwf : g.WF) (S : List Nat) {v : Nat} (hv : v < g.n) :
    WReachFrom g S v ↔ WReachFrom g (inR g.n S) v := by
  constructor
  · rintro ⟨s, hs, k, wt, hw⟩
    exact ⟨s, mem_inR.mpr ⟨hs, wwalk_src_lt hwf hw hv⟩, k, wt, hw⟩
  · rintro ⟨s, hs, hr⟩
    exact ⟨s, (mem_inR.mp hs).1, hr⟩

theorem isMinDist_filter {g : WGraph} (hwf : g.WF) (S : List Nat) {v : Nat} (hv : v < g.n) (d : Int) :
    IsMinDist g S v d ↔ IsMinDist g (inR g.n S) v d := by
  constructor
  · rintro ⟨⟨s, hs, k, hw⟩, hmin⟩
    exact ⟨⟨s, mem_inR.mpr ⟨hs, wwalk_src_lt hwf hw hv⟩, k, hw⟩,
      fun s' hs' k' wt' hw' => hmin s' (mem_inR.mp hs').1 k' wt' hw'⟩
  · rintro ⟨⟨s, hs, k, hw⟩, hmin⟩
    exact ⟨⟨s, (mem_inR.mp hs).1, k, hw⟩,
      fun s' hs' k' wt' hw' => hmin s' (mem_inR.mpr ⟨hs', wwalk_src_lt hwf hw' hv⟩) k' wt' hw'⟩

theorem negReachableFrom_filter {g : WGraph} (hwf : g.WF) (S : List Nat) :
    NegReachableFrom g S ↔ NegReachableFrom g (inR g.n S) := by
  constructor
  · rintro ⟨x, hr, hneg⟩
    exact ⟨x, (wReachFrom_filter hwf S (negCycle_lt hwf hneg)).mp hr, hneg⟩
  · rintro ⟨x, hr, hneg⟩
    exact ⟨x, (wReachFrom_filter hwf S (negCycle_lt hwf hneg)).mpr hr, hneg⟩

/-! ## Specifications for every source list -/

theorem reachSetB_spec_wf {g : Graph} (hwf : g.WF) (S : List Nat) {v : Nat} (hv : v < g.n) :
    (reachSetB g S)[v]?.getD false = true ↔ ReachFrom g S v := by
  rw [reachSetB_filter, reachFrom_filter hwf S hv]
  exact reachSetB_spec hwf inR_lt v

theorem hopDistB_spec_wf {g : Graph} (hwf : g.WF) (S : List Nat) {v : Nat} (hv : v < g.n) (d : Nat) :
    (hopDistB g S)[v]?.getD none = some d ↔ IsHopDist g S v d := by
  rw [hopDistB_filter, isHopDist_filter hwf S hv]
  exact hopDistB_spec hwf inR_lt v d

theorem hopDistB_none_wf {g : Graph} (hwf : g.WF) (S : List Nat) {v : Nat} (hv : v < g.n) :
    (hopDistB g S)[v]?.getD none = none ↔ ¬ ReachFrom g S v := by
  rw [hopDistB_filter, reachFrom_filter hwf S hv]
  exact hopDistB_none hwf inR_lt v

theorem wdistB_flag_wf {g : WGraph} (hwf : g.WF) (S : List Nat) :
    (wdistB g S).2 = true ↔ NegReachableFrom g S := by
  rw [wdistB_filter, negReachableFrom_filter hwf S]
  exact wdistB_flag hwf inR_lt

theorem wdistB_spec_wf {g : WGraph} (hwf : g.WF) (S : List Nat) (hf : (wdistB g S).2 = false) :
    (wdistB g S).1.length = g.n ∧
    (∀ v, v < g.n → ∀ x, (wdistB g S).1[v]?.getD none = some x ↔ IsMinDist g S v x) ∧
    (∀ v, v < g.n → ((wdistB g S).1[v]?.getD none = none ↔ ¬ WReachFrom g S v)) := by
  rw [wdistB_filter] at hf ⊢
  obtain ⟨hlen, hfin, hinf⟩ := wdistB_spec hwf (S := inR g.n S) inR_lt hf
  refine ⟨hlen, fun v hv x => ?_, fun v hv => ?_⟩
  · rw [isMinDist_filter hwf S hv]; exact hfin v x
  · rw [wReachFrom_filter hwf S hv]; exact hinf v

end GraafVerif.OracleProof
