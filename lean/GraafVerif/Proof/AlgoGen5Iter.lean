import GraafVerif.Proof.AlgoGen5Walk
import GraafVerif.Proof.ReprALIter
import GraafVerif.Proof.ReprMXIter
/-!
# Generated hand-rolled iterators (`next` on an explicit state) = the literal hand models

`collect next N s` (Proof/AlgoGenRt.lean) drives the generated `next` until it answers `None`.
-/
set_option linter.unusedSimpArgs false
namespace GraafVerif.AlgoGenThm
open GraafVerif GraafVerif.AlgoGen GraafVerif.Repr

/-- `collect` of a `next` that is specified by a list of remaining items: if every state with remaining items `x :: xs`
yields `x` and moves to a state with remaining items `xs`, and a state without remaining items yields `None` -/
theorem collect_of_spec {τ ι : Type} (next : τ → Res (Option ι × τ)) (rem : τ → List ι) (I : τ → Prop)
    (hnone : ∀ s, I s → rem s = [] → ∃ s', next s = .ok (none, s'))
    (hsome : ∀ s x xs, I s → rem s = x :: xs → ∃ s', next s = .ok (some x, s') ∧ rem s' = xs ∧ I s') :
    ∀ (N : Nat) (s : τ), I s → (rem s).length < N → ∃ s', collect next N s = .ok (rem s, s') := by
  intro N
  induction N with
  | zero => intro s _ h; omega
  | succ N ih =>
    intro s hI hN
    cases hr : rem s with
    | nil =>
      obtain ⟨s', h⟩ := hnone s hI hr
      exact ⟨s', by simp [collect, h]⟩
    | cons x xs =>
      obtain ⟨s', h, hrem, hI'⟩ := hsome s x xs hI hr
      rw [hr] at hN
      obtain ⟨s'', h2⟩ := ih s' hI' (by rw [hrem]; simp at hN; omega)
      exact ⟨s'', by simp [collect, h, h2, hrem]⟩

namespace AdjacencyList
/-- `in_neighbors(v)`: the iterator over all rows (`ptr` = the rows, `len` = their number) -/
theorem inNeighborsIter_eq (d : AdjList) (v : Nat) :
    AlgoGen.AdjacencyList.inNeighborsIter d v = .ok ⟨d.rows, d.rows.length, 0, v, ()⟩ := rfl
/-- `arcs()`: the iterator before the first row -/
theorem arcsIter_eq (d : AdjList) : AlgoGen.AdjacencyList.arcsIter d = .ok ⟨d.rows, 0, none⟩ := rfl
end AdjacencyList

namespace AdjacencyMatrix
/-- `arcs()` = `ArcsIterator::new(self)` = the hand-written `iterInit` on this matrix -/
theorem arcsIter_eq (d : AdjMatrix) : AlgoGen.AdjacencyMatrix.arcsIter d = .ok ⟨d, 0, 0#64, 0⟩ := rfl
end AdjacencyMatrix

/-! ## `InNeighborsIterator` (raw `ptr` / `len`) -/
namespace InNeighborsIterator

/-- the in-neighbours still to come from row `i` on -/
def rem (rows : List (List Nat)) (v : Nat) (i : Nat) : List Nat :=
  (((rows.drop i).zipIdx i).filter fun p => p.1.contains v).map (·.2)

theorem rem_ge (rows : List (List Nat)) (v i : Nat) (h : rows.length ≤ i) : rem rows v i = [] := by
  unfold rem
  rw [List.drop_eq_nil_of_le h]
  rfl

theorem rem_lt (rows : List (List Nat)) (v i : Nat) (h : i < rows.length) :
    rem rows v i = if rows[i].contains v then i :: rem rows v (i + 1) else rem rows v (i + 1) := by
  unfold rem
  rw [List.drop_eq_getElem_cons h, List.zipIdx_cons, List.filter_cons]
  by_cases hc : rows[i].contains v = true <;> simp only [hc, if_true, if_false, List.map_cons, Bool.false_eq_true]

theorem next_while0_eq (rows : List (List Nat)) (v i : Nat) (h : i < rows.length) :
    (AlgoGen.InNeighborsIterator.next_while0 ⟨rows, rows.length, i, v, ()⟩ : Blk _ (Option Nat × AlgoGen.InNeighborsIterator) _) =
      if rows[i].contains v then ret (some i, ⟨rows, rows.length, i + 1, v, ()⟩) else .ok ⟨rows, rows.length, i + 1, v, ()⟩ := by
  unfold AlgoGen.InNeighborsIterator.next_while0
  simp only [h, if_true, rd_lt _ _ _ h, ok_bind]
  by_cases hc : rows[i].contains v = true
  · simp only [hc, if_true]
  · simp only [hc, if_false, pure_eq_ok, Bool.false_eq_true]

theorem next_loop (rows : List (List Nat)) (v : Nat) : ∀ (m i F : Nat), rows.length - i ≤ m → rows.length - i ≤ F →
    (whileLoop AlgoGen.InNeighborsIterator.next_while0 F ⟨rows, rows.length, i, v, ()⟩ :
        Blk Empty (Option Nat × AlgoGen.InNeighborsIterator) AlgoGen.InNeighborsIterator) =
      match rem rows v i with
      | [] => .ok ⟨rows, rows.length, max i rows.length, v, ()⟩
      | x :: _ => .error (.ret (some x, ⟨rows, rows.length, x + 1, v, ()⟩)) := by
  intro m
  induction m with
  | zero =>
    intro i F hm _
    have hge : rows.length ≤ i := by omega
    rw [rem_ge rows v i hge]
    have hmax : max i rows.length = i := Nat.max_eq_left hge
    have hexit : (AlgoGen.InNeighborsIterator.next_while0 ⟨rows, rows.length, i, v, ()⟩ :
        Blk _ (Option Nat × AlgoGen.InNeighborsIterator) _) = brk ⟨rows, rows.length, i, v, ()⟩ := by
      unfold AlgoGen.InNeighborsIterator.next_while0
      have : ¬ i < rows.length := by omega
      simp only [this, if_false]
    cases F with
    | zero => simp [whileLoop, hmax]
    | succ F => simp [whileLoop, hexit, brk, hmax]
  | succ m ih =>
    intro i F hm hF
    by_cases h : i < rows.length
    · obtain ⟨F', rfl⟩ : ∃ F', F = F' + 1 := ⟨F - 1, by omega⟩
      rw [rem_lt rows v i h]
      simp only [whileLoop, next_while0_eq rows v i h]
      by_cases hc : rows[i].contains v = true
      · simp only [hc, if_true]
        rfl
      · simp only [hc, if_false, Bool.false_eq_true]
        have := ih (i + 1) F' (by omega) (by omega)
        have hmax : max (i + 1) rows.length = max i rows.length := by omega
        rw [hmax] at this
        exact this
    · have hge : rows.length ≤ i := by omega
      rw [rem_ge rows v i hge]
      have hmax : max i rows.length = i := Nat.max_eq_left hge
      have hexit : (AlgoGen.InNeighborsIterator.next_while0 ⟨rows, rows.length, i, v, ()⟩ :
          Blk _ (Option Nat × AlgoGen.InNeighborsIterator) _) = brk ⟨rows, rows.length, i, v, ()⟩ := by
        unfold AlgoGen.InNeighborsIterator.next_while0
        simp only [h, if_false]
      cases F with
      | zero => simp [whileLoop, hmax]
      | succ F => simp [whileLoop, hexit, brk, hmax]

/-- one `next()`: the first remaining in-neighbour, or `None` -/
theorem next_eq (rows : List (List Nat)) (v i : Nat) :
    AlgoGen.InNeighborsIterator.next ⟨rows, rows.length, i, v, ()⟩ =
      match rem rows v i with
      | [] => .ok (none, ⟨rows, rows.length, max i rows.length, v, ()⟩)
      | x :: _ => .ok (some x, ⟨rows, rows.length, x + 1, v, ()⟩) := by
  unfold AlgoGen.InNeighborsIterator.next
  rw [next_loop rows v rows.length i rows.length (by omega) (by omega)]
  cases rem rows v i <;> rfl

theorem rem_tail (rows : List (List Nat)) (v : Nat) : ∀ (m i : Nat) (x : Nat) (xs : List Nat), rows.length - i ≤ m →
    rem rows v i = x :: xs → rem rows v (x + 1) = xs := by
  intro m
  induction m with
  | zero => intro i x xs hm h; rw [rem_ge rows v i (by omega)] at h; cases h
  | succ m ih =>
    intro i x xs hm h
    by_cases hi : i < rows.length
    · rw [rem_lt rows v i hi] at h
      by_cases hc : rows[i].contains v = true
      · simp only [hc, if_true] at h
        injection h with h1 h2
        subst h1
        exact h2
      · simp only [hc, if_false, Bool.false_eq_true] at h
        exact ih (i + 1) x xs (by omega) h
    · rw [rem_ge rows v i (by omega)] at h; cases h

/-- **`in_neighbors(v).collect()`** through the generated constructor and `next` = the hand-written `Query.AL.inNeighbors` -/
theorem collect_eq (d : AdjList) (v : Nat) (N : Nat) (hN : (Query.AL.inNeighbors d v).length < N) :
    ∃ s', (AlgoGen.AdjacencyList.inNeighborsIter d v >>= fun s => collect AlgoGen.InNeighborsIterator.next N s) =
      .ok (Query.AL.inNeighbors d v, s') := by
  have hinit : AlgoGen.AdjacencyList.inNeighborsIter d v = .ok ⟨d.rows, d.rows.length, 0, v, ()⟩ := rfl
  have hrem0 : rem d.rows v 0 = Query.AL.inNeighbors d v := by simp [rem, Query.AL.inNeighbors]
  rw [hinit]
  have := collect_of_spec AlgoGen.InNeighborsIterator.next (fun s => rem s.ptr s.v s.i)
    (fun s => s.len = s.ptr.length ∧ s._marker = ())
    (fun s hI hr => by
      obtain ⟨rows, len, i, v', mk⟩ := s
      obtain ⟨h1, _⟩ := hI
      simp only at h1 hr
      subst h1
      cases mk
      refine ⟨⟨rows, rows.length, max i rows.length, v', ()⟩, ?_⟩
      show AlgoGen.InNeighborsIterator.next ⟨rows, rows.length, i, v', ()⟩ = _
      rw [next_eq, hr])
    (fun s x xs hI hr => by
      obtain ⟨rows, len, i, v', mk⟩ := s
      obtain ⟨h1, _⟩ := hI
      simp only at h1 hr
      subst h1
      cases mk
      refine ⟨⟨rows, rows.length, x + 1, v', ()⟩, ?_, ?_, rfl, rfl⟩
      · show AlgoGen.InNeighborsIterator.next ⟨rows, rows.length, i, v', ()⟩ = _
        rw [next_eq, hr]
      · exact rem_tail rows v' rows.length i x xs (by omega) hr)
    N ⟨d.rows, d.rows.length, 0, v, ()⟩ ⟨rfl, rfl⟩ (by simp only [hrem0]; exact hN)
  obtain ⟨s', h⟩ := this
  simp only [hrem0] at h
  exact ⟨s', h⟩

end InNeighborsIterator
/-! ## `AdjacencyList`'s `ArcsIterator` -/
namespace AlArcsIterator

/-- the arcs still to come -/
def rem (s : AlgoGen.AlArcsIterator) : List (Nat × Nat) := AdjList.innerCells s.u s.inner ++ flatRows s.u (s.arcs.drop s.u)

/-- an opened row belongs to row `u - 1` -/
def Inv (s : AlgoGen.AlArcsIterator) : Prop := s.inner.isSome = true → 1 ≤ s.u

theorem loop0_item (rows : List (List Nat)) (u v : Nat) (rest : List Nat) (hu : 1 ≤ u) :
    (AlgoGen.AlArcsIterator.next_loop0 ⟨rows, u, some (v :: rest)⟩ : Blk _ (Option (Nat × Nat) × AlgoGen.AlArcsIterator) _) =
      ret (some (u - 1, v), ⟨rows, u, some rest⟩) := by
  unfold AlgoGen.AlArcsIterator.next_loop0
  simp only [popFront, subP_le _ _ hu, ok_bind]
  rfl

/-- one round of the `loop` with a non-empty opened row (the other cases: `loop0_end`, `loop0_open`) -/
theorem next_loop0_eq (rows : List (List Nat)) (u v : Nat) (rest : List Nat) (hu : 1 ≤ u) :
    (AlgoGen.AlArcsIterator.next_loop0 ⟨rows, u, some (v :: rest)⟩ : Blk _ (Option (Nat × Nat) × AlgoGen.AlArcsIterator) _) =
      ret (some (u - 1, v), ⟨rows, u, some rest⟩) := loop0_item rows u v rest hu

theorem loop0_end (rows : List (List Nat)) (u : Nat) (inner : Option (List Nat)) (hin : inner = none ∨ inner = some [])
    (hu : rows.length ≤ u) :
    (AlgoGen.AlArcsIterator.next_loop0 ⟨rows, u, inner⟩ : Blk _ (Option (Nat × Nat) × AlgoGen.AlArcsIterator) _) =
      ret (none, ⟨rows, u, inner⟩) := by
  have hge : u ≥ rows.length := hu
  unfold AlgoGen.AlArcsIterator.next_loop0
  rcases hin with rfl | rfl <;> simp only [popFront, ok_bind, pure_eq_ok, hge, if_true] <;> rfl

theorem loop0_open (rows : List (List Nat)) (u : Nat) (inner : Option (List Nat)) (hin : inner = none ∨ inner = some [])
    (hu : u < rows.length) :
    (AlgoGen.AlArcsIterator.next_loop0 ⟨rows, u, inner⟩ : Blk _ (Option (Nat × Nat) × AlgoGen.AlArcsIterator) _) =
      .ok ⟨rows, u + 1, some rows[u]⟩ := by
  have hge : ¬ u ≥ rows.length := by omega
  unfold AlgoGen.AlArcsIterator.next_loop0
  rcases hin with rfl | rfl <;> simp only [popFront, ok_bind, pure_eq_ok, hge, if_false, rd_lt _ _ _ hu] <;> rfl

theorem rem_open (rows : List (List Nat)) (u : Nat) (inner : Option (List Nat)) (hin : inner = none ∨ inner = some [])
    (hu : u < rows.length) : rem ⟨rows, u, inner⟩ = rem ⟨rows, u + 1, some rows[u]⟩ := by
  unfold rem
  simp only
  rw [AdjList.flatRows_drop_lt rows hu]
  rcases hin with rfl | rfl <;>
    simp [AdjList.innerCells, List.getElem?_eq_getElem hu]

/-- one `next()` (the `loop`): it returns, within the fuel, the first remaining arc or `None` -/
theorem next_loop (rows : List (List Nat)) : ∀ (m u : Nat) (inner : Option (List Nat)) (F : Nat), rows.length - u ≤ m → m + 2 ≤ F →
    Inv ⟨rows, u, inner⟩ → ∃ o s',
      (loopLoop AlgoGen.AlArcsIterator.next_loop0 F ⟨rows, u, inner⟩ :
        Blk Empty (Option (Nat × Nat) × AlgoGen.AlArcsIterator) (Option (Nat × Nat) × AlgoGen.AlArcsIterator)) = .error (.ret (o, s')) ∧
      (match o with
       | none => rem ⟨rows, u, inner⟩ = []
       | some x => rem ⟨rows, u, inner⟩ = x :: rem s' ∧ Inv s') := by
  intro m
  induction m with
  | zero =>
    intro u inner F hm hF hI
    obtain ⟨F', rfl⟩ : ∃ F', F = F' + 1 := ⟨F - 1, by omega⟩
    match inner, hI with
    | some (v :: rest), hI =>
      have hu : 1 ≤ u := hI rfl
      exact ⟨some (u - 1, v), ⟨rows, u, some rest⟩, by simp [loopLoop, loop0_item rows u v rest hu, ret],
        by simp [rem, AdjList.innerCells], fun _ => hu⟩
    | some [], _ =>
      exact ⟨none, ⟨rows, u, some []⟩, by simp [loopLoop, loop0_end rows u _ (Or.inr rfl) (by omega), ret],
        by simp [rem, AdjList.innerCells, List.drop_eq_nil_of_le (show rows.length ≤ u by omega), flatRows_nil]⟩
    | none, _ =>
      exact ⟨none, ⟨rows, u, none⟩, by simp [loopLoop, loop0_end rows u _ (Or.inl rfl) (by omega), ret],
        by simp [rem, AdjList.innerCells, List.drop_eq_nil_of_le (show rows.length ≤ u by omega), flatRows_nil]⟩
  | succ m ih =>
    intro u inner F hm hF hI
    obtain ⟨F', rfl⟩ : ∃ F', F = F' + 1 := ⟨F - 1, by omega⟩
    match inner, hI with
    | some (v :: rest), hI =>
      have hu : 1 ≤ u := hI rfl
      exact ⟨some (u - 1, v), ⟨rows, u, some rest⟩, by simp [loopLoop, loop0_item rows u v rest hu, ret],
        by simp [rem, AdjList.innerCells], fun _ => hu⟩
    | some [], _ =>
      by_cases hu : u < rows.length
      · obtain ⟨o, s', h1, h2⟩ := ih (u + 1) (some rows[u]) F' (by omega) (by omega) (fun _ => by simp only; omega)
        refine ⟨o, s', by simp only [loopLoop, loop0_open rows u _ (Or.inr rfl) hu]; exact h1, ?_⟩
        rw [rem_open rows u _ (Or.inr rfl) hu]
        exact h2
      · exact ⟨none, ⟨rows, u, some []⟩, by simp [loopLoop, loop0_end rows u _ (Or.inr rfl) (by omega), ret],
          by simp [rem, AdjList.innerCells, List.drop_eq_nil_of_le (show rows.length ≤ u by omega), flatRows_nil]⟩
    | none, _ =>
      by_cases hu : u < rows.length
      · obtain ⟨o, s', h1, h2⟩ := ih (u + 1) (some rows[u]) F' (by omega) (by omega) (fun _ => by simp only; omega)
        refine ⟨o, s', by simp only [loopLoop, loop0_open rows u _ (Or.inl rfl) hu]; exact h1, ?_⟩
        rw [rem_open rows u _ (Or.inl rfl) hu]
        exact h2
      · exact ⟨none, ⟨rows, u, none⟩, by simp [loopLoop, loop0_end rows u _ (Or.inl rfl) (by omega), ret],
          by simp [rem, AdjList.innerCells, List.drop_eq_nil_of_le (show rows.length ≤ u by omega), flatRows_nil]⟩

/-- `next()` = the first remaining arc (the loop never runs out of its fuel: no `div`) -/
theorem next_eq (s : AlgoGen.AlArcsIterator) (hI : Inv s) : ∃ o s', AlgoGen.AlArcsIterator.next s = .ok (o, s') ∧
    (match o with
     | none => rem s = []
     | some x => rem s = x :: rem s' ∧ Inv s') := by
  obtain ⟨rows, u, inner⟩ := s
  obtain ⟨o, s', h1, h2⟩ := next_loop rows rows.length u inner (rows.length + 2) (by omega) (by omega) hI
  refine ⟨o, s', ?_, h2⟩
  unfold AlgoGen.AlArcsIterator.next
  simp only [h1, error_bind, fnBody_ret]

/-- **`arcs().collect()`** through the generated constructor and `next` = the literal hand model `AdjList.arcsIter`
(= `d.arcs`, `C01.adjList_arcs_iterator`) -/
theorem collect_eq (d : AdjList) (N : Nat) (hN : d.arcs.length < N) :
    ∃ s', (AlgoGen.AdjacencyList.arcsIter d >>= fun s => collect AlgoGen.AlArcsIterator.next N s) = .ok (AdjList.arcsIter d, s') := by
  have hinit : AlgoGen.AdjacencyList.arcsIter d = .ok ⟨d.rows, 0, none⟩ := rfl
  have hrem0 : rem ⟨d.rows, 0, none⟩ = AdjList.arcsIter d := by
    rw [AdjList.arcsIter_eq, AdjList.arcs_eq]
    simp [rem, AdjList.innerCells]
  rw [hinit]
  have := collect_of_spec AlgoGen.AlArcsIterator.next rem Inv
    (fun s hI hr => by
      obtain ⟨o, s', h1, h2⟩ := next_eq s hI
      cases o with
      | none => exact ⟨s', h1⟩
      | some x => rw [hr] at h2; cases h2.1)
    (fun s x xs hI hr => by
      obtain ⟨o, s', h1, h2⟩ := next_eq s hI
      cases o with
      | none => rw [hr] at h2; cases h2
      | some y =>
        rw [hr] at h2
        obtain ⟨h3, h4⟩ := h2
        injection h3 with h5 h6
        subst h5
        exact ⟨s', h1, h6.symm, h4⟩)
    N ⟨d.rows, 0, none⟩ (fun h => by simp at h) (by rw [hrem0, AdjList.arcsIter_eq]; exact hN)
  obtain ⟨s', h⟩ := this
  rw [hrem0] at h
  exact ⟨s', h⟩

end AlArcsIterator

/-! ## `AdjacencyMatrix`'s `ArcsIterator` (`trailing_zeros`, `bits &= bits - 1`) -/
namespace MxArcsIterator
open GraafVerif.Repr.AdjMatrix

/-- the hand-written iterator state of a generated one -/
def st (s : AlgoGen.MxArcsIterator) : IterState := ⟨s.block_index, s.current_bits, s.current_base⟩

/-- the arcs still to come (the closed form of the hand-written `drain`, `AdjMatrix.drain_eq`) -/
def rem (s : AlgoGen.MxArcsIterator) : List (Nat × Nat) :=
  emit s.matrix (cellsOfBits s.current_base s.current_bits ++ restCells s.matrix s.block_index)

/-- consuming the lowest set bit of a non-zero word -/
def bitStep (d : AdjMatrix) (bi : Nat) (bits : BitVec 64) (base : Nat) :
    Blk AlgoGen.MxArcsIterator (Option (Nat × Nat) × AlgoGen.MxArcsIterator) AlgoGen.MxArcsIterator :=
  if base + AdjMatrix.tz bits < d.order * d.order then
    ret (some ((base + AdjMatrix.tz bits) / d.order, (base + AdjMatrix.tz bits) % d.order), ⟨d, bi, clearLow bits, base⟩)
  else .ok ⟨d, bi, clearLow bits, base⟩

theorem divmod_ok {β ρ : Type} (c o : Nat) (h : c < o * o) : (divP c o : Blk β ρ Nat) = .ok (c / o) ∧ (modP c o : Blk β ρ Nat) = .ok (c % o) := by
  have ho : o ≠ 0 := by intro h0; subst h0; simp at h
  exact ⟨by simp [divP, ho], by simp [modP, ho]⟩

theorem while0_nz (d : AdjMatrix) (bi : Nat) (bits : BitVec 64) (base : Nat) (hb : bits ≠ 0#64) :
    (AlgoGen.MxArcsIterator.next_while0 ⟨d, bi, bits, base⟩ : Blk _ (Option (Nat × Nat) × AlgoGen.MxArcsIterator) _) =
      bitStep d bi bits base := by
  have hne : (bits != 0#64) = true := by simpa using hb
  unfold AlgoGen.MxArcsIterator.next_while0 bitStep clearLow
  simp only [hne, Bool.or_true, if_true, hb, if_false, pure_eq_ok, ok_bind, ne_eq, not_false_eq_true]
  by_cases hc : base + AdjMatrix.tz bits < d.order * d.order
  · obtain ⟨h1, h2⟩ := divmod_ok (β := AlgoGen.MxArcsIterator) (ρ := Option (Nat × Nat) × AlgoGen.MxArcsIterator) _ _ hc
    simp only [hc, if_true, h1, h2, ok_bind]
  · simp only [hc, if_false, pure_eq_ok]

theorem while0_load (d : AdjMatrix) (bi : Nat) (base : Nat) (hbi : bi < d.blocks.length) :
    (AlgoGen.MxArcsIterator.next_while0 ⟨d, bi, 0#64, base⟩ : Blk _ (Option (Nat × Nat) × AlgoGen.MxArcsIterator) _) =
      if d.blocks[bi] = 0#64 then .ok ⟨d, bi + 1, 0#64, bi * 64⟩ else bitStep d (bi + 1) d.blocks[bi] (bi * 64) := by
  unfold AlgoGen.MxArcsIterator.next_while0 bitStep clearLow
  simp only [hbi, decide_true, Bool.true_or, if_true, rd_lt _ _ _ hbi, ok_bind, pure_eq_ok]
  by_cases hz : d.blocks[bi] = 0#64
  · simp only [hz, if_true, ne_eq, not_true_eq_false, if_false, pure_eq_ok, ok_bind]
  · simp only [hz, if_false, ne_eq, not_false_eq_true, if_true]
    by_cases hc : bi * 64 + AdjMatrix.tz d.blocks[bi] < d.order * d.order
    · obtain ⟨h1, h2⟩ := divmod_ok (β := AlgoGen.MxArcsIterator) (ρ := Option (Nat × Nat) × AlgoGen.MxArcsIterator) _ _ hc
      simp only [hc, if_true, h1, h2, ok_bind]
    · simp only [hc, if_false, pure_eq_ok, ok_bind]

theorem new_eq (d : AdjMatrix) : AlgoGen.MxArcsIterator.new d = .ok ⟨d, 0, 0#64, 0⟩ := rfl

/-- one round of the `while` loop with a non-zero current word (the other cases: `while0_load`, `while0_exit`) -/
theorem next_while0_eq (d : AdjMatrix) (bi : Nat) (bits : BitVec 64) (base : Nat) (hb : bits ≠ 0#64) :
    (AlgoGen.MxArcsIterator.next_while0 ⟨d, bi, bits, base⟩ : Blk _ (Option (Nat × Nat) × AlgoGen.MxArcsIterator) _) =
      bitStep d bi bits base := while0_nz d bi bits base hb

theorem while0_exit (d : AdjMatrix) (bi : Nat) (base : Nat) (hbi : ¬ bi < d.blocks.length) :
    (AlgoGen.MxArcsIterator.next_while0 ⟨d, bi, 0#64, base⟩ : Blk _ (Option (Nat × Nat) × AlgoGen.MxArcsIterator) _) =
      brk ⟨d, bi, 0#64, base⟩ := by
  unfold AlgoGen.MxArcsIterator.next_while0
  simp [hbi]

/-- the `while` loop of one `next()`: it leaves through `return Some(x)` with the first remaining arc, or ends with none left -/
theorem next_loop (d : AdjMatrix) : ∀ (m : Nat) (bi : Nat) (bits : BitVec 64) (base F : Nat), μ d ⟨bi, bits, base⟩ < m → m ≤ F →
    (∃ s', (whileLoop AlgoGen.MxArcsIterator.next_while0 F ⟨d, bi, bits, base⟩ :
        Blk Empty (Option (Nat × Nat) × AlgoGen.MxArcsIterator) _) = .ok s' ∧ rem ⟨d, bi, bits, base⟩ = []) ∨
    (∃ x s', (whileLoop AlgoGen.MxArcsIterator.next_while0 F ⟨d, bi, bits, base⟩ :
        Blk Empty (Option (Nat × Nat) × AlgoGen.MxArcsIterator) _) = .error (.ret (some x, s')) ∧
      rem ⟨d, bi, bits, base⟩ = x :: rem s' ∧ s'.matrix = d ∧ μ d (st s') ≤ μ d ⟨bi, bits, base⟩) := by
  intro m
  induction m with
  | zero => intro bi bits base F h; omega
  | succ m ih =>
    intro bi bits base F hμ hF
    obtain ⟨F', rfl⟩ : ∃ F', F = F' + 1 := ⟨F - 1, by omega⟩
    -- the common part: a non-zero word `w` is current after this round's (possible) load
    have hbit : ∀ (bi1 : Nat) (w : BitVec 64) (base1 : Nat), w ≠ 0#64 →
        μ d ⟨bi1, clearLow w, base1⟩ < m → μ d ⟨bi1, clearLow w, base1⟩ ≤ μ d ⟨bi, bits, base⟩ →
        rem ⟨d, bi, bits, base⟩ = emit d ((base1 + AdjMatrix.tz w) :: (cellsOfBits base1 (clearLow w) ++ restCells d bi1)) →
        (AlgoGen.MxArcsIterator.next_while0 ⟨d, bi, bits, base⟩ : Blk _ (Option (Nat × Nat) × AlgoGen.MxArcsIterator) _) =
          bitStep d bi1 w base1 →
        (∃ s', (whileLoop AlgoGen.MxArcsIterator.next_while0 (F' + 1) ⟨d, bi, bits, base⟩ :
            Blk Empty (Option (Nat × Nat) × AlgoGen.MxArcsIterator) _) = .ok s' ∧ rem ⟨d, bi, bits, base⟩ = []) ∨
        (∃ x s', (whileLoop AlgoGen.MxArcsIterator.next_while0 (F' + 1) ⟨d, bi, bits, base⟩ :
            Blk Empty (Option (Nat × Nat) × AlgoGen.MxArcsIterator) _) = .error (.ret (some x, s')) ∧
          rem ⟨d, bi, bits, base⟩ = x :: rem s' ∧ s'.matrix = d ∧ μ d (st s') ≤ μ d ⟨bi, bits, base⟩) := by
      intro bi1 w base1 hw hμ2 hle hrem hstep
      by_cases hc : base1 + AdjMatrix.tz w < d.order * d.order
      · refine Or.inr ⟨((base1 + AdjMatrix.tz w) / d.order, (base1 + AdjMatrix.tz w) % d.order), ⟨d, bi1, clearLow w, base1⟩, ?_, ?_, rfl, hle⟩
        · simp only [whileLoop, hstep, bitStep, hc, if_true, ret]
        · rw [hrem, emit_cons]
          simp only [hc, if_true]
          rfl
      · rcases ih bi1 (clearLow w) base1 F' hμ2 (by omega) with ⟨s', h1, h2⟩ | ⟨x, s', h1, h2, h3, h4⟩
        · refine Or.inl ⟨s', ?_, ?_⟩
          · simp only [whileLoop, hstep, bitStep, hc, if_false]; exact h1
          · rw [hrem, emit_cons]; simp only [hc, if_false]; exact h2
        · refine Or.inr ⟨x, s', ?_, ?_, h3, Nat.le_trans h4 hle⟩
          · simp only [whileLoop, hstep, bitStep, hc, if_false]; exact h1
          · rw [hrem, emit_cons]; simp only [hc, if_false]; exact h2
    by_cases hb : bits = 0#64
    · subst hb
      by_cases hbi : bi < d.blocks.length
      · have hμ' := hμ
        simp only [μ] at hμ'
        rw [restMeasure_lt d hbi, popcount_zero, List.getElem?_eq_getElem hbi, Option.getD_some] at hμ'
        have hremL : rem ⟨d, bi, 0#64, base⟩ = emit d (cellsOfBits (bi * 64) d.blocks[bi] ++ restCells d (bi + 1)) := by
          simp only [rem, cellsOfBits, bitsList_zero, List.map_nil, List.nil_append]
          rw [restCells_lt d hbi, List.getElem?_eq_getElem hbi, Option.getD_some]
          rfl
        by_cases hz : d.blocks[bi] = 0#64
        · have hstep : (AlgoGen.MxArcsIterator.next_while0 ⟨d, bi, 0#64, base⟩ :
              Blk _ (Option (Nat × Nat) × AlgoGen.MxArcsIterator) _) = .ok ⟨d, bi + 1, 0#64, bi * 64⟩ := by
            rw [while0_load d bi base hbi]; simp only [hz, if_true]
          have hμ2 : μ d ⟨bi + 1, 0#64, bi * 64⟩ < m := by simp only [μ, popcount_zero]; rw [hz, popcount_zero] at hμ'; omega
          have hle : μ d ⟨bi + 1, 0#64, bi * 64⟩ ≤ μ d ⟨bi, 0#64, base⟩ := by
            simp only [μ, popcount_zero]; rw [restMeasure_lt d hbi]; omega
          have hrem2 : rem ⟨d, bi, 0#64, base⟩ = rem ⟨d, bi + 1, 0#64, bi * 64⟩ := by
            rw [hremL, hz]
            simp [rem, cellsOfBits, bitsList_zero]
          rcases ih (bi + 1) 0#64 (bi * 64) F' hμ2 (by omega) with ⟨s', h1, h2⟩ | ⟨x, s', h1, h2, h3, h4⟩
          · exact Or.inl ⟨s', by simp only [whileLoop, hstep]; exact h1, by rw [hrem2]; exact h2⟩
          · exact Or.inr ⟨x, s', by simp only [whileLoop, hstep]; exact h1, by rw [hrem2]; exact h2, h3, Nat.le_trans h4 hle⟩
        · have hpc := popcount_clearLow hz
          apply hbit (bi + 1) d.blocks[bi] (bi * 64) hz
          · simp only [μ]; omega
          · simp only [μ, popcount_zero]; rw [restMeasure_lt d hbi, List.getElem?_eq_getElem hbi, Option.getD_some]; omega
          · have hcb : cellsOfBits (bi * 64) d.blocks[bi] =
                (bi * 64 + AdjMatrix.tz d.blocks[bi]) :: cellsOfBits (bi * 64) (clearLow d.blocks[bi]) := by
              simp only [cellsOfBits, bitsList_cons hz, List.map_cons]
            rw [hremL, hcb]
            rfl
          · rw [while0_load d bi base hbi]; simp only [hz, if_false]
      · refine Or.inl ⟨⟨d, bi, 0#64, base⟩, ?_, ?_⟩
        · simp only [whileLoop, while0_exit d bi base hbi, brk]
        · simp [rem, cellsOfBits, bitsList_zero, restCells_ge d (Nat.le_of_not_lt hbi), emit]
    · have hpc := popcount_clearLow hb
      apply hbit bi bits base hb
      · simp only [μ] at hμ ⊢; omega
      · simp only [μ]; omega
      · have : cellsOfBits base bits = (base + AdjMatrix.tz bits) :: cellsOfBits base (clearLow bits) := by
          simp only [cellsOfBits, bitsList_cons hb, List.map_cons]
        simp only [rem, this, List.cons_append]
      · exact while0_nz d bi bits base hb

/-- the fuel of the generated `next` covers every state the iterator reaches -/
def Inv (s : AlgoGen.MxArcsIterator) : Prop := μ s.matrix (st s) ≤ 65 * s.matrix.blocks.length

theorem next_eq (s : AlgoGen.MxArcsIterator) (hI : Inv s) :
    (∃ s', AlgoGen.MxArcsIterator.next s = .ok (none, s') ∧ rem s = []) ∨
    (∃ x s', AlgoGen.MxArcsIterator.next s = .ok (some x, s') ∧ rem s = x :: rem s' ∧ Inv s') := by
  obtain ⟨d, bi, bits, base⟩ := s
  unfold Inv st at hI
  simp only at hI
  rcases next_loop d (65 * d.blocks.length + 1) bi bits base (65 * d.blocks.length + 1) (by omega) (Nat.le_refl _) with
    ⟨s', h1, h2⟩ | ⟨x, s', h1, h2, h3, h4⟩
  · refine Or.inl ⟨s', ?_, h2⟩
    unfold AlgoGen.MxArcsIterator.next
    simp only [h1, ok_bind, pure_eq_ok, fnBody_ok]
  · refine Or.inr ⟨x, s', ?_, h2, ?_⟩
    · unfold AlgoGen.MxArcsIterator.next
      simp only [h1, error_bind, fnBody_ret]
    · unfold Inv
      rw [h3]
      exact Nat.le_trans h4 hI

/-- **`arcs().collect()`** through the generated `ArcsIterator::new` and `next` = the literal hand model
`AdjMatrix.arcsIter` (= `d.arcs`, `C01.adjMatrix_arcs_iterator`) -/
theorem collect_eq (d : AdjMatrix) (N : Nat) (hN : d.arcs.length < N) :
    ∃ s', (AlgoGen.AdjacencyMatrix.arcsIter d >>= fun s => collect AlgoGen.MxArcsIterator.next N s) = .ok (AdjMatrix.arcsIter d, s') := by
  have hinit : AlgoGen.AdjacencyMatrix.arcsIter d = .ok ⟨d, 0, 0#64, 0⟩ := rfl
  have hI0 : Inv ⟨d, 0, 0#64, 0⟩ := by
    unfold Inv st μ
    simp only [popcount_zero, Nat.zero_add]
    have := restMeasure_le d 0
    omega
  have hrem0 : rem ⟨d, 0, 0#64, 0⟩ = AdjMatrix.arcsIter d := by
    unfold AdjMatrix.arcsIter
    rw [drain_eq d (iterFuel d) iterInit (by
      unfold iterInit iterFuel μ
      simp only [popcount_zero, Nat.zero_add]
      have := restMeasure_le d 0
      omega)]
    rfl
  rw [hinit]
  have := collect_of_spec AlgoGen.MxArcsIterator.next rem Inv
    (fun s hI hr => by
      rcases next_eq s hI with ⟨s', h1, _⟩ | ⟨x, s', _, h2, _⟩
      · exact ⟨s', h1⟩
      · rw [hr] at h2; cases h2)
    (fun s x xs hI hr => by
      rcases next_eq s hI with ⟨s', _, h2⟩ | ⟨y, s', h1, h2, h3⟩
      · rw [hr] at h2; cases h2
      · rw [hr] at h2
        injection h2 with h5 h6
        subst h5
        exact ⟨s', h1, h6.symm, h3⟩)
    N ⟨d, 0, 0#64, 0⟩ hI0 (by rw [hrem0, AdjMatrix.arcsIter_eq]; exact hN)
  obtain ⟨s', h⟩ := this
  rw [hrem0] at h
  exact ⟨s', h⟩

end MxArcsIterator

end GraafVerif.AlgoGenThm
