import GraafVerif.Proof.GenAddArcMX
import GraafVerif.Proof.GenAL
/-!
# C14, AdjacencyMatrix: `empty` + `add_arc` loops realise the defining arc sets

`build_spec` (fold induction over `add_arc`, `GenArcRepr.foldlM_addArc` with the bit-level
`MX.addArc_spec`) reduces each generator to a statement about the LIST of arcs its loops add:
`(u, v) ∈ xArcs n ↔ Def n u v`.  The matrix needs `n * n < 2^64` (`empty` panics otherwise).
-/
namespace GraafVerif.Gen
open GraafVerif.Repr GraafVerif.GenSpec

namespace MX

theorem build_spec {n : Nat} {arcs : List (Nat × Nat)} {P : Nat → Nat → Prop}
    (hn : 1 ≤ n) (hfit : n * n < 2 ^ 64)
    (hmem : ∀ u v, (u, v) ∈ arcs ↔ P u v)
    (hvalid : ∀ u v, P u v → u < n ∧ v < n ∧ u ≠ v) :
    ∃ d, build n arcs = some d ∧ Realises d n P := by
  obtain ⟨e, he, hwf, ho, hno⟩ := empty_spec hn hfit
  have hv : ArcsValid (MX.repr.order e) arcs := by
    intro a ha
    have := hvalid a.1 a.2 ((hmem a.1 a.2).mp ha)
    show a.1 ≠ a.2 ∧ a.1 < e.order ∧ a.2 < e.order
    rw [ho]; exact ⟨this.2.2, this.1, this.2.1⟩
  obtain ⟨d, hd, hwf', ho', hhas⟩ := foldlM_addArc MX.repr arcs e hwf hv
  refine ⟨d, ?_, hwf', by rw [← ho]; exact ho', ?_⟩
  · unfold build; rw [he]; exact hd
  · intro u v
    have := hhas u v
    simp only [MX.repr] at this
    rw [this, ← hmem]
    constructor
    · rintro (h | h)
      · exact absurd h (hno u v)
      · exact h
    · exact Or.inr

theorem empty_realises {n : Nat} (hn : 1 ≤ n) (hfit : n * n < 2 ^ 64) :
    ∃ d, empty n = some d ∧ Realises d n (EmptyDef n) := by
  obtain ⟨e, he, hwf, ho, hno⟩ := empty_spec hn hfit
  exact ⟨e, he, hwf, ho, fun u v => ⟨fun h => absurd h (hno u v), fun h => h.elim⟩⟩

theorem trivial_realises {P : Nat → Nat → Prop} (hP : ∀ u v, ¬ P u v) :
    ∃ d, trivial = some d ∧ Realises d 1 P := by
  obtain ⟨d, hd, hwf, ho, harcs⟩ := empty_realises (n := 1) (Nat.le_refl 1) (by decide)
  refine ⟨d, hd, hwf, ho, ?_⟩
  intro u v; rw [harcs]; simp [EmptyDef, hP]

/-! ### arc lists of the loops -/

theorem mem_bicliqueArcs {m n u v : Nat} : (u, v) ∈ bicliqueArcs m n ↔ BicliqueDef m n u v := by
  simp only [bicliqueArcs, List.mem_flatMap, mem_rangeFT, List.mem_cons, Prod.mk.injEq,
    List.not_mem_nil, or_false, BicliqueDef]
  constructor
  · rintro ⟨a, ha, b, hb, (⟨rfl, rfl⟩ | ⟨rfl, rfl⟩)⟩
    · left; omega
    · right; omega
  · rintro (h | h)
    · exact ⟨u, by omega, v, by omega, Or.inl ⟨rfl, rfl⟩⟩
    · exact ⟨v, by omega, u, by omega, Or.inr ⟨rfl, rfl⟩⟩

theorem mem_circuitArcs {n u v : Nat} (hn : 2 ≤ n) : (u, v) ∈ circuitArcs n ↔ CircuitDef n u v := by
  simp only [circuitArcs, List.mem_append, List.mem_map, mem_rangeFT, List.mem_cons, Prod.mk.injEq,
    List.not_mem_nil, or_false, CircuitDef]
  constructor
  · rintro (⟨a, ha, rfl, rfl⟩ | ⟨rfl, rfl⟩)
    · refine ⟨hn, by omega, ?_⟩
      rw [succ_mod (by omega)]; split <;> omega
    · refine ⟨hn, by omega, ?_⟩
      rw [succ_mod (by omega)]; split <;> omega
  · rintro ⟨_, hu, hv⟩
    rw [succ_mod hu] at hv
    split at hv
    · right; omega
    · left; exact ⟨u, by omega, rfl, hv.symm⟩

theorem mem_completeArcs {n u v : Nat} : (u, v) ∈ completeArcs n ↔ CompleteDef n u v := by
  simp only [completeArcs, List.mem_flatMap, mem_rangeFT, List.mem_cons, Prod.mk.injEq,
    List.not_mem_nil, or_false, CompleteDef]
  constructor
  · rintro ⟨a, ha, b, hb, (⟨rfl, rfl⟩ | ⟨rfl, rfl⟩)⟩ <;> omega
  · rintro ⟨hu, hv, hne⟩
    by_cases h : u < v
    · exact ⟨u, by omega, v, by omega, Or.inl ⟨rfl, rfl⟩⟩
    · exact ⟨v, by omega, u, by omega, Or.inr ⟨rfl, rfl⟩⟩

theorem mem_cycleArcs {n u v : Nat} (hn : 2 ≤ n) : (u, v) ∈ cycleArcs n ↔ CycleDef n u v := by
  simp only [cycleArcs, List.mem_append, List.mem_flatMap, mem_rangeFT, List.mem_cons, Prod.mk.injEq,
    List.not_mem_nil, or_false, CycleDef, CircuitDef]
  constructor
  · rintro (⟨a, ha, (⟨rfl, rfl⟩ | ⟨rfl, rfl⟩)⟩ | (⟨rfl, rfl⟩ | ⟨rfl, rfl⟩))
    · left; refine ⟨hn, by omega, ?_⟩; rw [succ_mod (by omega)]; split <;> omega
    · right; refine ⟨hn, by omega, ?_⟩; rw [succ_mod (by omega)]; split <;> omega
    · left; refine ⟨hn, by omega, ?_⟩; rw [succ_mod (by omega)]; split <;> omega
    · right; refine ⟨hn, by omega, ?_⟩; rw [succ_mod (by omega)]; split <;> omega
  · rintro (⟨_, hu, hv⟩ | ⟨_, hu, hv⟩)
    · rw [succ_mod hu] at hv
      split at hv
      · right; left; omega
      · left; exact ⟨u, by omega, Or.inl ⟨rfl, hv⟩⟩
    · rw [succ_mod hu] at hv
      split at hv
      · right; right; omega
      · left; exact ⟨v, by omega, Or.inr ⟨hv, rfl⟩⟩

theorem mem_pathArcs {n u v : Nat} : (u, v) ∈ pathArcs n ↔ PathDef n u v := by
  simp only [pathArcs, List.mem_map, mem_rangeFT, Prod.mk.injEq, PathDef]
  constructor
  · rintro ⟨a, ha, rfl, rfl⟩; omega
  · rintro ⟨h1, h2⟩; exact ⟨u, by omega, rfl, h2.symm⟩

theorem mem_starArcs {n u v : Nat} : (u, v) ∈ starArcs n ↔ StarDef n u v := by
  simp only [starArcs, List.mem_flatMap, mem_rangeFT, List.mem_cons, Prod.mk.injEq,
    List.not_mem_nil, or_false, StarDef]
  constructor
  · rintro ⟨a, ha, (⟨rfl, rfl⟩ | ⟨rfl, rfl⟩)⟩
    · right; omega
    · left; omega
  · rintro (h | h)
    · exact ⟨v, by omega, Or.inr ⟨h.1, rfl⟩⟩
    · exact ⟨u, by omega, Or.inl ⟨rfl, h.1⟩⟩

theorem mem_wheelArcs {n u v : Nat} (hn : 4 ≤ n) : (u, v) ∈ wheelArcs n ↔ WheelDef n u v := by
  simp only [wheelArcs, List.mem_append, List.mem_flatMap, mem_rangeFT, List.mem_cons, Prod.mk.injEq,
    List.not_mem_nil, or_false, WheelDef, StarDef, RimDef, rimNext]
  constructor
  · rintro ((⟨a, ha, (⟨rfl, rfl⟩ | ⟨rfl, rfl⟩)⟩ | (⟨rfl, rfl⟩ | ⟨rfl, rfl⟩)) | ⟨a, ha, (⟨rfl, rfl⟩ | ⟨rfl, rfl⟩)⟩)
    · right; left; refine ⟨by omega, by omega, ?_⟩; split <;> omega
    · right; right; refine ⟨by omega, by omega, ?_⟩; split <;> omega
    · right; left; refine ⟨by omega, by omega, ?_⟩; split <;> omega
    · right; right; refine ⟨by omega, by omega, ?_⟩; split <;> omega
    · left; left; omega
    · left; right; omega
  · rintro ((h | h) | (⟨h1, h2, h3⟩ | ⟨h1, h2, h3⟩))
    · right; exact ⟨v, by omega, Or.inl ⟨h.1, rfl⟩⟩
    · right; exact ⟨u, by omega, Or.inr ⟨rfl, h.1⟩⟩
    · split at h3
      · left; right; left; omega
      · left; left; exact ⟨u, by omega, Or.inl ⟨rfl, h3⟩⟩
    · split at h3
      · left; right; right; omega
      · left; left; exact ⟨v, by omega, Or.inr ⟨h3, rfl⟩⟩

/-! ### the generators -/

theorem biclique_spec {m n : Nat} (hm : 1 ≤ m) (hn : 1 ≤ n) (hfit : (m + n) * (m + n) < 2 ^ 64) :
    ∃ d, biclique m n = some d ∧ Realises d (m + n) (BicliqueDef m n) := by
  unfold biclique
  have h0 : m ≠ 0 := by omega
  have h0' : n ≠ 0 := by omega
  simp only [h0, h0', if_false]
  exact build_spec (by omega) hfit (fun u v => mem_bicliqueArcs) (fun u v h => bicliqueDef_valid h)

theorem claw_spec : ∃ d, claw = some d ∧ Realises d 4 (BicliqueDef 1 3) :=
  biclique_spec (Nat.le_refl 1) (by decide) (by decide)
theorem utility_spec : ∃ d, utility = some d ∧ Realises d 6 (BicliqueDef 3 3) :=
  biclique_spec (by decide) (by decide) (by decide)

theorem circuit_spec {n : Nat} (hn : 1 ≤ n) (hfit : n * n < 2 ^ 64) :
    ∃ d, circuit n = some d ∧ Realises d n (CircuitDef n) := by
  unfold circuit
  by_cases h1 : n = 1
  · subst h1
    simpa using trivial_realises (P := CircuitDef 1) (by intro u v h; unfold CircuitDef at h; omega)
  · simp only [h1, if_false]
    exact build_spec hn hfit (fun u v => mem_circuitArcs (by omega)) (fun u v h => circuitDef_valid h)

theorem complete_spec {n : Nat} (hn : 1 ≤ n) (hfit : n * n < 2 ^ 64) :
    ∃ d, complete n = some d ∧ Realises d n (CompleteDef n) := by
  unfold complete
  by_cases h1 : n = 1
  · subst h1
    simpa using trivial_realises (P := CompleteDef 1) (by intro u v h; unfold CompleteDef at h; omega)
  · simp only [h1, if_false]
    exact build_spec hn hfit (fun u v => mem_completeArcs) (fun u v h => completeDef_valid h)

theorem cycle_spec {n : Nat} (hn : 1 ≤ n) (hfit : n * n < 2 ^ 64) :
    ∃ d, cycle n = some d ∧ Realises d n (CycleDef n) := by
  unfold cycle
  by_cases h1 : n = 1
  · subst h1
    simpa using trivial_realises (P := CycleDef 1) (by intro u v h; unfold CycleDef CircuitDef at h; omega)
  · simp only [h1, if_false]
    exact build_spec hn hfit (fun u v => mem_cycleArcs (by omega)) (fun u v h => cycleDef_valid h)

theorem path_spec {n : Nat} (hn : 1 ≤ n) (hfit : n * n < 2 ^ 64) :
    ∃ d, path n = some d ∧ Realises d n (PathDef n) := by
  by_cases h1 : n = 1
  · subst h1
    have := trivial_realises (P := PathDef 1) (by intro u v h; unfold PathDef at h; omega)
    simpa [path, trivial, empty] using this
  · have := build_spec (arcs := pathArcs n) hn hfit (fun u v => mem_pathArcs) (fun u v h => pathDef_valid h)
    unfold build at this
    unfold path
    simpa [h1] using this

theorem star_spec {n : Nat} (hn : 1 ≤ n) (hfit : n * n < 2 ^ 64) :
    ∃ d, star n = some d ∧ Realises d n (StarDef n) := by
  unfold star
  by_cases h1 : n = 1
  · subst h1
    simpa using trivial_realises (P := StarDef 1) (by intro u v h; unfold StarDef at h; omega)
  · simp only [h1, if_false]
    exact build_spec hn hfit (fun u v => mem_starArcs) (fun u v h => starDef_valid h)

theorem wheel_spec {n : Nat} (hn : 4 ≤ n) (hfit : n * n < 2 ^ 64) :
    ∃ d, wheel n = some d ∧ Realises d n (WheelDef n) := by
  unfold wheel
  have h4 : ¬ ¬ n ≥ 4 := by omega
  simp only [h4, if_false]
  exact build_spec (by omega) hfit (fun u v => mem_wheelArcs hn) (fun u v h => wheelDef_valid hn h)

end MX
end GraafVerif.Gen
