import GraafVerif.Proof.OpsAL
import GraafVerif.Proof.OpsEL
import GraafVerif.Proof.OpsMX
import GraafVerif.Proof.OpsW
import GraafVerif.Proof.OpsAMUnion
/-!
# Well-formed representations are canonical

Two `WF` values of one representation that denote the same abstract digraph are *equal* (`=`,
which is what the derived `PartialEq` of the Rust structs decides).  This turns the abstract
algebraic identities (involutions, commutativity, …) into the structural identities the
harness checks with `==` on the real results.
-/
namespace GraafVerif.Ops
open GraafVerif.Repr

theorem canonAL {a b : AdjList} (ha : a.WF) (hb : b.WF) (h : absAL a = absAL b) : a = b := by
  obtain ⟨hV, hA⟩ := DG.ext_iff'.mp h
  have hord : a.order = b.order := by
    have h1 := (hV b.order); rw [absAL_V, absAL_V] at h1
    have h2 := (hV a.order); rw [absAL_V, absAL_V] at h2
    omega
  cases a with | mk ra =>
  cases b with | mk rb =>
  congr 1
  apply List.ext_getElem?
  intro u
  simp only [AdjList.order] at hord
  by_cases hu : u < ra.length
  · have hu' : u < rb.length := by omega
    rw [List.getElem?_eq_getElem hu, List.getElem?_eq_getElem hu']
    congr 1
    have h1 := wfAL_row ha u
    have h2 := wfAL_row hb u
    simp only [List.getElem?_eq_getElem hu, List.getElem?_eq_getElem hu', Option.getD_some] at h1 h2
    apply SortedS.ext h1.1 h2.1
    intro v
    have := hA u v
    rw [absAL_A, absAL_A] at this
    simpa [List.getElem?_eq_getElem hu, List.getElem?_eq_getElem hu'] using this
  · rw [List.getElem?_eq_none (by omega), List.getElem?_eq_none (by omega)]

theorem canonAM {a b : AdjMap} (ha : a.WF) (hb : b.WF) (h : absAM a = absAM b) : a = b := by
  obtain ⟨hV, hA⟩ := DG.ext_iff'.mp h
  cases a with | mk ra =>
  cases b with | mk rb =>
  congr 1
  apply entries_ext ha.1 hb.1 (wfAM_rowsSorted ha) (wfAM_rowsSorted hb)
  · intro k
    have := hV k
    rw [absAM_V, absAM_V] at this
    rw [KM_iff_keys, KM_iff_keys]; exact this
  · intro k v
    have := hA k v
    rw [absAM_A, absAM_A] at this
    rw [RM_iff_row ha.1, RM_iff_row hb.1]; exact this

theorem canonEL {a b : EdgeList} (ha : a.WF) (hb : b.WF) (h : absEL a = absEL b) : a = b := by
  obtain ⟨hV, hA⟩ := DG.ext_iff'.mp h
  have hord : a.order = b.order := by
    have h1 := (hV b.order); rw [absEL_V, absEL_V] at h1
    have h2 := (hV a.order); rw [absEL_V, absEL_V] at h2
    omega
  cases a with | mk aa ao =>
  cases b with | mk ba bo =>
  simp only [] at hord
  subst hord
  congr 1
  apply PSorted.ext ha.2.1 hb.2.1
  rintro ⟨u, v⟩
  have := hA u v
  rw [absEL_A, absEL_A] at this
  exact this

theorem canonW {a b : AdjListW} (ha : a.WF) (hb : b.WF) (h : absW a = absW b) : a = b := by
  obtain ⟨hV, hA⟩ := WDG.ext_iff'.mp h
  have hord : a.order = b.order := by
    have h1 := (hV b.order); rw [absW_V, absW_V] at h1
    have h2 := (hV a.order); rw [absW_V, absW_V] at h2
    omega
  cases a with | mk ra =>
  cases b with | mk rb =>
  congr 1
  apply List.ext_getElem?
  intro u
  simp only [AdjListW.order] at hord
  by_cases hu : u < ra.length
  · have hu' : u < rb.length := by omega
    rw [List.getElem?_eq_getElem hu, List.getElem?_eq_getElem hu']
    congr 1
    have h1 := wfW_row ha u
    have h2 := wfW_row hb u
    simp only [List.getElem?_eq_getElem hu, List.getElem?_eq_getElem hu', Option.getD_some] at h1 h2
    apply SortedK.ext h1.1 h2.1
    rintro ⟨v, w⟩
    have := hA u v w
    rw [absW_A, absW_A] at this
    simp only [List.getElem?_eq_getElem hu, List.getElem?_eq_getElem hu', Option.getD_some] at this
    rw [mget_eq_some_iff h1.1, mget_eq_some_iff h2.1] at this
    exact this
  · rw [List.getElem?_eq_none (by omega), List.getElem?_eq_none (by omega)]

theorem cell_eq_of_abs {a b : AdjMatrix} (ha : a.WF) (hb : b.WF) (hord : a.order = b.order)
    (hA : ∀ u v, a.hasArc u v = true ↔ b.hasArc u v = true) (c : Nat) : a.cell c = b.cell c := by
  by_cases hc : c < a.order * a.order
  · have hn := ha.1
    have hv : c % a.order < a.order := Nat.mod_lt _ hn
    have hce : c / a.order * a.order + c % a.order = c := by
      rw [Nat.mul_comm]; exact Nat.div_add_mod c a.order
    have hu : c / a.order < a.order := by
      have : c / a.order * a.order < a.order * a.order := by omega
      exact Nat.lt_of_mul_lt_mul_right this
    have := hA (c / a.order) (c % a.order)
    rw [hasArcMX_iff, hasArcMX_iff, ← hord, hce] at this
    cases h1 : a.cell c <;> cases h2 : b.cell c <;> simp_all
  · rw [ha.2.2.1 c (by omega), hb.2.2.1 c (by rw [← hord]; omega)]

theorem canonMX {a b : AdjMatrix} (ha : a.WF) (hb : b.WF) (h : absMX a = absMX b) : a = b := by
  obtain ⟨hV, hA⟩ := DG.ext_iff'.mp h
  have hord : a.order = b.order := by
    have h1 := (hV b.order); rw [absMX_V, absMX_V] at h1
    have h2 := (hV a.order); rw [absMX_V, absMX_V] at h2
    omega
  have hcell := cell_eq_of_abs ha hb hord (fun u v => hA u v)
  have hlen : a.blocks.length = b.blocks.length := by rw [ha.2.1, hb.2.1, hord]
  cases a with | mk ba oa =>
  cases b with | mk bb ob =>
  simp only [] at hord hlen
  subst hord
  congr 1
  apply List.ext_getElem hlen
  intro i h1 h2
  apply BitVec.eq_of_getLsbD_eq
  intro k hk
  have := hcell (64 * i + k)
  simp only [AdjMatrix.cell] at this
  have e1 : (64 * i + k) / 64 = i := by omega
  have e2 : (64 * i + k) % 64 = k := by omega
  rw [e1, e2, List.getElem?_eq_getElem h1, List.getElem?_eq_getElem h2] at this
  simpa using this

end GraafVerif.Ops
