import GraafVerif.Model.ConvEq
import GraafVerif.Proof.ConvInj
/-!
# C16: rebuilding a valid digraph by `empty` + `add_arc` over its own arcs returns the same structure

(The representation is canonical: `*.ext_arcs`.)  For the weighted list the rebuild goes over
`arcs_weighted()` with arbitrary weights, which needs its own fold induction (`insert` replaces).
-/
namespace GraafVerif.Conv
open GraafVerif.Repr GraafVerif.Gen

/-- the plain build (no per-arc asserts) from a valid source -/
theorem build_spec {T : Type} (R : ArcRepr T) (empty : Nat → Option T) (s : Src)
    (hempty : ∃ e, empty s.order = some e ∧ R.WF e ∧ R.order e = s.order ∧ ∀ u v, ¬ R.has e u v) :
    ∃ d, (do let e ← empty s.order; s.arcs.foldlM (fun g a => R.addArc g a.1 a.2) e) = some d ∧
      R.WF d ∧ R.order d = s.order ∧ ∀ u v, R.has d u v ↔ (u, v) ∈ s.arcs := by
  obtain ⟨e, he, hwf, ho, hno⟩ := hempty
  have hv' : ArcsValid (R.order e) s.arcs := by rw [ho]; exact s.valid
  obtain ⟨d, hd, hwf', ho', hhas⟩ := foldlM_addArc R s.arcs e hwf hv'
  refine ⟨d, by rw [he]; exact hd, hwf', by rw [ho', ho], ?_⟩
  intro u v
  rw [hhas]
  exact ⟨fun h => h.elim (fun h => absurd h (hno u v)) id, Or.inr⟩

theorem AL.rebuild_eq {d : AdjList} (h : d.WF) : AL.rebuild d = some d := by
  obtain ⟨b, hb, hw, ho, ha⟩ := build_spec Gen.AL.repr AdjList.empty (srcAL d h) (Gen.AL.empty_repr h.1)
  have : b = d := AL.ext_arcs hw h ho ha
  rw [this] at hb; exact hb

theorem EL.rebuild_eq {d : EdgeList} (h : d.WF) : EL.rebuild d = some d := by
  obtain ⟨b, hb, hw, ho, ha⟩ := build_spec Gen.EL.repr EdgeList.empty (srcEL d h) (Gen.EL.empty_repr h.1)
  have : b = d := EL.ext_arcs hw h ho ha
  rw [this] at hb; exact hb

theorem MX.rebuild_eq {d : AdjMatrix} (h : d.WF) (hf : d.order * d.order < 2 ^ 64) : MX.rebuild d = some d := by
  obtain ⟨b, hb, hw, ho, ha⟩ := build_spec Gen.MX.repr AdjMatrix.empty (srcMX d h) (Gen.MX.empty_spec h.1 hf)
  have : b = d := MX.ext_arcs hw h ho ha
  rw [this] at hb; exact hb

theorem AM.rebuild_eq {d : AdjMap} (h : d.WF) (hc : Gen.AM.Contiguous d) (hp : 1 ≤ d.order) :
    AM.rebuild d = some d := by
  obtain ⟨b, hb, hw, ho, ha⟩ := build_spec Gen.AM.repr AdjMap.empty (srcAM d h hc hp) (Gen.AM.empty_repr hp)
  have : b = d := AM.ext_arcs hw.1 hw.2 h hc ho ha
  rw [this] at hb; exact hb

/-! ## weighted list, arbitrary weights -/

theorem mem_mupsert_constW {k : Nat} {w : Int} {l : List (Nat × Int)} (hs : SortedK l) {p : Nat × Int} :
    p ∈ mupsert k w (fun _ => w) l ↔ p = (k, w) ∨ (p ∈ l ∧ p.1 ≠ k) := Gen.mem_mupsert_const hs

theorem WL.addArcW_spec (d : AdjListW) (u v : Nat) (w : Int) (hwf : d.WF) (huv : u ≠ v)
    (hu : u < d.order) (hv : v < d.order) :
    ∃ d', d.addArcWeighted u v w = some d' ∧ d'.WF ∧ d'.order = d.order ∧
      ∀ a b x, (a, b, x) ∈ d'.arcsWeighted ↔
        ((a, b, x) ∈ d.arcsWeighted ∧ ¬ (a = u ∧ b = v)) ∨ (a = u ∧ b = v ∧ x = w) := by
  have hul : u < d.rows.length := hu
  obtain ⟨old, hold⟩ : ∃ old, d.rows[u]? = some old := ⟨d.rows[u], List.getElem?_eq_getElem hul⟩
  have hsold := (hwf.2 u old hold).1
  refine ⟨⟨d.rows.set u (mupsert v w (fun _ => w) old)⟩,
    by simp [AdjListW.addArcWeighted, huv, hu, hv, hold], ?_⟩
  have hord : (⟨d.rows.set u (mupsert v w (fun _ => w) old)⟩ : AdjListW).order = d.order := by
    simp [AdjListW.order]
  have hrows : (⟨d.rows.set u (mupsert v w (fun _ => w) old)⟩ : AdjListW).rows =
      d.rows.set u (mupsert v w (fun _ => w) old) := rfl
  have hget : ∀ a, (d.rows.set u (mupsert v w (fun _ => w) old))[a]? =
      if u = a then some (mupsert v w (fun _ => w) old) else d.rows[a]? := by
    intro a; rw [List.getElem?_set]; split
    · simp
    · rfl
  refine ⟨⟨by rw [hord]; exact hwf.1, ?_⟩, hord, ?_⟩
  · intro a row hrow
    rw [hord]
    rw [hrows, hget] at hrow
    split at hrow
    · rename_i hua; subst hua
      have := Option.some.inj hrow; subst this
      refine ⟨sortedK_mupsert hsold, ?_⟩
      intro p hp
      rcases (mem_mupsert_constW hsold).mp hp with rfl | ⟨hp, _⟩
      · exact ⟨hv, fun e => huv e.symm⟩
      · exact (hwf.2 u old hold).2 p hp
    · exact hwf.2 a row hrow
  · intro a b x
    rw [Gen.WL.mem_arcsWeighted, Gen.WL.mem_arcsWeighted, hrows, hget]
    constructor
    · rintro ⟨row, hrow, hb⟩
      split at hrow
      · rename_i hua; subst hua
        have := Option.some.inj hrow; subst this
        rcases (mem_mupsert_constW hsold).mp hb with h | ⟨hp, hne⟩
        · right; exact ⟨rfl, (Prod.mk.inj h).1, (Prod.mk.inj h).2⟩
        · left; exact ⟨⟨old, hold, hp⟩, fun h => hne h.2⟩
      · rename_i hua
        left; exact ⟨⟨row, hrow, hb⟩, fun h => hua h.1.symm⟩
    · rintro (⟨⟨row, hrow, hb⟩, hne⟩ | ⟨rfl, rfl, rfl⟩)
      · by_cases hua : u = a
        · subst hua
          rw [hold] at hrow; have := Option.some.inj hrow; subst this
          have hbv : b ≠ v := fun e => hne ⟨rfl, e⟩
          exact ⟨mupsert v w (fun _ => w) old, by simp, (mem_mupsert_constW hsold).mpr (Or.inr ⟨hb, hbv⟩)⟩
        · exact ⟨row, by simp [hua, hrow], hb⟩
      · exact ⟨mupsert b x (fun _ => x) old, by simp, (mem_mupsert_constW hsold).mpr (Or.inl rfl)⟩

/-- fold of `add_arc_weighted` over a functional list of valid weighted arcs -/
theorem WL.foldlM_addArcW (l : List (Nat × Nat × Int)) :
    ∀ d : AdjListW, d.WF → (∀ a ∈ l, a.1 ≠ a.2.1 ∧ a.1 < d.order ∧ a.2.1 < d.order) →
      (∀ a b x y, (a, b, x) ∈ l → (a, b, y) ∈ l → x = y) →
      ∃ d', l.foldlM (fun g a => g.addArcWeighted a.1 a.2.1 a.2.2) d = some d' ∧ d'.WF ∧
        d'.order = d.order ∧
        ∀ a b x, (a, b, x) ∈ d'.arcsWeighted ↔
          ((a, b, x) ∈ d.arcsWeighted ∧ ∀ y, (a, b, y) ∉ l) ∨ (a, b, x) ∈ l := by
  induction l with
  | nil => intro d hwf _ _; exact ⟨d, rfl, hwf, rfl, by simp⟩
  | cons t ts ih =>
    intro d hwf hv hfun
    obtain ⟨tu, tv, tw⟩ := t
    have ht := hv (tu, tv, tw) (List.mem_cons_self ..)
    obtain ⟨d1, h1, hwf1, ho1, hhas1⟩ := WL.addArcW_spec d tu tv tw hwf ht.1 ht.2.1 ht.2.2
    obtain ⟨d2, h2, hwf2, ho2, hhas2⟩ := ih d1 hwf1
      (fun a ha => by rw [ho1]; exact hv a (List.mem_cons_of_mem _ ha))
      (fun a b x y hx hy => hfun a b x y (List.mem_cons_of_mem _ hx) (List.mem_cons_of_mem _ hy))
    refine ⟨d2, ?_, hwf2, by rw [ho2, ho1], ?_⟩
    · rw [List.foldlM_cons]; show (d.addArcWeighted tu tv tw).bind _ = _; rw [h1]; exact h2
    · intro a b x
      rw [hhas2, hhas1]
      constructor
      · rintro (⟨(⟨hd, hne⟩ | ⟨rfl, rfl, rfl⟩), hnot⟩ | hts)
        · left; refine ⟨hd, ?_⟩
          intro y hy
          rcases List.mem_cons.mp hy with e | hy
          · have := Prod.mk.inj e; exact hne ⟨this.1, (Prod.mk.inj this.2).1⟩
          · exact hnot y hy
        · right; exact List.mem_cons_self ..
        · right; exact List.mem_cons_of_mem _ hts
      · rintro (⟨hd, hnot⟩ | hmem)
        · left
          refine ⟨Or.inl ⟨hd, ?_⟩, fun y hy => hnot y (List.mem_cons_of_mem _ hy)⟩
          rintro ⟨rfl, rfl⟩
          exact hnot tw (List.mem_cons_self ..)
        · rcases List.mem_cons.mp hmem with e | hts
          · obtain ⟨rfl, e2⟩ := Prod.mk.inj e
            obtain ⟨rfl, rfl⟩ := Prod.mk.inj e2
            by_cases hk : ∃ y, (a, b, y) ∈ ts
            · obtain ⟨y, hy⟩ := hk
              have : x = y := hfun a b x y (List.mem_cons_self ..) (List.mem_cons_of_mem _ hy)
              right; rw [this]; exact hy
            · left; exact ⟨Or.inr ⟨rfl, rfl, rfl⟩, fun y hy => hk ⟨y, hy⟩⟩
          · exact Or.inr hts

theorem WL.ext_arcsW {d₁ d₂ : AdjListW} (h₁ : d₁.WF) (h₂ : d₂.WF) (ho : d₁.order = d₂.order)
    (ha : ∀ u v w, (u, v, w) ∈ d₁.arcsWeighted ↔ (u, v, w) ∈ d₂.arcsWeighted) : d₁ = d₂ := by
  cases d₁ with | mk r₁ => cases d₂ with | mk r₂ =>
  have hlen : r₁.length = r₂.length := ho
  congr 1
  apply List.ext_getElem?
  intro i
  by_cases hi : i < r₁.length
  · have hi2 : i < r₂.length := by omega
    rw [List.getElem?_eq_getElem hi, List.getElem?_eq_getElem hi2]
    congr 1
    apply sortedK_ext (h₁.2 i _ (List.getElem?_eq_getElem hi)).1 (h₂.2 i _ (List.getElem?_eq_getElem hi2)).1
    intro p
    have := ha i p.1 p.2
    rw [Gen.WL.mem_arcsWeighted, Gen.WL.mem_arcsWeighted] at this
    constructor
    · intro hv
      obtain ⟨row, hrow, hv'⟩ := this.mp ⟨_, List.getElem?_eq_getElem hi, hv⟩
      have hrow' : r₂[i]? = some row := hrow
      rw [List.getElem?_eq_getElem hi2] at hrow'
      rw [Option.some.inj hrow']; exact hv'
    · intro hv
      obtain ⟨row, hrow, hv'⟩ := this.mpr ⟨_, List.getElem?_eq_getElem hi2, hv⟩
      have hrow' : r₁[i]? = some row := hrow
      rw [List.getElem?_eq_getElem hi] at hrow'
      rw [Option.some.inj hrow']; exact hv'
  · rw [List.getElem?_eq_none (by omega), List.getElem?_eq_none (by omega)]

theorem WL.rebuild_eq {d : AdjListW} (h : d.WF) : WL.rebuild d = some d := by
  obtain ⟨e, he, hwe, hoe, hne⟩ := Gen.WL.empty_repr (n := d.order) h.1
  have hvalid : ∀ a ∈ d.arcsWeighted, a.1 ≠ a.2.1 ∧ a.1 < e.order ∧ a.2.1 < e.order := by
    intro a ha
    obtain ⟨row, hrow, hm⟩ := Gen.WL.mem_arcsWeighted.mp (show (a.1, a.2.1, a.2.2) ∈ d.arcsWeighted from ha)
    have hu : a.1 < d.order := (List.getElem?_eq_some_iff.mp hrow).1
    have := (h.2 a.1 row hrow).2 _ hm
    rw [hoe]
    exact ⟨fun e => this.2 e.symm, hu, this.1⟩
  have hfun : ∀ a b x y, (a, b, x) ∈ d.arcsWeighted → (a, b, y) ∈ d.arcsWeighted → x = y := by
    intro a b x y hx hy
    obtain ⟨r1, hr1, m1⟩ := Gen.WL.mem_arcsWeighted.mp hx
    obtain ⟨r2, hr2, m2⟩ := Gen.WL.mem_arcsWeighted.mp hy
    rw [hr1] at hr2; have := Option.some.inj hr2; subst this
    exact sortedK_unique (h.2 a r1 hr1).1 m1 m2
  obtain ⟨b, hb, hw, ho, ha⟩ := WL.foldlM_addArcW d.arcsWeighted e hwe.1 hvalid hfun
  have hno : ∀ a b x, (a, b, x) ∉ e.arcsWeighted := by
    intro a b x hx
    have : (a, b) ∈ e.arcs := List.mem_map.mpr ⟨(a, b, x), hx, rfl⟩
    exact hne a b this
  have : b = d := by
    apply WL.ext_arcsW hw h (by rw [ho, hoe])
    intro u v w
    rw [ha]
    exact ⟨fun hh => hh.elim (fun hh => absurd hh.1 (hno u v w)) id, Or.inr⟩
  rw [this] at hb
  unfold WL.rebuild
  rw [he]; exact hb

end GraafVerif.Conv
