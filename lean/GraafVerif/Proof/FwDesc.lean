import GraafVerif.Spec.Graph
/-!
# The digraph the driver builds from a description meets the hypotheses of the C08 theorems

`WGraph.ofRows (wrowsOfArcs n arcs)` (shared, `Spec/Graph.lean`; it is what `GDesc.wgraph` is)
inserts every `[u v w]` into row `u` with `insertAscW` (ascending keys, a later weight replaces an
earlier one — a `BTreeMap`).  Rows therefore have strictly ascending keys (`Functional`) and,
when all heads are `< n`, all arcs are in range (`WF`).
-/
namespace GraafVerif.Fw
open GraafVerif

/-- Keys strictly ascending (a `BTreeMap` row). -/
def KeysAsc (l : List (Nat × Int)) : Prop := l.Pairwise (fun p q => p.1 < q.1)

theorem mem_insertAscW {x : Nat} {w : Int} {l : List (Nat × Int)} {p : Nat × Int}
    (h : p ∈ insertAscW x w l) : p = (x, w) ∨ p ∈ l := by
  induction l with
  | nil => simp [insertAscW] at h; exact .inl h
  | cons q qs ih =>
    obtain ⟨y, wy⟩ := q
    simp only [insertAscW] at h
    split at h
    · rcases List.mem_cons.mp h with h | h
      · exact .inl h
      · exact .inr h
    · split at h
      · rename_i hxy
        rcases List.mem_cons.mp h with h | h
        · subst hxy; exact .inl h
        · exact .inr (List.mem_cons_of_mem _ h)
      · rcases List.mem_cons.mp h with h | h
        · exact .inr (by rw [h]; exact List.mem_cons_self ..)
        · rcases ih h with h | h
          · exact .inl h
          · exact .inr (List.mem_cons_of_mem _ h)

theorem keysAsc_insertAscW {x : Nat} {w : Int} {l : List (Nat × Int)} (h : KeysAsc l) :
    KeysAsc (insertAscW x w l) := by
  induction l with
  | nil => simp [insertAscW, KeysAsc]
  | cons q qs ih =>
    obtain ⟨y, wy⟩ := q
    unfold KeysAsc at h ih ⊢
    rw [List.pairwise_cons] at h
    simp only [insertAscW]
    split
    · rename_i hxy
      rw [List.pairwise_cons]
      refine ⟨?_, List.pairwise_cons.mpr h⟩
      intro p hp
      rcases List.mem_cons.mp hp with hp | hp
      · rw [hp]; exact hxy
      · exact Nat.lt_trans hxy (h.1 p hp)
    · split
      · rw [List.pairwise_cons]; exact ⟨fun p hp => h.1 p hp, h.2⟩
      · rw [List.pairwise_cons]
        refine ⟨?_, ih h.2⟩
        intro p hp
        rcases mem_insertAscW hp with hp | hp
        · rw [hp]; show y < x; omega
        · exact h.1 p hp

theorem keysAsc_functional {l : List (Nat × Int)} (h : KeysAsc l) {v : Nat} {w₁ w₂ : Int}
    (h₁ : (v, w₁) ∈ l) (h₂ : (v, w₂) ∈ l) : w₁ = w₂ := by
  induction l with
  | nil => cases h₁
  | cons q qs ih =>
    unfold KeysAsc at h ih
    rw [List.pairwise_cons] at h
    rcases List.mem_cons.mp h₁ with e₁ | m₁ <;> rcases List.mem_cons.mp h₂ with e₂ | m₂
    · rw [← e₁] at e₂; exact (Prod.mk.inj e₂).2.symm
    · have := h.1 _ m₂; rw [← e₁] at this; simp at this
    · have := h.1 _ m₁; rw [← e₂] at this; simp at this
    · exact ih h.2 m₁ m₂

/-- Invariant of the row table while the description's arcs are inserted. -/
def RowsOk (n : Nat) (rows : Array (List (Nat × Int))) : Prop :=
  rows.size = n ∧ ∀ u (h : u < rows.size), KeysAsc rows[u] ∧ ∀ p ∈ rows[u], p.1 < n

theorem rowsOk_wrowsOfArcs (n : Nat) (arcs : List (Nat × Nat × Int)) (harcs : ∀ a ∈ arcs, a.2.1 < n) :
    RowsOk n (wrowsOfArcs n arcs) := by
  unfold wrowsOfArcs
  have h0 : RowsOk n (Array.replicate n []) := by
    refine ⟨by simp, ?_⟩
    intro u h
    simp [KeysAsc]
  generalize Array.replicate n [] = rows at h0
  induction arcs generalizing rows with
  | nil => exact h0
  | cons a as ih =>
    simp only [List.foldl_cons]
    apply ih (fun b hb => harcs b (List.mem_cons_of_mem _ hb))
    split
    · rename_i hlt
      refine ⟨by rw [Array.size_modify]; exact h0.1, ?_⟩
      intro u hu
      have hu' : u < rows.size := by simpa using hu
      rw [Array.getElem_modify]
      split
      · refine ⟨keysAsc_insertAscW (h0.2 u hu').1, ?_⟩
        intro p hp
        rcases mem_insertAscW hp with hp | hp
        · rw [hp]; exact harcs a (List.mem_cons_self ..)
        · exact (h0.2 u hu').2 p hp
      · exact h0.2 u hu'
    · exact h0

/-- The digraph the driver builds from a description whose arc heads are in range meets the
hypotheses of the C08 theorems. -/
theorem ofRows_hyps (n : Nat) (arcs : List (Nat × Nat × Int)) (harcs : ∀ a ∈ arcs, a.2.1 < n) :
    (WGraph.ofRows (wrowsOfArcs n arcs)).n = n ∧ (WGraph.ofRows (wrowsOfArcs n arcs)).WF ∧
    (WGraph.ofRows (wrowsOfArcs n arcs)).Functional := by
  obtain ⟨hsz, hrows⟩ := rowsOk_wrowsOfArcs n arcs harcs
  refine ⟨hsz, ?_, ?_⟩
  · intro u v w h
    change (v, w) ∈ (wrowsOfArcs n arcs).getD u [] at h
    show u < (wrowsOfArcs n arcs).size ∧ v < (wrowsOfArcs n arcs).size
    by_cases hu : u < (wrowsOfArcs n arcs).size
    · rw [Array.getD_eq_getD_getElem?, Array.getElem?_eq_getElem hu] at h
      exact ⟨hu, by rw [hsz]; exact (hrows u hu).2 _ h⟩
    · rw [Array.getD_eq_getD_getElem?, Array.getElem?_eq_none (by omega)] at h
      cases h
  · intro u v w₁ w₂ h₁ h₂
    change (v, w₁) ∈ (wrowsOfArcs n arcs).getD u [] at h₁
    change (v, w₂) ∈ (wrowsOfArcs n arcs).getD u [] at h₂
    by_cases hu : u < (wrowsOfArcs n arcs).size
    · rw [Array.getD_eq_getD_getElem?, Array.getElem?_eq_getElem hu] at h₁ h₂
      exact keysAsc_functional (hrows u hu).1 h₁ h₂
    · rw [Array.getD_eq_getD_getElem?, Array.getElem?_eq_none (by omega)] at h₁
      cases h₁

end GraafVerif.Fw
