import GraafVerif.Proof.BfsC04
import GraafVerif.Proof.BfsPredTree
/-!
# The predecessor component of the BFS invariant (basis of C05)

Over the level-and-predecessor labelling `labFull` an item is `(v, (level, pred))`.
`TreeList`: every item of `emitted ++ queue` is either a source item `(s, (0, none))` or was
discovered from an item that stands *earlier* in the list, through an arc, one level deeper.
It is maintained by `next` (new items are appended, their parent is the popped item).

From it: every item has an *ancestor chain* (`AncChain`) of items of strictly decreasing level
down to a source item; its vertex list is a duplicate-free link chain of the predecessor vector
written so far, and reversed it is a walk of the digraph from a source.
-/
namespace GraafVerif.Bfs
open GraafVerif GraafVerif.PredTree

abbrev FItem := Nat × (Nat × Option Nat)

/-- `x` is a source item, or its recorded predecessor is an item of `pre` one level up. -/
def Par (g : Graph) (S : List Nat) (pre : List FItem) (x : FItem) : Prop :=
  (x.2.2 = none ∧ x.1 ∈ S ∧ x.2.1 = 0) ∨
  (∃ y ∈ pre, x.2.2 = some y.1 ∧ g.A y.1 x.1 ∧ x.2.1 = y.2.1 + 1)

def TreeList (g : Graph) (S : List Nat) (xs : List FItem) : Prop :=
  ∀ pre x post, xs = pre ++ x :: post → Par g S pre x

theorem Par.mono {g : Graph} {S : List Nat} {pre pre' : List FItem} {x : FItem}
    (h : Par g S pre x) (hsub : ∀ y ∈ pre, y ∈ pre') : Par g S pre' x := by
  rcases h with h | ⟨y, hy, h⟩
  · exact Or.inl h
  · exact Or.inr ⟨y, hsub y hy, h⟩

theorem TreeList.prefix {g : Graph} {S : List Nat} {xs ys : List FItem} (h : TreeList g S (xs ++ ys)) :
    TreeList g S xs := by
  intro pre x post hd
  exact h pre x (post ++ ys) (by rw [hd]; simp)

theorem TreeList.append {g : Graph} {S : List Nat} {xs new : List FItem} (h : TreeList g S xs)
    (hnew : ∀ x ∈ new, ∃ y ∈ xs, x.2.2 = some y.1 ∧ g.A y.1 x.1 ∧ x.2.1 = y.2.1 + 1) :
    TreeList g S (xs ++ new) := by
  intro pre x post hd
  rcases List.append_eq_append_iff.mp hd with ⟨a', hpre, hnew'⟩ | ⟨c', hxs, hc⟩
  · -- `x` is one of the new items, all of `xs` precedes it
    obtain ⟨y, hy, hp⟩ := hnew x (by rw [hnew']; simp)
    exact Or.inr ⟨y, by rw [hpre]; simp [hy], hp⟩
  · cases c' with
    | nil =>
      simp at hc hxs
      obtain ⟨y, hy, hp⟩ := hnew x (by rw [← hc]; simp)
      exact Or.inr ⟨y, by rw [← hxs]; exact hy, hp⟩
    | cons c cs =>
      simp at hc
      obtain ⟨rfl, _⟩ := hc
      exact h pre x cs hxs

theorem TreeList.mem {g : Graph} {S : List Nat} {xs : List FItem} (h : TreeList g S xs) :
    ∀ x ∈ xs, Par g S xs x := by
  intro x hx
  obtain ⟨pre, post, rfl⟩ := List.append_of_mem hx
  exact (h pre x post rfl).mono (fun y hy => by simp [hy])

/-! ### maintenance along a run -/

theorem step_tree (g : Graph) (hg : g.WF) (S : List Nat) (E : List FItem) (st st' : St (Nat × Option Nat))
    (x : FItem) (hlen : st.visited.length = g.n) (h : TreeList g S (E ++ st.queue))
    (hn : nextP g labFull st = some (x, st')) : TreeList g S ((E ++ [x]) ++ st'.queue) := by
  obtain ⟨q, new, hq, h3, _, _, h4, _, _⟩ := nextP_spec g hg labFull st st' x hlen hn
  have : (E ++ [x]) ++ st'.queue = (E ++ st.queue) ++ new := by rw [h3, hq]; simp
  rw [this]
  refine h.append ?_
  intro p hp
  obtain ⟨hmem, _, hlab⟩ := h4 p hp
  refine ⟨x, by rw [hq]; simp, ?_, hmem, ?_⟩
  · rw [hlab]; rfl
  · rw [hlab]; rfl

theorem run_tree (g : Graph) (hg : g.WF) (S : List Nat) :
    ∀ (fuel : Nat) (E : List FItem) (st : St (Nat × Option Nat)), st.visited.length = g.n →
      TreeList g S (E ++ st.queue) →
      TreeList g S ((E ++ (runP g labFull fuel st).1) ++ (runP g labFull fuel st).2.queue) := by
  intro fuel
  induction fuel with
  | zero => intro E st _ h; simpa [runP] using h
  | succ f ih =>
    intro E st hlen h
    simp only [runP]
    cases hn : nextP g labFull st with
    | none => simpa using h
    | some p =>
      obtain ⟨x, st'⟩ := p
      have h' := step_tree g hg S E st st' x hlen h hn
      have := ih (E ++ [x]) st' (by rw [nextP_len g labFull st st' x hn, hlen]) h'
      simpa [List.append_assoc] using this

theorem init_tree (g : Graph) (S : List Nat) (hS : ∀ s ∈ S, s < g.n) :
    TreeList g S ([] ++ (newP g labFull S).queue) := by
  rw [(newP_spec g labFull S hS).1]
  intro pre x post hd
  have hx : x ∈ S.map (fun s => (s, labFull.init)) := by
    simp only [List.nil_append] at hd; rw [hd]; simp
  obtain ⟨s, hs, rfl⟩ := List.mem_map.mp hx
  exact Or.inl ⟨rfl, hs, rfl⟩

/-- Everything the proofs of C05 use about the list of full items of a whole run. -/
structure FullSpec (g : Graph) (S : List Nat) (out : List FItem) : Prop where
  nodup : (out.map (·.1)).Nodup
  mem_iff : ∀ v, v ∈ out.map (·.1) ↔ ReachFrom g S v
  exact : ∀ x ∈ out, IsHopDist g S x.1 x.2.1
  sorted : (out.map (fun x => x.2.1)).Pairwise (· ≤ ·)
  lt : ∀ x ∈ out, x.1 < g.n ∧ x.2.1 < g.n
  tree : TreeList g S out

theorem runP_fullSpec (g : Graph) (hg : g.WF) (S : List Nat) (hS : ∀ s ∈ S, s < g.n) (hnd : S.Nodup)
    (fuel : Nat) (hf : g.n < fuel) : FullSpec g S (runP g labFull fuel (newP g labFull S)).1 := by
  obtain ⟨hI, hq⟩ := run_final g hg labFull (·.1) isLevel_full S hS hnd fuel hf
  have hcard := inv_card g S _ _ hI.toInv
  have ht := run_tree g hg S fuel [] (newP g labFull S) (newP_spec g labFull S hS).2.1 (init_tree g S hS)
  refine ⟨?_, ?_, ?_, ?_, ?_, ?_⟩
  · simpa [hq] using hI.nodup
  · intro v; constructor
    · intro hv; exact hI.reach v (by simp [hq]; simpa using hv)
    · intro hv; exact closed_reach g S _ _ hI.toInv hq v hv
  · intro p hp; exact hI.lvl p (by simp [hq, hp])
  · simpa [hq] using hI.sorted
  · intro p hp
    constructor
    · have := (hI.vis p.1).mpr (by simp [hq]; exact ⟨p.2.1, p.2.2, hp⟩)
      have := isVis_lt _ _ this
      rw [hI.len] at this; exact this
    · have := hI.bound p (by simp [hq, hp])
      simp [hq] at this hcard
      omega
  · simpa [hq] using ht

/-- The full-label run exists for the canonical fuel and projects onto `bfsPred`. -/
theorem full_run (g : Graph) (hg : g.WF) (S : List Nat) (hS : ∀ s ∈ S, s < g.n) (hnd : S.Nodup) :
    ∃ out, iter g labFull S = .ok out ∧ FullSpec g S out ∧
      (runP g labPred (fuelFor g S) (newP g labPred S)).1 = out.map (fun x => (x.1, x.2.2)) := by
  refine ⟨_, iter_eq g hg labFull S hS, runP_fullSpec g hg S hS hnd _ (by unfold fuelFor; omega), ?_⟩
  have h1 := iter_eq g hg labPred S hS
  have h2 := iter_map g hom_full_pred S
  rw [h1, iter_eq g hg labFull S hS] at h2
  simp only [Res.map, Res.ok.injEq] at h2
  rw [h2]; rfl

/-! ### items are determined by their vertex -/

theorem eq_of_fst_eq {β : Type} : ∀ {xs : List (Nat × β)}, (xs.map (·.1)).Nodup →
    ∀ x ∈ xs, ∀ y ∈ xs, x.1 = y.1 → x = y
  | [], _, _, hx, _, _, _ => by simp at hx
  | a :: xs, hnd, x, hx, y, hy, hxy => by
    have hnd' : a.1 ∉ xs.map (·.1) ∧ (xs.map (·.1)).Nodup := by
      rw [List.map_cons] at hnd; exact List.nodup_cons.mp hnd
    rcases List.mem_cons.mp hx with hxa | hx' <;> rcases List.mem_cons.mp hy with hya | hy'
    · rw [hxa, hya]
    · have : a.1 ∈ xs.map (·.1) := List.mem_map.mpr ⟨y, hy', by rw [← hxy, hxa]⟩
      exact absurd this hnd'.1
    · have : a.1 ∈ xs.map (·.1) := List.mem_map.mpr ⟨x, hx', by rw [hxy, hya]⟩
      exact absurd this hnd'.1
    · exact eq_of_fst_eq hnd'.2 x hx' y hy' hxy

/-! ### the predecessor vector written by a list of items -/

def proj (x : FItem) : Nat × Option Nat := (x.1, x.2.2)

theorem predOf_spec (n : Nat) (P : List FItem) (hnd : (P.map (·.1)).Nodup) (hlt : ∀ x ∈ P, x.1 < n) :
    (predOf n (P.map proj)).length = n ∧
    (∀ x ∈ P, (predOf n (P.map proj))[x.1]? = some x.2.2) ∧
    (∀ v, v < n → v ∉ P.map (·.1) → (predOf n (P.map proj))[v]? = some none) := by
  have hm : (P.map proj).map (·.1) = P.map (·.1) := by simp [proj, Function.comp_def]
  obtain ⟨h1, h2, h3⟩ := foldl_set_spec (P.map proj) (List.replicate n none) (by rw [hm]; exact hnd)
    (by intro p hp; obtain ⟨x, hx, rfl⟩ := List.mem_map.mp hp; simpa [proj] using hlt x hx)
  refine ⟨by unfold predOf; simpa using h1, ?_, ?_⟩
  · intro x hx
    exact h2 (proj x) (List.mem_map.mpr ⟨x, hx, rfl⟩)
  · intro v hv hnot
    have := h3 v (by rw [hm]; exact hnot)
    unfold predOf
    rw [this]; simp [hv]

/-! ### ancestor chains -/

/-- `[x₀, x₁, …, x_k]`: `x_{i+1}` is the recorded predecessor of `x_i` (an arc, one level up),
`x_k` is a source item. -/
def AncChain (g : Graph) (S : List Nat) : List FItem → Prop
  | [] => False
  | [z] => z.2.2 = none ∧ z.1 ∈ S ∧ z.2.1 = 0
  | a :: b :: r => a.2.2 = some b.1 ∧ g.A b.1 a.1 ∧ a.2.1 = b.2.1 + 1 ∧ AncChain g S (b :: r)

theorem anc_exists (g : Graph) (S : List Nat) (P : List FItem) (ht : TreeList g S P) :
    ∀ (w : Nat) (x : FItem), x ∈ P → x.2.1 = w →
      ∃ r, (∀ y ∈ x :: r, y ∈ P) ∧ AncChain g S (x :: r) := by
  intro w
  induction w with
  | zero =>
    intro x hx hw
    rcases ht.mem x hx with h | ⟨y, _, _, _, h⟩
    · exact ⟨[], by simpa using hx, h⟩
    · omega
  | succ w ih =>
    intro x hx hw
    rcases ht.mem x hx with h | ⟨y, hy, hp, ha, hl⟩
    · exact ⟨[], by simpa using hx, h⟩
    · obtain ⟨r, hr, hc⟩ := ih y hy (by omega)
      refine ⟨y :: r, ?_, hp, ha, hl, hc⟩
      intro z hz
      rcases List.mem_cons.mp hz with rfl | hz
      · exact hx
      · exact hr z hz

theorem AncChain.level_lt {g : Graph} {S : List Nat} : ∀ {r : List FItem} {a : FItem},
    AncChain g S (a :: r) → ∀ y ∈ r, y.2.1 < a.2.1
  | [], _, _, _, hy => by simp at hy
  | b :: r, a, h, y, hy => by
    obtain ⟨_, _, hl, hc⟩ := h
    rcases List.mem_cons.mp hy with rfl | hy
    · omega
    · have := AncChain.level_lt hc y hy; omega

theorem AncChain.length {g : Graph} {S : List Nat} : ∀ {r : List FItem} {a : FItem},
    AncChain g S (a :: r) → (a :: r).length = a.2.1 + 1
  | [], _, h => by simp [h.2.2]
  | b :: r, a, h => by
    obtain ⟨_, _, hl, hc⟩ := h
    have := AncChain.length hc
    simp at this ⊢; omega

theorem AncChain.nodup {g : Graph} {S : List Nat} {P : List FItem} (hnd : (P.map (·.1)).Nodup) :
    ∀ {ys : List FItem}, AncChain g S ys → (∀ y ∈ ys, y ∈ P) → (ys.map (·.1)).Nodup
  | [], h, _ => h.elim
  | [z], _, _ => by simp
  | a :: b :: r, h, hsub => by
    have hc := h.2.2.2
    have ih := AncChain.nodup hnd hc (fun y hy => hsub y (by simp at hy ⊢; exact Or.inr hy))
    rw [List.map_cons, List.nodup_cons]
    refine ⟨?_, ih⟩
    intro hmem
    obtain ⟨y, hy, hya⟩ := List.mem_map.mp hmem
    have heq := eq_of_fst_eq hnd y (hsub y (by simp at hy ⊢; exact Or.inr hy)) a (hsub a (by simp)) hya
    have := AncChain.level_lt h y hy
    rw [heq] at this; omega

/-- The vertex list of an ancestor chain is a target chain for "has no predecessor". -/
theorem AncChain.tchain {g : Graph} {S : List Nat} {pr : Pred} {P : List FItem}
    (hpr : ∀ x ∈ P, pr[x.1]? = some x.2.2) :
    ∀ {ys : List FItem}, AncChain g S ys → (∀ y ∈ ys, y ∈ P) →
      TChain pr (fun _ b => b.isNone) (ys.map (·.1))
  | [], h, _ => h.elim
  | [z], h, hsub => ⟨none, by rw [hpr z (hsub z (by simp)), h.1], rfl⟩
  | a :: b :: r, h, hsub => by
    refine ⟨by rw [hpr a (hsub a (by simp)), h.1], rfl, ?_⟩
    exact AncChain.tchain hpr h.2.2.2 (fun y hy => hsub y (by simp at hy ⊢; exact Or.inr hy))

theorem AncChain.links {g : Graph} {S : List Nat} {pr : Pred} {P : List FItem}
    (hpr : ∀ x ∈ P, pr[x.1]? = some x.2.2) :
    ∀ {ys : List FItem}, AncChain g S ys → (∀ y ∈ ys, y ∈ P) → Links pr (ys.map (·.1))
  | [], _, _ => trivial
  | [z], _, hsub => ⟨_, hpr z (hsub z (by simp))⟩
  | a :: b :: r, h, hsub => by
    refine ⟨by rw [hpr a (hsub a (by simp)), h.1], ?_⟩
    exact AncChain.links hpr h.2.2.2 (fun y hy => hsub y (by simp at hy ⊢; exact Or.inr hy))

theorem AncChain.last_none {g : Graph} {S : List Nat} {pr : Pred} {P : List FItem}
    (hpr : ∀ x ∈ P, pr[x.1]? = some x.2.2) :
    ∀ {ys : List FItem}, AncChain g S ys → (∀ y ∈ ys, y ∈ P) →
      ∀ z, (ys.map (·.1)).getLast? = some z → pr[z]? = some none ∧ z ∈ S
  | [], h, _, _, _ => h.elim
  | [x], h, hsub, z, hz => by
    simp at hz; subst hz
    exact ⟨by rw [hpr x (hsub x (by simp)), h.1], h.2.1⟩
  | a :: b :: r, h, hsub, z, hz => by
    refine AncChain.last_none hpr h.2.2.2 (fun y hy => hsub y (by simp at hy ⊢; exact Or.inr hy)) z ?_
    simpa [List.getLast?_cons_cons] using hz

/-! ### walks -/

/-- Consecutive vertices are arcs in the *reverse* direction (`b → a` for `… a, b …`). -/
def RevWalk (g : Graph) : List Nat → Prop
  | [] => True
  | [_] => True
  | a :: b :: r => g.A b a ∧ RevWalk g (b :: r)

theorem AncChain.revWalk {g : Graph} {S : List Nat} : ∀ {ys : List FItem}, AncChain g S ys →
    RevWalk g (ys.map (·.1))
  | [], _ => trivial
  | [_], _ => trivial
  | _ :: b :: r, h => ⟨h.2.1, AncChain.revWalk (ys := b :: r) h.2.2.2⟩

theorem isWalk_append_singleton (g : Graph) : ∀ (l : List Nat) (a : Nat), IsWalk g l →
    (∀ z, l.getLast? = some z → g.A z a) → IsWalk g (l ++ [a])
  | [], _, _, _ => trivial
  | [z], a, _, h => ⟨h z rfl, trivial⟩
  | u :: v :: r, a, hw, h => by
    refine ⟨hw.1, ?_⟩
    exact isWalk_append_singleton g (v :: r) a hw.2 (fun z hz => h z (by simpa [List.getLast?_cons_cons] using hz))

theorem RevWalk.isWalk_reverse {g : Graph} : ∀ {l : List Nat}, RevWalk g l → IsWalk g l.reverse
  | [], _ => trivial
  | [_], _ => trivial
  | a :: b :: r, h => by
    have ih := RevWalk.isWalk_reverse h.2
    rw [List.reverse_cons]
    refine isWalk_append_singleton g _ a ih ?_
    intro z hz
    rw [List.getLast?_reverse] at hz
    simp at hz; subst hz
    exact h.1

theorem RevWalk.prefix {g : Graph} : ∀ {l1 l2 : List Nat}, RevWalk g (l1 ++ l2) → RevWalk g l1
  | [], _, _ => trivial
  | [_], _, _ => trivial
  | _ :: b :: r, _, h => ⟨h.1, RevWalk.prefix (l1 := b :: r) h.2⟩

end GraafVerif.Bfs
