import GraafVerif.Proof.RandReal
/-! `AdjacencyMatrix`: `add_arc` sets exactly one cell; what `has_arc` shows after a sequence of `add_arc`. -/
namespace GraafVerif.Rand
open GraafVerif.Repr

theorem getLsbD_mask (i k : Nat) (hk : k < 64) : (AdjMatrix.mask i).getLsbD k = decide (k = i % 64) := by
  unfold AdjMatrix.mask
  have hi : i % 64 < 64 := Nat.mod_lt _ (by decide)
  simp [hk]
  by_cases h : k = i % 64
  · subst h; simp
  · simp [h]; omega

theorem and_mask_ne_zero (x : BitVec 64) (i : Nat) :
    ((x &&& AdjMatrix.mask i) != 0#64) = x.getLsbD (i % 64) := by
  have hi : i % 64 < 64 := Nat.mod_lt _ (by decide)
  cases hx : x.getLsbD (i % 64)
  · have : x &&& AdjMatrix.mask i = 0#64 := by
      apply BitVec.eq_of_getLsbD_eq
      intro k hk
      simp only [BitVec.getLsbD_and, getLsbD_mask i k hk, BitVec.getLsbD_zero, Bool.and_eq_false_imp]
      intro h1
      by_cases h2 : k = i % 64
      · subst h2; simp [hx] at h1
      · simp [h2]
    simp [this]
  · have h1 : (x &&& AdjMatrix.mask i).getLsbD (i % 64) = true := by
      simp [BitVec.getLsbD_and, getLsbD_mask i _ hi, hx]
    have hne : x &&& AdjMatrix.mask i ≠ 0#64 := by
      intro h; rw [h] at h1; simp at h1
    simp [bne, hne]

/-- order and block count of a matrix built by `empty(n)` and kept by `add_arc` -/
def MXInv (n : Nat) (g : AdjMatrix) : Prop := g.order = n ∧ g.blocks.length = (n * n + 63) / 64

theorem hasArc_eq_cell (g : AdjMatrix) (u v : Nat) (hu : u < g.order) (hv : v < g.order) :
    g.hasArc u v = g.cell (g.index u v) := by
  unfold AdjMatrix.hasArc AdjMatrix.cell
  have : ¬ (u ≥ g.order || v ≥ g.order) = true := by simp; omega
  rw [if_neg this, and_mask_ne_zero]

theorem cell_setBlock_or (g : AdjMatrix) (i c : Nat) (hi : i / 64 < g.blocks.length) :
    (g.setBlock i (· ||| AdjMatrix.mask i)).cell c = (g.cell c || decide (c = i)) := by
  unfold AdjMatrix.setBlock AdjMatrix.cell
  have hc : c % 64 < 64 := Nat.mod_lt _ (by decide)
  by_cases hb : i / 64 = c / 64
  · have hset : ∀ X, (g.blocks.set (i / 64) X)[c / 64]? = some X := by
      intro X; rw [← hb]; exact List.getElem?_set_self hi
    rw [hset]
    simp only [Option.getD_some, BitVec.getLsbD_or, getLsbD_mask i _ hc]
    rw [← hb]
    congr 1
    have : (c % 64 = i % 64) ↔ c = i := by
      constructor
      · intro h; have := Nat.div_add_mod c 64; have := Nat.div_add_mod i 64; omega
      · intro h; rw [h]
    simp [this]
  · have hne : c ≠ i := fun e => hb (by rw [e])
    simp [List.getElem?_set_ne hb, hne]

theorem index_lt (n u v : Nat) (hu : u < n) (hv : v < n) : u * n + v < n * n := by
  have : (u + 1) * n ≤ n * n := Nat.mul_le_mul_right n hu
  rw [Nat.add_mul] at this; omega

theorem index_inj (n u v a b : Nat) (hv : v < n) (hb : b < n) (h : a * n + b = u * n + v) : a = u ∧ b = v := by
  have h1 : (a * n + b) / n = a := by
    rw [Nat.mul_comm, Nat.mul_add_div (by omega), Nat.div_eq_of_lt hb]; rfl
  have h2 : (u * n + v) / n = u := by
    rw [Nat.mul_comm, Nat.mul_add_div (by omega), Nat.div_eq_of_lt hv]; rfl
  have : a = u := by rw [← h1, ← h2, h]
  subst this
  exact ⟨rfl, by omega⟩

theorem addArc_spec (n : Nat) (g : AdjMatrix) (hg : MXInv n g) (u v : Nat) (hu : u < n) (hv : v < n) (huv : u ≠ v) :
    ∃ g', g.addArc u v = some g' ∧ MXInv n g' ∧
      ∀ a b, g'.hasArc a b = (g.hasArc a b || (decide (a = u) && decide (b = v))) := by
  obtain ⟨ho, hl⟩ := hg
  have hidx : g.index u v / 64 < g.blocks.length := by
    have := index_lt n u v hu hv
    unfold AdjMatrix.index; rw [ho, hl]; omega
  refine ⟨g.setBlock (g.index u v) (· ||| AdjMatrix.mask (g.index u v)), ?_, ⟨?_, ?_⟩, fun a b => ?_⟩
  · simp [AdjMatrix.addArc, huv, ho, hu, hv]
  · simp [AdjMatrix.setBlock, ho]
  · simp [AdjMatrix.setBlock, hl]
  · by_cases hab : a < n ∧ b < n
    · have ho' : (g.setBlock (g.index u v) (· ||| AdjMatrix.mask (g.index u v))).order = g.order := rfl
      rw [hasArc_eq_cell _ a b (by rw [ho', ho]; exact hab.1) (by rw [ho', ho]; exact hab.2),
          hasArc_eq_cell g a b (by rw [ho]; exact hab.1) (by rw [ho]; exact hab.2)]
      have : (g.setBlock (g.index u v) (· ||| AdjMatrix.mask (g.index u v))).index a b = g.index a b := rfl
      rw [this, cell_setBlock_or g _ _ hidx]
      congr 1
      unfold AdjMatrix.index; rw [ho]
      by_cases h : a * n + b = u * n + v
      · have := index_inj n u v a b hv hab.2 h
        simp [this.1, this.2]
      · have : ¬ (a = u ∧ b = v) := by rintro ⟨rfl, rfl⟩; exact h rfl
        simp only [h, decide_false]
        cases hd : (decide (a = u) && decide (b = v))
        · rfl
        · simp at hd; exact absurd hd this
    · have h1 : (g.setBlock (g.index u v) (· ||| AdjMatrix.mask (g.index u v))).hasArc a b = false := by
        unfold AdjMatrix.hasArc
        have ho' : (g.setBlock (g.index u v) (· ||| AdjMatrix.mask (g.index u v))).order = n := ho
        rw [ho']
        have : (a ≥ n || b ≥ n) = true := by simp; omega
        rw [if_pos this]
      have h2 : g.hasArc a b = false := by
        unfold AdjMatrix.hasArc
        rw [ho]
        have : (a ≥ n || b ≥ n) = true := by simp; omega
        rw [if_pos this]
      rw [h1, h2]
      have : ¬ (a = u ∧ b = v) := by rintro ⟨rfl, rfl⟩; exact hab ⟨hu, hv⟩
      cases hd : (decide (a = u) && decide (b = v))
      · rfl
      · simp at hd; exact absurd hd this

theorem foldlM_addArc_MX (n : Nat) (arcs : List (Nat × Nat)) (hs : SimpleArcs n arcs) (g : AdjMatrix) (hg : MXInv n g) :
    ∃ g', arcs.foldlM (fun g a => g.addArc a.1 a.2) g = some g' ∧ MXInv n g' ∧
      ∀ a b, g'.hasArc a b = true ↔ g.hasArc a b = true ∨ (a, b) ∈ arcs := by
  induction arcs generalizing g with
  | nil => exact ⟨g, rfl, hg, by simp⟩
  | cons x xs ih =>
    have hx := hs x (by simp)
    obtain ⟨g1, e1, inv1, has1⟩ := addArc_spec n g hg x.1 x.2 hx.1 hx.2.1 hx.2.2
    obtain ⟨g', e2, inv2, has2⟩ := ih (fun y hy => hs y (List.mem_cons_of_mem _ hy)) g1 inv1
    refine ⟨g', by simp [List.foldlM_cons, e1, e2], inv2, fun a b => ?_⟩
    rw [has2, has1]
    simp only [Bool.or_eq_true, Bool.and_eq_true, decide_eq_true_eq, List.mem_cons]
    constructor
    · rintro ((h | h) | h)
      · exact Or.inl h
      · exact Or.inr (Or.inl (Prod.ext h.1 h.2))
      · exact Or.inr (Or.inr h)
    · rintro (h | h | h)
      · exact Or.inl (Or.inl h)
      · exact Or.inl (Or.inr ⟨congrArg Prod.fst h, congrArg Prod.snd h⟩)
      · exact Or.inr h

theorem empty_MX (n : Nat) (hn : 0 < n) (hb : n * n < 2^64) :
    ∃ e, AdjMatrix.empty n = some e ∧ MXInv n e ∧ ∀ a b, e.hasArc a b = false := by
  refine ⟨⟨List.replicate ((n * n + 63) / 64) 0#64, n⟩, ?_, ⟨rfl, by simp⟩, fun a b => ?_⟩
  · have h1 : ¬ n = 0 := by omega
    have h2 : ¬ n * n ≥ 2^64 := by omega
    simp [AdjMatrix.empty, h1, h2]
  · unfold AdjMatrix.hasArc
    split
    · rfl
    · simp only [AdjMatrix.index]
      rw [and_mask_ne_zero]
      cases h : (List.replicate ((n * n + 63) / 64) 0#64)[(a * n + b) / 64]? with
      | none => simp
      | some x =>
        have := List.mem_of_getElem? h
        simp at this
        simp [this.2]

theorem realizes_foldlM_addArc_MX (n : Nat) (hn : 0 < n) (hb : n * n < 2^64) (arcs : List (Nat × Nat)) (hs : SimpleArcs n arcs) :
    ∃ g, (do let e ← AdjMatrix.empty n; arcs.foldlM (fun g a => g.addArc a.1 a.2) e) = some g ∧
      Realizes (viewMX g) n arcs := by
  obtain ⟨e, he, hinv, hemp⟩ := empty_MX n hn hb
  obtain ⟨g, h1, h2, h3⟩ := foldlM_addArc_MX n arcs hs e hinv
  refine ⟨g, by simp [he, h1], h2.1, by simp [viewMX, AdjMatrix.vertices, h2.1], fun u v => ?_⟩
  simp [viewMX, h3, hemp]

end GraafVerif.Rand
