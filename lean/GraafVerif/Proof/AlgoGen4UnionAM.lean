import GraafVerif.Proof.AlgoGen4AM
import GraafVerif.Proof.OpsAMUnion
/-!
# Generated `AdjacencyMap::union` (with `merge_two_sorted`, `union_sets_unsafe`, `find_partition` of the same file)
= the hand-written `Ops.unionAM a b ap`

The file's own copy of `merge_two_sorted` is a separate generated definition (other site strings); its proof is the
one of `Proof/AlgoGen4Union.lean` word for word.
-/
set_option linter.unusedSimpArgs false
namespace GraafVerif.AlgoGenThm
open GraafVerif GraafVerif.AlgoGen GraafVerif.Repr

namespace AdjacencyMap

/-! ## `merge_two_sorted` -/

theorem mergeTwoSorted_while0_eq (l r : List Nat) (out : List Nat) (i j : Nat) (hi : i < l.length) (hj : j < r.length) :
    (AlgoGen.AdjacencyMap.mergeTwoSorted_while0 l r l.length r.length (out, i, j) : Blk _ (List Nat) _) =
      .ok (if l[i] < r[j] then (out ++ [l[i]], i + 1, j)
           else if l[i] > r[j] then (out ++ [r[j]], i, j + 1) else (out ++ [l[i]], i + 1, j + 1)) := by
  unfold AlgoGen.AdjacencyMap.mergeTwoSorted_while0
  simp only [hi, hj, decide_true, Bool.and_self, if_true, rd_lt _ _ _ hi, rd_lt _ _ _ hj, ok_bind]
  by_cases h1 : l[i] < r[j]
  · simp only [h1, if_true]; rfl
  · simp only [h1, if_false, ok_bind]
    by_cases h2 : l[i] > r[j]
    · simp only [h2, if_true]; rfl
    · simp only [h2, if_false]; rfl

theorem mergeTwoSorted_while0_exit (l r : List Nat) (out : List Nat) (i j : Nat) (h : ¬ (i < l.length ∧ j < r.length)) :
    (AlgoGen.AdjacencyMap.mergeTwoSorted_while0 l r l.length r.length (out, i, j) : Blk _ (List Nat) _) = brk (out, i, j) := by
  unfold AlgoGen.AdjacencyMap.mergeTwoSorted_while0
  have : ((decide (i < l.length)) && (decide (j < r.length))) = false := by
    by_cases h1 : i < l.length <;> by_cases h2 : j < r.length <;> simp [h1, h2] at h ⊢
  simp only [this, Bool.false_eq_true, if_false]

/-- a loop that copies the rest of a slice -/
theorem copy_rest (step : List Nat × Nat → Blk (List Nat × Nat) (List Nat) (List Nat × Nat)) (l : List Nat)
    (hstep : ∀ out i, (hi : i < l.length) → step (out, i) = .ok (out ++ [l[i]], i + 1))
    (hexit : ∀ out i, ¬ i < l.length → step (out, i) = brk (out, i)) :
    ∀ (m : Nat) (out : List Nat) (i F : Nat), l.length - i ≤ m → l.length - i ≤ F → ∃ i',
      (whileLoop step F (out, i) : Blk Empty (List Nat) _) = .ok (out ++ l.drop i, i') := by
  intro m
  induction m with
  | zero =>
    intro out i F hm _
    have hi : ¬ i < l.length := by omega
    have hd : l.drop i = [] := List.drop_eq_nil_of_le (by omega)
    refine ⟨i, ?_⟩
    rw [hd]
    cases F with
    | zero => simp [whileLoop]
    | succ F => simp [whileLoop, hexit out i hi, brk]
  | succ m ih =>
    intro out i F hm hF
    by_cases hi : i < l.length
    · obtain ⟨F', rfl⟩ : ∃ F', F = F' + 1 := ⟨F - 1, by omega⟩
      have hd : l.drop i = l[i] :: l.drop (i + 1) := List.drop_eq_getElem_cons hi
      obtain ⟨i', h⟩ := ih (out ++ [l[i]]) (i + 1) F' (by omega) (by omega)
      refine ⟨i', ?_⟩
      rw [hd]
      simp only [whileLoop, hstep out i hi, h, List.append_assoc, List.singleton_append]
    · have hd : l.drop i = [] := List.drop_eq_nil_of_le (by omega)
      refine ⟨i, ?_⟩
      rw [hd]
      cases F with
      | zero => simp [whileLoop]
      | succ F => simp [whileLoop, hexit out i hi, brk]

theorem mergeTwoSorted_while1_eq (l : List Nat) (out : List Nat) (i : Nat) (hi : i < l.length) :
    (AlgoGen.AdjacencyMap.mergeTwoSorted_while1 l (out, i) : Blk _ (List Nat) _) = .ok (out ++ [l[i]], i + 1) := by
  unfold AlgoGen.AdjacencyMap.mergeTwoSorted_while1
  simp only [hi, if_true, rd_lt _ _ _ hi, ok_bind, pure_eq_ok]

theorem mergeTwoSorted_while2_eq (r : List Nat) (out : List Nat) (j : Nat) (hj : j < r.length) :
    (AlgoGen.AdjacencyMap.mergeTwoSorted_while2 r (out, j) : Blk _ (List Nat) _) = .ok (out ++ [r[j]], j + 1) := by
  unfold AlgoGen.AdjacencyMap.mergeTwoSorted_while2
  simp only [hj, if_true, rd_lt _ _ _ hj, ok_bind, pure_eq_ok]

theorem while1_copy (l : List Nat) : ∀ (m : Nat) (out : List Nat) (i F : Nat), l.length - i ≤ m → l.length - i ≤ F → ∃ i',
    (whileLoop (AlgoGen.AdjacencyMap.mergeTwoSorted_while1 l) F (out, i) : Blk Empty (List Nat) _) = .ok (out ++ l.drop i, i') :=
  copy_rest (AlgoGen.AdjacencyMap.mergeTwoSorted_while1 l) l
  (fun out i hi => by
    unfold AlgoGen.AdjacencyMap.mergeTwoSorted_while1
    simp only [hi, if_true, rd_lt _ _ _ hi, ok_bind, pure_eq_ok])
  (fun out i hi => by
    unfold AlgoGen.AdjacencyMap.mergeTwoSorted_while1
    simp only [hi, if_false])

theorem while2_copy (r : List Nat) : ∀ (m : Nat) (out : List Nat) (j F : Nat), r.length - j ≤ m → r.length - j ≤ F → ∃ j',
    (whileLoop (AlgoGen.AdjacencyMap.mergeTwoSorted_while2 r) F (out, j) : Blk Empty (List Nat) _) = .ok (out ++ r.drop j, j') :=
  copy_rest (AlgoGen.AdjacencyMap.mergeTwoSorted_while2 r) r
  (fun out j hj => by
    unfold AlgoGen.AdjacencyMap.mergeTwoSorted_while2
    simp only [hj, if_true, rd_lt _ _ _ hj, ok_bind, pure_eq_ok])
  (fun out j hj => by
    unfold AlgoGen.AdjacencyMap.mergeTwoSorted_while2
    simp only [hj, if_false])

/-- the rest of the function after the first loop: both tails are appended (one of them is empty) -/
def mergeTail (l r : List Nat) (t : List Nat × Nat × Nat) : Blk Empty (List Nat) (List Nat) := do
  let t6 ← whileLoop (AlgoGen.AdjacencyMap.mergeTwoSorted_while1 l) l.length (t.1, t.2.1)
  let t8 ← whileLoop (AlgoGen.AdjacencyMap.mergeTwoSorted_while2 r) r.length (t6.1, t.2.2)
  pure t8.1

theorem mergeTail_eq (l r : List Nat) (out : List Nat) (i j : Nat) :
    mergeTail l r (out, i, j) = .ok (out ++ l.drop i ++ r.drop j) := by
  unfold mergeTail
  obtain ⟨i', h1⟩ := while1_copy l l.length out i l.length (by omega) (by omega)
  simp only [h1, ok_bind]
  obtain ⟨j', h2⟩ := while2_copy r r.length (out ++ l.drop i) j r.length (by omega) (by omega)
  simp only [h2, ok_bind, pure_eq_ok]

theorem merge_loops (l r : List Nat) : ∀ (m : Nat) (out : List Nat) (i j F : Nat),
    (l.length - i) + (r.length - j) ≤ m → (l.length - i) + (r.length - j) ≤ F →
    ((whileLoop (AlgoGen.AdjacencyMap.mergeTwoSorted_while0 l r l.length r.length) F (out, i, j) : Blk Empty (List Nat) _) >>=
      mergeTail l r) = .ok (out ++ Ops.mergeTwoSorted (l.drop i) (r.drop j)) := by
  intro m
  induction m with
  | zero =>
    intro out i j F hm _
    have hij : ¬ (i < l.length ∧ j < r.length) := by omega
    have hd : l.drop i = [] := List.drop_eq_nil_of_le (by omega)
    have hr : r.drop j = [] := List.drop_eq_nil_of_le (by omega)
    have hmt : Ops.mergeTwoSorted ([] : List Nat) [] = [] := rfl
    cases F with
    | zero => simp only [whileLoop, ok_bind, mergeTail_eq, hd, hr, hmt, List.append_nil]
    | succ F => simp only [whileLoop, mergeTwoSorted_while0_exit l r out i j hij, brk, ok_bind, mergeTail_eq, hd, hr, hmt,
        List.append_nil]
  | succ m ih =>
    intro out i j F hm hF
    by_cases hij : i < l.length ∧ j < r.length
    · obtain ⟨hi, hj⟩ := hij
      obtain ⟨F', rfl⟩ : ∃ F', F = F' + 1 := ⟨F - 1, by omega⟩
      have hd : l.drop i = l[i] :: l.drop (i + 1) := List.drop_eq_getElem_cons hi
      have hv : r.drop j = r[j] :: r.drop (j + 1) := List.drop_eq_getElem_cons hj
      have hunf : Ops.mergeTwoSorted (l[i] :: l.drop (i + 1)) (r[j] :: r.drop (j + 1)) =
          if l[i] < r[j] then l[i] :: Ops.mergeTwoSorted (l.drop (i + 1)) (r[j] :: r.drop (j + 1))
          else if r[j] < l[i] then r[j] :: Ops.mergeTwoSorted (l[i] :: l.drop (i + 1)) (r.drop (j + 1))
          else l[i] :: Ops.mergeTwoSorted (l.drop (i + 1)) (r.drop (j + 1)) := by
        have e : (l[i] :: l.drop (i + 1)).length + (r[j] :: r.drop (j + 1)).length =
            ((l.drop (i + 1)).length + (r.drop (j + 1)).length + 1) + 1 := by simp; omega
        unfold Ops.mergeTwoSorted
        rw [e, Ops.mergeFuel]
        rw [Ops.mergeFuel_adequate _ (l.drop (i + 1)) (r[j] :: r.drop (j + 1)) (by simp; omega),
          Ops.mergeFuel_adequate _ (l[i] :: l.drop (i + 1)) (r.drop (j + 1)) (by simp; omega),
          Ops.mergeFuel_adequate _ (l.drop (i + 1)) (r.drop (j + 1)) (by omega)]
        rfl
      rw [hd, hv, hunf]
      simp only [whileLoop, mergeTwoSorted_while0_eq l r out i j hi hj]
      by_cases h1 : l[i] < r[j]
      · have := ih (out ++ [l[i]]) (i + 1) j F' (by omega) (by omega)
        rw [hv] at this
        simp only [h1, if_true, this, List.append_assoc, List.singleton_append]
      · by_cases h2 : l[i] > r[j]
        · have := ih (out ++ [r[j]]) i (j + 1) F' (by omega) (by omega)
          rw [hd] at this
          have h2' : r[j] < l[i] := h2
          simp only [h1, h2, h2', if_true, if_false, this, List.append_assoc, List.singleton_append]
        · have := ih (out ++ [l[i]]) (i + 1) (j + 1) F' (by omega) (by omega)
          have h2' : ¬ r[j] < l[i] := h2
          simp only [h1, h2, h2', if_false, this, List.append_assoc, List.singleton_append]
    · have htail : Ops.mergeTwoSorted (l.drop i) (r.drop j) = l.drop i ++ r.drop j := by
        by_cases hi : i < l.length
        · have hr : r.drop j = [] := List.drop_eq_nil_of_le (by omega)
          rw [hr, List.append_nil]
          unfold Ops.mergeTwoSorted
          cases hl : l.drop i with
          | nil => rfl
          | cons a t => simp [Ops.mergeFuel]
        · have hd : l.drop i = [] := List.drop_eq_nil_of_le (by omega)
          rw [hd, List.nil_append]
          unfold Ops.mergeTwoSorted
          cases hr : r.drop j with
          | nil => rfl
          | cons a t => simp [Ops.mergeFuel]
      rw [htail, ← List.append_assoc]
      cases F with
      | zero => simp only [whileLoop, ok_bind, mergeTail_eq]
      | succ F => simp only [whileLoop, mergeTwoSorted_while0_exit l r out i j hij, brk, ok_bind, mergeTail_eq]

/-- the generated `merge_two_sorted` = the hand-written `Ops.mergeTwoSorted`, for all slices (no unchecked read is
out of bounds) -/
theorem mergeTwoSorted_eq (l r : List Nat) : AlgoGen.AdjacencyMap.mergeTwoSorted l r = .ok (Ops.mergeTwoSorted l r) := by
  have h := merge_loops l r (l.length + r.length) [] 0 0 (l.length + r.length) (by omega) (by omega)
  simp only [List.drop_zero, List.nil_append] at h
  unfold AlgoGen.AdjacencyMap.mergeTwoSorted
  dsimp only
  cases hw : (whileLoop (AlgoGen.AdjacencyMap.mergeTwoSorted_while0 l r l.length r.length) (l.length + r.length) ([], 0, 0) :
      Blk Empty (List Nat) _) with
  | error e => rw [hw] at h; cases e <;> cases h
  | ok t =>
    rw [hw] at h
    simp only [ok_bind] at h ⊢
    unfold mergeTail at h
    cases h1 : (whileLoop (AlgoGen.AdjacencyMap.mergeTwoSorted_while1 l) l.length (t.1, t.2.1) : Blk Empty (List Nat) _) with
    | error e => rw [h1] at h; cases e <;> cases h
    | ok t6 =>
      rw [h1] at h
      simp only [ok_bind] at h ⊢
      cases h2 : (whileLoop (AlgoGen.AdjacencyMap.mergeTwoSorted_while2 r) r.length (t6.1, t.2.2) : Blk Empty (List Nat) _) with
      | error e => rw [h2] at h; cases e <;> cases h
      | ok t8 =>
        rw [h2] at h
        simp only [ok_bind, pure_eq_ok] at h ⊢
        rw [fnBody_ok]
        injection h with h
        rw [h]


/-! ## `union_sets_unsafe`, `find_partition` -/

theorem unionSets_eq (a b : List Nat) : AlgoGen.AdjacencyMap.unionSets a b = .ok (Ops.unionSets a b) := by
  unfold AlgoGen.AdjacencyMap.unionSets Ops.unionSets
  simp only [mergeTwoSorted_eq, call_ok, ok_bind, pure_eq_ok, fnBody_ok]

theorem findPartition_while0_eq (r : Nat) (lhs rhs : List (Nat × List Nat)) (lo hi : Nat) (h : lo < hi)
    (hr : hi ≤ r) (hl : hi ≤ lhs.length) :
    (AlgoGen.AdjacencyMap.findPartition_while0 r lhs rhs rhs.length (lo, hi) : Blk (Nat × Nat) (Nat × Nat) _) =
      .ok (if r - (lo + hi) / 2 < rhs.length ∧ (lhs[(lo + hi) / 2]?.getD (0, [])).1 > (rhs[r - (lo + hi) / 2]?.getD (0, [])).1
        then (lo, (lo + hi) / 2) else ((lo + hi) / 2 + 1, hi)) := by
  unfold AlgoGen.AdjacencyMap.findPartition_while0
  have hmid : (lo + hi) / 2 < hi := by omega
  have hmr : (lo + hi) / 2 ≤ r := by omega
  have hml : (lo + hi) / 2 < lhs.length := by omega
  simp only [h, if_true, subP_le _ _ hmr, ok_bind]
  by_cases hj : r - (lo + hi) / 2 < rhs.length
  · simp only [hj, if_true, rd_lt _ _ _ hml, rd_lt _ _ _ hj, ok_bind, pure_eq_ok, true_and,
      List.getElem?_eq_getElem hml, List.getElem?_eq_getElem hj, Option.getD_some]
    by_cases hc : lhs[(lo + hi) / 2].1 > rhs[r - (lo + hi) / 2].1
    · simp only [hc, decide_true, if_true]; rfl
    · simp only [hc, decide_false, Bool.false_eq_true, if_false]; rfl
  · simp only [hj, if_false, pure_eq_ok, ok_bind, Bool.false_eq_true, false_and]

theorem findPartition_loop (r : Nat) (lhs rhs : List (Nat × List Nat)) : ∀ (f F lo hi : Nat), hi - lo ≤ f → hi - lo ≤ F →
    hi ≤ r → hi ≤ lhs.length → ∃ hi',
    (whileLoop (AlgoGen.AdjacencyMap.findPartition_while0 r lhs rhs rhs.length) F (lo, hi) : Blk Empty (Nat × Nat) _) =
      .ok (Ops.findPartitionLoop r lhs rhs f lo hi, hi') := by
  intro f
  induction f with
  | zero =>
    intro F lo hi hf _ _ _
    have hnot : ¬ lo < hi := by omega
    refine ⟨hi, ?_⟩
    cases F with
    | zero => simp [whileLoop, Ops.findPartitionLoop]
    | succ F =>
      have : (AlgoGen.AdjacencyMap.findPartition_while0 r lhs rhs rhs.length (lo, hi) : Blk (Nat × Nat) (Nat × Nat) _) = brk (lo, hi) := by
        unfold AlgoGen.AdjacencyMap.findPartition_while0
        simp only [hnot, if_false]
      simp [whileLoop, this, brk, Ops.findPartitionLoop]
  | succ f ih =>
    intro F lo hi hf hF hr hl
    by_cases h : lo < hi
    · obtain ⟨F', rfl⟩ : ∃ F', F = F' + 1 := ⟨F - 1, by omega⟩
      simp only [whileLoop, findPartition_while0_eq r lhs rhs lo hi h hr hl]
      unfold Ops.findPartitionLoop
      simp only [h, if_true]
      by_cases hc : r - (lo + hi) / 2 < rhs.length ∧ (lhs[(lo + hi) / 2]?.getD (0, [])).1 > (rhs[r - (lo + hi) / 2]?.getD (0, [])).1
      · have hc' : (decide (r - (lo + hi) / 2 < rhs.length) && decide ((lhs[(lo + hi) / 2]?.getD (0, [])).1 > (rhs[r - (lo + hi) / 2]?.getD (0, [])).1)) = true := by
          rw [Bool.and_eq_true]
          exact ⟨decide_eq_true hc.1, decide_eq_true hc.2⟩
        simp only [hc, and_self, if_true, hc']
        exact ih F' lo ((lo + hi) / 2) (by omega) (by omega) (by omega) (by omega)
      · have hc' : (decide (r - (lo + hi) / 2 < rhs.length) && decide ((lhs[(lo + hi) / 2]?.getD (0, [])).1 > (rhs[r - (lo + hi) / 2]?.getD (0, [])).1)) = false := by
          by_cases h1 : r - (lo + hi) / 2 < rhs.length
          · have h2 : ¬ (lhs[(lo + hi) / 2]?.getD (0, [])).1 > (rhs[r - (lo + hi) / 2]?.getD (0, [])).1 := fun h2 => hc ⟨h1, h2⟩
            rw [decide_eq_true h1, decide_eq_false h2]
            rfl
          · rw [decide_eq_false h1]
            rfl
        simp only [hc, if_false, hc', Bool.false_eq_true]
        exact ih F' ((lo + hi) / 2 + 1) hi (by omega) (by omega) hr hl
    · refine ⟨hi, ?_⟩
      have hb : (AlgoGen.AdjacencyMap.findPartition_while0 r lhs rhs rhs.length (lo, hi) : Blk (Nat × Nat) (Nat × Nat) _) = brk (lo, hi) := by
        unfold AlgoGen.AdjacencyMap.findPartition_while0
        simp only [h, if_false]
      unfold Ops.findPartitionLoop
      cases F with
      | zero => simp [whileLoop, h]
      | succ F => simp [whileLoop, hb, brk, h]

/-- the generated `find_partition` = the hand-written `Ops.findPartition`, for every `r` and all slices: no subtraction
underflows, no unchecked read is out of bounds -/
theorem findPartition_eq (r : Nat) (lhs rhs : List (Nat × List Nat)) :
    AlgoGen.AdjacencyMap.findPartition r lhs rhs = .ok (Ops.findPartition r lhs rhs) := by
  unfold AlgoGen.AdjacencyMap.findPartition Ops.findPartition
  dsimp only
  have hhi_r : (if r < lhs.length then r else lhs.length) ≤ r := by split <;> omega
  have hhi_l : (if r < lhs.length then r else lhs.length) ≤ lhs.length := by split <;> omega
  obtain ⟨hi', h⟩ := findPartition_loop r lhs rhs ((if r < lhs.length then r else lhs.length) - (r - rhs.length)) lhs.length
    (r - rhs.length) (if r < lhs.length then r else lhs.length) (Nat.le_refl _) (by omega) hhi_r hhi_l
  rw [h]
  simp only [ok_bind]
  have hle : Ops.findPartitionLoop r lhs rhs ((if r < lhs.length then r else lhs.length) - (r - rhs.length)) (r - rhs.length)
      (if r < lhs.length then r else lhs.length) ≤ r := by
    have hgen : ∀ (f lo hi : Nat), lo ≤ r → hi ≤ r → Ops.findPartitionLoop r lhs rhs f lo hi ≤ r := by
      intro f
      induction f with
      | zero => intro lo hi h1 _; simp [Ops.findPartitionLoop]; exact h1
      | succ f ih =>
        intro lo hi h1 h2
        unfold Ops.findPartitionLoop
        by_cases h : lo < hi
        · simp only [h, if_true]
          split
          · exact ih _ _ h1 (by omega)
          · exact ih _ _ (by omega) h2
        · simp only [h, if_false]; exact h1
    exact hgen _ _ _ (by omega) hhi_r
  rw [subP_le _ _ hle]
  rfl

/-! ## the per-thread merge loop of `AdjacencyMap::union` -/

/-- the slice `l[i .. e]` -/
def slice (l : List (Nat × List Nat)) (i e : Nat) : List (Nat × List Nat) := (l.drop i).take (e - i)

theorem slice_cons (l : List (Nat × List Nat)) (i e : Nat) (h : i < e) (he : e ≤ l.length) :
    slice l i e = l[i]'(by omega) :: slice l (i + 1) e := by
  unfold slice
  have hi : i < l.length := by omega
  rw [List.drop_eq_getElem_cons hi]
  have : e - i = (e - (i + 1)) + 1 := by omega
  rw [this, List.take_succ_cons]

theorem slice_nil (l : List (Nat × List Nat)) (i e : Nat) (h : ¬ i < e) : slice l i e = [] := by
  unfold slice
  have : e - i = 0 := by omega
  rw [this, List.take_zero]

theorem mergeEntries_nil_left (r : List (Nat × List Nat)) : Ops.mergeEntries [] r = r := by
  unfold Ops.mergeEntries
  cases r with
  | nil => rfl
  | cons b r => simp [Ops.mergeEntriesFuel]

theorem mergeEntries_nil_right (l : List (Nat × List Nat)) : Ops.mergeEntries l [] = l := by
  unfold Ops.mergeEntries
  cases l with
  | nil => rfl
  | cons a l => simp [Ops.mergeEntriesFuel]

theorem mergeEntries_cons (a b : Nat × List Nat) (l r : List (Nat × List Nat)) :
    Ops.mergeEntries (a :: l) (b :: r) =
      if a.1 < b.1 then a :: Ops.mergeEntries l (b :: r)
      else if b.1 < a.1 then b :: Ops.mergeEntries (a :: l) r
      else (a.1, Ops.unionSets a.2 b.2) :: Ops.mergeEntries l r := by
  have e : (a :: l).length + (b :: r).length = (l.length + r.length + 1) + 1 := by simp; omega
  unfold Ops.mergeEntries
  rw [e, Ops.mergeEntriesFuel]
  rw [Ops.mergeEntriesFuel_adequate _ l (b :: r) (by simp; omega), Ops.mergeEntriesFuel_adequate _ (a :: l) r (by simp; omega),
    Ops.mergeEntriesFuel_adequate _ l r (by omega)]
  rfl

theorem union_while0_eq (lhs rhs : List (Nat × List Nat)) (ie je : Nat) (loc : List (Nat × List Nat)) (i j : Nat)
    (hi : i < ie) (hj : j < je) (hie : ie ≤ lhs.length) (hje : je ≤ rhs.length) :
    (AlgoGen.AdjacencyMap.union_while0 lhs rhs ie je (loc, i, j) : Blk _ AdjMap _) =
      .ok (if (lhs[i]'(by omega)).1 < (rhs[j]'(by omega)).1 then (loc ++ [lhs[i]'(by omega)], i + 1, j)
           else if (lhs[i]'(by omega)).1 > (rhs[j]'(by omega)).1 then (loc ++ [rhs[j]'(by omega)], i, j + 1)
           else (loc ++ [((lhs[i]'(by omega)).1, Ops.unionSets (lhs[i]'(by omega)).2 (rhs[j]'(by omega)).2)], i + 1, j + 1)) := by
  have hil : i < lhs.length := by omega
  have hjl : j < rhs.length := by omega
  unfold AlgoGen.AdjacencyMap.union_while0
  simp only [hi, hj, decide_true, Bool.or_self, Bool.and_self, if_true, rd_lt _ _ _ hil, rd_lt _ _ _ hjl, ok_bind]
  by_cases h1 : lhs[i].1 < rhs[j].1
  · simp only [h1, if_true, ok_bind, pure_eq_ok]
  · simp only [h1, if_false, ok_bind]
    by_cases h2 : lhs[i].1 > rhs[j].1
    · simp only [h2, if_true, ok_bind, pure_eq_ok]
    · simp only [h2, if_false, unionSets_eq, call_ok, ok_bind, pure_eq_ok]

theorem union_while0_left (lhs rhs : List (Nat × List Nat)) (ie je : Nat) (loc : List (Nat × List Nat)) (i j : Nat)
    (hi : i < ie) (hj : ¬ j < je) (hie : ie ≤ lhs.length) :
    (AlgoGen.AdjacencyMap.union_while0 lhs rhs ie je (loc, i, j) : Blk _ AdjMap _) = .ok (loc ++ [lhs[i]'(by omega)], i + 1, j) := by
  have hil : i < lhs.length := by omega
  unfold AlgoGen.AdjacencyMap.union_while0
  simp only [hi, hj, decide_true, decide_false, Bool.or_false, Bool.and_false, Bool.false_eq_true, if_true, if_false,
    rd_lt _ _ _ hil, ok_bind, pure_eq_ok]

theorem union_while0_right (lhs rhs : List (Nat × List Nat)) (ie je : Nat) (loc : List (Nat × List Nat)) (i j : Nat)
    (hi : ¬ i < ie) (hj : j < je) (hje : je ≤ rhs.length) :
    (AlgoGen.AdjacencyMap.union_while0 lhs rhs ie je (loc, i, j) : Blk _ AdjMap _) = .ok (loc ++ [rhs[j]'(by omega)], i, j + 1) := by
  have hjl : j < rhs.length := by omega
  unfold AlgoGen.AdjacencyMap.union_while0
  simp only [hi, hj, decide_true, decide_false, Bool.false_or, Bool.false_and, Bool.false_eq_true, if_true, if_false,
    rd_lt _ _ _ hjl, ok_bind, pure_eq_ok]

theorem union_while0_exit (lhs rhs : List (Nat × List Nat)) (ie je : Nat) (loc : List (Nat × List Nat)) (i j : Nat)
    (hi : ¬ i < ie) (hj : ¬ j < je) :
    (AlgoGen.AdjacencyMap.union_while0 lhs rhs ie je (loc, i, j) : Blk _ AdjMap _) = brk (loc, i, j) := by
  unfold AlgoGen.AdjacencyMap.union_while0
  simp only [hi, hj, decide_false, Bool.or_self, Bool.false_eq_true, if_false]

/-- the per-thread merge loop on `lhs[i .. ie]`, `rhs[j .. je]` = the hand-written `mergeEntries` of the two slices -/
theorem union_merge_loop (lhs rhs : List (Nat × List Nat)) (ie je : Nat) (hie : ie ≤ lhs.length) (hje : je ≤ rhs.length) :
    ∀ (m : Nat) (loc : List (Nat × List Nat)) (i j F : Nat), (ie - i) + (je - j) ≤ m → (ie - i) + (je - j) ≤ F → ∃ i' j',
    (whileLoop (AlgoGen.AdjacencyMap.union_while0 lhs rhs ie je) F (loc, i, j) : Blk (List (List (Nat × List Nat))) AdjMap _) =
      .ok (loc ++ Ops.mergeEntries (slice lhs i ie) (slice rhs j je), i', j') := by
  intro m
  induction m with
  | zero =>
    intro loc i j F hm _
    have hi : ¬ i < ie := by omega
    have hj : ¬ j < je := by omega
    refine ⟨i, j, ?_⟩
    rw [slice_nil _ _ _ hi, slice_nil _ _ _ hj, mergeEntries_nil_left, List.append_nil]
    cases F with
    | zero => simp [whileLoop]
    | succ F => simp [whileLoop, union_while0_exit lhs rhs ie je loc i j hi hj, brk]
  | succ m ih =>
    intro loc i j F hm hF
    by_cases hi : i < ie
    · obtain ⟨F', rfl⟩ : ∃ F', F = F' + 1 := ⟨F - 1, by omega⟩
      by_cases hj : j < je
      · rw [slice_cons lhs i ie hi hie, slice_cons rhs j je hj hje, mergeEntries_cons]
        simp only [whileLoop, union_while0_eq lhs rhs ie je loc i j hi hj hie hje]
        by_cases h1 : (lhs[i]'(by omega)).1 < (rhs[j]'(by omega)).1
        · obtain ⟨i', j', h⟩ := ih (loc ++ [lhs[i]'(by omega)]) (i + 1) j F' (by omega) (by omega)
          refine ⟨i', j', ?_⟩
          rw [slice_cons rhs j je hj hje] at h
          simp only [h1, if_true, h, List.append_assoc, List.singleton_append]
        · by_cases h2 : (lhs[i]'(by omega)).1 > (rhs[j]'(by omega)).1
          · obtain ⟨i', j', h⟩ := ih (loc ++ [rhs[j]'(by omega)]) i (j + 1) F' (by omega) (by omega)
            refine ⟨i', j', ?_⟩
            rw [slice_cons lhs i ie hi hie] at h
            have h2' : (rhs[j]'(by omega)).1 < (lhs[i]'(by omega)).1 := h2
            simp only [h1, h2, h2', if_true, if_false, h, List.append_assoc, List.singleton_append]
          · obtain ⟨i', j', h⟩ := ih (loc ++ [((lhs[i]'(by omega)).1, Ops.unionSets (lhs[i]'(by omega)).2 (rhs[j]'(by omega)).2)])
              (i + 1) (j + 1) F' (by omega) (by omega)
            refine ⟨i', j', ?_⟩
            have h2' : ¬ (rhs[j]'(by omega)).1 < (lhs[i]'(by omega)).1 := h2
            simp only [h1, h2, h2', if_false, h, List.append_assoc, List.singleton_append]
      · obtain ⟨i', j', h⟩ := ih (loc ++ [lhs[i]'(by omega)]) (i + 1) j F' (by omega) (by omega)
        refine ⟨i', j', ?_⟩
        rw [slice_nil rhs j je hj, mergeEntries_nil_right] at h ⊢
        rw [slice_cons lhs i ie hi hie]
        simp only [whileLoop, union_while0_left lhs rhs ie je loc i j hi hj hie, h, List.append_assoc, List.singleton_append]
    · by_cases hj : j < je
      · obtain ⟨F', rfl⟩ : ∃ F', F = F' + 1 := ⟨F - 1, by omega⟩
        obtain ⟨i', j', h⟩ := ih (loc ++ [rhs[j]'(by omega)]) i (j + 1) F' (by omega) (by omega)
        refine ⟨i', j', ?_⟩
        rw [slice_nil lhs i ie hi, mergeEntries_nil_left] at h ⊢
        rw [slice_cons rhs j je hj hje]
        simp only [whileLoop, union_while0_right lhs rhs ie je loc i j hi hj hje, h, List.append_assoc, List.singleton_append]
      · refine ⟨i, j, ?_⟩
        rw [slice_nil _ _ _ hi, slice_nil _ _ _ hj, mergeEntries_nil_left, List.append_nil]
        cases F with
        | zero => simp [whileLoop]
        | succ F => simp [whileLoop, union_while0_exit lhs rhs ie je loc i j hi hj, brk]

/-! ## `AdjacencyMap::union` -/

theorem findPartitionLoop_bounds (r : Nat) (lhs rhs : List (Nat × List Nat)) : ∀ (f lo hi : Nat),
    lo ≤ Ops.findPartitionLoop r lhs rhs f lo hi ∧ Ops.findPartitionLoop r lhs rhs f lo hi ≤ max lo hi := by
  intro f
  induction f with
  | zero => intro lo hi; simp [Ops.findPartitionLoop]; omega
  | succ f ih =>
    intro lo hi
    unfold Ops.findPartitionLoop
    by_cases h : lo < hi
    · simp only [h, if_true]
      split
      · have := ih lo ((lo + hi) / 2); omega
      · have := ih ((lo + hi) / 2 + 1) hi; omega
    · simp only [h, if_false]; omega

theorem findPartition_bounds (r : Nat) (lhs rhs : List (Nat × List Nat)) (hr : r ≤ lhs.length + rhs.length) :
    (Ops.findPartition r lhs rhs).1 ≤ lhs.length ∧ (Ops.findPartition r lhs rhs).2 ≤ rhs.length := by
  unfold Ops.findPartition
  dsimp only
  have hb := findPartitionLoop_bounds r lhs rhs ((if r < lhs.length then r else lhs.length) - (r - rhs.length)) (r - rhs.length)
    (if r < lhs.length then r else lhs.length)
  have hhi : (if r < lhs.length then r else lhs.length) ≤ lhs.length := by split <;> omega
  constructor <;> omega

theorem union_for0_eq (order t : Nat) (ht : 0 < t) (ps : List Nat) (k : Nat) :
    (AlgoGen.AdjacencyMap.union_for0 order t ps k : Blk (List Nat) AdjMap _) = .ok (ps ++ [k * order / t]) := by
  unfold AlgoGen.AdjacencyMap.union_for0 divP
  have : t ≠ 0 := by omega
  simp only [this, if_false, ok_bind, pure_eq_ok]

theorem union_for1_eq (lhs rhs : List (Nat × List Nat)) (bs : List (Nat × Nat)) (r : Nat) :
    (AlgoGen.AdjacencyMap.union_for1 lhs rhs bs r : Blk (List (Nat × Nat)) AdjMap _) = .ok (bs ++ [Ops.findPartition r lhs rhs]) := by
  unfold AlgoGen.AdjacencyMap.union_for1
  simp only [findPartition_eq, call_ok, ok_bind, pure_eq_ok]

/-- worker `k`: the hand-written `workerAM` -/
theorem union_for2_eq (lhs rhs : List (Nat × List Nat)) (t : Nat) (handles : List (List (Nat × List Nat))) (k : Nat) (hk : k < t)
    (ht : 0 < t) :
    (AlgoGen.AdjacencyMap.union_for2 (lhs.length + rhs.length) (Ops.boundaries lhs rhs t) lhs rhs handles k :
        Blk (List (List (Nat × List Nat))) AdjMap _) =
      .ok (handles ++ [Ops.workerAM lhs rhs (Ops.boundaries lhs rhs t) k]) := by
  have hlen : (Ops.boundaries lhs rhs t).length = t + 1 := by simp [Ops.boundaries]
  have hk0 : k < (Ops.boundaries lhs rhs t).length := by omega
  have hk1 : k + 1 < (Ops.boundaries lhs rhs t).length := by omega
  have hbound : ∀ (j : Nat) (hj : j < (Ops.boundaries lhs rhs t).length),
      ((Ops.boundaries lhs rhs t)[j]).1 ≤ lhs.length ∧ ((Ops.boundaries lhs rhs t)[j]).2 ≤ rhs.length := by
    intro j hj
    have hget : (Ops.boundaries lhs rhs t)[j] = Ops.findPartition (j * (lhs.length + rhs.length) / t) lhs rhs := by
      simp [Ops.boundaries]
    rw [hget]
    apply findPartition_bounds
    have hjt : j ≤ t := by omega
    calc j * (lhs.length + rhs.length) / t ≤ t * (lhs.length + rhs.length) / t :=
          Nat.div_le_div_right (Nat.mul_le_mul_right _ hjt)
      _ = lhs.length + rhs.length := Nat.mul_div_cancel_left _ ht
  unfold AlgoGen.AdjacencyMap.union_for2 Ops.workerAM
  simp only [rd_lt _ _ _ hk0, rd_lt _ _ _ hk1, ok_bind, List.getElem?_eq_getElem hk0, List.getElem?_eq_getElem hk1, Option.getD_some]
  have he := hbound (k + 1) hk1
  have hs := hbound k hk0
  obtain ⟨i', j', h⟩ := union_merge_loop lhs rhs ((Ops.boundaries lhs rhs t)[k + 1]).1 ((Ops.boundaries lhs rhs t)[k + 1]).2 he.1 he.2
    (lhs.length + rhs.length) [] ((Ops.boundaries lhs rhs t)[k]).1 ((Ops.boundaries lhs rhs t)[k]).2 (lhs.length + rhs.length)
    (by omega) (by omega)
  rw [h]
  simp only [ok_bind, pure_eq_ok, List.nil_append]
  rfl

theorem union_for3_eq (m : List (Nat × List Nat)) (h : List (Nat × List Nat)) :
    (AlgoGen.AdjacencyMap.union_for3 m h : Blk (List (Nat × List Nat)) AdjMap _) = .ok (m ++ h) := rfl

theorem union_for4_eq (acc : List (Nat × List Nat)) (cur e : Nat × List Nat) :
    (AlgoGen.AdjacencyMap.union_for4 (acc, cur) e : Blk _ AdjMap _) =
      .ok (if e.1 = cur.1 then (acc, (cur.1, Ops.unionSets cur.2 e.2)) else (acc ++ [cur], e)) := by
  unfold AlgoGen.AdjacencyMap.union_for4
  by_cases h : e.1 = cur.1
  · simp only [h, if_true, unionSets_eq, call_ok, ok_bind, pure_eq_ok]
  · simp only [h, if_false, ok_bind, pure_eq_ok]

/-- the duplicate-key fold = the hand-written `foldDupGo` -/
theorem dup_fold {β : Type} : ∀ (es : List (Nat × List Nat)) (acc : List (Nat × List Nat)) (cur : Nat × List Nat), ∃ acc' cur',
    (forLoop AlgoGen.AdjacencyMap.union_for4 es (acc, cur) : Blk β AdjMap _) = .ok (acc', cur') ∧
      acc' ++ [cur'] = acc ++ Ops.foldDupGo cur es := by
  intro es
  induction es with
  | nil => intro acc cur; exact ⟨acc, cur, rfl, rfl⟩
  | cons e es ih =>
    intro acc cur
    rw [forLoop_cons_ok (h := union_for4_eq acc cur e)]
    unfold Ops.foldDupGo
    by_cases h : e.1 = cur.1
    · simp only [h, if_true]
      exact ih acc (cur.1, Ops.unionSets cur.2 e.2)
    · simp only [h, if_false]
      obtain ⟨acc', cur', h1, h2⟩ := ih (acc ++ [cur]) e
      exact ⟨acc', cur', h1, by rw [h2]; simp⟩

theorem map_pair_eta (l : List (Nat × List Nat)) : List.map (fun x : Nat × List Nat => let k := x.1; let v := x.2; (k, v)) l = l := by
  induction l with
  | nil => rfl
  | cons a l ih => rw [List.map_cons, ih]

/-- `AdjacencyMap::union` with `available_parallelism() = ap` = the hand-written `Ops.unionAM a b ap`, for every pair of
maps and every `ap` (0 included: both panic with a division by zero); no subtraction underflows and no unchecked /
pointer read is out of bounds.  (`ptr::read` is read as the copy of the entry: that every entry is moved out exactly once
is the hand-written `unionAM_each_entry_once`, not a statement about this definition.) -/
theorem union_eq (ap : Nat) (a b : AdjMap) : AlgoGen.AdjacencyMap.union ap a b = optR (Ops.unionAM a b ap) := by
  unfold AlgoGen.AdjacencyMap.union Ops.unionAM
  dsimp only
  rw [map_pair_eta, map_pair_eta]
  by_cases h0 : a.rows.length + b.rows.length = 0
  · simp only [h0, if_true]
    rfl
  · simp only [h0, if_false]
    by_cases ht0 : min (a.rows.length + b.rows.length) ap = 0
    · simp only [ht0, if_true, Nat.zero_add]
      have : (forLoop (AlgoGen.AdjacencyMap.union_for0 (a.rows.length + b.rows.length) 0) (List.range 1) [] : Blk Empty AdjMap _) =
          .error (.err (.fault .panic)) := by
        rw [show List.range 1 = [0] from rfl]
        rw [forLoop_cons_err (e := .fault .panic) (h := by unfold AlgoGen.AdjacencyMap.union_for0 divP; simp; rfl)]
      rw [this]
      rfl
    · have ht : 0 < min (a.rows.length + b.rows.length) ap := Nat.pos_of_ne_zero ht0
      simp only [ht0, if_false]
      rw [forLoop_pure (β := Empty) _ (fun ps k => ps ++ [k * (a.rows.length + b.rows.length) / min (a.rows.length + b.rows.length) ap])
        (fun ps k => union_for0_eq _ _ ht ps k)]
      simp only [ok_bind, foldl_snoc_map, List.nil_append]
      rw [forLoop_pure (β := Empty) _ (fun bs r => bs ++ [Ops.findPartition r a.rows b.rows]) (fun bs r => union_for1_eq a.rows b.rows bs r)]
      simp only [ok_bind, foldl_snoc_map, List.nil_append, List.map_map]
      have hbs : (List.map ((fun r => Ops.findPartition r a.rows b.rows) ∘ fun k =>
          k * (a.rows.length + b.rows.length) / min (a.rows.length + b.rows.length) ap)
          (List.range (min (a.rows.length + b.rows.length) ap + 1))) =
          Ops.boundaries a.rows b.rows (min (a.rows.length + b.rows.length) ap) := rfl
      rw [hbs]
      have hworkers := forLoop_pure_inv (β := Empty) (ρ := AdjMap) (fun _ : List (List (Nat × List Nat)) => True)
        (AlgoGen.AdjacencyMap.union_for2 (a.rows.length + b.rows.length)
          (Ops.boundaries a.rows b.rows (min (a.rows.length + b.rows.length) ap)) a.rows b.rows)
        (fun hs k => hs ++ [Ops.workerAM a.rows b.rows (Ops.boundaries a.rows b.rows (min (a.rows.length + b.rows.length) ap)) k])
        (List.range (min (a.rows.length + b.rows.length) ap))
        (fun hs k hk _ => ⟨union_for2_eq a.rows b.rows _ hs k (List.mem_range.1 hk) ht, trivial⟩)
        _ [] (fun _ h => h) trivial
      rw [hworkers.1]
      simp only [ok_bind, foldl_snoc_map, List.nil_append]
      rw [forLoop_pure (β := Empty) _ _ union_for3_eq]
      simp only [ok_bind, foldl_append_flatten, List.nil_append]
      have hmerged : (List.map (Ops.workerAM a.rows b.rows (Ops.boundaries a.rows b.rows (min (a.rows.length + b.rows.length) ap)))
          (List.range (min (a.rows.length + b.rows.length) ap))).flatten =
          Ops.mergedAM a.rows b.rows (min (a.rows.length + b.rows.length) ap) := by
        unfold Ops.mergedAM
        rw [List.flatMap_def]
      rw [hmerged]
      have hsort : sortByKey1 (Ops.mergedAM a.rows b.rows (min (a.rows.length + b.rows.length) ap)) =
          Ops.sortByKey (Ops.mergedAM a.rows b.rows (min (a.rows.length + b.rows.length) ap)) := rfl
      rw [hsort]
      generalize Ops.sortByKey (Ops.mergedAM a.rows b.rows (min (a.rows.length + b.rows.length) ap)) = sorted
      cases sorted with
      | nil => rfl
      | cons c es =>
        have hne : (c :: es).isEmpty = false := rfl
        have hidx : (idx (c :: es) 0 : Blk Empty AdjMap _) = .ok c := idx_lt (c :: es) 0 (by simp)
        simp only [hne, if_true, hidx, ok_bind, List.drop_succ_cons, List.drop_zero]
        obtain ⟨acc', cur', h1, h2⟩ := dup_fold (β := Empty) es [] c
        rw [h1]
        simp only [ok_bind, pure_eq_ok, fnBody_ok, optR]
        rw [h2]
        rfl

end AdjacencyMap
end GraafVerif.AlgoGenThm
