import GraafVerif.Proof.Dfs
/-!
# Coherence of the specification of "depth-first preorder" (C06)

`Spec/Dfs.lean` reads the property with an explicit *search path*.  Here is a second, path-free
reading of the same sentence,

> the parent of the next vertex is the MOST RECENTLY yielded vertex that still has an unyielded
> out-neighbour; a new root (a source) is allowed only when no yielded vertex has one; the depth is
> the parent's depth + 1,

and the proof that both readings annotate every sequence identically (`annotateLatest_eq`).
This is not needed by the property theorems; it guards the trusted reading of the property.
-/
namespace GraafVerif.Dfs
open List

/-- Path-free reading: what may be yielded after the annotated sequence `acc`. -/
def expectLatest (g : Graph) (S : List Nat) (acc : List Ann) (x : Nat) : Option (Option Nat × Nat) :=
  if (acc.map (·.1)).contains x then none
  else match acc.reverse.find? (fun a => hasFresh g (acc.map (·.1)) a.1) with
    | none => if S.contains x then some (none, 0) else none
    | some a => if (g.out a.1).contains x then some (some a.1, a.2.2 + 1) else none

def annotateLatestFrom (g : Graph) (S : List Nat) : List Ann → List Nat → Option (List Ann)
  | _, [] => some []
  | acc, x :: xs =>
    match expectLatest g S acc x with
    | none => none
    | some a => (annotateLatestFrom g S (acc ++ [(x, a)]) xs).map ((x, a) :: ·)

def annotateLatest (g : Graph) (S : List Nat) (xs : List Nat) : Option (List Ann) := annotateLatestFrom g S [] xs

/-- depths along a path stored deepest first: the entry above `k` others has depth `k`. -/
def DepthOK : List Ann → Prop
  | [] => True
  | e :: rest => e.2.2 = rest.length ∧ DepthOK rest

theorem DepthOK.of_suffix {l l' : List Ann} (h : l' <:+ l) (hd : DepthOK l) : DepthOK l' := by
  obtain ⟨t, rfl⟩ := h
  induction t with
  | nil => simpa using hd
  | cons e t ih => exact ih hd.2

theorem find?_sublist {α : Type} (p : α → Bool) {l' l : List α} (hs : l' <+ l) (hnd : l.Nodup)
    (hp : ∀ x ∈ l, p x = true → x ∈ l') : l.find? p = l'.find? p := by
  induction hs with
  | slnil => rfl
  | @cons l₁ l₂ a hs ih =>
    have hnd' := List.nodup_cons.mp hnd
    have hpa : p a = false := by
      cases h : p a
      · rfl
      · exact absurd (hs.subset (hp a (by simp) h)) hnd'.1
    rw [List.find?_cons, hpa]
    exact ih hnd'.2 (fun x hx hpx => hp x (List.mem_cons_of_mem _ hx) hpx)
  | @cons_cons l₁ l₂ a hs ih =>
    have hnd' := List.nodup_cons.mp hnd
    rw [List.find?_cons, List.find?_cons]
    cases h : p a
    · simp only
      refine ih hnd'.2 (fun x hx hpx => ?_)
      rcases List.mem_cons.mp (hp x (List.mem_cons_of_mem _ hx) hpx) with rfl | h'
      · exact absurd hx hnd'.1
      · exact h'
    · rfl

theorem find?_eq_head?_dropWhile {α : Type} (p : α → Bool) (l : List α) :
    l.find? p = (l.dropWhile (fun x => !p x)).head? := by
  induction l with
  | nil => rfl
  | cons a l ih =>
    rw [List.find?_cons, List.dropWhile_cons]
    cases h : p a <;> simp [ih]

theorem dropWhile_map' {α β : Type} (f : α → β) (p : β → Bool) (l : List α) :
    (l.dropWhile (fun a => p (f a))).map f = (l.map f).dropWhile p := by
  induction l with
  | nil => rfl
  | cons a l ih =>
    simp only [List.dropWhile_cons, List.map_cons]
    cases h : p (f a) <;> simp [ih]

theorem eq_of_map_nodup {α β : Type} (f : α → β) (l : List α) (h : (l.map f).Nodup) :
    ∀ a b, a ∈ l → b ∈ l → f a = f b → a = b := by
  induction l with
  | nil => intro a b ha; simp at ha
  | cons x l ih =>
    simp only [List.map_cons, List.nodup_cons] at h
    intro a b ha hb hab
    rcases List.mem_cons.mp ha with h1 | h1 <;> rcases List.mem_cons.mp hb with h2 | h2
    · rw [h1, h2]
    · exact absurd (List.mem_map.mpr ⟨b, h2, by rw [← hab, h1]⟩) h.1
    · exact absurd (List.mem_map.mpr ⟨a, h1, by rw [hab, h2]⟩) h.1
    · exact ih h.2 a b h1 h2 hab

/-- Link between the search state of `Spec/Dfs.lean` and the annotated prefix. -/
structure Coh (g : Graph) (s : Search) (acc : List Ann) (pathE : List Ann) : Prop where
  ys : s.yielded = acc.map (·.1)
  nodup : (acc.map (·.1)).Nodup
  path : s.path = pathE.map (·.1)
  sub : pathE <+ acc.reverse
  depth : DepthOK pathE
  off : ∀ y ∈ s.yielded, y ∉ s.path → hasFresh g s.yielded y = false

theorem expect_eq_latest (g : Graph) (S : List Nat) (s : Search) (acc pathE : List Ann) (h : Coh g s acc pathE)
    (x : Nat) :
    expect g S s x = expectLatest g S acc x ∧
    ∀ a, expect g S s x = some a →
      Coh g (advance g s x) (acc ++ [(x, a)]) ((x, a) :: pathE.dropWhile (fun e => !hasFresh g s.yielded e.1)) := by
  have hact : active g s = (pathE.dropWhile (fun e => !hasFresh g s.yielded e.1)).map (·.1) := by
    unfold active; rw [h.path]; exact (dropWhile_map' (·.1) (fun d => !hasFresh g s.yielded d) pathE).symm
  have haccnd : acc.reverse.Nodup := by
    have hn : acc.Nodup := List.Pairwise.of_map (·.1) (fun a b hab e => hab (by rw [e])) h.nodup
    unfold List.Nodup at hn ⊢
    rw [List.pairwise_reverse]
    exact hn.imp (fun hab e => hab e.symm)
  -- only path vertices can still have an unyielded out-neighbour
  have honpath : ∀ a ∈ acc.reverse, hasFresh g s.yielded a.1 = true → a ∈ pathE := by
    intro a ha hf
    have hay : a.1 ∈ s.yielded := by rw [h.ys]; exact List.mem_map.mpr ⟨a, by simpa using ha, rfl⟩
    have hap : a.1 ∈ s.path := by
      cases hd : decide (a.1 ∈ s.path) with
      | true => simpa using hd
      | false => have := h.off a.1 hay (by simpa using hd); rw [this] at hf; exact absurd hf (by simp)
    rw [h.path] at hap
    obtain ⟨b, hb, hba⟩ := List.mem_map.mp hap
    have hb' : b ∈ acc := by simpa using h.sub.subset hb
    have ha' : a ∈ acc := by simpa using ha
    -- entries with the same vertex are the same entry
    have : b = a := by
      exact eq_of_map_nodup (·.1) acc h.nodup b a hb' ha' hba
    exact this ▸ hb
  have hfind : acc.reverse.find? (fun a => hasFresh g s.yielded a.1) =
      (pathE.dropWhile (fun e => !hasFresh g s.yielded e.1)).head? := by
    rw [find?_sublist (fun a => hasFresh g s.yielded a.1) h.sub haccnd honpath, find?_eq_head?_dropWhile]
  have hsuf : pathE.dropWhile (fun e => !hasFresh g s.yielded e.1) <:+ pathE := List.dropWhile_suffix _
  have hdep := DepthOK.of_suffix hsuf h.depth
  constructor
  · unfold expect expectLatest
    rw [← h.ys, hfind, hact]
    cases hc : s.yielded.contains x
    · simp only [Bool.false_eq_true, if_false]
      cases hA : pathE.dropWhile (fun e => !hasFresh g s.yielded e.1) with
      | nil =>
        simp only [List.map_nil, List.head?_nil]
        have hall : s.yielded.all (fun y => !hasFresh g s.yielded y) = true := by
          rw [List.all_eq_true]; intro y hy
          by_cases hyp : y ∈ s.path
          · rcases mem_dropWhile_or (fun d => !hasFresh g s.yielded d) s.path y hyp with h' | h'
            · have : active g s = [] := by rw [hact, hA]; rfl
              unfold active at this; rw [this] at h'; simp at h'
            · exact h'
          · simp [h.off y hy hyp]
        simp [hall]
      | cons e restE =>
        rw [hA] at hdep
        simp only [List.map_cons, List.head?_cons, List.length_map, hdep.1]
    · simp
  · intro a ha
    have hx : x ∉ s.yielded := by
      intro hmem
      have hc : s.yielded.contains x = true := by simpa using hmem
      unfold expect at ha
      simp at ha
      exact ha.1 hmem
    -- depth of the new entry = length of the active path
    have hadepth : a.2 = (pathE.dropWhile (fun e => !hasFresh g s.yielded e.1)).length := by
      unfold expect at ha
      have hc : s.yielded.contains x = false := by simpa using hx
      simp only [hc, Bool.false_eq_true, if_false, hact] at ha
      cases hA : pathE.dropWhile (fun e => !hasFresh g s.yielded e.1) with
      | nil =>
        simp only [hA, List.map_nil] at ha
        split at ha
        · simp at ha; rw [← ha]; rfl
        · simp at ha
      | cons e restE =>
        simp only [hA, List.map_cons, List.length_map] at ha
        split at ha
        · simp at ha; rw [← ha]; simp
        · simp at ha
    refine ⟨by simp [advance, h.ys], ?_, ?_, ?_, ⟨hadepth, hdep⟩, ?_⟩
    · rw [List.map_append, List.nodup_append]
      refine ⟨h.nodup, by simp, ?_⟩
      intro y hy z hz
      simp only [List.map_cons, List.map_nil, List.mem_singleton] at hz
      subst hz; intro e; subst e; exact hx (h.ys ▸ hy)
    · simp [advance, hact]
    · rw [List.reverse_append]
      exact List.Sublist.cons_cons _ (hsuf.sublist.trans h.sub)
    · intro y hy hnp
      simp only [advance, List.mem_cons, not_or] at hnp
      simp only [advance, List.mem_append, List.mem_singleton] at hy
      have hy' : y ∈ s.yielded := by
        rcases hy with hy | rfl
        · exact hy
        · exact absurd rfl hnp.1
      have hold : hasFresh g s.yielded y = false := by
        by_cases hyp : y ∈ s.path
        · rcases mem_dropWhile_or (fun d => !hasFresh g s.yielded d) s.path y hyp with h' | h'
          · exact absurd h' hnp.2
          · simpa using h'
        · exact h.off y hy' hyp
      exact hasFresh_mono g _ _ y (fun z hz => List.mem_append_left _ hz) hold

theorem annotateLatestFrom_eq (g : Graph) (S : List Nat) :
    ∀ (xs : List Nat) (s : Search) (acc pathE : List Ann), Coh g s acc pathE →
      annotateLatestFrom g S acc xs = annotateFrom g S s xs := by
  intro xs
  induction xs with
  | nil => intro s acc pathE _; rfl
  | cons x xs ih =>
    intro s acc pathE h
    obtain ⟨he, hadv⟩ := expect_eq_latest g S s acc pathE h x
    simp only [annotateLatestFrom, annotateFrom, ← he]
    cases hexp : expect g S s x with
    | none => rfl
    | some a => simp only; rw [ih _ _ _ (hadv a hexp)]

/-- The two readings of "depth-first preorder" agree on every vertex sequence. -/
theorem annotateLatest_eq (g : Graph) (S : List Nat) (xs : List Nat) :
    annotateLatest g S xs = annotate g S xs :=
  annotateLatestFrom_eq g S xs ⟨[], []⟩ [] []
    ⟨rfl, List.nodup_nil, rfl, List.Sublist.slnil, trivial, by simp⟩

end GraafVerif.Dfs
