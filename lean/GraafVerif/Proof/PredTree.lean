import GraafVerif.Model.PredTree
/-! Helper lemmas for C19 (`PredecessorTree::search_by`). -/
namespace GraafVerif.PredTree

theorem chain_succ_of_link {pred : Pred} {s v' : Nat} (h : (pred[s]?).getD none = some v') (k : Nat) :
    chain pred s (k+1) = chain pred v' k := by
  induction k with
  | zero => simp [chain, h]
  | succ k ih => rw [chain, ih]; rfl

theorem chain_add {pred : Pred} {s x : Nat} {i : Nat} (h : chain pred s i = some x) (m : Nat) :
    chain pred s (i + m) = chain pred x m := by
  induction m with
  | zero => simpa [chain] using h
  | succ m ih => rw [← Nat.add_assoc, chain, ih]; rfl

/-- Soundness of the loop: a returned path is `path` extended by the chain from `s`
up to the first target. -/
theorem loop_sound (pred : Pred) (isT) :
    ∀ (fuel s : Nat) (vis : List Bool) (path p : List Nat),
      vis.length = pred.length →
      loop pred isT fuel s vis path = some p →
      ∃ k, p = path ++ (List.range k).map (fun j => (chain pred s (j+1)).getD 0)
        ∧ (∃ x, chain pred s k = some x ∧ target pred isT x = true)
        ∧ ∀ j, j < k → ∀ y, chain pred s j = some y → target pred isT y = false := by
  intro fuel
  induction fuel with
  | zero => intro s vis path p _ h; simp [loop] at h
  | succ fuel ih =>
    intro s vis path p hlen h
    unfold loop at h
    split at h
    · simp at h
    · rename_i v hv
      have hs : s < pred.length := by
        rcases List.getElem?_eq_some_iff.mp hv with ⟨hlt, _⟩; exact hlt
      have hgetD : (pred[s]?).getD none = v := by
        simp [hv]
      by_cases ht : isT s v = true
      · simp [ht] at h
        refine ⟨0, ?_, ⟨s, rfl, ?_⟩, ?_⟩
        · simp [h]
        · rw [target, hgetD]; exact ht
        · intro j hj; omega
      · simp [ht] at h
        cases v with
        | none => simp at h
        | some v' =>
          simp only at h
          have htgt_s : target pred isT s = false := by
            rw [target, hgetD]; simpa using ht
          split at h
          · simp at h
          · simp at h
          · rename_i hvis
            have hv'len : v' < vis.length := by
              rcases List.getElem?_eq_some_iff.mp hvis with ⟨hlt, _⟩; exact hlt
            by_cases hvs : v' = s
            · -- self-loop: the recursive call returns none
              subst hvs
              exfalso
              cases fuel with
              | zero => simp [loop] at h
              | succ f =>
                unfold loop at h
                simp [hv, ht] at h
                have : (vis.set v' true)[v']? = some true := by
                  simp [hv'len]
                simp [this] at h
            · simp [hvs] at h
              obtain ⟨k, hp, ⟨x, hx, hxt⟩, hmin⟩ := ih v' (vis.set v' true) (path ++ [v']) p (by simpa using hlen) h
              refine ⟨k+1, ?_, ⟨x, ?_, hxt⟩, ?_⟩
              · rw [hp, List.range_succ_eq_map]
                have h1 : (chain pred s 1).getD 0 = v' := by simp [chain, hgetD]
                have h2 : ∀ a, chain pred s (a + 1 + 1) = chain pred v' (a + 1) := fun a =>
                  chain_succ_of_link hgetD (a+1)
                simp [h1, h2, List.map_map, Function.comp_def]
              · rw [chain_succ_of_link hgetD]; exact hx
              · intro j hj y hy
                cases j with
                | zero => simp [chain] at hy; subst hy; exact htgt_s
                | succ j =>
                  rw [chain_succ_of_link hgetD] at hy
                  exact hmin j (by omega) y hy

end GraafVerif.PredTree
