import GraafVerif.Proof.JohnsonTarjan2
import GraafVerif.Proof.JohnsonTop2
/-!
# `TarjanCovers`: the emitted component of `s` contains everything on a circuit through `s`

From `GI` of the final Tarjan state: the components emitted up to and including the one that
contains `s` are closed under arcs (so they contain everything reachable from `s`), the ones
emitted strictly before are closed as well and do not contain `s` (so they contain nothing that
reaches `s`).
-/
set_option linter.unusedVariables false
namespace GraafVerif.Johnson
open GraafVerif

theorem GI.init (a : AM) : GI a TState.init := by
  refine ⟨by simp [TState.init], by simp [TState.init], by simp [TState.init], ?_, by simp [TState.init],
    ?_, by simp [TState.init], ?_, by simp [TState.init], ?_, ?_⟩
  · intro x k h; simp [TState.init] at h
  · intro x h; simp [TState.indexed, TState.init] at h
  · rintro x ⟨c, hc, _⟩; simp [TState.init] at hc
  · intro pre post h q hq
    have : pre = [] := by
      have := congrArg List.length h
      simp [TState.init] at this
      exact List.eq_nil_of_length_eq_zero (by omega)
    subst this
    obtain ⟨c, hc, _⟩ := hq
    simp at hc
  · intro pre c post h
    have := congrArg List.length h
    simp [TState.init] at this

theorem unidx_le_order (a : AM) (st : TState) : unidx a st ≤ a.order :=
  List.length_filter_le _ _

theorem tarjan_GI (a : AM) (hcl : ∀ u ∈ a.verts, ∀ v ∈ a.out u, v ∈ a.verts) :
    GI a (tarjanFuel a (a.order + 1)) := by
  unfold tarjanFuel
  have key : ∀ (vs : List Nat) (st : TState), (∀ v ∈ vs, v ∈ a.verts) → GI a st →
      GI a (vs.foldl (fun st u => if (st.index.lookup u).isSome then st else connect a (a.order + 1) st u) st) := by
    intro vs
    induction vs with
    | nil => intro st _ h; exact h
    | cons v vs ih =>
      intro st hvs h
      simp only [List.foldl_cons]
      apply ih _ (fun x hx => hvs x (by simp [hx]))
      split
      · exact h
      · rename_i hn
        have hnone : st.index.lookup v = none := by
          cases hl : st.index.lookup v with
          | none => rfl
          | some k => rw [hl] at hn; simp at hn
        exact (connect_post a hcl (a.order + 1) st v h hnone (hvs v (by simp))
          (by have := unidx_le_order a st; omega)).gi
  exact key a.verts TState.init (fun _ h => h) (GI.init a)

theorem reach_head {g : Graph} {u v w : Nat} (h1 : g.A u v) (h2 : Reach g v w) : Reach g u w := by
  induction h2 with
  | refl => exact Reach.step (Reach.refl u) h1
  | step _ ha ih => exact Reach.step ih ha

theorem closed_reach {g : Graph} {P : Nat → Prop} (hcl : ∀ q, P q → ∀ y ∈ g.out q, P y) {u x : Nat}
    (hu : P u) (h : Reach g u x) : P x := by
  induction h with
  | refl => exact hu
  | step _ ha ih => exact hcl _ ih _ ha

/-- In the final Tarjan state, a component containing `s` contains every vertex that is
reachable from `s` and reaches `s`. -/
theorem comp_contains_scc (a : AM) (st : TState) (h : GI a st) (c : List Nat) (hc : c ∈ st.comps)
    (s : Nat) (hs : s ∈ c) (x : Nat) (h1 : Reach a.gr s x) (h2 : Reach a.gr x s) : x ∈ c := by
  obtain ⟨pre, post, hpp⟩ := List.append_of_mem hc
  have hcl1 := h.clp (pre ++ [c]) post (by rw [hpp]; simp)
  have hcl2 := h.clp pre (c :: post) hpp
  have hx1 : PoppedIn (pre ++ [c]) x :=
    closed_reach (g := a.gr) (P := PoppedIn (pre ++ [c])) hcl1 ⟨c, by simp, hs⟩ h1
  obtain ⟨c', hc', hxc'⟩ := hx1
  rcases List.mem_append.1 hc' with hc' | hc'
  · exfalso
    have : PoppedIn pre s := closed_reach (g := a.gr) (P := PoppedIn pre) hcl2 ⟨c', hc', hxc'⟩ h2
    exact h.disj pre c post hpp s hs this
  · simp at hc'; subst hc'; exact hxc'

theorem walk_reach_prefix (g : Graph) : ∀ (ext : List Nat) (v : Nat), IsWalk g (v :: ext) →
    ∀ x ∈ v :: ext, Reach g v x
  | [], v, _, x, hx => by simp at hx; subst hx; exact Reach.refl _
  | w :: ext, v, hw, x, hx => by
    rcases List.mem_cons.1 hx with rfl | hx
    · exact Reach.refl _
    · exact reach_head hw.1 (walk_reach_prefix g ext w hw.2 x hx)

theorem walk_reach_suffix (g : Graph) (s : Nat) : ∀ (ext : List Nat) (v : Nat), IsWalk g (v :: ext) →
    g.A ((v :: ext).getLast (List.cons_ne_nil _ _)) s → ∀ x ∈ v :: ext, Reach g x s
  | [], v, _, hc, x, hx => by
    simp at hx; subst hx
    exact Reach.step (Reach.refl _) (by simpa using hc)
  | w :: ext, v, hw, hc, x, hx => by
    have ih := walk_reach_suffix g s ext w hw.2 (by simpa [List.getLast_cons_cons] using hc)
    rcases List.mem_cons.1 hx with rfl | hx
    · exact reach_head hw.1 (ih w (by simp))
    · exact ih x hx

theorem tarjanCovers (g : Graph) (hwf : g.WF) : TarjanCovers g := by
  intro s hs c hc hsc circ hcirc hhead x hx
  obtain ⟨s', rest, rfl, hne, hnd, hwalk, hclose, hgt⟩ := hcirc
  simp at hhead
  subst hhead
  have hall : ∀ y ∈ s' :: rest, (fun u => decide (s' ≤ u)) y = true := by
    intro y hy
    rcases List.mem_cons.1 hy with rfl | hy
    · simp
    · have := hgt y hy; simp; omega
  have hcl : ∀ u ∈ ((AM.ofGraph g).filter (fun u => decide (s' ≤ u))).verts,
      ∀ v ∈ ((AM.ofGraph g).filter (fun u => decide (s' ≤ u))).out u,
        v ∈ ((AM.ofGraph g).filter (fun u => decide (s' ≤ u))).verts := by
    intro u _ v hv
    simp only [AM.filter, AM.ofGraph] at hv ⊢
    split at hv
    · simp [List.mem_filter] at hv
      simp [List.mem_filter, hv.2]
      exact (hwf u v hv.1).2
    · simp at hv
  have hgi := tarjan_GI _ hcl
  have hw' := isWalk_filter g (fun u => decide (s' ≤ u)) (s' :: rest) hwalk hall
  have hclose' : ((AM.ofGraph g).filter (fun u => decide (s' ≤ u))).gr.A
      ((s' :: rest).getLast (List.cons_ne_nil _ _)) s' := by
    have hl := hall _ (List.getLast_mem (List.cons_ne_nil s' rest))
    have hA : s' ∈ g.out ((s' :: rest).getLast (List.cons_ne_nil _ _)) := hclose
    show s' ∈ ((AM.ofGraph g).filter (fun u => decide (s' ≤ u))).out _
    simp only [AM.filter, AM.ofGraph]
    rw [if_pos hl]
    simp [List.mem_filter, hA]
  exact comp_contains_scc _ _ hgi c hc s' hsc x
    (walk_reach_prefix _ rest s' hw' x hx)
    (walk_reach_suffix _ s' rest s' hw' hclose' x hx)

end GraafVerif.Johnson
