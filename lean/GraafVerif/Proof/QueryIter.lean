import GraafVerif.Model.QueryIter
import GraafVerif.Proof.Query
/-!
# C02 — the consumption protocol is `take k` / `drop k` followed by the list consumer

and, along `CoreCorrect`, the record of every iterator-returning query is the record of its DEFINED
sequence: the oracle of `q_iter` is proved, not sampled.
-/
namespace GraafVerif.Query.Iter

theorem advance_eq {α : Type} : ∀ (k : Nat) (l : List α), advance k l = (l.take k, l.drop k)
  | 0, l => by simp [advance]
  | k + 1, [] => by simp [advance, next]
  | k + 1, a :: rest => by simp [advance, next, advance_eq k rest]

theorem fold_eq_foldl {α β : Type} (f : β → α → β) : ∀ (acc : β) (l : List α), fold f acc l = l.foldl f acc
  | _, [] => by simp [fold]
  | acc, a :: rest => by simp [fold, fold_eq_foldl f (f acc a) rest]

theorem count_eq {α : Type} (l : List α) : count l = l.length := by
  unfold count
  rw [fold_eq_foldl]
  have : ∀ (n : Nat) (l : List α), l.foldl (fun n _ => n + 1) n = n + l.length := by
    intro n l
    induction l generalizing n with
    | nil => simp
    | cons a l ih => simp [ih]; omega
  simpa using this 0 l

theorem last_eq {α : Type} (l : List α) : last l = l.getLast? := by
  unfold last
  rw [fold_eq_foldl]
  have : ∀ (o : Option α) (l : List α), l.foldl (fun _ a => some a) o = (l.getLast?).or o := by
    intro o l
    induction l generalizing o with
    | nil => simp
    | cons a l ih =>
      rw [List.foldl_cons, ih, List.getLast?_cons]
      cases l.getLast? <;> simp
  rw [this]; simp

theorem forEachCollect_eq {α : Type} (l : List α) : forEachCollect l = l := by
  unfold forEachCollect
  rw [fold_eq_foldl]
  have : ∀ (acc l : List α), l.foldl (fun acc a => a :: acc) acc = l.reverse ++ acc := by
    intro acc l
    induction l generalizing acc with
    | nil => simp
    | cons a l ih => simp [ih]
  rw [this]; simp

theorem sum_eq {α : Type} (val : α → Nat) (l : List α) : sum val l = (l.map val).sum := by
  unfold sum
  rw [fold_eq_foldl]
  have : ∀ (s : Nat) (l : List α), l.foldl (fun s a => s + val a) s = s + (l.map val).sum := by
    intro s l
    induction l generalizing s with
    | nil => simp
    | cons a l ih => simp [ih]; omega
  simpa using this 0 l

/-- **The protocol theorem**: `k` × `next()` yields `take k`; every fold-based consumer then sees
exactly `drop k` — count = its length, last = its last element, for_each visits it in order,
the fold-sum adds it up, `skip(k).count()` counts it. -/
theorem observe_eq {α : Type} (val : α → Nat) (l : List α) (k : Nat) :
    observe val l k =
      { taken := l.take k, count := (l.drop k).length, last := (l.drop k).getLast?, rest := l.drop k,
        sum := ((l.drop k).map val).sum, skipCount := (l.drop k).length } := by
  simp only [observe, advance_eq, count_eq, last_eq, forEachCollect_eq, sum_eq]

end GraafVerif.Query.Iter

namespace GraafVerif.Query
open GraafVerif.Query.Iter

/-- Along `CoreCorrect` (+ `SeqCorrect` / `DerivedCorrect`) the record of every iterator-returning
query is the record of the sequence DEFINED from `(V, A)`. -/
theorem observe_inNeighbors {q : Core} {G : Digraph} (h : CoreCorrect q G) (v k : Nat) :
    observe id (q.inNeighbors v) k = observe id (Spec.inNeighbors G v) k := by rw [h.inNeighbors]
theorem observe_outNeighbors {q : Core} {G : Digraph} (h : CoreCorrect q G) {u : Nat} (hu : u ∈ G.verts) (k : Nat) :
    (q.outNeighbors u).map (fun l => observe id l k) = some (observe id (Spec.outNeighbors G u) k) := by
  rw [h.outNeighbors u hu]; rfl
theorem observe_vertices {q : Core} {G : Digraph} (h : CoreCorrect q G) (k : Nat) :
    observe id q.vertices k = observe id G.verts k := by rw [h.vertices]
theorem observe_sources {q : Core} {G : Digraph} (h : CoreCorrect q G) (k : Nat) :
    observe id q.sources k = observe id (Spec.sources G) k := by rw [(derived_correct h).sources]
theorem observe_sinks {q : Core} {G : Digraph} (h : CoreCorrect q G) (k : Nat) :
    q.sinks.map (fun l => observe id l k) = some (observe id (Spec.sinks G) k) := by
  rw [(derived_correct h).sinks]; rfl
theorem observe_outdegreeSequence {q : Core} {G : Digraph} (h : CoreCorrect q G) (k : Nat) :
    q.outdegreeSequence.map (fun l => observe id l k) = some (observe id (Spec.outdegreeSequence G) k) := by
  rw [(derived_correct h).outdegreeSequence]; rfl
theorem observe_semidegreeSequence {q : Core} {G : Digraph} (h : CoreCorrect q G) (val : Nat × Nat → Nat) (k : Nat) :
    q.semidegreeSequence.map (fun l => observe val l k) = some (observe val (Spec.semidegreeSequence G) k) := by
  rw [(derived_correct h).semidegreeSequence]; rfl
theorem observe_indegreeSequence {q : Core} {G : Digraph} (h : SeqCorrect q G) (k : Nat) :
    q.indegreeSequence.map (fun l => observe id l k) = some (observe id (Spec.indegreeSequence G) k) := by
  rw [h.indegreeSequence]; rfl
theorem observe_degreeSequence {q : Core} {G : Digraph} (h : SeqCorrect q G) (t : Nat) (ht : 0 < t) (k : Nat) :
    (q.degreeSequence t).map (fun l => observe id l k) = some (observe id (Spec.degreeSequence G) k) := by
  rw [h.degreeSequence t ht]; rfl

end GraafVerif.Query
