import GraafVerif.Proof.PredTree
/-!
Completeness, fuel adequacy (termination) and path-shape lemmas for C19.

* `loop_fuel_indep`   the loop result is the same for all fuels above (#unvisited + 1):
                      every iteration that continues marks a fresh vertex.
* `chain_distinct_before_first`  the chain positions up to the first target are pairwise
                      distinct (the predicate is a function of the vertex, so a repeat before
                      the first target would put a target even earlier).
* `loop_complete`     the loop reaches a target that lies `d` links ahead.
-/
namespace GraafVerif.PredTree

/-! ## fuel -/

theorem count_false_set {vis : List Bool} {i : Nat} (h : vis[i]? = some false) :
    (vis.set i true).count false + 1 = vis.count false := by
  induction vis generalizing i with
  | nil => simp at h
  | cons b bs ih =>
    cases i with
    | zero =>
      simp at h
      subst h
      simp
    | succ i =>
      simp at h
      have := ih h
      simp only [List.set_cons_succ, List.count_cons]
      omega

theorem loop_fuel_indep (pred : Pred) (isT) :
    ∀ (f g s : Nat) (vis : List Bool) (path : List Nat),
      vis.count false + 1 ≤ f → vis.count false + 1 ≤ g →
      loop pred isT f s vis path = loop pred isT g s vis path := by
  intro f
  induction f with
  | zero => intro g s vis path hf; omega
  | succ f ih =>
    intro g s vis path hf hg
    cases g with
    | zero => omega
    | succ g =>
      unfold loop
      cases hps : pred[s]? with
      | none => rfl
      | some v =>
        simp only
        by_cases ht : isT s v = true
        · simp [ht]
        · simp only [ht]
          cases v with
          | none => rfl
          | some v' =>
            simp only
            cases hvis : vis[v']? with
            | none => rfl
            | some b =>
              cases b with
              | true => rfl
              | false =>
                simp only
                have hc := count_false_set hvis
                exact ih g v' _ _ (by omega) (by omega)

/-! ## the chain -/

theorem chain_none_add {pred : Pred} {s k : Nat} (h : chain pred s k = none) (m : Nat) :
    chain pred s (k + m) = none := by
  induction m with
  | zero => simpa using h
  | succ m ih => rw [← Nat.add_assoc, chain, ih]

theorem chain_some_of_le {pred : Pred} {s k x : Nat} (h : chain pred s k = some x) {j : Nat} (hj : j ≤ k) :
    ∃ y, chain pred s j = some y := by
  cases hc : chain pred s j with
  | some y => exact ⟨y, rfl⟩
  | none =>
    have := chain_none_add hc (k - j)
    rw [show j + (k - j) = k by omega, h] at this
    cases this

def InRange (pred : Pred) : Prop := ∀ x ∈ pred, ∀ v, x = some v → v < pred.length

theorem link_lt {pred : Pred} (hr : InRange pred) {y v : Nat} (h : (pred[y]?).getD none = some v) :
    v < pred.length := by
  cases hp : pred[y]? with
  | none => simp [hp] at h
  | some e =>
    simp [hp] at h
    exact hr e (List.mem_of_getElem? hp) v h

theorem chain_lt {pred : Pred} (hr : InRange pred) {s : Nat} (hs : s < pred.length) :
    ∀ k x, chain pred s k = some x → x < pred.length := by
  intro k
  induction k with
  | zero => intro x h; simp [chain] at h; omega
  | succ k ih =>
    intro x h
    rw [chain] at h
    cases hc : chain pred s k with
    | none => simp [hc] at h
    | some y =>
      simp only [hc] at h
      exact link_lt hr h

/-- Positions up to the first target carry pairwise distinct vertices. -/
theorem chain_distinct_before_first {pred : Pred} {isT} {s k x : Nat}
    (hx : chain pred s k = some x) (_ht : target pred isT x = true)
    (hmin : ∀ j, j < k → ∀ y, chain pred s j = some y → target pred isT y = false) :
    ∀ i j, i < j → j ≤ k → chain pred s i ≠ chain pred s j := by
  intro i j hij hjk heq
  obtain ⟨a, ha⟩ := chain_some_of_le hx hjk
  have hi : chain pred s i = some a := by rw [heq, ha]
  have h1 := chain_add hi (k - j)
  have h2 := chain_add ha (k - j)
  rw [show j + (k - j) = k by omega] at h2
  have h3 : chain pred s (i + (k - j)) = some x := by rw [h1, ← h2, hx]
  have := hmin (i + (k - j)) (by omega) x h3
  rw [_ht] at this
  cases this

/-- Least witness below a given one. -/
theorem exists_least (P : Nat → Prop) : ∀ k, P k → ∃ k₀, k₀ ≤ k ∧ P k₀ ∧ ∀ j, j < k₀ → ¬ P j := by
  intro k
  induction k using Nat.strongRecOn with
  | _ k ih =>
    intro hk
    by_cases h : ∃ j, j < k ∧ P j
    · obtain ⟨j, hj, hpj⟩ := h
      obtain ⟨k₀, hle, hp, hmin⟩ := ih j hj hpj
      exact ⟨k₀, by omega, hp, hmin⟩
    · exact ⟨k, Nat.le_refl k, hk, fun j hj hpj => h ⟨j, hj, hpj⟩⟩

/-! ## completeness of the loop -/

theorem loop_complete (pred : Pred) (isT) (hr : InRange pred) :
    ∀ (d s : Nat) (vis : List Bool) (path : List Nat) (fuel : Nat) (x : Nat),
      chain pred s d = some x → target pred isT x = true →
      (∀ j, j < d → ∀ y, chain pred s j = some y → target pred isT y = false) →
      vis.length = pred.length → s < pred.length →
      (∀ j, 1 ≤ j → j ≤ d → ∀ y, chain pred s j = some y → vis[y]? = some false) →
      d + 1 ≤ fuel →
      ∃ p, loop pred isT fuel s vis path = some p := by
  intro d
  induction d with
  | zero =>
    intro s vis path fuel x hx ht _ _ hs _ hf
    simp [chain] at hx
    subst hx
    cases fuel with
    | zero => omega
    | succ f =>
      unfold loop
      have hps : pred[s]? = some pred[s] := List.getElem?_eq_getElem hs
      have : isT s pred[s] = true := by
        simpa [target, hps] using ht
      simp [hps, this]
  | succ d ih =>
    intro s vis path fuel x hx ht hmin hlen hs hvis hf
    cases fuel with
    | zero => omega
    | succ f =>
      have hps : pred[s]? = some pred[s] := List.getElem?_eq_getElem hs
      have hts : isT s pred[s] = false := by
        have := hmin 0 (by omega) s rfl
        simpa [target, hps] using this
      -- the link out of `s`
      obtain ⟨v', hv'⟩ := chain_some_of_le hx (show 1 ≤ d + 1 by omega)
      have hlink : (pred[s]?).getD none = some v' := by
        simpa [chain] using hv'
      have hpsv : pred[s] = some v' := by simpa [hps] using hlink
      have hv'lt : v' < pred.length := link_lt hr hlink
      have hvv : vis[v']? = some false := hvis 1 (by omega) (by omega) v' hv'
      have hdist := chain_distinct_before_first hx ht hmin
      unfold loop
      simp only [hps, hpsv ▸ hts, hpsv, hvv]
      simp only [Bool.false_eq_true, if_false]
      apply ih v' (vis.set v' true) _ f x
      · rw [← chain_succ_of_link hlink]; exact hx
      · exact ht
      · intro j hj y hy
        rw [← chain_succ_of_link hlink] at hy
        exact hmin (j + 1) (by omega) y hy
      · simpa using hlen
      · exact hv'lt
      · intro j hj1 hjd y hy
        rw [← chain_succ_of_link hlink] at hy
        have hne : y ≠ v' := by
          intro h
          subst h
          exact hdist 1 (j + 1) (by omega) (by omega) (by rw [hv', hy])
        have := hvis (j + 1) (by omega) (by omega) y hy
        rw [List.getElem?_set_ne (by omega)]
        exact this
      · omega


/-! ## `search_by` -/

/-- Termination: `len + 2` iterations are enough; more fuel never changes the result.
(No hypothesis on the entries: each continuing iteration marks a fresh slot of `visited`.) -/
theorem searchByFuel_adequate (pred : Pred) (s : Nat) (isT) (fuel : Nat) (hf : pred.length + 2 ≤ fuel) :
    searchByFuel pred s isT fuel = searchBy pred s isT := by
  unfold searchBy searchByFuel
  cases pred[s]? with
  | none => rfl
  | some ps =>
    simp only
    by_cases ht : isT s ps = true
    · simp [ht]
    · simp only [ht]
      have hc : (List.replicate pred.length false).count false = pred.length := by simp
      rw [loop_fuel_indep pred isT fuel (pred.length + 2) s _ [s] (by omega) (by omega)]

theorem searchBy_complete (pred : Pred) (s : Nat) (isT) (hr : InRange pred) (hs : s < pred.length)
    (k x : Nat) (hx : chain pred s k = some x) (ht : target pred isT x = true) :
    ∃ p, searchBy pred s isT = .ret (some p) := by
  obtain ⟨k₀, _, ⟨x₀, hx₀, ht₀⟩, hmin'⟩ :=
    exists_least (fun k => ∃ x, chain pred s k = some x ∧ target pred isT x = true) k ⟨x, hx, ht⟩
  have hmin : ∀ j, j < k₀ → ∀ y, chain pred s j = some y → target pred isT y = false := by
    intro j hj y hy
    cases h : target pred isT y with
    | false => rfl
    | true => exact absurd ⟨y, hy, h⟩ (hmin' j hj)
  have hps : pred[s]? = some pred[s] := List.getElem?_eq_getElem hs
  unfold searchBy searchByFuel
  simp only [hps]
  by_cases hts : isT s pred[s] = true
  · simp [hts]
  · simp only [hts]
    have hc : (List.replicate pred.length false).count false = pred.length := by simp
    rw [loop_fuel_indep pred isT (pred.length + 2) (max (pred.length + 2) (k₀ + 1)) s _ [s]
      (by omega) (by omega)]
    obtain ⟨p, hp⟩ := loop_complete pred isT hr k₀ s (List.replicate pred.length false) [s]
      (max (pred.length + 2) (k₀ + 1)) x₀ hx₀ ht₀ hmin (by simp) hs
      (by
        intro j _ _ y hy
        have := chain_lt hr hs j y hy
        simp [this])
      (by omega)
    exact ⟨p, by simp [hp]⟩

/-! ## shape of a returned path -/

/-- The list of the first `k+1` chain vertices. -/
def chainPath (pred : Pred) (s k : Nat) : List Nat :=
  (List.range (k+1)).map (fun j => (chain pred s j).getD 0)

theorem chainPath_getElem? {pred : Pred} {s k x : Nat} (hx : chain pred s k = some x) (i : Nat) :
    (chainPath pred s k)[i]? = if i ≤ k then chain pred s i else none := by
  unfold chainPath
  by_cases hi : i ≤ k
  · obtain ⟨y, hy⟩ := chain_some_of_le hx hi
    have : i < k + 1 := by omega
    simp only [hi, if_true, List.getElem?_map, List.getElem?_range this, Option.map_some, hy, Option.getD_some]
  · have : ¬ i < k + 1 := by omega
    simp [hi, this]

theorem chainPath_length (pred : Pred) (s k : Nat) : (chainPath pred s k).length = k + 1 := by
  simp [chainPath]

theorem chainPath_head {pred : Pred} {s k x : Nat} (hx : chain pred s k = some x) :
    (chainPath pred s k).head? = some s := by
  rw [List.head?_eq_getElem?, chainPath_getElem? hx]
  simp [chain]

theorem chainPath_last {pred : Pred} {s k x : Nat} (hx : chain pred s k = some x) :
    (chainPath pred s k).getLast? = some x := by
  rw [List.getLast?_eq_getElem?, chainPath_length, chainPath_getElem? hx]
  simp [hx]

/-- Each element is the predecessor of the one before it. -/
theorem chainPath_links {pred : Pred} {s k x : Nat} (hx : chain pred s k = some x)
    (i a b : Nat) (ha : (chainPath pred s k)[i]? = some a) (hb : (chainPath pred s k)[i+1]? = some b) :
    pred[a]? = some (some b) := by
  rw [chainPath_getElem? hx] at ha hb
  by_cases hi : i + 1 ≤ k
  · have hi' : i ≤ k := by omega
    simp only [hi, hi', if_true] at ha hb
    rw [chain, ha] at hb
    simp only at hb
    cases hp : pred[a]? with
    | none => simp [hp] at hb
    | some e => simp [hp] at hb; rw [hb]
  · simp [hi] at hb

theorem chainPath_nodup {pred : Pred} {s k x : Nat} (hx : chain pred s k = some x)
    (hdist : ∀ i j, i < j → j ≤ k → chain pred s i ≠ chain pred s j) :
    (chainPath pred s k).Nodup := by
  rw [List.Nodup, List.pairwise_iff_getElem]
  intro i j hi hj hij heq
  rw [chainPath_length] at hi hj
  have h1 := chainPath_getElem? hx i
  have h2 := chainPath_getElem? hx j
  rw [List.getElem?_eq_getElem (by rw [chainPath_length]; exact hi)] at h1
  rw [List.getElem?_eq_getElem (by rw [chainPath_length]; exact hj)] at h2
  simp only [show i ≤ k by omega, show j ≤ k by omega, if_true] at h1 h2
  exact hdist i j hij (by omega) (by rw [← h1, ← h2, heq])

theorem chainPath_before_last {pred : Pred} {isT} {s k x : Nat} (hx : chain pred s k = some x)
    (hmin : ∀ j, j < k → ∀ y, chain pred s j = some y → target pred isT y = false)
    (i y : Nat) (hi : i + 1 < (chainPath pred s k).length) (hy : (chainPath pred s k)[i]? = some y) :
    target pred isT y = false := by
  rw [chainPath_length] at hi
  rw [chainPath_getElem? hx] at hy
  simp only [show i ≤ k by omega, if_true] at hy
  exact hmin i (by omega) y hy

end GraafVerif.PredTree
