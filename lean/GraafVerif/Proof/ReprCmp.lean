import GraafVerif.Proof.ReprRun
/-!
# The derived `Ord` of the representation models is consistent with structural equality (C20)

`cmp a b = Equal ↔ a = b` for all five models (in particular equal digraphs compare `Equal`),
and a history whose abstract effect is the identity restores the identical structure.
-/
namespace GraafVerif.Repr
open GraafVerif.ReprSpec

/-- A comparison that says `Equal` exactly on equal arguments. -/
def EqIff {α : Type} (c : α → α → Ordering) : Prop := ∀ a b, c a b = .eq ↔ a = b

theorem cmpList_eqIff {α : Type} {c : α → α → Ordering} (h : EqIff c) : EqIff (cmpList c) := by
  intro l₁
  induction l₁ with
  | nil => intro l₂; cases l₂ <;> simp [cmpList]
  | cons a as ih =>
    intro l₂
    cases l₂ with
    | nil => simp [cmpList]
    | cons b bs =>
      simp only [cmpList, List.cons.injEq]
      cases hc : c a b with
      | eq => simp only [ih bs, (h a b).mp hc, true_and]
      | lt =>
        have : a ≠ b := fun e => by rw [(h a b).mpr e] at hc; cases hc
        simp [this]
      | gt =>
        have : a ≠ b := fun e => by rw [(h a b).mpr e] at hc; cases hc
        simp [this]

theorem cmpPair_eqIff {α β : Type} {ca : α → α → Ordering} {cb : β → β → Ordering}
    (ha : EqIff ca) (hb : EqIff cb) : EqIff (cmpPair ca cb) := by
  rintro ⟨a₁, b₁⟩ ⟨a₂, b₂⟩
  simp only [cmpPair, Prod.mk.injEq]
  cases hc : ca a₁ a₂ with
  | eq => simp only [hb b₁ b₂, (ha a₁ a₂).mp hc, true_and]
  | lt =>
    have : a₁ ≠ a₂ := fun e => by rw [(ha a₁ a₂).mpr e] at hc; cases hc
    simp [this]
  | gt =>
    have : a₁ ≠ a₂ := fun e => by rw [(ha a₁ a₂).mpr e] at hc; cases hc
    simp [this]

theorem cmpNat_eqIff : EqIff cmpNat := by
  intro a b; simp [cmpNat]

theorem cmpInt_eqIff : EqIff cmpInt := by
  intro a b
  simp only [cmpInt, compare, compareOfLessAndEq]
  by_cases h1 : a < b
  · simp [h1]; omega
  · by_cases h2 : a = b
    · simp [h2]
    · simp [h1, h2]

theorem AdjList.cmp_eq_iff (a b : AdjList) : a.cmp b = .eq ↔ a = b := by
  have := cmpList_eqIff (cmpList_eqIff cmpNat_eqIff) a.rows b.rows
  cases a; cases b; simpa [AdjList.cmp] using this

theorem AdjMap.cmp_eq_iff (a b : AdjMap) : a.cmp b = .eq ↔ a = b := by
  have := cmpList_eqIff (cmpPair_eqIff cmpNat_eqIff (cmpList_eqIff cmpNat_eqIff)) a.rows b.rows
  cases a; cases b; simpa [AdjMap.cmp] using this

theorem AdjListW.cmp_eq_iff (a b : AdjListW) : a.cmp b = .eq ↔ a = b := by
  have := cmpList_eqIff (cmpList_eqIff (cmpPair_eqIff cmpNat_eqIff cmpInt_eqIff)) a.rows b.rows
  cases a; cases b; simpa [AdjListW.cmp] using this

theorem EdgeList.cmp_eq_iff (a b : EdgeList) : a.cmp b = .eq ↔ a = b := by
  have h1 := cmpList_eqIff (cmpPair_eqIff cmpNat_eqIff cmpNat_eqIff) a.arcs b.arcs
  have h2 := cmpNat_eqIff a.order b.order
  cases a; cases b
  simp only [EdgeList.cmp, EdgeList.mk.injEq] at *
  split
  · rename_i hc; rw [h2, ← h1, hc]; simp
  · rename_i o hc
    constructor
    · intro e; exact absurd e (by intro e'; exact hc (e' ▸ rfl))
    · rintro ⟨e, _⟩; exact absurd (h1.mpr e) hc

theorem AdjMatrix.cmp_eq_iff (a b : AdjMatrix) : a.cmp b = .eq ↔ a = b := by
  have hbv : EqIff (fun x y : BitVec 64 => cmpNat x.toNat y.toNat) := by
    intro x y; rw [cmpNat_eqIff]; exact BitVec.toNat_inj
  have h1 := cmpList_eqIff hbv a.blocks b.blocks
  have h2 := cmpNat_eqIff a.order b.order
  cases a; cases b
  simp only [AdjMatrix.cmp, AdjMatrix.mk.injEq] at *
  split
  · rename_i hc; rw [h2, ← h1, hc]; simp
  · rename_i o hc
    constructor
    · intro e; exact absurd e (by intro e'; exact hc (e' ▸ rfl))
    · rintro ⟨e, _⟩; exact absurd (h1.mpr e) hc

/-! ## Histories that converge abstractly give identical structures -/

theorem converge_gen {σ ο ω : Type} (step : σ → ο → σ × Out) (sstep : SpecState ω → ο → SpecState ω × Out)
    (WF : σ → Prop) (abs : σ → SpecState ω)
    (hrun : ∀ ops d, WF d → WF (run step d ops).1 ∧ abs (run step d ops).1 = (run sstep (abs d) ops).1 ∧
      (run step d ops).2 = (run sstep (abs d) ops).2)
    (hinj : ∀ d₁ d₂, WF d₁ → WF d₂ → (abs d₁ = abs d₂ ↔ d₁ = d₂))
    (d₁ d₂ : σ) (h₁ : WF d₁) (h₂ : WF d₂) (ops₁ ops₂ : List ο)
    (h : (run sstep (abs d₁) ops₁).1 = (run sstep (abs d₂) ops₂).1) :
    (run step d₁ ops₁).1 = (run step d₂ ops₂).1 := by
  have a := hrun ops₁ d₁ h₁
  have b := hrun ops₂ d₂ h₂
  exact (hinj _ _ a.1 b.1).mp (by rw [a.2.1, b.2.1, h])

/-! ## Spec level: `remove` after `add` of an absent arc, and toggling twice, are the identity -/

theorem setW_setW {ω : Type} (W : Nat → Nat → Option ω) (u v : Nat) (x y : Option ω) :
    setW (setW W u v x) u v y = setW W u v y := by
  funext a b; simp only [setW]; split <;> rfl

theorem setW_self {ω : Type} (W : Nat → Nat → Option ω) (u v : Nat) : setW W u v (W u v) = W := by
  funext a b; simp only [setW]; split
  · rename_i h; rw [h.1, h.2]
  · rfl

theorem spec_remove_after_add {ω : Type} (k : Kind) (s : SpecState ω) (u v : Nat) (w : ω)
    (hrej : rejected k s u v = false) (habs : s.W u v = none)
    (hV : k = .growing → s.V u = true ∧ s.V v = true) :
    (run (specStep k) s [.add u v w, .rem u v]).1 = s := by
  have e1 := specStep_add_ok w hrej
  simp only [run, e1]
  simp only [specStep]
  apply SpecState.ext
  · intro x
    cases k with
    | fixed => rfl
    | growing =>
      obtain ⟨h1, h2⟩ := hV rfl
      simp only [grow, addV]
      by_cases e1 : x = v
      · subst e1; simp [h2]
      · by_cases e2 : x = u
        · subst e2; simp [h1]
        · simp [e1, e2]
  · intro a b
    simp only [setW_setW]
    rw [← habs, setW_self]

theorem spec_toggle_twice (s : SpecState Unit) (u v : Nat) :
    (run specStepMx s [.tog u v, .tog u v]).1 = s := by
  cases hrej : rejected .fixed s u v
  · have hrej' : rejected .fixed (⟨s.V, setW s.W u v (if s.A u v then none else some ())⟩ : SpecState Unit) u v = false := by
      simpa [rejected] using hrej
    simp only [run, specStepMx_tog_ok hrej, specStepMx_tog_ok hrej']
    apply SpecState.ext
    · intro x; rfl
    · intro a b
      simp only [setW_setW, A_setW, and_self, if_true]
      have : (if (if s.A u v = true then (none : Option Unit) else some ()).isSome = true then none else some ()) = s.W u v := by
        unfold SpecState.A
        cases s.W u v <;> simp
      rw [this, setW_self]
  · simp only [run, specStepMx_tog_rej hrej]

end GraafVerif.Repr
