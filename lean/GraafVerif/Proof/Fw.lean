import GraafVerif.Proof.FwWalk
import GraafVerif.Proof.FwIndex
/-!
# The Floyd-Warshall invariant on the literal in-place model (C08)

Route.  Entries are compared with `leO` (`none` = `isize::MAX` = `+∞`).  Three facts are carried
through the three nested `for` loops by one generic rule (`foldl_range_inv`):

* `InvK g K m`   size is `n*n` and every finite entry `(u,v)` is the weight of a walk `u → v` with
                 interior `< K`  (no hypothesis on circuits needed);
* `Mono n m m'`  entries only decrease;
* a per-index postcondition: once cell `(j,k)` of iteration `i` has been executed,
  `d[j][k] ≤ a₀ + b₀` for the values `a₀ = d[j][i]`, `b₀ = d[i][k]` at the START of iteration `i`.

The in-place update is sound because `a`, `b` read later are only smaller (`Mono`) and still walk
weights (`InvK`) — row `i`/column `i` need not be shown unchanged.  With no negative circuit a
walk with interior `< K+1` splits at `K` (`WalkIn.split`), which turns the triangle bound into
`LeK g (K+1)`: every entry is `≤` the weight of every walk with interior `< K+1`.
`Inv = InvK ∧ LeK` says the entries ARE the minima (`Inv.isMinIn`).
-/
namespace GraafVerif.Fw
open GraafVerif

/-- Generic invariant rule for `for k in 0..n`: an invariant `I`, a preorder `R` along which the
state moves, and per-index postconditions `Q k` that are stable under `R`. -/
theorem foldl_range_inv {α : Type} (f : α → Nat → α) (I : α → Prop) (R : α → α → Prop)
    (Q : Nat → α → Prop) (m0 : α) (n : Nat)
    (rrefl : ∀ a, R a a) (rtrans : ∀ a b c, R a b → R b c → R a c)
    (qmono : ∀ k a b, Q k a → R a b → Q k b)
    (step : ∀ m k, k < n → I m → R m0 m → I (f m k) ∧ R m (f m k) ∧ Q k (f m k))
    (h0 : I m0) :
    ∀ N, N ≤ n → I ((List.range N).foldl f m0) ∧ R m0 ((List.range N).foldl f m0) ∧
      ∀ k, k < N → Q k ((List.range N).foldl f m0) := by
  intro N
  induction N with
  | zero => intro _; exact ⟨h0, rrefl _, by intro k hk; omega⟩
  | succ N ih =>
    intro hN
    obtain ⟨hI, hR, hQ⟩ := ih (by omega)
    rw [List.range_succ, List.foldl_append]
    simp only [List.foldl_cons, List.foldl_nil]
    obtain ⟨sI, sR, sQ⟩ := step _ N (by omega) hI hR
    refine ⟨sI, rtrans _ _ _ hR sR, ?_⟩
    intro k hk
    by_cases hkN : k = N
    · subst hkN; exact sQ
    · exact qmono _ _ _ (hQ k (by omega)) sR

/-! ## Matrix predicates -/

/-- Entries only decrease (`none` = `+∞`). -/
def Mono (n : Nat) (m m' : Mat) : Prop := ∀ u v, u < n → v < n → leO (get n m' u v) (get n m u v)

/-- Every finite entry `(u, v)` is the weight of a walk `u → v` with interior `< K`. -/
def SoundK (g : WGraph) (K : Nat) (m : Mat) : Prop :=
  ∀ u v, u < g.n → v < g.n → ∀ x, get g.n m u v = some x → WalkIn g K u v x

/-- Every entry `(u, v)` is at most the weight of every walk `u → v` with interior `< K`. -/
def LeK (g : WGraph) (K : Nat) (m : Mat) : Prop :=
  ∀ u v, u < g.n → v < g.n → ∀ wt, WalkIn g K u v wt → leO (get g.n m u v) (some wt)

theorem Mono.refl (n : Nat) (m : Mat) : Mono n m m := fun _ _ _ _ => leO.refl _
theorem Mono.trans {n : Nat} {a b c : Mat} (h1 : Mono n a b) (h2 : Mono n b c) : Mono n a c :=
  fun u v hu hv => leO.trans (h2 u v hu hv) (h1 u v hu hv)

theorem SoundK.mono {g : WGraph} {K K' : Nat} {m : Mat} (h : K ≤ K') (hs : SoundK g K m) : SoundK g K' m :=
  fun u v hu hv x hx => (hs u v hu hv x hx).mono h

/-- Writing a walk weight that is no larger than the old entry. -/
theorem put_spec {g : WGraph} {K : Nat} {m : Mat} {j k : Nat} {s : Int}
    (hj : j < g.n) (hk : k < g.n) (hlen : m.length = g.n * g.n) (hs : SoundK g K m)
    (hw : WalkIn g K j k s) (hle : leO (some s) (get g.n m j k)) :
    (put g.n m j k (some s)).length = g.n * g.n ∧ SoundK g K (put g.n m j k (some s)) ∧
    Mono g.n m (put g.n m j k (some s)) ∧ get g.n (put g.n m j k (some s)) j k = some s := by
  have hidx : j * g.n + k < m.length := by rw [hlen]; exact idx_lt hj hk
  refine ⟨by rw [length_put, hlen], ?_, ?_, get_put_same hidx⟩
  · intro u v hu hv x hx
    by_cases he : j = u ∧ k = v
    · obtain ⟨rfl, rfl⟩ := he
      rw [get_put_same hidx] at hx
      cases hx; exact hw
    · rw [get_put_other hk hv he] at hx
      exact hs u v hu hv x hx
  · intro u v hu hv
    by_cases he : j = u ∧ k = v
    · obtain ⟨rfl, rfl⟩ := he
      rw [get_put_same hidx]; exact hle
    · rw [get_put_other hk hv he]; exact leO.refl _

/-- One execution of the innermost loop body. -/
theorem cell_spec {g : WGraph} {K i j k : Nat} {a : Int} {m : Mat}
    (hi : i < g.n) (hiK : i < K) (hj : j < g.n) (hk : k < g.n)
    (ha : WalkIn g K j i a) (hlen : m.length = g.n * g.n) (hs : SoundK g K m) :
    (cell g.n i j a m k).length = g.n * g.n ∧ SoundK g K (cell g.n i j a m k) ∧
    Mono g.n m (cell g.n i j a m k) ∧
    ∀ b, get g.n m i k = some b → leO (get g.n (cell g.n i j a m k) j k) (some (a + b)) := by
  unfold cell
  cases hb : get g.n m i k with
  | none => exact ⟨hlen, hs, Mono.refl _ _, by intro b h; cases h⟩
  | some b =>
    have hwb : WalkIn g K i k b := hs i k hi hk b hb
    have hw : WalkIn g K j k (a + b) := hwb.append ha hiK
    simp only
    cases hc : get g.n m j k with
    | none =>
      simp only
      obtain ⟨p1, p2, p3, p4⟩ := put_spec hj hk hlen hs hw (by rw [hc]; exact leO_none _)
      refine ⟨p1, p2, p3, ?_⟩
      intro b' hb'; cases hb'; rw [p4]; exact leO.refl _
    | some c =>
      simp only
      by_cases hlt : a + b < c
      · rw [if_pos hlt]
        obtain ⟨p1, p2, p3, p4⟩ := put_spec hj hk hlen hs hw (by rw [hc]; exact leO_some (by omega))
        refine ⟨p1, p2, p3, ?_⟩
        intro b' hb'; cases hb'; rw [p4]; exact leO.refl _
      · rw [if_neg hlt]
        refine ⟨hlen, hs, Mono.refl _ _, ?_⟩
        intro b' hb'; cases hb'; rw [hc]; exact leO_some (by omega)


/-- Helper: a finite entry stays finite and does not grow along `Mono`. -/
theorem Mono.get_some {n : Nat} {m m' : Mat} (h : Mono n m m') {u v : Nat} (hu : u < n) (hv : v < n)
    {x : Int} (hx : get n m u v = some x) : ∃ y, get n m' u v = some y ∧ y ≤ x :=
  h u v hu hv x hx

/-- The invariant carried through the `j` and `k` loops of iteration `i`. -/
def InvK (g : WGraph) (K : Nat) (m : Mat) : Prop := m.length = g.n * g.n ∧ SoundK g K m

/-- The `k` loop for one `(i, j)`, for every prefix `0..N` of it. -/
theorem rowJ_prefix {g : WGraph} {K i j : Nat} {a : Int} {m : Mat}
    (hi : i < g.n) (hiK : i < K) (hj : j < g.n) (ha : WalkIn g K j i a) (hI : InvK g K m) :
    ∀ N, N ≤ g.n →
      InvK g K ((List.range N).foldl (cell g.n i j a) m) ∧
      Mono g.n m ((List.range N).foldl (cell g.n i j a) m) ∧
      ∀ k, k < N → ∀ b0, get g.n m i k = some b0 →
        leO (get g.n ((List.range N).foldl (cell g.n i j a) m) j k) (some (a + b0)) := by
  intro N hN
  have H := foldl_range_inv (cell g.n i j a) (InvK g K) (Mono g.n)
    (fun k m' => k < g.n → ∀ b0, get g.n m i k = some b0 → leO (get g.n m' j k) (some (a + b0))) m g.n
    (Mono.refl _) (fun _ _ _ => Mono.trans) ?_ ?_ hI N hN
  · exact ⟨H.1, H.2.1, fun k hk => H.2.2 k hk (by omega)⟩
  · intro k a' b' hq hR hk b0 hb0
    exact leO.trans (hR j k hj hk) (hq hk b0 hb0)
  · intro m1 k hk hI1 hR1
    obtain ⟨c1, c2, c3, c4⟩ := cell_spec hi hiK hj hk ha hI1.1 hI1.2
    refine ⟨⟨c1, c2⟩, c3, ?_⟩
    intro _ b0 hb0
    obtain ⟨b1, hb1, hle⟩ := hR1.get_some hi hk hb0
    exact leO.trans (c4 b1 hb1) (leO_some (by omega))

/-- The whole body of the `j` loop (reads `a`, skips on `isize::MAX`, runs the `k` loop). -/
theorem rowJ_spec {g : WGraph} {K i j : Nat} {m : Mat}
    (hi : i < g.n) (hiK : i < K) (hj : j < g.n) (hI : InvK g K m) :
    InvK g K (rowJ g.n i m j) ∧ Mono g.n m (rowJ g.n i m j) ∧
    ∀ k, k < g.n → ∀ a0 b0, get g.n m j i = some a0 → get g.n m i k = some b0 →
      leO (get g.n (rowJ g.n i m j) j k) (some (a0 + b0)) := by
  unfold rowJ
  cases ha : get g.n m j i with
  | none => exact ⟨hI, Mono.refl _ _, by intro k _ a0 b0 h; cases h⟩
  | some a =>
    simp only
    have hwa : WalkIn g K j i a := hI.2 j i hj hi a ha
    obtain ⟨h1, h2, h3⟩ := rowJ_prefix hi hiK hj hwa hI g.n (Nat.le_refl _)
    refine ⟨h1, h2, ?_⟩
    intro k hk a0 b0 ha0 hb0
    cases ha0
    exact h3 k hk b0 hb0

/-- The `j` loop of iteration `i`, for every prefix `0..N` of it: with `m` the matrix at the
start of the iteration, every processed row satisfies the triangle bound through `i`
w.r.t. the START values (entries only decrease meanwhile). -/
theorem iterI_prefix {g : WGraph} {K i : Nat} {m : Mat}
    (hi : i < g.n) (hiK : i < K) (hI : InvK g K m) :
    ∀ N, N ≤ g.n →
      InvK g K ((List.range N).foldl (rowJ g.n i) m) ∧
      Mono g.n m ((List.range N).foldl (rowJ g.n i) m) ∧
      ∀ j, j < N → ∀ k, k < g.n → ∀ a0 b0, get g.n m j i = some a0 → get g.n m i k = some b0 →
        leO (get g.n ((List.range N).foldl (rowJ g.n i) m) j k) (some (a0 + b0)) := by
  intro N hN
  have H := foldl_range_inv (rowJ g.n i) (InvK g K) (Mono g.n)
    (fun j m' => j < g.n → ∀ k, k < g.n → ∀ a0 b0, get g.n m j i = some a0 → get g.n m i k = some b0 →
      leO (get g.n m' j k) (some (a0 + b0))) m g.n
    (Mono.refl _) (fun _ _ _ => Mono.trans) ?_ ?_ hI N hN
  · exact ⟨H.1, H.2.1, fun j hj => H.2.2 j hj (by omega)⟩
  · intro j a' b' hq hR hj k hk a0 b0 ha0 hb0
    exact leO.trans (hR j k hj hk) (hq hj k hk a0 b0 ha0 hb0)
  · intro m1 j hj hI1 hR1
    obtain ⟨r1, r2, r3⟩ := rowJ_spec hi hiK hj hI1
    refine ⟨r1, r2, ?_⟩
    intro _ k hk a0 b0 ha0 hb0
    obtain ⟨a1, ha1, hlea⟩ := hR1.get_some hj hi ha0
    obtain ⟨b1, hb1, hleb⟩ := hR1.get_some hi hk hb0
    exact leO.trans (r3 k hk a1 b1 ha1 hb1) (leO_some (by omega))

/-- One outer iteration. -/
theorem iterI_spec {g : WGraph} {K i : Nat} {m : Mat}
    (hi : i < g.n) (hiK : i < K) (hI : InvK g K m) :
    InvK g K (iterI g.n m i) ∧ Mono g.n m (iterI g.n m i) ∧
    ∀ j, j < g.n → ∀ k, k < g.n → ∀ a0 b0, get g.n m j i = some a0 → get g.n m i k = some b0 →
      leO (get g.n (iterI g.n m i) j k) (some (a0 + b0)) :=
  iterI_prefix hi hiK hI g.n (Nat.le_refl _)

/-- The full invariant after the intermediate vertices `0..K`: the matrix has the right size,
finite entries are weights of walks with interior `< K`, and every entry is `≤` the weight of
every such walk — i.e. entry `(u, v)` IS the minimum weight of a walk with interior `< K`. -/
def Inv (g : WGraph) (K : Nat) (m : Mat) : Prop := InvK g K m ∧ LeK g K m

theorem loopTo_succ (n : Nat) (m : Mat) (K : Nat) : loopTo n m (K+1) = iterI n (loopTo n m K) K := by
  simp [loopTo, List.range_succ, List.foldl_append]

theorem Inv.step {g : WGraph} (hnc : g.NoNegCycle) {K : Nat} {m : Mat} (hK : K < g.n) (h : Inv g K m) :
    Inv g (K+1) (iterI g.n m K) := by
  have hI' : InvK g (K+1) m := ⟨h.1.1, h.1.2.mono (Nat.le_succ K)⟩
  obtain ⟨s1, s2, s3⟩ := iterI_spec hK (Nat.lt_succ_self K) hI'
  refine ⟨s1, ?_⟩
  intro u v hu hv wt hw
  rcases hw.split hnc with h0 | ⟨w1, w2, h1, h2, hle⟩
  · exact leO.trans (s2 u v hu hv) (h.2 u v hu hv wt h0)
  · obtain ⟨a0, ha0, hlea⟩ := h.2 u K hu hK w1 h1 w1 rfl
    obtain ⟨b0, hb0, hleb⟩ := h.2 K v hK hv w2 h2 w2 rfl
    exact leO.trans (s3 u hu v hv a0 b0 ha0 hb0) (leO_some (by omega))

theorem Inv.loopTo {g : WGraph} (hnc : g.NoNegCycle) {m : Mat} (h0 : Inv g 0 m) :
    ∀ K, K ≤ g.n → Inv g K (loopTo g.n m K) := by
  intro K
  induction K with
  | zero => intro _; simpa [Fw.loopTo] using h0
  | succ K ih =>
    intro hK
    rw [loopTo_succ]
    exact (ih (by omega)).step hnc (by omega)

/-- Soundness alone needs no hypothesis on circuits. -/
theorem InvK.loopTo {g : WGraph} {m : Mat} (h0 : InvK g 0 m) :
    ∀ K, K ≤ g.n → InvK g K (loopTo g.n m K) := by
  intro K
  induction K with
  | zero => intro _; simpa [Fw.loopTo] using h0
  | succ K ih =>
    intro hK
    rw [loopTo_succ]
    have h := ih (by omega)
    exact (iterI_spec (by omega) (Nat.lt_succ_self K) ⟨h.1, h.2.mono (Nat.le_succ K)⟩).1

/-! ## Initialisation -/

theorem get_put_cases (n : Nat) (m : Mat) (u v u' v' : Nat) (x : Option Int) (hv : v < n) (hv' : v' < n) :
    get n (put n m u v x) u' v' = get n m u' v' ∨
    (u = u' ∧ v = v' ∧ get n (put n m u v x) u' v' = x) := by
  by_cases he : u = u' ∧ v = v'
  · obtain ⟨rfl, rfl⟩ := he
    by_cases hlt : u * n + v < m.length
    · exact .inr ⟨rfl, rfl, get_put_same hlt⟩
    · left; simp [get, put, List.set_eq_of_length_le (Nat.le_of_not_lt hlt)]
  · exact .inl (get_put_other hv hv' he)

theorem length_setArcs (n : Nat) (arcs : List (Nat × Nat × Int)) (m : Mat) :
    (setArcs n m arcs).length = m.length := by
  induction arcs generalizing m with
  | nil => rfl
  | cons a as ih => simp only [setArcs, List.foldl_cons] at ih ⊢; rw [ih, length_put]

/-- A finite entry after `setArcs` was finite before or is the weight of a listed arc. -/
theorem setArcs_some {n : Nat} {arcs : List (Nat × Nat × Int)} (harcs : ∀ a ∈ arcs, a.2.1 < n)
    {u v : Nat} (hv : v < n) {x : Int} :
    ∀ m : Mat, get n (setArcs n m arcs) u v = some x → get n m u v = some x ∨ (u, v, x) ∈ arcs := by
  induction arcs with
  | nil => intro m h; exact .inl h
  | cons a as ih =>
    intro m h
    simp only [setArcs, List.foldl_cons] at h
    rcases ih (fun b hb => harcs b (List.mem_cons_of_mem _ hb)) _ h with h1 | h1
    · rcases get_put_cases n m a.1 a.2.1 u v (some a.2.2) (harcs a (List.mem_cons_self ..)) hv with h2 | ⟨e1, e2, h2⟩
      · left; rw [← h2]; exact h1
      · right
        rw [h2] at h1
        cases h1
        have : a = (u, v, a.2.2) := by rw [← e1, ← e2]
        rw [← this]; exact List.mem_cons_self ..
    · exact .inr (List.mem_cons_of_mem _ h1)

/-- With at most one weight per ordered pair, a listed arc's weight ends up in its cell. -/
theorem setArcs_mem {n : Nat} {arcs : List (Nat × Nat × Int)} {u v : Nat} {w : Int}
    (hu : u < n) (hv : v < n) (harcs : ∀ a ∈ arcs, a.2.1 < n)
    (hfun : ∀ a ∈ arcs, a.1 = u → a.2.1 = v → a.2.2 = w) :
    ∀ m : Mat, m.length = n * n → (get n m u v = some w ∨ (u, v, w) ∈ arcs) →
      get n (setArcs n m arcs) u v = some w := by
  induction arcs with
  | nil => intro m _ h; rcases h with h | h; exact h; cases h
  | cons a as ih =>
    intro m hlen h
    simp only [setArcs, List.foldl_cons]
    apply ih (fun b hb => harcs b (List.mem_cons_of_mem _ hb))
      (fun b hb => hfun b (List.mem_cons_of_mem _ hb)) _ (by rw [length_put, hlen])
    by_cases he : a.1 = u ∧ a.2.1 = v
    · left
      have hw := hfun a (List.mem_cons_self ..) he.1 he.2
      rw [he.1, he.2, hw]
      exact get_put_same (by rw [hlen]; exact idx_lt hu hv)
    · rcases h with h | h
      · left; rw [get_put_other (harcs a (List.mem_cons_self ..)) hv he]; exact h
      · rcases List.mem_cons.mp h with h | h
        · exfalso; apply he; rw [← h]; exact ⟨rfl, rfl⟩
        · exact .inr h

theorem mem_arcsWeighted {g : WGraph} {u v : Nat} {w : Int} :
    (u, v, w) ∈ arcsWeighted g ↔ u < g.n ∧ g.A u v w := by
  simp only [arcsWeighted, List.mem_flatMap, List.mem_range, List.mem_map, WGraph.A]
  constructor
  · rintro ⟨u', hu', ⟨v', w'⟩, hmem, heq⟩
    simp only [Prod.mk.injEq] at heq
    obtain ⟨rfl, rfl, rfl⟩ := heq
    exact ⟨hu', hmem⟩
  · rintro ⟨hu, hmem⟩
    exact ⟨u, hu, (v, w), hmem, rfl⟩

theorem length_zeroDiagTo (n N : Nat) (m : Mat) :
    ((List.range N).foldl (fun m i => put n m i i (some 0)) m).length = m.length := by
  induction N with
  | zero => rfl
  | succ N ih => rw [List.range_succ, List.foldl_append]; simp [length_put, ih]

theorem get_zeroDiagTo {n : Nat} {m : Mat} (hlen : m.length = n * n) {u v : Nat} (hu : u < n) (hv : v < n) :
    ∀ N, N ≤ n → get n ((List.range N).foldl (fun m i => put n m i i (some 0)) m) u v =
      if u = v ∧ u < N then some 0 else get n m u v := by
  intro N
  induction N with
  | zero => intro _; simp
  | succ N ih =>
    intro hN
    rw [List.range_succ, List.foldl_append]
    simp only [List.foldl_cons, List.foldl_nil]
    by_cases he : N = u ∧ N = v
    · obtain ⟨rfl, rfl⟩ := he
      rw [get_put_same (by rw [length_zeroDiagTo, hlen]; exact idx_lt hu hu)]
      simp
    · rw [get_put_other (by omega) hv he, ih (by omega)]
      by_cases huv : u = v
      · subst huv
        have : u ≠ N := fun h => he ⟨h.symm, h.symm⟩
        have h1 : (u < N + 1) = (u < N) := by apply propext; omega
        simp [h1]
      · simp [huv]

theorem get_zeroDiag {n : Nat} {m : Mat} (hlen : m.length = n * n) {u v : Nat} (hu : u < n) (hv : v < n) :
    get n (zeroDiag n m) u v = if u = v then some 0 else get n m u v := by
  rw [zeroDiag, get_zeroDiagTo hlen hu hv n (Nat.le_refl _)]
  simp [hu]

theorem length_init (g : WGraph) : (init g).length = g.n * g.n := by
  simp [init, zeroDiag, length_zeroDiagTo, length_setArcs]

theorem get_replicate_none (n N u v : Nat) : get n (List.replicate N none) u v = none := by
  unfold get
  by_cases h : u * n + v < N
  · simp [h]
  · simp [h]

theorem arcsWeighted_lt {g : WGraph} (hwf : g.WF) : ∀ a ∈ arcsWeighted g, a.2.1 < g.n := by
  rintro ⟨u, v, w⟩ ha
  exact (hwf u v w (mem_arcsWeighted.mp ha).2).2

/-- After steps 1–3 the finite entries are: `0` on the diagonal, arc weights elsewhere. -/
theorem init_invK {g : WGraph} (hwf : g.WF) : InvK g 0 (init g) := by
  refine ⟨length_init g, ?_⟩
  intro u v hu hv x hx
  have hlen : (setArcs g.n (List.replicate (g.n * g.n) none) (arcsWeighted g)).length = g.n * g.n := by
    simp [length_setArcs]
  rw [init, get_zeroDiag hlen hu hv] at hx
  by_cases huv : u = v
  · subst huv
    simp at hx; subst hx; exact .nil _
  · rw [if_neg huv] at hx
    rcases setArcs_some (arcsWeighted_lt hwf) hv _ hx with h | h
    · rw [get_replicate_none] at h; cases h
    · exact .one (mem_arcsWeighted.mp h).2

theorem init_leK {g : WGraph} (hwf : g.WF) (hfun : g.Functional) (hnc : g.NoNegCycle) : LeK g 0 (init g) := by
  intro u v hu hv wt hw
  have hlen : (setArcs g.n (List.replicate (g.n * g.n) none) (arcsWeighted g)).length = g.n * g.n := by
    simp [length_setArcs]
  rw [init, get_zeroDiag hlen hu hv]
  cases hw with
  | nil => simp; exact leO.refl _
  | one a =>
    by_cases huv : u = v
    · subst huv
      rw [if_pos rfl]
      exact leO_some ((WalkIn.one (K := 0) a).closed_nonneg hnc)
    · rw [if_neg huv, setArcs_mem hu hv (arcsWeighted_lt hwf) ?_ _ (by simp) (.inr (mem_arcsWeighted.mpr ⟨hu, a⟩))]
      · exact leO.refl _
      · rintro ⟨u', v', w'⟩ hb h1 h2
        simp only at h1 h2; subst h1; subst h2
        exact hfun _ _ _ _ (mem_arcsWeighted.mp hb).2 a
  | snoc _ hx _ => omega

theorem init_inv {g : WGraph} (hwf : g.WF) (hfun : g.Functional) (hnc : g.NoNegCycle) : Inv g 0 (init g) :=
  ⟨init_invK hwf, init_leK hwf hfun hnc⟩

/-- After the intermediate vertices `0..K` entry `(u, v)` is exactly the minimum weight of a walk
`u → v` with interior `< K`, and `none` (`isize::MAX`) exactly when there is no such walk. -/
theorem Inv.isMinIn {g : WGraph} {K : Nat} {m : Mat} (h : Inv g K m) {u v : Nat} (hu : u < g.n) (hv : v < g.n) :
    (∀ d, get g.n m u v = some d ↔ IsMinIn g K u v d) ∧
    (get g.n m u v = none ↔ ¬ ∃ wt, WalkIn g K u v wt) := by
  constructor
  · intro d
    constructor
    · intro hd
      refine ⟨h.1.2 u v hu hv d hd, ?_⟩
      intro wt hw
      obtain ⟨x, hx, hle⟩ := h.2 u v hu hv wt hw wt rfl
      rw [hd] at hx; cases hx; exact hle
    · rintro ⟨hw, hmin⟩
      obtain ⟨x, hx, hle⟩ := h.2 u v hu hv d hw d rfl
      have := hmin x (h.1.2 u v hu hv x hx)
      have : x = d := by omega
      rw [hx, this]
  · constructor
    · rintro hn ⟨wt, hw⟩
      obtain ⟨x, hx, _⟩ := h.2 u v hu hv wt hw wt rfl
      rw [hn] at hx; cases hx
    · intro hno
      cases hx : get g.n m u v with
      | none => rfl
      | some x => exact absurd ⟨x, h.1.2 u v hu hv x hx⟩ hno

/-! ## Every point of the triple loop -/

/-- The matrix at the point of the loop nest where the outer iterations `0..I` are complete,
the rows `0..J` of iteration `I` are complete and the cells `0..Kc` of row `J` are done. -/
def stateAt (g : WGraph) (I J Kc : Nat) : Mat :=
  let m2 := (List.range J).foldl (rowJ g.n I) (loopTo g.n (init g) I)
  match get g.n m2 J I with
  | none => m2
  | some a => (List.range Kc).foldl (cell g.n I J a) m2

/-- `stateAt` really walks through the loop nest: finishing the cells of row `J` is finishing
the rows `0..J+1`; finishing all rows of iteration `I` is `loopTo (I+1)`; the end is `distances`. -/
theorem stateAt_row_done (g : WGraph) (I J : Nat) :
    stateAt g I J g.n = (List.range (J+1)).foldl (rowJ g.n I) (loopTo g.n (init g) I) := by
  rw [List.range_succ, List.foldl_append]
  simp only [List.foldl_cons, List.foldl_nil, stateAt]
  generalize (List.range J).foldl (rowJ g.n I) (loopTo g.n (init g) I) = m2
  unfold rowJ
  cases get g.n m2 J I <;> rfl

theorem stateAt_iter_done (g : WGraph) (I : Nat) (hn : 0 < g.n) :
    stateAt g I (g.n - 1) g.n = loopTo g.n (init g) (I+1) := by
  rw [stateAt_row_done, loopTo_succ, iterI, Nat.sub_add_cancel hn]

theorem stateAt_end (g : WGraph) (hn : 0 < g.n) : stateAt g (g.n - 1) (g.n - 1) g.n = distances g := by
  rw [stateAt_iter_done g _ hn, Nat.sub_add_cancel hn, distances]

theorem stateAt_invK {g : WGraph} (hwf : g.WF) {I J Kc : Nat} (hI : I < g.n) (hJ : J < g.n) (hKc : Kc ≤ g.n) :
    InvK g (I+1) (stateAt g I J Kc) := by
  have h1 := InvK.loopTo (init_invK hwf) I (by omega)
  have h1' : InvK g (I+1) (loopTo g.n (init g) I) := ⟨h1.1, h1.2.mono (Nat.le_succ I)⟩
  have h2 := (iterI_prefix hI (Nat.lt_succ_self I) h1' J (by omega)).1
  unfold stateAt
  simp only
  generalize (List.range J).foldl (rowJ g.n I) (loopTo g.n (init g) I) = m2 at h2 ⊢
  cases ha : get g.n m2 J I with
  | none => exact h2
  | some a => exact (rowJ_prefix hI (Nat.lt_succ_self I) hJ (h2.2 J I hJ hI a ha) h2 Kc hKc).1
end GraafVerif.Fw
