import GraafVerif.Model.AlgoGen4
import GraafVerif.Proof.AlgoGen3Gen3
import GraafVerif.Proof.Par
/-!
# Generated parallel functions (`Model/AlgoGen4.lean`): generic lemmas

`forLoop_ranges`: the literal spawn loop `for thread_id in 0..t { start = id * chunk; end = min n (start + chunk);
if start >= end { break } worker }` is the loop over the hand-written `Par.ranges` (with the thread ids attached).
-/
set_option linter.unusedSimpArgs false
namespace GraafVerif.AlgoGenThm
open GraafVerif GraafVerif.AlgoGen GraafVerif.Repr

theorem divCeilP_pos {β ρ : Type} (a b : Nat) (hb : 0 < b) : (divCeilP a b : Blk β ρ Nat) = .ok ((a + b - 1) / b) := by
  unfold divCeilP
  have : b ≠ 0 := by omega
  simp [this]

theorem divCeilP_zero {β ρ : Type} (a : Nat) : (divCeilP a 0 : Blk β ρ Nat) = panic := by simp [divCeilP]

theorem subP_le {β ρ : Type} (a b : Nat) (h : b ≤ a) : (subP a b : Blk β ρ Nat) = .ok (a - b) := by simp [subP, h]

/-- the spawn loop over thread ids = the loop over the hand-written chunk ranges -/
theorem forLoop_ranges {σ ρ β : Type} (n chunk : Nat) (body : σ → Nat → Blk σ ρ σ) (W : σ → Nat × Nat → Nat → Blk σ ρ σ)
    (hbody : ∀ s id, body s id =
      if id * chunk ≥ min n (id * chunk + chunk) then brk s else W s (id * chunk, min n (id * chunk + chunk)) id)
    (hW : ∀ s r k, (∃ s', W s r k = .ok s') ∨ (∃ e, W s r k = .error (.err e))) :
    ∀ (fuel id : Nat) (s : σ), (forLoop body (List.range' id fuel) s : Blk β ρ σ) =
      forLoop (fun s (rk : (Nat × Nat) × Nat) => W s rk.1 rk.2) ((Par.ranges.go n chunk fuel id).zipIdx id) s := by
  intro fuel
  induction fuel with
  | zero => intro id s; rfl
  | succ fuel ih =>
    intro id s
    rw [List.range'_succ]
    unfold Par.ranges.go
    by_cases hge : id * chunk ≥ min n (id * chunk + chunk)
    · simp only [hge, if_true, List.zipIdx_nil]
      rw [forLoop_cons_brk (s' := s) (h := by rw [hbody, if_pos hge]; rfl)]
      rfl
    · simp only [hge, if_false, List.zipIdx_cons]
      rcases hW s (id * chunk, min n (id * chunk + chunk)) id with ⟨s', h⟩ | ⟨e, h⟩
      · rw [forLoop_cons_ok (s' := s') (h := by rw [hbody, if_neg hge]; exact h),
          forLoop_cons_ok (body := fun s (rk : (Nat × Nat) × Nat) => W s rk.1 rk.2) (s' := s') (h := h)]
        exact ih (id + 1) s'
      · rw [forLoop_cons_err (e := e) (h := by rw [hbody, if_neg hge]; exact h),
          forLoop_cons_err (body := fun s (rk : (Nat × Nat) × Nat) => W s rk.1 rk.2) (e := e) (h := h)]

/-- a range of the chunking is not empty -/
theorem go_mem_lt (n chunk : Nat) : ∀ (fuel id : Nat) (r : Nat × Nat), r ∈ Par.ranges.go n chunk fuel id → r.1 < r.2 ∧ r.2 ≤ n := by
  intro fuel
  induction fuel with
  | zero => intro id r h; simp [Par.ranges.go] at h
  | succ fuel ih =>
    intro id r h
    unfold Par.ranges.go at h
    by_cases hge : id * chunk ≥ min n (id * chunk + chunk)
    · simp [hge] at h
    · simp only [hge, if_false, List.mem_cons] at h
      rcases h with rfl | h
      · exact ⟨by simp only; omega, Nat.min_le_left _ _⟩
      · exact ih (id + 1) r h

theorem foldl_snoc_map {α γ : Type} (f : α → γ) : ∀ (l : List α) (acc : List γ),
    l.foldl (fun s a => s ++ [f a]) acc = acc ++ l.map f := by
  intro l
  induction l with
  | nil => intro acc; simp
  | cons a l ih => intro acc; rw [List.foldl_cons, ih]; simp

theorem foldl_append_flatten {γ : Type} : ∀ (l : List (List γ)) (acc : List γ),
    l.foldl (fun s a => s ++ a) acc = acc ++ l.flatten := by
  intro l
  induction l with
  | nil => intro acc; simp
  | cons a l ih => intro acc; rw [List.foldl_cons, ih]; simp

end GraafVerif.AlgoGenThm
