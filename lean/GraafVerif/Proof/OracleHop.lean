import GraafVerif.Proof.OracleReach
/-!
# The naive hop-distance oracle `hopDistB` is exact

`hopDistB g S` labels the sources `0` and runs `n` rounds `k = 0..n-1`; round `k` scans every
vertex `u` whose label at the start of the round is `k` and labels each still unlabelled
out-neighbour `k+1`.  Proved here, for `g.WF` and sources in range:

* before round `k` the labelled vertices are exactly those of hop distance `≤ k`, each with its
  hop distance (`HInv`);
* hop distances are `< n` (a shortest walk has one vertex per level, all distinct);
* hence `label v = some d ↔ IsHopDist g S v d` and `label v = none ↔ ¬ ReachFrom g S v`.
-/
namespace GraafVerif.OracleProof

/-- Establishment principle: step `b` establishes `Q b`, every step preserves every `Q c`;
`I` is an invariant the establishment may use. -/
theorem foldl_establish {α β : Type} (I : α → Prop) (Q : β → α → Prop) (f : α → β → α) :
    ∀ (l : List β), (∀ a b, b ∈ l → I a → I (f a b)) → (∀ a b, b ∈ l → I a → Q b (f a b)) →
      (∀ a b c, Q c a → Q c (f a b)) → ∀ a, I a → ∀ b ∈ l, Q b (l.foldl f a) := by
  intro l
  induction l with
  | nil => intro _ _ _ a _ b hb; cases hb
  | cons x rest ih =>
    intro hI hest hpres a ha b hb
    rw [List.foldl_cons]
    rcases List.mem_cons.mp hb with rfl | hb
    · exact foldl_inv (Q b) f rest (fun a c _ h => hpres a c b h) _ (hest a b List.mem_cons_self ha)
    · exact ih (fun a c hc => hI a c (List.mem_cons_of_mem _ hc))
        (fun a c hc => hest a c (List.mem_cons_of_mem _ hc)) hpres _ (hI a x List.mem_cons_self ha) b hb

/-! ## Declarative side: facts about `ReachIn` / `IsHopDist` -/

theorem reachIn_reach {g : Graph} {k s v : Nat} (h : ReachIn g k s v) : Reach g s v := by
  induction h with
  | zero => exact Reach.refl _
  | succ _ ha ih => exact Reach.step ih ha

theorem reach_reachIn {g : Graph} {s v : Nat} (h : Reach g s v) : ∃ k, ReachIn g k s v := by
  induction h with
  | refl => exact ⟨0, ReachIn.zero _⟩
  | step _ ha ih => obtain ⟨k, hk⟩ := ih; exact ⟨k+1, ReachIn.succ hk ha⟩

theorem reachIn_zero {g : Graph} {s v : Nat} (h : ReachIn g 0 s v) : v = s := by
  cases h; rfl

theorem reachIn_succ {g : Graph} {k s v : Nat} (h : ReachIn g (k+1) s v) :
    ∃ u, ReachIn g k s u ∧ g.A u v := by
  cases h with
  | succ h ha => exact ⟨_, h, ha⟩

theorem hop_unique {g : Graph} {S : List Nat} {v d d' : Nat}
    (h : IsHopDist g S v d) (h' : IsHopDist g S v d') : d = d' := by
  rcases Nat.lt_trichotomy d d' with hlt | heq | hgt
  · exact absurd h.1 (h'.2 d hlt)
  · exact heq
  · exact absurd h'.1 (h.2 d' hgt)

/-- Some walk of `j` arcs ⇒ a hop distance `≤ j` exists. -/
theorem hop_exists {g : Graph} {S : List Nat} {v : Nat} :
    ∀ j, (∃ s ∈ S, ReachIn g j s v) → ∃ j', j' ≤ j ∧ IsHopDist g S v j' := by
  intro j
  induction j using Nat.strongRecOn with
  | _ j ih =>
    intro h
    by_cases hex : ∃ k, k < j ∧ ∃ s ∈ S, ReachIn g k s v
    · obtain ⟨k, hk, hr⟩ := hex
      obtain ⟨j', hj', hd⟩ := ih k hk hr
      exact ⟨j', by omega, hd⟩
    · exact ⟨j, Nat.le_refl _, h, fun k hk hr => hex ⟨k, hk, hr⟩⟩

theorem hop_reach {g : Graph} {S : List Nat} {v d : Nat} (h : IsHopDist g S v d) : ReachFrom g S v := by
  obtain ⟨⟨s, hs, hr⟩, _⟩ := h
  exact ⟨s, hs, reachIn_reach hr⟩

theorem reach_hop {g : Graph} {S : List Nat} {v : Nat} (h : ReachFrom g S v) : ∃ d, IsHopDist g S v d := by
  obtain ⟨s, hs, hr⟩ := h
  obtain ⟨k, hk⟩ := reach_reachIn hr
  obtain ⟨j, _, hj⟩ := hop_exists k ⟨s, hs, hk⟩
  exact ⟨j, hj⟩

theorem hop_succ_of_arc {g : Graph} {S : List Nat} {u v k : Nat} (hu : IsHopDist g S u k) (ha : g.A u v)
    (hno : ∀ j, j ≤ k → ¬ IsHopDist g S v j) : IsHopDist g S v (k+1) := by
  obtain ⟨⟨s, hs, hr⟩, _⟩ := hu
  refine ⟨⟨s, hs, ReachIn.succ hr ha⟩, ?_⟩
  intro j hj hex
  obtain ⟨j', hj', hd⟩ := hop_exists j hex
  exact hno j' (by omega) hd

/-- A vertex at hop distance `k+1` has an in-neighbour at hop distance `k`. -/
theorem hop_pred {g : Graph} {S : List Nat} {v k : Nat} (h : IsHopDist g S v (k+1)) :
    ∃ u, IsHopDist g S u k ∧ g.A u v := by
  obtain ⟨⟨s, hs, hr⟩, hmin⟩ := h
  obtain ⟨u, hu, ha⟩ := reachIn_succ hr
  refine ⟨u, ⟨⟨s, hs, hu⟩, ?_⟩, ha⟩
  rintro j hj ⟨s', hs', hr'⟩
  exact hmin (j+1) (by omega) ⟨s', hs', ReachIn.succ hr' ha⟩

theorem hop_lt_n {g : Graph} (hwf : g.WF) {S : List Nat} (hS : ∀ s ∈ S, s < g.n) {v d : Nat}
    (h : IsHopDist g S v d) : v < g.n := by
  cases d with
  | zero =>
    obtain ⟨⟨s, hs, hr⟩, _⟩ := h
    rw [reachIn_zero hr]; exact hS s hs
  | succ k =>
    obtain ⟨u, _, ha⟩ := hop_pred h
    exact (hwf u v ha).2

/-- One vertex per level `0..d`, all distinct. -/
theorem hop_levels {g : Graph} (hwf : g.WF) {S : List Nat} (hS : ∀ s ∈ S, s < g.n) :
    ∀ d v, IsHopDist g S v d →
      ∃ l : List Nat, l.length = d + 1 ∧ l.Nodup ∧ ∀ x ∈ l, x < g.n ∧ ∃ i, i ≤ d ∧ IsHopDist g S x i := by
  intro d
  induction d with
  | zero =>
    intro v h
    exact ⟨[v], rfl, by simp, fun x hx => by
      rw [List.mem_singleton.mp hx]; exact ⟨hop_lt_n hwf hS h, 0, Nat.le_refl _, h⟩⟩
  | succ k ih =>
    intro v h
    obtain ⟨u, hu, _⟩ := hop_pred h
    obtain ⟨l, hlen, hnd, hall⟩ := ih u hu
    refine ⟨v :: l, by simp [hlen], ?_, ?_⟩
    · rw [List.nodup_cons]
      refine ⟨fun hv => ?_, hnd⟩
      obtain ⟨_, i, hi, hd⟩ := hall v hv
      have := hop_unique h hd
      omega
    · intro x hx
      rcases List.mem_cons.mp hx with rfl | hx
      · exact ⟨hop_lt_n hwf hS h, k+1, Nat.le_refl _, h⟩
      · obtain ⟨hlt, i, hi, hd⟩ := hall x hx
        exact ⟨hlt, i, by omega, hd⟩

/-- Hop distances are `< n`. -/
theorem hop_bound {g : Graph} (hwf : g.WF) {S : List Nat} (hS : ∀ s ∈ S, s < g.n) {v d : Nat}
    (h : IsHopDist g S v d) : d < g.n := by
  obtain ⟨l, hlen, hnd, hall⟩ := hop_levels hwf hS d v h
  have hsub : l ⊆ List.range g.n := fun x hx => List.mem_range.mpr (hall x hx).1
  have := hnd.length_le_of_subset hsub
  rw [List.length_range] at this
  omega

/-! ## Label vectors -/

/-- Lookup with default (the form the drivers use). -/
def lk {α : Type} (d : List (Option α)) (v : Nat) : Option α := d[v]?.getD none

theorem lk_lt {α : Type} {d : List (Option α)} {v : Nat} {x : α} (h : lk d v = some x) : v < d.length := by
  unfold lk at h
  rcases Nat.lt_or_ge v d.length with h' | h'
  · exact h'
  · simp [List.getElem?_eq_none h'] at h

theorem lk_set {α : Type} (d : List (Option α)) (v y : Nat) (x : Option α) :
    lk (d.set v x) y = if v = y ∧ v < d.length then x else lk d y := by
  unfold lk
  rw [List.getElem?_set]
  by_cases h : v = y
  · subst h
    by_cases h' : v < d.length
    · simp [h']
    · simp [h']
  · simp [h]

theorem lk_replicate {α : Type} (n v : Nat) : lk (List.replicate n (none : Option α)) v = none := by
  unfold lk
  rw [List.getElem?_replicate]
  split <;> rfl

/-- Marking the sources. -/
theorem lk_init {α : Type} (z : α) (n : Nat) (v : Nat) : ∀ (S : List Nat) (a : List (Option α)), a.length = n →
    lk (S.foldl (fun d s => d.set s (some z)) a) v = if v ∈ S ∧ v < n then some z else lk a v := by
  intro S
  induction S with
  | nil => intro a _; simp
  | cons s rest ih =>
    intro a ha
    rw [List.foldl_cons, ih _ (by simpa using ha), lk_set, ha]
    by_cases hv : v ∈ rest ∧ v < n
    · have : v ∈ s :: rest ∧ v < n := ⟨List.mem_cons_of_mem _ hv.1, hv.2⟩
      rw [if_pos hv, if_pos this]
    · rw [if_neg hv]
      by_cases hs : s = v
      · subst hs
        by_cases hn : s < n
        · simp [hn]
        · have : ¬ (s ∈ s :: rest ∧ s < n) := fun h => hn h.2
          rw [if_neg this, if_neg (fun h => hn h.2)]
      · have : ¬ (v ∈ s :: rest ∧ v < n) := by
          rintro ⟨hm, hn⟩
          rcases List.mem_cons.mp hm with h | h
          · exact hs h.symm
          · exact hv ⟨h, hn⟩
        rw [if_neg this, if_neg (fun h => hs h.1)]

theorem length_init {α : Type} (z : α) : ∀ (S : List Nat) (a : List (Option α)),
    (S.foldl (fun d s => d.set s (some z)) a).length = a.length := by
  intro S
  induction S with
  | nil => intro a; rfl
  | cons s rest ih => intro a; rw [List.foldl_cons, ih]; simp

/-! ## Named pieces of `hopDistB` -/

def hInit (g : Graph) (S : List Nat) : List (Option Nat) :=
  S.foldl (fun d s => d.set s (some 0)) (List.replicate g.n none)

def hIn (k : Nat) (a : List (Option Nat)) (v : Nat) : List (Option Nat) :=
  if (a[v]?.getD none).isNone then a.set v (some (k+1)) else a

def hOut (g : Graph) (d : List (Option Nat)) (k : Nat) (acc : List (Option Nat)) (u : Nat) :
    List (Option Nat) :=
  if d[u]?.getD none == some k then (g.out u).foldl (hIn k) acc else acc

def hRound (g : Graph) (d : List (Option Nat)) (k : Nat) : List (Option Nat) :=
  (List.range g.n).foldl (hOut g d k) d

theorem hopDistB_eq (g : Graph) (S : List Nat) :
    hopDistB g S = (List.range g.n).foldl (hRound g) (hInit g S) := rfl

theorem hIn_cases (k : Nat) (a : List (Option Nat)) (v : Nat) :
    (lk a v = none ∧ hIn k a v = a.set v (some (k+1))) ∨ (∃ x, lk a v = some x ∧ hIn k a v = a) := by
  unfold hIn lk
  cases h : a[v]?.getD none with
  | none => left; simp
  | some x => right; exact ⟨x, rfl, by simp⟩

theorem hIn_length (k : Nat) (a : List (Option Nat)) (v : Nat) : (hIn k a v).length = a.length := by
  rcases hIn_cases k a v with ⟨_, h⟩ | ⟨_, _, h⟩ <;> rw [h]
  simp

/-- Labels are never overwritten. -/
theorem hIn_persist (k : Nat) (a : List (Option Nat)) (v y x : Nat) (h : lk a y = some x) :
    lk (hIn k a v) y = some x := by
  rcases hIn_cases k a v with ⟨hn, h1⟩ | ⟨_, _, h1⟩
  · rw [h1, lk_set]
    by_cases hvy : v = y
    · subst hvy; rw [hn] at h; cases h
    · simp [hvy, h]
  · rw [h1]; exact h

theorem hOut_length (g : Graph) (d : List (Option Nat)) (k : Nat) (acc : List (Option Nat)) (u : Nat) :
    (hOut g d k acc u).length = acc.length := by
  unfold hOut
  split
  · exact foldl_inv (fun a : List (Option Nat) => a.length = acc.length) (hIn k) _
      (fun a v _ h => by rw [hIn_length]; exact h) acc rfl
  · rfl

theorem hOut_persist (g : Graph) (d : List (Option Nat)) (k : Nat) (acc : List (Option Nat)) (u y x : Nat)
    (h : lk acc y = some x) : lk (hOut g d k acc u) y = some x := by
  unfold hOut
  split
  · exact foldl_inv (fun a : List (Option Nat) => lk a y = some x) (hIn k) _
      (fun a v _ h => hIn_persist k a v y x h) acc h
  · exact h

/-! ## One round -/

/-- Every label present during round `k` is old or a justified new `k+1`. -/
def NewOk (g : Graph) (d : List (Option Nat)) (k : Nat) (acc : List (Option Nat)) : Prop :=
  ∀ v x, lk acc v = some x → lk d v = some x ∨ (lk d v = none ∧ x = k+1 ∧ ∃ u, lk d u = some k ∧ g.A u v)

theorem newOk_hIn {g : Graph} {d : List (Option Nat)} {k : Nat} {acc : List (Option Nat)} {u v : Nat}
    (hold : ∀ y x, lk d y = some x → lk acc y = some x)
    (h : NewOk g d k acc) (hu : lk d u = some k) (ha : g.A u v) : NewOk g d k (hIn k acc v) := by
  rcases hIn_cases k acc v with ⟨hn, h1⟩ | ⟨_, _, h1⟩
  · rw [h1]
    intro y x hy
    rw [lk_set] at hy
    by_cases hvy : v = y ∧ v < acc.length
    · rw [if_pos hvy] at hy
      obtain ⟨rfl, _⟩ := hvy
      right
      refine ⟨?_, by cases hy; rfl, u, hu, ha⟩
      cases hd : lk d v with
      | none => rfl
      | some z => rw [hold v z hd] at hn; cases hn
    · rw [if_neg hvy] at hy; exact h y x hy
  · rw [h1]; exact h

/-- Invariant inside round `k`. -/
structure MInv (g : Graph) (d : List (Option Nat)) (k : Nat) (acc : List (Option Nat)) : Prop where
  len : acc.length = g.n
  old : ∀ y x, lk d y = some x → lk acc y = some x
  new : NewOk g d k acc

theorem mInv_hIn {g : Graph} {d : List (Option Nat)} {k : Nat} {acc : List (Option Nat)} {u v : Nat}
    (h : MInv g d k acc) (hu : lk d u = some k) (ha : g.A u v) : MInv g d k (hIn k acc v) :=
  ⟨by rw [hIn_length, h.len], fun y x hy => hIn_persist k acc v y x (h.old y x hy),
    newOk_hIn h.old h.new hu ha⟩

theorem mInv_hOut {g : Graph} {d : List (Option Nat)} {k : Nat} {acc : List (Option Nat)} (u : Nat)
    (h : MInv g d k acc) : MInv g d k (hOut g d k acc u) := by
  unfold hOut
  by_cases ht : (d[u]?.getD none == some k) = true
  · rw [if_pos ht]
    have hu : lk d u = some k := by simpa [lk] using ht
    exact foldl_inv (MInv g d k) (hIn k) _ (fun a v hv ha => mInv_hIn ha hu hv) acc h
  · rw [if_neg ht]; exact h

theorem mInv_round {g : Graph} {d : List (Option Nat)} (k : Nat) (hlen : d.length = g.n) :
    MInv g d k (hRound g d k) := by
  unfold hRound
  refine foldl_inv (MInv g d k) (hOut g d k) _ (fun a u _ h => mInv_hOut u h) d ?_
  exact ⟨hlen, fun _ _ h => h, fun v x h => Or.inl h⟩

/-- After round `k` every out-neighbour of a level-`k` vertex is labelled. -/
theorem round_covers {g : Graph} (hwf : g.WF) {d : List (Option Nat)} (k : Nat) (hlen : d.length = g.n)
    {u v : Nat} (hu : lk d u = some k) (ha : g.A u v) : ∃ x, lk (hRound g d k) v = some x := by
  unfold hRound
  have key := foldl_establish (fun a : List (Option Nat) => a.length = g.n)
    (fun (u : Nat) (a : List (Option Nat)) => lk d u = some k → ∀ v ∈ g.out u, ∃ x, lk a v = some x)
    (hOut g d k) (List.range g.n)
    (fun a b _ h => by rw [hOut_length]; exact h)
    (fun a b _ hlen' hb => by
      have ht : (d[b]?.getD none == some k) = true := by simpa [lk] using hb
      unfold hOut
      rw [if_pos ht]
      exact foldl_establish (fun a : List (Option Nat) => a.length = g.n)
        (fun (v : Nat) (a : List (Option Nat)) => ∃ x, lk a v = some x) (hIn k) (g.out b)
        (fun a v _ h => by rw [hIn_length]; exact h)
        (fun a v hv hl => by
          rcases hIn_cases k a v with ⟨_, h1⟩ | ⟨x, hx, h1⟩
          · rw [h1, lk_set]
            have : v < a.length := by rw [hl]; exact (hwf b v hv).2
            exact ⟨k+1, by simp [this]⟩
          · rw [h1]; exact ⟨x, hx⟩)
        (fun a v c hc => by
          obtain ⟨x, hx⟩ := hc
          exact ⟨x, hIn_persist k a v c x hx⟩)
        a hlen')
    (fun a b c hc hcu v hv => by
      obtain ⟨x, hx⟩ := hc hcu v hv
      exact ⟨x, hOut_persist g d k a b v x hx⟩)
    d hlen u (List.mem_range.mpr (hlen ▸ lk_lt hu)) hu
  exact key v ha

/-- Before round `k`: labels are hop distances, every vertex of hop distance `≤ k` is labelled. -/
structure HInv (g : Graph) (S : List Nat) (k : Nat) (d : List (Option Nat)) : Prop where
  len : d.length = g.n
  sound : ∀ v x, lk d v = some x → IsHopDist g S v x
  compl : ∀ v x, x ≤ k → IsHopDist g S v x → lk d v = some x

theorem hInv_round {g : Graph} (hwf : g.WF) {S : List Nat} {k : Nat} {d : List (Option Nat)}
    (h : HInv g S k d) : HInv g S (k+1) (hRound g d k) := by
  have hm := mInv_round (g := g) k h.len
  have hsound : ∀ v x, lk (hRound g d k) v = some x → IsHopDist g S v x := by
    intro v x hx
    rcases hm.new v x hx with hold | ⟨hnone, rfl, u, hu, ha⟩
    · exact h.sound v x hold
    · refine hop_succ_of_arc (h.sound u k hu) ha ?_
      intro j hj hd
      rw [h.compl v j hj hd] at hnone; cases hnone
  refine ⟨hm.len, hsound, ?_⟩
  intro v x hx hd
  rcases Nat.lt_or_ge x (k+1) with hlt | hge
  · exact hm.old v x (h.compl v x (by omega) hd)
  · have : x = k + 1 := by omega
    subst this
    obtain ⟨u, hu, ha⟩ := hop_pred hd
    obtain ⟨y, hy⟩ := round_covers hwf k h.len (h.compl u k (Nat.le_refl _) hu) ha
    rw [hy, hop_unique (hsound v y hy) hd]

theorem hInv_init (g : Graph) {S : List Nat} (hS : ∀ s ∈ S, s < g.n) : HInv g S 0 (hInit g S) := by
  have hlk : ∀ v, lk (hInit g S) v = if v ∈ S ∧ v < g.n then some 0 else none := by
    intro v
    unfold hInit
    rw [lk_init 0 g.n v S _ (by simp), lk_replicate]
  refine ⟨by unfold hInit; rw [length_init]; simp, ?_, ?_⟩
  · intro v x hx
    rw [hlk] at hx
    by_cases hv : v ∈ S ∧ v < g.n
    · rw [if_pos hv] at hx
      cases hx
      exact ⟨⟨v, hv.1, ReachIn.zero v⟩, fun k hk => by omega⟩
    · rw [if_neg hv] at hx; cases hx
  · intro v x hx hd
    have : x = 0 := by omega
    subst this
    obtain ⟨⟨s, hs, hr⟩, _⟩ := hd
    have := reachIn_zero hr
    subst this
    rw [hlk, if_pos ⟨hs, hS v hs⟩]

theorem hInv_rounds {g : Graph} (hwf : g.WF) {S : List Nat} (hS : ∀ s ∈ S, s < g.n) :
    ∀ m, HInv g S m ((List.range m).foldl (hRound g) (hInit g S)) := by
  intro m
  induction m with
  | zero => exact hInv_init g hS
  | succ m ih =>
    rw [List.range_succ, List.foldl_append]
    exact hInv_round hwf ih

theorem hInv_final {g : Graph} (hwf : g.WF) {S : List Nat} (hS : ∀ s ∈ S, s < g.n) :
    HInv g S g.n (hopDistB g S) := by
  rw [hopDistB_eq]; exact hInv_rounds hwf hS g.n

/-- **`hopDistB` is exact (finite entries).** -/
theorem hopDistB_spec {g : Graph} (hwf : g.WF) {S : List Nat} (hS : ∀ s ∈ S, s < g.n) (v d : Nat) :
    (hopDistB g S)[v]?.getD none = some d ↔ IsHopDist g S v d := by
  have h := hInv_final hwf hS
  exact ⟨h.sound v d, fun hd => h.compl v d (Nat.le_of_lt (hop_bound hwf hS hd)) hd⟩

/-- **`hopDistB` is exact (`none` entries).** -/
theorem hopDistB_none {g : Graph} (hwf : g.WF) {S : List Nat} (hS : ∀ s ∈ S, s < g.n) (v : Nat) :
    (hopDistB g S)[v]?.getD none = none ↔ ¬ ReachFrom g S v := by
  constructor
  · intro hn hr
    obtain ⟨d, hd⟩ := reach_hop hr
    rw [(hopDistB_spec hwf hS v d).mpr hd] at hn; cases hn
  · intro hnr
    cases hx : (hopDistB g S)[v]?.getD none with
    | none => rfl
    | some d => exact absurd (hop_reach ((hopDistB_spec hwf hS v d).mp hx)) hnr

theorem hopDistB_length {g : Graph} (hwf : g.WF) {S : List Nat} (hS : ∀ s ∈ S, s < g.n) :
    (hopDistB g S).length = g.n := (hInv_final hwf hS).len

end GraafVerif.OracleProof
