import GraafVerif.Model.Bfs
/-!
# Simulation between labellings

If `f` commutes with two labellings then the iterator over the second labelling is, item by
item, the `f`-image of the iterator over the first — including panics, for every input.
Consequences: `Bfs` is the vertex projection of `BfsDist`; `BfsDist` and `BfsPred` are the two
projections of the level-and-predecessor labelling `labFull` used in the proofs.
-/
namespace GraafVerif.Bfs
open GraafVerif

variable {L L' : Type}

def Res.map {α β : Type} (f : α → β) : Res α → Res β
  | .panic => .panic
  | .ok a => .ok (f a)

structure LabHom (lab : Lab L) (lab' : Lab L') (f : L → L') : Prop where
  init : f lab.init = lab'.init
  child : ∀ u l, f (lab.child u l) = lab'.child u (f l)

def mapItem (f : L → L') (p : Nat × L) : Nat × L' := (p.1, f p.2)

def mapSt (f : L → L') (st : St L) : St L' := ⟨st.queue.map (mapItem f), st.visited⟩

theorem discover_map (f : L → L') (lab : L) (st : St L) (v : Nat) :
    discover (f lab) (mapSt f st) v = mapSt f (discover lab st v) := by
  unfold discover
  by_cases h : isVis st.visited v = true <;> simp [mapSt, mapItem, h]

theorem scan_map (f : L → L') (lab : L) (vs : List Nat) (st : St L) :
    scan (f lab) vs (mapSt f st) = (scan lab vs st).map (mapSt f) := by
  induction vs generalizing st with
  | nil => rfl
  | cons v vs ih =>
    simp only [scan]
    have : (mapSt f st).visited.length = st.visited.length := rfl
    rw [this]
    by_cases h : v < st.visited.length
    · simp only [h, if_true]; rw [discover_map, ih]
    · simp only [h, if_false]; rfl

theorem newFrom_map (f : L → L') (lab0 : L) (S : List Nat) (st : St L) :
    newFrom (f lab0) S (mapSt f st) = (newFrom lab0 S st).map (mapSt f) := by
  induction S generalizing st with
  | nil => rfl
  | cons s S ih =>
    simp only [newFrom]
    have : (mapSt f st).visited.length = st.visited.length := rfl
    rw [this]
    by_cases h : s < st.visited.length
    · simp only [h, if_true]
      have : (⟨(mapSt f st).queue ++ [(s, f lab0)], (mapSt f st).visited.set s true⟩ : St L')
          = mapSt f ⟨st.queue ++ [(s, lab0)], st.visited.set s true⟩ := by
        simp [mapSt, mapItem]
      rw [this, ih]
    · simp only [h, if_false]; rfl

theorem new_map (g : Graph) {lab : Lab L} {lab' : Lab L'} {f : L → L'} (hf : LabHom lab lab' f) (S : List Nat) :
    new g lab' S = (new g lab S).map (mapSt f) := by
  unfold new
  rw [← hf.init]
  exact newFrom_map f lab.init S ⟨[], List.replicate g.n false⟩

def Step.map (f : L → L') : Step L → Step L'
  | .done => .done
  | .panic => .panic
  | .yield x st => .yield (mapItem f x) (mapSt f st)

theorem next_map (g : Graph) {lab : Lab L} {lab' : Lab L'} {f : L → L'} (hf : LabHom lab lab' f) (st : St L) :
    next g lab' (mapSt f st) = (next g lab st).map f := by
  unfold next
  cases hq : st.queue with
  | nil => simp [mapSt, hq, Step.map]
  | cons p q =>
    obtain ⟨u, l⟩ := p
    simp only [mapSt, hq, List.map_cons, mapItem]
    rw [← hf.child]
    have := scan_map f (lab.child u l) (g.out u) ⟨q, st.visited⟩
    simp only [mapSt] at this
    rw [this]
    cases scan (lab.child u l) (g.out u) ⟨q, st.visited⟩ <;> simp [Res.map, Step.map, mapSt, mapItem]

theorem run_map (g : Graph) {lab : Lab L} {lab' : Lab L'} {f : L → L'} (hf : LabHom lab lab' f) :
    ∀ (fuel : Nat) (st : St L), run g lab' fuel (mapSt f st) = (run g lab fuel st).map (List.map (mapItem f)) := by
  intro fuel
  induction fuel with
  | zero => intro st; rfl
  | succ n ih =>
    intro st
    simp only [run, next_map g hf]
    cases next g lab st with
    | done => rfl
    | panic => rfl
    | yield x st' =>
      simp only [Step.map]
      rw [ih st']
      cases run g lab n st' <;> simp [Res.map]

theorem iter_map (g : Graph) {lab : Lab L} {lab' : Lab L'} {f : L → L'} (hf : LabHom lab lab' f) (S : List Nat) :
    iter g lab' S = (iter g lab S).map (List.map (mapItem f)) := by
  unfold iter
  rw [new_map g hf S]
  cases new g lab S with
  | panic => rfl
  | ok st => simp only [Res.map]; exact run_map g hf _ st

theorem hom_dist_unit : LabHom labDist labUnit (fun _ => ()) := ⟨rfl, fun _ _ => rfl⟩
theorem hom_full_dist : LabHom labFull labDist (·.1) := ⟨rfl, fun _ _ => rfl⟩
theorem hom_full_pred : LabHom labFull labPred (·.2) := ⟨rfl, fun _ _ => rfl⟩

/-- `Bfs` yields exactly the vertices of `BfsDist`, in the same order (and panics when it does). -/
theorem bfs_eq_map_fst (g : Graph) (S : List Nat) :
    bfs g S = (bfsDist g S).map (List.map (·.1)) := by
  unfold bfs bfsDist
  rw [iter_map g hom_dist_unit S]
  cases iter g labDist S <;> simp [Res.map, mapItem, Function.comp_def]

theorem bfsDist_eq_full (g : Graph) (S : List Nat) :
    bfsDist g S = (iter g labFull S).map (List.map (fun p => (p.1, p.2.1))) :=
  iter_map g hom_full_dist S

theorem bfsPred_eq_full (g : Graph) (S : List Nat) :
    bfsPred g S = (iter g labFull S).map (List.map (fun p => (p.1, p.2.2))) :=
  iter_map g hom_full_pred S

end GraafVerif.Bfs
