import GraafVerif.Proof.ChkGenBfs
import GraafVerif.Proof.DijkstraBasic
/-!
# C13 on the regenerated Dijkstra family (`Model/AlgoGen.lean`, generated from `src/algo/dijkstra*.rs`)

Direct proofs on the generated definitions for EVERY weighted digraph (successors and weights
arbitrary), every sentinel, every source list, every fuel — no "path sums fit" hypothesis is needed
for memory safety (the equality theorems of `Proof/AlgoGenDijkstra.lean` need `StepFits`).
-/
namespace GraafVerif.C13Gen
open GraafVerif GraafVerif.AlgoGen

namespace Dijkstra

/-- `dist.len() = n` and every heap entry holds a vertex `< n`: what `new` establishes and `next` keeps.
`next` reads `dist[u]` for a POPPED entry without a check — safe exactly because of this. -/
def Inv (n : Nat) (s : AlgoGen.Dijkstra) : Prop := s.dist.length = n ∧ ∀ e ∈ s.heap, e.v < n

theorem new_for0_safe {R : AlgoGen.Dijkstra → Prop} (order : Nat) (st : List Int × List Entry) (u : Nat)
    (h : st.1.length = order ∧ ∀ e ∈ st.2, e.v < order) :
    Safe (AlgoGen.Dijkstra.new_for0 order st u) (fun st' => st'.1.length = order ∧ ∀ e ∈ st'.2, e.v < order)
      (fun st' => st'.1.length = order ∧ ∀ e ∈ st'.2, e.v < order) R := by
  unfold AlgoGen.Dijkstra.new_for0
  refine safe_bind (safe_assert _) (fun _ ha => ?_)
  have hu : u < order := by simpa using ha
  refine safe_bind (safe_wr_len _ _ _ _ order h.1 hu) (fun t0 ht0 => ?_)
  refine safe_pure ⟨ht0, ?_⟩
  intro e he
  rcases List.mem_cons.mp he with he | he
  · rw [he]; exact hu
  · exact h.2 e he

/-- `Dijkstra::new` for every source list. -/
theorem new_safe (g : WGraph) (inf : Int) (S : List Nat) : RSafe (AlgoGen.Dijkstra.new g inf S) (Inv g.n) := by
  unfold AlgoGen.Dijkstra.new
  refine safe_fnBody ?_
  refine safe_bind (safe_forLoop _ _ _ (fun st => st.1.length = g.n ∧ ∀ e ∈ st.2, e.v < g.n) _
    ⟨by simp, by intro e he; cases he⟩ (fun st u _ hst => new_for0_safe g.n st u hst)) (fun t1 ht1 => ?_)
  exact safe_pure ht1

theorem next_loop0_safe (n : Nat) (self : AlgoGen.Dijkstra) (h : Inv n self) :
    Safe (AlgoGen.Dijkstra.next_loop0 self) (Inv n) (fun b => Inv n b.2 ∧ b.1.2 < n)
      (fun r => Inv n r.2 ∧ ∀ x, r.1 = some x → x < n) := by
  unfold AlgoGen.Dijkstra.next_loop0
  cases hp : heapPop self.heap with
  | none => exact safe_ret ⟨h, by intro x hx; cases hx⟩
  | some t0 =>
    simp only []
    obtain ⟨hm, he, _⟩ := GraafVerif.Dijkstra.popMax_some (e := t0.1) (h' := t0.2) hp
    have hv : t0.1.v < n := h.2 _ hm
    have hinv : Inv n { self with heap := t0.2 } :=
      ⟨h.1, fun e hh => h.2 e (by rw [he] at hh; exact List.mem_of_mem_erase hh)⟩
    refine safe_bind (safe_rd _ _ _ (by show t0.1.v < self.dist.length; rw [h.1]; exact hv)) (fun t1 _ => ?_)
    split
    · exact safe_brk ⟨hinv, hv⟩
    · exact safe_pure hinv

theorem next_for0_safe {R : Option Nat × AlgoGen.Dijkstra → Prop} (w : Int) (order : Nat) (self : AlgoGen.Dijkstra) (x : Nat × Int)
    (h : Inv order self) :
    Safe (AlgoGen.Dijkstra.next_for0 w order self x) (Inv order) (Inv order) R := by
  unfold AlgoGen.Dijkstra.next_for0
  refine safe_bind (safe_assert _) (fun _ ha => ?_)
  have hv : x.1 < order := by simpa using ha
  refine safe_bind (safe_rd _ _ _ (by rw [h.1]; exact hv)) (fun t3 _ => ?_)
  dsimp only
  split
  · refine safe_bind (safe_wr_len _ _ _ _ order h.1 hv) (fun t4 ht4 => ?_)
    refine safe_pure ⟨ht4, ?_⟩
    intro e he
    rcases List.mem_cons.mp he with he | he
    · rw [he]; exact hv
    · exact h.2 e he
  · exact safe_pure h

/-- `Dijkstra::next` on every state satisfying `Inv`, for every weighted digraph. -/
theorem next_safe (g : WGraph) (n : Nat) (s : AlgoGen.Dijkstra) (h : Inv n s) :
    RSafe (AlgoGen.Dijkstra.next g s) (fun r => Inv n r.2 ∧ ∀ x, r.1 = some x → x < n) := by
  unfold AlgoGen.Dijkstra.next
  refine safe_fnBody ?_
  refine safe_bind (safe_loopLoop _ (Inv n) (fun b => Inv n b.2 ∧ b.1.2 < n) _ (fun s' hs' => next_loop0_safe n s' hs')
    _ s h) (fun t2 ht2 => ?_)
  have hn : t2.2.dist.length = n := ht2.1.1
  refine safe_bind (safe_forLoop _ _ _ (Inv n) _ ht2.1 (fun s' x _ hs' => by
    rw [hn]; exact next_for0_safe t2.1.1 n s' x hs')) (fun s' hs' => ?_)
  refine safe_pure ⟨hs', ?_⟩
  intro x hx; cases hx; exact ht2.2

end Dijkstra

namespace DijkstraDist

/-- `dist.len() = n` and every heap entry holds a vertex `< n`: what `new` establishes and `next` keeps.
`next` reads `dist[u]` for a POPPED entry without a check — safe exactly because of this. -/
def Inv (n : Nat) (s : AlgoGen.DijkstraDist) : Prop := s.dist.length = n ∧ ∀ e ∈ s.heap, e.v < n

theorem new_for0_safe {R : AlgoGen.DijkstraDist → Prop} (order : Nat) (st : List Entry × List Int) (u : Nat)
    (h : st.2.length = order ∧ ∀ e ∈ st.1, e.v < order) :
    Safe (AlgoGen.DijkstraDist.new_for0 order st u) (fun st' => st'.2.length = order ∧ ∀ e ∈ st'.1, e.v < order)
      (fun st' => st'.2.length = order ∧ ∀ e ∈ st'.1, e.v < order) R := by
  unfold AlgoGen.DijkstraDist.new_for0
  refine safe_bind (safe_assert _) (fun _ ha => ?_)
  have hu : u < order := by simpa using ha
  refine safe_bind (safe_wr_len _ _ _ _ order h.1 hu) (fun t0 ht0 => ?_)
  refine safe_pure ⟨ht0, ?_⟩
  intro e he
  rcases List.mem_cons.mp he with he | he
  · rw [he]; exact hu
  · exact h.2 e he

/-- `DijkstraDist::new` for every source list. -/
theorem new_safe (g : WGraph) (inf : Int) (S : List Nat) : RSafe (AlgoGen.DijkstraDist.new g inf S) (Inv g.n) := by
  unfold AlgoGen.DijkstraDist.new
  refine safe_fnBody ?_
  refine safe_bind (safe_forLoop _ _ _ (fun st => st.2.length = g.n ∧ ∀ e ∈ st.1, e.v < g.n) _
    ⟨by simp, by intro e he; cases he⟩ (fun st u _ hst => new_for0_safe g.n st u hst)) (fun t1 ht1 => ?_)
  exact safe_pure ht1

theorem next_loop0_safe (n : Nat) (self : AlgoGen.DijkstraDist) (h : Inv n self) :
    Safe (AlgoGen.DijkstraDist.next_loop0 self) (Inv n) (fun b => Inv n b.2 ∧ b.1.2 < n)
      (fun r => Inv n r.2 ∧ ∀ x, r.1 = some x → x.1 < n) := by
  unfold AlgoGen.DijkstraDist.next_loop0
  cases hp : heapPop self.heap with
  | none => exact safe_ret ⟨h, by intro x hx; cases hx⟩
  | some t0 =>
    simp only []
    obtain ⟨hm, he, _⟩ := GraafVerif.Dijkstra.popMax_some (e := t0.1) (h' := t0.2) hp
    have hv : t0.1.v < n := h.2 _ hm
    have hinv : Inv n { self with heap := t0.2 } :=
      ⟨h.1, fun e hh => h.2 e (by rw [he] at hh; exact List.mem_of_mem_erase hh)⟩
    refine safe_bind (safe_rd _ _ _ (by show t0.1.v < self.dist.length; rw [h.1]; exact hv)) (fun t1 _ => ?_)
    split
    · exact safe_brk ⟨hinv, hv⟩
    · exact safe_pure hinv

theorem next_for0_safe {R : Option (Nat × Int) × AlgoGen.DijkstraDist → Prop} (w : Int) (order : Nat) (self : AlgoGen.DijkstraDist) (x : Nat × Int)
    (h : Inv order self) :
    Safe (AlgoGen.DijkstraDist.next_for0 w order self x) (Inv order) (Inv order) R := by
  unfold AlgoGen.DijkstraDist.next_for0
  refine safe_bind (safe_assert _) (fun _ ha => ?_)
  have hv : x.1 < order := by simpa using ha
  refine safe_bind (safe_rd _ _ _ (by rw [h.1]; exact hv)) (fun t3 _ => ?_)
  dsimp only
  split
  · refine safe_bind (safe_wr_len _ _ _ _ order h.1 hv) (fun t4 ht4 => ?_)
    refine safe_pure ⟨ht4, ?_⟩
    intro e he
    rcases List.mem_cons.mp he with he | he
    · rw [he]; exact hv
    · exact h.2 e he
  · exact safe_pure h

/-- `DijkstraDist::next` on every state satisfying `Inv`, for every weighted digraph. -/
theorem next_safe (g : WGraph) (n : Nat) (s : AlgoGen.DijkstraDist) (h : Inv n s) :
    RSafe (AlgoGen.DijkstraDist.next g s) (fun r => Inv n r.2 ∧ ∀ x, r.1 = some x → x.1 < n) := by
  unfold AlgoGen.DijkstraDist.next
  refine safe_fnBody ?_
  refine safe_bind (safe_loopLoop _ (Inv n) (fun b => Inv n b.2 ∧ b.1.2 < n) _ (fun s' hs' => next_loop0_safe n s' hs')
    _ s h) (fun t2 ht2 => ?_)
  have hn : t2.2.dist.length = n := ht2.1.1
  refine safe_bind (safe_forLoop _ _ _ (Inv n) _ ht2.1 (fun s' x _ hs' => by
    rw [hn]; exact next_for0_safe t2.1.1 n s' x hs')) (fun s' hs' => ?_)
  refine safe_pure ⟨hs', ?_⟩
  intro x hx; cases hx; exact ht2.2

end DijkstraDist

namespace DijkstraPred

/-- `dist.len() = n` and every heap entry holds a vertex `< n`: what `new` establishes and `next` keeps.
`next` reads `dist[u]` for a POPPED entry without a check — safe exactly because of this. -/
def Inv (n : Nat) (s : AlgoGen.DijkstraPred) : Prop := s.dist.length = n ∧ ∀ e ∈ s.heap, e.v < n

theorem new_for0_safe {R : AlgoGen.DijkstraPred → Prop} (order : Nat) (st : List Entry × List Int) (u : Nat)
    (h : st.2.length = order ∧ ∀ e ∈ st.1, e.v < order) :
    Safe (AlgoGen.DijkstraPred.new_for0 order st u) (fun st' => st'.2.length = order ∧ ∀ e ∈ st'.1, e.v < order)
      (fun st' => st'.2.length = order ∧ ∀ e ∈ st'.1, e.v < order) R := by
  unfold AlgoGen.DijkstraPred.new_for0
  refine safe_bind (safe_assert _) (fun _ ha => ?_)
  have hu : u < order := by simpa using ha
  refine safe_bind (safe_wr_len _ _ _ _ order h.1 hu) (fun t0 ht0 => ?_)
  refine safe_pure ⟨ht0, ?_⟩
  intro e he
  rcases List.mem_cons.mp he with he | he
  · rw [he]; exact hu
  · exact h.2 e he

/-- `DijkstraPred::new` for every source list. -/
theorem new_safe (g : WGraph) (inf : Int) (S : List Nat) : RSafe (AlgoGen.DijkstraPred.new g inf S) (Inv g.n) := by
  unfold AlgoGen.DijkstraPred.new
  refine safe_fnBody ?_
  refine safe_bind (safe_forLoop _ _ _ (fun st => st.2.length = g.n ∧ ∀ e ∈ st.1, e.v < g.n) _
    ⟨by simp, by intro e he; cases he⟩ (fun st u _ hst => new_for0_safe g.n st u hst)) (fun t1 ht1 => ?_)
  exact safe_pure ht1

theorem next_loop0_safe (n : Nat) (self : AlgoGen.DijkstraPred) (h : Inv n self) :
    Safe (AlgoGen.DijkstraPred.next_loop0 self) (Inv n) (fun b => Inv n b.2 ∧ b.1.2.2 < n)
      (fun r => Inv n r.2 ∧ ∀ x, r.1 = some x → x.2 < n) := by
  unfold AlgoGen.DijkstraPred.next_loop0
  cases hp : heapPop self.heap with
  | none => exact safe_ret ⟨h, by intro x hx; cases hx⟩
  | some t0 =>
    simp only []
    obtain ⟨hm, he, _⟩ := GraafVerif.Dijkstra.popMax_some (e := t0.1) (h' := t0.2) hp
    have hv : t0.1.v < n := h.2 _ hm
    have hinv : Inv n { self with heap := t0.2 } :=
      ⟨h.1, fun e hh => h.2 e (by rw [he] at hh; exact List.mem_of_mem_erase hh)⟩
    refine safe_bind (safe_rd _ _ _ (by show t0.1.v < self.dist.length; rw [h.1]; exact hv)) (fun t1 _ => ?_)
    split
    · exact safe_brk ⟨hinv, hv⟩
    · exact safe_pure hinv

theorem next_for0_safe {R : Option (Option Nat × Nat) × AlgoGen.DijkstraPred → Prop} (w : Int) (p : Nat) (order : Nat) (self : AlgoGen.DijkstraPred) (x : Nat × Int)
    (h : Inv order self) :
    Safe (AlgoGen.DijkstraPred.next_for0 w p order self x) (Inv order) (Inv order) R := by
  unfold AlgoGen.DijkstraPred.next_for0
  refine safe_bind (safe_assert _) (fun _ ha => ?_)
  have hv : x.1 < order := by simpa using ha
  refine safe_bind (safe_rd _ _ _ (by rw [h.1]; exact hv)) (fun t3 _ => ?_)
  dsimp only
  split
  · refine safe_bind (safe_wr_len _ _ _ _ order h.1 hv) (fun t4 ht4 => ?_)
    refine safe_pure ⟨ht4, ?_⟩
    intro e he
    rcases List.mem_cons.mp he with he | he
    · rw [he]; exact hv
    · exact h.2 e he
  · exact safe_pure h

/-- `DijkstraPred::next` on every state satisfying `Inv`, for every weighted digraph. -/
theorem next_safe (g : WGraph) (n : Nat) (s : AlgoGen.DijkstraPred) (h : Inv n s) :
    RSafe (AlgoGen.DijkstraPred.next g s) (fun r => Inv n r.2 ∧ ∀ x, r.1 = some x → x.2 < n) := by
  unfold AlgoGen.DijkstraPred.next
  refine safe_fnBody ?_
  refine safe_bind (safe_loopLoop _ (Inv n) (fun b => Inv n b.2 ∧ b.1.2.2 < n) _ (fun s' hs' => next_loop0_safe n s' hs')
    _ s h) (fun t2 ht2 => ?_)
  have hn : t2.2.dist.length = n := ht2.1.1
  refine safe_bind (safe_forLoop _ _ _ (Inv n) _ ht2.1 (fun s' x _ hs' => by
    rw [hn]; exact next_for0_safe t2.1.1 t2.1.2.2 n s' x hs')) (fun s' hs' => ?_)
  refine safe_pure ⟨hs', ?_⟩
  intro x hx; cases hx; exact ht2.2

end DijkstraPred

namespace DijkstraDist

theorem distances_safe (g : WGraph) (inf : Int) (fuel : Nat) (s : AlgoGen.DijkstraDist) (h : Inv g.n s) :
    RSafe (AlgoGen.DijkstraDist.distances g inf fuel s) (fun r => r.1.length = g.n ∧ Inv g.n r.2) := by
  unfold AlgoGen.DijkstraDist.distances
  refine safe_fnBody ?_
  refine safe_bind (safe_iterLoop (AlgoGen.DijkstraDist.next g) AlgoGen.DijkstraDist.distances_for0 (Inv g.n) (fun x => x.1 < g.n)
    (fun d => d.length = g.n) _ (fun t ht => next_safe g g.n t ht) ?_ fuel s _ h (by simp)) (fun t1 ht1 => safe_pure ht1)
  intro d x hd hx
  unfold AlgoGen.DijkstraDist.distances_for0
  exact safe_bind (safe_wr_len _ d x.1 x.2 g.n hd hx) (fun t0 ht0 => safe_pure ht0)

end DijkstraDist

namespace DijkstraPred

theorem predecessors_safe (g : WGraph) (fuel : Nat) (s : AlgoGen.DijkstraPred) (h : Inv g.n s) :
    RSafe (AlgoGen.DijkstraPred.predecessors g fuel s) (fun r => r.1.pred.length = g.n ∧ Inv g.n r.2) := by
  unfold AlgoGen.DijkstraPred.predecessors
  refine safe_fnBody ?_
  refine safe_bind (safe_call (PredecessorTree.new_safe g.n)) (fun t0 ht0 => ?_)
  refine safe_bind (safe_iterLoop (AlgoGen.DijkstraPred.next g) AlgoGen.DijkstraPred.predecessors_for0 (Inv g.n) (fun x => x.2 < g.n)
    (fun (p : AlgoGen.PredecessorTree) => p.pred.length = g.n) _ (fun t ht => next_safe g g.n t ht) ?_ fuel s _ h ht0)
    (fun t1 ht1 => safe_pure ht1)
  intro p x hp hx
  unfold AlgoGen.DijkstraPred.predecessors_for0
  exact safe_bind (safe_wr_len _ p.pred x.2 x.1 g.n hp hx) (fun t0 ht0 => safe_pure ht0)

theorem shortestPath_safe (g : WGraph) (fuel : Nat) (s : AlgoGen.DijkstraPred) (isT : Nat → Bool) (h : Inv g.n s) :
    RSafe (AlgoGen.DijkstraPred.shortestPath g fuel s isT) (fun _ => True) := by
  unfold AlgoGen.DijkstraPred.shortestPath
  refine safe_fnBody ?_
  refine safe_bind (safe_call (PredecessorTree.new_safe g.n)) (fun t0 ht0 => ?_)
  refine safe_bind (safe_iterLoopS (AlgoGen.DijkstraPred.next g) (AlgoGen.DijkstraPred.shortestPath_for0 fuel isT) (Inv g.n)
    (fun x => x.2 < g.n) (fun (p : AlgoGen.PredecessorTree) => p.pred.length = g.n) (fun _ => True)
    (fun t ht => next_safe g g.n t ht) ?_ fuel s _ h ht0) (fun t1 _ => safe_pure trivial)
  intro t p x _ hp hx
  unfold AlgoGen.DijkstraPred.shortestPath_for0
  refine safe_bind (safe_wr_len _ p.pred x.2 x.1 g.n hp hx) (fun t1 ht1 => ?_)
  split
  · exact safe_bind (safe_call (PredecessorTree.searchBy_safe _ _ _ _)) (fun _ _ => safe_ret trivial)
  · exact safe_pure ht1

end DijkstraPred

end GraafVerif.C13Gen
