import GraafVerif.Proof.RandEr
/-! `AdjacencyMap::erdos_renyi`: valid for every thread count, both for `p ≤ 0.5` (threaded rows)
and for `p > 0.5` (complement of the `1 - p` digraph). -/
namespace GraafVerif.Rand
open GraafVerif.Repr

theorem pow1073_pos : (0:Int) < 2^1073 := Int.pow_pos (by decide)
theorem pow1074_eq : (2:Int)^1074 = 2 * 2^1073 := by rw [← Int.pow_succ']
theorem pow1074_gt : (2:Int)^1073 < 2^1074 := by rw [pow1074_eq]; have := pow1073_pos; omega

/-- the rows collected from the workers, before `collect::<BTreeMap>` -/
def erResults (streams : Nat → Stream) (n t : Nat) (p : F64) : List (Nat × List Nat) :=
  (workers n t).flatMap fun rk => erWorker (streams rk.2) p n rk.1

/-- every thread count: the workers return exactly the rows `0..n`, in order -/
theorem erResults_keys (streams : Nat → Stream) (n t : Nat) (p : F64) (hn : 0 < n) (ht : 0 < t) :
    (erResults streams n t p).map (·.1) = List.range n := by
  have htile := Par.chunks_tile n (min n t) (by omega) hn
  rw [← htile]
  unfold erResults workers Par.expand erWorker
  rw [List.map_flatMap]
  simp only [List.map_map, Function.comp_def, List.map_id']
  rw [List.flatMap_def, List.flatMap_def]
  congr 1
  conv => rhs; rw [← List.zipIdx_map_fst 0 (Par.ranges n (min n t))]
  rw [List.map_map]; rfl

theorem mem_erResults (streams : Nat → Stream) (n t : Nat) (p : F64) (u : Nat) (row : List Nat)
    (h : (u, row) ∈ erResults streams n t p) : ∃ s base, row = erRow s p base (othersFilter n u) := by
  simp only [erResults, erWorker, List.mem_flatMap, List.mem_map, Prod.mk.injEq] at h
  obtain ⟨rk, _, a, _, rfl, rfl⟩ := h
  exact ⟨_, _, rfl⟩

theorem erResults_spec (streams : Nat → Stream) (n t : Nat) (p : F64) (hn : 0 < n) (ht : 0 < t)
    (hh : p.gtHalf = false) :
    ErArcsSpec n p ((erResults streams n t p).flatMap fun ur => ur.2.map fun v => (ur.1, v)) := by
  have hk := erResults_keys streams n t p hn ht
  refine ⟨?_, ?_, ?_⟩
  · intro a ha
    simp only [List.mem_flatMap, List.mem_map] at ha
    obtain ⟨⟨u, row⟩, hm, v, hv, rfl⟩ := ha
    have hu : u ∈ (erResults streams n t p).map (·.1) := List.mem_map.2 ⟨(u, row), hm, rfl⟩
    rw [hk, List.mem_range] at hu
    obtain ⟨s, base, rfl⟩ := mem_erResults streams n t p u row hm
    have := (mem_othersFilter n u v).1 (mem_erRow _ _ _ _ _ hv)
    exact ⟨hu, this.1, fun e => this.2 e.symm⟩
  · intro hp a ha
    simp only [List.mem_flatMap, List.mem_map] at ha
    obtain ⟨⟨u, row⟩, hm, v, hv, rfl⟩ := ha
    obtain ⟨s, base, rfl⟩ := mem_erResults streams n t p u row hm
    rw [hp, erRow_zero] at hv; simp at hv
  · intro hp; rw [hp] at hh
    simp only [F64.one, F64.gtHalf, decide_eq_false_iff_not] at hh
    exact absurd pow1074_gt hh

theorem erMapCore_realizes (streams : Nat → Stream) (n t : Nat) (p : F64) (hn : 0 < n) (ht : 0 < t) :
    Realizes (viewAM (erMapCore streams n t p)) n
      ((erResults streams n t p).flatMap fun ur => ur.2.map fun v => (ur.1, v)) :=
  realizes_collectMap n _ (erResults_keys streams n t p hn ht)

/-! ### complement -/

theorem mget_map_val {X Y : Type} (F : Nat → X → Y) (u : Nat) (l : List (Nat × X)) :
    mget u (l.map fun ur => (ur.1, F ur.1 ur.2)) = (mget u l).map (F u) := by
  induction l with
  | nil => rfl
  | cons e es ih =>
    obtain ⟨k, x⟩ := e
    simp only [List.map_cons, mget]
    split
    · subst_vars; rfl
    · split
      · rfl
      · exact ih

theorem mem_serase (a x : Nat) (l : List Nat) (hs : SortedS l) : x ∈ serase a l ↔ x ∈ l ∧ x ≠ a := by
  induction l with
  | nil => simp [serase]
  | cons y ys ih =>
    have hs' := List.pairwise_cons.1 hs
    unfold serase
    split
    · subst_vars
      constructor
      · intro hx; exact ⟨List.mem_cons_of_mem _ hx, by have := hs'.1 x hx; omega⟩
      · rintro ⟨hx, hne⟩
        rcases List.mem_cons.1 hx with h | h
        · exact absurd h hne
        · exact h
    · split
      · constructor
        · intro hx
          refine ⟨hx, ?_⟩
          rcases List.mem_cons.1 hx with h | h
          · omega
          · have := hs'.1 x h; omega
        · exact fun h => h.1
      · simp only [List.mem_cons, ih hs'.2]
        constructor
        · rintro (h | h)
          · exact ⟨Or.inl h, by omega⟩
          · exact ⟨Or.inr h.1, h.2⟩
        · rintro ⟨h | h, hne⟩
          · exact Or.inl h
          · exact Or.inr ⟨h, hne⟩

theorem sorted_sdiff_range (n : Nat) (row : List Nat) : SortedS (sdiff (List.range n) row) :=
  List.Pairwise.sublist List.filter_sublist List.pairwise_lt_range

theorem mem_sdiff (a b : List Nat) (x : Nat) : x ∈ sdiff a b ↔ x ∈ a ∧ x ∉ b := by
  simp [sdiff]

theorem mget_isSome_of_keys {X : Type} (n u : Nat) (l : List (Nat × X)) (hk : l.map (·.1) = List.range n) :
    u < n ↔ ∃ x, mget u l = some x := by
  have hs := sortedK_of_keys n l hk
  constructor
  · intro hu
    have : u ∈ l.map (·.1) := by rw [hk]; exact List.mem_range.2 hu
    obtain ⟨⟨k, x⟩, hm, rfl⟩ := List.mem_map.1 this
    exact ⟨x, mget_of_mem _ _ _ hs hm⟩
  · rintro ⟨x, hx⟩
    have : u ∈ l.map (·.1) := List.mem_map.2 ⟨(u, x), mget_mem _ _ _ hx, rfl⟩
    rw [hk] at this; exact List.mem_range.1 this

/-- complement of a map digraph on the vertex set `0..n` -/
theorem complementAM_has (n : Nat) (g : AdjMap) (hk : g.rows.map (·.1) = List.range n) (u v : Nat) :
    (complementAM g).hasArc u v = true ↔ u < n ∧ v < n ∧ v ≠ u ∧ g.hasArc u v = false := by
  have hfalse : g.hasArc u v = false ↔ ¬ ∃ row, mget u g.rows = some row ∧ v ∈ row := by
    rw [← AdjMap.hasArc_iff]; simp
  rw [hfalse, AdjMap.hasArc_iff]
  unfold complementAM
  simp only [hk]
  rw [mget_map_val (fun k row => serase k (sdiff (List.range n) row))]
  rw [mget_isSome_of_keys n u g.rows hk]
  constructor
  · rintro ⟨row', h1, h2⟩
    cases hm : mget u g.rows with
    | none => simp [hm] at h1
    | some row =>
      simp only [hm, Option.map_some, Option.some.injEq] at h1
      subst h1
      rw [mem_serase _ _ _ (sorted_sdiff_range n row), mem_sdiff, List.mem_range] at h2
      refine ⟨⟨row, rfl⟩, h2.1.1, h2.2, ?_⟩
      rintro ⟨r, hr, hv⟩
      simp only [Option.some.injEq] at hr; subst hr
      exact h2.1.2 hv
  · rintro ⟨⟨row, hm⟩, hv, hne, hno⟩
    refine ⟨_, by rw [hm]; rfl, ?_⟩
    rw [mem_serase _ _ _ (sorted_sdiff_range n row), mem_sdiff, List.mem_range]
    exact ⟨⟨hv, fun h => hno ⟨row, hm, h⟩⟩, hne⟩

theorem complementAM_keys (g : AdjMap) : (complementAM g).rows.map (·.1) = g.rows.map (·.1) := by
  simp [complementAM, List.map_map, Function.comp_def]

/-! ### the whole function -/

theorem oneMinus_facts (p : F64) (hp : p.inUnit = true) (hh : p.gtHalf = true) :
    p.oneMinus.inUnit = true ∧ p.oneMinus.gtHalf = false ∧ (p = F64.one → p.oneMinus = F64.zero) := by
  cases p with
  | nan => simp [F64.inUnit] at hp
  | inf neg => simp [F64.inUnit] at hp
  | fin num =>
    simp only [F64.inUnit, F64.gtHalf, Bool.and_eq_true, decide_eq_true_eq] at hp hh
    have hpow : (2:Int)^1074 = 2 * 2^1073 := by rw [← Int.pow_succ']
    generalize (2:Int)^1073 = H at *
    refine ⟨?_, ?_, ?_⟩
    · simp only [F64.oneMinus, F64.inUnit, Bool.and_eq_true, decide_eq_true_eq]; omega
    · simp only [F64.oneMinus, F64.gtHalf, decide_eq_false_iff_not]; omega
    · intro h1
      simp only [F64.one, F64.fin.injEq] at h1
      simp only [F64.oneMinus, F64.zero, F64.fin.injEq]; omega

theorem erAM_valid (streams : Nat → Stream) (n t : Nat) (p : F64) (hn : 1 ≤ n) (ht : 1 ≤ t) (hp : p.inUnit = true) :
    ∃ g, erAM streams n t p = some g ∧ ErValid n p (viewAM g) := by
  have h0 : ¬ n = 0 := by omega
  by_cases h1 : n = 1
  · subst h1
    refine ⟨⟨[(0, [])]⟩, by simp [erAM, erAMF, hp, empty_one_AM], ?_⟩
    exact realizes_nil_AM.er ⟨by intro a ha; simp at ha, fun _ a => by simp, fun _ u v hu hv huv => by omega⟩
  · cases hh : p.gtHalf with
    | false =>
      refine ⟨erMapCore streams n t p, by simp [erAM, erAMF, hp, h0, h1, hh], ?_⟩
      exact (erMapCore_realizes streams n t p hn ht).er (erResults_spec streams n t p hn ht hh)
    | true =>
      obtain ⟨hq1, hq2, hq3⟩ := oneMinus_facts p hp hh
      refine ⟨complementAM (erMapCore streams n t p.oneMinus), by simp [erAM, erAMF, hp, h0, h1, hh, hq1, hq2], ?_⟩
      have hreal := erMapCore_realizes streams n t p.oneMinus hn ht
      have hspec := erResults_spec streams n t p.oneMinus hn ht hq2
      have hkeys : (erMapCore streams n t p.oneMinus).rows.map (·.1) = List.range n := hreal.2.1
      have hhas := complementAM_has n _ hkeys
      refine ⟨⟨?_, ?_, fun u v huv => ?_⟩, fun hz => ?_, fun hone u v hu hv huv => ?_⟩
      · have := congrArg List.length (complementAM_keys (erMapCore streams n t p.oneMinus))
        rw [hkeys] at this
        simpa [viewAM, AdjMap.order] using this
      · show (complementAM _).rows.map (·.1) = List.range n
        rw [complementAM_keys, hkeys]
      · have := (hhas u v).1 huv
        exact ⟨this.1, this.2.1, fun e => this.2.2.1 e.symm⟩
      · rw [hz] at hh
        simp only [F64.zero, F64.gtHalf, decide_eq_true_eq] at hh
        exact absurd hh (by have := pow1073_pos; omega)
      · refine (hhas u v).2 ⟨hu, hv, fun e => huv e.symm, ?_⟩
        cases hc : (erMapCore streams n t p.oneMinus).hasArc u v with
        | false => rfl
        | true => exact absurd ((hreal.2.2 u v).1 hc) (hspec.2.1 (hq3 hone) _)

/-- fuel adequacy: the recursion `erdos_renyi(order, 1.0 - p, seed)` is at most one level deep -/
theorem erAM_fuel (streams : Nat → Stream) (n t k : Nat) (p : F64) :
    erAMF streams n t (k + 2) p = erAMF streams n t 2 p := by
  have hbase : ∀ (j : Nat) (q : F64), q.gtHalf = false → erAMF streams n t (j + 1) q = erAMF streams n t 1 q := by
    intro j q hq; simp [erAMF, hq]
  unfold erAMF
  by_cases h0 : n = 0
  · simp [h0]
  by_cases hp : p.inUnit = true
  · by_cases h1 : n = 1
    · simp [h1, hp]
    · cases hh : p.gtHalf with
      | false => simp [h1, hp]
      | true =>
        obtain ⟨_, hq2, _⟩ := oneMinus_facts p hp hh
        simp only [h0, h1, hp, if_false, if_true, Bool.not_true, Bool.false_eq_true]
        rw [hbase k _ hq2, hbase 0 _ hq2]
  · simp [h0, hp]

end GraafVerif.Rand
