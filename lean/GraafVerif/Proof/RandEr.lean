import GraafVerif.Proof.RandValid
/-! Validity of `erdos_renyi` for every stream: sequential representations, then the threaded map
variant for every thread count, including the `complement` path for `p > 0.5`. -/
namespace GraafVerif.Rand
open GraafVerif.Repr

/-- arcs-level form of `ErValid` -/
def ErArcsSpec (n : Nat) (p : F64) (arcs : List (Nat × Nat)) : Prop :=
  SimpleArcs n arcs ∧ (p = F64.zero → ∀ a, a ∉ arcs) ∧
  (p = F64.one → ∀ u v, u < n → v < n → u ≠ v → (u, v) ∈ arcs)

theorem Realizes.er {d : View} {n : Nat} {p : F64} {arcs : List (Nat × Nat)}
    (h : Realizes d n arcs) (hs : ErArcsSpec n p arcs) : ErValid n p d := by
  refine ⟨h.simple hs.1, fun hp u v => ?_, fun hp u v hu hv huv => ?_⟩
  · cases hh : d.has u v with
    | false => rfl
    | true => exact absurd ((h.2.2 u v).1 hh) (hs.2.1 hp _)
  · exact (h.2.2 u v).2 (hs.2.2 hp u v hu hv huv)

theorem erArcs_spec (s : Stream) (p : F64) (n : Nat) {cands : Nat → Nat → List Nat} (hc : GoodCands cands) :
    ErArcsSpec n p (erArcs s p n cands) :=
  ⟨erArcs_simple s p n hc, fun hp a => hp ▸ erArcs_zero s n cands a, fun hp u v hu hv huv => hp ▸ erArcs_one s n hc u v hu hv huv⟩

theorem erArcs_order_one (s : Stream) (p : F64) {cands : Nat → Nat → List Nat} (hc : GoodCands cands) :
    erArcs s p 1 cands = [] := by
  apply List.eq_nil_iff_forall_not_mem.2
  intro a ha
  have := erArcs_simple s p 1 hc a ha
  omega

/-! ## sequential representations -/

theorem erAL_realizes (s : Stream) (n : Nat) (p : F64) (hn : 1 ≤ n) (hp : p.inUnit = true) :
    ∃ g, erAL s n p = some g ∧ Realizes (viewAL g) n (erArcs s p n othersChain) := by
  unfold erAL
  have h0 : ¬ n = 0 := by omega
  by_cases h1 : n = 1
  · subst h1
    exact ⟨⟨[[]]⟩, by simp [hp, empty_one_AL], by rw [erArcs_order_one s p goodCands_chain]; exact realizes_nil_AL⟩
  · simp only [h0, h1, hp, if_false, Bool.not_true, Bool.false_eq_true]
    exact ⟨_, rfl, realizes_rows n fun u => erRow s p (u * (n - 1)) (othersChain n u)⟩

theorem erMX_realizes (s : Stream) (n : Nat) (p : F64) (hn : 1 ≤ n) (hb : FitsMatrix n) (hp : p.inUnit = true) :
    ∃ g, erMX s n p = some g ∧ Realizes (viewMX g) n (erArcs s p n othersFilter) := by
  unfold erMX
  by_cases h1 : n = 1
  · subst h1
    rw [erArcs_order_one s p goodCands_filter]
    have := realizes_foldlM_addArc_MX 1 (by omega) (by decide) [] (by intro a ha; simp at ha)
    simpa [hp] using this
  · simp only [h1, hp, if_false, Bool.not_true, Bool.false_eq_true]
    exact realizes_foldlM_addArc_MX n hn hb _ (erArcs_simple s p n goodCands_filter)

theorem erEL_realizes (s : Stream) (n : Nat) (p : F64) (hn : 1 ≤ n) (hp : p.inUnit = true) :
    ∃ g, erEL s n p = some g ∧ Realizes (viewEL g) n (erArcs s p n othersChain) := by
  unfold erEL
  have h0 : ¬ n = 0 := by omega
  simp only [h0, hp, if_false, Bool.not_true, Bool.false_eq_true]
  exact ⟨_, rfl, realizes_collectSet n _⟩

theorem erAL_valid (s : Stream) (n : Nat) (p : F64) (hn : 1 ≤ n) (hp : p.inUnit = true) :
    ∃ g, erAL s n p = some g ∧ ErValid n p (viewAL g) := by
  obtain ⟨g, h1, h2⟩ := erAL_realizes s n p hn hp; exact ⟨g, h1, h2.er (erArcs_spec s p n goodCands_chain)⟩
theorem erMX_valid (s : Stream) (n : Nat) (p : F64) (hn : 1 ≤ n) (hb : FitsMatrix n) (hp : p.inUnit = true) :
    ∃ g, erMX s n p = some g ∧ ErValid n p (viewMX g) := by
  obtain ⟨g, h1, h2⟩ := erMX_realizes s n p hn hb hp; exact ⟨g, h1, h2.er (erArcs_spec s p n goodCands_filter)⟩
theorem erEL_valid (s : Stream) (n : Nat) (p : F64) (hn : 1 ≤ n) (hp : p.inUnit = true) :
    ∃ g, erEL s n p = some g ∧ ErValid n p (viewEL g) := by
  obtain ⟨g, h1, h2⟩ := erEL_realizes s n p hn hp; exact ⟨g, h1, h2.er (erArcs_spec s p n goodCands_chain)⟩

theorem erAL_panics (s : Stream) (n : Nat) (p : F64) (hp : p.inUnit = false) : erAL s n p = none := by
  unfold erAL; simp [hp]
theorem erMX_panics (s : Stream) (n : Nat) (p : F64) (hp : p.inUnit = false) : erMX s n p = none := by
  unfold erMX; simp [hp]
theorem erEL_panics (s : Stream) (n : Nat) (p : F64) (hp : p.inUnit = false) : erEL s n p = none := by
  unfold erEL; simp [hp]
theorem erAM_panics (streams : Nat → Stream) (n t : Nat) (p : F64) (hp : p.inUnit = false) :
    erAM streams n t p = none := by
  unfold erAM erAMF; simp [hp]

end GraafVerif.Rand
