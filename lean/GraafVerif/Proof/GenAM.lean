import GraafVerif.Proof.GenAL
import GraafVerif.Proof.GenAddArcMap
/-!
# C14, AdjacencyMap: the collected `(key, row)` sequences realise the defining arc sets

The generators emit the keys `0..n` in ascending order, so `collect::<BTreeMap>()` (`mapOf`)
is the emitted sequence itself; the rows are those of the AdjacencyList generators.
-/
namespace GraafVerif.Gen
open GraafVerif.Repr GraafVerif.GenSpec

/-- collecting a key-ascending sequence into a `BTreeMap` yields that sequence -/
theorem mapOf_sorted {l : List (Nat × List Nat)} (h : SortedK l) : mapOf l = l := by
  induction l with
  | nil => rfl
  | cons x xs ih =>
    rw [sortedK_cons] at h
    have : mapOf (x :: xs) = minsertNew x.1 x.2 (mapOf xs) := rfl
    rw [this, ih h.2]
    unfold minsertNew
    cases xs with
    | nil => simp [mupsert]
    | cons y ys =>
      obtain ⟨ky, ry⟩ := y
      have hlt : x.1 < ky := h.1 (ky, ry) (List.mem_cons_self ..)
      simp [mupsert, hlt]

namespace AM

theorem eq_map_range {l : List (Nat × List Nat)} {n : Nat} {f : Nat → List Nat}
    (hlen : l.length = n) (hrow : ∀ u, u < n → l[u]? = some (u, f u)) :
    l = (List.range n).map (fun u => (u, f u)) := by
  apply List.ext_getElem?
  intro i
  by_cases hi : i < n
  · rw [hrow i hi, List.getElem?_map, List.getElem?_range hi]; rfl
  · rw [List.getElem?_eq_none (by omega), List.getElem?_eq_none (by simp; omega)]

theorem realises_of_rows {l : List (Nat × List Nat)} {n : Nat} {P : Nat → Nat → Prop} (f : Nat → List Nat)
    (hlen : l.length = n)
    (hrow : ∀ u, u < n → l[u]? = some (u, f u))
    (hsorted : ∀ u, u < n → SortedS (f u))
    (hmem : ∀ u, u < n → ∀ v, v ∈ f u ↔ P u v)
    (hvalid : ∀ u v, P u v → u < n ∧ v < n ∧ u ≠ v) :
    mapOf l = l ∧ Realises ⟨l⟩ n P := by
  have hl := eq_map_range hlen hrow
  have hkeys : l.map (·.1) = List.range n := by
    rw [hl, List.map_map]; simp [Function.comp_def]
  have hs : SortedK l := by
    unfold SortedK
    have hp : (l.map (·.1)).Pairwise (· < ·) := by rw [hkeys]; exact List.pairwise_lt_range
    exact List.pairwise_map.mp hp
  have hin : ∀ u row, (u, row) ∈ l → u < n ∧ row = f u := by
    intro u row h
    rw [hl] at h
    obtain ⟨w, hw, he⟩ := List.mem_map.mp h
    obtain ⟨rfl, rfl⟩ := Prod.mk.inj he
    exact ⟨List.mem_range.mp hw, rfl⟩
  have hmemrow : ∀ u, u < n → (u, f u) ∈ l := by
    intro u hu; exact List.mem_of_getElem? (hrow u hu)
  refine ⟨mapOf_sorted hs, ⟨hs, ?_⟩, hlen, hkeys, ?_⟩
  · intro u row h
    obtain ⟨hu, rfl⟩ := hin u row h
    refine ⟨hsorted u hu, ?_⟩
    intro v hv
    have := hvalid u v ((hmem u hu v).mp hv)
    refine ⟨fun e => this.2.2 e.symm, ?_⟩
    show (mget v l).isSome
    rw [mget_isSome_iff hs, hkeys, List.mem_range]; exact this.2.1
  · intro u v
    rw [mem_arcs]
    constructor
    · rintro ⟨row, h, hv⟩
      obtain ⟨hu, rfl⟩ := hin u row h
      exact (hmem u hu v).mp hv
    · intro hP
      have hu := (hvalid u v hP).1
      exact ⟨f u, hmemrow u hu, (hmem u hu v).mpr hP⟩

/-- packaged form: the generator returns `some ⟨mapOf l⟩` -/
theorem spec_of_rows {l : List (Nat × List Nat)} {n : Nat} {P : Nat → Nat → Prop} (f : Nat → List Nat)
    (hlen : l.length = n) (hrow : ∀ u, u < n → l[u]? = some (u, f u))
    (hsorted : ∀ u, u < n → SortedS (f u)) (hmem : ∀ u, u < n → ∀ v, v ∈ f u ↔ P u v)
    (hvalid : ∀ u v, P u v → u < n ∧ v < n ∧ u ≠ v) :
    ∃ d, some (⟨mapOf l⟩ : AdjMap) = some d ∧ Realises d n P := by
  obtain ⟨h1, h2⟩ := realises_of_rows f hlen hrow hsorted hmem hvalid
  exact ⟨⟨l⟩, by rw [h1], h2⟩

theorem empty_spec {n : Nat} (hn : 1 ≤ n) : ∃ d, empty n = some d ∧ Realises d n (EmptyDef n) := by
  have h0 : n ≠ 0 := by omega
  refine ⟨⟨(List.range n).map (fun u => (u, []))⟩, by simp [empty, AdjMap.empty, h0], ?_⟩
  refine (realises_of_rows (fun _ => []) (by simp) ?_ ?_ ?_ ?_).2
  · intro u hu; rw [List.getElem?_map, List.getElem?_range hu]; rfl
  · intro u _; simp [SortedS]
  · intro u _ v; simp [EmptyDef]
  · intro u v h; exact h.elim

theorem trivial_realises {P : Nat → Nat → Prop} (hP : ∀ u v, ¬ P u v) :
    ∃ d, trivial = some d ∧ Realises d 1 P := by
  obtain ⟨d, hd, hwf, ho, hv, harcs⟩ := empty_spec (n := 1) (Nat.le_refl 1)
  refine ⟨d, hd, hwf, ho, hv, ?_⟩
  intro u v; rw [harcs]; simp [EmptyDef, hP]

theorem circuit_spec {n : Nat} (hn : 1 ≤ n) : ∃ d, circuit n = some d ∧ Realises d n (CircuitDef n) := by
  unfold circuit
  by_cases h1 : n = 1
  · subst h1
    simpa using trivial_realises (P := CircuitDef 1) (by intro u v h; unfold CircuitDef at h; omega)
  · have h0 : n ≠ 0 := by omega
    simp only [h0, h1, if_false]
    apply spec_of_rows (fun u => ssetOf [(u + 1) % n]) (by simp [length_rangeFT])
    · intro u hu
      rw [List.getElem?_map, getElem?_rangeFT (by omega)]; simp
    · intro u _; exact sorted_ssetOf _
    · intro u hu v
      rw [mem_ssetOf]; simp only [List.mem_singleton, CircuitDef]
      constructor
      · intro h; exact ⟨by omega, hu, h⟩
      · intro h; exact h.2.2
    · intro u v h; exact circuitDef_valid h

theorem cycle_spec {n : Nat} (hn : 1 ≤ n) : ∃ d, cycle n = some d ∧ Realises d n (CycleDef n) := by
  unfold cycle
  by_cases h1 : n = 1
  · subst h1
    simpa using trivial_realises (P := CycleDef 1) (by intro u v h; unfold CycleDef CircuitDef at h; omega)
  · have h0 : n ≠ 0 := by omega
    simp only [h0, h1, if_false]
    apply spec_of_rows (fun u => ssetOf [(u + n - 1) % n, (u + 1) % n]) (by simp [length_rangeFT])
    · intro u hu
      rw [List.getElem?_map, getElem?_rangeFT (by omega)]; simp
    · intro u _; exact sorted_ssetOf _
    · intro u hu v
      rw [mem_ssetOf]
      simp only [List.mem_cons, List.not_mem_nil, or_false, CycleDef, CircuitDef]
      rw [pred_mod hu, succ_mod hu]
      constructor
      · rintro (h | h)
        · right
          have hv : v < n := by split at h <;> omega
          refine ⟨by omega, hv, ?_⟩
          rw [succ_mod hv]
          split at h <;> split <;> omega
        · left; exact ⟨by omega, hu, h⟩
      · rintro (⟨_, _, h⟩ | ⟨_, hv, h⟩)
        · right; exact h
        · left
          rw [succ_mod hv] at h
          split at h <;> split <;> omega
    · intro u v h; exact cycleDef_valid h

theorem path_spec {n : Nat} (hn : 1 ≤ n) : ∃ d, path n = some d ∧ Realises d n (PathDef n) := by
  unfold path
  by_cases h1 : n = 1
  · subst h1
    simpa using trivial_realises (P := PathDef 1) (by intro u v h; unfold PathDef at h; omega)
  · have h0 : n ≠ 0 := by omega
    simp only [h0, h1, if_false]
    apply spec_of_rows (fun u => if u < n - 1 then ssetOf [u + 1] else []) (by simp [length_rangeFT]; omega)
    · intro u hu
      rw [List.getElem?_append]
      simp only [List.length_map, length_rangeFT, Nat.sub_zero]
      split
      · rename_i h
        rw [List.getElem?_map, getElem?_rangeFT (by omega)]; simp
      · have : u - (n - 1) = 0 := by omega
        have hu' : u = n - 1 := by omega
        simp [hu']
    · intro u _; split
      · exact sorted_ssetOf _
      · simp [SortedS]
    · intro u hu v
      unfold PathDef
      split
      · rw [mem_ssetOf]; simp; omega
      · simp; omega
    · intro u v h; exact pathDef_valid h

theorem star_rows {n : Nat} {g : Nat → List Nat} {u : Nat} (hu : u < n) (hn : 2 ≤ n) :
    ((0, ssetOf (rangeFT 1 n)) :: (rangeFT 1 n).map (fun u => (u, g u)))[u]? =
      some (u, if u = 0 then ssetOf (rangeFT 1 n) else g u) := by
  cases u with
  | zero => simp
  | succ k =>
    rw [List.getElem?_cons_succ, List.getElem?_map, getElem?_rangeFT (by omega)]
    simp [Nat.add_comm]

theorem star_spec {n : Nat} (hn : 1 ≤ n) : ∃ d, star n = some d ∧ Realises d n (StarDef n) := by
  unfold star
  by_cases h1 : n = 1
  · subst h1
    simpa using trivial_realises (P := StarDef 1) (by intro u v h; unfold StarDef at h; omega)
  · have h0 : n ≠ 0 := by omega
    simp only [h0, h1, if_false]
    apply spec_of_rows (fun u => if u = 0 then ssetOf (rangeFT 1 n) else ssetOf [0])
      (by simp [length_rangeFT]; omega)
    · intro u hu; exact star_rows hu (by omega)
    · intro u _; split <;> exact sorted_ssetOf _
    · intro u hu v
      unfold StarDef
      split
      · rw [mem_ssetOf, mem_rangeFT]; omega
      · rw [mem_ssetOf]; simp; omega
    · intro u v h; exact starDef_valid h

theorem wheel_tail {n k : Nat} (hn : 4 ≤ n) (hk : k + 2 < n) {f : Nat → Nat × List Nat} {x : Nat × List Nat} :
    ((rangeFT 2 (n - 1)).map f ++ [x])[k]? = some (if k + 2 = n - 1 then x else f (k + 2)) := by
  rw [List.getElem?_append]
  simp only [List.length_map, length_rangeFT]
  split
  · rename_i h
    rw [List.getElem?_map, getElem?_rangeFT h]
    have h1 : ¬ (k + 2 = n - 1) := by omega
    simp [h1, Nat.add_comm]
  · have h1 : k + 2 = n - 1 := by omega
    have h2 : k - (n - 1 - 2) = 0 := by omega
    simp [h1, h2]

theorem wheel_spec {n : Nat} (hn : 4 ≤ n) : ∃ d, wheel n = some d ∧ Realises d n (WheelDef n) := by
  unfold wheel
  have h4 : ¬ ¬ n ≥ 4 := by omega
  simp only [h4, if_false]
  apply spec_of_rows (fun u => if u = 0 then ssetOf (rangeFT 1 n) else
      if u = 1 then ssetOf [0, n - 1, 2] else if u = n - 1 then ssetOf [0, n - 2, 1]
      else ssetOf [0, u - 1, u + 1])
    (by simp [length_rangeFT]; omega)
  · intro u hu
    match u, hu with
    | 0, _ => simp
    | 1, _ =>
      have : ¬ (1 = n - 1) := by omega
      simp
    | k + 2, hk =>
      simp only [List.cons_append, List.nil_append, List.getElem?_cons_succ]
      rw [wheel_tail hn hk]
      have e0 : ¬ (k + 2 = 0) := by omega
      have e1 : ¬ (k + 2 = 1) := by omega
      by_cases h1 : k + 2 = n - 1
      · have g0 : ¬ (n - 1 = 0) := by omega
        have g1 : ¬ (n = 2) := by omega
        simp [h1, g0, g1]
      · simp [h1, e1]
  · intro u _; split
    · exact sorted_ssetOf _
    · split
      · exact sorted_ssetOf _
      · split <;> exact sorted_ssetOf _
  · intro u hu v
    unfold WheelDef StarDef RimDef rimNext
    split
    · rw [mem_ssetOf, mem_rangeFT]
      constructor
      · intro h; left; left; omega
      · rintro ((h | h) | (h | h))
        · omega
        · omega
        · omega
        · split at h <;> omega
    · have key : v ∈ (if u = 1 then ssetOf [0, n - 1, 2] else if u = n - 1 then ssetOf [0, n - 2, 1]
          else ssetOf [0, u - 1, u + 1]) ↔
          (v = 0 ∨ v = (if u = 1 then n - 1 else u - 1) ∨ v = (if u = n - 1 then 1 else u + 1)) := by
        split
        · rename_i h1; subst h1
          have : ¬ (1 = n - 1) := by omega
          rw [mem_ssetOf]; simp [this]
        · split
          · rename_i h1 h2
            rw [mem_ssetOf]; simp only [List.mem_cons, List.not_mem_nil, or_false]; omega
          · rw [mem_ssetOf]; simp
      rw [key]
      constructor
      · rintro (h | h | h)
        · left; right; omega
        · right; right
          refine ⟨by split at h <;> omega, by split at h <;> omega, ?_⟩
          split at h <;> split <;> omega
        · right; left; exact ⟨by omega, hu, h⟩
      · rintro ((h | h) | (h | h))
        · omega
        · left; omega
        · right; right; exact h.2.2
        · right; left
          obtain ⟨h1, h2, h3⟩ := h
          split at h3 <;> split <;> omega
  · intro u v h; exact wheelDef_valid hn h

theorem biclique_spec {m n : Nat} (hm : 1 ≤ m) (hn : 1 ≤ n) :
    ∃ d, biclique m n = some d ∧ Realises d (m + n) (BicliqueDef m n) := by
  unfold biclique
  have h0 : m ≠ 0 := by omega
  have h0' : n ≠ 0 := by omega
  simp only [h0, h0', if_false]
  apply spec_of_rows (fun u => if u < m then ssetOf (rangeFT m (m + n)) else ssetOf (rangeFT 0 m))
    (by simp)
  · intro u hu
    rw [List.getElem?_map, List.getElem?_zipIdx, List.getElem?_append]
    simp only [List.length_replicate, List.getElem?_replicate]
    split
    · simp
    · have : u - m < n := by omega
      simp [this]
  · intro u _; split <;> exact sorted_ssetOf _
  · intro u hu v
    unfold BicliqueDef
    split <;> (rw [mem_ssetOf, mem_rangeFT]; omega)
  · intro u v h; exact bicliqueDef_valid h

theorem claw_spec : ∃ d, claw = some d ∧ Realises d 4 (BicliqueDef 1 3) :=
  biclique_spec (Nat.le_refl 1) (by decide)
theorem utility_spec : ∃ d, utility = some d ∧ Realises d 6 (BicliqueDef 3 3) :=
  biclique_spec (by decide) (by decide)

/-! ### `complete`: a loop of `BTreeMap::insert` with ascending keys -/

theorem minsert_append {k : Nat} {row : List Nat} {m : List (Nat × List Nat)}
    (h : ∀ p ∈ m, p.1 < k) : minsert k row m = m ++ [(k, row)] := by
  induction m with
  | nil => simp [minsert, mupsert]
  | cons y ys ih =>
    obtain ⟨ky, ry⟩ := y
    have hy : ky < k := h (ky, ry) (List.mem_cons_self ..)
    have h1 : ¬ k < ky := by omega
    have h2 : ¬ k = ky := by omega
    unfold minsert at ih ⊢
    simp only [mupsert, h1, h2, if_false, List.cons_append]
    rw [ih (fun p hp => h p (List.mem_cons_of_mem _ hp))]

theorem complete_loop (g : Nat → List Nat) (k : Nat) :
    (List.range k).foldl (fun m u => minsert u (g u) m) [] = (List.range k).map (fun u => (u, g u)) := by
  induction k with
  | zero => rfl
  | succ k ih =>
    rw [List.range_succ, List.foldl_append, ih]
    simp only [List.foldl_cons, List.foldl_nil, List.map_append, List.map_cons, List.map_nil]
    apply minsert_append
    intro p hp
    obtain ⟨w, hw, he⟩ := List.mem_map.mp hp
    rw [← he]; exact List.mem_range.mp hw

theorem complete_spec {n : Nat} (hn : 1 ≤ n) : ∃ d, complete n = some d ∧ Realises d n (CompleteDef n) := by
  unfold complete
  by_cases h1 : n = 1
  · subst h1
    simpa using trivial_realises (P := CompleteDef 1) (by intro u v h; unfold CompleteDef at h; omega)
  · have h0 : n ≠ 0 := by omega
    simp only [h0, h1, if_false]
    have hr : rangeFT 0 n = List.range n := by simp [rangeFT, List.range_eq_range']
    rw [show (rangeFT 0 n).foldl (fun m u => minsert u (serase u (ssetOf (rangeFT 0 n))) m) [] =
          (List.range n).map (fun u => (u, serase u (ssetOf (rangeFT 0 n)))) from by
        rw [hr]; exact complete_loop (fun u => serase u (ssetOf (List.range n))) n]
    refine ⟨_, rfl, ?_⟩
    refine (realises_of_rows (fun u => serase u (ssetOf (rangeFT 0 n))) (by simp) ?_ ?_ ?_ ?_).2
    · intro u hu; rw [List.getElem?_map, List.getElem?_range hu]; rfl
    · intro u _; exact sorted_serase (sorted_ssetOf _)
    · intro u hu v
      rw [mem_serase (sorted_ssetOf _), mem_ssetOf, mem_rangeFT]
      unfold CompleteDef; omega
    · intro u v h; exact completeDef_valid h

end AM
end GraafVerif.Gen
