import GraafVerif.Proof.JohnsonCircuit
import GraafVerif.Proof.JohnsonTarjan
import GraafVerif.Spec.Johnson
/-!
# Soundness of the whole `circuits` loop (`circuits_sound`)
-/
set_option linter.unusedVariables false
namespace GraafVerif.Johnson
open GraafVerif

/-! ### `min_by_key` -/

theorem minByKey_spec : ∀ (cs : List (List Nat)) (m : List Nat), minByKey cs = some m →
    m ∈ cs ∧ ∀ c ∈ cs, keyLt c.head? m.head? = false := by
  intro cs m h
  cases cs with
  | nil => simp [minByKey] at h
  | cons c cs =>
    simp only [minByKey, Option.some.injEq] at h
    have key : ∀ (xs : List (List Nat)) (best : List Nat),
        let r := xs.foldl (fun best x => if keyLt x.head? best.head? then x else best) best
        (r = best ∨ r ∈ xs) ∧ keyLt best.head? r.head? = false ∧ ∀ x ∈ xs, keyLt x.head? r.head? = false := by
      intro xs
      induction xs with
      | nil =>
        intro best
        refine ⟨Or.inl rfl, ?_, by simp⟩
        show keyLt best.head? best.head? = false
        generalize best.head? = k
        cases k <;> simp [keyLt]
      | cons x xs ih =>
        intro best
        simp only [List.foldl_cons]
        have hih := ih (if keyLt x.head? best.head? then x else best)
        simp only [] at hih
        obtain ⟨h1, h2, h3⟩ := hih
        -- transitivity of the key order
        have trans : ∀ (p q r : Option Nat), keyLt p q = false → keyLt q r = false → keyLt p r = false := by
          intro p q r
          cases p <;> cases q <;> cases r <;> simp [keyLt] <;> omega
        have tot : ∀ (p q : Option Nat), keyLt p q = true → keyLt q p = false := by
          intro p q
          cases p <;> cases q <;> simp [keyLt] <;> omega
        have refl : ∀ (p : Option Nat), keyLt p p = false := by
          intro p; cases p <;> simp [keyLt]
        by_cases hk : keyLt x.head? best.head? = true
        · simp only [hk, if_true] at h1 h2 h3 ⊢
          refine ⟨?_, trans _ _ _ (tot _ _ hk) h2, ?_⟩
          · rcases h1 with h1 | h1
            · right; rw [h1]; simp
            · right; simp [h1]
          · intro y hy
            rcases List.mem_cons.1 hy with rfl | hy
            · exact h2
            · exact h3 y hy
        · have hk' : keyLt x.head? best.head? = false := by simpa using hk
          simp only [hk', Bool.false_eq_true, if_false] at h1 h2 h3 ⊢
          refine ⟨?_, h2, ?_⟩
          · rcases h1 with h1 | h1
            · left; exact h1
            · right; simp [h1]
          · intro y hy
            rcases List.mem_cons.1 hy with rfl | hy
            · exact trans _ _ _ hk' h2
            · exact h3 y hy
    have := key cs c
    simp only [] at this
    rw [h] at this
    obtain ⟨h1, h2, h3⟩ := this
    refine ⟨?_, ?_⟩
    · rcases h1 with h1 | h1
      · simp [h1]
      · simp [h1]
    · intro y hy
      rcases List.mem_cons.1 hy with rfl | hy
      · exact h2
      · exact h3 y hy


/-! ### small list facts -/

theorem filter_range_head (n s : Nat) (h : s < n) :
    ∃ rest, (List.range n).filter (fun u => decide (s ≤ u)) = s :: rest := by
  induction n with
  | zero => omega
  | succ n ih =>
    rw [List.range_succ, List.filter_append]
    by_cases hs : s < n
    · obtain ⟨rest, hr⟩ := ih hs
      exact ⟨rest ++ _, by rw [hr]; rfl⟩
    · have hsn : s = n := by omega
      subst hsn
      have : (List.range s).filter (fun u => decide (s ≤ u)) = [] := by
        rw [List.filter_eq_nil_iff]
        intro a ha
        have := List.mem_range.1 ha
        simp; omega
      rw [this]
      exact ⟨[], by simp⟩

theorem getLast_of_eq_snoc {c p : List Nat} {z : Nat} (h : c = p ++ [z]) (hne : c ≠ []) :
    c.getLast hne = z := by
  subst h; simp

theorem isWalk_mono (g1 g2 : Graph) (h : ∀ u v, g1.A u v → g2.A u v) : ∀ (c : List Nat),
    IsWalk g1 c → IsWalk g2 c
  | [], _ => trivial
  | [_], _ => trivial
  | a :: b :: t, hw => ⟨h a b hw.1, isWalk_mono g1 g2 h (b :: t) hw.2⟩

/-! ### `resetFor` -/

theorem resetFor_spec : ∀ (vs : List Nat) (st : JState),
    (resetFor vs st).stack = st.stack ∧ (resetFor vs st).result = st.result ∧
    (∀ x, x ∈ (resetFor vs st).blocked → x ∈ st.blocked ∧ x ∉ vs) ∧
    ((∀ y, y ∉ st.blocked → st.Bof y = []) → ∀ y, y ∉ (resetFor vs st).blocked → (resetFor vs st).Bof y = [])
  | [], st => ⟨rfl, rfl, fun x hx => ⟨hx, by simp⟩, fun h => h⟩
  | v :: vs, st => by
    have ih := resetFor_spec vs { st with blocked := st.blocked.filter (· != v), B := st.B.set v [] }
    have e : resetFor (v :: vs) st =
        resetFor vs { st with blocked := st.blocked.filter (· != v), B := st.B.set v [] } := rfl
    rw [e]
    refine ⟨ih.1, ih.2.1, ?_, ?_⟩
    · intro x hx
      have := ih.2.2.1 x hx
      simp [List.mem_filter] at this
      exact ⟨this.1.1, by simp [this.1.2, this.2]⟩
    · intro h1
      apply ih.2.2.2
      intro y hy
      have hB := Bof_set st v [] y
      simp only [JState.Bof] at hB ⊢
      rw [hB]
      split
      · rfl
      · rename_i hne
        by_cases hyv : y = v
        · subst hyv
          simp at hne
          simp [hne]
        · apply h1
          intro hyb
          apply hy
          simp [List.mem_filter, hyb, hyv]

/-! ### one round of the outer loop -/

/-- Invariant between rounds. -/
structure GInv (st : JState) : Prop where
  i1 : ∀ y, y ∉ st.blocked → st.Bof y = []
  stack : st.stack = []

/-- What round `s` does to the state. -/
structure RoundPost (g : Graph) (s : Nat) (st st' : JState) : Prop where
  ginv : GInv st'
  res : ∃ new, st'.result = st.result ++ new ∧ new.Nodup ∧
    ∀ c ∈ new, IsCanonicalElemCircuit g c ∧ c.head? = some s

theorem good_canonical (g : Graph) (hloops : NoLoops g) (comp : AM) (s : Nat) (p : Nat → Prop)
    (hout : ∀ u v, v ∈ comp.out u → v ∈ g.out u) (hverts : ∀ x ∈ comp.verts, s ≤ x)
    (c : List Nat) (e : List Nat) (hc : c = s :: e) (hg : Good comp s c) :
    IsCanonicalElemCircuit g c := by
  obtain ⟨pp, z, hpz, hz⟩ := hg.close
  have hne : e ≠ [] := by
    intro he
    subst he
    rw [hc] at hpz
    have : pp = [] ∧ s = z := by
      cases pp with
      | nil => simp at hpz; exact ⟨rfl, hpz⟩
      | cons a t =>
        have := congrArg List.length hpz
        simp at this
    rw [← this.2] at hz
    exact hloops s (hout s s hz)
  refine ⟨s, e, hc, hne, hg.nd, isWalk_mono comp.gr g (fun u v h => hout u v h) c hg.walk, ?_, ?_⟩
  · have := getLast_of_eq_snoc (hc ▸ hpz) (List.cons_ne_nil s e)
    rw [this]
    exact hout z s hz
  · intro x hx
    have h1 : s ≤ x := hverts x (hg.sub x (by rw [hc]; simp [hx]))
    have h2 : s ≠ x := by
      intro h; subst h
      have := hg.nd
      rw [hc] at this
      exact (List.nodup_cons.1 this).1 hx
    omega

theorem round_post (g : Graph) (hwf : g.WF) (hloops : NoLoops g) (hrows : RowsNodup g)
    (s : Nat) (hs : s < g.n) (st : JState) (hst : GInv st) :
    RoundPost g s st (circuitsStep (AM.ofGraph g) st s) := by
  have hsame : RoundPost g s st st := ⟨hst, [], by simp, by simp, by simp⟩
  unfold circuitsStep
  simp only []
  -- Tarjan on the subgraph induced by the vertices ≥ s
  obtain ⟨rest, hrest⟩ := filter_range_head g.n s hs
  have htj := tarjan_facts ((AM.ofGraph g).filter (fun u => decide (s ≤ u))) (fun x => s ≤ x)
    (by
      intro u _ v hv
      simp only [AM.filter, AM.ofGraph] at hv
      split at hv
      · simp [List.mem_filter] at hv; exact hv.2
      · simp at hv)
    (by
      intro u hu
      simp only [AM.filter, AM.ofGraph, List.mem_filter] at hu
      simpa using hu.2)
    s rest (by simp only [AM.filter, AM.ofGraph]; exact hrest)
  generalize tarjan ((AM.ofGraph g).filter (fun u => decide (s ≤ u))) = comps at htj
  obtain ⟨hcomps, cs, hcs, hscs⟩ := htj
  cases hmin : minByKey comps with
  | none => exact hsame
  | some minScc =>
    simp only []
    obtain ⟨hmem, hle⟩ := minByKey_spec comps minScc hmin
    split
    · -- component.order > 0
      cases hhead : minScc.head? with
      | none => exact hsame
      | some start =>
        simp only []
        -- start = s
        have hstart_mem : start ∈ minScc := List.mem_of_mem_head? hhead
        have hP := hcomps minScc hmem
        have h1 : s ≤ start := hP.2.2 start hstart_mem
        have h2 : start ≤ s := by
          have hcsP := hcomps cs hcs
          cases hch : cs.head? with
          | none =>
            cases cs with
            | nil => simp at hscs
            | cons a t => simp at hch
          | some h =>
            have hhs : h ≤ s := asc_head_le hcsP.1 hch s hscs
            have := hle cs hcs
            rw [hch, hhead] at this
            simp [keyLt] at this
            omega
        have hss : start = s := by omega
        subst hss
        -- the component and the state after the reset
        generalize hcomp : (AM.ofGraph g).filter (fun u => minScc.contains u) = comp
        have hcverts : ∀ x, x ∈ comp.verts ↔ x < g.n ∧ x ∈ minScc := by
          intro x; rw [← hcomp]; simp [AM.filter, AM.ofGraph, List.mem_filter]
        have hcout : ∀ u v, v ∈ comp.out u → v ∈ g.out u ∧ v ∈ minScc := by
          intro u v hv
          rw [← hcomp] at hv
          simp only [AM.filter, AM.ofGraph] at hv
          split at hv
          · simp [List.mem_filter] at hv; exact hv
          · simp at hv
        have hrow : ∀ u, (comp.out u).Nodup := by
          intro u
          rw [← hcomp]
          simp only [AM.filter, AM.ofGraph]
          split
          · exact (hrows u).sublist List.filter_sublist
          · simp
        have hclosed : ∀ u ∈ comp.verts, ∀ w ∈ comp.out u, w ∈ comp.verts := by
          intro u _ w hw
          have := hcout u w hw
          exact (hcverts w).2 ⟨(hwf u w this.1).2, this.2⟩
        have hR := resetFor_spec comp.verts st
        have hsv : start ∈ comp.verts := (hcverts start).2 ⟨hs, hstart_mem⟩
        have hinv0 : Inv comp (resetFor comp.verts st) := by
          refine ⟨hR.2.2.2 hst.i1, ?_, ?_, ?_, ?_⟩
          · intro l1 a l2 h; rw [hR.1, hst.stack] at h; simp at h
          · intro x hx; rw [hR.1, hst.stack] at hx; simp at hx
          · rw [hR.1, hst.stack]; simp
          · intro x hx; rw [hR.1, hst.stack] at hx; simp at hx
        have hlen : comp.verts.length ≤ (AM.ofGraph g).order + 1 + (resetFor comp.verts st).stack.length := by
          rw [← hcomp]
          simp only [AM.filter, AM.ofGraph, AM.order]
          have := List.length_filter_le (fun u => minScc.contains u) (List.range g.n)
          omega
        have hpost := circuit_post comp start ((AM.ofGraph g).order + 1) hrow hclosed
          ((AM.ofGraph g).order + 1) (resetFor comp.verts st) start hinv0
          (fun hb => (hR.2.2.1 start hb).2 hsv) hsv
          (by rw [hR.1, hst.stack]; trivial) hlen
        obtain ⟨new, hres, hnew, hgood⟩ := hpost.res
        refine ⟨⟨hpost.inv.i1, by rw [hpost.stack, hR.1, hst.stack]⟩, new, by rw [hres, hR.2.1], hnew, ?_⟩
        intro c hc
        obtain ⟨hg, e, he⟩ := hgood c hc
        rw [hR.1, hst.stack] at he
        simp at he
        refine ⟨good_canonical g hloops comp start (fun _ => True) (fun u v h => (hcout u v h).1)
          (fun x hx => hP.2.2 x ((hcverts x).1 hx).2) c e he hg, by rw [he]; rfl⟩
    · exact hsame

/-- Soundness of the model of `Johnson75::circuits`: every returned list is a canonical
elementary circuit and no list is returned twice. -/
theorem circuits_sound (g : Graph) (hwf : g.WF) (hloops : NoLoops g) (hrows : RowsNodup g) :
    (circuits g).Nodup ∧ ∀ c ∈ circuits g, IsCanonicalElemCircuit g c := by
  have key : ∀ (ss : List Nat) (st : JState), ss.Nodup → (∀ s ∈ ss, s < g.n) → GInv st →
      st.result.Nodup → (∀ c ∈ st.result, IsCanonicalElemCircuit g c ∧ ∀ h, c.head? = some h → h ∉ ss) →
      (ss.foldl (circuitsStep (AM.ofGraph g)) st).result.Nodup ∧
        ∀ c ∈ (ss.foldl (circuitsStep (AM.ofGraph g)) st).result, IsCanonicalElemCircuit g c := by
    intro ss
    induction ss with
    | nil => intro st _ _ _ h1 h2; exact ⟨h1, fun c hc => (h2 c hc).1⟩
    | cons s ss ih =>
      intro st hnd hlt hst h1 h2
      simp only [List.foldl_cons]
      have hnd' := List.nodup_cons.1 hnd
      have hr := round_post g hwf hloops hrows s (hlt s (by simp)) st hst
      obtain ⟨new, hres, hnew, hgood⟩ := hr.res
      apply ih _ hnd'.2 (fun x hx => hlt x (by simp [hx])) hr.ginv
      · rw [hres, List.nodup_append]
        refine ⟨h1, hnew, ?_⟩
        intro a ha b hb hab
        subst hab
        have := (h2 a ha).2 s (hgood a hb).2
        simp at this
      · intro c hc
        rw [hres] at hc
        rcases List.mem_append.1 hc with hc | hc
        · refine ⟨(h2 c hc).1, fun h hh hm => (h2 c hc).2 h hh (by simp [hm])⟩
        · refine ⟨(hgood c hc).1, fun h hh hm => ?_⟩
          rw [(hgood c hc).2] at hh
          simp at hh
          subst hh
          exact hnd'.1 hm
  unfold circuits circuitsAM
  exact key _ _ List.nodup_range (fun s hs => List.mem_range.1 hs)
    ⟨fun y _ => by simp only [JState.Bof, List.getElem?_replicate]; split <;> rfl, rfl⟩ (by simp) (by simp)

end GraafVerif.Johnson
