import GraafVerif.Proof.ChkReprA
/-!
# `random_tournament`, `merge_two_sorted`, `AdjacencyList::{union, complement}` — C13, P1 (part B)
-/
namespace GraafVerif.Chk

theorem mem_expand_bounds {rs : List (Nat × Nat)} {n u : Nat} (hb : ∀ r ∈ rs, r.2 ≤ n)
    (hu : u ∈ expandRanges rs) : u < n := by
  unfold expandRanges at hu
  rw [List.mem_flatMap] at hu
  obtain ⟨r, hr, hur⟩ := hu
  rw [List.mem_range'_1] at hur
  have := hb r hr
  omega

theorem randomTournamentRows_spec (site : String) (order : Nat) (us : List Nat) (coin : Nat → Nat → Bool)
    (hus : ∀ u ∈ us, u < order) (arcs : Rows) (ha : arcs.length = order) :
    NoUB (randomTournamentRows site order us coin arcs) ∧
    ∀ r, randomTournamentRows site order us coin arcs = .ok r → r.length = order := by
  unfold randomTournamentRows
  refine foldlM_inv_mem (fun (a : Rows) => a.length = order) _ _ ?_ arcs ha
  intro a u hu hal
  have hu' := hus u hu
  refine foldlM_inv_mem (fun (a : Rows) => a.length = order) _ _ ?_ a hal
  intro a' v hv hal'
  have hv' := (mem_forRange hv).2
  split
  · have hlt : u < a'.length := by rw [hal']; exact hu'
    constructor
    · exact noUB_bind (noUB_rd hlt) (fun _ _ => noUB_wr hlt)
    · intro r h
      obtain ⟨_, _, h⟩ := bind_ok h
      rw [wr_length h]; exact hal'
  · have hlt : v < a'.length := by rw [hal']; exact hv'
    constructor
    · exact noUB_bind (noUB_rd hlt) (fun _ _ => noUB_wr hlt)
    · intro r h
      obtain ⟨_, _, h⟩ := bind_ok h
      rw [wr_length h]; exact hal'

/-- `AdjacencyList::random_tournament` for every order and every coin sequence. -/
theorem alRandomTournament_noUB (order : Nat) (coin : Nat → Nat → Bool) : NoUB (alRandomTournament order coin) := by
  unfold alRandomTournament
  exact (randomTournamentRows_spec _ order _ coin (fun u hu => (mem_forRange hu).2) _ (by simp)).1

/-- `AdjacencyMap::random_tournament` for every order, thread count and coin sequence. -/
theorem amRandomTournament_noUB (order t : Nat) (coin : Nat → Nat → Bool) : NoUB (amRandomTournament order t coin) := by
  unfold amRandomTournament
  have hus : ∀ u ∈ expandRanges (threadRanges order (min order t)), u < order := by
    intro u hu
    exact mem_expand_bounds (fun r hr => (threadRangesGo_bounds order _ _ _ r hr).2) hu
  obtain ⟨h1, h2⟩ := randomTournamentRows_spec "adjacency_map/mod.rs:random_tournament:shared_arcs.get_unchecked" order _ coin
    hus (List.replicate order []) (by simp)
  apply noUB_bind h1
  intro arcs harcs
  have hl := h2 arcs harcs
  refine (mapM_inv _ (fun _ => True) _ ?_).1
  intro u hu
  rw [List.mem_range] at hu
  exact ⟨noUB_rd (by rw [hl]; exact hu), fun _ _ => trivial⟩

/-! ### `merge_two_sorted` -/

theorem mergeMain_noUB (site : String) (lhs rhs : List Nat) :
    ∀ (fuel i j : Nat) (out : List Nat), NoUB (mergeMain site lhs rhs fuel i j out) := by
  intro fuel
  induction fuel with
  | zero => intro i j out; unfold mergeMain; exact noUB_pure _
  | succ fuel ih =>
    intro i j out
    unfold mergeMain
    split
    · rename_i hc
      simp only [Bool.and_eq_true, decide_eq_true_eq] at hc
      apply noUB_bind (noUB_rd hc.1); intro _ _
      apply noUB_bind (noUB_rd hc.2); intro _ _
      split
      · exact ih _ _ _
      · split
        · exact ih _ _ _
        · exact ih _ _ _
    · exact noUB_pure _

theorem mergeTail_noUB (site : String) (l : List Nat) :
    ∀ (fuel i : Nat) (out : List Nat), NoUB (mergeTail site l fuel i out) := by
  intro fuel
  induction fuel with
  | zero => intro i out; unfold mergeTail; exact noUB_pure _
  | succ fuel ih =>
    intro i out
    unfold mergeTail
    split
    · rename_i hc
      exact noUB_bind (noUB_rd hc) (fun _ _ => ih _ _)
    · exact noUB_pure _

/-- `merge_two_sorted` for arbitrary slices (sorted or not). -/
theorem mergeTwoSorted_noUB (site : String) (lhs rhs : List Nat) : NoUB (mergeTwoSorted site lhs rhs) := by
  unfold mergeTwoSorted
  apply noUB_bind (mergeMain_noUB site lhs rhs _ _ _ _)
  intro r _
  obtain ⟨out, i, j⟩ := r
  exact noUB_bind (mergeTail_noUB site lhs _ _ _) (fun _ _ => mergeTail_noUB site rhs _ _ _)

/-! ### `AdjacencyList::union` -/

/-- The workers of `union` write every slot `0..order` exactly once (`write(arcs_ptr.add(u), …)`
overwrites without dropping: each overwritten value is the empty set placed by `vec![…; order]`,
which owns no allocation). -/
theorem alUnion_writes_once (order t : Nat) (h : 0 < divCeil order t) :
    expandRanges (stepRanges order (divCeil order t)) = List.range order :=
  steps_tile order _ h

/-- `union` for arbitrary rows and EVERY thread count. -/
theorem alUnion_noUB (a b : Rows) (t : Nat) : NoUB (alUnion a b t) := by
  unfold alUnion
  apply noUB_bind (noUB_assert _); intro _ hc
  have hc : 0 < divCeil (max a.length b.length) t := by simpa using assert_ok hc
  rw [alUnion_writes_once _ _ hc]
  refine (foldlM_inv_mem (fun (arcs : Rows) => arcs.length = max a.length b.length) _ _ ?_ _ (by simp)).1
  intro arcs u hu hal
  rw [List.mem_range] at hu
  have hlt : u < arcs.length := by rw [hal]; exact hu
  constructor
  · apply noUB_bind
    · split
      · rename_i h; exact noUB_rd h
      · exact noUB_pure _
    intro _ _
    apply noUB_bind
    · split
      · rename_i h; exact noUB_rd h
      · exact noUB_pure _
    intro _ _
    exact noUB_bind (mergeTwoSorted_noUB _ _ _) (fun _ _ => noUB_wr hlt)
  · intro r h
    obtain ⟨_, _, h⟩ := bind_ok h
    obtain ⟨_, _, h⟩ := bind_ok h
    obtain ⟨_, _, h⟩ := bind_ok h
    rw [wr_length h]; exact hal

/-! ### `AdjacencyList::complement` -/

theorem complementRow_noUB (full out : List Nat) (u : Nat) :
    ∀ (fuel i j : Nat) (diff : List Nat), NoUB (complementRow full out u fuel i j diff) := by
  intro fuel
  induction fuel with
  | zero => intro i j diff; unfold complementRow; exact noUB_pure _
  | succ fuel ih =>
    intro i j diff
    unfold complementRow
    split
    · rename_i hc
      simp only [Bool.and_eq_true, decide_eq_true_eq] at hc
      apply noUB_bind (noUB_rd hc.1); intro _ _
      split
      · exact ih _ _ _
      · apply noUB_bind (noUB_rd hc.2); intro _ _
        split
        · exact ih _ _ _
        · exact ih _ _ _
    · split
      · rename_i hi
        exact noUB_bind (noUB_rd hi) (fun _ _ => ih _ _ _)
      · exact noUB_pure _

/-- `complement` for arbitrary rows and EVERY thread count; the workers produce the rows
`0..order` exactly once, in order (`chunks_tile`). -/
theorem alComplement_noUB (rows : Rows) (t : Nat) : NoUB (alComplement rows t) := by
  unfold alComplement
  refine (mapM_inv _ (fun _ => True) _ ?_).1
  intro u hu
  have hu' : u < rows.length :=
    mem_expand_bounds (fun r hr => (threadRangesGo_bounds rows.length _ _ _ r hr).2) hu
  refine ⟨?_, fun _ _ => trivial⟩
  exact noUB_bind (noUB_rd hu') (fun _ _ => complementRow_noUB _ _ _ _ _ _ _)

theorem alComplement_rows_once (order t : Nat) (ht : 0 < t) (hn : 0 < order) :
    expandRanges (threadRanges order (min order t)) = List.range order :=
  chunks_tile order (min order t) (by omega) hn

end GraafVerif.Chk
