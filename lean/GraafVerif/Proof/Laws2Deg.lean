import GraafVerif.Proof.LawsDeg
/-!
# Laws2 — sizes and degree facts of `star`, `wheel`, `path`, `biclique` (exact order conditions)

`symmetric ⇒ balanced`; out-degrees of the generated digraphs from their defining arc sets; `is_regular`
as an `⇔` in the parameters; `size`.  Generic over a `Rep` bundle, as `Proof/LawsGen.lean`.
-/
namespace GraafVerif.Laws2
open GraafVerif.Ops GraafVerif.Query GraafVerif.Pred GraafVerif.GenSpec GraafVerif.Gen GraafVerif.Laws

/-! ## generalities -/

theorem symmetric_indeg {G : Digraph} (h : Def.IsSymmetric G) (u : Nat) : Spec.indegree G u = Spec.outdegree G u :=
  (deg_swap (G := G) (G' := G) rfl (fun a b => ⟨h a b, h b a⟩) u).1

theorem symmetric_balanced {G : Digraph} (h : Def.IsSymmetric G) : Def.IsBalanced G := fun u _ => symmetric_indeg h u

theorem gen_symmetric {G : Digraph} {n : Nat} {P : Nat → Nat → Prop} (h : IsGen G n P) (hs : ∀ u v, P u v → P v u) :
    Def.IsSymmetric G := fun u v x => (h.adj v u).mpr (hs u v ((h.adj u v).mp x))

theorem regular_out {G : Digraph} {n : Nat} (hv : G.verts = List.range n) (h : Def.IsRegular G) {a b : Nat}
    (ha : a < n) (hb : b < n) : Spec.outdegree G a = Spec.outdegree G b := by
  obtain ⟨k, hk⟩ := h
  rw [(hk a (by rw [hv]; exact List.mem_range.mpr ha)).2, (hk b (by rw [hv]; exact List.mem_range.mpr hb)).2]

theorem regular_in_out {G : Digraph} {n : Nat} (hv : G.verts = List.range n) (h : Def.IsRegular G) {a : Nat}
    (ha : a < n) : Spec.indegree G a = Spec.outdegree G a := regular_balanced h a (by rw [hv]; exact List.mem_range.mpr ha)

theorem filter_range_disj (p p1 p2 : Nat → Bool) (n : Nat) (h : ∀ y, y < n → p y = (p1 y || p2 y))
    (hd : ∀ y, y < n → ¬ (p1 y = true ∧ p2 y = true)) :
    ((List.range n).filter p).length = ((List.range n).filter p1).length + ((List.range n).filter p2).length := by
  induction n with
  | zero => simp
  | succ n ih =>
    simp only [List.range_succ, List.filter_append, List.length_append]
    rw [ih (fun y hy => h y (by omega)) (fun y hy => hd y (by omega))]
    have := h n (by omega)
    have := hd n (by omega)
    cases h1 : p1 n <;> cases h2 : p2 n <;> simp_all <;> omega

/-! ## star -/

theorem star_outdeg {G : Digraph} {n : Nat} (h : IsGen G n (StarDef n)) (u : Nat) (hu : u < n) :
    Spec.outdegree G u = if u = 0 then n - 1 else 1 := by
  rw [outdeg_eq h.verts]
  by_cases h0 : u = 0
  · rw [if_pos h0]
    apply filter_range_allbut _ n 0 (by omega)
    intro y hy; rw [h.adj]; unfold StarDef; subst h0
    constructor
    · rintro (⟨_, b, _⟩ | ⟨_, b, _⟩) <;> omega
    · intro c; exact Or.inl ⟨rfl, by omega, hy⟩
  · rw [if_neg h0]
    apply filter_range_unique _ n 0 (by omega)
    intro y hy; rw [h.adj]; unfold StarDef
    constructor
    · rintro (⟨a, _, _⟩ | ⟨a, _, _⟩)
      · omega
      · exact a
    · intro c; exact Or.inr ⟨c, by omega, hu⟩

theorem star_size {G : Digraph} {n : Nat} (hn : 1 ≤ n) (h : IsGen G n (StarDef n)) : Spec.size G = 2 * (n - 1) := by
  obtain ⟨k, rfl⟩ : ∃ k, n = k + 1 := ⟨n - 1, by omega⟩
  rw [size_eq_sum, h.verts, List.range_succ_eq_map, List.map_cons, List.sum_cons, List.map_map,
    star_outdeg h 0 (by omega), if_pos rfl,
    sum_map_const _ _ 1 (fun u hu => by
      have := List.mem_range.mp hu
      show Spec.outdegree G (u + 1) = 1
      rw [star_outdeg h (u + 1) (by omega), if_neg (by omega)])]
  simp only [List.length_range]; omega

theorem star_regular_iff {G : Digraph} {n : Nat} (hn : 1 ≤ n) (h : IsGen G n (StarDef n)) : Def.IsRegular G ↔ n ≤ 2 := by
  have hs : Def.IsSymmetric G := gen_symmetric h (fun _ _ x => x.symm)
  constructor
  · intro hr
    apply Classical.byContradiction; intro hn3
    have := regular_out h.verts hr (a := 0) (b := 1) (by omega) (by omega)
    rw [star_outdeg h 0 (by omega), star_outdeg h 1 (by omega), if_pos rfl, if_neg (by omega)] at this
    omega
  · intro h2
    have ho : ∀ u, u < n → Spec.outdegree G u = n - 1 := fun u hu => by
      rw [star_outdeg h u hu]; split <;> omega
    exact regular_of_const h.verts ho (fun u hu => by rw [symmetric_indeg hs, ho u hu])

/-! ## path -/

theorem path_indeg_zero {G : Digraph} {n : Nat} (h : IsGen G n (PathDef n)) : Spec.indegree G 0 = 0 := by
  rw [indeg_eq h.verts, filter_range_none _ n (fun y _ => adj_false h (fun x => by have := x.2; omega))]; rfl

theorem path_regular_iff {G : Digraph} {n : Nat} (hn : 1 ≤ n) (h : IsGen G n (PathDef n)) :
    (Def.IsRegular G ↔ n = 1) ∧ (Def.IsBalanced G ↔ n = 1) := by
  have hb : Def.IsBalanced G → n = 1 := by
    intro hb
    apply Classical.byContradiction; intro hne
    have := hb 0 (by rw [h.verts]; exact List.mem_range.mpr (by omega))
    rw [path_indeg_zero h, path_outdeg h 0 (by omega), if_pos (by omega)] at this
    omega
  have hr : n = 1 → Def.IsRegular G := by
    intro e; subst e
    have hno : ∀ a b, ¬ PathDef 1 a b := fun a b x => by have := x.1; omega
    refine regular_of_const (k := 0) h.verts (fun u _ => ?_) (fun u _ => ?_)
    · rw [outdeg_eq h.verts, filter_range_none _ 1 (fun y _ => adj_false h (hno _ _))]; rfl
    · rw [indeg_eq h.verts, filter_range_none _ 1 (fun y _ => adj_false h (hno _ _))]; rfl
  exact ⟨⟨fun x => hb (regular_balanced x), hr⟩, ⟨hb, fun e => regular_balanced (hr e)⟩⟩

/-! ## biclique -/

theorem biclique_regular_iff {G : Digraph} {m n : Nat} (hm : 1 ≤ m) (hn : 1 ≤ n) (h : IsGen G (m + n) (BicliqueDef m n)) :
    Def.IsRegular G ↔ m = n := by
  have hs : Def.IsSymmetric G := gen_symmetric h (fun _ _ x => x.symm)
  constructor
  · intro hr
    have := regular_out h.verts hr (a := 0) (b := m) (by omega) (by omega)
    rw [biclique_outdeg h 0 (by omega), biclique_outdeg h m (by omega), if_pos (by omega), if_neg (by omega)] at this
    exact this.symm
  · intro e
    have ho : ∀ u, u < m + n → Spec.outdegree G u = m := fun u hu => by
      rw [biclique_outdeg h u hu]; split <;> omega
    exact regular_of_const h.verts ho (fun u hu => by rw [symmetric_indeg hs, ho u hu])

/-! ## wheel (`n ≥ 4`) -/

/-- predecessor on the rim -/
def rimPrev (n u : Nat) : Nat := if u = 1 then n - 1 else u - 1

theorem wheel_adj_rim {n u y : Nat} (hn : 4 ≤ n) (hu1 : 1 ≤ u) (hu : u < n) (hy : y < n) :
    WheelDef n u y ↔ y = 0 ∨ (y = rimNext n u ∨ y = rimPrev n u) := by
  unfold WheelDef StarDef RimDef rimPrev rimNext
  constructor
  · rintro ((⟨a, _, _⟩ | ⟨a, _, _⟩) | (⟨_, _, c⟩ | ⟨a, b, c⟩))
    · omega
    · exact Or.inl a
    · exact Or.inr (Or.inl c)
    · refine Or.inr (Or.inr ?_)
      split at c <;> split <;> omega
  · rintro (a | a | a)
    · exact Or.inl (Or.inr ⟨a, hu1, hu⟩)
    · exact Or.inr (Or.inl ⟨hu1, hu, a⟩)
    · refine Or.inr (Or.inr ⟨?_, hy, ?_⟩)
      · split at a <;> omega
      · split at a <;> split <;> omega

theorem wheel_outdeg {G : Digraph} {n : Nat} (hn : 4 ≤ n) (h : IsGen G n (WheelDef n)) (u : Nat) (hu : u < n) :
    Spec.outdegree G u = if u = 0 then n - 1 else 3 := by
  rw [outdeg_eq h.verts]
  by_cases h0 : u = 0
  · rw [if_pos h0]
    apply filter_range_allbut _ n 0 (by omega)
    intro y hy; rw [h.adj]; subst h0
    unfold WheelDef StarDef RimDef
    constructor
    · rintro ((⟨_, b, _⟩ | ⟨_, b, _⟩) | (⟨a, _, _⟩ | ⟨_, _, c⟩))
      · omega
      · omega
      · omega
      · intro e; subst e; unfold rimNext at c; split at c <;> omega
    · intro c; exact Or.inl (Or.inl ⟨rfl, by omega, hy⟩)
  · rw [if_neg h0]
    have hnext : rimNext n u < n ∧ 1 ≤ rimNext n u := by unfold rimNext; split <;> omega
    have hprev : rimPrev n u < n ∧ 1 ≤ rimPrev n u := by unfold rimPrev; split <;> omega
    have hne : rimNext n u ≠ rimPrev n u := by unfold rimNext rimPrev; split <;> split <;> omega
    rw [filter_range_disj _ (fun y => decide (y = 0)) (fun y => decide (y = rimNext n u ∨ y = rimPrev n u)) n
      (fun y hy => by
        have := (h.adj u y).trans (wheel_adj_rim hn (by omega) hu hy)
        cases hp : G.adj u y
        · have : ¬ (y = 0 ∨ (y = rimNext n u ∨ y = rimPrev n u)) := fun x => by rw [this.mpr x] at hp; cases hp
          simp; omega
        · have := this.mp hp
          simp; omega)
      (fun y _ => by simp; omega),
      filter_range_unique _ n 0 (by omega) (fun y _ => by simp),
      filter_range_two _ n (rimNext n u) (rimPrev n u) hnext.1 hprev.1 hne (fun y _ => by simp)]

theorem wheel_size {G : Digraph} {n : Nat} (hn : 4 ≤ n) (h : IsGen G n (WheelDef n)) : Spec.size G = 4 * (n - 1) := by
  obtain ⟨k, rfl⟩ : ∃ k, n = k + 1 := ⟨n - 1, by omega⟩
  rw [size_eq_sum, h.verts, List.range_succ_eq_map, List.map_cons, List.sum_cons, List.map_map,
    wheel_outdeg hn h 0 (by omega), if_pos rfl,
    sum_map_const _ _ 3 (fun u hu => by
      have := List.mem_range.mp hu
      show Spec.outdegree G (u + 1) = 3
      rw [wheel_outdeg hn h (u + 1) (by omega), if_neg (by omega)])]
  simp only [List.length_range]; omega

theorem wheel_symm (n : Nat) : ∀ u v, WheelDef n u v → WheelDef n v u :=
  fun _ _ x => x.elim (fun y => Or.inl y.symm) (fun y => Or.inr y.symm)

theorem wheel_regular_iff {G : Digraph} {n : Nat} (hn : 4 ≤ n) (h : IsGen G n (WheelDef n)) : Def.IsRegular G ↔ n = 4 := by
  have hs : Def.IsSymmetric G := gen_symmetric h (wheel_symm n)
  constructor
  · intro hr
    have := regular_out h.verts hr (a := 0) (b := 1) (by omega) (by omega)
    rw [wheel_outdeg hn h 0 (by omega), wheel_outdeg hn h 1 (by omega), if_pos rfl, if_neg (by omega)] at this
    omega
  · intro e
    have ho : ∀ u, u < n → Spec.outdegree G u = 3 := fun u hu => by
      rw [wheel_outdeg hn h u hu]; split <;> omega
    exact regular_of_const h.verts ho (fun u hu => by rw [symmetric_indeg hs, ho u hu])

/-! ## generic over a bundle -/
namespace Rep
open GraafVerif.Laws.Rep
variable {R : Type} {M : Laws.Rep R}

/-- a symmetric digraph is balanced -/
theorem symmetric_balanced' {g : R} (hg : M.WF g) (h : M.isSymmetric g = true) : M.isBalanced g = some true :=
  (balanced_iff hg).mpr (symmetric_balanced ((M.unary g hg).symmetric.mp h))

/-- `star n`: `2(n-1)` arcs, balanced, regular exactly for `n ≤ 2` -/
theorem gen_star_degrees {n : Nat} (hn : 1 ≤ n) (hf : M.fits n) :
    ∃ s, M.fam.star n = some s ∧ M.size s = 2 * (n - 1) ∧ M.isBalanced s = some true ∧
      (M.isRegular s = some true ↔ n ≤ 2) := by
  obtain ⟨s, e, hs, as, vs⟩ := g_star (M := M) hn hf
  have hg := isGen_of as vs
  exact ⟨s, e, by rw [size_eq hs, star_size hn hg],
    (balanced_iff hs).mpr (symmetric_balanced (gen_symmetric hg (fun _ _ x => x.symm))),
    (regular_iff hs).trans (star_regular_iff hn hg)⟩

/-- `path n`: regular, and balanced, exactly for `n = 1` -/
theorem gen_path_degrees {n : Nat} (hn : 1 ≤ n) (hf : M.fits n) :
    ∃ p, M.fam.path n = some p ∧ (M.isRegular p = some true ↔ n = 1) ∧ (M.isBalanced p = some true ↔ n = 1) := by
  obtain ⟨p, e, hp, ap, vp⟩ := g_path (M := M) hn hf
  have hg := isGen_of ap vp
  exact ⟨p, e, (regular_iff hp).trans (path_regular_iff hn hg).1, (balanced_iff hp).trans (path_regular_iff hn hg).2⟩

/-- `biclique m n`: balanced; regular exactly for `m = n` -/
theorem gen_biclique_degrees {m n : Nat} (hm : 1 ≤ m) (hn : 1 ≤ n) (hf : M.fits (m + n)) :
    ∃ b, M.fam.biclique m n = some b ∧ M.isBalanced b = some true ∧ (M.isRegular b = some true ↔ m = n) := by
  obtain ⟨b, e, hb, ab, vb⟩ := g_biclique (M := M) hm hn hf
  have hg := isGen_of ab vb
  exact ⟨b, e, (balanced_iff hb).mpr (symmetric_balanced (gen_symmetric hg (fun _ _ x => x.symm))),
    (regular_iff hb).trans (biclique_regular_iff hm hn hg)⟩

/-- `wheel n` (`n ≥ 4`): `4(n-1)` arcs, balanced, regular exactly for `n = 4` (`wheel 4 = complete 4`) -/
theorem gen_wheel_degrees {n : Nat} (hn : 4 ≤ n) (hf : M.fits n) :
    ∃ w k, M.fam.wheel n = some w ∧ M.fam.complete n = some k ∧ M.size w = 4 * (n - 1) ∧ M.isBalanced w = some true ∧
      (M.isRegular w = some true ↔ n = 4) ∧ (w = k ↔ n = 4) := by
  obtain ⟨w, e, hw, aw, vw⟩ := g_wheel (M := M) hn hf
  obtain ⟨k, e2, hk, ak, vk⟩ := g_complete (M := M) (show 1 ≤ n by omega) hf
  have hg := isGen_of aw vw
  refine ⟨w, k, e, e2, by rw [size_eq hw, wheel_size hn hg],
    (balanced_iff hw).mpr (symmetric_balanced (gen_symmetric hg (wheel_symm n))),
    (regular_iff hw).trans (wheel_regular_iff hn hg), ?_⟩
  constructor
  · intro ewk
    have h1 : M.size w = 4 * (n - 1) := by rw [size_eq hw, wheel_size hn hg]
    have h2 : M.size k = n * (n - 1) := by
      rw [size_eq hk, size_of_const vk (fun u hu => (complete_deg (isGen_of ak vk) u hu).1)]
    rw [ewk, h2] at h1
    have : n - 1 ≠ 0 := by omega
    have := Nat.eq_of_mul_eq_mul_right (by omega : 0 < n - 1) h1
    exact this
  · intro e4; subst e4
    apply eq_of_abs hw hk
    rw [aw, ak, DG.ext_iff']
    refine ⟨fun _ => Iff.rfl, fun u v => ?_⟩
    show WheelDef 4 u v ↔ CompleteDef 4 u v
    constructor
    · intro x
      have hb : u < 4 ∧ v < 4 ∧ u ≠ v := by
        have := abs_valid hw u v (by rw [aw]; exact x)
        rw [aw] at this; exact this
      exact hb
    · rintro ⟨a, b, c⟩
      have : u = 0 ∨ u = 1 ∨ u = 2 ∨ u = 3 := by omega
      have : v = 0 ∨ v = 1 ∨ v = 2 ∨ v = 3 := by omega
      rcases ‹u = 0 ∨ u = 1 ∨ u = 2 ∨ u = 3› with rfl | rfl | rfl | rfl <;>
        rcases ‹v = 0 ∨ v = 1 ∨ v = 2 ∨ v = 3› with rfl | rfl | rfl | rfl <;>
        first | exact absurd rfl c | decide

end Rep
end GraafVerif.Laws2
