import GraafVerif.Proof.JohnsonSound
/-!
# `circuit` preserves `Inv` and emits only good, pairwise different paths (`circuit_post`)
-/
set_option linter.unusedVariables false
namespace GraafVerif.Johnson
open GraafVerif

/-- What an emitted list looks like: a duplicate-free walk of the component that extends the
stack `S ++ [v]` and whose last vertex has an arc to `s`. -/
structure Good (comp : AM) (s : Nat) (c : List Nat) : Prop where
  nd : c.Nodup
  walk : IsWalk comp.gr c
  close : ∃ p z, c = p ++ [z] ∧ s ∈ comp.out z
  sub : ∀ x ∈ c, x ∈ comp.verts

/-- Which neighbour `w` of `v` an emitted list went through. -/
def Tag (s : Nat) (S : List Nat) (v : Nat) (c : List Nat) (w : Nat) : Prop :=
  (w = s ∧ c = S ++ [v]) ∨ (w ≠ s ∧ ∃ e, c = S ++ v :: w :: e)

theorem Tag.inj {s : Nat} {S : List Nat} {v : Nat} {c : List Nat} {w w' : Nat}
    (h : Tag s S v c w) (h' : Tag s S v c w') : w = w' := by
  rcases h with ⟨h1, h2⟩ | ⟨h1, e, h2⟩ <;> rcases h' with ⟨h3, h4⟩ | ⟨h3, e', h4⟩
  · exact h1.trans h3.symm
  · rw [h2] at h4
    have := congrArg List.length h4
    simp at this
  · rw [h4] at h2
    have := congrArg List.length h2
    simp at this
  · rw [h2] at h4
    have := List.append_cancel_left h4
    simp at this
    exact this.1

/-- Postcondition of `circuit … st v`. -/
structure Post (comp : AM) (s : Nat) (st : JState) (v : Nat) (r : Bool × JState) : Prop where
  inv : Inv comp r.2
  stack : r.2.stack = st.stack
  fail : r.1 = false → (∀ x ∈ st.blocked, x ∈ r.2.blocked) ∧ v ∈ r.2.blocked
  res : ∃ new, r.2.result = st.result ++ new ∧ new.Nodup ∧
    ∀ c ∈ new, Good comp s c ∧ ∃ e, c = st.stack ++ v :: e

/-- Hypothesis on the recursive call used inside the neighbour loop. -/
def RecOK (comp : AM) (s : Nat) (fuel : Nat) (rec : JState → Nat → Bool × JState) : Prop :=
  ∀ st w, Inv comp st → w ∉ st.blocked → w ∈ comp.verts → IsWalk comp.gr (st.stack ++ [w]) →
    comp.verts.length ≤ fuel + st.stack.length → Post comp s st w (rec st w)

structure FoldPost (comp : AM) (s : Nat) (S : List Nat) (v : Nat) (ws : List Nat)
    (acc r : Bool × JState) : Prop where
  inv : Inv comp r.2
  stack : r.2.stack = S ++ [v]
  fail : r.1 = false → acc.1 = false ∧ (∀ x ∈ acc.2.blocked, x ∈ r.2.blocked) ∧
    ∀ w ∈ ws, w ∈ r.2.blocked ∧ w ≠ s
  res : ∃ new, r.2.result = acc.2.result ++ new ∧ new.Nodup ∧
    ∀ c ∈ new, Good comp s c ∧ ∃ w ∈ ws, Tag s S v c w

theorem circuit_fold (comp : AM) (s fuel : Nat) (rec : JState → Nat → Bool × JState)
    (hrec : RecOK comp s fuel rec) (hclosed : ∀ u ∈ comp.verts, ∀ w ∈ comp.out u, w ∈ comp.verts)
    (S : List Nat) (v : Nat) (hfuel : comp.verts.length ≤ fuel + 1 + S.length) :
    ∀ (ws : List Nat) (acc : Bool × JState), ws.Nodup → (∀ w ∈ ws, w ∈ comp.out v) →
      Inv comp acc.2 → acc.2.stack = S ++ [v] → IsWalk comp.gr (S ++ [v]) →
      FoldPost comp s S v ws acc (ws.foldl (circuitStep rec s) acc)
  | [], acc, _, _, hinv, hst, _ =>
    ⟨hinv, hst, fun h => ⟨h, fun _ hx => hx, fun _ hw => by simp at hw⟩, [], by simp, by simp, by simp⟩
  | w :: ws, acc, hnd, hout, hinv, hst, hwalk => by
    have hnd' := List.nodup_cons.1 hnd
    have hvS : v ∈ acc.2.stack := by rw [hst]; simp
    have hvc : v ∈ comp.verts := hinv.sub v hvS
    have hwv : w ∈ comp.out v := hout w (by simp)
    simp only [List.foldl_cons]
    -- the three branches of `circuitStep`
    by_cases hws : w = s
    · -- emission
      have hacc' : circuitStep rec s acc w =
          (true, { acc.2 with result := acc.2.result ++ [acc.2.stack] }) := by
        simp [circuitStep, hws]
      rw [hacc']
      have ih := circuit_fold comp s fuel rec hrec hclosed S v hfuel ws
        (true, { acc.2 with result := acc.2.result ++ [acc.2.stack] }) hnd'.2
        (fun x hx => hout x (by simp [hx]))
        (Inv.congr (st := acc.2) rfl rfl rfl hinv) hst hwalk
      refine ⟨ih.inv, ih.stack, ?_, ?_⟩
      · intro hf
        have := (ih.fail hf).1
        simp at this
      · obtain ⟨new, hres, hnew, hgood⟩ := ih.res
        refine ⟨(S ++ [v]) :: new, ?_, ?_, ?_⟩
        · rw [hres]; simp [hst]
        · refine List.nodup_cons.2 ⟨?_, hnew⟩
          intro hmem
          obtain ⟨_, w', hw', htag⟩ := hgood _ hmem
          have : Tag s S v (S ++ [v]) w := Or.inl ⟨hws, rfl⟩
          have := this.inj htag
          subst this
          exact hnd'.1 hw'
        · intro c hc
          rcases List.mem_cons.1 hc with rfl | hc
          · refine ⟨⟨?_, hwalk, ⟨S, v, rfl, by rw [← hws]; exact hwv⟩, ?_⟩, w, by simp, Or.inl ⟨hws, rfl⟩⟩
            · rw [← hst]; exact hinv.nd
            · rw [← hst]; exact hinv.sub
          · obtain ⟨hg, w', hw', htag⟩ := hgood c hc
            exact ⟨hg, w', by simp [hw'], htag⟩
    · by_cases hbl : acc.2.isBlocked w = true
      · -- blocked neighbour: skipped
        have hacc' : circuitStep rec s acc w = acc := by
          simp [circuitStep, hws, hbl]
        have ih := circuit_fold comp s fuel rec hrec hclosed S v hfuel ws acc hnd'.2
          (fun x hx => hout x (by simp [hx])) hinv hst hwalk
        rw [hacc']
        have hwb : w ∈ acc.2.blocked := by simpa [JState.isBlocked] using hbl
        refine ⟨ih.inv, ih.stack, ?_, ?_⟩
        · intro hf
          obtain ⟨h1, h2, h3⟩ := ih.fail hf
          refine ⟨h1, h2, ?_⟩
          intro x hx
          rcases List.mem_cons.1 hx with rfl | hx
          · exact ⟨h2 _ hwb, hws⟩
          · exact h3 x hx
        · obtain ⟨new, hres, hnew, hgood⟩ := ih.res
          refine ⟨new, hres, hnew, ?_⟩
          intro c hc
          obtain ⟨hg, w', hw', htag⟩ := hgood c hc
          exact ⟨hg, w', by simp [hw'], htag⟩
      · -- recursive call
        have hwnb : w ∉ acc.2.blocked := by simpa [JState.isBlocked] using hbl
        have hacc' : circuitStep rec s acc w = (acc.1 || (rec acc.2 w).1, (rec acc.2 w).2) := by
          simp [circuitStep, hws, hbl]
        have hwalk' : IsWalk comp.gr (acc.2.stack ++ [w]) := by
          rw [hst]
          have := isWalk_snoc comp.gr S v w hwalk hwv
          simpa using this
        have hpost := hrec acc.2 w hinv hwnb (hclosed v hvc w hwv) hwalk'
          (by rw [hst]; simp; omega)
        rw [hacc']
        have ih := circuit_fold comp s fuel rec hrec hclosed S v hfuel ws
          (acc.1 || (rec acc.2 w).1, (rec acc.2 w).2) hnd'.2 (fun x hx => hout x (by simp [hx]))
          hpost.inv (hpost.stack.trans hst) hwalk
        refine ⟨ih.inv, ih.stack, ?_, ?_⟩
        · intro hf
          obtain ⟨h1, h2, h3⟩ := ih.fail hf
          simp only [Bool.or_eq_false_iff] at h1
          obtain ⟨hp1, hp2⟩ := hpost.fail h1.2
          refine ⟨h1.1, fun x hx => h2 x (hp1 x hx), ?_⟩
          intro x hx
          rcases List.mem_cons.1 hx with rfl | hx
          · exact ⟨h2 _ hp2, hws⟩
          · exact h3 x hx
        · obtain ⟨new, hres, hnew, hgood⟩ := ih.res
          obtain ⟨new0, hres0, hnew0, hgood0⟩ := hpost.res
          have htag0 : ∀ c ∈ new0, Tag s S v c w := by
            intro c hc
            obtain ⟨_, e, he⟩ := hgood0 c hc
            right
            refine ⟨hws, e, ?_⟩
            rw [he, hst]; simp
          refine ⟨new0 ++ new, ?_, ?_, ?_⟩
          · rw [hres]; simp only []; rw [hres0]; simp
          · rw [List.nodup_append]
            refine ⟨hnew0, hnew, ?_⟩
            intro a ha b hb hab
            subst hab
            obtain ⟨_, w', hw', htag⟩ := hgood a hb
            have := (htag0 a ha).inj htag
            subst this
            exact hnd'.1 hw'
          · intro c hc
            rcases List.mem_append.1 hc with hc | hc
            · exact ⟨(hgood0 c hc).1, w, by simp, htag0 c hc⟩
            · obtain ⟨hg, w', hw', htag⟩ := hgood c hc
              exact ⟨hg, w', by simp [hw'], htag⟩

/-- The part of `circuit` after the neighbour loop. -/
def circuitFinish (comp : AM) (uf v : Nat) (r : Bool × JState) : Bool × JState :=
  (r.1, if r.1 then { unblock uf r.2 v with stack := (unblock uf r.2 v).stack.dropLast }
        else { r.2 with B := addToB v r.2.B (comp.out v), stack := r.2.stack.dropLast })

theorem circuit_succ (comp : AM) (s uf fuel : Nat) (st : JState) (v : Nat) :
    circuit comp s uf (fuel+1) st v =
      circuitFinish comp uf v ((comp.out v).foldl (circuitStep (circuit comp s uf fuel) s)
        (false, { st with stack := st.stack ++ [v], blocked := insBlocked v st.blocked })) := by
  show circuit comp s uf (fuel+1) st v = _
  unfold circuitFinish
  simp only [circuit]
  split <;> rfl

theorem Casc.of_eq {st' : JState} {u x : Nat} (h : Casc st' u x) (st : JState)
    (hb : st'.blocked = st.blocked) (hB : st'.B = st.B) : Casc st u x :=
  h.mono (fun z hz => by rwa [hb] at hz) (fun y z hz => by simpa [JState.Bof, hB] using hz)

theorem tag_ext {s : Nat} {S : List Nat} {v : Nat} {c : List Nat} {w : Nat} (h : Tag s S v c w) :
    ∃ e, c = S ++ v :: e := by
  rcases h with ⟨_, h⟩ | ⟨_, e, h⟩
  · exact ⟨[], h⟩
  · exact ⟨w :: e, h⟩

theorem circuit_post (comp : AM) (s uf : Nat) (hrow : ∀ u, (comp.out u).Nodup)
    (hclosed : ∀ u ∈ comp.verts, ∀ w ∈ comp.out u, w ∈ comp.verts) :
    ∀ fuel, RecOK comp s fuel (circuit comp s uf fuel)
  | 0 => by
    intro st w hinv hw hwc _ hfuel
    exfalso
    have hnd : (st.stack ++ [w]).Nodup := by
      rw [List.nodup_append]
      exact ⟨hinv.nd, by simp, fun a ha b hb => by
        simp at hb; subst hb; intro e; subst e; exact hw (hinv.i3 a ha)⟩
    have := List.Nodup.length_le_of_subset hnd (l₂ := comp.verts) (by
      intro x hx
      rcases List.mem_append.1 hx with hx | hx
      · exact hinv.sub x hx
      · simp at hx; subst hx; exact hwc)
    simp at this
    omega
  | fuel+1 => by
    intro st v hinv hv hvc hwalk hfuel
    have hinv1 := hinv.push hv hvc
    have hF := circuit_fold comp s fuel (circuit comp s uf fuel) (circuit_post comp s uf hrow hclosed fuel)
      hclosed st.stack v (by omega) (comp.out v)
      (false, { st with stack := st.stack ++ [v], blocked := insBlocked v st.blocked })
      (hrow v) (fun _ h => h) hinv1 rfl hwalk
    rw [circuit_succ]
    revert hF
    generalize (comp.out v).foldl (circuitStep (circuit comp s uf fuel) s)
      (false, { st with stack := st.stack ++ [v], blocked := insBlocked v st.blocked }) = r
    intro hF
    unfold circuitFinish
    have hSnd : st.stack.Nodup := hinv.nd
    obtain ⟨new, hres, hnew, hgood⟩ := hF.res
    have hresP : ∀ c ∈ new, Good comp s c ∧ ∃ e, c = st.stack ++ v :: e := by
      intro c hc
      obtain ⟨hg, w, _, htag⟩ := hgood c hc
      exact ⟨hg, tag_ext htag⟩
    cases hr1 : r.1 with
    | true =>
      simp only [if_true]
      have U := unblock_spec uf r.2 v
      have hstk : (unblock uf r.2 v).stack.dropLast = st.stack := by
        rw [U.stack, hF.stack]; simp
      refine ⟨⟨?_, ?_, ?_, ?_, ?_⟩, hstk, fun h => by simp at h, new, ?_, hnew, hresP⟩
      · intro y hy
        by_cases hyb : y ∈ r.2.blocked
        · exact U.cleared y hyb hy
        · apply eq_nil_of_forall_mem
          intro z hz
          have := U.Bsub y z hz
          rw [hF.inv.i1 y hyb] at this
          exact this
      · intro l1 a l2 hst b hb hc
        have hst' : st.stack = l1 ++ a :: l2 := by rw [← hstk]; exact hst
        have hc0 : Casc (unblock uf r.2 v) b a := hc.of_eq (unblock uf r.2 v) rfl rfl
        have hc' : Casc r.2 b a := Casc.mono (st := r.2) U.bl U.Bsub hc0
        exact hF.inv.k l1 a (l2 ++ [v]) (by rw [hF.stack, hst']; simp) b (by simp [hb]) hc'
      · intro x hx
        have hxS : x ∈ st.stack := by rw [← hstk]; exact hx
        have hxb : x ∈ r.2.blocked := hF.inv.i3 x (by rw [hF.stack]; simp [hxS])
        apply Classical.byContradiction
        intro hnx
        have hc := U.casc x hxb hnx
        obtain ⟨l1, l2, hl⟩ := List.append_of_mem hxS
        exact hF.inv.k l1 x (l2 ++ [v]) (by rw [hF.stack, hl]; simp) v (by simp) hc
      · show (unblock uf r.2 v).stack.dropLast.Nodup
        rw [hstk]; exact hSnd
      · intro x hx
        have hxS : x ∈ st.stack := by rw [← hstk]; exact hx
        exact hinv.sub x hxS
      · show (unblock uf r.2 v).result = _
        rw [U.result, hres]
    | false =>
      simp only [Bool.false_eq_true, if_false]
      obtain ⟨_, hmono, hws⟩ := hF.fail hr1
      have hvb : v ∈ r.2.blocked := hmono v ((mem_insBlocked v st.blocked v).2 (Or.inl rfl))
      have hstk : r.2.stack.dropLast = st.stack := by rw [hF.stack]; simp
      have hcasc : ∀ b a, Casc ({ ({ r.2 with B := addToB v r.2.B (comp.out v) } : JState) with
            stack := r.2.stack.dropLast } : JState) b a → Casc r.2 b a ∨ Casc r.2 v a := by
        intro b a hc
        exact casc_addToB (st := r.2) (ws := comp.out v) hvb
          (hc.of_eq { r.2 with B := addToB v r.2.B (comp.out v) } rfl rfl)
      refine ⟨⟨?_, ?_, ?_, ?_, ?_⟩, hstk, fun _ => ⟨?_, hvb⟩, new, hres, hnew, hresP⟩
      · intro y hy
        apply eq_nil_of_forall_mem
        intro x hx
        have hx' : x ∈ r.2.Bof y ∨ (x = v ∧ y ∈ comp.out v ∧ y < r.2.B.length) :=
          (addToB_get v (comp.out v) r.2.B y x).1 hx
        rcases hx' with hx' | ⟨_, hyw, _⟩
        · rw [hF.inv.i1 y hy] at hx'; exact hx'
        · exact absurd (hws y hyw).1 hy
      · intro l1 a l2 hst b hb hc
        have hst' : st.stack = l1 ++ a :: l2 := by rw [← hstk]; exact hst
        have hk := hF.inv.k l1 a (l2 ++ [v]) (by rw [hF.stack, hst']; simp)
        rcases hcasc b a hc with hc | hc
        · exact hk b (by simp [hb]) hc
        · exact hk v (by simp) hc
      · intro x hx
        have hxS : x ∈ st.stack := by rw [← hstk]; exact hx
        exact hF.inv.i3 x (by rw [hF.stack]; simp [hxS])
      · show r.2.stack.dropLast.Nodup
        rw [hstk]; exact hSnd
      · intro x hx
        have hxS : x ∈ st.stack := by rw [← hstk]; exact hx
        exact hinv.sub x hxS
      · intro x hx
        exact hmono x ((mem_insBlocked v st.blocked x).2 (Or.inr hx))

end GraafVerif.Johnson
