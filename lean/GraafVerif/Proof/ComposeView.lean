import GraafVerif.Thm.C01
import GraafVerif.Thm.C02
import GraafVerif.Proof.GenAddArcMap
import GraafVerif.Proof.ComposeRel
import GraafVerif.Model.Tarjan
/-!
# Compose — the `Graph` / `WGraph` a representation hands to a traversal

Every traversal of graaf is generic in `Order + OutNeighbors` (`OutNeighborsWeighted`).  The
`Graph` it sees of a representation value `r` is therefore: `n = r.order()` and
`out u = r.out_neighbors(u).collect()`.  `viewOf` builds exactly this from C02's query record
`Core` (`Model/Query.lean`; `none` = the call panics ↦ `[]`, which by `…_panics` happens only for
`u ≥ order`, ids no traversal asks for on a well-formed digraph with in-range sources).

`view_spec`: for a well-formed `r` (for the map: with vertex set `0..order`) the view is a
well-formed `Graph` whose arc relation is exactly `(u, v) ∈ arcs r` = C01's abstract arc set
`(abs r).A`, with strictly ascending (hence duplicate-free) rows.
-/
namespace GraafVerif.Compose
open GraafVerif GraafVerif.Repr GraafVerif.Query GraafVerif.ReprSpec

/-- The digraph as a traversal sees it through `order()` and `out_neighbors()`. -/
def viewOf (q : Core) : Graph := ⟨q.order, fun u => (q.outNeighbors u).getD []⟩

/-- Everything `view_spec` says, for a view `g` of a digraph of order `n` with arc list `arcs`
whose `out_neighbors` query is `outN`. -/
structure ViewSpec (g : Graph) (n : Nat) (arcs : List (Nat × Nat)) (outN : Nat → Option (List Nat)) : Prop where
  order : g.n = n
  wf : g.WF
  arc_iff : ∀ u v, g.A u v ↔ (u, v) ∈ arcs
  /-- rows are strictly ascending (`BTreeSet` iteration / column scan / sorted pair set) … -/
  asc : ∀ u, (g.out u).Pairwise (· < ·)
  /-- … so duplicate-free -/
  nodup : ∀ u, (g.out u).Nodup
  /-- on a vertex the row IS what `out_neighbors` returns (no panic) -/
  out_eq : ∀ u, u < n → outN u = some (g.out u)
  /-- outside (where `out_neighbors` panics) the row is empty -/
  out_nil : ∀ u, ¬ u < n → outN u = none ∧ g.out u = []
  /-- no loops -/
  irrefl : ∀ u, ¬ g.A u u

theorem viewOf_spec {q : Core} {G : Digraph} (hv : G.Valid) (hc : CoreCorrect q G)
    (hcont : G.verts = List.range q.order) (hp : ∀ u, ¬ u < q.order → q.outNeighbors u = none) :
    ViewSpec (viewOf q) q.order q.arcs q.outNeighbors := by
  have hmemV : ∀ x, x ∈ G.verts ↔ x < q.order := by intro x; rw [hcont]; simp
  have hout : ∀ u, u < q.order → q.outNeighbors u = some (Spec.outNeighbors G u) :=
    fun u hu => hc.outNeighbors u ((hmemV u).2 hu)
  have houtv : ∀ u, u < q.order → (viewOf q).out u = Spec.outNeighbors G u := by
    intro u hu; simp only [viewOf, hout u hu, Option.getD_some]
  have hnil : ∀ u, ¬ u < q.order → (viewOf q).out u = [] := by
    intro u hu; simp only [viewOf, hp u hu, Option.getD_none]
  have key : ∀ u v, v ∈ (viewOf q).out u ↔ G.adj u v = true := by
    intro u v
    by_cases hu : u < q.order
    · rw [houtv u hu]
      simp only [Spec.outNeighbors, List.mem_filter]
      exact ⟨fun h => h.2, fun h => ⟨(hv.closed u v h).2, h⟩⟩
    · rw [hnil u hu]
      constructor
      · intro h; cases h
      · intro h; exact absurd ((hmemV u).1 (hv.closed u v h).1) hu
  have hasc : ∀ u, ((viewOf q).out u).Pairwise (· < ·) := by
    intro u
    by_cases hu : u < q.order
    · rw [houtv u hu]; exact (C02.spec_outNeighbors hv u).1
    · rw [hnil u hu]; exact List.Pairwise.nil
  refine ⟨rfl, ?_, ?_, hasc, ?_, ?_, ?_, ?_⟩
  · intro u v h
    have := hv.closed u v ((key u v).1 h)
    exact ⟨(hmemV u).1 this.1, (hmemV v).1 this.2⟩
  · intro u v; exact (key u v).trans (hc.arcs_mem u v).symm
  · intro u; exact Query.nodup_of_sorted (hasc u)
  · intro u hu; rw [houtv u hu]; exact hout u hu
  · intro u hu; exact ⟨hp u hu, hnil u hu⟩
  · intro u h
    have := (key u u).1 h
    rw [hv.irrefl u] at this
    cases this

/-- The digraph as `Tarjan` sees it through `vertices()` and `out_neighbors()`: vertex IDS, not
positions — so any finite id set (a non-contiguous `AdjacencyMap`) is covered. -/
def vviewOf (q : Core) : Tarjan.VGraph := ⟨q.vertices, fun u => (q.outNeighbors u).getD []⟩

/-- What `vview_spec` says. -/
structure VViewSpec (g : Tarjan.VGraph) (verts : List Nat) (arcs : List (Nat × Nat)) : Prop where
  verts_eq : g.verts = verts
  /-- the vertex list is strictly ascending -/
  verts_asc : g.verts.Pairwise (· < ·)
  /-- arcs of vertices lead to vertices -/
  closed : ∀ u ∈ g.verts, ∀ v ∈ g.out u, v ∈ g.verts
  arc_iff : ∀ u v, v ∈ g.out u ↔ (u, v) ∈ arcs
  /-- both endpoints of every arc are vertices -/
  arc_verts : ∀ u v, (u, v) ∈ arcs → u ∈ verts ∧ v ∈ verts
  asc : ∀ u, (g.out u).Pairwise (· < ·)

theorem vviewOf_spec {q : Core} {G : Digraph} (hv : G.Valid) (hc : CoreCorrect q G)
    (hp : ∀ u, u ∉ G.verts → q.outNeighbors u = none) : VViewSpec (vviewOf q) q.vertices q.arcs := by
  have hverts : q.vertices = G.verts := hc.vertices
  have key : ∀ u v, v ∈ (vviewOf q).out u ↔ G.adj u v = true := by
    intro u v
    by_cases hu : u ∈ G.verts
    · simp only [vviewOf, hc.outNeighbors u hu, Option.getD_some, Spec.outNeighbors, List.mem_filter]
      exact ⟨fun h => h.2, fun h => ⟨(hv.closed u v h).2, h⟩⟩
    · simp only [vviewOf, hp u hu, Option.getD_none]
      constructor
      · intro h; cases h
      · intro h; exact absurd (hv.closed u v h).1 hu
  refine ⟨rfl, ?_, ?_, ?_, ?_, ?_⟩
  · show q.vertices.Pairwise (· < ·)
    rw [hverts]; exact hv.sorted
  · intro u _ v hvm
    show v ∈ q.vertices
    rw [hverts]; exact (hv.closed u v ((key u v).1 hvm)).2
  · intro u v; exact (key u v).trans (hc.arcs_mem u v).symm
  · intro u v h
    rw [hverts]; exact hv.closed u v ((hc.arcs_mem u v).1 h)
  · intro u
    by_cases hu : u ∈ G.verts
    · simp only [vviewOf, hc.outNeighbors u hu, Option.getD_some]
      exact (C02.spec_outNeighbors hv u).1
    · simp only [vviewOf, hp u hu, Option.getD_none]
      exact List.Pairwise.nil

/-- Two views of the same order with the same arcs are the SAME `Graph` (rows are strictly
ascending, hence determined by their members): a traversal cannot tell them apart. -/
theorem ViewSpec.view_unique {g₁ g₂ : Graph} {n : Nat} {a₁ a₂ : List (Nat × Nat)}
    {o₁ o₂ : Nat → Option (List Nat)} (h₁ : ViewSpec g₁ n a₁ o₁) (h₂ : ViewSpec g₂ n a₂ o₂)
    (ha : ∀ u v, (u, v) ∈ a₁ ↔ (u, v) ∈ a₂) : g₁ = g₂ := by
  cases g₁ with | mk n₁ out₁ =>
  cases g₂ with | mk n₂ out₂ =>
  have hn : n₁ = n₂ := h₁.order.trans h₂.order.symm
  have ho : out₁ = out₂ := by
    funext u
    apply Query.sorted_ext (h₁.asc u) (h₂.asc u)
    intro v
    exact (h₁.arc_iff u v).trans ((ha u v).trans (h₂.arc_iff u v).symm)
  rw [hn, ho]

theorem VViewSpec.view_unique {g₁ g₂ : Tarjan.VGraph} {vs : List Nat} {a₁ a₂ : List (Nat × Nat)}
    (h₁ : VViewSpec g₁ vs a₁) (h₂ : VViewSpec g₂ vs a₂)
    (ha : ∀ u v, (u, v) ∈ a₁ ↔ (u, v) ∈ a₂) : g₁ = g₂ := by
  cases g₁ with | mk v₁ out₁ =>
  cases g₂ with | mk v₂ out₂ =>
  have hn : v₁ = v₂ := h₁.verts_eq.trans h₂.verts_eq.symm
  have ho : out₁ = out₂ := by
    funext u
    apply Query.sorted_ext (h₁.asc u) (h₂.asc u)
    intro v
    exact (h₁.arc_iff u v).trans ((ha u v).trans (h₂.arc_iff u v).symm)
  rw [hn, ho]

end GraafVerif.Compose

/-! ## The five views -/
namespace GraafVerif.Repr
open GraafVerif GraafVerif.Query GraafVerif.Compose GraafVerif.ReprSpec

/-- `AdjacencyList` as a traversal sees it. -/
def AdjList.view (d : AdjList) : Graph := viewOf (AL.core d)
/-- `AdjacencyMap` as a traversal sees it (meaningful when the key set is `0..order`). -/
def AdjMap.view (d : AdjMap) : Graph := viewOf (AM.core d)
/-- `AdjacencyMatrix` as a traversal sees it. -/
def AdjMatrix.view (d : AdjMatrix) : Graph := viewOf (MX.core d)
/-- `EdgeList` as a traversal sees it. -/
def EdgeList.view (d : EdgeList) : Graph := viewOf (EL.core d)
/-- `AdjacencyListWeighted` as an UNWEIGHTED traversal sees it (`out_neighbors` = the keys). -/
def AdjListW.view (d : AdjListW) : Graph := viewOf (WL.core d)
/-- `AdjacencyListWeighted` as a weighted traversal sees it: `order()` and
`out_neighbors_weighted()` (`none` = index panic ↦ `[]`, only for `u ≥ order`). -/
def AdjListW.wview (d : AdjListW) : WGraph := ⟨d.order, fun u => (WL.outNeighborsWeighted d u).getD []⟩

/-- The arc relation a representation denotes: `(u, v) ∈ arcs()`. -/
def AdjList.Arc (d : AdjList) : Rel := fun u v => (u, v) ∈ d.arcs
def AdjMap.Arc (d : AdjMap) : Rel := fun u v => (u, v) ∈ d.arcs
def AdjMatrix.Arc (d : AdjMatrix) : Rel := fun u v => (u, v) ∈ d.arcs
def EdgeList.Arc (d : EdgeList) : Rel := fun u v => (u, v) ∈ d.arcs
def AdjListW.Arc (d : AdjListW) : Rel := fun u v => (u, v) ∈ d.arcs
/-- The weighted arc relation: `(u, v, w) ∈ arcs_weighted()`. -/
def AdjListW.WArc (d : AdjListW) : WRel := fun u v w => (u, v, w) ∈ d.arcsWeighted

/-! ### the views unfolded (they are the literal rows / scans of the models) -/

theorem AdjList.view_out (d : AdjList) (u : Nat) : d.view.out u = d.rows[u]?.getD [] := rfl
theorem AdjList.view_eq_toGraph (d : AdjList) : d.view = d.toGraph := rfl
theorem AdjMap.view_out (d : AdjMap) (u : Nat) : d.view.out u = (mget u d.rows).getD [] := rfl
theorem AdjMatrix.view_out (d : AdjMatrix) (u : Nat) :
    d.view.out u = if u < d.order then (List.range d.order).filter (fun v => d.hasArc u v) else [] := by
  simp only [AdjMatrix.view, viewOf, MX.core, MX.outNeighbors, AdjMatrix.vertices]
  split <;> rfl
theorem EdgeList.view_out (d : EdgeList) (u : Nat) :
    d.view.out u = if u < d.order then d.arcs.filterMap (fun a => if a.1 == u then some a.2 else none) else [] := by
  simp only [EdgeList.view, viewOf, EL.core, EL.outNeighbors]
  split <;> rfl
theorem AdjListW.view_out (d : AdjListW) (u : Nat) : d.view.out u = (d.rows[u]?.getD []).map (·.1) := by
  simp only [AdjListW.view, viewOf, WL.core, WL.outNeighbors]
  cases d.rows[u]? <;> rfl
theorem AdjListW.wview_out (d : AdjListW) (u : Nat) : d.wview.out u = d.rows[u]?.getD [] := rfl
theorem AdjListW.wview_eq_toWGraph (d : AdjListW) : d.wview = d.toWGraph := rfl
/-- the unweighted view is the weighted one with the weights dropped -/
theorem AdjListW.view_eq_toGraph (d : AdjListW) : d.view = d.wview.toGraph := by
  show Graph.mk d.view.n d.view.out = Graph.mk d.wview.n (fun u => (d.wview.out u).map (·.1))
  congr 1
  funext u; rw [AdjListW.view_out, AdjListW.wview_out]

/-! ### `view_spec` -/

theorem AdjList.view_spec (d : AdjList) (h : d.WF) : ViewSpec d.view d.order d.arcs d.outNeighbors :=
  viewOf_spec (AL.abs_valid h) (AL.core_correct h) rfl (fun _ hu => (AL.panics_outside hu).1)

theorem AdjMatrix.view_spec (d : AdjMatrix) (h : d.WF) :
    ViewSpec d.view d.order d.arcs (MX.outNeighbors d) :=
  viewOf_spec (MX.abs_valid h) (MX.core_correct h) rfl (fun _ hu => (MX.panics_outside hu).1)

theorem EdgeList.view_spec (d : EdgeList) (h : d.WF) :
    ViewSpec d.view d.order d.arcs (EL.outNeighbors d) :=
  viewOf_spec (EL.abs_valid h) (EL.core_correct h) rfl (fun _ hu => (EL.panics_outside hu).1)

theorem AdjListW.view_spec (d : AdjListW) (h : d.WF) :
    ViewSpec d.view d.order d.arcs (WL.outNeighbors d) :=
  viewOf_spec (WL.abs_valid h) (WL.core_correct h) rfl (fun _ hu => (WL.panics_outside hu).1)

/-- `AdjacencyMap` with the contiguous vertex set `0..order` (what `Bfs::new` etc. require:
they allocate `order` slots and index them by vertex id). -/
theorem AdjMap.view_spec (d : AdjMap) (h : d.WF) (hc : Gen.AM.Contiguous d) :
    ViewSpec d.view d.order d.arcs (AM.outNeighbors d) :=
  viewOf_spec (AM.abs_valid h) (AM.core_correct h) hc
    (fun u hu => (AM.panics_outside (d := d) (u := u) (by
      have hu' : ¬ u < d.order := hu
      show u ∉ d.vertices
      rw [hc]; simpa using hu')).1)

/-! ### the vertex-id views (`Tarjan`) -/

def AdjList.vview (d : AdjList) : Tarjan.VGraph := vviewOf (AL.core d)
def AdjMap.vview (d : AdjMap) : Tarjan.VGraph := vviewOf (AM.core d)
def AdjMatrix.vview (d : AdjMatrix) : Tarjan.VGraph := vviewOf (MX.core d)
def EdgeList.vview (d : EdgeList) : Tarjan.VGraph := vviewOf (EL.core d)
def AdjListW.vview (d : AdjListW) : Tarjan.VGraph := vviewOf (WL.core d)

theorem AdjList.vview_eq (d : AdjList) : d.vview = ⟨d.vertices, d.view.out⟩ := rfl
theorem AdjMap.vview_eq (d : AdjMap) : d.vview = ⟨d.vertices, d.view.out⟩ := rfl
theorem AdjMatrix.vview_eq (d : AdjMatrix) : d.vview = ⟨d.vertices, d.view.out⟩ := rfl
theorem EdgeList.vview_eq (d : EdgeList) : d.vview = ⟨d.vertices, d.view.out⟩ := rfl
theorem AdjListW.vview_eq (d : AdjListW) : d.vview = ⟨d.vertices, d.view.out⟩ := rfl

theorem AdjList.vview_spec (d : AdjList) (h : d.WF) : VViewSpec d.vview d.vertices d.arcs :=
  vviewOf_spec (AL.abs_valid h) (AL.core_correct h)
    (fun u hu => (AL.panics_outside (d := d) (u := u) (by
      have : u ∉ d.vertices := hu
      simpa [AdjList.vertices] using this)).1)
theorem AdjMatrix.vview_spec (d : AdjMatrix) (h : d.WF) : VViewSpec d.vview d.vertices d.arcs :=
  vviewOf_spec (MX.abs_valid h) (MX.core_correct h)
    (fun u hu => (MX.panics_outside (d := d) (u := u) (by
      have : u ∉ d.vertices := hu
      simpa [AdjMatrix.vertices] using this)).1)
theorem EdgeList.vview_spec (d : EdgeList) (h : d.WF) : VViewSpec d.vview d.vertices d.arcs :=
  vviewOf_spec (EL.abs_valid h) (EL.core_correct h)
    (fun u hu => (EL.panics_outside (d := d) (u := u) (by
      have : u ∉ d.vertices := hu
      simpa [EdgeList.vertices] using this)).1)
theorem AdjListW.vview_spec (d : AdjListW) (h : d.WF) : VViewSpec d.vview d.vertices d.arcs :=
  vviewOf_spec (WL.abs_valid h) (WL.core_correct h)
    (fun u hu => (WL.panics_outside (d := d) (u := u) (by
      have : u ∉ d.vertices := hu
      simpa [AdjListW.vertices] using this)).1)
/-- `AdjacencyMap` with an ARBITRARY key set (no contiguity hypothesis). -/
theorem AdjMap.vview_spec (d : AdjMap) (h : d.WF) : VViewSpec d.vview d.vertices d.arcs :=
  vviewOf_spec (AM.abs_valid h) (AM.core_correct h) (fun _ hu => (AM.panics_outside hu).1)

/-! ### the arc relation of the view is C01's abstract arc set -/

theorem AdjList.arc_iff_abs (d : AdjList) (u v : Nat) : d.Arc u v ↔ d.abs.A u v = true := AdjList.mem_arcs d u v
theorem AdjMap.arc_iff_abs (d : AdjMap) (h : d.WF) (u v : Nat) : d.Arc u v ↔ d.abs.A u v = true :=
  AdjMap.mem_arcs d h u v
theorem AdjMatrix.arc_iff_abs (d : AdjMatrix) (h : d.WF) (u v : Nat) : d.Arc u v ↔ d.abs.A u v = true :=
  AdjMatrix.mem_arcs d h u v
theorem EdgeList.arc_iff_abs (d : EdgeList) (u v : Nat) : d.Arc u v ↔ d.abs.A u v = true := by
  simp only [EdgeList.Arc, EdgeList.abs, SpecState.A, unitOf_isSome]
  exact (EdgeList.hasArc_iff d u v).symm
theorem AdjListW.arc_iff_abs (d : AdjListW) (h : d.WF) (u v : Nat) : d.Arc u v ↔ d.abs.A u v = true :=
  (AdjListW.arcs_sorted_nodup d h).2.2 u v
theorem AdjListW.warc_iff_abs (d : AdjListW) (h : d.WF) (u v : Nat) (w : Int) :
    d.WArc u v w ↔ d.abs.W u v = some w := AdjListW.mem_arcsWeighted d h u v w

/-! ### the weighted view -/

/-- Everything `wview_spec` says. -/
structure WViewSpec (g : WGraph) (d : AdjListW) : Prop where
  order : g.n = d.order
  wf : g.WF
  functional : g.Functional
  arc_iff : ∀ u v w, g.A u v w ↔ (u, v, w) ∈ d.arcsWeighted
  /-- weight = `arc_weight` -/
  weight_iff : ∀ u v w, g.A u v w ↔ d.arcWeight u v = some w
  /-- rows ascending in the head (`BTreeMap` iteration) -/
  asc : ∀ u, (g.out u).Pairwise (fun a b => a.1 < b.1)
  out_eq : ∀ u, u < d.order → WL.outNeighborsWeighted d u = some (g.out u)
  out_nil : ∀ u, ¬ u < d.order → WL.outNeighborsWeighted d u = none ∧ g.out u = []
  irrefl : ∀ u w, ¬ g.A u u w
  /-- forgetting the weights gives the unweighted arc set -/
  arcs_iff : ∀ u v, (∃ w, g.A u v w) ↔ (u, v) ∈ d.arcs

theorem AdjListW.wview_spec (d : AdjListW) (h : d.WF) : WViewSpec d.wview d := by
  have harc : ∀ u v w, d.wview.A u v w ↔ (u, v, w) ∈ d.arcsWeighted := by
    intro u v w
    rw [AdjListW.arcsWeighted_eq, mem_flatRows_zero]
    simp only [WGraph.A, AdjListW.wview_out]
    cases d.rows[u]? with
    | none => simp
    | some row => simp
  have hwt : ∀ u v w, d.wview.A u v w ↔ d.arcWeight u v = some w :=
    fun u v w => (harc u v w).trans (AdjListW.mem_arcsWeighted d h u v w)
  have hval := AdjListW.abs_valid d h
  have hA : ∀ u v w, d.wview.A u v w → d.abs.A u v = true := by
    intro u v w hw
    simp only [SpecState.A, AdjListW.abs, (hwt u v w).1 hw, Option.isSome_some]
  refine ⟨rfl, ?_, ?_, harc, hwt, ?_, ?_, ?_, ?_, ?_⟩
  · intro u v w hw
    have := hval u v (hA u v w hw)
    show u < d.order ∧ v < d.order
    simpa [AdjListW.abs] using this.2
  · intro u v w₁ w₂ h₁ h₂
    have e₁ := (hwt u v w₁).1 h₁
    have e₂ := (hwt u v w₂).1 h₂
    rw [e₁] at e₂
    exact Option.some.inj e₂
  · intro u
    rw [AdjListW.wview_out]
    cases hrow : d.rows[u]? with
    | none => exact List.Pairwise.nil
    | some row => exact (h.2 u row hrow).1
  · intro u hu
    have hu' : u < d.rows.length := hu
    simp only [WL.outNeighborsWeighted, AdjListW.wview_out, List.getElem?_eq_getElem hu', Option.getD_some]
  · intro u hu
    have : d.rows[u]? = none := by
      have : d.rows.length ≤ u := Nat.le_of_not_lt hu
      simp [this]
    simp only [WL.outNeighborsWeighted, AdjListW.wview_out, this, Option.getD_none, and_self]
  · intro u w hw
    exact (hval u u (hA u u w hw)).1 rfl
  · intro u v
    simp only [AdjListW.arcs, List.mem_map]
    constructor
    · rintro ⟨w, hw⟩
      exact ⟨(u, v, w), (harc u v w).1 hw, rfl⟩
    · rintro ⟨⟨a, b, w⟩, hm, he⟩
      simp only [Prod.mk.injEq] at he
      obtain ⟨rfl, rfl⟩ := he
      exact ⟨w, (harc _ _ w).2 hm⟩

/-- Non-negative weights of the representation ⇒ `NonNeg` of the view (Dijkstra's hypothesis). -/
theorem AdjListW.wview_nonneg (d : AdjListW) (hnn : ∀ u v w, (u, v, w) ∈ d.arcsWeighted → 0 ≤ w) :
    d.wview.NonNeg := by
  intro u v w hw
  refine hnn u v w ?_
  rw [AdjListW.arcsWeighted_eq, mem_flatRows_zero]
  simp only [WGraph.A, AdjListW.wview_out] at hw
  cases hrow : d.rows[u]? with
  | none => rw [hrow] at hw; simp at hw
  | some row => rw [hrow] at hw; exact ⟨row, rfl, by simpa using hw⟩

end GraafVerif.Repr
