import GraafVerif.Proof.GenMapLemmas
import GraafVerif.Proof.GenArcRepr
/-!
# `ArcRepr` instances: AdjacencyListWeighted (weight 1) and AdjacencyMap (contiguous keys)
-/
namespace GraafVerif.Gen
open GraafVerif.Repr

theorem mem_mupsert_const {k : Nat} {w : Int} {l : List (Nat × Int)} (hs : SortedK l) {p : Nat × Int} :
    p ∈ mupsert k w (fun _ => w) l ↔ p = (k, w) ∨ (p ∈ l ∧ p.1 ≠ k) := by
  by_cases hk : k ∈ l.map (·.1)
  · obtain ⟨⟨k', x⟩, hc, hcb⟩ := List.mem_map.mp hk
    simp only at hcb; subst hcb
    exact mem_mupsert_present hs hc
  · rw [mem_mupsert_absent hk]
    constructor
    · rintro (h | h)
      · exact Or.inl h
      · exact Or.inr ⟨h, fun e => hk (List.mem_map.mpr ⟨p, h, e⟩)⟩
    · rintro (h | h)
      · exact Or.inl h
      · exact Or.inr h.1

/-! ## AdjacencyListWeighted -/
namespace WL

theorem mem_arcsWeighted {d : AdjListW} {u v : Nat} {w : Int} :
    (u, v, w) ∈ d.arcsWeighted ↔ ∃ row, d.rows[u]? = some row ∧ (v, w) ∈ row := by
  unfold AdjListW.arcsWeighted
  simp only [List.mem_flatMap, List.mem_map]
  constructor
  · rintro ⟨⟨row, i⟩, hmem, ⟨v', w'⟩, hw, heq⟩
    rw [List.mem_zipIdx_iff_getElem?] at hmem
    simp only [Prod.mk.injEq] at heq
    obtain ⟨rfl, rfl, rfl⟩ := heq
    exact ⟨row, hmem, hw⟩
  · rintro ⟨row, hrow, hv⟩
    exact ⟨(row, u), List.mem_zipIdx_iff_getElem?.mpr hrow, (v, w), hv, rfl⟩

theorem mem_arcs {d : AdjListW} {u v : Nat} :
    (u, v) ∈ d.arcs ↔ ∃ row, d.rows[u]? = some row ∧ ∃ w, (v, w) ∈ row := by
  unfold AdjListW.arcs
  rw [List.mem_map]
  constructor
  · rintro ⟨⟨u', v', w⟩, hmem, heq⟩
    simp only [Prod.mk.injEq] at heq
    obtain ⟨rfl, rfl⟩ := heq
    obtain ⟨row, hrow, hvw⟩ := mem_arcsWeighted.mp hmem
    exact ⟨row, hrow, w, hvw⟩
  · rintro ⟨row, hrow, w, hvw⟩
    exact ⟨(u, v, w), mem_arcsWeighted.mpr ⟨row, hrow, hvw⟩, rfl⟩

/-- every arc has weight 1 -/
def AllOne (d : AdjListW) : Prop := ∀ a ∈ d.arcsWeighted, a.2.2 = 1

theorem addArc_spec (d : AdjListW) (u v : Nat) (hwf : d.WF ∧ AllOne d) (huv : u ≠ v)
    (hu : u < d.order) (hv : v < d.order) :
    ∃ d', d.addArcWeighted u v 1 = some d' ∧ (d'.WF ∧ AllOne d') ∧ d'.order = d.order ∧
      ∀ a b, (a, b) ∈ d'.arcs ↔ (a, b) ∈ d.arcs ∨ (a = u ∧ b = v) := by
  obtain ⟨hwf, hone⟩ := hwf
  have hul : u < d.rows.length := hu
  obtain ⟨old, hold⟩ : ∃ old, d.rows[u]? = some old := ⟨d.rows[u], List.getElem?_eq_getElem hul⟩
  have hsold := (hwf.2 u old hold).1
  refine ⟨⟨d.rows.set u (mupsert v 1 (fun _ => 1) old)⟩,
    by simp [AdjListW.addArcWeighted, huv, hu, hv, hold], ?_⟩
  have hord : (⟨d.rows.set u (mupsert v 1 (fun _ => 1) old)⟩ : AdjListW).order = d.order := by
    simp [AdjListW.order]
  have hrows : (⟨d.rows.set u (mupsert v 1 (fun _ => 1) old)⟩ : AdjListW).rows =
      d.rows.set u (mupsert v 1 (fun _ => 1) old) := rfl
  have hget : ∀ a, (d.rows.set u (mupsert v 1 (fun _ => 1) old))[a]? =
      if u = a then some (mupsert v 1 (fun _ => 1) old) else d.rows[a]? := by
    intro a; rw [List.getElem?_set]; split
    · simp
    · rfl
  refine ⟨⟨⟨by rw [hord]; exact hwf.1, ?_⟩, ?_⟩, hord, ?_⟩
  · intro a row hrow
    rw [hord]
    rw [hrows, hget] at hrow
    split at hrow
    · rename_i hua; subst hua
      have := Option.some.inj hrow; subst this
      refine ⟨sortedK_mupsert hsold, ?_⟩
      intro p hp
      rcases (mem_mupsert_const hsold).mp hp with rfl | ⟨hp, _⟩
      · exact ⟨hv, fun e => huv e.symm⟩
      · exact (hwf.2 u old hold).2 p hp
    · exact hwf.2 a row hrow
  · intro x hx
    obtain ⟨a, b, w⟩ := x
    obtain ⟨row, hrow, hbw⟩ := mem_arcsWeighted.mp hx
    rw [hrows, hget] at hrow
    split at hrow
    · rename_i hua; subst hua
      have := Option.some.inj hrow; subst this
      rcases (mem_mupsert_const hsold).mp hbw with h | ⟨hp, _⟩
      · exact (Prod.mk.inj h).2
      · exact hone (u, b, w) (mem_arcsWeighted.mpr ⟨old, hold, hp⟩)
    · exact hone (a, b, w) (mem_arcsWeighted.mpr ⟨row, hrow, hbw⟩)
  · intro a b
    rw [mem_arcs, mem_arcs, hrows, hget]
    constructor
    · rintro ⟨row, hrow, w, hb⟩
      split at hrow
      · rename_i hua; subst hua
        have := Option.some.inj hrow; subst this
        rcases (mem_mupsert_const hsold).mp hb with h | ⟨hp, _⟩
        · exact Or.inr ⟨rfl, (Prod.mk.inj h).1⟩
        · exact Or.inl ⟨old, hold, w, hp⟩
      · exact Or.inl ⟨row, hrow, w, hb⟩
    · rintro (⟨row, hrow, w, hb⟩ | ⟨rfl, rfl⟩)
      · by_cases hua : u = a
        · subst hua
          rw [hold] at hrow; have := Option.some.inj hrow; subst this
          by_cases hbv : b = v
          · subst hbv
            exact ⟨mupsert b 1 (fun _ => 1) old, by simp, 1, (mem_mupsert_const hsold).mpr (Or.inl rfl)⟩
          · exact ⟨mupsert v 1 (fun _ => 1) old, by simp, w, (mem_mupsert_const hsold).mpr (Or.inr ⟨hb, hbv⟩)⟩
        · exact ⟨row, by simp [hua, hrow], w, hb⟩
      · exact ⟨mupsert b 1 (fun _ => 1) old, by simp, 1, (mem_mupsert_const hsold).mpr (Or.inl rfl)⟩

/-- target `AdjacencyListWeighted` of the conversions: `add_arc_weighted(u, v, 1)` -/
def repr : ArcRepr AdjListW where
  order := AdjListW.order
  has := fun d u v => (u, v) ∈ d.arcs
  WF := fun d => d.WF ∧ AllOne d
  addArc := fun d u v => d.addArcWeighted u v 1
  addArc_spec := addArc_spec

theorem empty_repr {n : Nat} (hn : 1 ≤ n) :
    ∃ e, AdjListW.empty n = some e ∧ (e.WF ∧ AllOne e) ∧ e.order = n ∧ ∀ u v, (u, v) ∉ e.arcs := by
  have h0 : n ≠ 0 := by omega
  refine ⟨⟨List.replicate n []⟩, by simp [AdjListW.empty, h0], ?_⟩
  have hrow : ∀ (u : Nat) (row : List (Nat × Int)), (List.replicate n ([] : List (Nat × Int)))[u]? = some row → row = [] := by
    intro u row h
    rw [List.getElem?_replicate] at h
    split at h
    · exact (Option.some.inj h).symm
    · cases h
  refine ⟨⟨⟨by simp [AdjListW.order]; omega, ?_⟩, ?_⟩, by simp [AdjListW.order], ?_⟩
  · intro u row h
    have := hrow u row h; subst this
    simp [SortedK]
  · intro x hx
    obtain ⟨a, b, w⟩ := x
    obtain ⟨row, h, hb⟩ := mem_arcsWeighted.mp hx
    have := hrow a row h; subst this
    cases hb
  · intro u v h
    obtain ⟨row, hr, w, hb⟩ := mem_arcs.mp h
    have := hrow u row hr; subst this
    cases hb

end WL

/-! ## AdjacencyMap with vertex set `0..order` -/
namespace AM

theorem mem_arcs {d : AdjMap} {u v : Nat} :
    (u, v) ∈ d.arcs ↔ ∃ row, (u, row) ∈ d.rows ∧ v ∈ row := by
  unfold AdjMap.arcs
  simp only [List.mem_flatMap, List.mem_map]
  constructor
  · rintro ⟨⟨u', row⟩, hmem, w, hw, heq⟩
    simp only [Prod.mk.injEq] at heq
    obtain ⟨rfl, rfl⟩ := heq
    exact ⟨row, hmem, hw⟩
  · rintro ⟨row, hrow, hv⟩
    exact ⟨(u, row), hrow, v, hv, rfl⟩

/-- the vertex set is `0..order` (hypothesis of C16, conclusion of C14) -/
def Contiguous (d : AdjMap) : Prop := d.vertices = List.range d.order

theorem mem_keys_iff {d : AdjMap} (hc : Contiguous d) {k : Nat} : k ∈ d.rows.map (·.1) ↔ k < d.order := by
  have : d.rows.map (·.1) = List.range d.order := hc
  rw [this, List.mem_range]

theorem addArc_spec (d : AdjMap) (u v : Nat) (hwf : d.WF ∧ Contiguous d) (huv : u ≠ v)
    (hu : u < d.order) (hv : v < d.order) :
    ∃ d', d.addArc u v = some d' ∧ (d'.WF ∧ Contiguous d') ∧ d'.order = d.order ∧
      ∀ a b, (a, b) ∈ d'.arcs ↔ (a, b) ∈ d.arcs ∨ (a = u ∧ b = v) := by
  obtain ⟨hwf, hc⟩ := hwf
  have hs := hwf.1
  have huk : u ∈ d.rows.map (·.1) := (mem_keys_iff hc).mpr hu
  have hvk : v ∈ d.rows.map (·.1) := (mem_keys_iff hc).mpr hv
  obtain ⟨⟨u', old⟩, hold, hcb⟩ := List.mem_map.mp huk
  simp only at hcb; subst hcb
  let rows1 := mupsert u' [] (sinsert v) d.rows
  have hs1 : SortedK rows1 := sortedK_mupsert hs
  have hkeys1 : rows1.map (·.1) = d.rows.map (·.1) := keys_mupsert_present hs huk
  have hrows2 : mupsert v [] id rows1 = rows1 := mupsert_id_present hs1 (by rw [hkeys1]; exact hvk)
  have hmem1 : ∀ p, p ∈ rows1 ↔ p = (u', sinsert v old) ∨ (p ∈ d.rows ∧ p.1 ≠ u') :=
    fun p => mem_mupsert_present hs hold
  refine ⟨⟨rows1⟩, by simp [AdjMap.addArc, huv, rows1, hrows2], ?_⟩
  have hord : (⟨rows1⟩ : AdjMap).order = d.order := by
    show rows1.length = d.rows.length
    have := congrArg List.length hkeys1
    simpa using this
  have hcont : Contiguous ⟨rows1⟩ := by
    show rows1.map (·.1) = List.range (⟨rows1⟩ : AdjMap).order
    rw [hkeys1, hord]; exact hc
  refine ⟨⟨⟨hs1, ?_⟩, hcont⟩, hord, ?_⟩
  · intro a row hrow
    have hsome : ∀ w, (mget w d.rows).isSome → (mget w rows1).isSome := by
      intro w h
      rw [mget_isSome_iff hs1, hkeys1]; exact (mget_isSome_iff hs).mp h
    rcases (hmem1 (a, row)).mp hrow with h | ⟨h, _⟩
    · obtain ⟨rfl, rfl⟩ := Prod.mk.inj h
      have hold' := hwf.2 a old hold
      refine ⟨sorted_sinsert hold'.1, ?_⟩
      intro w hw
      rcases mem_sinsert.mp hw with rfl | hw
      · refine ⟨fun e => huv e.symm, ?_⟩
        show (mget w rows1).isSome
        rw [mget_isSome_iff hs1, hkeys1]; exact hvk
      · exact ⟨(hold'.2 w hw).1, hsome w (hold'.2 w hw).2⟩
    · have := hwf.2 a row h
      exact ⟨this.1, fun w hw => ⟨(this.2 w hw).1, hsome w (this.2 w hw).2⟩⟩
  · intro a b
    rw [mem_arcs, mem_arcs]
    show (∃ row, (a, row) ∈ rows1 ∧ b ∈ row) ↔ _
    constructor
    · rintro ⟨row, hrow, hb⟩
      rcases (hmem1 (a, row)).mp hrow with h | ⟨h, _⟩
      · obtain ⟨rfl, rfl⟩ := Prod.mk.inj h
        rcases mem_sinsert.mp hb with rfl | hb
        · exact Or.inr ⟨rfl, rfl⟩
        · exact Or.inl ⟨old, hold, hb⟩
      · exact Or.inl ⟨row, h, hb⟩
    · rintro (⟨row, hrow, hb⟩ | ⟨rfl, rfl⟩)
      · by_cases hua : a = u'
        · subst hua
          have := sortedK_unique hs hrow hold; subst this
          exact ⟨sinsert v row, (hmem1 _).mpr (Or.inl rfl), mem_sinsert.mpr (Or.inr hb)⟩
        · exact ⟨row, (hmem1 _).mpr (Or.inr ⟨hrow, hua⟩), hb⟩
      · exact ⟨sinsert b old, (hmem1 _).mpr (Or.inl rfl), mem_sinsert.mpr (Or.inl rfl)⟩

def repr : ArcRepr AdjMap where
  order := AdjMap.order
  has := fun d u v => (u, v) ∈ d.arcs
  WF := fun d => d.WF ∧ Contiguous d
  addArc := AdjMap.addArc
  addArc_spec := addArc_spec

theorem empty_repr {n : Nat} (hn : 1 ≤ n) :
    ∃ e, AdjMap.empty n = some e ∧ (e.WF ∧ Contiguous e) ∧ e.order = n ∧ ∀ u v, (u, v) ∉ e.arcs := by
  have h0 : n ≠ 0 := by omega
  refine ⟨⟨(List.range n).map (fun u => (u, []))⟩, by simp [AdjMap.empty, h0], ?_⟩
  have hrow : ∀ u row, (u, row) ∈ (List.range n).map (fun u => (u, ([] : List Nat))) → row = [] := by
    intro u row h
    obtain ⟨w, _, hw⟩ := List.mem_map.mp h
    exact (Prod.mk.inj hw).2.symm
  refine ⟨⟨⟨?_, ?_⟩, ?_⟩, by simp [AdjMap.order], ?_⟩
  · show SortedK _
    unfold SortedK
    rw [List.pairwise_map]
    exact List.pairwise_lt_range
  · intro u row h
    have := hrow u row h; subst this
    simp [SortedS]
  · show List.map (fun p : Nat × List Nat => p.1) _ = List.range _
    simp [AdjMap.order, List.map_map, Function.comp_def]
  · intro u v h
    obtain ⟨row, hr, hb⟩ := mem_arcs.mp h
    have := hrow u row hr; subst this
    cases hb

/-- arcs of a well-formed map with vertex set `0..order` join distinct vertices of `0..order` -/
theorem arcs_valid {d : AdjMap} (hwf : d.WF) (hc : Contiguous d) : ArcsValid d.order d.arcs := by
  intro a ha
  obtain ⟨row, hrow, hv⟩ := mem_arcs.mp (show (a.1, a.2) ∈ d.arcs from ha)
  have hu : a.1 < d.order := (mem_keys_iff hc).mp (mem_keys_of_mem hrow)
  have := (hwf.2 a.1 row hrow).2 a.2 hv
  exact ⟨fun e => this.1 e.symm, hu, (mem_keys_iff hc).mp ((mget_isSome_iff hwf.1).mp this.2)⟩

end AM
end GraafVerif.Gen
