import GraafVerif.Model.ReprEqMxIter
import GraafVerif.Proof.ReprMX
/-!
# The literal `ArcsIterator` loop and the `count_ones` sum agree with the filter forms

`arcsIter_eq : WF-independent, arcsIter d = d.arcs` and `sizePop_eq : sizePop d = d.size`, with fuel adequacy
(`drain_fuel_irrelevant`): the loop result is the same for every fuel above `μ`.
Key bit facts: `tz_spec` (what `trailing_zeros` returns), `clearLow_spec` (`x & (x - 1)` clears exactly the
lowest set bit; proved through `Nat.testBit` of `x - 1`).
-/
namespace GraafVerif.Repr.AdjMatrix
open GraafVerif.Repr

theorem testBit_pred {x t : Nat} (ht : x.testBit t = true) (hlow : ∀ k, k < t → x.testBit k = false) (j : Nat) :
    (x - 1).testBit j = if j < t then true else if j = t then false else x.testBit j := by
  have hmod : x % 2 ^ t = 0 := by
    apply Nat.eq_of_testBit_eq
    intro i
    rw [Nat.testBit_mod_two_pow]
    by_cases hi : i < t
    · simp [hi, hlow i hi]
    · simp [hi]
  have hy : x = 2 ^ t * (x / 2 ^ t) := by
    have := Nat.div_add_mod x (2 ^ t)
    omega
  have hodd : (x / 2 ^ t) % 2 = 1 := by
    have := Nat.testBit_div_two_pow (n := t) x 0
    rw [Nat.zero_add, ht] at this
    simpa [Nat.testBit_zero] using this
  generalize hyd : x / 2 ^ t = y at hy hodd
  have hya : y = 2 * (y / 2) + 1 := by omega
  generalize y / 2 = a at hya
  have hpow : 2 ^ (t + 1) = 2 * 2 ^ t := by rw [Nat.pow_succ]; omega
  have hpos : 0 < 2 ^ t := Nat.two_pow_pos t
  have hx : x = 2 ^ (t + 1) * a + 2 ^ t := by
    rw [hy, hya, hpow, Nat.mul_add, Nat.mul_one, ← Nat.mul_assoc, Nat.mul_comm (2 ^ t) 2]
  have hx1 : x - 1 = 2 ^ (t + 1) * a + (2 ^ t - 1) := by omega
  have b1 : 2 ^ t - 1 < 2 ^ (t + 1) := by omega
  have b2 : 2 ^ t < 2 ^ (t + 1) := by omega
  rw [hx1, Nat.testBit_two_pow_mul_add a b1 j]
  by_cases h1 : j < t
  · have : j < t + 1 := by omega
    simp [h1, this]
  · by_cases h2 : j = t
    · subst h2; simp
    · have : ¬ j < t + 1 := by omega
      simp only [h1, h2, this, if_false]
      rw [hx, Nat.testBit_two_pow_mul_add a b2 j]
      simp [this]

/-- The defining property of `trailing_zeros` on a non-zero word. -/
theorem tz_spec {x : BitVec 64} (hx : x ≠ 0#64) :
    tz x < 64 ∧ x.getLsbD (tz x) = true ∧ ∀ k, k < tz x → x.getLsbD k = false := by
  have hex : ∃ k, k < 64 ∧ x.getLsbD k = true := by
    apply Classical.byContradiction
    intro hno
    apply hx
    apply BitVec.eq_of_getLsbD_eq
    intro k hk
    simp only [BitVec.getLsbD_zero]
    cases hb : x.getLsbD k
    · rfl
    · exact absurd ⟨k, hk, hb⟩ hno
  obtain ⟨k0, hk0, hb0⟩ := hex
  unfold tz
  cases hf : (List.range 64).find? (fun k => x.getLsbD k) with
  | none =>
    rw [List.find?_eq_none] at hf
    exact absurd hb0 (by simpa using hf k0 (List.mem_range.mpr hk0))
  | some t =>
    simp only [Option.getD_some]
    have hmem := List.mem_of_find?_eq_some hf
    have hp := List.find?_some hf
    refine ⟨List.mem_range.mp hmem, hp, ?_⟩
    intro k hk
    rw [List.find?_eq_some_iff_append] at hf
    obtain ⟨_, as, bs, hab, hall⟩ := hf
    -- `range 64 = as ++ t :: bs`, so `as = range t`
    have hlen : as.length = t := by
      have h1 : (List.range 64)[as.length]? = some t := by rw [hab]; simp
      rw [List.getElem?_range (by
        have := congrArg List.length hab; simp at this; omega)] at h1
      exact Option.some.inj h1
    have hkmem : k ∈ as := by
      have h2 : (List.range 64)[k]? = some k := List.getElem?_range (by have := List.mem_range.mp hmem; omega)
      rw [hab, List.getElem?_append_left (by omega)] at h2
      exact List.mem_of_getElem? h2
    simpa using hall k hkmem


theorem toNat_sub_one {x : BitVec 64} (hx : x ≠ 0#64) : (x - 1#64).toNat = x.toNat - 1 := by
  have hpos : 0 < x.toNat := by
    apply Nat.pos_of_ne_zero
    intro h
    exact hx (BitVec.eq_of_toNat_eq (by simpa using h))
  have hlt := x.isLt
  rw [BitVec.toNat_sub]
  simp only [BitVec.toNat_ofNat]
  omega

/-- `x & (x - 1)` clears exactly the lowest set bit. -/
theorem clearLow_spec {x : BitVec 64} (hx : x ≠ 0#64) (k : Nat) :
    (clearLow x).getLsbD k = (x.getLsbD k && decide (k ≠ tz x)) := by
  obtain ⟨_, h1, h2⟩ := tz_spec hx
  unfold clearLow
  rw [BitVec.getLsbD_and]
  have : (x - 1#64).getLsbD k = (x.toNat - 1).testBit k := by
    rw [← toNat_sub_one hx]; rfl
  rw [this, testBit_pred (x := x.toNat) (t := tz x) h1 h2 k]
  by_cases hk : k < tz x
  · have : x.getLsbD k = false := h2 k hk
    simp [hk, this]
  · by_cases hk2 : k = tz x
    · simp [hk2]
    · simp only [hk, hk2, if_false, ne_eq, not_false_eq_true, decide_true, Bool.and_true]
      show (x.getLsbD k && x.getLsbD k) = x.getLsbD k
      simp


/-! ## the set bits of a word, ascending -/

theorem mem_bitsList {x : BitVec 64} {k : Nat} : k ∈ bitsList x ↔ k < 64 ∧ x.getLsbD k = true := by
  simp [bitsList]

theorem sorted_bitsList (x : BitVec 64) : SortedS (bitsList x) :=
  List.Pairwise.filter _ List.pairwise_lt_range

theorem bitsList_zero : bitsList 0#64 = [] := by
  simp [bitsList]

theorem popcount_eq (x : BitVec 64) : popcount x = (bitsList x).length := rfl

theorem popcount_le (x : BitVec 64) : popcount x ≤ 64 := by
  have := List.length_filter_le (fun k => x.getLsbD k) (List.range 64)
  simpa [popcount] using this

/-- `trailing_zeros` + `x &= x - 1` peel off the set bits in ascending order. -/
theorem bitsList_cons {x : BitVec 64} (hx : x ≠ 0#64) : bitsList x = tz x :: bitsList (clearLow x) := by
  obtain ⟨h0, h1, h2⟩ := tz_spec hx
  apply sortedS_ext (sorted_bitsList x)
  · refine List.pairwise_cons.mpr ⟨?_, sorted_bitsList _⟩
    intro k hk
    have := (mem_bitsList.mp hk).2
    rw [clearLow_spec hx] at this
    simp only [ne_eq, Bool.and_eq_true, decide_eq_true_eq] at this
    apply Nat.lt_of_le_of_ne
    · apply Nat.le_of_not_lt
      intro hlt
      rw [h2 k hlt] at this
      exact absurd this.1 (by decide)
    · exact fun e => this.2 e.symm
  · intro k
    simp only [List.mem_cons, mem_bitsList, clearLow_spec hx, ne_eq, Bool.and_eq_true, decide_eq_true_eq]
    constructor
    · rintro ⟨hk, hb⟩
      by_cases e : k = tz x
      · exact Or.inl e
      · exact Or.inr ⟨hk, hb, e⟩
    · rintro (e | ⟨hk, hb, _⟩)
      · subst e; exact ⟨h0, h1⟩
      · exact ⟨hk, hb⟩

theorem popcount_clearLow {x : BitVec 64} (hx : x ≠ 0#64) : popcount (clearLow x) + 1 = popcount x := by
  rw [popcount_eq, popcount_eq, bitsList_cons hx]; simp

/-! ## the cells the loop still has to visit -/

/-- Cells of the blocks `bi, bi+1, …` in order. -/
def restCells (d : AdjMatrix) (bi : Nat) : List Nat :=
  ((d.blocks.drop bi).zipIdx bi).flatMap (fun p => cellsOfBits (p.2 * 64) p.1)

theorem emit_cons (d : AdjMatrix) (c : Nat) (cs : List Nat) :
    emit d (c :: cs) = if c < d.order * d.order then (c / d.order, c % d.order) :: emit d cs else emit d cs := by
  unfold emit
  by_cases h : c < d.order * d.order <;> simp [h]

theorem restCells_ge (d : AdjMatrix) {bi : Nat} (h : d.blocks.length ≤ bi) : restCells d bi = [] := by
  unfold restCells; rw [List.drop_eq_nil_of_le h]; rfl

theorem restCells_lt (d : AdjMatrix) {bi : Nat} (h : bi < d.blocks.length) :
    restCells d bi = cellsOfBits (bi * 64) (d.blocks[bi]?.getD 0#64) ++ restCells d (bi + 1) := by
  unfold restCells
  rw [List.drop_eq_getElem_cons h]
  simp only [List.zipIdx_cons, List.flatMap_cons, List.getElem?_eq_getElem h, Option.getD_some]

/-- Loop variant: remaining set bits plus one per remaining block. -/
def restMeasure (d : AdjMatrix) (bi : Nat) : Nat := ((d.blocks.drop bi).map (fun b => popcount b + 1)).sum

def μ (d : AdjMatrix) (s : IterState) : Nat := popcount s.bits + restMeasure d s.blockIndex

theorem restMeasure_lt (d : AdjMatrix) {bi : Nat} (h : bi < d.blocks.length) :
    restMeasure d bi = popcount (d.blocks[bi]?.getD 0#64) + 1 + restMeasure d (bi + 1) := by
  unfold restMeasure
  rw [List.drop_eq_getElem_cons h]
  simp only [List.map_cons, List.sum_cons, List.getElem?_eq_getElem h, Option.getD_some]

theorem popcount_zero : popcount 0#64 = 0 := by rw [popcount_eq, bitsList_zero]; rfl

/-- The loop emits exactly the remaining cells (filtered, decoded), whenever the fuel exceeds the variant. -/
theorem drain_eq (d : AdjMatrix) : ∀ (fuel : Nat) (s : IterState), μ d s < fuel →
    drain d fuel s = emit d (cellsOfBits s.base s.bits ++ restCells d s.blockIndex) := by
  intro fuel
  induction fuel with
  | zero => intro s h; omega
  | succ fuel ih =>
    intro s hμ
    obtain ⟨bi, bits, base⟩ := s
    simp only [μ] at hμ
    unfold drain
    by_cases hb : bits = 0#64
    · subst hb
      by_cases hbi : bi < d.blocks.length
      · -- load the next block
        simp only [hbi, true_or, if_true]
        rw [restMeasure_lt d hbi, popcount_zero] at hμ
        rw [restCells_lt d hbi]
        generalize hblk : d.blocks[bi]?.getD 0#64 = blk at hμ ⊢
        simp only [cellsOfBits, bitsList_zero, List.map_nil, List.nil_append]
        by_cases hz : blk = 0#64
        · subst hz
          simp only [ne_eq, not_true_eq_false, if_false]
          rw [ih ⟨bi + 1, 0#64, bi * 64⟩ (by simp only [μ, popcount_zero]; omega)]
          simp [cellsOfBits, bitsList_zero]
        · simp only [ne_eq, hz, not_false_eq_true, if_true]
          have hs2 : μ d ⟨bi + 1, clearLow blk, bi * 64⟩ < fuel := by
            have := popcount_clearLow hz
            simp only [μ]; omega
          rw [ih _ hs2, bitsList_cons hz]
          simp only [List.map_cons, List.cons_append, emit_cons, cellsOfBits]
      · -- exhausted
        have : ¬ (bi < d.blocks.length ∨ (0#64 : BitVec 64) ≠ 0#64) := by simp [hbi]
        simp only [this, if_false]
        rw [restCells_ge d (by omega)]
        simp [cellsOfBits, bitsList_zero, emit]
    · -- consume the lowest set bit of the current word
      simp only [ne_eq, hb, not_false_eq_true, or_true, if_true, if_false]
      have hs2 : μ d ⟨bi, clearLow bits, base⟩ < fuel := by
        have := popcount_clearLow hb
        simp only [μ]; omega
      rw [ih _ hs2]
      simp only [cellsOfBits, bitsList_cons hb, List.map_cons, List.cons_append, emit_cons]

/-- Fuel adequacy: above the variant the result does not depend on the fuel (termination). -/
theorem drain_fuel_irrelevant (d : AdjMatrix) (s : IterState) (f₁ f₂ : Nat) (h₁ : μ d s < f₁) (h₂ : μ d s < f₂) :
    drain d f₁ s = drain d f₂ s := by
  rw [drain_eq d f₁ s h₁, drain_eq d f₂ s h₂]

theorem restMeasure_le (d : AdjMatrix) (bi : Nat) : restMeasure d bi ≤ 65 * (d.blocks.length - bi) := by
  unfold restMeasure
  generalize hl : d.blocks.drop bi = l
  have hlen : l.length = d.blocks.length - bi := by rw [← hl]; simp
  rw [← hlen]
  clear hl hlen
  induction l with
  | nil => simp
  | cons b bs ih =>
    have := popcount_le b
    simp only [List.map_cons, List.sum_cons, List.length_cons]
    omega

/-! ## the remaining cells in filter form -/

theorem cell_block (d : AdjMatrix) (bi k : Nat) (hk : k < 64) :
    d.cell (bi * 64 + k) = (d.blocks[bi]?.getD 0#64).getLsbD k := by
  unfold cell
  have e1 : (bi * 64 + k) / 64 = bi := by omega
  have e2 : (bi * 64 + k) % 64 = k := by omega
  rw [e1, e2]

theorem cellsOfBits_eq_filter (d : AdjMatrix) (bi : Nat) :
    cellsOfBits (bi * 64) (d.blocks[bi]?.getD 0#64) = (List.range' (bi * 64) 64).filter d.cell := by
  rw [List.range'_eq_map_range, List.filter_map]
  unfold cellsOfBits bitsList
  congr 1
  apply List.filter_congr
  intro k hk
  simp only [Function.comp]
  rw [cell_block d bi k (List.mem_range.mp hk)]

theorem restCells_eq_filter (d : AdjMatrix) : ∀ (m bi : Nat), bi + m = d.blocks.length →
    restCells d bi = (List.range' (bi * 64) (64 * m)).filter d.cell := by
  intro m
  induction m with
  | zero => intro bi h; rw [restCells_ge d (by omega)]; simp
  | succ m ih =>
    intro bi h
    rw [restCells_lt d (by omega), ih (bi + 1) (by omega), cellsOfBits_eq_filter]
    have : 64 * (m + 1) = 64 + 64 * m := by omega
    rw [this, ← List.range'_append (step := 1), List.filter_append]
    congr 3
    omega

theorem restCells_zero (d : AdjMatrix) : restCells d 0 = (List.range (64 * d.blocks.length)).filter d.cell := by
  rw [restCells_eq_filter d d.blocks.length 0 (by omega), List.range_eq_range']

theorem arcsFold_eq (d : AdjMatrix) : arcsFold d = d.arcs := by
  have h : (d.blocks.zipIdx).flatMap (fun p => if p.1 = 0#64 then [] else cellsOfBits (p.2 * 64) p.1) =
      restCells d 0 := by
    unfold restCells
    simp only [List.drop_zero]
    congr 1
    funext p
    split
    · rename_i h0; rw [h0]; simp [cellsOfBits, bitsList_zero]
    · rfl
  unfold arcsFold
  rw [h, restCells_zero]
  simp only [emit, arcs, List.filter_filter]
  congr 1
  apply List.filter_congr
  intro c _
  rw [Bool.and_comm]

/-- The literal `ArcsIterator` loop yields exactly the filter form used by `AdjMatrix.arcs`. -/
theorem arcsIter_eq (d : AdjMatrix) : arcsIter d = d.arcs := by
  unfold arcsIter
  rw [drain_eq d (iterFuel d) iterInit (by
    have := restMeasure_le d 0
    simp only [μ, iterInit, popcount_zero, iterFuel]; omega)]
  simp only [iterInit, cellsOfBits, bitsList_zero, List.map_nil, List.nil_append, restCells_zero, emit, arcs,
    List.filter_filter]
  congr 1
  apply List.filter_congr
  intro c _
  rw [Bool.and_comm]

theorem length_restCells (d : AdjMatrix) : ∀ (m bi : Nat), bi + m = d.blocks.length →
    (restCells d bi).length = ((d.blocks.drop bi).map popcount).sum := by
  intro m
  induction m with
  | zero => intro bi h; rw [restCells_ge d (by omega), List.drop_eq_nil_of_le (by omega)]; rfl
  | succ m ih =>
    intro bi h
    have hbi : bi < d.blocks.length := by omega
    rw [restCells_lt d hbi, List.length_append, ih (bi + 1) (by omega), List.drop_eq_getElem_cons hbi]
    simp only [cellsOfBits, popcount_eq, List.getElem?_eq_getElem hbi, Option.getD_some, List.length_map,
      List.map_cons, List.sum_cons]

/-- The `count_ones` sum is the number of set cells, i.e. `AdjMatrix.size`. -/
theorem sizePop_eq (d : AdjMatrix) : sizePop d = d.size := by
  unfold sizePop size
  rw [← restCells_zero, length_restCells d d.blocks.length 0 (by omega)]
  simp

end GraafVerif.Repr.AdjMatrix
