import GraafVerif.Model.Dijkstra
/-! Basic lemmas for the Dijkstra proofs: the heap (`popMax`), `dOf`/`set`, walks. -/
namespace GraafVerif.Dijkstra
open GraafVerif

/-! ### `popMax` returns a member of minimal key and erases it -/

theorem lt_d_le {a b : Entry} (h : a.lt b = true) : b.d ≤ a.d := by
  unfold Entry.lt at h
  simp only [Bool.or_eq_true, Bool.and_eq_true, decide_eq_true_eq] at h
  rcases h with h | ⟨h, _⟩ <;> omega

theorem not_lt_d_le {a b : Entry} (h : ¬ a.lt b = true) : a.d ≤ b.d := by
  unfold Entry.lt at h
  simp only [Bool.or_eq_true, Bool.and_eq_true, decide_eq_true_eq, not_or] at h
  omega

theorem maxEntry_mem (a : Entry) (r : List Entry) : maxEntry a r ∈ a :: r := by
  induction r generalizing a with
  | nil => simp [maxEntry]
  | cons b r ih =>
    simp only [maxEntry]
    have := ih (if a.lt b then b else a)
    by_cases hl : a.lt b = true
    · simp only [hl, if_true] at this ⊢
      exact List.mem_cons_of_mem _ this
    · simp only [hl] at this ⊢
      rcases List.mem_cons.mp this with h | h
      · rw [h]; simp
      · exact List.mem_cons_of_mem _ (List.mem_cons_of_mem _ h)

theorem maxEntry_le (a : Entry) (r : List Entry) : ∀ b ∈ a :: r, (maxEntry a r).d ≤ b.d := by
  induction r generalizing a with
  | nil => intro b hb; simp at hb; subst hb; simp [maxEntry]
  | cons c r ih =>
    intro b hb
    simp only [maxEntry]
    by_cases hl : a.lt c = true
    · simp only [hl, if_true]
      have h1 := ih c
      rcases List.mem_cons.mp hb with rfl | hb
      · have := h1 c (by simp); have := lt_d_le hl; omega
      · exact h1 b hb
    · simp only [hl]
      have h1 := ih a
      rcases List.mem_cons.mp hb with rfl | hb
      · exact h1 _ (by simp)
      · rcases List.mem_cons.mp hb with rfl | hb
        · have := h1 a (by simp); have := not_lt_d_le hl; simp at this ⊢; omega
        · exact h1 b (by simp [hb])

theorem popMax_some {h h' : List Entry} {e : Entry} (hp : popMax h = some (e, h')) :
    e ∈ h ∧ h' = h.erase e ∧ ∀ b ∈ h, e.d ≤ b.d := by
  cases h with
  | nil => simp [popMax] at hp
  | cons a r =>
    simp only [popMax, Option.some.injEq, Prod.mk.injEq] at hp
    obtain ⟨rfl, rfl⟩ := hp
    exact ⟨maxEntry_mem a r, rfl, maxEntry_le a r⟩

theorem popMax_none {h : List Entry} (hp : popMax h = none) : h = [] := by
  cases h with
  | nil => rfl
  | cons a r => simp [popMax] at hp

/-! ### `dOf` and `set` -/

theorem dOf_set_eq (dist : List (Option Int)) (x : Nat) (a : Option Int) (h : x < dist.length) :
    dOf (dist.set x a) x = a := by
  simp [dOf, h]

theorem dOf_set_ne (dist : List (Option Int)) (x y : Nat) (a : Option Int) (h : y ≠ x) :
    dOf (dist.set x a) y = dOf dist y := by
  have : x ≠ y := fun e => h e.symm
  simp [dOf, List.getElem?_set_ne this]

theorem dOf_replicate (n v : Nat) : dOf (List.replicate n none) v = none := by
  unfold dOf; by_cases h : v < n <;> simp [h]

theorem dOf_some_lt {dist : List (Option Int)} {v : Nat} {d : Int} (h : dOf dist v = some d) :
    v < dist.length := by
  unfold dOf at h
  rcases hlt : dist[v]? with _ | b
  · simp [hlt] at h
  · exact (List.getElem?_eq_some_iff.mp hlt).1

theorem improves_iff (dn : Int) (o : Option Int) :
    improves dn o = true ↔ ∀ dx, o = some dx → dn < dx := by
  cases o <;> simp [improves]

/-! ### walks from the source set -/

/-- `d` is the weight of some walk from a source to `v`. -/
def SrcWalk (g : WGraph) (S : List Nat) (v : Nat) (d : Int) : Prop := ∃ s ∈ S, ∃ k, WWalk g s v k d

theorem WWalk.nonneg {g : WGraph} (hw : g.NonNeg) {u v k wt} (h : WWalk g u v k wt) : 0 ≤ wt := by
  induction h with
  | nil => exact Int.le_refl 0
  | snoc _ ha ih => have := hw _ _ _ ha; omega

theorem SrcWalk.nonneg {g : WGraph} (hw : g.NonNeg) {S v d} (h : SrcWalk g S v d) : 0 ≤ d := by
  obtain ⟨s, _, k, hk⟩ := h; exact WWalk.nonneg hw hk

theorem SrcWalk.snoc {g : WGraph} {S v d x w} (h : SrcWalk g S v d) (ha : (x, w) ∈ g.out v) :
    SrcWalk g S x (d + w) := by
  obtain ⟨s, hs, k, hk⟩ := h; exact ⟨s, hs, k+1, WWalk.snoc hk ha⟩

theorem SrcWalk.src {g : WGraph} {S s} (h : s ∈ S) : SrcWalk g S s 0 := ⟨s, h, 0, WWalk.nil s⟩

/-! ### list helpers -/

theorem mem_erase_of_key_nodup {α β : Type} [DecidableEq α] (f : α → β) (l : List α) (e e' : α)
    (hnd : (l.map f).Nodup) (he : e ∈ l) (he' : e' ∈ l.erase e) : f e' ≠ f e := by
  have hperm := List.perm_cons_erase he
  have hnd' : ((e :: l.erase e).map f).Nodup := (hperm.map f).nodup_iff.mp hnd
  simp only [List.map_cons, List.nodup_cons] at hnd'
  intro heq
  exact hnd'.1 (heq ▸ List.mem_map.mpr ⟨e', he', rfl⟩)

theorem nodup_map_erase {α β : Type} [DecidableEq α] (f : α → β) (l : List α) (e : α)
    (hnd : (l.map f).Nodup) : ((l.erase e).map f).Nodup :=
  hnd.sublist (List.erase_sublist.map f)

theorem eq_of_nodup_map {α β : Type} (f : α → β) (l : List α) (hnd : (l.map f).Nodup)
    {a b : α} (ha : a ∈ l) (hb : b ∈ l) (h : f a = f b) : a = b := by
  induction l with
  | nil => simp at ha
  | cons c l ih =>
    simp only [List.map_cons, List.nodup_cons] at hnd
    rcases List.mem_cons.mp ha with ha1 | ha1
    · rcases List.mem_cons.mp hb with hb1 | hb1
      · rw [ha1, hb1]
      · subst ha1; exact absurd (by rw [h]; exact List.mem_map_of_mem hb1) hnd.1
    · rcases List.mem_cons.mp hb with hb1 | hb1
      · subst hb1; exact absurd (by rw [← h]; exact List.mem_map_of_mem ha1) hnd.1
      · exact ih hnd.2 ha1 hb1

end GraafVerif.Dijkstra
